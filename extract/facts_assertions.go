package main

import (
	"fmt"
	"go/ast"
	"os"
	"path/filepath"
	"regexp"
	"strconv"
	"strings"
)

// Assertions: facts about assertion storage (C31).
//   - memory: the key format of WriteAssertions/ReadAssertions and its arguments, the map assignment,
//     the miss result; DeleteStore does not touch the assertions map
//   - sqlite: table / columns / ON CONFLICT suffix of WriteAssertions, the WHERE keys of ReadAssertions,
//     the ErrNoRows branch; the PRIMARY KEY of table `assertion` in the migrations; DeleteStore's table
//   - commands.WriteAssertionsCommand.Execute: guard/call order, the size limit
func init() {
	register("Assertions", func(repo string) (Result, error) {
		var sb strings.Builder
		sb.WriteString(genHeader)
		sb.WriteString("namespace OpenFGAVerif.Gen.Assertions\n\n")
		summary := map[string]interface{}{}

		// ---- memory
		fset, f, err := parseFile(repo, "pkg/storage/memory/memory.go")
		if err != nil {
			return Result{}, err
		}
		keyOf := func(name string) (format string, args []string, e error) {
			fd := findFunc(f, "MemoryBackend", name)
			if fd == nil {
				return "", nil, fmt.Errorf("memory.%s not found", name)
			}
			ast.Inspect(fd.Body, func(n ast.Node) bool {
				as, ok := n.(*ast.AssignStmt)
				if !ok || len(as.Lhs) != 1 || len(as.Rhs) != 1 || src(fset, as.Lhs[0]) != "assertionsID" {
					return true
				}
				ce, ok := as.Rhs[0].(*ast.CallExpr)
				if !ok || src(fset, ce.Fun) != "fmt.Sprintf" || len(ce.Args) < 1 {
					return true
				}
				if bl, ok := ce.Args[0].(*ast.BasicLit); ok {
					format, _ = strconv.Unquote(bl.Value)
				}
				for _, a := range ce.Args[1:] {
					args = append(args, src(fset, a))
				}
				return true
			})
			if format == "" {
				return "", nil, fmt.Errorf("memory.%s: assertionsID := fmt.Sprintf(<literal>, …) not found", name)
			}
			return
		}
		wf, wargs, err := keyOf("WriteAssertions")
		if err != nil {
			return Result{}, err
		}
		rf, rargs, err := keyOf("ReadAssertions")
		if err != nil {
			return Result{}, err
		}
		sepOf := func(format string) (string, error) {
			if !strings.HasPrefix(format, "%s") || !strings.HasSuffix(format, "%s") || strings.Count(format, "%") != 2 {
				return "", fmt.Errorf("assertion key format %q is not %%s<sep>%%s", format)
			}
			return strings.TrimSuffix(strings.TrimPrefix(format, "%s"), "%s"), nil
		}
		wsep, err := sepOf(wf)
		if err != nil {
			return Result{}, err
		}
		rsep, err := sepOf(rf)
		if err != nil {
			return Result{}, err
		}
		wfd := findFunc(f, "MemoryBackend", "WriteAssertions")
		rfd := findFunc(f, "MemoryBackend", "ReadAssertions")
		_, _, wrets, wassigns, _ := condSkeleton(fset, wfd)
		rconds, _, rrets, rassigns, _ := condSkeleton(fset, rfd)
		dfd := findFunc(f, "MemoryBackend", "DeleteStore")
		if dfd == nil {
			return Result{}, fmt.Errorf("memory.DeleteStore not found")
		}
		memDeleteTouches := strings.Contains(src(fset, dfd.Body), "assertions")
		sb.WriteString("/-- separator of memory's assertion key in WriteAssertions / ReadAssertions -/\n")
		sb.WriteString("def memWriteSep : List UInt8 := " + leanBytes(wsep) + "\n")
		sb.WriteString("def memReadSep : List UInt8 := " + leanBytes(rsep) + "\n")
		sb.WriteString("def memWriteKeyArgs : List String := " + leanStrList(wargs) + "\n")
		sb.WriteString("def memReadKeyArgs : List String := " + leanStrList(rargs) + "\n")
		sb.WriteString("def memWriteAssigns : List String := " + leanStrList(wassigns) + "\n")
		sb.WriteString("def memWriteReturns : List String := " + leanStrList(wrets) + "\n")
		sb.WriteString("def memReadAssigns : List String := " + leanStrList(rassigns) + "\n")
		sb.WriteString("def memReadIfs : List String := " + leanStrList(rconds) + "\n")
		sb.WriteString("def memReadReturns : List String := " + leanStrList(rrets) + "\n")
		sb.WriteString(fmt.Sprintf("def memDeleteStoreTouchesAssertions : Bool := %v\n\n", memDeleteTouches))

		// ---- sqlite
		fset2, f2, err := parseFile(repo, "pkg/storage/sqlite/sqlite.go")
		if err != nil {
			return Result{}, err
		}
		builder := func(name string) ([]string, []string, []string, error) {
			fd := findFunc(f2, "Datastore", name)
			if fd == nil {
				return nil, nil, nil, fmt.Errorf("sqlite.%s not found", name)
			}
			var chain []string
			ast.Inspect(fd.Body, func(n ast.Node) bool {
				ce, ok := n.(*ast.CallExpr)
				if !ok {
					return true
				}
				se, ok := ce.Fun.(*ast.SelectorExpr)
				if !ok {
					return true
				}
				switch se.Sel.Name {
				case "Insert", "Columns", "Values", "Suffix", "Select", "From", "Where", "Update", "Set", "Scan", "QueryRowContext", "ExecContext":
					var as []string
					for _, a := range ce.Args {
						as = append(as, src(fset2, a))
					}
					chain = append(chain, se.Sel.Name+"("+strings.Join(as, ", ")+")")
				}
				return true
			})
			conds, _, rets, _, _ := condSkeleton(fset2, fd)
			return chain, conds, rets, nil
		}
		// the builder chain is visited outermost call first: reverse to get source order
		rev := func(xs []string) []string {
			out := make([]string, len(xs))
			for i, x := range xs {
				out[len(xs)-1-i] = x
			}
			return out
		}
		wchain, _, _, err := builder("WriteAssertions")
		if err != nil {
			return Result{}, err
		}
		rchain, rconds2, rrets2, err := builder("ReadAssertions")
		if err != nil {
			return Result{}, err
		}
		dchain, _, _, err := builder("DeleteStore")
		if err != nil {
			return Result{}, err
		}
		wfd2 := findFunc(f2, "Datastore", "WriteAssertions")
		_, _, _, wassigns2, _ := condSkeleton(fset2, wfd2)
		marshal := ""
		for _, a := range wassigns2 {
			if strings.Contains(a, "proto.Marshal") {
				marshal = a
			}
		}
		rfd2 := findFunc(f2, "Datastore", "ReadAssertions")
		_, rcalls2, _, _, _ := condSkeleton(fset2, rfd2)
		unmarshal := false
		for _, c := range rcalls2 {
			if c == "proto.Unmarshal" {
				unmarshal = true
			}
		}
		sb.WriteString("/-- sqlite.WriteAssertions: the statement builder calls in source order -/\n")
		sb.WriteString("def sqlWriteChain : List String := " + leanStrList(rev(wchain)) + "\n")
		sb.WriteString("def sqlWriteMarshal : String := " + leanStr(marshal) + "\n")
		sb.WriteString("def sqlReadChain : List String := " + leanStrList(rev(rchain)) + "\n")
		sb.WriteString("def sqlReadIfs : List String := " + leanStrList(rconds2) + "\n")
		sb.WriteString("def sqlReadReturns : List String := " + leanStrList(rrets2) + "\n")
		sb.WriteString(fmt.Sprintf("def sqlReadUnmarshals : Bool := %v\n", unmarshal))
		sb.WriteString("def sqlDeleteStoreChain : List String := " + leanStrList(rev(dchain)) + "\n")

		// migrations: PRIMARY KEY of table assertion
		files, _ := filepath.Glob(filepath.Join(repo, "assets/migrations/sqlite/*.sql"))
		pk := ""
		re := regexp.MustCompile(`(?s)CREATE TABLE assertion \((.*?)\);`)
		rePK := regexp.MustCompile(`PRIMARY KEY \(([^)]*)\)`)
		for _, fn := range files {
			b, err := os.ReadFile(fn)
			if err != nil {
				continue
			}
			if m := re.FindSubmatch(b); m != nil {
				if p := rePK.FindSubmatch(m[1]); p != nil {
					pk = strings.Join(strings.Fields(string(p[1])), " ")
				}
			}
		}
		if pk == "" {
			return Result{}, fmt.Errorf("sqlite migrations: CREATE TABLE assertion … PRIMARY KEY (…) not found")
		}
		sb.WriteString("/-- PRIMARY KEY of table `assertion` (assets/migrations/sqlite) -/\n")
		sb.WriteString("def sqlAssertionPrimaryKey : String := " + leanStr(pk) + "\n\n")

		// ---- command
		fset3, f3, err := parseFile(repo, "pkg/server/commands/write_assertions.go")
		if err != nil {
			return Result{}, err
		}
		ex := findFunc(f3, "WriteAssertionsCommand", "Execute")
		if ex == nil {
			return Result{}, fmt.Errorf("WriteAssertionsCommand.Execute not found")
		}
		cconds, ccalls, crets, _, _ := condSkeleton(fset3, ex)
		var keyCalls []string
		for _, c := range ccalls {
			switch c {
			case "w.datastore.ReadAuthorizationModel", "typesystem.IsSchemaVersionSupported", "typesystem.New", "proto.Size",
				"validation.ValidateUserObjectRelation", "validation.ValidateTupleForWrite", "w.datastore.WriteAssertions":
				keyCalls = append(keyCalls, c)
			}
		}
		maxBytes := -1
		for _, d := range f3.Decls {
			gd, ok := d.(*ast.GenDecl)
			if !ok {
				continue
			}
			for _, s := range gd.Specs {
				vs, ok := s.(*ast.ValueSpec)
				if !ok {
					continue
				}
				for i, n := range vs.Names {
					if n.Name == "DefaultMaxAssertionSizeInBytes" && i < len(vs.Values) {
						if v, err := strconv.Atoi(src(fset3, vs.Values[i])); err == nil {
							maxBytes = v
						}
					}
				}
			}
		}
		if maxBytes < 0 {
			return Result{}, fmt.Errorf("DefaultMaxAssertionSizeInBytes literal not found")
		}
		sb.WriteString("/-- WriteAssertionsCommand.Execute: `if` conditions, the calls that matter and returns, in source order -/\n")
		sb.WriteString("def cmdIfs : List String := " + leanStrList(cconds) + "\n")
		sb.WriteString("def cmdCalls : List String := " + leanStrList(keyCalls) + "\n")
		sb.WriteString("def cmdReturns : List String := " + leanStrList(crets) + "\n")
		sb.WriteString(fmt.Sprintf("def cmdMaxBytes : Nat := %d\n", maxBytes))
		// sqlite's busyRetry wraps every write statement (WriteAssertions included): its control skeleton decides
		// whether a write that never ran can report success
		busyBody := ""
		if fsB, fB, errB := parseFile(repo, "pkg/storage/sqlite/sqlite.go"); errB == nil {
			if fd := findFunc(fB, "", "busyRetry"); fd != nil {
				busyBody = src(fsB, fd.Body)
			}
		}
		sb.WriteString("/-- body of sqlite.busyRetry -/\n")
		sb.WriteString("def sqliteBusyRetryBody : String := " + leanStr(busyBody) + "\n")
		sb.WriteString("\nend OpenFGAVerif.Gen.Assertions\n")
		summary["memKey"] = []string{wf, rf}
		summary["sqlWriteChain"] = rev(wchain)
		summary["sqlReadChain"] = rev(rchain)
		summary["primaryKey"] = pk
		summary["cmdCalls"] = keyCalls
		summary["cmdMaxBytes"] = maxBytes
		return Result{Lean: sb.String(), Summary: summary}, nil
	})
}
