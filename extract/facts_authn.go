package main

import (
	"fmt"
	"go/ast"
	"go/token"
	"strings"
)

// Authn: facts about authentication, used by C27.
//   - internal/authn/presharedkey/presharedkey.go: control skeletons of NewPresharedKeyAuthenticator and Authenticate,
//     the scheme handed to grpcauth.AuthFromMD, the compare primitive
//   - internal/authn/oidc/oidc.go Authenticate: the jwt parser option list (composite literal + appends), the list of
//     valid issuers (literal + append), the options of the stand-alone issuer / subject validators, the guard of the
//     subject check, the control skeleton, the keyfunc options (RefreshUnknownKID)
//   - internal/middleware/authn/authn.go: control skeleton of AuthFunc

func init() {
	register("Authn", func(repo string) (Result, error) {
		// ---------- preshared ----------
		pfset, pf, err := parseFile(repo, "internal/authn/presharedkey/presharedkey.go")
		if err != nil {
			return Result{}, err
		}
		pNew := findFunc(pf, "", "NewPresharedKeyAuthenticator")
		pAuth := findFunc(pf, "PresharedKeyAuthenticator", "Authenticate")
		if pNew == nil || pAuth == nil {
			return Result{}, fmt.Errorf("presharedkey: NewPresharedKeyAuthenticator / Authenticate not found")
		}
		skPNew := authzSkeleton(pfset, pNew.Body)
		skPAuth := authzSkeleton(pfset, pAuth.Body)
		scheme := func(fset2 *token.FileSet, fd *ast.FuncDecl) string {
			s := ""
			ast.Inspect(fd.Body, func(n ast.Node) bool {
				if ce, ok := n.(*ast.CallExpr); ok && src(fset2, ce.Fun) == "grpcauth.AuthFromMD" && len(ce.Args) == 2 {
					s = src(fset2, ce.Args[1])
				}
				return true
			})
			return s
		}
		pScheme := scheme(pfset, pAuth)
		if pScheme == "" {
			return Result{}, fmt.Errorf("presharedkey.Authenticate: grpcauth.AuthFromMD call not found")
		}

		// ---------- oidc ----------
		ofset, of, err := parseFile(repo, "internal/authn/oidc/oidc.go")
		if err != nil {
			return Result{}, err
		}
		oAuth := findFunc(of, "RemoteOidcAuthenticator", "Authenticate")
		oNew := findFunc(of, "", "NewRemoteOidcAuthenticator")
		oKeys := findFunc(of, "RemoteOidcAuthenticator", "GetKeys")
		if oAuth == nil || oNew == nil || oKeys == nil {
			return Result{}, fmt.Errorf("oidc: Authenticate / NewRemoteOidcAuthenticator / GetKeys not found")
		}
		oScheme := scheme(ofset, oAuth)
		if oScheme == "" {
			return Result{}, fmt.Errorf("oidc.Authenticate: grpcauth.AuthFromMD call not found")
		}
		type opt struct {
			Name string
			Args []string
		}
		optOf := func(e ast.Expr) (opt, bool) {
			ce, ok := e.(*ast.CallExpr)
			if !ok {
				return opt{}, false
			}
			name := src(ofset, ce.Fun)
			if !strings.HasPrefix(name, "jwt.") {
				return opt{}, false
			}
			o := opt{Name: strings.TrimPrefix(name, "jwt.")}
			for _, a := range ce.Args {
				// []string{"RS256"} -> the literal elements
				if cl, ok := a.(*ast.CompositeLit); ok {
					for _, el := range cl.Elts {
						o.Args = append(o.Args, strings.Trim(src(ofset, el), `"`))
					}
					continue
				}
				o.Args = append(o.Args, src(ofset, a))
			}
			return o, true
		}
		var parserOpts []opt
		var parserVar string
		var issuers []string
		var issuerVar string
		var validators [][]opt // options of each jwt.NewValidator(...) call, in source order
		var subjectGuard string
		bad := ""
		ast.Inspect(oAuth.Body, func(n ast.Node) bool {
			switch x := n.(type) {
			case *ast.AssignStmt:
				if len(x.Lhs) == 1 && len(x.Rhs) == 1 {
					lhs := src(ofset, x.Lhs[0])
					if cl, ok := x.Rhs[0].(*ast.CompositeLit); ok {
						switch src(ofset, cl.Type) {
						case "[]jwt.ParserOption":
							parserVar = lhs
							for _, el := range cl.Elts {
								o, ok := optOf(el)
								if !ok {
									bad = "parser option literal element is not a jwt.With... call: " + src(ofset, el)
								}
								parserOpts = append(parserOpts, o)
							}
						case "[]string":
							if strings.Contains(strings.ToLower(lhs), "issuer") {
								issuerVar = lhs
								for _, el := range cl.Elts {
									issuers = append(issuers, src(ofset, el))
								}
							}
						}
					}
					if ce, ok := x.Rhs[0].(*ast.CallExpr); ok && src(ofset, ce.Fun) == "append" && len(ce.Args) >= 2 {
						target := src(ofset, ce.Args[0])
						if target == parserVar && lhs == parserVar && parserVar != "" {
							for _, a := range ce.Args[1:] {
								o, ok := optOf(a)
								if !ok {
									bad = "appended parser option is not a jwt.With... call: " + src(ofset, a)
								}
								parserOpts = append(parserOpts, o)
							}
						}
						if target == issuerVar && lhs == issuerVar && issuerVar != "" {
							for _, a := range ce.Args[1:] {
								s := src(ofset, a)
								if ce.Ellipsis.IsValid() {
									s += "..."
								}
								issuers = append(issuers, s)
							}
						}
					}
				}
			case *ast.CallExpr:
				if src(ofset, x.Fun) == "jwt.NewValidator" {
					var os []opt
					for _, a := range x.Args {
						o, ok := optOf(a)
						if !ok {
							bad = "validator option is not a jwt.With... call: " + src(ofset, a)
						}
						os = append(os, o)
					}
					validators = append(validators, os)
				}
			case *ast.IfStmt:
				c := src(ofset, x.Cond)
				if strings.Contains(c, "oidc.Subjects") && subjectGuard == "" {
					subjectGuard = c
				}
			}
			return true
		})
		if bad != "" {
			return Result{}, fmt.Errorf("oidc.Authenticate: %s", bad)
		}
		if parserVar == "" || len(parserOpts) == 0 {
			return Result{}, fmt.Errorf("oidc.Authenticate: []jwt.ParserOption literal not found")
		}
		if issuerVar == "" {
			return Result{}, fmt.Errorf("oidc.Authenticate: valid issuer list not found")
		}
		// the parser must be built from exactly that option variable
		parserBuilt := strings.Contains(src(ofset, oAuth.Body), "jwt.NewParser("+parserVar+"...)")
		skOAuth := authzSkeleton(ofset, oAuth.Body)
		skONew := authzSkeleton(ofset, oNew.Body)
		keyOpts := ""
		ast.Inspect(oKeys.Body, func(n ast.Node) bool {
			if cl, ok := n.(*ast.CompositeLit); ok && src(ofset, cl.Type) == "keyfunc.Options" {
				keyOpts = src(ofset, cl)
			}
			return true
		})

		// ---------- middleware ----------
		mfset, mf, err := parseFile(repo, "internal/middleware/authn/authn.go")
		if err != nil {
			return Result{}, err
		}
		af := findFunc(mf, "", "AuthFunc")
		if af == nil {
			return Result{}, fmt.Errorf("middleware/authn: AuthFunc not found")
		}
		var skMW []string
		ast.Inspect(af.Body, func(n ast.Node) bool {
			if fl, ok := n.(*ast.FuncLit); ok && skMW == nil {
				skMW = authzSkeleton(mfset, fl.Body)
				return false
			}
			return true
		})
		if skMW == nil {
			return Result{}, fmt.Errorf("middleware/authn: AuthFunc does not return a func literal")
		}

		leanOpts := func(os []opt) string {
			parts := make([]string, len(os))
			for i, o := range os {
				parts[i] = "(" + leanStr(o.Name) + ", " + leanStrList(o.Args) + ")"
			}
			return "[" + strings.Join(parts, ", ") + "]"
		}
		var sb strings.Builder
		sb.WriteString(genHeader)
		sb.WriteString("namespace OpenFGAVerif.Gen.Authn\n\n")
		sb.WriteString("/-- scheme argument of grpcauth.AuthFromMD in the preshared / OIDC authenticators (Go source text) -/\n")
		sb.WriteString("def presharedScheme : String := " + leanStr(pScheme) + "\n")
		sb.WriteString("def oidcScheme : String := " + leanStr(oScheme) + "\n")
		sb.WriteString("def skPresharedNew : List String := " + leanStrList(skPNew) + "\n")
		sb.WriteString("def skPresharedAuthenticate : List String := " + leanStrList(skPAuth) + "\n")
		sb.WriteString("/-- options handed to jwt.NewParser in oidc.Authenticate: (name, arguments), literal elements then appends -/\n")
		sb.WriteString("def parserOptions : List (String × List String) := " + leanOpts(parserOpts) + "\n")
		sb.WriteString("def parserBuiltFromOptions : Bool := " + leanBool(parserBuilt) + "\n")
		sb.WriteString("/-- the list the issuer is looked up in: literal elements, then appended arguments -/\n")
		sb.WriteString("def validIssuers : List String := " + leanStrList(issuers) + "\n")
		sb.WriteString("/-- options of each stand-alone jwt.NewValidator(...) in source order (issuer loop, subject loop) -/\n")
		sb.WriteString("def validatorOptions : List (List (String × List String)) := [" + func() string {
			parts := make([]string, len(validators))
			for i, v := range validators {
				parts[i] = leanOpts(v)
			}
			return strings.Join(parts, ", ")
		}() + "]\n")
		sb.WriteString("def subjectGuard : String := " + leanStr(subjectGuard) + "\n")
		sb.WriteString("def skOidcAuthenticate : List String := " + leanStrList(skOAuth) + "\n")
		sb.WriteString("def skOidcNew : List String := " + leanStrList(skONew) + "\n")
		sb.WriteString("def keyfuncOptions : String := " + leanStr(keyOpts) + "\n")
		sb.WriteString("def skAuthFunc : List String := " + leanStrList(skMW) + "\n")
		// every statement in oidc.go that writes a field of the authenticator after construction: the accepted
		// issuers / audience / subjects must come from the configuration only
		var oidcFieldWrites []string
		if fsO, fO, errO := parseFile(repo, "internal/authn/oidc/oidc.go"); errO == nil {
			for _, d := range fO.Decls {
				fd, ok := d.(*ast.FuncDecl)
				if !ok || fd.Body == nil {
					continue
				}
				ast.Inspect(fd.Body, func(n ast.Node) bool {
					if as, ok := n.(*ast.AssignStmt); ok {
						for _, l := range as.Lhs {
							if se, ok := l.(*ast.SelectorExpr); ok {
								if id, ok := se.X.(*ast.Ident); ok && (id.Name == "oidc" || id.Name == "client") {
									oidcFieldWrites = append(oidcFieldWrites, fd.Name.Name+": "+src(fsO, as))
								}
							}
						}
					}
					return true
				})
			}
		}
		sb.WriteString("/-- assignments to fields of the OIDC authenticator outside its composite literal -/\n")
		sb.WriteString("def oidcFieldWrites : List String := " + leanStrList(oidcFieldWrites) + "\n")
		sb.WriteString("\nend OpenFGAVerif.Gen.Authn\n")
		return Result{Lean: sb.String(), Summary: map[string]interface{}{
			"parserOptions": parserOpts, "validIssuers": issuers, "validatorOptions": validators, "subjectGuard": subjectGuard,
			"presharedScheme": pScheme, "oidcScheme": oScheme, "keyfuncOptions": keyOpts,
		}}, nil
	})
}
