package main

import (
	"fmt"
	"go/ast"
	goparser "go/parser"
	"go/token"
	"os"
	"path/filepath"
	"sort"
	"strconv"
	"strings"
)

// Authz: facts about API access control, used by C26.
//   - internal/authz/authz.go: the method -> relation switch of getRelation (resolved to the string values of the
//     apimethod / relation constants), MaxModulesInRequest, the control skeletons of Authorize, individualAuthorize,
//     moduleAuthorize, checkAuthClaims, AuthorizeCreateStore, AuthorizeListStores, ListAuthorizedStores,
//     the contextual tuples handed to the nested Check
//   - pkg/server/server.go: the control skeletons of checkAuthz, checkCreateStoreAuthz, getAccessibleStores, checkWriteAuthz
//   - pkg/server/*.go: for every RPC handler (exported *Server method taking a *...Request) the ordered list of
//     security-relevant events: authorizer call / resolveTypesystem / reference to a data-bearing field / call of another handler
//     (helpers of *Server are inlined)
//   - ListStores: whether Server.ListStores stops on an empty non-nil granted list (finding F3), and the
//     "empty ID list = no filter" conditions of the memory and sqlite backends

// authzSkeleton renders the control structure of a function body as a flat list of strings.
// Telemetry statements (spans, ctx tags) are dropped.
func authzSkeleton(fset *token.FileSet, body *ast.BlockStmt) []string {
	var out []string
	telemetry := func(s string) bool {
		return strings.Contains(s, "tracer.Start") || strings.Contains(s, "span.") || strings.Contains(s, "grpc_ctxtags") ||
			strings.HasPrefix(s, "methodName :=") || strings.Contains(s, "s.logger.") || strings.Contains(s, "a.logger.")
	}
	var walk func(list []ast.Stmt)
	walk = func(list []ast.Stmt) {
		for _, st := range list {
			switch x := st.(type) {
			case *ast.IfStmt:
				h := "if "
				if x.Init != nil {
					h += src(fset, x.Init) + "; "
				}
				out = append(out, h+src(fset, x.Cond)+" {")
				walk(x.Body.List)
				out = append(out, "}")
				if x.Else != nil {
					out = append(out, "else {")
					switch e := x.Else.(type) {
					case *ast.BlockStmt:
						walk(e.List)
					default:
						walk([]ast.Stmt{e})
					}
					out = append(out, "}")
				}
			case *ast.ReturnStmt:
				parts := make([]string, len(x.Results))
				for i, r := range x.Results {
					parts[i] = src(fset, r)
				}
				out = append(out, "return "+strings.Join(parts, ", "))
			case *ast.RangeStmt:
				out = append(out, "for range "+src(fset, x.X)+" {")
				walk(x.Body.List)
				out = append(out, "}")
			case *ast.ForStmt:
				out = append(out, "for {")
				walk(x.Body.List)
				out = append(out, "}")
			case *ast.GoStmt:
				if fl, ok := x.Call.Fun.(*ast.FuncLit); ok {
					out = append(out, "go {")
					walk(fl.Body.List)
					out = append(out, "}")
				} else {
					out = append(out, "go "+src(fset, x.Call))
				}
			case *ast.BlockStmt:
				walk(x.List)
			case *ast.SwitchStmt:
				out = append(out, "switch "+src(fset, x.Tag)+" {")
				for _, c := range x.Body.List {
					cc := c.(*ast.CaseClause)
					if cc.List == nil {
						out = append(out, "default:")
					} else {
						parts := make([]string, len(cc.List))
						for i, e := range cc.List {
							parts[i] = src(fset, e)
						}
						out = append(out, "case "+strings.Join(parts, ", ")+":")
					}
					walk(cc.Body)
				}
				out = append(out, "}")
			default:
				s := src(fset, st)
				if telemetry(s) {
					continue
				}
				out = append(out, s)
			}
		}
	}
	walk(body.List)
	return out
}

type authzEvent struct {
	Kind string // authz | typesys | data | call
	Arg  string
	Ret  bool // the error of the call is returned right away
	Top  bool // the call is a top-level statement of the handler (or of a helper inlined at top level)
}

func leanBool(b bool) string {
	if b {
		return "true"
	}
	return "false"
}

func init() {
	register("Authz", func(repo string) (Result, error) {
		// ---------- apimethod constants ----------
		_, fm, err := parseFile(repo, "internal/utils/apimethod/apimethod.go")
		if err != nil {
			// the file name is not fixed: take every non-test file of the package
			return Result{}, err
		}
		apiConst := map[string]string{}
		for _, d := range fm.Decls {
			gd, ok := d.(*ast.GenDecl)
			if !ok || gd.Tok != token.CONST {
				continue
			}
			for _, s := range gd.Specs {
				v := s.(*ast.ValueSpec)
				for i, n := range v.Names {
					if i < len(v.Values) {
						if bl, ok := v.Values[i].(*ast.BasicLit); ok && bl.Kind == token.STRING {
							u, _ := strconv.Unquote(bl.Value)
							apiConst[n.Name] = u
						}
					}
				}
			}
		}
		if len(apiConst) == 0 {
			return Result{}, fmt.Errorf("apimethod: no string constants found")
		}

		// ---------- authz.go ----------
		fset, f, err := parseFile(repo, "internal/authz/authz.go")
		if err != nil {
			return Result{}, err
		}
		relConst := stringConsts(f)
		maxModules := -1
		for _, d := range f.Decls {
			gd, ok := d.(*ast.GenDecl)
			if !ok || gd.Tok != token.CONST {
				continue
			}
			for _, s := range gd.Specs {
				v := s.(*ast.ValueSpec)
				for i, n := range v.Names {
					if n.Name == "MaxModulesInRequest" && i < len(v.Values) {
						if bl, ok := v.Values[i].(*ast.BasicLit); ok && bl.Kind == token.INT {
							maxModules, _ = strconv.Atoi(bl.Value)
						}
					}
				}
			}
		}
		if maxModules < 0 {
			return Result{}, fmt.Errorf("MaxModulesInRequest: integer literal not found")
		}
		gr := findFunc(f, "Authorizer", "getRelation")
		if gr == nil {
			return Result{}, fmt.Errorf("Authorizer.getRelation not found")
		}
		var sw *ast.SwitchStmt
		for _, st := range gr.Body.List {
			if s, ok := st.(*ast.SwitchStmt); ok {
				sw = s
			}
		}
		if sw == nil || src(fset, sw.Tag) != "apiMethod" {
			return Result{}, fmt.Errorf("getRelation: `switch apiMethod` not found")
		}
		type mr struct{ M, R string }
		var table []mr
		defaultRejects := false
		for _, c := range sw.Body.List {
			cc := c.(*ast.CaseClause)
			if len(cc.Body) != 1 {
				return Result{}, fmt.Errorf("getRelation: case with %d statements", len(cc.Body))
			}
			rs, ok := cc.Body[0].(*ast.ReturnStmt)
			if !ok || len(rs.Results) != 2 {
				return Result{}, fmt.Errorf("getRelation: case body is not `return x, y`")
			}
			if cc.List == nil {
				defaultRejects = src(fset, rs.Results[0]) == `""` && src(fset, rs.Results[1]) != "nil"
				continue
			}
			if src(fset, rs.Results[1]) != "nil" {
				return Result{}, fmt.Errorf("getRelation: a case returns an error")
			}
			relName := src(fset, rs.Results[0])
			rel, ok := relConst[relName]
			if !ok {
				return Result{}, fmt.Errorf("getRelation: relation constant %s not found", relName)
			}
			for _, e := range cc.List {
				name := strings.TrimPrefix(src(fset, e), "apimethod.")
				mv, ok := apiConst[name]
				if !ok {
					return Result{}, fmt.Errorf("getRelation: api method constant %s not found", name)
				}
				table = append(table, mr{mv, rel})
			}
		}
		var apiMethods []string
		for _, v := range apiConst {
			apiMethods = append(apiMethods, v)
		}
		sort.Strings(apiMethods)

		skel := func(recv, name string) ([]string, error) {
			fd := findFunc(f, recv, name)
			if fd == nil {
				return nil, fmt.Errorf("authz.go: %s.%s not found", recv, name)
			}
			return authzSkeleton(fset, fd.Body), nil
		}
		names := []struct{ lean, recv, fn string }{
			{"skAuthorize", "Authorizer", "Authorize"},
			{"skIndividualAuthorize", "Authorizer", "individualAuthorize"},
			{"skModuleAuthorize", "Authorizer", "moduleAuthorize"},
			{"skCheckAuthClaims", "", "checkAuthClaims"},
			{"skAuthorizeCreateStore", "Authorizer", "AuthorizeCreateStore"},
			{"skAuthorizeListStores", "Authorizer", "AuthorizeListStores"},
			{"skListAuthorizedStores", "Authorizer", "ListAuthorizedStores"},
			{"skGetSystemAccessTuple", "", "getSystemAccessTuple"},
			{"skExtractModules", "", "extractModulesFromTuples"},
		}
		skels := map[string][]string{}
		var order []string
		for _, n := range names {
			s, err := skel(n.recv, n.fn)
			if err != nil {
				return Result{}, err
			}
			skels[n.lean] = s
			order = append(order, n.lean)
		}
		// formats of the object / user strings
		formats := map[string]string{}
		for _, tn := range []string{"StoreIDType", "ClientIDType", "ModuleIDType"} {
			fd := findFunc(f, tn, "String")
			if fd == nil {
				return Result{}, fmt.Errorf("%s.String not found", tn)
			}
			formats[tn] = strings.Join(authzSkeleton(fset, fd.Body), " ; ")
		}
		var sysObj string
		for _, d := range f.Decls {
			gd, ok := d.(*ast.GenDecl)
			if !ok || gd.Tok != token.VAR {
				continue
			}
			for _, s := range gd.Specs {
				v := s.(*ast.ValueSpec)
				for i, n := range v.Names {
					if n.Name == "SystemObjectID" && i < len(v.Values) {
						sysObj = src(fset, v.Values[i])
					}
				}
			}
		}

		// ---------- pkg/server ----------
		dir := filepath.Join(repo, "pkg/server")
		ents, err := os.ReadDir(dir)
		if err != nil {
			return Result{}, err
		}
		sfset := token.NewFileSet()
		methods := map[string]*ast.FuncDecl{}
		var fileNames []string
		for _, e := range ents {
			if e.IsDir() || !strings.HasSuffix(e.Name(), ".go") || strings.HasSuffix(e.Name(), "_test.go") {
				continue
			}
			fileNames = append(fileNames, e.Name())
		}
		sort.Strings(fileNames)
		for _, fn := range fileNames {
			pf, err := parseInto(sfset, filepath.Join(dir, fn))
			if err != nil {
				return Result{}, err
			}
			for _, d := range pf.Decls {
				fd, ok := d.(*ast.FuncDecl)
				if !ok || fd.Recv == nil || len(fd.Recv.List) != 1 || fd.Body == nil {
					continue
				}
				t := fd.Recv.List[0].Type
				if s, ok := t.(*ast.StarExpr); ok {
					t = s.X
				}
				if id, ok := t.(*ast.Ident); ok && id.Name == "Server" {
					methods[fd.Name.Name] = fd
				}
			}
		}
		isHandler := func(fd *ast.FuncDecl) bool {
			if !fd.Name.IsExported() {
				return false
			}
			for _, p := range fd.Type.Params.List {
				if strings.HasSuffix(src(sfset, p.Type), "Request") && strings.HasPrefix(src(sfset, p.Type), "*") {
					return true
				}
			}
			return false
		}
		authzCalls := map[string]bool{"checkAuthz": true, "checkCreateStoreAuthz": true, "getAccessibleStores": true, "checkWriteAuthz": true}
		benign := map[string]bool{"serviceName": true, "readChangesMaxPageSize": true, "featureFlagClient": true, "authzenBaseURL": true,
			"logger": true, "transport": true, "experimentals": true}

		// returnsEarly: the statement holding `call` is followed by `if err != nil { ...; return ..., err }` (or is a return itself)
		retMap := func(fd *ast.FuncDecl) (map[*ast.CallExpr]bool, map[*ast.CallExpr]bool) {
			ret := map[*ast.CallExpr]bool{}
			top := map[*ast.CallExpr]bool{}
			errReturn := func(st ast.Stmt) bool {
				is, ok := st.(*ast.IfStmt)
				if !ok || src(sfset, is.Cond) != "err != nil" || len(is.Body.List) == 0 {
					return false
				}
				rs, ok := is.Body.List[len(is.Body.List)-1].(*ast.ReturnStmt)
				if !ok || len(rs.Results) == 0 {
					return false
				}
				last := src(sfset, rs.Results[len(rs.Results)-1])
				return last == "err"
			}
			callOf := func(st ast.Stmt) *ast.CallExpr {
				switch x := st.(type) {
				case *ast.AssignStmt:
					if len(x.Rhs) == 1 {
						if ce, ok := x.Rhs[0].(*ast.CallExpr); ok {
							hasErr := false
							for _, l := range x.Lhs {
								if src(sfset, l) == "err" {
									hasErr = true
								}
							}
							if hasErr {
								return ce
							}
						}
					}
				}
				return nil
			}
			var walkBlock func(list []ast.Stmt, isTop bool)
			walkBlock = func(list []ast.Stmt, isTop bool) {
				for i, st := range list {
					if ce := callOf(st); ce != nil {
						top[ce] = isTop
						if i+1 < len(list) && errReturn(list[i+1]) {
							ret[ce] = true
						}
					}
					if rs, ok := st.(*ast.ReturnStmt); ok {
						for _, r := range rs.Results {
							if ce, ok := r.(*ast.CallExpr); ok {
								ret[ce] = true
								top[ce] = isTop
							}
						}
					}
					if is, ok := st.(*ast.IfStmt); ok && is.Init != nil {
						if ce := callOf(is.Init); ce != nil && errReturn(&ast.IfStmt{Cond: is.Cond, Body: is.Body}) {
							ret[ce] = true
							top[ce] = isTop
						}
					}
					ast.Inspect(st, func(n ast.Node) bool {
						if n == st {
							return true
						}
						if b, ok := n.(*ast.BlockStmt); ok {
							walkBlock(b.List, false)
							return false
						}
						return true
					})
				}
			}
			walkBlock(fd.Body.List, true)
			return ret, top
		}

		var events func(fd *ast.FuncDecl, depth int, topCtx bool) []authzEvent
		events = func(fd *ast.FuncDecl, depth int, topCtx bool) []authzEvent {
			recv := ""
			if len(fd.Recv.List[0].Names) == 1 {
				recv = fd.Recv.List[0].Names[0].Name
			}
			ret, top := retMap(fd)
			var out []authzEvent
			ast.Inspect(fd.Body, func(n ast.Node) bool {
				switch x := n.(type) {
				case *ast.CallExpr:
					se, ok := x.Fun.(*ast.SelectorExpr)
					if !ok {
						return true
					}
					id, ok := se.X.(*ast.Ident)
					if !ok || id.Name != recv || recv == "" {
						return true
					}
					name := se.Sel.Name
					isTop := topCtx && top[x]
					switch {
					case authzCalls[name]:
						arg := ""
						if name == "checkAuthz" && len(x.Args) >= 3 {
							arg = strings.TrimPrefix(src(sfset, x.Args[2]), "apimethod.")
							if v, ok := apiConst[arg]; ok {
								arg = v
							}
						}
						out = append(out, authzEvent{"authz", name + ":" + arg, ret[x], isTop})
						return false
					case name == "resolveTypesystem":
						out = append(out, authzEvent{"typesys", "", ret[x], isTop})
						return false
					default:
						if callee, ok := methods[name]; ok {
							if isHandler(callee) {
								out = append(out, authzEvent{"call", name, ret[x], isTop})
								// arguments may still reference data-bearing fields
								for _, a := range x.Args {
									ast.Inspect(a, func(m ast.Node) bool {
										if s2, ok := m.(*ast.SelectorExpr); ok {
											if i2, ok := s2.X.(*ast.Ident); ok && i2.Name == recv && !benign[s2.Sel.Name] {
												out = append(out, authzEvent{"data", s2.Sel.Name, false, false})
											}
										}
										return true
									})
								}
								return false
							}
							if depth < 5 {
								for _, a := range x.Args {
									ast.Inspect(a, func(m ast.Node) bool {
										if s2, ok := m.(*ast.SelectorExpr); ok {
											if i2, ok := s2.X.(*ast.Ident); ok && i2.Name == recv && !benign[s2.Sel.Name] {
												out = append(out, authzEvent{"data", s2.Sel.Name, false, false})
											}
										}
										return true
									})
								}
								// a helper inlined at top level keeps the "top" property only if its own error is returned right away
								out = append(out, events(callee, depth+1, isTop || (topCtx && isStmtTop(fd, x)))...)
								return false
							}
							out = append(out, authzEvent{"data", name, false, false})
							return false
						}
						// a func-valued field (s.typesystemResolver(...)) or an unknown method
						if !benign[name] {
							out = append(out, authzEvent{"data", name, false, false})
						}
						return true
					}
				case *ast.SelectorExpr:
					id, ok := x.X.(*ast.Ident)
					if ok && id.Name == recv && recv != "" {
						if _, isMethod := methods[x.Sel.Name]; isMethod {
							return true // handled as a call (method values are not used)
						}
						if !benign[x.Sel.Name] {
							out = append(out, authzEvent{"data", x.Sel.Name, false, false})
						}
					}
				}
				return true
			})
			return out
		}

		type handler struct {
			Name   string
			Events []authzEvent
		}
		var handlers []handler
		var hnames []string
		for n, fd := range methods {
			if isHandler(fd) {
				hnames = append(hnames, n)
			}
		}
		sort.Strings(hnames)
		for _, n := range hnames {
			ev := events(methods[n], 0, true)
			// keep the list short: everything after the first guarding event is irrelevant for the theorem, but
			// keep a bounded tail so that the summary stays readable
			if len(ev) > 10 {
				ev = ev[:10]
			}
			handlers = append(handlers, handler{n, ev})
		}
		if len(handlers) < 10 {
			return Result{}, fmt.Errorf("pkg/server: only %d RPC handlers recognised", len(handlers))
		}

		// wrappers
		wrapperNames := []string{"checkAuthz", "checkCreateStoreAuthz", "getAccessibleStores", "checkWriteAuthz"}
		wrappers := map[string][]string{}
		for _, n := range wrapperNames {
			fd, ok := methods[n]
			if !ok {
				return Result{}, fmt.Errorf("Server.%s not found", n)
			}
			wrappers[n] = authzSkeleton(sfset, fd.Body)
		}

		// ListStores: F3 guard = an `if` between getAccessibleStores and the query whose condition mentions
		// `storeIDs != nil` and `len(storeIDs) == 0`, and whose body returns without an error
		ls, ok := methods["ListStores"]
		if !ok {
			return Result{}, fmt.Errorf("Server.ListStores not found")
		}
		lsSkel := authzSkeleton(sfset, ls.Body)
		guard := false
		seenAccess := false
		for _, st := range ls.Body.List {
			s := src(sfset, st)
			if strings.Contains(s, "s.getAccessibleStores(") {
				seenAccess = true
				continue
			}
			if strings.Contains(s, "commands.NewListStoresQuery") {
				break
			}
			if is, ok := st.(*ast.IfStmt); ok && seenAccess {
				c := strings.ReplaceAll(src(sfset, is.Cond), " ", "")
				if strings.Contains(c, "storeIDs!=nil") && strings.Contains(c, "len(storeIDs)==0") && !strings.Contains(c, "||") {
					if len(is.Body.List) > 0 {
						if rs, ok := is.Body.List[len(is.Body.List)-1].(*ast.ReturnStmt); ok && len(rs.Results) == 2 && src(sfset, rs.Results[1]) == "nil" {
							guard = true
						}
					}
				}
			}
		}
		if !seenAccess {
			return Result{}, fmt.Errorf("Server.ListStores: getAccessibleStores call not found")
		}
		// backends: the condition guarding the ID filter
		idCond := func(rel, recvT string) (string, error) {
			bfset, bf, err := parseFile(repo, rel)
			if err != nil {
				return "", err
			}
			fd := findFunc(bf, recvT, "ListStores")
			if fd == nil {
				return "", fmt.Errorf("%s: ListStores not found", rel)
			}
			c := ""
			ast.Inspect(fd.Body, func(n ast.Node) bool {
				if is, ok := n.(*ast.IfStmt); ok && c == "" && strings.Contains(src(bfset, is.Cond), "options.IDs") {
					c = src(bfset, is.Cond)
				}
				return true
			})
			if c == "" {
				return "", fmt.Errorf("%s: ListStores has no condition on options.IDs", rel)
			}
			return c, nil
		}
		memCond, err := idCond("pkg/storage/memory/memory.go", "MemoryBackend")
		if err != nil {
			return Result{}, err
		}
		sqliteCond, err := idCond("pkg/storage/sqlite/sqlite.go", "Datastore")
		if err != nil {
			return Result{}, err
		}
		// the command passes storeIDs through untouched
		cfset, cf, err := parseFile(repo, "pkg/server/commands/list_stores.go")
		if err != nil {
			return Result{}, err
		}
		lq := findFunc(cf, "ListStoresQuery", "Execute")
		if lq == nil {
			return Result{}, fmt.Errorf("ListStoresQuery.Execute not found")
		}
		passThrough := strings.Contains(src(cfset, lq.Body), "IDs: storeIDs")

		// the in-process bypass flag
		acfset, acf, err := parseFile(repo, "pkg/authclaims/authclaims.go")
		if err != nil {
			return Result{}, err
		}
		skipGet := findFunc(acf, "", "SkipAuthzCheckFromContext")
		skipSet := findFunc(acf, "", "ContextWithSkipAuthzCheck")
		claimsGet := findFunc(acf, "", "AuthClaimsFromContext")
		if skipGet == nil || skipSet == nil || claimsGet == nil {
			return Result{}, fmt.Errorf("pkg/authclaims: SkipAuthzCheckFromContext / ContextWithSkipAuthzCheck / AuthClaimsFromContext not found")
		}
		skSkipGet := authzSkeleton(acfset, skipGet.Body)
		skSkipSet := authzSkeleton(acfset, skipSet.Body)
		skClaimsGet := authzSkeleton(acfset, claimsGet.Body)

		// ---------- Lean ----------
		var sb strings.Builder
		sb.WriteString(genHeader)
		sb.WriteString("namespace OpenFGAVerif.Gen.Authz\n\n")
		sb.WriteString("def skSkipAuthzCheckFromContext : List String := " + leanStrList(skSkipGet) + "\n")
		sb.WriteString("def skContextWithSkipAuthzCheck : List String := " + leanStrList(skSkipSet) + "\n")
		sb.WriteString("def skAuthClaimsFromContext : List String := " + leanStrList(skClaimsGet) + "\n")
		sb.WriteString("/-- `getRelation` (internal/authz/authz.go): API method (string value) -> relation (string value), in source order -/\n")
		sb.WriteString("def methodRelation : List (String × String) := [\n")
		for i, e := range table {
			sep := ","
			if i == len(table)-1 {
				sep = ""
			}
			sb.WriteString("  (" + leanStr(e.M) + ", " + leanStr(e.R) + ")" + sep + "\n")
		}
		sb.WriteString("]\n")
		sb.WriteString("/-- the `default:` clause of getRelation returns an error -/\n")
		sb.WriteString("def getRelationDefaultRejects : Bool := " + leanBool(defaultRejects) + "\n")
		sb.WriteString("/-- every constant of internal/utils/apimethod -/\n")
		sb.WriteString("def apiMethods : List String := " + leanStrList(apiMethods) + "\n")
		sb.WriteString("def maxModulesInRequest : Nat := " + strconv.Itoa(maxModules) + "\n")
		sb.WriteString("def systemObjectIDExpr : String := " + leanStr(sysObj) + "\n")
		for _, cn := range []string{"StoreType", "ModuleType", "ApplicationType", "SystemType", "SystemRelationOnStore", "RootSystemID", "CanCallGetStore"} {
			v, ok := relConst[cn]
			if !ok {
				return Result{}, fmt.Errorf("authz.go: constant %s not found", cn)
			}
			sb.WriteString("def c" + cn + " : String := " + leanStr(v) + "\n")
		}
		for _, tn := range []string{"StoreIDType", "ClientIDType", "ModuleIDType"} {
			sb.WriteString("def fmt" + tn + " : String := " + leanStr(formats[tn]) + "\n")
		}
		for _, n := range order {
			sb.WriteString("def " + n + " : List String := " + leanStrList(skels[n]) + "\n")
		}
		for _, n := range wrapperNames {
			sb.WriteString("def sk_" + n + " : List String := " + leanStrList(wrappers[n]) + "\n")
		}
		sb.WriteString("def skServerListStores : List String := " + leanStrList(lsSkel) + "\n")
		sb.WriteString("\n/-- RPC handlers of pkg/server: (name, events); event = (kind, arg, errorReturnedRightAway, topLevelStatement) -/\n")
		sb.WriteString("def handlers : List (String × List (String × String × Bool × Bool)) := [\n")
		for i, h := range handlers {
			parts := make([]string, len(h.Events))
			for j, e := range h.Events {
				parts[j] = "(" + leanStr(e.Kind) + ", " + leanStr(e.Arg) + ", " + leanBool(e.Ret) + ", " + leanBool(e.Top) + ")"
			}
			sep := ","
			if i == len(handlers)-1 {
				sep = ""
			}
			sb.WriteString("  (" + leanStr(h.Name) + ", [" + strings.Join(parts, ", ") + "])" + sep + "\n")
		}
		sb.WriteString("]\n\n")
		sb.WriteString("/-- Server.ListStores returns an empty page when the granted list is non-nil and empty (fix of finding F3) -/\n")
		sb.WriteString("def listStoresEmptyGuard : Bool := " + leanBool(guard) + "\n")
		sb.WriteString("def memoryListStoresIDCond : String := " + leanStr(memCond) + "\n")
		sb.WriteString("def sqliteListStoresIDCond : String := " + leanStr(sqliteCond) + "\n")
		sb.WriteString("def listStoresQueryPassesIDs : Bool := " + leanBool(passThrough) + "\n")
		sb.WriteString("\nend OpenFGAVerif.Gen.Authz\n")

		hs := map[string][]string{}
		for _, h := range handlers {
			var es []string
			for _, e := range h.Events {
				if len(es) >= 6 {
					break
				}
				es = append(es, fmt.Sprintf("%s:%s:%v:%v", e.Kind, e.Arg, e.Ret, e.Top))
			}
			hs[h.Name] = es
		}
		return Result{Lean: sb.String(), Summary: map[string]interface{}{
			"methodRelation": table, "maxModules": maxModules, "defaultRejects": defaultRejects,
			"handlers": hs, "listStoresEmptyGuard": guard, "memoryIDCond": memCond, "sqliteIDCond": sqliteCond,
		}}, nil
	})
}

// isStmtTop: the call is (the right-hand side of) a top-level statement of fd, or a direct operand of a top-level return.
func isStmtTop(fd *ast.FuncDecl, call *ast.CallExpr) bool {
	for _, st := range fd.Body.List {
		switch x := st.(type) {
		case *ast.AssignStmt:
			for _, r := range x.Rhs {
				if r == call {
					return true
				}
			}
		case *ast.ExprStmt:
			if x.X == call {
				return true
			}
		case *ast.ReturnStmt:
			for _, r := range x.Results {
				if r == call {
					return true
				}
			}
		}
	}
	return false
}

// parseInto parses one file into a shared FileSet (several files of one package).
func parseInto(fset *token.FileSet, path string) (*ast.File, error) {
	return goparser.ParseFile(fset, path, nil, goparser.ParseComments)
}
