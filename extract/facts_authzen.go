package main

import (
	"fmt"
	"go/ast"
	"go/token"
	"strconv"
	"strings"
)

// Authzen: facts about pkg/server/authzen.go (C32), the mapping of AuthZEN requests onto the native API.
//   - mergePropertiesToContext: the ordered merge steps (source, key prefix) and the "empty => nil" guard
//   - buildCheckRequest: nil guards in order, argument order of the merge call, the tuple-key field expressions
//   - resolveEvalFields: the four "item field, else top-level field" fallbacks
//   - Evaluations: control skeleton (empty list => single Evaluation, default semantic, accepted enum values,
//     short-circuit dispatch)
//   - evaluateWithShortCircuit / evaluateAll: control skeleton of the loops (break / continue rules, correlation ids)
//   - SubjectSearch / ResourceSearch / ActionSearch: the fields of the native request they build and the skeleton
//     of the result mapping
//
// A "skeleton" is the statement list of a block with every `if` condition, `break`, `continue`, `return`,
// `for … range` header and assignment/expression statement rendered back to source text, depth first, with
// `{` / `}` markers: any change of a condition, of the order of two statements or of a break/continue rule
// changes the list.

// azSkeleton renders the control skeleton of a block.
func azSkeleton(fset *token.FileSet, b *ast.BlockStmt) []string {
	var out []string
	var walk func(st ast.Stmt)
	block := func(b *ast.BlockStmt) {
		out = append(out, "{")
		for _, s := range b.List {
			walk(s)
		}
		out = append(out, "}")
	}
	walk = func(st ast.Stmt) {
		switch x := st.(type) {
		case *ast.IfStmt:
			h := "if "
			if x.Init != nil {
				h += src(fset, x.Init) + "; "
			}
			out = append(out, h+src(fset, x.Cond))
			block(x.Body)
			if x.Else != nil {
				out = append(out, "else")
				if eb, ok := x.Else.(*ast.BlockStmt); ok {
					block(eb)
				} else {
					walk(x.Else)
				}
			}
		case *ast.ForStmt:
			h := "for"
			if x.Init != nil || x.Cond != nil || x.Post != nil {
				h = "for " + azOpt(fset, x.Init) + "; " + azOptE(fset, x.Cond) + "; " + azOpt(fset, x.Post)
			}
			out = append(out, h)
			block(x.Body)
		case *ast.RangeStmt:
			h := "for "
			if x.Key != nil {
				h += src(fset, x.Key)
				if x.Value != nil {
					h += ", " + src(fset, x.Value)
				}
				h += " " + x.Tok.String() + " "
			}
			out = append(out, h+"range "+src(fset, x.X))
			block(x.Body)
		case *ast.SwitchStmt:
			out = append(out, "switch "+azOpt(fset, x.Init)+azOptE(fset, x.Tag))
			for _, c := range x.Body.List {
				cc := c.(*ast.CaseClause)
				if cc.List == nil {
					out = append(out, "default:")
				} else {
					var es []string
					for _, e := range cc.List {
						es = append(es, src(fset, e))
					}
					out = append(out, "case "+strings.Join(es, ", ")+":")
				}
				for _, s := range cc.Body {
					walk(s)
				}
			}
			out = append(out, "endswitch")
		case *ast.TypeSwitchStmt:
			out = append(out, "typeswitch "+src(fset, x.Assign))
			for _, c := range x.Body.List {
				cc := c.(*ast.CaseClause)
				if cc.List == nil {
					out = append(out, "default:")
				} else {
					var es []string
					for _, e := range cc.List {
						es = append(es, src(fset, e))
					}
					out = append(out, "case "+strings.Join(es, ", ")+":")
				}
				for _, s := range cc.Body {
					walk(s)
				}
			}
			out = append(out, "endswitch")
		case *ast.BlockStmt:
			block(x)
		case *ast.BranchStmt:
			out = append(out, x.Tok.String())
		default:
			out = append(out, src(fset, st))
		}
	}
	for _, s := range b.List {
		walk(s)
	}
	return out
}

func azOpt(fset *token.FileSet, s ast.Stmt) string {
	if s == nil {
		return ""
	}
	return src(fset, s)
}

func azOptE(fset *token.FileSet, e ast.Expr) string {
	if e == nil {
		return ""
	}
	return src(fset, e)
}

// azCompositeFields returns "Key=Value" for the first composite literal whose type renders as typ.
func azCompositeFields(fset *token.FileSet, n ast.Node, typ string) []string {
	var out []string
	found := false
	ast.Inspect(n, func(m ast.Node) bool {
		if found {
			return false
		}
		cl, ok := m.(*ast.CompositeLit)
		if !ok || cl.Type == nil || src(fset, cl.Type) != typ {
			return true
		}
		found = true
		for _, e := range cl.Elts {
			if kv, ok := e.(*ast.KeyValueExpr); ok {
				out = append(out, src(fset, kv.Key)+"="+src(fset, kv.Value))
			} else {
				out = append(out, src(fset, e))
			}
		}
		return false
	})
	return out
}

// azCallArgs returns the arguments of the first call of `fun` inside n.
func azCallArgs(fset *token.FileSet, n ast.Node, fun string) []string {
	var out []string
	found := false
	ast.Inspect(n, func(m ast.Node) bool {
		if found {
			return false
		}
		ce, ok := m.(*ast.CallExpr)
		if !ok || src(fset, ce.Fun) != fun {
			return true
		}
		found = true
		for _, a := range ce.Args {
			out = append(out, src(fset, a))
		}
		return false
	})
	return out
}

func init() {
	register("Authzen", func(repo string) (Result, error) {
		fset, f, err := parseFile(repo, "pkg/server/authzen.go")
		if err != nil {
			return Result{}, err
		}
		need := func(recv, name string) (*ast.FuncDecl, error) {
			fd := findFunc(f, recv, name)
			if fd == nil {
				return nil, fmt.Errorf("pkg/server/authzen.go: func %s not found", name)
			}
			return fd, nil
		}

		// ---- mergePropertiesToContext
		mp, err := need("", "mergePropertiesToContext")
		if err != nil {
			return Result{}, err
		}
		var params []string
		for _, p := range mp.Type.Params.List {
			for _, n := range p.Names {
				params = append(params, n.Name)
			}
		}
		type step struct{ src, prefix, guard string }
		var steps []step
		emptyNil := false
		var mergeTail []string
		for _, st := range mp.Body.List {
			is, ok := st.(*ast.IfStmt)
			if !ok {
				mergeTail = append(mergeTail, src(fset, st))
				continue
			}
			var rng *ast.RangeStmt
			for _, s := range is.Body.List {
				if r, ok := s.(*ast.RangeStmt); ok {
					rng = r
				}
			}
			if rng == nil {
				c := src(fset, is.Cond)
				if c == "len(merged) == 0" && len(is.Body.List) == 1 && src(fset, is.Body.List[0]) == "return nil, nil" {
					emptyNil = true
					continue
				}
				return Result{}, fmt.Errorf("mergePropertiesToContext: unexpected statement `if %s`", c)
			}
			if len(is.Body.List) != 1 || len(rng.Body.List) != 1 || rng.Key == nil || rng.Value == nil {
				return Result{}, fmt.Errorf("mergePropertiesToContext: merge step is not a single `for k, v := range` with one assignment")
			}
			as, ok := rng.Body.List[0].(*ast.AssignStmt)
			if !ok || len(as.Lhs) != 1 || len(as.Rhs) != 1 || src(fset, as.Rhs[0]) != src(fset, rng.Value) {
				return Result{}, fmt.Errorf("mergePropertiesToContext: merge step body is not `merged[key] = v`")
			}
			ix, ok := as.Lhs[0].(*ast.IndexExpr)
			if !ok || src(fset, ix.X) != "merged" {
				return Result{}, fmt.Errorf("mergePropertiesToContext: merge step does not assign to merged[...]")
			}
			k := src(fset, rng.Key)
			prefix := ""
			switch kx := ix.Index.(type) {
			case *ast.Ident:
				if kx.Name != k {
					return Result{}, fmt.Errorf("mergePropertiesToContext: key expression %s", src(fset, ix.Index))
				}
			case *ast.BinaryExpr:
				bl, ok := kx.X.(*ast.BasicLit)
				if !ok || kx.Op != token.ADD || src(fset, kx.Y) != k {
					return Result{}, fmt.Errorf("mergePropertiesToContext: key expression %s", src(fset, ix.Index))
				}
				prefix, _ = strconv.Unquote(bl.Value)
			default:
				return Result{}, fmt.Errorf("mergePropertiesToContext: key expression %s", src(fset, ix.Index))
			}
			steps = append(steps, step{src: src(fset, rng.X), prefix: prefix, guard: src(fset, is.Cond)})
		}
		if len(steps) == 0 {
			return Result{}, fmt.Errorf("mergePropertiesToContext: no merge steps found")
		}

		// ---- buildCheckRequest
		bc, err := need("", "buildCheckRequest")
		if err != nil {
			return Result{}, err
		}
		var bcParams []string
		for _, p := range bc.Type.Params.List {
			for _, n := range p.Names {
				bcParams = append(bcParams, n.Name)
			}
		}
		bcSkel := azSkeleton(fset, bc.Body)
		tupleKey := azCompositeFields(fset, bc.Body, "openfgav1.CheckRequestTupleKey")
		checkReq := azCompositeFields(fset, bc.Body, "openfgav1.CheckRequest")
		mergeArgs := azCallArgs(fset, bc.Body, "mergePropertiesToContext")
		if len(tupleKey) == 0 || len(mergeArgs) == 0 {
			return Result{}, fmt.Errorf("buildCheckRequest: tuple key literal / merge call not found")
		}
		// drop the nested literal from the CheckRequest fields (it is reported separately)
		for i, s := range checkReq {
			if strings.HasPrefix(s, "TupleKey=") {
				checkReq[i] = "TupleKey=<tupleKey>"
			}
		}
		var bcGuards []string
		for _, st := range bc.Body.List {
			if is, ok := st.(*ast.IfStmt); ok {
				bcGuards = append(bcGuards, src(fset, is.Cond))
			}
		}

		skel := func(recv, name string) ([]string, *ast.FuncDecl, error) {
			fd, err := need(recv, name)
			if err != nil {
				return nil, nil, err
			}
			return azSkeleton(fset, fd.Body), fd, nil
		}
		resolveSkel, _, err := skel("", "resolveEvalFields")
		if err != nil {
			return Result{}, err
		}
		evaluationSkel, evFd, err := skel("Server", "Evaluation")
		if err != nil {
			return Result{}, err
		}
		evaluationsSkel, _, err := skel("Server", "Evaluations")
		if err != nil {
			return Result{}, err
		}
		shortSkel, _, err := skel("Server", "evaluateWithShortCircuit")
		if err != nil {
			return Result{}, err
		}
		allSkel, allFd, err := skel("Server", "evaluateAll")
		if err != nil {
			return Result{}, err
		}
		subjSkel, subjFd, err := skel("Server", "SubjectSearch")
		if err != nil {
			return Result{}, err
		}
		resSkel, resFd, err := skel("Server", "ResourceSearch")
		if err != nil {
			return Result{}, err
		}
		actSkel, actFd, err := skel("Server", "ActionSearch")
		if err != nil {
			return Result{}, err
		}
		evalBuildArgs := azCallArgs(fset, evFd.Body, "buildCheckRequest")
		batchItem := azCompositeFields(fset, allFd.Body, "openfgav1.BatchCheckItem")
		listUsersReq := azCompositeFields(fset, subjFd.Body, "openfgav1.ListUsersRequest")
		subjMergeArgs := azCallArgs(fset, subjFd.Body, "mergePropertiesToContext")
		streamedReq := azCompositeFields(fset, resFd.Body, "openfgav1.StreamedListObjectsRequest")
		resMergeArgs := azCallArgs(fset, resFd.Body, "mergePropertiesToContext")
		actMergeArgs := azCallArgs(fset, actFd.Body, "mergePropertiesToContext")
		actItem := azCompositeFields(fset, actFd.Body, "openfgav1.BatchCheckItem")
		actTupleKey := azCompositeFields(fset, actFd.Body, "openfgav1.CheckRequestTupleKey")
		for i, s := range batchItem {
			_ = i
			_ = s
		}
		for i, s := range actItem {
			if strings.HasPrefix(s, "TupleKey=") {
				actItem[i] = "TupleKey=<tupleKey>"
			}
		}
		if len(listUsersReq) == 0 || len(streamedReq) == 0 || len(batchItem) == 0 || len(actItem) == 0 {
			return Result{}, fmt.Errorf("authzen.go: native request literals not found")
		}

		// ---- the authorization model id: where it comes from, how it is handed on, and that EVERY native request
		// literal built in this file carries it
		var nativeModelIDs, modelIDSources, modelIDPassing []string
		nativeTypes := map[string]bool{"openfgav1.CheckRequest": true, "openfgav1.BatchCheckRequest": true, "openfgav1.ListUsersRequest": true,
			"openfgav1.StreamedListObjectsRequest": true, "openfgav1.ListObjectsRequest": true, "openfgav1.ExpandRequest": true}
		passCallees := map[string]bool{"buildCheckRequest": true, "s.evaluateWithShortCircuit": true, "s.evaluateAll": true, "s.resolveTypesystem": true}
		for _, d := range f.Decls {
			fd, ok := d.(*ast.FuncDecl)
			if !ok || fd.Body == nil {
				continue
			}
			ast.Inspect(fd.Body, func(n ast.Node) bool {
				switch x := n.(type) {
				case *ast.CompositeLit:
					if x.Type == nil || !nativeTypes[src(fset, x.Type)] {
						return true
					}
					v := "<missing>"
					for _, e := range x.Elts {
						if kv, ok := e.(*ast.KeyValueExpr); ok && src(fset, kv.Key) == "AuthorizationModelId" {
							v = src(fset, kv.Value)
						}
					}
					nativeModelIDs = append(nativeModelIDs, fd.Name.Name+":"+strings.TrimPrefix(src(fset, x.Type), "openfgav1.")+":AuthorizationModelId="+v)
				case *ast.AssignStmt:
					if len(x.Lhs) == 1 && len(x.Rhs) == 1 {
						l := src(fset, x.Lhs[0])
						if l == "authorizationModelID" || l == "resolvedModelID" {
							modelIDSources = append(modelIDSources, fd.Name.Name+":"+src(fset, x))
						}
					}
				case *ast.CallExpr:
					if passCallees[src(fset, x.Fun)] {
						var as []string
						for _, a := range x.Args {
							as = append(as, src(fset, a))
						}
						modelIDPassing = append(modelIDPassing, fd.Name.Name+":"+src(fset, x.Fun)+"("+strings.Join(as, ", ")+")")
					}
				}
				return true
			})
		}
		if len(nativeModelIDs) == 0 {
			return Result{}, fmt.Errorf("authzen.go: no native request literal found")
		}

		var stepSrc, stepPrefix, stepGuard []string
		for _, s := range steps {
			stepSrc = append(stepSrc, s.src)
			stepPrefix = append(stepPrefix, s.prefix)
			stepGuard = append(stepGuard, s.guard)
		}
		b := func(x bool) string {
			if x {
				return "true"
			}
			return "false"
		}
		var sb strings.Builder
		sb.WriteString(genHeader)
		sb.WriteString("namespace OpenFGAVerif.Gen.Authzen\n\n")
		w := func(doc, name string, xs []string) {
			sb.WriteString("/-- " + doc + " -/\n")
			sb.WriteString("def " + name + " : List String := " + leanStrList(xs) + "\n")
		}
		w("parameters of mergePropertiesToContext, in order", "mergeParams", params)
		w("the map each merge step ranges over, in source order (later steps overwrite earlier ones)", "mergeStepSources", stepSrc)
		w("the prefix each merge step puts in front of the key", "mergeStepPrefixes", stepPrefix)
		w("the nil guard of each merge step", "mergeStepGuards", stepGuard)
		sb.WriteString("/-- `if len(merged) == 0 { return nil, nil }` is present -/\n")
		sb.WriteString("def mergeEmptyIsNil : Bool := " + b(emptyNil) + "\n")
		w("statements of mergePropertiesToContext that are not merge steps", "mergeOtherStmts", mergeTail)
		w("parameters of buildCheckRequest", "buildParams", bcParams)
		w("nil guards of buildCheckRequest, in order", "buildGuards", bcGuards)
		w("arguments of the merge call inside buildCheckRequest", "buildMergeArgs", mergeArgs)
		w("fields of the CheckRequestTupleKey literal", "buildTupleKey", tupleKey)
		w("fields of the CheckRequest literal", "buildCheckRequestFields", checkReq)
		w("control skeleton of buildCheckRequest", "buildSkeleton", bcSkel)
		w("control skeleton of resolveEvalFields", "resolveEvalFieldsSkeleton", resolveSkel)
		w("control skeleton of Server.Evaluation", "evaluationSkeleton", evaluationSkel)
		w("arguments of buildCheckRequest in Server.Evaluation", "evaluationBuildArgs", evalBuildArgs)
		w("control skeleton of Server.Evaluations", "evaluationsSkeleton", evaluationsSkel)
		w("control skeleton of evaluateWithShortCircuit", "shortCircuitSkeleton", shortSkel)
		w("control skeleton of evaluateAll", "evaluateAllSkeleton", allSkel)
		w("fields of the BatchCheckItem literal in evaluateAll", "evaluateAllBatchItem", batchItem)
		w("control skeleton of SubjectSearch", "subjectSearchSkeleton", subjSkel)
		w("fields of the ListUsersRequest literal", "subjectSearchRequest", listUsersReq)
		w("arguments of the merge call in SubjectSearch", "subjectSearchMergeArgs", subjMergeArgs)
		w("control skeleton of ResourceSearch", "resourceSearchSkeleton", resSkel)
		w("fields of the StreamedListObjectsRequest literal", "resourceSearchRequest", streamedReq)
		w("arguments of the merge call in ResourceSearch", "resourceSearchMergeArgs", resMergeArgs)
		w("control skeleton of ActionSearch", "actionSearchSkeleton", actSkel)
		w("arguments of the merge call in ActionSearch", "actionSearchMergeArgs", actMergeArgs)
		w("fields of the BatchCheckItem literal in ActionSearch", "actionSearchBatchItem", actItem)
		w("fields of the CheckRequestTupleKey literal in ActionSearch", "actionSearchTupleKey", actTupleKey)
		w("every native request literal built in authzen.go: <function>:<type>:AuthorizationModelId=<expression | <missing>>", "nativeModelIds", nativeModelIDs)
		w("where the model id comes from: assignments to authorizationModelID / resolvedModelID per function", "modelIdSources", modelIDSources)
		w("how the model id is handed on: calls of buildCheckRequest / evaluateWithShortCircuit / evaluateAll / resolveTypesystem", "modelIdPassing", modelIDPassing)
		sb.WriteString("\nend OpenFGAVerif.Gen.Authzen\n")
		return Result{Lean: sb.String(), Summary: map[string]interface{}{
			"mergeSteps":       stepSrc,
			"mergePrefixes":    stepPrefix,
			"mergeEmptyIsNil":  emptyNil,
			"buildGuards":      bcGuards,
			"buildTupleKey":    tupleKey,
			"listUsersRequest": listUsersReq,
			"streamedRequest":  streamedReq,
			"nativeModelIds":   nativeModelIDs,
			"shortCircuitLen":  len(shortSkel),
			"evaluateAllLen":   len(allSkel),
		}}, nil
	})
}
