package main

import (
	"fmt"
	"go/ast"
	"go/token"
	"strconv"
	"strings"
)

// Batch: facts about pkg/server/commands/batch_check_command.go used by C07:
//   - generateCacheKeyFromCheck: arguments of CheckCacheKey and of the nested InvariantCacheKey
//   - Execute: the validation guards in order, the grouping loop, the parameters of the executed check,
//     what is stored under the key, the fan-out loop, the duplicate count
//   - validateCorrelationIDs: its statements in order
//   - the default limits (pkg/server/config)
func init() {
	register("Batch", func(repo string) (Result, error) {
		fset, f, err := parseFile(repo, "pkg/server/commands/batch_check_command.go")
		if err != nil {
			return Result{}, err
		}
		// ---- generateCacheKeyFromCheck
		gk := findFunc(f, "", "generateCacheKeyFromCheck")
		if gk == nil {
			return Result{}, fmt.Errorf("generateCacheKeyFromCheck not found")
		}
		var ckArgs, invArgs []string
		ast.Inspect(gk.Body, func(n ast.Node) bool {
			ce, ok := n.(*ast.CallExpr)
			if !ok {
				return true
			}
			switch src(fset, ce.Fun) {
			case "storage.CheckCacheKey":
				for _, a := range ce.Args {
					ckArgs = append(ckArgs, src(fset, a))
				}
			case "storage.InvariantCacheKey":
				for i, a := range ce.Args {
					s := src(fset, a)
					if i == len(ce.Args)-1 && ce.Ellipsis != token.NoPos {
						s += "..."
					}
					invArgs = append(invArgs, s)
				}
			}
			return true
		})
		if len(ckArgs) != 5 || len(invArgs) != 4 {
			return Result{}, fmt.Errorf("generateCacheKeyFromCheck: CheckCacheKey/InvariantCacheKey call shape changed (%d, %d args)", len(ckArgs), len(invArgs))
		}
		params := ""
		for _, p := range gk.Type.Params.List {
			for _, nm := range p.Names {
				params += nm.Name + " " + src(fset, p.Type) + ","
			}
		}
		if params != "check *openfgav1.BatchCheckItem,storeID string,authModelID string," {
			return Result{}, fmt.Errorf("generateCacheKeyFromCheck: parameters are %s", params)
		}
		if len(gk.Body.List) != 3 || src(fset, gk.Body.List[0]) != "checkTupleKey := check.GetTupleKey()" || src(fset, gk.Body.List[2]) != "return key" {
			return Result{}, fmt.Errorf("generateCacheKeyFromCheck: body changed")
		}

		// ---- Execute
		ex := findFunc(f, "BatchCheckQuery", "Execute")
		if ex == nil {
			return Result{}, fmt.Errorf("BatchCheckQuery.Execute not found")
		}
		var guards []string
		var groupLoop, fanOut []string
		var keyCall, poolRange, taskCheck, dupCount string
		var storeCalls, checkParams []string
	var taskReturns []string // return statements of the pool task, in source order
	var poolGoCalls int
		ifHead := func(is *ast.IfStmt) string {
			if is.Init != nil {
				return src(fset, is.Init) + "; " + src(fset, is.Cond)
			}
			return src(fset, is.Cond)
		}
		rangeCount := 0
		for _, st := range ex.Body.List {
			switch x := st.(type) {
			case *ast.IfStmt:
				if rangeCount == 0 {
					guards = append(guards, ifHead(x))
				}
			case *ast.RangeStmt:
				rangeCount++
				head := src(fset, x.X)
				switch rangeCount {
				case 1: // grouping
					groupLoop = append(groupLoop, "range:"+head)
					for _, s := range x.Body.List {
						switch y := s.(type) {
						case *ast.AssignStmt:
							groupLoop = append(groupLoop, src(fset, y))
							if len(y.Rhs) == 1 {
								keyCall = src(fset, y.Rhs[0])
							}
						case *ast.IfStmt:
							groupLoop = append(groupLoop, "if:"+ifHead(y))
							for _, t := range y.Body.List {
								groupLoop = append(groupLoop, "then:"+src(fset, t))
							}
							if eb, ok := y.Else.(*ast.BlockStmt); ok {
								for _, t := range eb.List {
									groupLoop = append(groupLoop, "else:"+src(fset, t))
								}
							}
						default:
							groupLoop = append(groupLoop, src(fset, s))
						}
					}
				case 2: // pool
					poolRange = src(fset, x.Key) + ", " + src(fset, x.Value) + " := range " + head
					if len(x.Body.List) > 0 {
						taskCheck = src(fset, x.Body.List[0])
					}
					// the task handed to the pool: every `return` of the function literal (the pool is built
					// WithCancelOnError: a non-nil return value cancels the context of all other tasks)
					ast.Inspect(x.Body, func(n ast.Node) bool {
						ce, ok := n.(*ast.CallExpr)
						if !ok || src(fset, ce.Fun) != "pool.Go" || len(ce.Args) != 1 {
							return true
						}
						fl, ok := ce.Args[0].(*ast.FuncLit)
						if !ok {
							return true
						}
						poolGoCalls++
						var walk func(n ast.Node) bool
						walk = func(n ast.Node) bool {
							switch z := n.(type) {
							case *ast.FuncLit:
								if z != fl {
									return false // returns of nested literals are not returns of the task
								}
							case *ast.ReturnStmt:
								taskReturns = append(taskReturns, src(fset, z))
							}
							return true
						}
						ast.Inspect(fl, walk)
						return false
					})
					ast.Inspect(x.Body, func(n ast.Node) bool {
						switch y := n.(type) {
						case *ast.CallExpr:
							if src(fset, y.Fun) == "resultMap.Store" {
								storeCalls = append(storeCalls, src(fset, y))
							}
						case *ast.CompositeLit:
							if src(fset, y.Type) == "CheckCommandParams" {
								for _, el := range y.Elts {
									if kv, ok := el.(*ast.KeyValueExpr); ok {
										checkParams = append(checkParams, src(fset, kv.Key)+":"+src(fset, kv.Value))
									}
								}
							}
						}
						return true
					})
				case 3: // fan-out
					fanOut = append(fanOut, "range:"+src(fset, x.Key)+", "+src(fset, x.Value)+" := range "+head)
					for _, s := range x.Body.List {
						if r, ok := s.(*ast.RangeStmt); ok {
							fanOut = append(fanOut, "range:"+src(fset, r.Key)+", "+src(fset, r.Value)+" := range "+src(fset, r.X))
							for _, t := range r.Body.List {
								fanOut = append(fanOut, src(fset, t))
							}
						} else {
							fanOut = append(fanOut, src(fset, s))
						}
					}
				}
			}
		}
		if rangeCount != 3 {
			return Result{}, fmt.Errorf("Execute: expected 3 top-level range loops (group, pool, fan-out), found %d", rangeCount)
		}
		ast.Inspect(ex.Body, func(n ast.Node) bool {
			if kv, ok := n.(*ast.KeyValueExpr); ok && src(fset, kv.Key) == "DuplicateCheckCount" {
				dupCount = src(fset, kv.Value)
			}
			return true
		})
		// the checker is called with checkParams and the pool waits before the fan-out
		body := src(fset, ex.Body)
		for _, need := range []string{"res, err := bq.checker.Execute(ctx, checkParams)", "_ = pool.Wait()",
			"cacheKeyMap := make(map[keys.Key]*checkAndCorrelationIDs)", "results := map[CorrelationID]*BatchCheckOutcome{}"} {
			if !strings.Contains(body, need) {
				return Result{}, fmt.Errorf("Execute: statement %q not found", need)
			}
		}
		if strings.Index(body, "_ = pool.Wait()") > strings.Index(body, "results := map[CorrelationID]") {
			return Result{}, fmt.Errorf("Execute: fan-out no longer after pool.Wait()")
		}
		if poolGoCalls != 1 || len(taskReturns) == 0 {
			return Result{}, fmt.Errorf("Execute: expected one pool.Go(func literal) in the pool loop with return statements, found %d calls / %d returns", poolGoCalls, len(taskReturns))
		}
		// how the pool is built: the statement in Execute and the option chain of concurrency.NewPool
		poolCtor := ""
		for _, st := range ex.Body.List {
			if as, ok := st.(*ast.AssignStmt); ok && len(as.Lhs) == 1 && src(fset, as.Lhs[0]) == "pool" {
				poolCtor = src(fset, as)
			}
		}
		fsetP, fP, err := parseFile(repo, "internal/concurrency/concurrency.go")
		if err != nil {
			return Result{}, err
		}
		np := findFunc(fP, "", "NewPool")
		if np == nil {
			return Result{}, fmt.Errorf("concurrency.NewPool not found")
		}
		var poolOptions []string
		ast.Inspect(np.Body, func(n ast.Node) bool {
			if ce, ok := n.(*ast.CallExpr); ok {
				if se, ok := ce.Fun.(*ast.SelectorExpr); ok {
					poolOptions = append(poolOptions, se.Sel.Name)
				}
			}
			return true
		})
		_ = fsetP

		// ---- validateCorrelationIDs
		vc := findFunc(f, "", "validateCorrelationIDs")
		if vc == nil {
			return Result{}, fmt.Errorf("validateCorrelationIDs not found")
		}
		var vstmts []string
		for _, st := range vc.Body.List {
			if r, ok := st.(*ast.RangeStmt); ok {
				if src(fset, r.X) != "checks" {
					return Result{}, fmt.Errorf("validateCorrelationIDs: ranges over %s", src(fset, r.X))
				}
				for _, s := range r.Body.List {
					if is, ok := s.(*ast.IfStmt); ok {
						vstmts = append(vstmts, "if "+ifHead(is))
						if len(is.Body.List) != 1 {
							return Result{}, fmt.Errorf("validateCorrelationIDs: guard body changed")
						}
						if _, ok := is.Body.List[0].(*ast.ReturnStmt); !ok {
							return Result{}, fmt.Errorf("validateCorrelationIDs: guard does not return")
						}
					} else {
						vstmts = append(vstmts, src(fset, s))
					}
				}
			}
		}

		// ---- defaults
		_, cf, err := parseFile(repo, "pkg/server/config/config.go")
		if err != nil {
			return Result{}, err
		}
		intConst := func(name string) (int, error) {
			for _, d := range cf.Decls {
				gd, ok := d.(*ast.GenDecl)
				if !ok || gd.Tok != token.CONST {
					continue
				}
				for _, s := range gd.Specs {
					v := s.(*ast.ValueSpec)
					for i, n := range v.Names {
						if n.Name == name && i < len(v.Values) {
							if bl, ok := v.Values[i].(*ast.BasicLit); ok {
								return strconv.Atoi(bl.Value)
							}
						}
					}
				}
			}
			return 0, fmt.Errorf("config constant %s not found", name)
		}
		maxChecks, err := intConst("DefaultMaxChecksPerBatchCheck")
		if err != nil {
			return Result{}, err
		}
		maxConc, err := intConst("DefaultMaxConcurrentChecksPerBatchCheck")
		if err != nil {
			return Result{}, err
		}

		var sb strings.Builder
		sb.WriteString(genHeader)
		sb.WriteString("namespace OpenFGAVerif.Gen.Batch\n\n")
		sb.WriteString("/-- arguments of storage.CheckCacheKey in generateCacheKeyFromCheck -/\n")
		sb.WriteString("def checkCacheKeyArgs : List String := " + leanStrList(ckArgs) + "\n")
		sb.WriteString("def invariantKeyArgs : List String := " + leanStrList(invArgs) + "\n")
		sb.WriteString("def keyCall : String := " + leanStr(keyCall) + "\n")
		sb.WriteString("/-- if-guards of Execute before the grouping loop -/\n")
		sb.WriteString("def executeGuards : List String := " + leanStrList(guards) + "\n")
		sb.WriteString("def validateIdsStmts : List String := " + leanStrList(vstmts) + "\n")
		sb.WriteString("def groupLoop : List String := " + leanStrList(groupLoop) + "\n")
		sb.WriteString("def poolRange : String := " + leanStr(poolRange) + "\n")
		sb.WriteString("def taskCheck : String := " + leanStr(taskCheck) + "\n")
		sb.WriteString("def checkParams : List String := " + leanStrList(checkParams) + "\n")
		sb.WriteString("def storeCalls : List String := " + leanStrList(storeCalls) + "\n")
		sb.WriteString("/-- every return statement of the function literal handed to pool.Go -/\n")
		sb.WriteString("def poolTaskReturns : List String := " + leanStrList(taskReturns) + "\n")
		sb.WriteString("def poolCtor : String := " + leanStr(poolCtor) + "\n")
		sb.WriteString("/-- selector calls in concurrency.NewPool (outermost first) -/\n")
		sb.WriteString("def poolOptions : List String := " + leanStrList(poolOptions) + "\n")
		sb.WriteString("def fanOutLoop : List String := " + leanStrList(fanOut) + "\n")
		sb.WriteString("def duplicateCount : String := " + leanStr(dupCount) + "\n")
		sb.WriteString("def defaultMaxChecks : Nat := " + strconv.Itoa(maxChecks) + "\n")
		sb.WriteString("def defaultMaxConcurrent : Nat := " + strconv.Itoa(maxConc) + "\n")
		sb.WriteString("\nend OpenFGAVerif.Gen.Batch\n")
		return Result{Lean: sb.String(), Summary: map[string]interface{}{
			"checkCacheKeyArgs": ckArgs, "invariantKeyArgs": invArgs, "executeGuards": guards,
			"validateIdsStmts": vstmts, "groupLoop": groupLoop, "checkParams": checkParams,
			"fanOutLoop": fanOut, "defaultMaxChecks": maxChecks, "defaultMaxConcurrent": maxConc,
			"poolTaskReturns": taskReturns, "poolCtor": poolCtor, "poolOptions": poolOptions,
		}}, nil
	})
}
