package main

import (
	"fmt"
	"go/ast"
	"go/token"
	"strings"
)

// CacheCtl (C11): the statements of the cache controller and of the validity tests of the two caches it
// governs, as ordered "skeletons" (conditions, assignments, calls, returns; logging, tracing and metric
// statements dropped), plus the TTL plumbing.  The Lean timeline model (Model/CacheTimeline.lean) mirrors
// these statements; Props/C11.lean ties each skeleton to the text the model was written against.

// ccDrop says which statements are telemetry (no effect on the cache state).
func ccDrop(s string) bool {
	for _, p := range []string{
		"c.logger.", "span.", "telemetry.", "trace.SpanFromContext(parentCtx).AddLink", "ctx, span :=", "_, span :=", "defer span.End()",
		"span :=", "link :=", "start :=", "cacheTotalCounter.", "cacheHitCounter.", "cacheInvalidationCounter.",
		"findChangesAndInvalidateHistogram.", "tuplesCacheTotalCounter.", "tuplesCacheHitCounter.", "tuplesCacheDiscardCounter.",
		"tuplesCacheSizeHistogram.", "currentIteratorCacheCount.", "metrics.", "cacheItemCount.", "cacheSizeFloat :=",
	} {
		if strings.HasPrefix(s, p) {
			return true
		}
	}
	return false
}

// ccCall renders a call with function literals abbreviated to "func" and returns the literals.
func ccCall(fset *token.FileSet, ce *ast.CallExpr) (string, []*ast.FuncLit) {
	var lits []*ast.FuncLit
	var fun string
	if fl, ok := ce.Fun.(*ast.FuncLit); ok {
		fun = "func"
		lits = append(lits, fl)
	} else {
		fun = src(fset, ce.Fun)
	}
	args := make([]string, len(ce.Args))
	for i, a := range ce.Args {
		if fl, ok := a.(*ast.FuncLit); ok {
			args[i] = "func"
			lits = append(lits, fl)
		} else {
			args[i] = src(fset, a)
		}
	}
	return fun + "(" + strings.Join(args, ", ") + ")", lits
}

// ccSkeleton flattens a statement list: structure keywords, conditions and simple statements in
// source order; bodies of function literals passed to / invoked by a statement follow it.
func ccSkeleton(fset *token.FileSet, stmts []ast.Stmt) []string {
	var out []string
	emit := func(s string) {
		if !ccDrop(s) {
			out = append(out, s)
		}
	}
	var walk func(st ast.Stmt)
	block := func(b *ast.BlockStmt) {
		if b == nil {
			return
		}
		for _, s := range b.List {
			walk(s)
		}
	}
	simple := func(prefix string, st ast.Node, ce *ast.CallExpr) {
		if ce != nil {
			txt, lits := ccCall(fset, ce)
			if ccDrop(txt) {
				return
			}
			full := prefix + txt
			if as, ok := st.(*ast.AssignStmt); ok {
				lhs := make([]string, len(as.Lhs))
				for i, l := range as.Lhs {
					lhs[i] = src(fset, l)
				}
				full = prefix + strings.Join(lhs, ", ") + " " + as.Tok.String() + " " + txt
			}
			emit(full)
			for _, fl := range lits {
				out = append(out, "func{")
				block(fl.Body)
				out = append(out, "}")
			}
			return
		}
		emit(prefix + src(fset, st))
	}
	walk = func(st ast.Stmt) {
		switch x := st.(type) {
		case *ast.BlockStmt:
			block(x)
		case *ast.IfStmt:
			c := "if "
			if x.Init != nil {
				c += src(fset, x.Init) + "; "
			}
			out = append(out, c+src(fset, x.Cond)+" {")
			block(x.Body)
			if x.Else != nil {
				out = append(out, "} else {")
				walk(x.Else)
			}
			out = append(out, "}")
		case *ast.ForStmt:
			h := "for "
			if x.Init != nil {
				h += src(fset, x.Init)
			}
			h += "; "
			if x.Cond != nil {
				h += src(fset, x.Cond)
			}
			h += "; "
			if x.Post != nil {
				h += src(fset, x.Post)
			}
			out = append(out, h+" {")
			block(x.Body)
			out = append(out, "}")
		case *ast.RangeStmt:
			h := "range "
			if x.Key != nil {
				h += src(fset, x.Key)
			}
			if x.Value != nil {
				h += ", " + src(fset, x.Value)
			}
			out = append(out, h+" := "+src(fset, x.X)+" {")
			block(x.Body)
			out = append(out, "}")
		case *ast.SelectStmt:
			out = append(out, "select {")
			for _, c := range x.Body.List {
				cc := c.(*ast.CommClause)
				if cc.Comm == nil {
					out = append(out, "default:")
				} else {
					out = append(out, "case "+src(fset, cc.Comm)+":")
				}
				for _, s := range cc.Body {
					walk(s)
				}
			}
			out = append(out, "}")
		case *ast.SwitchStmt:
			h := "switch"
			if x.Tag != nil {
				h += " " + src(fset, x.Tag)
			}
			out = append(out, h+" {")
			for _, c := range x.Body.List {
				cc := c.(*ast.CaseClause)
				if cc.List == nil {
					out = append(out, "default:")
				} else {
					parts := make([]string, len(cc.List))
					for i, e := range cc.List {
						parts[i] = src(fset, e)
					}
					out = append(out, "case "+strings.Join(parts, ", ")+":")
				}
				for _, s := range cc.Body {
					walk(s)
				}
			}
			out = append(out, "}")
		case *ast.GoStmt:
			simple("go ", x, x.Call)
		case *ast.DeferStmt:
			simple("defer ", x, x.Call)
		case *ast.ExprStmt:
			if ce, ok := x.X.(*ast.CallExpr); ok {
				simple("", x, ce)
			} else {
				simple("", x, nil)
			}
		case *ast.AssignStmt:
			if len(x.Rhs) == 1 {
				if ce, ok := x.Rhs[0].(*ast.CallExpr); ok {
					simple("", x, ce)
					return
				}
			}
			simple("", x, nil)
		case *ast.LabeledStmt:
			walk(x.Stmt)
		default:
			simple("", st, nil)
		}
	}
	for _, s := range stmts {
		walk(s)
	}
	return out
}

func ccFuncSkeleton(repo, file, recv, name string) ([]string, error) {
	fset, f, err := parseFile(repo, file)
	if err != nil {
		return nil, err
	}
	fd := findFunc(f, recv, name)
	if fd == nil || fd.Body == nil {
		return nil, fmt.Errorf("%s: function %s.%s not found", file, recv, name)
	}
	sk := ccSkeleton(fset, fd.Body.List)
	if len(sk) == 0 {
		return nil, fmt.Errorf("%s: %s.%s has an empty skeleton", file, recv, name)
	}
	return sk, nil
}

// ccCallArgs returns the argument texts of the first call to `callee` (as rendered by src of Fun) in a function.
func ccCallArgs(repo, file, recv, name, callee string) ([][]string, error) {
	fset, f, err := parseFile(repo, file)
	if err != nil {
		return nil, err
	}
	fd := findFunc(f, recv, name)
	if fd == nil {
		return nil, fmt.Errorf("%s: function %s.%s not found", file, recv, name)
	}
	var out [][]string
	ast.Inspect(fd.Body, func(n ast.Node) bool {
		if ce, ok := n.(*ast.CallExpr); ok && src(fset, ce.Fun) == callee {
			as := make([]string, len(ce.Args))
			for i, a := range ce.Args {
				as[i] = src(fset, a)
			}
			out = append(out, as)
		}
		return true
	})
	if len(out) == 0 {
		return nil, fmt.Errorf("%s: %s.%s does not call %s", file, recv, name, callee)
	}
	return out, nil
}

func init() {
	register("CacheCtl", func(repo string) (Result, error) {
		type item struct{ lean, file, recv, fn string }
		items := []item{
			{"findChanges", "internal/cachecontroller/cache_controller.go", "InMemoryCacheController", "findChangesAndInvalidateIfNecessary"},
			{"findChangesDescending", "internal/cachecontroller/cache_controller.go", "InMemoryCacheController", "findChangesDescending"},
			{"determineInvalidationTime", "internal/cachecontroller/cache_controller.go", "InMemoryCacheController", "DetermineInvalidationTime"},
			{"invalidateIfNeeded", "internal/cachecontroller/cache_controller.go", "InMemoryCacheController", "InvalidateIfNeeded"},
			{"markStore", "internal/cachecontroller/cache_controller.go", "InMemoryCacheController", "invalidateIteratorCache"},
			{"markObjectRelation", "internal/cachecontroller/cache_controller.go", "InMemoryCacheController", "invalidateIteratorCacheByObjectRelation"},
			{"markUserObjectType", "internal/cachecontroller/cache_controller.go", "InMemoryCacheController", "invalidateIteratorCacheByUserAndObjectType"},
			{"isInvalidAt", "pkg/storage/storagewrappers/cached_datastore.go", "", "isInvalidAt"},
			{"findInCache", "pkg/storage/storagewrappers/cached_datastore.go", "", "findInCache"},
			{"v1Flush", "pkg/storage/storagewrappers/cached_datastore.go", "cachedIterator", "flush"},
			{"v1ByObjectRelation", "pkg/storage/storagewrappers/cached_datastore.go", "CachedDatastore", "newCachedIteratorByObjectRelation"},
			{"v2TryGet", "pkg/storage/storagewrappers/cached_reader.go", "CachedTupleReader", "tryGetFromCache"},
			{"v2StoreInvalidated", "pkg/storage/storagewrappers/cached_reader.go", "CachedTupleReader", "isStoreInvalidated"},
			{"v2EntryInvalidated", "pkg/storage/storagewrappers/cached_reader.go", "CachedTupleReader", "isCacheEntryInvalidated"},
			{"isCachedV2", "internal/check/check.go", "Resolver", "isCached"},
			{"lruSet", "pkg/storage/cache.go", "InMemoryLRUCache", "Set"},
			{"jitteredTTL", "pkg/storage/cache.go", "", "JitteredTTL"},
		}
		var sb strings.Builder
		sb.WriteString(genHeader)
		sb.WriteString("namespace OpenFGAVerif.Gen.CacheCtl\n\n")
		summary := map[string]interface{}{}
		for _, it := range items {
			sk, err := ccFuncSkeleton(repo, it.file, it.recv, it.fn)
			if err != nil {
				return Result{}, err
			}
			fmt.Fprintf(&sb, "/-- %s: %s.%s -/\ndef %s : List String := %s\n\n", it.file, it.recv, it.fn, it.lean, leanStrList(sk))
			summary[it.lean] = len(sk)
		}
		// only the cache-relevant statements of the two long functions
		pick := func(lean, file, recv, fn string, keep func(string) bool, doc string) error {
			sk, err := ccFuncSkeleton(repo, file, recv, fn)
			if err != nil {
				return err
			}
			var out []string
			for _, l := range sk {
				if keep(l) {
					out = append(out, l)
				}
			}
			if len(out) == 0 {
				return fmt.Errorf("%s: %s.%s: none of the expected statements found", file, recv, fn)
			}
			fmt.Fprintf(&sb, "/-- %s -/\ndef %s : List String := %s\n\n", doc, lean, leanStrList(out))
			summary[lean] = len(out)
			return nil
		}
		if err := pick("v1StopGuards", "pkg/storage/storagewrappers/cached_datastore.go", "cachedIterator", "Stop", func(l string) bool {
			return strings.Contains(l, "findInCache(") || strings.Contains(l, "isInvalidAt(") || strings.Contains(l, "c.flush()")
		}, "cachedIterator.Stop: the statements that consult the cache before flushing, in order"); err != nil {
			return Result{}, err
		}
		if err := pick("v2FlushSet", "pkg/storage/storagewrappers/iterator_cache.go", "CachingIterator", "flush", func(l string) bool {
			return strings.HasPrefix(l, "c.cache.Set(")
		}, "CachingIterator.flush: the cache.Set"); err != nil {
			return Result{}, err
		}
		if err := pick("v2DrainGuard", "pkg/storage/storagewrappers/iterator_cache.go", "CachingIterator", "drainInBackground", func(l string) bool {
			return strings.Contains(l, "c.cache.Get(") || strings.Contains(l, "V2IteratorCacheEntry")
		}, "CachingIterator.drainInBackground: the presence test before draining"); err != nil {
			return Result{}, err
		}
		// the query cache: validity test and the stamp / TTL of what is stored
		fsetR, fR, err := parseFile(repo, "internal/graph/cached_resolver.go")
		if err != nil {
			return Result{}, err
		}
		rc := findFunc(fR, "CachedCheckResolver", "ResolveCheck")
		if rc == nil {
			return Result{}, fmt.Errorf("CachedCheckResolver.ResolveCheck not found")
		}
		var qValid, qSet []string
		ast.Inspect(rc.Body, func(n ast.Node) bool {
			switch x := n.(type) {
			case *ast.AssignStmt:
				if len(x.Lhs) == 1 && src(fsetR, x.Lhs[0]) == "isValid" {
					qValid = append(qValid, src(fsetR, x))
				}
			case *ast.CallExpr:
				if src(fsetR, x.Fun) == "c.cache.Set" {
					for _, a := range x.Args {
						qSet = append(qSet, src(fsetR, a))
					}
				}
			}
			return true
		})
		if len(qValid) != 1 || len(qSet) != 3 {
			return Result{}, fmt.Errorf("cached_resolver.go: validity test / cache.Set not recognised (%d, %d)", len(qValid), len(qSet))
		}
		fmt.Fprintf(&sb, "/-- CachedCheckResolver.ResolveCheck: the validity test of a found entry -/\ndef queryValid : List String := %s\n\n", leanStrList(qValid))
		fmt.Fprintf(&sb, "/-- CachedCheckResolver.ResolveCheck: arguments of cache.Set -/\ndef querySet : List String := %s\n\n", leanStrList(qSet))
		// every Set of a weighted-graph response entry: stamp and TTL
		fsetC, fC, err := parseFile(repo, "internal/check/check.go")
		if err != nil {
			return Result{}, err
		}
		var v2Sets []string
		ast.Inspect(fC, func(n ast.Node) bool {
			if ce, ok := n.(*ast.CallExpr); ok && src(fsetC, ce.Fun) == "r.cache.Set" && len(ce.Args) == 3 {
				v2Sets = append(v2Sets, "Set "+src(fsetC, ce.Args[1])+" | "+src(fsetC, ce.Args[2]))
			}
			if cl, ok := n.(*ast.CompositeLit); ok && src(fsetC, cl.Type) == "ResponseCacheEntry" {
				v2Sets = append(v2Sets, "lit "+src(fsetC, cl))
			}
			return true
		})
		if len(v2Sets) == 0 {
			return Result{}, fmt.Errorf("internal/check/check.go: no r.cache.Set found")
		}
		fmt.Fprintf(&sb, "/-- internal/check: value and TTL of every r.cache.Set -/\ndef v2QuerySets : List String := %s\n\n", leanStrList(v2Sets))
		// TTL plumbing
		ctl, err := ccCallArgs(repo, "internal/shared/shared.go", "", "NewSharedDatastoreResources", "cachecontroller.NewCacheController")
		if err != nil {
			return Result{}, err
		}
		var ctlFlat []string
		for _, c := range ctl {
			ctlFlat = append(ctlFlat, strings.Join(c, " | "))
		}
		fmt.Fprintf(&sb, "/-- shared.NewSharedDatastoreResources: arguments of every NewCacheController call (main, shadow) -/\ndef controllerArgs : List String := %s\n\n", leanStrList(ctlFlat))
		cds, err := ccCallArgs(repo, "pkg/storage/storagewrappers/request.go", "", "NewRequestStorageWrapperWithCache", "NewCachedDatastore")
		if err != nil {
			return Result{}, err
		}
		var cdsTTL []string
		for _, c := range cds {
			if len(c) < 5 {
				return Result{}, fmt.Errorf("request.go: NewCachedDatastore call with %d args", len(c))
			}
			cdsTTL = append(cdsTTL, c[4])
		}
		fmt.Fprintf(&sb, "/-- request.go: the ttl argument of NewCachedDatastore for Check and for ListObjects -/\ndef cachedDatastoreTTLs : List String := %s\n\n", leanStrList(cdsTTL))
		v2r, err := ccCallArgs(repo, "pkg/server/commands/check.go", "CheckQueryV2", "resolve", "storagewrappers.NewCachedTupleReader")
		if err != nil {
			return Result{}, err
		}
		if len(v2r[0]) < 5 {
			return Result{}, fmt.Errorf("commands/check.go: NewCachedTupleReader call with %d args", len(v2r[0]))
		}
		fmt.Fprintf(&sb, "/-- commands/check.go: the ttl argument of NewCachedTupleReader -/\ndef v2ReaderTTL : String := %s\n\n", leanStr(v2r[0][4]))
		// constants
		_, fS, err := parseFile(repo, "pkg/storage/storage.go")
		if err != nil {
			return Result{}, err
		}
		pageSize := ""
		ast.Inspect(fS, func(n ast.Node) bool {
			if vs, ok := n.(*ast.ValueSpec); ok {
				for i, nm := range vs.Names {
					if nm.Name == "DefaultPageSize" && i < len(vs.Values) {
						if bl, ok := vs.Values[i].(*ast.BasicLit); ok {
							pageSize = bl.Value
						}
					}
				}
			}
			return true
		})
		if pageSize == "" {
			return Result{}, fmt.Errorf("storage.DefaultPageSize not found as a literal")
		}
		fmt.Fprintf(&sb, "def defaultPageSize : Nat := %s\n\n", pageSize)
		fsetK, fK, err := parseFile(repo, "pkg/storage/cache.go")
		if err != nil {
			return Result{}, err
		}
		oneYear := ""
		ast.Inspect(fK, func(n ast.Node) bool {
			if vs, ok := n.(*ast.ValueSpec); ok {
				for i, nm := range vs.Names {
					if nm.Name == "oneYear" && i < len(vs.Values) {
						oneYear = src(fsetK, vs.Values[i])
					}
				}
			}
			return true
		})
		fmt.Fprintf(&sb, "def oneYear : String := %s\n\n", leanStr(oneYear))
		sb.WriteString("end OpenFGAVerif.Gen.CacheCtl\n")
		summary["controllerArgs"] = ctlFlat
		summary["cachedDatastoreTTLs"] = cdsTTL
		summary["defaultPageSize"] = pageSize
		return Result{Lean: sb.String(), Summary: summary}, nil
	})
}
