package main

import (
	"fmt"
	"go/ast"
	"go/parser"
	"go/token"
	"os"
	"path/filepath"
	"regexp"
	"sort"
	"strings"
)

// CacheSites (C10): the table of every cache *read* site of the repository with the path conditions
// that dominate it, the in-package call edges and constructions through which helper functions and
// iterator methods containing such sites are reached, the call sites of DetermineInvalidationTime /
// InvalidateIfNeeded, and the read-option literals of the Check / List engines (do they forward the
// request's consistency preference?).  Props/C10.lean decides over these tables that every read site
// that can serve tuple data is dominated by a HIGHER_CONSISTENCY test.

// csGuard is one path condition: a comparison `lhs op rhs` (op "==" or "!=") or an opaque text (op "").
// neg = the condition is known to be *false* on the path.
type csGuard struct {
	Neg          bool
	Lhs, Op, Rhs string
}

type csSite struct {
	Kind   string // cacheGet | sharedLoad
	File   string
	Func   string // pkgdir:Recv.Name or pkgdir:Name
	Call   string
	Guards []csGuard
}

type csEdge struct {
	Caller string
	Callee string // pkgdir:Name | pkgdir:Recv.Name | new:pkgdir:Type
	Args   []string
	Guards []csGuard
}

type csFunc struct {
	id, pkg, recv, name, file string
	exported                  bool
	params                    []string
	decl                      *ast.FuncDecl
	fset                      *token.FileSet
}

var csCacheRecv = regexp.MustCompile(`(?i)cache$`)

func csSkipDir(rel string) bool {
	for _, p := range []string{".git", "vendor", "tests", "internal/mocks", "assets", "docs", "telemetry", ".github", "cmd", "pkg/testutils", "pkg/testfixtures",
		"pkg/storage/test", "pkg/storage/mysql", "pkg/storage/postgres", "pkg/storage/sqlite", "pkg/storage/sqlcommon", "pkg/storage/migrate", "pkg/storage/memory"} {
		if rel == p || strings.HasPrefix(rel, p+"/") {
			return true
		}
	}
	return false
}

func csRecvName(fd *ast.FuncDecl) (recvType, recvVar string) {
	if fd.Recv == nil || len(fd.Recv.List) != 1 {
		return "", ""
	}
	t := fd.Recv.List[0].Type
	if s, ok := t.(*ast.StarExpr); ok {
		t = s.X
	}
	if ix, ok := t.(*ast.IndexExpr); ok {
		t = ix.X
	}
	if id, ok := t.(*ast.Ident); ok {
		recvType = id.Name
	}
	if len(fd.Recv.List[0].Names) == 1 {
		recvVar = fd.Recv.List[0].Names[0].Name
	}
	return
}

// csConds splits a condition into guards: `a && b` (true) and `a || b` (false) distribute, `!x` flips.
func csConds(fset *token.FileSet, e ast.Expr, neg bool, defs map[string]ast.Expr, depth int) []csGuard {
	switch x := e.(type) {
	case *ast.ParenExpr:
		return csConds(fset, x.X, neg, defs, depth)
	case *ast.UnaryExpr:
		if x.Op == token.NOT {
			return csConds(fset, x.X, !neg, defs, depth)
		}
	case *ast.BinaryExpr:
		switch {
		case x.Op == token.LAND && !neg, x.Op == token.LOR && neg:
			return append(csConds(fset, x.X, neg, defs, depth), csConds(fset, x.Y, neg, defs, depth)...)
		case x.Op == token.EQL || x.Op == token.NEQ:
			return []csGuard{{Neg: neg, Lhs: src(fset, x.X), Op: x.Op.String(), Rhs: src(fset, x.Y)}}
		}
	case *ast.Ident:
		// a local boolean defined once by `name := expr`: use its definition
		if d, ok := defs[x.Name]; ok && depth < 3 {
			return csConds(fset, d, neg, defs, depth+1)
		}
	}
	return []csGuard{{Neg: neg, Lhs: src(fset, e)}}
}

func csTerminates(b *ast.BlockStmt) bool {
	if b == nil || len(b.List) == 0 {
		return false
	}
	switch x := b.List[len(b.List)-1].(type) {
	case *ast.ReturnStmt:
		return true
	case *ast.BranchStmt:
		return x.Tok == token.CONTINUE || x.Tok == token.BREAK || x.Tok == token.GOTO
	case *ast.ExprStmt:
		if ce, ok := x.X.(*ast.CallExpr); ok {
			if id, ok := ce.Fun.(*ast.Ident); ok && id.Name == "panic" {
				return true
			}
		}
	}
	return false
}

type csWalker struct {
	fn      *csFunc
	recvVar string
	defs    map[string]ast.Expr
	onCall  func(ce *ast.CallExpr, guards []csGuard)
	onLit   func(cl *ast.CompositeLit, guards []csGuard)
}

func (w *csWalker) exprs(n ast.Node, guards []csGuard) {
	if n == nil {
		return
	}
	ast.Inspect(n, func(m ast.Node) bool {
		switch x := m.(type) {
		case *ast.FuncLit:
			w.stmts(x.Body.List, guards)
			return false
		case *ast.CallExpr:
			w.onCall(x, guards)
		case *ast.CompositeLit:
			w.onLit(x, guards)
		}
		return true
	})
}

func (w *csWalker) stmts(list []ast.Stmt, guards []csGuard) {
	g := append([]csGuard(nil), guards...)
	for _, st := range list {
		w.stmt(st, g)
		// an `if c { …; return }` without else: the rest of the block runs only when c is false
		if is, ok := st.(*ast.IfStmt); ok && is.Else == nil && csTerminates(is.Body) {
			g = append(g, csConds(w.fn.fset, is.Cond, true, w.defs, 0)...)
		}
	}
}

func (w *csWalker) stmt(st ast.Stmt, guards []csGuard) {
	fset := w.fn.fset
	switch x := st.(type) {
	case nil:
	case *ast.BlockStmt:
		w.stmts(x.List, guards)
	case *ast.IfStmt:
		if x.Init != nil {
			w.stmt(x.Init, guards)
		}
		w.exprs(x.Cond, guards)
		w.stmts(x.Body.List, append(append([]csGuard(nil), guards...), csConds(fset, x.Cond, false, w.defs, 0)...))
		if x.Else != nil {
			w.stmt(x.Else, append(append([]csGuard(nil), guards...), csConds(fset, x.Cond, true, w.defs, 0)...))
		}
	case *ast.ForStmt:
		if x.Init != nil {
			w.stmt(x.Init, guards)
		}
		w.exprs(x.Cond, guards)
		if x.Post != nil {
			w.stmt(x.Post, guards)
		}
		w.stmts(x.Body.List, guards)
	case *ast.RangeStmt:
		w.exprs(x.X, guards)
		w.stmts(x.Body.List, guards)
	case *ast.SwitchStmt:
		if x.Init != nil {
			w.stmt(x.Init, guards)
		}
		w.exprs(x.Tag, guards)
		for _, c := range x.Body.List {
			cc := c.(*ast.CaseClause)
			for _, e := range cc.List {
				w.exprs(e, guards)
			}
			w.stmts(cc.Body, guards)
		}
	case *ast.TypeSwitchStmt:
		if x.Init != nil {
			w.stmt(x.Init, guards)
		}
		w.stmt(x.Assign, guards)
		for _, c := range x.Body.List {
			w.stmts(c.(*ast.CaseClause).Body, guards)
		}
	case *ast.SelectStmt:
		for _, c := range x.Body.List {
			cc := c.(*ast.CommClause)
			if cc.Comm != nil {
				w.stmt(cc.Comm, guards)
			}
			w.stmts(cc.Body, guards)
		}
	case *ast.LabeledStmt:
		w.stmt(x.Stmt, guards)
	default:
		w.exprs(st, guards)
	}
}

func csLeanGuards(gs []csGuard) string {
	parts := make([]string, len(gs))
	for i, g := range gs {
		n := "false"
		if g.Neg {
			n = "true"
		}
		parts[i] = fmt.Sprintf("(%s, %s, %s, %s)", n, leanStr(g.Lhs), leanStr(g.Op), leanStr(g.Rhs))
	}
	return "[" + strings.Join(parts, ", ") + "]"
}

func init() {
	register("CacheSites", func(repo string) (Result, error) {
		// ---- parse every non-test file of the scanned directories ----
		funcs := map[string]*csFunc{}      // id -> func
		byPkgName := map[string][]string{} // pkg + ":" + name -> ids
		var order []string
		type pfile struct {
			rel  string
			pkg  string
			fset *token.FileSet
			f    *ast.File
		}
		var files []pfile
		err := filepath.Walk(repo, func(path string, info os.FileInfo, err error) error {
			if err != nil {
				return err
			}
			rel, _ := filepath.Rel(repo, path)
			rel = filepath.ToSlash(rel)
			if info.IsDir() {
				if rel != "." && csSkipDir(rel) {
					return filepath.SkipDir
				}
				return nil
			}
			if !strings.HasSuffix(rel, ".go") || strings.HasSuffix(rel, "_test.go") || strings.Contains(rel, "/mock") {
				return nil
			}
			fset := token.NewFileSet()
			f, perr := parser.ParseFile(fset, path, nil, 0)
			if perr != nil {
				return fmt.Errorf("%s: %w", rel, perr)
			}
			files = append(files, pfile{rel, filepath.ToSlash(filepath.Dir(rel)), fset, f})
			return nil
		})
		if err != nil {
			return Result{}, err
		}
		sort.Slice(files, func(i, j int) bool { return files[i].rel < files[j].rel })
		anon := 0
		for _, pf := range files {
			for _, d := range pf.f.Decls {
				fd, ok := d.(*ast.FuncDecl)
				if !ok || fd.Body == nil {
					continue
				}
				recv, _ := csRecvName(fd)
				name := fd.Name.Name
				id := pf.pkg + ":" + name
				if recv != "" {
					id = pf.pkg + ":" + recv + "." + name
				}
				if _, dup := funcs[id]; dup { // e.g. init
					anon++
					id = fmt.Sprintf("%s#%d", id, anon)
				}
				var params []string
				for _, fl := range fd.Type.Params.List {
					if len(fl.Names) == 0 {
						params = append(params, "_")
					}
					for _, n := range fl.Names {
						params = append(params, n.Name)
					}
				}
				funcs[id] = &csFunc{id: id, pkg: pf.pkg, recv: recv, name: name, file: pf.rel, exported: ast.IsExported(name),
					params: params, decl: fd, fset: pf.fset}
				byPkgName[pf.pkg+":"+name] = append(byPkgName[pf.pkg+":"+name], id)
				order = append(order, id)
			}
		}
		// ---- pass 1: read sites ----
		var sites []csSite
		var triggers []csEdge // calls of DetermineInvalidationTime / InvalidateIfNeeded from outside the controller
		type rawCall struct {
			fn     *csFunc
			ce     *ast.CallExpr
			guards []csGuard
		}
		type rawLit struct {
			fn     *csFunc
			typ    string
			guards []csGuard
		}
		var calls []rawCall
		var lits []rawLit
		for _, id := range order {
			fn := funcs[id]
			_, recvVar := csRecvName(fn.decl)
			defs := map[string]ast.Expr{}
			count := map[string]int{}
			ast.Inspect(fn.decl.Body, func(n ast.Node) bool {
				if as, ok := n.(*ast.AssignStmt); ok && len(as.Lhs) == 1 && len(as.Rhs) == 1 {
					if idn, ok := as.Lhs[0].(*ast.Ident); ok {
						count[idn.Name]++
						if as.Tok == token.DEFINE {
							defs[idn.Name] = as.Rhs[0]
						}
					}
				}
				return true
			})
			for k := range defs {
				if count[k] != 1 {
					delete(defs, k)
				}
			}
			// rewrite a guard on the i-th parameter to "$param<i>"
			paramIdx := map[string]int{}
			for i, p := range fn.params {
				paramIdx[p] = i
			}
			fix := func(gs []csGuard) []csGuard {
				out := make([]csGuard, len(gs))
				for i, g := range gs {
					if ix, ok := paramIdx[g.Lhs]; ok && g.Op != "" {
						g.Lhs = fmt.Sprintf("$param%d", ix)
					}
					out[i] = g
				}
				return out
			}
			w := &csWalker{fn: fn, recvVar: recvVar, defs: defs}
			w.onCall = func(ce *ast.CallExpr, guards []csGuard) {
				gs := fix(guards)
				if se, ok := ce.Fun.(*ast.SelectorExpr); ok {
					recvTxt := src(fn.fset, se.X)
					last := recvTxt
					if i := strings.LastIndexByte(last, '.'); i >= 0 {
						last = last[i+1:]
					}
					switch {
					case se.Sel.Name == "Get" && len(ce.Args) == 1 && csCacheRecv.MatchString(last):
						sites = append(sites, csSite{"cacheGet", fn.file, fn.id, src(fn.fset, ce), gs})
					case (se.Sel.Name == "Load" || se.Sel.Name == "LoadOrStore" || se.Sel.Name == "Range") && strings.Contains(recvTxt, "internalStorage."):
						sites = append(sites, csSite{"sharedLoad", fn.file, fn.id, src(fn.fset, ce), gs})
					case (se.Sel.Name == "DetermineInvalidationTime" || se.Sel.Name == "InvalidateIfNeeded") && fn.pkg != "internal/cachecontroller":
						triggers = append(triggers, csEdge{Caller: fn.id, Callee: se.Sel.Name, Guards: gs})
					}
				}
				calls = append(calls, rawCall{fn, ce, gs})
			}
			w.onLit = func(cl *ast.CompositeLit, guards []csGuard) {
				if idn, ok := cl.Type.(*ast.Ident); ok {
					lits = append(lits, rawLit{fn, idn.Name, fix(guards)})
				}
			}
			w.stmts(fn.decl.Body.List, nil)
		}
		if len(sites) < 8 {
			return Result{}, fmt.Errorf("only %d cache read sites recognised: the scanner no longer matches the source", len(sites))
		}
		// ---- pass 2: the functions through which sites are reached (in-package closure) ----
		interesting := map[string]bool{}
		for _, s := range sites {
			interesting[s.Func] = true
		}
		var edges []csEdge
		seenEdge := map[string]bool{}
		for changed := true; changed; {
			changed = false
			for _, rc := range calls {
				fn := rc.fn
				_, recvVar := csRecvName(fn.decl)
				var calleeIDs []string
				switch f := rc.ce.Fun.(type) {
				case *ast.Ident:
					for _, id := range byPkgName[fn.pkg+":"+f.Name] {
						if funcs[id].recv == "" {
							calleeIDs = append(calleeIDs, id)
						}
					}
				case *ast.SelectorExpr:
					if x, ok := f.X.(*ast.Ident); ok && recvVar != "" && x.Name == recvVar {
						for _, id := range byPkgName[fn.pkg+":"+f.Sel.Name] {
							if funcs[id].recv == fn.recv {
								calleeIDs = append(calleeIDs, id)
							}
						}
					}
				}
				for _, cid := range calleeIDs {
					if !interesting[cid] {
						continue
					}
					args := make([]string, len(rc.ce.Args))
					for i, a := range rc.ce.Args {
						args[i] = src(fn.fset, a)
					}
					key := fn.id + "→" + cid + "@" + fn.fset.Position(rc.ce.Pos()).String()
					if !seenEdge[key] {
						seenEdge[key] = true
						edges = append(edges, csEdge{fn.id, cid, args, rc.guards})
					}
					if !interesting[fn.id] {
						interesting[fn.id] = true
						changed = true
					}
				}
			}
			// constructions of the receiver types of interesting methods
			for _, rl := range lits {
				tid := ""
				for id := range interesting {
					f := funcs[id]
					if f != nil && f.recv == rl.typ && f.pkg == rl.fn.pkg {
						tid = "new:" + f.pkg + ":" + f.recv
					}
				}
				if tid == "" {
					continue
				}
				key := rl.fn.id + "→" + tid + fmt.Sprint(len(rl.guards))
				if !seenEdge[key] {
					seenEdge[key] = true
					edges = append(edges, csEdge{rl.fn.id, tid, nil, rl.guards})
				}
				if !interesting[rl.fn.id] {
					interesting[rl.fn.id] = true
					changed = true
				}
			}
		}
		sort.SliceStable(edges, func(i, j int) bool {
			if edges[i].Callee != edges[j].Callee {
				return edges[i].Callee < edges[j].Callee
			}
			return edges[i].Caller < edges[j].Caller
		})
		// the functions of the closure: id, exported?, receiver type — and the same tables with indices
		// instead of names (the analysis in Lean runs on the indices; a consistency lemma ties them to the names)
		var fnRows, fnRowsN []string
		var ids []string
		for id := range interesting {
			ids = append(ids, id)
		}
		sort.Strings(ids)
		fnIdx := map[string]int{}
		typeIdx := map[string]int{}
		var recvTypes []string
		for i, id := range ids {
			fnIdx[id] = i
			f := funcs[id]
			if f.recv != "" {
				rt := f.pkg + ":" + f.recv
				if _, ok := typeIdx[rt]; !ok {
					typeIdx[rt] = len(recvTypes)
					recvTypes = append(recvTypes, rt)
				}
			}
		}
		for _, id := range ids {
			f := funcs[id]
			ex := "false"
			if f.exported {
				ex = "true"
			}
			rt := ""
			rtN := 0
			if f.recv != "" {
				rt = f.pkg + ":" + f.recv
				rtN = typeIdx[rt] + 1
			}
			fnRows = append(fnRows, fmt.Sprintf("(%s, %s, %s)", leanStr(id), ex, leanStr(rt)))
			fnRowsN = append(fnRowsN, fmt.Sprintf("(%s, %d)", ex, rtN))
		}
		var edgeRowsN []string
		for _, e := range edges {
			if strings.HasPrefix(e.Callee, "new:") {
				edgeRowsN = append(edgeRowsN, fmt.Sprintf("(%d, true, %d)", fnIdx[e.Caller], typeIdx[strings.TrimPrefix(e.Callee, "new:")]))
			} else {
				edgeRowsN = append(edgeRowsN, fmt.Sprintf("(%d, false, %d)", fnIdx[e.Caller], fnIdx[e.Callee]))
			}
		}
		var siteFuncs []string
		for _, st := range sites {
			siteFuncs = append(siteFuncs, fmt.Sprint(fnIdx[st.Func]))
		}
		// ---- read-option literals of the engines ----
		optTypes := map[string]bool{"storage.ReadOptions": true, "storage.ReadUsersetTuplesOptions": true,
			"storage.ReadStartingWithUserOptions": true, "storage.ReadUserTupleOptions": true, "storage.ReadPageOptions": false}
		var optRows []string
		optCount := 0
		for _, pf := range files {
			if !(strings.HasPrefix(pf.rel, "internal/graph/") || strings.HasPrefix(pf.rel, "internal/check/") || strings.HasPrefix(pf.rel, "internal/checkutil/") ||
				strings.HasPrefix(pf.rel, "internal/listobjects/") || strings.HasPrefix(pf.rel, "pkg/server/commands/")) {
				continue
			}
			ast.Inspect(pf.f, func(n ast.Node) bool {
				cl, ok := n.(*ast.CompositeLit)
				if !ok || cl.Type == nil {
					return true
				}
				tn := src(pf.fset, cl.Type)
				if !optTypes[tn] {
					return true
				}
				pref := ""
				for _, el := range cl.Elts {
					if kv, ok := el.(*ast.KeyValueExpr); ok && src(pf.fset, kv.Key) == "Consistency" {
						pref = src(pf.fset, kv.Value)
					}
				}
				optCount++
				optRows = append(optRows, fmt.Sprintf("(%s, %s, %s)", leanStr(pf.rel), leanStr(tn), leanStr(pref)))
				return true
			})
		}
		if optCount < 10 {
			return Result{}, fmt.Errorf("only %d read-option literals found", optCount)
		}
		// ---- construction sites of tuple readers / caching wrappers in the engines, with the evidence that the
		// request's consistency preference is handed on in the constructing function ----
		readerCtors := map[string]bool{
			"storagewrappers.NewRequestStorageWrapperWithCache": true, "storagewrappers.NewRequestStorageWrapper": true,
			"storagewrappers.NewCachedTupleReader": true, "storagewrappers.NewCachedDatastore": true,
			"sharediterator.NewSharedIteratorDatastore": true, "storagewrappers.NewCombinedTupleReader": true,
			"storagewrappers.NewBoundedTupleReader": true, "pipeline.NewValidatingStore": true,
		}
		consistencyOpt := regexp.MustCompile(`^([A-Za-z0-9_]+\.)?With[A-Za-z]*Consistency[A-Za-z]*$`)
		engineFile := func(rel string) bool {
			return (strings.HasPrefix(rel, "pkg/server/") || strings.HasPrefix(rel, "internal/")) &&
				!strings.HasPrefix(rel, "pkg/server/test/")
		}
		type ev3 struct{ kind, carrier, expr string }
		var readerRows, readerSummary, handoffRows []string
		for _, pf := range files {
			if !engineFile(pf.rel) {
				continue
			}
			for _, d := range pf.f.Decls {
				fd, ok := d.(*ast.FuncDecl)
				if !ok || fd.Body == nil {
					continue
				}
				recv, _ := csRecvName(fd)
				fid := pf.pkg + ":" + fd.Name.Name
				if recv != "" {
					fid = pf.pkg + ":" + recv + "." + fd.Name.Name
				}
				// consistency evidence of the whole function, in source order
				var evs []ev3
				type site struct {
					callee string
					own    []ev3
				}
				var sitesHere []site
				ast.Inspect(fd.Body, func(n ast.Node) bool {
					switch x := n.(type) {
					case *ast.CompositeLit:
						if x.Type == nil {
							return true
						}
						tn := src(pf.fset, x.Type)
						if strings.HasPrefix(tn, "storage.") {
							return true // read-option literals: table readOptions
						}
						for _, el := range x.Elts {
							if kv, ok := el.(*ast.KeyValueExpr); ok && src(pf.fset, kv.Key) == "Consistency" {
								evs = append(evs, ev3{"lit", tn, src(pf.fset, kv.Value)})
							}
						}
					case *ast.CallExpr:
						fn := src(pf.fset, x.Fun)
						if consistencyOpt.MatchString(fn) && len(x.Args) == 1 {
							evs = append(evs, ev3{"opt", fn, src(pf.fset, x.Args[0])})
						}
						if readerCtors[fn] {
							st := site{callee: fn}
							for _, a := range x.Args {
								if ce, ok := a.(*ast.CallExpr); ok && consistencyOpt.MatchString(src(pf.fset, ce.Fun)) && len(ce.Args) == 1 {
									st.own = append(st.own, ev3{"arg", src(pf.fset, ce.Fun), src(pf.fset, ce.Args[0])})
								}
							}
							sitesHere = append(sitesHere, st)
						}
					}
					return true
				})
				for _, e := range evs {
					handoffRows = append(handoffRows, fmt.Sprintf("(%s, %s, %s, %s, %s)", leanStr(pf.rel), leanStr(fid), leanStr(e.kind), leanStr(e.carrier), leanStr(e.expr)))
				}
				for _, st := range sitesHere {
					var parts []string
					for _, e := range append(append([]ev3(nil), st.own...), evs...) {
						parts = append(parts, fmt.Sprintf("(%s, %s, %s)", leanStr(e.kind), leanStr(e.carrier), leanStr(e.expr)))
					}
					readerRows = append(readerRows, fmt.Sprintf("(%s, %s, %s, [%s])", leanStr(pf.rel), leanStr(fid), leanStr(st.callee), strings.Join(parts, ", ")))
					readerSummary = append(readerSummary, fid+" "+st.callee)
				}
			}
		}
		if len(readerRows) < 6 || len(handoffRows) < 10 {
			return Result{}, fmt.Errorf("only %d reader construction sites / %d consistency hand-offs found: the scanner no longer matches the source", len(readerRows), len(handoffRows))
		}
		// ---- the wrapper order of the request storage wrapper ----
		fsetQ, fQ, err := parseFile(repo, "pkg/storage/storagewrappers/request.go")
		if err != nil {
			return Result{}, err
		}
		rq := findFunc(fQ, "", "NewRequestStorageWrapperWithCache")
		if rq == nil {
			return Result{}, fmt.Errorf("NewRequestStorageWrapperWithCache not found")
		}
		var wrappers []string
		ast.Inspect(rq.Body, func(n ast.Node) bool {
			if as, ok := n.(*ast.AssignStmt); ok && len(as.Rhs) == 1 {
				if ce, ok := as.Rhs[0].(*ast.CallExpr); ok {
					fn := src(fsetQ, ce.Fun)
					if strings.HasPrefix(fn, "New") || strings.Contains(fn, ".New") {
						first := ""
						if len(ce.Args) > 0 {
							first = src(fsetQ, ce.Args[0])
							if fn == "NewCachedDatastore" && len(ce.Args) > 1 {
								first = src(fsetQ, ce.Args[1])
							}
						}
						wrappers = append(wrappers, src(fsetQ, as.Lhs[0])+" := "+fn+"("+first+")")
					}
				}
			}
			return true
		})
		// ---- emit ----
		var sb strings.Builder
		sb.WriteString(genHeader)
		sb.WriteString("namespace OpenFGAVerif.Gen.CacheSites\n\n")
		sb.WriteString("/-- a path condition `(knownFalse, lhs, op, rhs)`; op = \"\" for a condition that is not a comparison -/\nabbrev Guard := Bool × String × String × String\n\n")
		sb.WriteString("/-- every cache read site: (kind, file, function, call, guards on the path from the function entry) -/\n")
		sb.WriteString("def sites : List (String × String × String × String × List Guard) := [\n")
		var siteSummary []string
		for i, s := range sites {
			sep := ","
			if i == len(sites)-1 {
				sep = ""
			}
			fmt.Fprintf(&sb, "  (%s, %s, %s, %s, %s)%s\n", leanStr(s.Kind), leanStr(s.File), leanStr(s.Func), leanStr(s.Call), csLeanGuards(s.Guards), sep)
			siteSummary = append(siteSummary, s.Func+" "+s.Call)
		}
		sb.WriteString("]\n\n")
		sb.WriteString("/-- the functions from which a read site is reachable inside its package: (id, exported, receiver type) -/\n")
		sb.WriteString("def funcs : List (String × Bool × String) := [\n  " + strings.Join(fnRows, ",\n  ") + "\n]\n\n")
		sb.WriteString("/-- in-package calls to those functions and constructions (`new:<type>`) of their receiver types: (caller, callee, arguments, guards) -/\n")
		sb.WriteString("def edges : List (String × String × List String × List Guard) := [\n")
		for i, e := range edges {
			sep := ","
			if i == len(edges)-1 {
				sep = ""
			}
			fmt.Fprintf(&sb, "  (%s, %s, %s, %s)%s\n", leanStr(e.Caller), leanStr(e.Callee), leanStrList(e.Args), csLeanGuards(e.Guards), sep)
		}
		sb.WriteString("]\n\n")
		sb.WriteString("/-- index tables (positions in `funcs` / `recvTypes`), parallel to `funcs`, `edges`, `sites` -/\n")
		sb.WriteString("def recvTypes : List String := " + leanStrList(recvTypes) + "\n")
		sb.WriteString("/-- (exported, receiver type index + 1, 0 = plain function) -/\n")
		sb.WriteString("def funcsN : List (Bool × Nat) := [" + strings.Join(fnRowsN, ", ") + "]\n")
		sb.WriteString("/-- (caller index, is a construction, callee function index / constructed type index) -/\n")
		sb.WriteString("def edgesN : List (Nat × Bool × Nat) := [" + strings.Join(edgeRowsN, ", ") + "]\n")
		sb.WriteString("def siteFuncs : List Nat := [" + strings.Join(siteFuncs, ", ") + "]\n\n")
		sb.WriteString("/-- calls of CacheController.DetermineInvalidationTime / InvalidateIfNeeded outside the controller: (caller, method, guards) -/\n")
		sb.WriteString("def triggers : List (String × String × List Guard) := [\n")
		for i, e := range triggers {
			sep := ","
			if i == len(triggers)-1 {
				sep = ""
			}
			fmt.Fprintf(&sb, "  (%s, %s, %s)%s\n", leanStr(e.Caller), leanStr(e.Callee), csLeanGuards(e.Guards), sep)
		}
		sb.WriteString("]\n\n")
		sb.WriteString("/-- tuple-read option literals of the Check / ListObjects / ListUsers / Expand engines: (file, type, Consistency field) -/\n")
		sb.WriteString("def readOptions : List (String × String × String) := [\n  " + strings.Join(optRows, ",\n  ") + "\n]\n\n")
		sb.WriteString("/-- NewRequestStorageWrapperWithCache: the wrappers in construction order (innermost first) -/\n")
		sb.WriteString("def wrapperOrder : List String := " + leanStrList(wrappers) + "\n\n")
		sb.WriteString("/-- every construction of a tuple reader / caching wrapper in the engines (pkg/server, internal): (file, function, constructor,\n")
		sb.WriteString("evidence) — evidence = (kind, carrier, expression): `arg` = a With…Consistency option among the constructor's own arguments,\n")
		sb.WriteString("`lit` = a `Consistency:` field of a composite literal, `opt` = a With…Consistency call, both anywhere in the same function -/\n")
		sb.WriteString("def readerSites : List (String × String × String × List (String × String × String)) := [\n  " + strings.Join(readerRows, ",\n  ") + "\n]\n\n")
		sb.WriteString("/-- every hand-off of a consistency preference in the engines: (file, function, kind, carrier, expression); `opt` = a With…Consistency call -/\n")
		sb.WriteString("def consistencyHandoffs : List (String × String × String × String × String) := [\n  " + strings.Join(handoffRows, ",\n  ") + "\n]\n\n")
		sb.WriteString("end OpenFGAVerif.Gen.CacheSites\n")
		return Result{Lean: sb.String(), Summary: map[string]interface{}{"sites": siteSummary, "edges": len(edges), "triggers": len(triggers),
			"readOptions": optCount, "wrapperOrder": wrappers, "filesScanned": len(files),
			"readerSites": readerSummary, "consistencyHandoffs": len(handoffRows)}}, nil
	})
}
