package main

import (
	"fmt"
	"go/ast"
	"strings"
)

// CheckCache: the guards of the sub-problem cache in front of the default engine
// (internal/graph/cached_resolver.go): HIGHER_CONSISTENCY bypass of the lookup, validity test against the
// last invalidation time, delegate call after a miss, no store when the response carries CycleDetected.
func init() {
	register("CheckCache", func(repo string) (Result, error) {
		fset, f, err := parseFile(repo, "internal/graph/cached_resolver.go")
		if err != nil {
			return Result{}, err
		}
		rc := findFunc(f, "CachedCheckResolver", "ResolveCheck")
		if rc == nil {
			return Result{}, fmt.Errorf("CachedCheckResolver.ResolveCheck not found")
		}
		// top-level statement skeleton
		var skeleton []string
		for _, st := range rc.Body.List {
			switch x := st.(type) {
			case *ast.IfStmt:
				skeleton = append(skeleton, "if "+src(fset, x.Cond))
			case *ast.AssignStmt:
				s := src(fset, x)
				if strings.Contains(s, "tryCache") || strings.Contains(s, "c.delegate.ResolveCheck") {
					skeleton = append(skeleton, s)
				}
			case *ast.ExprStmt:
				s := src(fset, x)
				if strings.HasPrefix(s, "c.cache.Set(") {
					skeleton = append(skeleton, "c.cache.Set")
				}
			case *ast.ReturnStmt:
				skeleton = append(skeleton, "return")
			}
		}
		// the cycle guard must return before the Set
		guardReturns := false
		for _, st := range rc.Body.List {
			if is, ok := st.(*ast.IfStmt); ok && src(fset, is.Cond) == "resp.GetCycleDetected()" {
				for _, b := range is.Body.List {
					if r, ok := b.(*ast.ReturnStmt); ok && len(r.Results) == 2 && src(fset, r.Results[0]) == "resp" {
						guardReturns = true
					}
				}
			}
		}
		body := src(fset, rc.Body)
		validity := strings.Contains(body, "isValid := res.LastModified.After(req.LastCacheInvalidationTime)")
		keyArgs := ""
		ast.Inspect(rc.Body, func(n ast.Node) bool {
			if ce, ok := n.(*ast.CallExpr); ok && src(fset, ce.Fun) == "storage.CheckCacheKey" {
				var as []string
				for _, a := range ce.Args {
					as = append(as, src(fset, a))
				}
				keyArgs = strings.Join(as, ", ")
			}
			return true
		})
		b := func(x bool) string {
			if x {
				return "true"
			}
			return "false"
		}
		var sb strings.Builder
		sb.WriteString(genHeader)
		sb.WriteString("namespace OpenFGAVerif.Gen.CheckCache\n\n")
		sb.WriteString("/-- top-level statements of CachedCheckResolver.ResolveCheck that matter, in source order -/\n")
		sb.WriteString("def skeleton : List String := " + leanStrList(skeleton) + "\n")
		sb.WriteString("def cycleGuardReturnsBeforeSet : Bool := " + b(guardReturns) + "\n")
		sb.WriteString("def validityComparesWithInvalidationTime : Bool := " + b(validity) + "\n")
		sb.WriteString("def cacheKeyArgs : String := " + leanStr(keyArgs) + "\n")
		sb.WriteString("\nend OpenFGAVerif.Gen.CheckCache\n")
		return Result{Lean: sb.String(), Summary: map[string]interface{}{"skeleton": skeleton, "cycleGuardReturnsBeforeSet": guardReturns, "cacheKeyArgs": keyArgs}}, nil
	})
}
