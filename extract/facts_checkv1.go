package main

import (
	"fmt"
	"go/ast"
	"strings"
)

// CheckV1: the decision tables of the default Check engine that the Lean model (Model/Dfs.lean,
// Model/CheckV1.lean) mirrors — the ordered conditions of the receive loops of the three reducers,
// the order of the tests at the top of ResolveCheck, the handler order of checkDirect, the end-of-stream
// rule of ConditionsFilteredTupleKeyIterator and the depth bookkeeping of dispatch / computed userset.
func init() {
	register("CheckV1", func(repo string) (Result, error) {
		fset, f, err := parseFile(repo, "internal/graph/check.go")
		if err != nil {
			return Result{}, err
		}
		// ordered `if` conditions inside the `for` loops of a reducer (depth first, source order)
		loopConds := func(name string) ([]string, error) {
			fd := findFunc(f, "", name)
			if fd == nil {
				return nil, fmt.Errorf("reducer %s not found", name)
			}
			var out []string
			ast.Inspect(fd.Body, func(n ast.Node) bool {
				fs, ok := n.(*ast.ForStmt)
				if !ok {
					return true
				}
				ast.Inspect(fs.Body, func(m ast.Node) bool {
					if is, ok := m.(*ast.IfStmt); ok {
						out = append(out, src(fset, is.Cond))
					}
					return true
				})
				return false
			})
			// the tests after the loop
			for _, st := range fd.Body.List {
				if is, ok := st.(*ast.IfStmt); ok {
					out = append(out, "post:"+src(fset, is.Cond))
				}
			}
			if len(out) == 0 {
				return nil, fmt.Errorf("reducer %s: no conditions found", name)
			}
			return out, nil
		}
		union, err := loopConds("union")
		if err != nil {
			return Result{}, err
		}
		inter, err := loopConds("intersection")
		if err != nil {
			return Result{}, err
		}
		excl, err := loopConds("exclusion")
		if err != nil {
			return Result{}, err
		}
		// ResolveCheck: order of the guard tests
		rc := findFunc(f, "LocalChecker", "ResolveCheck")
		if rc == nil {
			return Result{}, fmt.Errorf("ResolveCheck not found")
		}
		var guards []string
		for _, st := range rc.Body.List {
			switch x := st.(type) {
			case *ast.IfStmt:
				guards = append(guards, src(fset, x.Cond))
			case *ast.AssignStmt:
				s := src(fset, x)
				if strings.Contains(s, "hasCycle") || strings.Contains(s, "PathExists") || strings.Contains(s, "CheckRewrite") {
					guards = append(guards, s)
				}
			}
		}
		// dispatch increments depth; checkComputedUserset does not dispatch
		disp := findFunc(f, "LocalChecker", "dispatch")
		ccu := findFunc(f, "LocalChecker", "checkComputedUserset")
		if disp == nil || ccu == nil {
			return Result{}, fmt.Errorf("dispatch / checkComputedUserset not found")
		}
		dispatchIncrements := strings.Contains(src(fset, disp.Body), "req.GetRequestMetadata().Depth++")
		computedNoDispatch := strings.Contains(src(fset, ccu.Body), "return c.ResolveCheck(ctx, childRequest)") && !strings.Contains(src(fset, ccu.Body), "c.dispatch(")
		// checkDirect handler order
		cd := findFunc(f, "LocalChecker", "checkDirect")
		if cd == nil {
			return Result{}, fmt.Errorf("checkDirect not found")
		}
		var handlers []string
		ast.Inspect(cd.Body, func(n ast.Node) bool {
			if ce, ok := n.(*ast.CallExpr); ok {
				s := src(fset, ce.Fun)
				if s == "c.checkDirectUserTuple" || s == "c.checkPublicAssignable" || s == "c.checkDirectUsersetTuples" {
					handlers = append(handlers, strings.TrimPrefix(s, "c."))
				}
			}
			return true
		})
		// hasCycle: key and set update
		hc := findFunc(f, "LocalChecker", "hasCycle")
		if hc == nil {
			return Result{}, fmt.Errorf("hasCycle not found")
		}
		hcBody := src(fset, hc.Body)
		hasCycleShape := strings.Contains(hcBody, "key := tuple.TupleKeyToString(req.GetTupleKey())") &&
			strings.Contains(hcBody, "_, cycleDetected := req.VisitedPaths[key]") &&
			strings.Contains(hcBody, "req.VisitedPaths[key] = struct{}{}")

		// ConditionsFilteredTupleKeyIterator.Next end-of-stream rule
		fset2, f2, err := parseFile(repo, "pkg/storage/tuple_iterators.go")
		if err != nil {
			return Result{}, err
		}
		nx := findFunc(f2, "ConditionsFilteredTupleKeyIterator", "Next")
		if nx == nil {
			return Result{}, fmt.Errorf("ConditionsFilteredTupleKeyIterator.Next not found")
		}
		var iterConds []string
		ast.Inspect(nx.Body, func(n ast.Node) bool {
			if is, ok := n.(*ast.IfStmt); ok {
				iterConds = append(iterConds, src(fset2, is.Cond))
			}
			return true
		})
		// default_resolver: consumeDispatches loop
		fset3, f3, err := parseFile(repo, "internal/graph/default_resolver.go")
		if err != nil {
			return Result{}, err
		}
		cdp := findFunc(f3, "LocalChecker", "consumeDispatches")
		if cdp == nil {
			return Result{}, fmt.Errorf("consumeDispatches not found")
		}
		var consume []string
		ast.Inspect(cdp.Body, func(n ast.Node) bool {
			if is, ok := n.(*ast.IfStmt); ok {
				consume = append(consume, src(fset3, is.Cond))
			}
			return true
		})
		b := func(x bool) string {
			if x {
				return "true"
			}
			return "false"
		}
		var sb strings.Builder
		sb.WriteString(genHeader)
		sb.WriteString("namespace OpenFGAVerif.Gen.CheckV1\n\n")
		sb.WriteString("/-- conditions tested, in order, in the receive loop of `union` (then `post:` the tests after it) -/\n")
		sb.WriteString("def unionConds : List String := " + leanStrList(union) + "\n")
		sb.WriteString("def intersectionConds : List String := " + leanStrList(inter) + "\n")
		sb.WriteString("def exclusionConds : List String := " + leanStrList(excl) + "\n")
		sb.WriteString("def consumeDispatchesConds : List String := " + leanStrList(consume) + "\n")
		sb.WriteString("/-- guard tests of ResolveCheck in source order -/\n")
		sb.WriteString("def resolveCheckGuards : List String := " + leanStrList(guards) + "\n")
		sb.WriteString("def checkDirectHandlers : List String := " + leanStrList(handlers) + "\n")
		sb.WriteString("def conditionsFilteredNextConds : List String := " + leanStrList(iterConds) + "\n")
		sb.WriteString("def dispatchIncrementsDepth : Bool := " + b(dispatchIncrements) + "\n")
		sb.WriteString("def computedUsersetDoesNotDispatch : Bool := " + b(computedNoDispatch) + "\n")
		sb.WriteString("def hasCycleIsPathSet : Bool := " + b(hasCycleShape) + "\n")
		sb.WriteString("\nend OpenFGAVerif.Gen.CheckV1\n")
		return Result{Lean: sb.String(), Summary: map[string]interface{}{
			"union": union, "intersection": inter, "exclusion": excl, "consumeDispatches": consume,
			"resolveCheckGuards": guards, "checkDirectHandlers": handlers, "conditionsFilteredNext": iterConds,
		}}, nil
	})
}
