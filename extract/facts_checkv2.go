package main

import (
	"fmt"
	"go/ast"
	"go/token"
	"sort"
	"strings"
)

// CheckV2: the decision tables of the weighted-graph Check engine (internal/check, internal/modelgraph,
// internal/iterator/filter.go), of the server-level fallback (pkg/server/check.go,
// commands.IsV2CheckTerminalError) and of the breaking-change detector (commands/v2breaking) that the
// Lean model (Model/DfsG.lean, Model/CheckV2.lean, Model/V2Breaking.lean) mirrors.
func init() {
	register("CheckV2", func(repo string) (Result, error) {
		fset, f, err := parseFile(repo, "internal/check/check.go")
		if err != nil {
			return Result{}, err
		}
		// every `if` condition of a function body in source order (depth first); `else if` included
		ifConds := func(fs *token.FileSet, body ast.Node) []string {
			var out []string
			ast.Inspect(body, func(n ast.Node) bool {
				if is, ok := n.(*ast.IfStmt); ok {
					out = append(out, src(fs, is.Cond))
				}
				return true
			})
			return out
		}
		fn := func(file *ast.File, recv, name string) (*ast.FuncDecl, error) {
			fd := findFunc(file, recv, name)
			if fd == nil {
				return nil, fmt.Errorf("%s.%s not found", recv, name)
			}
			return fd, nil
		}
		// conditions inside the receive loop(s) (for / range statements) of a function, then "post:" conditions
		// of top-level ifs after the last loop
		loopConds := func(fs *token.FileSet, fd *ast.FuncDecl) []string {
			var out []string
			last := -1
			for i, st := range fd.Body.List {
				switch st.(type) {
				case *ast.ForStmt, *ast.RangeStmt:
					last = i
				}
			}
			for i, st := range fd.Body.List {
				switch x := st.(type) {
				case *ast.ForStmt:
					if i == last {
						out = append(out, ifConds(fs, x.Body)...)
					}
				case *ast.RangeStmt:
					if i == last {
						out = append(out, ifConds(fs, x.Body)...)
					}
				case *ast.IfStmt:
					if i > last && last >= 0 {
						out = append(out, "post:"+src(fs, x.Cond))
					}
				}
			}
			return out
		}
		get := map[string][]string{}
		for _, name := range []string{"ResolveUnionEdges", "ResolveRecursive", "ResolveIntersection", "ResolveExclusion"} {
			fd, err := fn(f, "Resolver", name)
			if err != nil {
				return Result{}, err
			}
			cs := loopConds(fset, fd)
			if len(cs) == 0 {
				return Result{}, fmt.Errorf("%s: no receive-loop conditions found", name)
			}
			get[name] = cs
		}
		// guards before the loops
		guards := func(name string) ([]string, error) {
			fd, err := fn(f, "Resolver", name)
			if err != nil {
				return nil, err
			}
			var out []string
			for _, st := range fd.Body.List {
				switch x := st.(type) {
				case *ast.IfStmt:
					out = append(out, src(fset, x.Cond))
				case *ast.ForStmt:
					return out, nil
				case *ast.RangeStmt:
					// the pre-check loops of ResolveIntersection carry guards themselves
					out = append(out, ifConds(fset, x.Body)...)
				}
			}
			return out, nil
		}
		interGuards, err := guards("ResolveIntersection")
		if err != nil {
			return Result{}, err
		}
		exclGuards, err := guards("ResolveExclusion")
		if err != nil {
			return Result{}, err
		}
		rc, err := fn(f, "Resolver", "ResolveCheck")
		if err != nil {
			return Result{}, err
		}
		var rcGuards []string
		for _, st := range rc.Body.List {
			if is, ok := st.(*ast.IfStmt); ok {
				rcGuards = append(rcGuards, src(fset, is.Cond))
			}
		}
		ru, err := fn(f, "Resolver", "ResolveUnion")
		if err != nil {
			return Result{}, err
		}
		ruConds := ifConds(fset, ru.Body)
		re, err := fn(f, "Resolver", "ResolveEdge")
		if err != nil {
			return Result{}, err
		}
		reConds := ifConds(fset, re.Body)
		// switch arms of ResolveEdge / ResolveRewrite: "case-list => first call in the arm"
		arms := func(fd *ast.FuncDecl) []string {
			var out []string
			ast.Inspect(fd.Body, func(n ast.Node) bool {
				cc, ok := n.(*ast.CaseClause)
				if !ok {
					return true
				}
				var labels []string
				for _, e := range cc.List {
					labels = append(labels, src(fset, e))
				}
				lab := strings.Join(labels, ",")
				if len(labels) == 0 {
					lab = "default"
				}
				act := ""
				for _, st := range cc.Body {
					switch x := st.(type) {
					case *ast.ReturnStmt:
						if act == "" && len(x.Results) > 0 {
							if ce, ok := x.Results[0].(*ast.CallExpr); ok {
								act = src(fset, ce.Fun)
							} else {
								act = src(fset, x)
							}
						}
					case *ast.IfStmt:
						if act == "" {
							act = "if " + src(fset, x.Cond) + " " + strings.TrimSpace(src(fset, x.Body.List[0]))
						}
					case *ast.SwitchStmt:
						if act == "" {
							act = "switch " + src(fset, x.Tag)
						}
					}
				}
				out = append(out, lab+" => "+act)
				return true
			})
			return out
		}
		rw, err := fn(f, "Resolver", "ResolveRewrite")
		if err != nil {
			return Result{}, err
		}
		star, err := fn(f, "Resolver", "specificTypeAndRelation")
		if err != nil {
			return Result{}, err
		}
		starConds := ifConds(fset, star.Body)
		ttu, err := fn(f, "Resolver", "ttu")
		if err != nil {
			return Result{}, err
		}
		ttuConds := ifConds(fset, ttu.Body)
		bi, err := fn(f, "Resolver", "buildIterator")
		if err != nil {
			return Result{}, err
		}
		biConds := ifConds(fset, bi.Body)
		// order in which the filters are appended
		var filterOrder []string
		ast.Inspect(bi.Body, func(n ast.Node) bool {
			if ce, ok := n.(*ast.CallExpr); ok {
				s := src(fset, ce.Fun)
				if s == "BuildUniqueTupleKeyFilter" || s == "BuildConditionTupleKeyFilter" || s == "iterator.Concat" {
					filterOrder = append(filterOrder, s)
				}
			}
			return true
		})
		// the key function handed to the visited filter: its return statements in source order
		var keyReturns []string
		ast.Inspect(bi.Body, func(n ast.Node) bool {
			fl, ok := n.(*ast.FuncLit)
			if !ok {
				return true
			}
			ast.Inspect(fl.Body, func(m ast.Node) bool {
				if r, ok := m.(*ast.ReturnStmt); ok {
					keyReturns = append(keyReturns, src(fset, r))
				}
				return true
			})
			return false
		})
		if len(keyReturns) == 0 {
			return Result{}, fmt.Errorf("buildIterator: key function of the visited filter not found")
		}
		// who calls buildIterator and what is passed last (the visited set, or the computed relation as key suffix)
		var biCallers []string
		for _, d := range f.Decls {
			fd, ok := d.(*ast.FuncDecl)
			if !ok || fd.Body == nil {
				continue
			}
			ast.Inspect(fd.Body, func(n ast.Node) bool {
				ce, ok := n.(*ast.CallExpr)
				if !ok || src(fset, ce.Fun) != "r.buildIterator" || len(ce.Args) == 0 {
					return true
				}
				biCallers = append(biCallers, fd.Name.Name+":"+src(fset, ce.Args[len(ce.Args)-1]))
				return true
			})
		}
		// the recursive strategy builds its own filter chain
		fsetR, fR, err := parseFile(repo, "internal/check/recursive.go")
		if err != nil {
			return Result{}, err
		}
		btm, err := fn(fR, "Recursive", "buildTupleMapperForID")
		if err != nil {
			return Result{}, err
		}
		var recFilterOrder []string
		ast.Inspect(btm.Body, func(n ast.Node) bool {
			if ce, ok := n.(*ast.CallExpr); ok {
				s := src(fsetR, ce.Fun)
				if s == "BuildUniqueTupleKeyFilter" || s == "BuildConditionTupleKeyFilter" || s == "iterator.Concat" {
					recFilterOrder = append(recFilterOrder, s)
				}
			}
			return true
		})
		ic, err := fn(f, "Resolver", "isCached")
		if err != nil {
			return Result{}, err
		}
		icConds := ifConds(fset, ic.Body)
		// every cache.Set is guarded by `err == nil && ctx.Err() == nil`
		setGuards := []string{}
		for _, name := range []string{"ResolveUnionEdges", "ResolveRecursive"} {
			fd, _ := fn(f, "Resolver", name)
			ast.Inspect(fd.Body, func(n ast.Node) bool {
				is, ok := n.(*ast.IfStmt)
				if !ok {
					return true
				}
				if strings.Contains(src(fset, is.Body), "r.cache.Set(") {
					setGuards = append(setGuards, name+":"+src(fset, is.Cond))
				}
				return true
			})
		}
		consts := stringConstsAndErrors(f)
		// default strategy
		fsetD, fD, err := parseFile(repo, "internal/check/default.go")
		if err != nil {
			return Result{}, err
		}
		ex, err := fn(fD, "DefaultStrategy", "execute")
		if err != nil {
			return Result{}, err
		}
		exConds := ifConds(fsetD, ex.Body)
		// visited filter
		fsetF, fF, err := parseFile(repo, "internal/check/filters.go")
		if err != nil {
			return Result{}, err
		}
		uq, err := fn(fF, "", "BuildUniqueTupleKeyFilter")
		if err != nil {
			return Result{}, err
		}
		uqBody := src(fsetF, uq.Body)
		visitedLoadOrStore := strings.Contains(uqBody, "_, seen := visited.LoadOrStore(keyFunc(tk), struct{}{})") && strings.Contains(uqBody, "return !seen, nil")
		ec, err := fn(fF, "", "evaluateCondition")
		if err != nil {
			return Result{}, err
		}
		ecConds := ifConds(fsetF, ec.Body)
		// filtered iterator
		fsetI, fI, err := parseFile(repo, "internal/iterator/filter.go")
		if err != nil {
			return Result{}, err
		}
		nx, err := fn(fI, "filter", "Next")
		if err != nil {
			return Result{}, err
		}
		nxConds := ifConds(fsetI, nx.Body)
		// model graph
		fsetM, fM, err := parseFile(repo, "internal/modelgraph/model.go")
		if err != nil {
			return Result{}, err
		}
		fl, err := fn(fM, "AuthorizationModelGraph", "FlattenNode")
		if err != nil {
			return Result{}, err
		}
		flConds := ifConds(fsetM, fl.Body)
		var flCases []string
		ast.Inspect(fl.Body, func(n ast.Node) bool {
			if cc, ok := n.(*ast.CaseClause); ok {
				var labels []string
				for _, e := range cc.List {
					labels = append(labels, src(fsetM, e))
				}
				flCases = append(flCases, strings.Join(labels, ","))
			}
			return true
		})
		car, err := fn(fM, "AuthorizationModelGraph", "CanApplyRecursion")
		if err != nil {
			return Result{}, err
		}
		carConds := ifConds(fsetM, car.Body)
		cro, err := fn(fM, "AuthorizationModelGraph", "canApplyRecursiveOptimization")
		if err != nil {
			return Result{}, err
		}
		croConds := ifConds(fsetM, cro.Body)
		// commands.IsV2CheckTerminalError
		fsetC, fC, err := parseFile(repo, "pkg/server/commands/check.go")
		if err != nil {
			return Result{}, err
		}
		term, err := fn(fC, "", "IsV2CheckTerminalError")
		if err != nil {
			return Result{}, err
		}
		var termSentinels, termCodes []string
		ast.Inspect(term.Body, func(n ast.Node) bool {
			switch x := n.(type) {
			case *ast.CallExpr:
				if src(fsetC, x.Fun) == "errors.Is" && len(x.Args) == 2 {
					termSentinels = append(termSentinels, src(fsetC, x.Args[1]))
				}
			case *ast.CaseClause:
				for _, e := range x.List {
					termCodes = append(termCodes, src(fsetC, e))
				}
			}
			return true
		})
		exq, err := fn(fC, "CheckQueryV2", "Execute")
		if err != nil {
			return Result{}, err
		}
		exqConds := ifConds(fsetC, exq.Body)
		// error mapping that decides the status code IsV2CheckTerminalError looks at
		fsetE, fE, err := parseFile(repo, "pkg/server/commands/errors.go")
		if err != nil {
			return Result{}, err
		}
		cce, err := fn(fE, "", "CheckCommandErrorToServerError")
		if err != nil {
			return Result{}, err
		}
		var mapping []string
		for _, st := range cce.Body.List {
			switch x := st.(type) {
			case *ast.IfStmt:
				ret := ""
				for _, b := range x.Body.List {
					if r, ok := b.(*ast.ReturnStmt); ok && len(r.Results) > 0 {
						if ce, ok := r.Results[0].(*ast.CallExpr); ok {
							ret = src(fsetE, ce.Fun)
						} else {
							ret = src(fsetE, r.Results[0])
						}
					}
				}
				mapping = append(mapping, src(fsetE, x.Cond)+" => "+ret)
			}
		}
		// server fallback
		fsetS, fS, err := parseFile(repo, "pkg/server/check.go")
		if err != nil {
			return Result{}, err
		}
		sc, err := fn(fS, "Server", "Check")
		if err != nil {
			return Result{}, err
		}
		var srvConds []string
		for _, c := range ifConds(fsetS, sc.Body) {
			if strings.Contains(c, "IsV2CheckTerminalError") || strings.Contains(c, "ExperimentalWeightedGraphCheck") ||
				strings.Contains(c, "v2breaking.") || strings.Contains(c, "isV2Fallback") || strings.Contains(c, "IsObjectRelation") {
				srvConds = append(srvConds, c)
			}
		}
		if len(srvConds) < 5 {
			return Result{}, fmt.Errorf("Server.Check: fallback / breaking-change conditions not found (%v)", srvConds)
		}
		// v2breaking
		fsetB, fB, err := parseFile(repo, "pkg/server/commands/v2breaking/v2breaking.go")
		if err != nil {
			return Result{}, err
		}
		reasons := stringConsts(fB)
		var reasonNames []string
		for k := range reasons {
			if strings.HasPrefix(k, "Reason") {
				reasonNames = append(reasonNames, k)
			}
		}
		sort.Strings(reasonNames)
		var reasonList []string
		for _, k := range reasonNames {
			reasonList = append(reasonList, k+"="+reasons[k])
		}
		// ordered (condition => returned reason) of a detector function, top level statements only
		detTable := func(name string) ([]string, error) {
			fd, err := fn(fB, "", name)
			if err != nil {
				return nil, err
			}
			var out []string
			var walk func(list []ast.Stmt, prefix string)
			walk = func(list []ast.Stmt, prefix string) {
				for _, st := range list {
					switch x := st.(type) {
					case *ast.IfStmt:
						ret := ""
						for _, b := range x.Body.List {
							if r, ok := b.(*ast.ReturnStmt); ok && len(r.Results) > 0 {
								ret = src(fsetB, r.Results[0])
							}
						}
						if ret != "" {
							out = append(out, prefix+src(fsetB, x.Cond)+" => "+ret)
						}
						// nested ifs (CheckExclusionReason)
						walk(x.Body.List, prefix+src(fsetB, x.Cond)+" && ")
					case *ast.SwitchStmt:
						for _, c := range x.Body.List {
							cc := c.(*ast.CaseClause)
							var labels []string
							for _, e := range cc.List {
								labels = append(labels, src(fsetB, e))
							}
							for _, b := range cc.Body {
								if r, ok := b.(*ast.ReturnStmt); ok && len(r.Results) > 0 {
									out = append(out, strings.Join(labels, ",")+" => "+src(fsetB, r.Results[0]))
								}
							}
						}
					case *ast.ReturnStmt:
						if len(x.Results) > 0 && prefix == "" {
							out = append(out, "else => "+src(fsetB, x.Results[0]))
						}
					}
				}
			}
			walk(fd.Body.List, "")
			if len(out) == 0 {
				return nil, fmt.Errorf("%s: no decision table found", name)
			}
			return out, nil
		}
		crT, err := detTable("CheckReason")
		if err != nil {
			return Result{}, err
		}
		cxT, err := detTable("CheckExclusionReason")
		if err != nil {
			return Result{}, err
		}
		ceT, err := detTable("CheckReasonFromV2Error")
		if err != nil {
			return Result{}, err
		}
		alias, err := fn(fB, "", "usersetAliasesTargetRelation")
		if err != nil {
			return Result{}, err
		}
		aliasConds := ifConds(fsetB, alias.Body)
		ttuU, err := fn(fB, "", "rewriteContainsTTUForUser")
		if err != nil {
			return Result{}, err
		}
		ttuUConds := ifConds(fsetB, ttuU.Body)

		b := func(x bool) string {
			if x {
				return "true"
			}
			return "false"
		}
		wcLookup, err := wildcardCtxLookup(repo)
		if err != nil {
			return Result{}, err
		}
		var sb strings.Builder
		sb.WriteString(genHeader)
		sb.WriteString("namespace OpenFGAVerif.Gen.CheckV2\n\n")
		w := func(name, doc string, xs []string) {
			if doc != "" {
				sb.WriteString("/-- " + doc + " -/\n")
			}
			sb.WriteString("def " + name + " : List String := " + leanStrList(xs) + "\n")
		}
		w("unionEdgesConds", "receive loop of ResolveUnionEdges, then `post:` tests", get["ResolveUnionEdges"])
		w("recursiveConds", "receive loop of ResolveRecursive", get["ResolveRecursive"])
		w("intersectionConds", "receive loop of ResolveIntersection", get["ResolveIntersection"])
		w("exclusionConds", "receive loop of ResolveExclusion (base case first, then subtract case)", get["ResolveExclusion"])
		w("intersectionGuards", "tests of ResolveIntersection before the receive loop", interGuards)
		w("exclusionGuards", "tests of ResolveExclusion before the receive loop", exclGuards)
		w("defaultExecuteConds", "receive loop of DefaultStrategy.execute", exConds)
		w("resolveCheckGuards", "top-level tests of ResolveCheck", rcGuards)
		w("resolveUnionConds", "", ruConds)
		w("resolveEdgeConds", "", reConds)
		w("resolveEdgeArms", "switch arms of ResolveEdge", arms(re))
		w("resolveRewriteArms", "switch arms of ResolveRewrite", arms(rw))
		w("specificTypeAndRelationConds", "", starConds)
		w("ttuConds", "", ttuConds)
		w("buildIteratorConds", "", biConds)
		w("buildIteratorCalls", "Concat / visited filter / condition filter in the order they are applied", filterOrder)
		w("isCachedConds", "", icConds)
		w("cacheSetGuards", "the guard around every cache.Set", setGuards)
		w("evaluateConditionConds", "", ecConds)
		w("filterNextConds", "internal/iterator/filter.go Next", nxConds)
		w("flattenConds", "", flConds)
		w("flattenCases", "", flCases)
		w("canApplyRecursionConds", "", carConds)
		w("recursiveOptConds", "", croConds)
		w("terminalSentinels", "errors.Is targets of IsV2CheckTerminalError", termSentinels)
		w("terminalCodes", "status codes of IsV2CheckTerminalError", termCodes)
		w("executeV2Conds", "CheckQueryV2.Execute", exqConds)
		w("errorMapping", "CheckCommandErrorToServerError: condition => constructor", mapping)
		w("serverCheckConds", "Server.Check: flag, fallback and breaking-change log conditions in source order", srvConds)
		w("reasonConsts", "", reasonList)
		w("checkReasonTable", "v2breaking.CheckReason: ordered (condition => reason)", crT)
		w("checkExclusionReasonTable", "", cxT)
		w("checkReasonFromV2ErrorTable", "", ceT)
		w("aliasConds", "usersetAliasesTargetRelation", aliasConds)
		w("ttuForUserConds", "rewriteContainsTTUForUser", ttuUConds)
		w("errorTexts", "error sentinels of internal/check", consts)
		w("visitedKeyReturns", "return statements of the key function of the visited filter in buildIterator", keyReturns)
		w("buildIteratorCallers", "callers of buildIterator with their last argument (visited set, or the key suffix)", biCallers)
		w("recursiveMapperCalls", "Recursive.buildTupleMapperForID: Concat / visited filter / condition filter in the order applied", recFilterOrder)
		w("wildcardCtxLookup", "specificTypeWildcard: control skeleton of the lookup of the typed wildcard among the contextual tuples", wcLookup)
		sb.WriteString("def visitedFilterIsLoadOrStore : Bool := " + b(visitedLoadOrStore) + "\n")
		sb.WriteString("\nend OpenFGAVerif.Gen.CheckV2\n")
		return Result{Lean: sb.String(), Summary: map[string]interface{}{
			"unionEdges": get["ResolveUnionEdges"], "intersection": get["ResolveIntersection"], "exclusion": get["ResolveExclusion"],
			"recursive": get["ResolveRecursive"], "terminalSentinels": termSentinels, "terminalCodes": termCodes,
			"reasons": reasonList, "checkReason": crT, "serverCheck": srvConds, "cacheSetGuards": setGuards,
		}}, nil
	})
}

// stringConstsAndErrors lists `var X = errors.New("…")` of a file as "X=…", sorted.
func stringConstsAndErrors(f *ast.File) []string {
	var out []string
	for _, d := range f.Decls {
		gd, ok := d.(*ast.GenDecl)
		if !ok || gd.Tok != token.VAR {
			continue
		}
		for _, s := range gd.Specs {
			v := s.(*ast.ValueSpec)
			for i, n := range v.Names {
				if i >= len(v.Values) {
					continue
				}
				ce, ok := v.Values[i].(*ast.CallExpr)
				if !ok || len(ce.Args) != 1 {
					continue
				}
				se, ok := ce.Fun.(*ast.SelectorExpr)
				if !ok || se.Sel.Name != "New" {
					continue
				}
				if bl, ok := ce.Args[0].(*ast.BasicLit); ok && bl.Kind == token.STRING {
					out = append(out, n.Name+"="+strings.Trim(bl.Value, "\""))
				}
			}
		}
	}
	sort.Strings(out)
	return out
}
