package main

import (
	"fmt"
	"go/ast"
	"strings"
)

// CombinedReader: facts used by C04 (and C30):
//   - pkg/storage/storagewrappers/combinedtuplereader.go: how the contextual tuples are ordered, the filter
//     condition, which filter fields each read passes to the contextual side, and the order in which the
//     contextual and the stored iterators are combined
//   - pkg/storage/storagewrappers/request.go: the wrapper stack (the CombinedTupleReader is applied last,
//     above the iterator caches)
//   - internal/check/request.go: the per-request contextual tuple indexes of the weighted-graph engine
// wildcardCtxLookup renders the control skeleton of the statement of specificTypeWildcard (internal/check/check.go)
// that looks the typed wildcard up among the contextual tuples of the (object, relation, user type) bucket:
// the whole `if ctxTuples, ok := req.GetContextualTuplesByObjectID(…); ok { … }` statement (loop header, test,
// what is taken, where the loop stops).  Shared by the fact groups CombinedReader (C04) and CheckV2 (C03).
func wildcardCtxLookup(repo string) ([]string, error) {
	fset, f, err := parseFile(repo, "internal/check/check.go")
	if err != nil {
		return nil, err
	}
	fd := findFunc(f, "Resolver", "specificTypeWildcard")
	if fd == nil {
		return nil, fmt.Errorf("Resolver.specificTypeWildcard not found")
	}
	for _, st := range fd.Body.List {
		is, ok := st.(*ast.IfStmt)
		if !ok || is.Init == nil || !strings.Contains(src(fset, is.Init), "GetContextualTuplesByObjectID") {
			continue
		}
		return azSkeleton(fset, &ast.BlockStmt{List: []ast.Stmt{is}}), nil
	}
	return nil, fmt.Errorf("specificTypeWildcard: `if ctxTuples, ok := req.GetContextualTuplesByObjectID(…); ok` not found at top level")
}

func init() {
	register("CombinedReader", func(repo string) (Result, error) {
		fset, f, err := parseFile(repo, "pkg/storage/storagewrappers/combinedtuplereader.go")
		if err != nil {
			return Result{}, err
		}
		ctor := findFunc(f, "", "NewCombinedTupleReader")
		if ctor == nil {
			return Result{}, fmt.Errorf("NewCombinedTupleReader not found")
		}
		sortCmp := ""
		ast.Inspect(ctor.Body, func(n ast.Node) bool {
			if ce, ok := n.(*ast.CallExpr); ok && src(fset, ce.Fun) == "slices.SortFunc" && len(ce.Args) == 2 {
				if fl, ok := ce.Args[1].(*ast.FuncLit); ok && len(fl.Body.List) == 1 {
					if rs, ok := fl.Body.List[0].(*ast.ReturnStmt); ok && len(rs.Results) == 1 {
						sortCmp = src(fset, ce.Args[0]) + ":" + src(fset, rs.Results[0])
					}
				}
			}
			return true
		})
		if sortCmp == "" {
			return Result{}, fmt.Errorf("NewCombinedTupleReader: slices.SortFunc(cu, …) not found")
		}
		ft := findFunc(f, "", "filterTuples")
		if ft == nil {
			return Result{}, fmt.Errorf("filterTuples not found")
		}
		filterCond := ""
		ast.Inspect(ft.Body, func(n ast.Node) bool {
			if is, ok := n.(*ast.IfStmt); ok && filterCond == "" {
				filterCond = src(fset, is.Cond)
			}
			return true
		})
		method := func(name string) (*ast.FuncDecl, error) {
			fd := findFunc(f, "CombinedTupleReader", name)
			if fd == nil {
				return nil, fmt.Errorf("CombinedTupleReader.%s not found", name)
			}
			return fd, nil
		}
		// per read: arguments of filterTuples, the other conditions, the combining call / fall-through
		describe := func(name string) ([]string, error) {
			fd, err := method(name)
			if err != nil {
				return nil, err
			}
			var out []string
			ast.Inspect(fd.Body, func(n ast.Node) bool {
				switch x := n.(type) {
				case *ast.CallExpr:
					s := src(fset, x.Fun)
					switch {
					case s == "filterTuples":
						args := make([]string, len(x.Args))
						for i, a := range x.Args {
							args[i] = src(fset, a)
						}
						out = append(out, "filterTuples("+strings.Join(args, ", ")+")")
					case s == "storage.NewCombinedIterator", s == "storage.NewOrderedCombinedIterator", s == "tupleMatchesAllowedUserTypeRestrictions",
						strings.HasPrefix(s, "c.RelationshipTupleReader."):
						out = append(out, src(fset, x))
					}
				case *ast.IfStmt:
					c := src(fset, x.Cond)
					if c != "err != nil" && !strings.HasPrefix(c, "tupleMatchesAllowedUserTypeRestrictions") {
						out = append(out, "if:"+c)
					}
				}
				return true
			})
			return out, nil
		}
		reads := map[string][]string{}
		for _, name := range []string{"Read", "ReadPage", "ReadUserTuple", "ReadUsersetTuples", "ReadStartingWithUser"} {
			d, err := describe(name)
			if err != nil {
				return Result{}, err
			}
			reads[name] = d
		}

		// ---- wrapper stack
		fset2, f2, err := parseFile(repo, "pkg/storage/storagewrappers/request.go")
		if err != nil {
			return Result{}, err
		}
		stack := func(name string) ([]string, error) {
			fd := findFunc(f2, "", name)
			if fd == nil {
				return nil, fmt.Errorf("%s not found", name)
			}
			var out []string
			ast.Inspect(fd.Body, func(n ast.Node) bool {
				switch x := n.(type) {
				case *ast.CallExpr:
					s := src(fset2, x.Fun)
					switch s {
					case "NewBoundedTupleReader", "NewCachedDatastore", "sharediterator.NewSharedIteratorDatastore", "NewCombinedTupleReader":
						inner := ""
						for _, a := range x.Args {
							as := src(fset2, a)
							if as == "ds" || as == "tupleReader" || as == "instrumented" {
								inner = as
								break
							}
						}
						extra := ""
						if s == "NewCombinedTupleReader" && len(x.Args) == 2 {
							extra = "," + src(fset2, x.Args[1])
						}
						out = append(out, s+"("+inner+extra+")")
					}
				case *ast.KeyValueExpr:
					if src(fset2, x.Key) == "RelationshipTupleReader" {
						v := src(fset2, x.Value)
						if ce, ok := x.Value.(*ast.CallExpr); ok {
							v = src(fset2, ce.Fun) + "(…)"
						}
						out = append(out, "returns:"+v)
					}
				}
				return true
			})
			return out, nil
		}
		withCache, err := stack("NewRequestStorageWrapperWithCache")
		if err != nil {
			return Result{}, err
		}
		plain, err := stack("NewRequestStorageWrapper")
		if err != nil {
			return Result{}, err
		}

		// ---- weighted-graph engine indexes
		fset3, f3, err := parseFile(repo, "internal/check/request.go")
		if err != nil {
			return Result{}, err
		}
		ins := findFunc(f3, "", "insertSortedTuple")
		bld := findFunc(f3, "Request", "buildContextualTupleMaps")
		if ins == nil || bld == nil {
			return Result{}, fmt.Errorf("insertSortedTuple / buildContextualTupleMaps not found")
		}
		var insFacts []string
		ast.Inspect(ins.Body, func(n ast.Node) bool {
			switch x := n.(type) {
			case *ast.ReturnStmt:
				if len(x.Results) == 1 {
					insFacts = append(insFacts, "return "+src(fset3, x.Results[0]))
				}
			case *ast.IfStmt:
				insFacts = append(insFacts, "if:"+src(fset3, x.Cond))
			case *ast.AssignStmt:
				if len(x.Lhs) == 1 && src(fset3, x.Lhs[0]) == "slice" {
					insFacts = append(insFacts, src(fset3, x))
				}
			}
			return true
		})
		var bldFacts []string
		ast.Inspect(bld.Body, func(n ast.Node) bool {
			if as, ok := n.(*ast.AssignStmt); ok && len(as.Lhs) == 1 {
				l := src(fset3, as.Lhs[0])
				if l == "userKey" || l == "objectKey" || strings.HasPrefix(l, "r.ctxTuplesByUserID[") || strings.HasPrefix(l, "r.ctxTuplesByObjectID[") {
					bldFacts = append(bldFacts, src(fset3, as))
				}
			}
			return true
		})

		wcLookup, err := wildcardCtxLookup(repo)
		if err != nil {
			return Result{}, err
		}

		var sb strings.Builder
		sb.WriteString(genHeader)
		sb.WriteString("namespace OpenFGAVerif.Gen.CombinedReader\n\n")
		sb.WriteString("/-- `slices.SortFunc(<slice>, …)`: slice and comparison -/\n")
		sb.WriteString("def sortCmp : String := " + leanStr(sortCmp) + "\n")
		sb.WriteString("def filterTuplesCond : String := " + leanStr(filterCond) + "\n")
		for _, name := range []string{"Read", "ReadPage", "ReadUserTuple", "ReadUsersetTuples", "ReadStartingWithUser"} {
			sb.WriteString("def " + strings.ToLower(name[:1]) + name[1:] + "Steps : List String := " + leanStrList(reads[name]) + "\n")
		}
		sb.WriteString("/-- constructor calls of NewRequestStorageWrapperWithCache in source order (wrapped reader in brackets) -/\n")
		sb.WriteString("def wrapperStackWithCache : List String := " + leanStrList(withCache) + "\n")
		sb.WriteString("def wrapperStackPlain : List String := " + leanStrList(plain) + "\n")
		sb.WriteString("def insertSortedTupleFacts : List String := " + leanStrList(insFacts) + "\n")
		sb.WriteString("def buildCtxMapsFacts : List String := " + leanStrList(bldFacts) + "\n")
		sb.WriteString("/-- specificTypeWildcard: control skeleton of the lookup of the typed wildcard among the contextual tuples -/\n")
		sb.WriteString("def wildcardCtxLookup : List String := " + leanStrList(wcLookup) + "\n")
		sb.WriteString("\nend OpenFGAVerif.Gen.CombinedReader\n")
		return Result{Lean: sb.String(), Summary: map[string]interface{}{
			"sortCmp": sortCmp, "filterTuplesCond": filterCond, "reads": reads,
			"wrapperStackWithCache": withCache, "wrapperStackPlain": plain,
			"insertSortedTuple": insFacts, "buildContextualTupleMaps": bldFacts, "wildcardCtxLookup": wcLookup,
		}}, nil
	})
}
