package main

import (
	"fmt"
	"go/ast"
	"go/token"
	"strconv"
	"strings"
)

// Condition: facts about internal/condition (C25).
//   - the parameter-type registration table of internal/condition/types (type name, number of generic
//     types, converter function)
//   - for every function the model mirrors: the ordered list of `if` conditions, the ordered list of
//     calls and the ordered list of return statements (statement order / guards / merge order)
//   - the arguments of big.ParseFloat, the per-kind guards of numericTypeConverterFunc
func init() {
	register("Condition", func(repo string) (Result, error) {
		type fn struct {
			file, recv, name, lean string
		}
		fns := []fn{
			{"internal/condition/eval/eval.go", "", "EvaluateTupleCondition", "evalTuple"},
			{"internal/condition/condition.go", "EvaluableCondition", "Evaluate", "evaluate"},
			{"internal/condition/condition.go", "EvaluableCondition", "CastContextToTypedParameters", "cast"},
			{"internal/condition/condition.go", "EvaluableCondition", "Compile", "compileOnce"},
			{"internal/condition/types/converters.go", "", "primitiveTypeConverterFunc", "primitive"},
			{"internal/condition/types/converters.go", "", "numericTypeConverterFunc", "numeric"},
			{"internal/condition/types/converters.go", "", "anyTypeConverterFunc", "anyConv"},
			{"internal/condition/types/converters.go", "", "durationTypeConverterFunc", "duration"},
			{"internal/condition/types/converters.go", "", "timestampTypeConverterFunc", "timestamp"},
			{"internal/condition/types/converters.go", "", "ipaddressTypeConverterFunc", "ipaddress"},
			{"internal/condition/types/ipaddress.go", "", "ParseIPAddress", "parseIP"},
			{"internal/condition/types/generic.go", "", "mapTypeConverterFunc", "mapConv"},
			{"internal/condition/types/generic.go", "", "listTypeConverterFunc", "listConv"},
			{"internal/condition/types/encoding.go", "", "DecodeParameterType", "decode"},
			{"internal/condition/types/types.go", "ParameterType", "ConvertValue", "convertValue"},
		}
		var sb strings.Builder
		sb.WriteString(genHeader)
		sb.WriteString("namespace OpenFGAVerif.Gen.Condition\n\n")
		summary := map[string]interface{}{}
		for _, f := range fns {
			fset, file, err := parseFile(repo, f.file)
			if err != nil {
				return Result{}, err
			}
			fd := findFunc(file, f.recv, f.name)
			if fd == nil || fd.Body == nil {
				return Result{}, fmt.Errorf("%s: function %s not found", f.file, f.name)
			}
			conds, calls, rets, assigns, ranges := condSkeleton(fset, fd)
			sb.WriteString(fmt.Sprintf("/-- `%s` (%s): `if` conditions in source order -/\n", f.name, f.file))
			sb.WriteString(fmt.Sprintf("def %sIfs : List String := %s\n", f.lean, leanStrList(conds)))
			sb.WriteString(fmt.Sprintf("/-- `%s`: calls in source order -/\n", f.name))
			sb.WriteString(fmt.Sprintf("def %sCalls : List String := %s\n", f.lean, leanStrList(calls)))
			sb.WriteString(fmt.Sprintf("/-- `%s`: return statements in source order -/\n", f.name))
			sb.WriteString(fmt.Sprintf("def %sReturns : List String := %s\n", f.lean, leanStrList(rets)))
			sb.WriteString(fmt.Sprintf("/-- `%s`: assignments / short declarations in source order -/\n", f.name))
			sb.WriteString(fmt.Sprintf("def %sAssigns : List String := %s\n", f.lean, leanStrList(assigns)))
			sb.WriteString(fmt.Sprintf("/-- `%s`: range clauses in source order -/\n", f.name))
			sb.WriteString(fmt.Sprintf("def %sRanges : List String := %s\n\n", f.lean, leanStrList(ranges)))
			summary[f.lean] = map[string]interface{}{"ifs": conds, "calls": len(calls), "returns": len(rets)}
		}

		// numericTypeConverterFunc: type switch cases with their guards
		fsetC, fileC, err := parseFile(repo, "internal/condition/types/converters.go")
		if err != nil {
			return Result{}, err
		}
		num := findFunc(fileC, "", "numericTypeConverterFunc")
		var caseLines []string
		var parseFloatArgs string
		ast.Inspect(num, func(n ast.Node) bool {
			switch x := n.(type) {
			case *ast.TypeSwitchStmt:
				for _, cl := range x.Body.List {
					cc := cl.(*ast.CaseClause)
					name := "default"
					if len(cc.List) > 0 {
						name = src(fsetC, cc.List[0])
					}
					var guards []string
					for _, st := range cc.Body {
						ast.Inspect(st, func(m ast.Node) bool {
							if is, ok := m.(*ast.IfStmt); ok {
								guards = append(guards, src(fsetC, is.Cond))
							}
							return true
						})
					}
					caseLines = append(caseLines, name+": "+strings.Join(guards, " ; "))
				}
			case *ast.CallExpr:
				if src(fsetC, x.Fun) == "big.ParseFloat" {
					var as []string
					for _, a := range x.Args {
						as = append(as, src(fsetC, a))
					}
					parseFloatArgs = strings.Join(as, ", ")
				}
			}
			return true
		})
		if len(caseLines) == 0 {
			return Result{}, fmt.Errorf("numericTypeConverterFunc: type switch not found")
		}
		if parseFloatArgs == "" {
			return Result{}, fmt.Errorf("numericTypeConverterFunc: big.ParseFloat call not found")
		}
		sb.WriteString("/-- the type switch of `numericTypeConverterFunc`: \"<case type>: <guards in order>\" -/\n")
		sb.WriteString("def numericCases : List String := " + leanStrList(caseLines) + "\n")
		sb.WriteString("def parseFloatArgs : String := " + leanStr(parseFloatArgs) + "\n\n")

		// registration table
		consts := map[string]string{}
		type reg struct {
			typ, conv string
			gens      int
		}
		var regs []reg
		for _, rel := range []string{"internal/condition/types/primitives.go", "internal/condition/types/ipaddress.go"} {
			fsetP, fileP, err := parseFile(repo, rel)
			if err != nil {
				return Result{}, err
			}
			for _, d := range fileP.Decls {
				gd, ok := d.(*ast.GenDecl)
				if !ok {
					continue
				}
				if gd.Tok == token.CONST {
					for _, s := range gd.Specs {
						vs := s.(*ast.ValueSpec)
						for i, n := range vs.Names {
							if i < len(vs.Values) {
								consts[n.Name] = src(fsetP, vs.Values[i])
							}
						}
					}
				}
				if gd.Tok != token.VAR {
					continue
				}
				for _, s := range gd.Specs {
					vs := s.(*ast.ValueSpec)
					for _, v := range vs.Values {
						ce, ok := v.(*ast.CallExpr)
						if !ok {
							continue
						}
						fname := src(fsetP, ce.Fun)
						switch fname {
						case "registerParamType", "registerCustomParamType":
							if len(ce.Args) < 3 {
								return Result{}, fmt.Errorf("%s: %s with %d args", rel, fname, len(ce.Args))
							}
							regs = append(regs, reg{typ: src(fsetP, ce.Args[0]), conv: src(fsetP, ce.Args[2]), gens: 0})
						case "registerParamTypeWithGenerics":
							if len(ce.Args) != 3 {
								return Result{}, fmt.Errorf("%s: %s with %d args", rel, fname, len(ce.Args))
							}
							cnt := src(fsetP, ce.Args[1])
							if c, ok := consts[cnt]; ok {
								cnt = c
							}
							n, err := strconv.Atoi(cnt)
							if err != nil {
								return Result{}, fmt.Errorf("%s: generic count %q is not a literal", rel, cnt)
							}
							regs = append(regs, reg{typ: src(fsetP, ce.Args[0]), conv: src(fsetP, ce.Args[2]), gens: n})
						}
					}
				}
			}
		}
		if len(regs) == 0 {
			return Result{}, fmt.Errorf("no registerParamType calls found")
		}
		var regLines, regSummary []string
		for _, r := range regs {
			t := strings.TrimPrefix(r.typ, "openfgav1.ConditionParamTypeRef_TYPE_NAME_")
			regLines = append(regLines, fmt.Sprintf("(%s, %d, %s)", leanStr(t), r.gens, leanStr(r.conv)))
			regSummary = append(regSummary, fmt.Sprintf("%s/%d/%s", t, r.gens, r.conv))
		}
		sb.WriteString("/-- `registerParamType…` calls: (TYPE_NAME suffix, generic type count, converter) -/\n")
		sb.WriteString("def registrations : List (String × Nat × String) := [" + strings.Join(regLines, ", ") + "]\n")
		sb.WriteString("\nend OpenFGAVerif.Gen.Condition\n")
		summary["registrations"] = regSummary
		summary["numericCases"] = caseLines
		summary["parseFloatArgs"] = parseFloatArgs
		return Result{Lean: sb.String(), Summary: summary}, nil
	})
}

// condSkeleton lists, in source order (depth first), the `if` conditions, calls, return
// statements, assignments and range clauses of a function body. Function literals are included.
func condSkeleton(fset *token.FileSet, fd *ast.FuncDecl) (conds, calls, rets, assigns, ranges []string) {
	ast.Inspect(fd.Body, func(n ast.Node) bool {
		switch x := n.(type) {
		case *ast.IfStmt:
			c := src(fset, x.Cond)
			if x.Init != nil {
				c = src(fset, x.Init) + "; " + c
			}
			conds = append(conds, c)
		case *ast.CallExpr:
			calls = append(calls, src(fset, x.Fun))
		case *ast.ReturnStmt:
			var rs []string
			for _, r := range x.Results {
				if cl, ok := r.(*ast.CompositeLit); ok {
					if t := src(fset, cl); len(t) < 160 {
						rs = append(rs, t)
					} else {
						rs = append(rs, src(fset, cl.Type)+"{…}")
					}
					continue
				}
				if ce, ok := r.(*ast.CallExpr); ok {
					rs = append(rs, src(fset, ce.Fun)+"(…)")
					continue
				}
				if ue, ok := r.(*ast.UnaryExpr); ok {
					if cl, ok := ue.X.(*ast.CompositeLit); ok {
						rs = append(rs, "&"+src(fset, cl.Type)+"{…}")
						continue
					}
				}
				rs = append(rs, src(fset, r))
			}
			rets = append(rets, strings.Join(rs, ", "))
		case *ast.AssignStmt:
			var ls []string
			for _, l := range x.Lhs {
				ls = append(ls, src(fset, l))
			}
			rhs := ""
			if len(x.Rhs) == 1 {
				switch r := x.Rhs[0].(type) {
				case *ast.CallExpr:
					var as []string
					for _, a := range r.Args {
						if _, isFn := a.(*ast.FuncLit); isFn {
							as = append(as, "func…")
						} else {
							as = append(as, src(fset, a))
						}
					}
					rhs = src(fset, r.Fun) + "(" + strings.Join(as, ", ") + ")"
					if r.Ellipsis != token.NoPos {
						rhs = strings.TrimSuffix(rhs, ")") + "...)"
					}
				case *ast.FuncLit:
					rhs = "func…"
				case *ast.CompositeLit:
					if len(src(fset, r)) < 120 {
						rhs = src(fset, r)
					} else {
						rhs = src(fset, r.Type) + "{…}"
					}
				default:
					rhs = src(fset, r)
				}
			}
			assigns = append(assigns, strings.Join(ls, ", ")+" "+x.Tok.String()+" "+rhs)
		case *ast.RangeStmt:
			k, v := "_", "_"
			if x.Key != nil {
				k = src(fset, x.Key)
			}
			if x.Value != nil {
				v = src(fset, x.Value)
			}
			ranges = append(ranges, k+", "+v+" := range "+src(fset, x.X))
		}
		return true
	})
	return
}
