package main

import (
	"fmt"
	"go/ast"
	"go/token"
	"strings"
)

// Cycle: facts about the cycle-group protocol of the streaming ListObjects pipeline (C21).
//
// For every function the protocol model mirrors, the statements are rendered in source order as a
// flat list of strings (control structure kept as "if <cond> {" … "}" markers), so that the tie
// lemmas in Props/C21.lean pin down
//   - StatusPool.inc / dec / set / Wait / Register (reporting.go): counter updates, the
//     `value == 0` test, the one-shot `zero.Swap(true)` latch, what `Wait` waits for;
//   - CycleGroup.Join (cycle.go): ring construction order and the initial `m.reporter.Inc()`,
//     SignalReady = Report then Dec, Wake's Swap latch, Next = prev, Sleep;
//   - Basic.Execute (basic.go): everything after `wgStandard.Wait()` (SignalReady, WaitForAllReady
//     with context.Background, leader branch, Sleep, Cleanup, Next().Wake());
//   - the MsgFunc of both Basic creation sites in createWorker (pipeline.go): Inc before the
//     message is handed to Send, Dec inside the Done callback;
//   - Core.send / the worker loop of Core.ProcessSender / Message.Done / Core.Cleanup (core.go).
func init() {
	register("Cycle", func(repo string) (Result, error) {
		const base = "internal/listobjects/pipeline/"
		var sb strings.Builder
		sb.WriteString(genHeader)
		sb.WriteString("namespace OpenFGAVerif.Gen.Cycle\n\n")
		summary := map[string]interface{}{}
		emit := func(name, doc string, xs []string) {
			sb.WriteString("/-- " + doc + " -/\n")
			sb.WriteString("def " + name + " : List String := " + leanStrList(xs) + "\n")
			summary[name] = xs
		}

		// ---- reporting.go
		fset, f, err := parseFile(repo, base+"internal/track/reporting.go")
		if err != nil {
			return Result{}, err
		}
		for _, fn := range []struct{ recv, name, lean string }{
			{"StatusPool", "inc", "spInc"}, {"StatusPool", "dec", "spDec"}, {"StatusPool", "set", "spSet"},
			{"StatusPool", "Wait", "spWait"}, {"StatusPool", "Register", "spRegister"},
			{"Reporter", "Report", "repReport"}, {"Reporter", "Inc", "repInc"}, {"Reporter", "Dec", "repDec"},
			{"Reporter", "Wait", "repWait"},
		} {
			fd := findFunc(f, fn.recv, fn.name)
			if fd == nil || fd.Body == nil {
				return Result{}, fmt.Errorf("reporting.go: %s.%s not found", fn.recv, fn.name)
			}
			emit(fn.lean, "reporting.go: "+fn.recv+"."+fn.name, flattenStmts(fset, fd.Body.List))
		}

		// ---- cycle.go
		fset, f, err = parseFile(repo, base+"internal/worker/cycle.go")
		if err != nil {
			return Result{}, err
		}
		for _, fn := range []struct{ recv, name, lean string }{
			{"CycleGroup", "Join", "join"}, {"Membership", "SignalReady", "signalReady"},
			{"Membership", "WaitForAllReady", "waitForAllReady"}, {"Membership", "Sleep", "sleep"},
			{"Membership", "Wake", "wake"}, {"Membership", "Next", "next"}, {"Membership", "IsLeader", "isLeader"},
			{"Membership", "Inc", "memInc"}, {"Membership", "Dec", "memDec"},
		} {
			fd := findFunc(f, fn.recv, fn.name)
			if fd == nil || fd.Body == nil {
				return Result{}, fmt.Errorf("cycle.go: %s.%s not found", fn.recv, fn.name)
			}
			emit(fn.lean, "cycle.go: "+fn.recv+"."+fn.name, flattenStmts(fset, fd.Body.List))
		}
		joinFd := findFunc(f, "CycleGroup", "Join")
		joinIncs := 0
		ast.Inspect(joinFd.Body, func(n ast.Node) bool {
			if ce, ok := n.(*ast.CallExpr); ok {
				s := src(fset, ce.Fun)
				if strings.HasSuffix(s, "reporter.Inc") || strings.HasSuffix(s, "statusPool.inc") {
					joinIncs++
				}
			}
			return true
		})
		sb.WriteString("/-- number of increments of the in-flight counter performed by one `Join` -/\n")
		sb.WriteString(fmt.Sprintf("def joinIncCount : Nat := %d\n", joinIncs))
		summary["joinIncCount"] = joinIncs

		// ---- basic.go: Execute after wgStandard.Wait()
		fset, f, err = parseFile(repo, base+"internal/worker/basic.go")
		if err != nil {
			return Result{}, err
		}
		ex := findFunc(f, "Basic", "Execute")
		if ex == nil {
			return Result{}, fmt.Errorf("basic.go: Basic.Execute not found")
		}
		all := flattenStmts(fset, ex.Body.List)
		idx := -1
		for i, s := range all {
			if s == "wgStandard.Wait()" {
				idx = i
			}
		}
		if idx < 0 {
			return Result{}, fmt.Errorf("basic.go: Basic.Execute has no top-level wgStandard.Wait()")
		}
		emit("executeTail", "basic.go: Basic.Execute from `wgStandard.Wait()` to the end", all[idx:])
		// which goroutine group does a sender go to: the `if cyclical {` block must use wgRecursive
		var spawn []string
		for _, s := range all[:idx] {
			if strings.HasPrefix(s, "if cyclical") || strings.HasPrefix(s, "wgRecursive.Go") || strings.HasPrefix(s, "wgStandard.Go") ||
				strings.Contains(s, "w.ProcessSender(") || s == "continue" || strings.HasPrefix(s, "cyclical :=") || strings.HasPrefix(s, "if len(w.senders)") {
				spawn = append(spawn, s)
			}
		}
		emit("executeSpawn", "basic.go: Basic.Execute, how senders are distributed over wgStandard / wgRecursive", spawn)
		pm := findFunc(f, "Basic", "ProcessMessage")
		if pm == nil {
			return Result{}, fmt.Errorf("basic.go: Basic.ProcessMessage not found")
		}
		emit("processMessage", "basic.go: Basic.ProcessMessage", flattenStmts(fset, pm.Body.List))

		// ---- core.go
		fset, f, err = parseFile(repo, base+"internal/worker/core.go")
		if err != nil {
			return Result{}, err
		}
		for _, fn := range []struct{ recv, name, lean string }{
			{"Core", "send", "coreSend"}, {"Message", "Done", "msgDone"}, {"Core", "Cleanup", "coreCleanup"},
		} {
			fd := findFunc(f, fn.recv, fn.name)
			if fd == nil || fd.Body == nil {
				return Result{}, fmt.Errorf("core.go: %s.%s not found", fn.recv, fn.name)
			}
			emit(fn.lean, "core.go: "+fn.recv+"."+fn.name, flattenStmts(fset, fd.Body.List))
		}
		ps := findFunc(f, "Core", "ProcessSender")
		if ps == nil {
			return Result{}, fmt.Errorf("core.go: Core.ProcessSender not found")
		}
		var loop []string
		ast.Inspect(ps.Body, func(n ast.Node) bool {
			if rs, ok := n.(*ast.RangeStmt); ok && src(fset, rs.X) == "input" {
				loop = flattenStmts(fset, []ast.Stmt{rs})
				return false
			}
			return true
		})
		if loop == nil {
			return Result{}, fmt.Errorf("core.go: ProcessSender has no `for msg = range input` loop")
		}
		emit("procLoop", "core.go: the per-message loop of the ProcessSender goroutines", loop)
		psAll := flattenStmts(fset, ps.Body.List)
		var drains []string
		for _, s := range psAll {
			if strings.Contains(s, "DrainSender(") {
				drains = append(drains, s)
			}
		}
		emit("procDrain", "core.go: ProcessSender drains its sender on exit", drains)

		// ---- util.go: DrainSender, IsCyclical
		fset, f, err = parseFile(repo, base+"internal/worker/util.go")
		if err != nil {
			return Result{}, err
		}
		for _, fn := range []struct{ name, lean string }{{"DrainSender", "drainSender"}, {"IsCyclical", "isCyclical"}} {
			fd := findFunc(f, "", fn.name)
			if fd == nil {
				return Result{}, fmt.Errorf("util.go: %s not found", fn.name)
			}
			emit(fn.lean, "util.go: "+fn.name, flattenStmts(fset, fd.Body.List))
		}

		// ---- pipeline.go: MsgFunc at both Basic creation sites of createWorker
		fset, f, err = parseFile(repo, base+"pipeline.go")
		if err != nil {
			return Result{}, err
		}
		cw := findFunc(f, "", "createWorker")
		if cw == nil {
			return Result{}, fmt.Errorf("pipeline.go: createWorker not found")
		}
		var msgFuncs [][]string
		joins := 0
		ast.Inspect(cw.Body, func(n ast.Node) bool {
			switch x := n.(type) {
			case *ast.AssignStmt:
				if len(x.Lhs) == 1 && strings.HasSuffix(src(fset, x.Lhs[0]), ".MsgFunc") {
					msgFuncs = append(msgFuncs, flattenStmts(fset, []ast.Stmt{x}))
					return false
				}
				if len(x.Rhs) == 1 && strings.Contains(src(fset, x.Rhs[0]), "group.Join(") && strings.HasSuffix(src(fset, x.Lhs[0]), ".Membership") {
					joins++
				}
			}
			return true
		})
		if len(msgFuncs) == 0 {
			return Result{}, fmt.Errorf("pipeline.go: createWorker assigns no MsgFunc")
		}
		sb.WriteString("/-- pipeline.go createWorker: every `X.MsgFunc = func(…) {…}` assignment, flattened -/\n")
		sb.WriteString("def msgFuncs : List (List String) := [")
		for i, mf := range msgFuncs {
			if i > 0 {
				sb.WriteString(", ")
			}
			sb.WriteString(leanStrList(mf))
		}
		sb.WriteString("]\n")
		summary["msgFuncs"] = msgFuncs
		sb.WriteString("/-- pipeline.go createWorker: number of `X.Membership = group.Join(…)` assignments -/\n")
		sb.WriteString(fmt.Sprintf("def createWorkerJoins : Nat := %d\n", joins))
		summary["createWorkerJoins"] = joins

		// ---- medium.go: which medium carries cyclical edges, and that Send on it cannot block on capacity
		fset, f, err = parseFile(repo, base+"internal/worker/medium.go")
		if err != nil {
			return Result{}, err
		}
		for _, fn := range []struct{ recv, name, lean string }{
			{"", "NewCyclicalMedium", "newCyclicalMedium"}, {"", "NewQueueMedium", "newQueueMedium"},
			{"QueueMedium", "Send", "queueSend"}, {"QueueMedium", "Close", "queueClose"},
		} {
			fd := findFunc(f, fn.recv, fn.name)
			if fd == nil {
				return Result{}, fmt.Errorf("medium.go: %s not found", fn.name)
			}
			emit(fn.lean, "medium.go: "+fn.name, flattenStmts(fset, fd.Body.List))
		}

		_ = token.NoPos
		sb.WriteString("\nend OpenFGAVerif.Gen.Cycle\n")
		return Result{Lean: sb.String(), Summary: summary}, nil
	})
}

// flattenStmts renders statements in source order; compound statements become "<header> {" … "}".
// `if verifhook.Enabled { … }` blocks (the add-only verification hooks) are skipped.
func flattenStmts(fset *token.FileSet, stmts []ast.Stmt) []string {
	var out []string
	var funcLit func(prefix string, fl *ast.FuncLit, suffix string)
	var walk func(st ast.Stmt)
	block := func(b *ast.BlockStmt) {
		if b == nil {
			return
		}
		for _, s := range b.List {
			walk(s)
		}
	}
	funcLit = func(prefix string, fl *ast.FuncLit, suffix string) {
		out = append(out, prefix+src(fset, fl.Type)+" {")
		block(fl.Body)
		out = append(out, "}"+suffix)
	}
	// callWithFuncLit handles `f(…, func() {…})` and `func() {…}()`
	callWithFuncLit := func(prefix string, ce *ast.CallExpr) bool {
		if fl, ok := ce.Fun.(*ast.FuncLit); ok {
			args := make([]string, len(ce.Args))
			for i, a := range ce.Args {
				args[i] = src(fset, a)
			}
			funcLit(prefix, fl, "("+strings.Join(args, ", ")+")")
			return true
		}
		if len(ce.Args) > 0 {
			if fl, ok := ce.Args[len(ce.Args)-1].(*ast.FuncLit); ok {
				args := make([]string, 0, len(ce.Args))
				for _, a := range ce.Args[:len(ce.Args)-1] {
					args = append(args, src(fset, a))
				}
				p := prefix + src(fset, ce.Fun) + "("
				if len(args) > 0 {
					p += strings.Join(args, ", ") + ", "
				}
				funcLit(p, fl, ")")
				return true
			}
		}
		return false
	}
	walk = func(st ast.Stmt) {
		switch s := st.(type) {
		case *ast.BlockStmt:
			out = append(out, "{")
			block(s)
			out = append(out, "}")
		case *ast.IfStmt:
			if s.Init == nil && s.Else == nil && src(fset, s.Cond) == "verifhook.Enabled" {
				return // verification hook call site (build tag verif): not part of the protocol
			}
			h := "if "
			if s.Init != nil {
				h += src(fset, s.Init) + "; "
			}
			out = append(out, h+src(fset, s.Cond)+" {")
			block(s.Body)
			for s.Else != nil {
				switch e := s.Else.(type) {
				case *ast.IfStmt:
					h := "} else if "
					if e.Init != nil {
						h += src(fset, e.Init) + "; "
					}
					out = append(out, h+src(fset, e.Cond)+" {")
					block(e.Body)
					s = e
					continue
				case *ast.BlockStmt:
					out = append(out, "} else {")
					block(e)
				}
				break
			}
			out = append(out, "}")
		case *ast.ForStmt:
			h := "for"
			if s.Init != nil || s.Post != nil {
				h += " " + srcOrEmpty(fset, s.Init) + "; " + srcOrEmptyExpr(fset, s.Cond) + "; " + srcOrEmpty(fset, s.Post)
			} else if s.Cond != nil {
				h += " " + src(fset, s.Cond)
			}
			out = append(out, h+" {")
			block(s.Body)
			out = append(out, "}")
		case *ast.RangeStmt:
			h := "for "
			if s.Key != nil {
				h += src(fset, s.Key)
				if s.Value != nil {
					h += ", " + src(fset, s.Value)
				}
				h += " " + s.Tok.String() + " "
			}
			out = append(out, h+"range "+src(fset, s.X)+" {")
			block(s.Body)
			out = append(out, "}")
		case *ast.SelectStmt:
			out = append(out, "select {")
			for _, c := range s.Body.List {
				cc := c.(*ast.CommClause)
				if cc.Comm == nil {
					out = append(out, "default:")
				} else {
					out = append(out, "case "+src(fset, cc.Comm)+":")
				}
				for _, b := range cc.Body {
					walk(b)
				}
			}
			out = append(out, "}")
		case *ast.SwitchStmt:
			h := "switch"
			if s.Init != nil {
				h += " " + src(fset, s.Init) + ";"
			}
			if s.Tag != nil {
				h += " " + src(fset, s.Tag)
			}
			out = append(out, h+" {")
			for _, c := range s.Body.List {
				cc := c.(*ast.CaseClause)
				if cc.List == nil {
					out = append(out, "default:")
				} else {
					xs := make([]string, len(cc.List))
					for i, e := range cc.List {
						xs[i] = src(fset, e)
					}
					out = append(out, "case "+strings.Join(xs, ", ")+":")
				}
				for _, b := range cc.Body {
					walk(b)
				}
			}
			out = append(out, "}")
		case *ast.LabeledStmt:
			out = append(out, s.Label.Name+":")
			walk(s.Stmt)
		case *ast.DeferStmt:
			if !callWithFuncLit("defer ", s.Call) {
				out = append(out, "defer "+src(fset, s.Call))
			}
		case *ast.GoStmt:
			if !callWithFuncLit("go ", s.Call) {
				out = append(out, "go "+src(fset, s.Call))
			}
		case *ast.ExprStmt:
			if ce, ok := s.X.(*ast.CallExpr); ok && callWithFuncLit("", ce) {
				return
			}
			out = append(out, src(fset, s))
		case *ast.AssignStmt:
			if len(s.Rhs) == 1 {
				if fl, ok := s.Rhs[0].(*ast.FuncLit); ok {
					lhs := make([]string, len(s.Lhs))
					for i, l := range s.Lhs {
						lhs[i] = src(fset, l)
					}
					funcLit(strings.Join(lhs, ", ")+" "+s.Tok.String()+" ", fl, "")
					return
				}
			}
			out = append(out, src(fset, s))
		default:
			out = append(out, src(fset, st))
		}
	}
	for _, st := range stmts {
		walk(st)
	}
	return out
}

func srcOrEmpty(fset *token.FileSet, s ast.Stmt) string {
	if s == nil {
		return ""
	}
	return src(fset, s)
}

func srcOrEmptyExpr(fset *token.FileSet, e ast.Expr) string {
	if e == nil {
		return ""
	}
	return src(fset, e)
}
