package main

import (
	"fmt"
	"go/ast"
	"go/token"
	"strings"
)

// Expand: facts about pkg/server/commands/expand.go used by C30 (and C04):
//   - the type switch of resolveUserset (rewrite kind -> resolver function)
//   - the Name every node constructor uses and that the recursion hands the request's tuple key on
//   - resolveThis: read filter, validity filter, how users are collected, that they are sorted
//   - resolveTupleToUserset: validity filter, the guard conditions in order, that nothing is sorted
//   - resolveUsersets: children keep their index; difference = [base, subtract]
//   - the step sequence of Execute
//   - toObjectRelation / tuple.ToObjectRelationString
func init() {
	register("Expand", func(repo string) (Result, error) {
		fset, f, err := parseFile(repo, "pkg/server/commands/expand.go")
		if err != nil {
			return Result{}, err
		}
		fn := func(name string) (*ast.FuncDecl, error) {
			fd := findFunc(f, "ExpandQuery", name)
			if fd == nil {
				return nil, fmt.Errorf("ExpandQuery.%s not found", name)
			}
			return fd, nil
		}

		// ---- resolveUserset type switch
		ru, err := fn("resolveUserset")
		if err != nil {
			return Result{}, err
		}
		var sw []string
		var tsw *ast.TypeSwitchStmt
		ast.Inspect(ru.Body, func(n ast.Node) bool {
			if t, ok := n.(*ast.TypeSwitchStmt); ok && tsw == nil {
				tsw = t
			}
			return true
		})
		if tsw == nil {
			return Result{}, fmt.Errorf("resolveUserset: type switch not found")
		}
		keepsTk := true
		for _, st := range tsw.Body.List {
			cc := st.(*ast.CaseClause)
			var types []string
			for _, e := range cc.List {
				types = append(types, src(fset, e))
			}
			lhs := strings.Join(types, "|")
			if cc.List == nil {
				lhs = "default"
			}
			target := ""
			for _, s := range cc.Body {
				rs, ok := s.(*ast.ReturnStmt)
				if !ok || len(rs.Results) == 0 {
					continue
				}
				switch r := rs.Results[len(rs.Results)-1].(type) {
				case *ast.SelectorExpr:
					target = r.Sel.Name
				}
				if ce, ok := rs.Results[0].(*ast.CallExpr); ok {
					if se, ok := ce.Fun.(*ast.SelectorExpr); ok {
						target = se.Sel.Name
						found := false
						for _, a := range ce.Args {
							if src(fset, a) == "tk" {
								found = true
							}
						}
						if !found {
							keepsTk = false
						}
					}
				}
			}
			sw = append(sw, lhs+"=>"+target)
		}

		// ---- node names
		ctors := []string{"resolveThis", "resolveComputedUserset", "resolveTupleToUserset", "resolveUnionUserset", "resolveIntersectionUserset", "resolveDifferenceUserset"}
		var names []string
		for _, c := range ctors {
			fd, err := fn(c)
			if err != nil {
				return Result{}, err
			}
			name := ""
			ast.Inspect(fd.Body, func(n ast.Node) bool {
				cl, ok := n.(*ast.CompositeLit)
				if !ok || src(fset, cl.Type) != "openfgav1.UsersetTree_Node" {
					return true
				}
				for _, el := range cl.Elts {
					if kv, ok := el.(*ast.KeyValueExpr); ok && src(fset, kv.Key) == "Name" {
						name = src(fset, kv.Value)
					}
				}
				return true
			})
			if name == "" {
				return Result{}, fmt.Errorf("%s: UsersetTree_Node{Name: …} not found", c)
			}
			names = append(names, c+":"+name)
			// resolveUsersets(…, tk, …) in the set operators
			ast.Inspect(fd.Body, func(n ast.Node) bool {
				ce, ok := n.(*ast.CallExpr)
				if !ok || src(fset, ce.Fun) != "q.resolveUsersets" {
					return true
				}
				if len(ce.Args) < 4 || src(fset, ce.Args[3]) != "tk" {
					keepsTk = false
				}
				return true
			})
		}
		rus, err := fn("resolveUsersets")
		if err != nil {
			return Result{}, err
		}
		usersetsAssign := ""
		sawInner := false
		ast.Inspect(rus.Body, func(n ast.Node) bool {
			switch x := n.(type) {
			case *ast.CallExpr:
				if src(fset, x.Fun) == "q.resolveUserset" {
					sawInner = true
					if len(x.Args) < 4 || src(fset, x.Args[3]) != "tk" || src(fset, x.Args[2]) != "us" {
						keepsTk = false
					}
				}
			case *ast.AssignStmt:
				if len(x.Lhs) == 1 {
					if ix, ok := x.Lhs[0].(*ast.IndexExpr); ok && src(fset, ix.X) == "out" {
						usersetsAssign = src(fset, x)
					}
				}
			}
			return true
		})
		if !sawInner || usersetsAssign == "" {
			return Result{}, fmt.Errorf("resolveUsersets: q.resolveUserset call / out[i] assignment not found")
		}
		// the loop must range `for i, us := range usersets`
		rangeOK := false
		ast.Inspect(rus.Body, func(n ast.Node) bool {
			if rs, ok := n.(*ast.RangeStmt); ok {
				if src(fset, rs.Key) == "i" && src(fset, rs.Value) == "us" && src(fset, rs.X) == "usersets" {
					rangeOK = true
				}
			}
			return true
		})
		if !rangeOK {
			return Result{}, fmt.Errorf("resolveUsersets: `for i, us := range usersets` not found")
		}

		// ---- resolveThis
		rt, _ := fn("resolveThis")
		readFilter := func(fd *ast.FuncDecl) []string {
			var out []string
			ast.Inspect(fd.Body, func(n ast.Node) bool {
				cl, ok := n.(*ast.CompositeLit)
				if !ok || src(fset, cl.Type) != "storage.ReadFilter" {
					return true
				}
				for _, el := range cl.Elts {
					if kv, ok := el.(*ast.KeyValueExpr); ok {
						out = append(out, src(fset, kv.Key)+":"+src(fset, kv.Value))
					}
				}
				return true
			})
			return out
		}
		filterFunc := func(fd *ast.FuncDecl) string {
			out := ""
			ast.Inspect(fd.Body, func(n ast.Node) bool {
				if ce, ok := n.(*ast.CallExpr); ok && src(fset, ce.Fun) == "storage.NewFilteredTupleKeyIterator" && len(ce.Args) == 2 {
					out = src(fset, ce.Args[1])
				}
				return true
			})
			return out
		}
		readsVia := func(fd *ast.FuncDecl) bool {
			ok := false
			ast.Inspect(fd.Body, func(n ast.Node) bool {
				if ce, is := n.(*ast.CallExpr); is && src(fset, ce.Fun) == "q.datastore.Read" && len(ce.Args) == 4 && src(fset, ce.Args[2]) == "filter" {
					ok = true
				}
				return true
			})
			return ok
		}
		if !readsVia(rt) {
			return Result{}, fmt.Errorf("resolveThis: q.datastore.Read(ctx, store, filter, opts) not found")
		}
		thisFilter := readFilter(rt)
		thisFF := filterFunc(rt)
		thisCollects := ""
		ast.Inspect(rt.Body, func(n ast.Node) bool {
			if as, ok := n.(*ast.AssignStmt); ok && len(as.Lhs) == 1 {
				if ix, ok := as.Lhs[0].(*ast.IndexExpr); ok && src(fset, ix.X) == "distinctUsers" {
					thisCollects = src(fset, as)
				}
			}
			return true
		})
		body := src(fset, rt.Body)
		thisSorts := strings.Contains(body, "slices.Sort(users)")
		// users must be built from the map only
		if !strings.Contains(body, "for u := range distinctUsers { users = append(users, u) }") {
			return Result{}, fmt.Errorf("resolveThis: users are no longer the keys of distinctUsers")
		}
		evalWords := []string{"EvaluateTupleCondition", "ConditionsFiltered", "eval."}
		hasEval := func(b string) bool {
			for _, w := range evalWords {
				if strings.Contains(b, w) {
					return true
				}
			}
			return false
		}
		thisEval := hasEval(body)

		// ---- resolveTupleToUserset
		rtt, _ := fn("resolveTupleToUserset")
		if !readsVia(rtt) {
			return Result{}, fmt.Errorf("resolveTupleToUserset: q.datastore.Read(ctx, store, filter, opts) not found")
		}
		ttuFilter := readFilter(rtt)
		ttuFF := filterFunc(rtt)
		var ttuConds []string
		ast.Inspect(rtt.Body, func(n ast.Node) bool {
			if is, ok := n.(*ast.IfStmt); ok {
				ttuConds = append(ttuConds, src(fset, is.Cond))
			}
			return true
		})
		tbody := src(fset, rtt.Body)
		ttuSorts := strings.Contains(tbody, "slices.Sort") || strings.Contains(tbody, "sort.")
		ttuEval := hasEval(tbody)
		// statements the model depends on
		for _, need := range []string{
			"tupleset := userset.GetTupleset().GetRelation()",
			"tObject, tRelation := tupleUtils.SplitObjectRelation(user)",
			"tRelation = userset.GetComputedUserset().GetRelation()",
			"computed = append(computed, &openfgav1.UsersetTree_Computed{Userset: computedRelation})",
			"seen[computedRelation] = true",
			"Tupleset: toObjectRelation(tsKey)",
			"Computed: computed",
		} {
			if !strings.Contains(tbody, need) {
				return Result{}, fmt.Errorf("resolveTupleToUserset: statement %q not found", need)
			}
		}
		// resolveComputedUserset
		rc, _ := fn("resolveComputedUserset")
		cbody := src(fset, rc.Body)
		for _, need := range []string{
			"Object: userset.GetObject()", "Relation: userset.GetRelation()",
			"computed.Object = tk.GetObject()", "computed.Relation = tk.GetRelation()",
			"Userset: toObjectRelation(computed)",
		} {
			if !strings.Contains(cbody, need) {
				return Result{}, fmt.Errorf("resolveComputedUserset: statement %q not found", need)
			}
		}

		// ---- difference
		rd, _ := fn("resolveDifferenceUserset")
		diffOperands, diffBase, diffSub := "", "", ""
		ast.Inspect(rd.Body, func(n ast.Node) bool {
			switch x := n.(type) {
			case *ast.CallExpr:
				if src(fset, x.Fun) == "q.resolveUsersets" && len(x.Args) >= 3 {
					diffOperands = src(fset, x.Args[2])
				}
			case *ast.AssignStmt:
				if len(x.Lhs) == 1 && len(x.Rhs) == 1 {
					switch src(fset, x.Lhs[0]) {
					case "base":
						diffBase = src(fset, x.Rhs[0])
					case "subtract":
						diffSub = src(fset, x.Rhs[0])
					}
				}
			}
			return true
		})
		dbody := src(fset, rd.Body)
		if !strings.Contains(dbody, "Base: base") || !strings.Contains(dbody, "Subtract: subtract") {
			return Result{}, fmt.Errorf("resolveDifferenceUserset: Base: base / Subtract: subtract not found")
		}
		// union / intersection wrap `nodes` in the right oneof
		for fnName, want := range map[string]string{
			"resolveUnionUserset":        "Value: &openfgav1.UsersetTree_Node_Union{ Union: &openfgav1.UsersetTree_Nodes{ Nodes: nodes, }, }",
			"resolveIntersectionUserset": "Value: &openfgav1.UsersetTree_Node_Intersection{ Intersection: &openfgav1.UsersetTree_Nodes{ Nodes: nodes, }, }",
		} {
			fd, _ := fn(fnName)
			b := src(fset, fd.Body)
			if !strings.Contains(b, want) || !strings.Contains(b, "q.resolveUsersets(ctx, store, usersets.GetChild(), tk, typesys, consistency)") {
				return Result{}, fmt.Errorf("%s: node construction changed", fnName)
			}
		}

		// ---- Execute steps
		ex, err := fn("Execute")
		if err != nil {
			return Result{}, err
		}
		watch := map[string]bool{
			"typesystem.TypesystemFromContext": true, "validation.ValidateTupleForWrite": true,
			"serverErrors.HandleTupleValidateError": true, "validation.ValidateObject": true,
			"validation.ValidateRelation": true, "serverErrors.ValidationError": true,
			"storagewrappers.NewCombinedTupleReader": true, "typesys.GetRelation": true, "q.resolveUserset": true,
		}
		var steps []string
		ast.Inspect(ex.Body, func(n ast.Node) bool {
			switch x := n.(type) {
			case *ast.IfStmt:
				c := src(fset, x.Cond)
				if !strings.Contains(c, "err") {
					steps = append(steps, "if:"+c)
				}
			case *ast.RangeStmt:
				steps = append(steps, "range:"+src(fset, x.X))
			case *ast.CallExpr:
				if s := src(fset, x.Fun); watch[s] {
					steps = append(steps, s)
				}
			}
			return true
		})
		// ast.Inspect visits an IfStmt before its Init: `if err := f(); err != nil` is fine (cond contains err)

		// ---- toObjectRelation
		tor := findFunc(f, "", "toObjectRelation")
		if tor == nil || len(tor.Body.List) != 1 {
			return Result{}, fmt.Errorf("toObjectRelation not found")
		}
		torBody := src(fset, tor.Body.List[0].(*ast.ReturnStmt).Results[0])
		fset2, f2, err := parseFile(repo, "pkg/tuple/tuple.go")
		if err != nil {
			return Result{}, err
		}
		tors := findFunc(f2, "", "ToObjectRelationString")
		if tors == nil || len(tors.Body.List) != 1 {
			return Result{}, fmt.Errorf("tuple.ToObjectRelationString not found")
		}
		orFormat := src(fset2, tors.Body.List[0].(*ast.ReturnStmt).Results[0])
		orParams := ""
		for _, p := range tors.Type.Params.List {
			for _, nm := range p.Names {
				orParams += nm.Name + ","
			}
		}
		if orParams != "object,relation," {
			return Result{}, fmt.Errorf("tuple.ToObjectRelationString: parameters are %q", orParams)
		}
		_ = token.NoPos

		b := func(x bool) string {
			if x {
				return "true"
			}
			return "false"
		}
		var sb strings.Builder
		sb.WriteString(genHeader)
		sb.WriteString("namespace OpenFGAVerif.Gen.Expand\n\n")
		sb.WriteString("/-- type switch of resolveUserset: `<case types>=><resolver>` in source order -/\n")
		sb.WriteString("def resolveSwitch : List String := " + leanStrList(sw) + "\n")
		sb.WriteString("/-- `Name:` of the node built by each resolver -/\n")
		sb.WriteString("def nodeNames : List String := " + leanStrList(names) + "\n")
		sb.WriteString("/-- every recursive call passes the request's `tk` on unchanged -/\n")
		sb.WriteString("def recursionKeepsTupleKey : Bool := " + b(keepsTk) + "\n")
		sb.WriteString("def thisReadFilter : List String := " + leanStrList(thisFilter) + "\n")
		sb.WriteString("def thisFilterFunc : String := " + leanStr(thisFF) + "\n")
		sb.WriteString("def thisCollects : String := " + leanStr(thisCollects) + "\n")
		sb.WriteString("def thisSorts : Bool := " + b(thisSorts) + "\n")
		sb.WriteString("def thisEvaluatesConditions : Bool := " + b(thisEval) + "\n")
		sb.WriteString("def ttuReadFilter : List String := " + leanStrList(ttuFilter) + "\n")
		sb.WriteString("def ttuFilterFunc : String := " + leanStr(ttuFF) + "\n")
		sb.WriteString("def ttuConds : List String := " + leanStrList(ttuConds) + "\n")
		sb.WriteString("def ttuSorts : Bool := " + b(ttuSorts) + "\n")
		sb.WriteString("def ttuEvaluatesConditions : Bool := " + b(ttuEval) + "\n")
		sb.WriteString("def usersetsAssign : String := " + leanStr(usersetsAssign) + "\n")
		sb.WriteString("def differenceOperands : String := " + leanStr(diffOperands) + "\n")
		sb.WriteString("def differenceBase : String := " + leanStr(diffBase) + "\n")
		sb.WriteString("def differenceSubtract : String := " + leanStr(diffSub) + "\n")
		sb.WriteString("/-- guards, loops and watched calls of Execute in source order -/\n")
		sb.WriteString("def executeSteps : List String := " + leanStrList(steps) + "\n")
		sb.WriteString("def toObjectRelationBody : String := " + leanStr(torBody) + "\n")
		sb.WriteString("def objectRelationFormat : String := " + leanStr(orFormat) + "\n")
		// read loops: the conditions under which a tuple-read loop of Expand stops quietly (`break`); anything else
		// must surface as an error, never as a shorter leaf
		var loopBreaks []string
		for _, d := range f.Decls {
			fd, ok := d.(*ast.FuncDecl)
			if !ok || fd.Body == nil {
				continue
			}
			ast.Inspect(fd.Body, func(n ast.Node) bool {
				if is, ok := n.(*ast.IfStmt); ok && len(is.Body.List) > 0 {
					if bs, ok := is.Body.List[len(is.Body.List)-1].(*ast.BranchStmt); ok && bs.Tok.String() == "break" {
						loopBreaks = append(loopBreaks, fd.Name.Name+": "+src(fset, is.Cond))
					}
				}
				return true
			})
		}
		sb.WriteString("/-- `if cond { … break }` sites of expand.go (function: condition) -/\n")
		sb.WriteString("def loopBreaks : List String := " + leanStrList(loopBreaks) + "\n")
		sb.WriteString("\nend OpenFGAVerif.Gen.Expand\n")
		return Result{Lean: sb.String(), Summary: map[string]interface{}{
			"resolveSwitch": sw, "nodeNames": names, "recursionKeepsTupleKey": keepsTk,
			"thisReadFilter": thisFilter, "thisFilterFunc": thisFF, "thisSorts": thisSorts,
			"ttuConds": ttuConds, "ttuSorts": ttuSorts, "executeSteps": steps,
			"differenceOperands": diffOperands, "usersetsAssign": usersetsAssign,
		}}, nil
	})
}
