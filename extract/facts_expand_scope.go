package main

import (
	"fmt"
	"go/ast"
	"strings"
)

// ExpandScope: the lifetime facts of the ExpandQuery object, on which C30's "the tree lists the contextual tuples OF
// THIS REQUEST" rests:
//   - pkg/server/expand.go  Server.Expand: the calls `commands.NewExpandQuery(…)` inside the handler body, the
//     receiver of `.Execute(` and whether that receiver is a local variable assigned from NewExpandQuery in the body
//   - pkg/server/server.go  the fields of `Server` whose type mentions ExpandQuery (a query object kept across requests)
//   - pkg/server/commands/expand.go  every assignment to a field of the receiver in Execute (and in the other methods
//     of ExpandQuery): Execute rebinds `q.datastore` to a CombinedTupleReader over the previous `q.datastore` and the
//     request's contextual tuples, so the object must not outlive the request
func init() {
	register("ExpandScope", func(repo string) (Result, error) {
		fset, f, err := parseFile(repo, "pkg/server/expand.go")
		if err != nil {
			return Result{}, err
		}
		h := findFunc(f, "Server", "Expand")
		if h == nil {
			return Result{}, fmt.Errorf("Server.Expand not found")
		}
		newCalls := 0
		locals := map[string]bool{}
		execRecv := []string{}
		ast.Inspect(h.Body, func(n ast.Node) bool {
			switch x := n.(type) {
			case *ast.AssignStmt:
				if len(x.Lhs) == 1 && len(x.Rhs) == 1 && x.Tok.String() == ":=" {
					if ce, ok := x.Rhs[0].(*ast.CallExpr); ok && src(fset, ce.Fun) == "commands.NewExpandQuery" {
						locals[src(fset, x.Lhs[0])] = true
					}
				}
			case *ast.CallExpr:
				if src(fset, x.Fun) == "commands.NewExpandQuery" {
					newCalls++
				}
				if se, ok := x.Fun.(*ast.SelectorExpr); ok && se.Sel.Name == "Execute" {
					execRecv = append(execRecv, src(fset, se.X))
				}
			}
			return true
		})
		if len(execRecv) == 0 {
			return Result{}, fmt.Errorf("Server.Expand: no .Execute( call found")
		}
		allLocal := true
		for _, r := range execRecv {
			if !locals[r] {
				allLocal = false
			}
		}
		fset2, f2, err := parseFile(repo, "pkg/server/server.go")
		if err != nil {
			return Result{}, err
		}
		var srvFields []string
		foundSrv := false
		ast.Inspect(f2, func(n ast.Node) bool {
			ts, ok := n.(*ast.TypeSpec)
			if !ok || ts.Name.Name != "Server" {
				return true
			}
			st, ok := ts.Type.(*ast.StructType)
			if !ok {
				return true
			}
			foundSrv = true
			for _, fl := range st.Fields.List {
				if strings.Contains(src(fset2, fl.Type), "ExpandQuery") {
					for _, nm := range fl.Names {
						srvFields = append(srvFields, nm.Name+" "+src(fset2, fl.Type))
					}
				}
			}
			return false
		})
		if !foundSrv {
			return Result{}, fmt.Errorf("type Server struct not found")
		}
		fset3, f3, err := parseFile(repo, "pkg/server/commands/expand.go")
		if err != nil {
			return Result{}, err
		}
		var execAssigns, otherAssigns []string
		for _, d := range f3.Decls {
			fd, ok := d.(*ast.FuncDecl)
			if !ok || fd.Recv == nil || fd.Body == nil || len(fd.Recv.List) != 1 || len(fd.Recv.List[0].Names) != 1 {
				continue
			}
			if !strings.Contains(src(fset3, fd.Recv.List[0].Type), "ExpandQuery") {
				continue
			}
			recv := fd.Recv.List[0].Names[0].Name
			ast.Inspect(fd.Body, func(n ast.Node) bool {
				as, ok := n.(*ast.AssignStmt)
				if !ok {
					return true
				}
				for _, l := range as.Lhs {
					if se, ok := l.(*ast.SelectorExpr); ok && src(fset3, se.X) == recv {
						line := strings.Join(strings.Fields(src(fset3, as)), " ")
						if fd.Name.Name == "Execute" {
							execAssigns = append(execAssigns, line)
						} else {
							otherAssigns = append(otherAssigns, fd.Name.Name+": "+line)
						}
					}
				}
				return true
			})
		}
		if findFunc(f3, "ExpandQuery", "Execute") == nil {
			return Result{}, fmt.Errorf("ExpandQuery.Execute not found")
		}
		var sb strings.Builder
		sb.WriteString(genHeader)
		sb.WriteString("namespace OpenFGAVerif.Gen.ExpandScope\n\n")
		sb.WriteString("/-- Server.Expand: number of `commands.NewExpandQuery(…)` calls inside the handler body -/\n")
		sb.WriteString(fmt.Sprintf("def handlerNewExpandQuery : Nat := %d\n", newCalls))
		sb.WriteString("/-- Server.Expand: the receivers of `.Execute(` -/\n")
		sb.WriteString("def executeReceivers : List String := " + leanStrList(execRecv) + "\n")
		b := "false"
		if allLocal {
			b = "true"
		}
		sb.WriteString("/-- every such receiver is a local variable assigned (`:=`) from commands.NewExpandQuery in the handler body -/\n")
		sb.WriteString("def executeReceiversLocal : Bool := " + b + "\n")
		sb.WriteString("/-- fields of `type Server struct` whose type mentions ExpandQuery -/\n")
		sb.WriteString("def serverExpandQueryFields : List String := " + leanStrList(srvFields) + "\n")
		sb.WriteString("/-- ExpandQuery.Execute: assignments to fields of the receiver -/\n")
		sb.WriteString("def executeReceiverAssigns : List String := " + leanStrList(execAssigns) + "\n")
		sb.WriteString("/-- the other methods of ExpandQuery: assignments to fields of the receiver -/\n")
		sb.WriteString("def otherReceiverAssigns : List String := " + leanStrList(otherAssigns) + "\n")
		sb.WriteString("\nend OpenFGAVerif.Gen.ExpandScope\n")
		return Result{Lean: sb.String(), Summary: map[string]interface{}{"handlerNewExpandQuery": newCalls, "executeReceivers": execRecv,
			"executeReceiversLocal": allLocal, "serverExpandQueryFields": srvFields, "executeReceiverAssigns": execAssigns, "otherReceiverAssigns": otherAssigns}}, nil
	})
}
