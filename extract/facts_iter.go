package main

import (
	"fmt"
	"go/ast"
	"go/parser"
	"go/token"
	"path/filepath"
	"strconv"
	"strings"
)

// parseFileNoComments parses without comments so that skeletons do not depend on them.
func parseFileNoComments(repo, rel string) (*token.FileSet, *ast.File, error) {
	fset := token.NewFileSet()
	f, err := parser.ParseFile(fset, filepath.Join(repo, rel), nil, 0)
	if err != nil {
		return nil, nil, fmt.Errorf("%s: %w", rel, err)
	}
	return fset, f, nil
}

// Iter: facts about the tuple-iterator adapters and the shared iterator (C23, also read by C09).
//
// For every function the Lean model `Model/Iter.lean` / `Model/SharedIter.lean` mirrors, the *statement skeleton*
// (every if/for condition, assignment, call, return, in source order, nesting marked by braces) is emitted as a
// `List String`.  `Props/C23.lean` pins each skeleton to the one the model was written against (`by decide`), so a
// changed guard, comparison operator, statement order or dropped statement breaks a tie lemma.
// Plus a few scalar facts the model is parameterised by (`bufferSize`).

// iterSkeleton renders the body of fd as a flat list of normalised statements.
func iterSkeleton(fset *token.FileSet, fd *ast.FuncDecl) []string {
	var out []string
	var walk func(stmts []ast.Stmt)
	walkBlock := func(b *ast.BlockStmt) {
		out = append(out, "{")
		if b != nil {
			walk(b.List)
		}
		out = append(out, "}")
	}
	walk = func(stmts []ast.Stmt) {
		for _, st := range stmts {
			switch s := st.(type) {
			case *ast.IfStmt:
				head := "if "
				if s.Init != nil {
					head += src(fset, s.Init) + "; "
				}
				out = append(out, head+src(fset, s.Cond))
				walkBlock(s.Body)
				if s.Else != nil {
					out = append(out, "else")
					switch e := s.Else.(type) {
					case *ast.BlockStmt:
						walkBlock(e)
					case *ast.IfStmt:
						walk([]ast.Stmt{e})
					}
				}
			case *ast.ForStmt:
				head := "for"
				if s.Init != nil || s.Post != nil {
					head += " " + src(fset, s.Init) + "; " + src(fset, s.Cond) + "; " + src(fset, s.Post)
				} else if s.Cond != nil {
					head += " " + src(fset, s.Cond)
				}
				out = append(out, head)
				walkBlock(s.Body)
			case *ast.RangeStmt:
				head := "range"
				if s.Key != nil {
					head += " " + src(fset, s.Key)
				}
				if s.Value != nil {
					head += ", " + src(fset, s.Value)
				}
				out = append(out, head+" := "+src(fset, s.X))
				walkBlock(s.Body)
			case *ast.BlockStmt:
				walkBlock(s)
			case *ast.LabeledStmt:
				out = append(out, "label "+s.Label.Name)
				walk([]ast.Stmt{s.Stmt})
			case *ast.SelectStmt:
				out = append(out, "select")
				out = append(out, "{")
				for _, c := range s.Body.List {
					cc := c.(*ast.CommClause)
					if cc.Comm == nil {
						out = append(out, "default")
					} else {
						out = append(out, "case "+src(fset, cc.Comm))
					}
					out = append(out, "{")
					walk(cc.Body)
					out = append(out, "}")
				}
				out = append(out, "}")
			case *ast.SwitchStmt:
				out = append(out, "switch "+src(fset, s.Tag))
				out = append(out, "{")
				for _, c := range s.Body.List {
					cc := c.(*ast.CaseClause)
					exprs := make([]string, len(cc.List))
					for i, e := range cc.List {
						exprs[i] = src(fset, e)
					}
					out = append(out, "case "+strings.Join(exprs, ", "))
					out = append(out, "{")
					walk(cc.Body)
					out = append(out, "}")
				}
				out = append(out, "}")
			case *ast.DeclStmt:
				out = append(out, src(fset, s))
			case *ast.GoStmt:
				out = append(out, "go")
				if fl, ok := s.Call.Fun.(*ast.FuncLit); ok {
					walkBlock(fl.Body)
				} else {
					out = append(out, src(fset, s.Call))
				}
			case *ast.DeferStmt:
				out = append(out, "defer "+src(fset, s.Call))
			case *ast.ExprStmt:
				// calls with a function literal argument (once.Do(func(){…}), sf.Do(key, func…)): descend
				if ce, ok := s.X.(*ast.CallExpr); ok {
					var lit *ast.FuncLit
					for _, a := range ce.Args {
						if fl, ok := a.(*ast.FuncLit); ok {
							lit = fl
						}
					}
					if lit != nil {
						out = append(out, "call "+src(fset, ce.Fun)+"(func)")
						walkBlock(lit.Body)
						continue
					}
				}
				out = append(out, src(fset, s))
			case *ast.AssignStmt:
				var lit *ast.FuncLit
				for _, r := range s.Rhs {
					if ce, ok := r.(*ast.CallExpr); ok {
						for _, a := range ce.Args {
							if fl, ok := a.(*ast.FuncLit); ok {
								lit = fl
							}
						}
					}
				}
				if lit != nil {
					lhs := make([]string, len(s.Lhs))
					for i, l := range s.Lhs {
						lhs[i] = src(fset, l)
					}
					out = append(out, strings.Join(lhs, ", ")+" "+s.Tok.String()+" call(func)")
					walkBlock(lit.Body)
					continue
				}
				out = append(out, src(fset, s))
			default:
				out = append(out, src(fset, st))
			}
		}
	}
	if fd.Body != nil {
		walk(fd.Body.List)
	}
	return out
}

type iterFn struct {
	file, recv, name, lean string
}

var iterFns = []iterFn{
	{"pkg/storage/tuple_iterators.go", "combinedIterator", "Next", "combinedNext"},
	{"pkg/storage/tuple_iterators.go", "combinedIterator", "Head", "combinedHead"},
	{"pkg/storage/tuple_iterators.go", "combinedIterator", "Stop", "combinedStop"},
	{"pkg/storage/tuple_iterators.go", "StaticIterator", "Next", "staticNext"},
	{"pkg/storage/tuple_iterators.go", "StaticIterator", "Head", "staticHead"},
	{"pkg/storage/tuple_iterators.go", "StaticIterator", "Stop", "staticStop"},
	{"pkg/storage/tuple_iterators.go", "filteredTupleKeyIterator", "Next", "boolFilterNext"},
	{"pkg/storage/tuple_iterators.go", "filteredTupleKeyIterator", "Head", "boolFilterHead"},
	{"pkg/storage/tuple_iterators.go", "ConditionsFilteredTupleKeyIterator", "Next", "condFilterNext"},
	{"pkg/storage/tuple_iterators.go", "ConditionsFilteredTupleKeyIterator", "Head", "condFilterHead"},
	{"pkg/storage/tuple_iterators.go", "OrderedCombinedIterator", "Next", "ocNext"},
	{"pkg/storage/tuple_iterators.go", "OrderedCombinedIterator", "Head", "ocHead"},
	{"pkg/storage/tuple_iterators.go", "OrderedCombinedIterator", "head", "ocHeadLoop"},
	{"pkg/storage/tuple_iterators.go", "OrderedCombinedIterator", "Stop", "ocStop"},
	{"pkg/storage/tuple_iterators.go", "", "IterIsDoneOrCancelled", "isDoneOrCancelled"},
	{"internal/iterator/concat.go", "concatIterator", "Next", "concatNext"},
	{"internal/iterator/concat.go", "concatIterator", "Stop", "concatStop"},
	{"internal/iterator/concat.go", "concatIterator", "Head", "concatHead"},
	{"internal/iterator/merge.go", "MergedIterator", "initialize", "mergeInitialize"},
	{"internal/iterator/merge.go", "MergedIterator", "Next", "mergeNext"},
	{"internal/iterator/merge.go", "MergedIterator", "returnFromIter1", "mergeReturn1"},
	{"internal/iterator/merge.go", "MergedIterator", "returnFromIter2", "mergeReturn2"},
	{"internal/iterator/merge.go", "MergedIterator", "Stop", "mergeStop"},
	{"internal/iterator/filter.go", "filter", "Next", "filterNext"},
	{"internal/iterator/filter.go", "filter", "applyFilters", "filterApply"},
	{"internal/iterator/filter.go", "filter", "Head", "filterHead"},
	{"internal/iterator/validate.go", "validatingIterator", "Next", "validateNext"},
	{"internal/iterator/validate.go", "validatingIterator", "Head", "validateHead"},
	{"internal/iterator/skip.go", "", "SkipTo", "skipTo"},
	{"pkg/storage/storagewrappers/sharediterator/shared_iterator_datastore.go", "sharedIterator", "clone", "sharedClone"},
	{"pkg/storage/storagewrappers/sharediterator/shared_iterator_datastore.go", "sharedIterator", "fetchMore", "sharedFetchMore"},
	{"pkg/storage/storagewrappers/sharediterator/shared_iterator_datastore.go", "sharedIterator", "fetchAndWait", "sharedFetchAndWait"},
	{"pkg/storage/storagewrappers/sharediterator/shared_iterator_datastore.go", "sharedIterator", "currentLocked", "sharedCurrent"},
	{"pkg/storage/storagewrappers/sharediterator/shared_iterator_datastore.go", "sharedIterator", "Next", "sharedNext"},
	{"pkg/storage/storagewrappers/sharediterator/shared_iterator_datastore.go", "sharedIterator", "Head", "sharedHead"},
	{"pkg/storage/storagewrappers/sharediterator/shared_iterator_datastore.go", "sharedIterator", "Stop", "sharedStop"},
	{"pkg/storage/storagewrappers/sharediterator/shared_iterator_datastore.go", "iteratorReader", "Read", "sharedRead"},
	{"pkg/storage/storagewrappers/sharediterator/shared_iterator_datastore.go", "await", "Do", "awaitDo"},
	{"pkg/storage/storagewrappers/sharediterator/shared_iterator_datastore.go", "storageItem", "unwrap", "sharedUnwrap"},
}

// intConst finds `const name = <int literal>` (possibly inside a const block).
func intConst(f *ast.File, name string) (int, bool) {
	for _, d := range f.Decls {
		gd, ok := d.(*ast.GenDecl)
		if !ok || gd.Tok != token.CONST {
			continue
		}
		for _, s := range gd.Specs {
			v := s.(*ast.ValueSpec)
			for i, n := range v.Names {
				if n.Name == name && i < len(v.Values) {
					if bl, ok := v.Values[i].(*ast.BasicLit); ok && bl.Kind == token.INT {
						x, err := strconv.Atoi(bl.Value)
						return x, err == nil
					}
				}
			}
		}
	}
	return 0, false
}

func skeletonGroup(repo, ns, doc string, fns []iterFn, extra func(files map[string]*ast.File) (string, map[string]interface{}, error)) (Result, error) {
	type parsed struct {
		fset *token.FileSet
		f    *ast.File
	}
	files := map[string]parsed{}
	summary := map[string]interface{}{}
	var sb strings.Builder
	sb.WriteString(genHeader)
	sb.WriteString("namespace OpenFGAVerif.Gen." + ns + "\n\n")
	sb.WriteString("/-! " + doc + " -/\n\n")
	for _, fn := range fns {
		p, ok := files[fn.file]
		if !ok {
			fset, f, err := parseFileNoComments(repo, fn.file)
			if err != nil {
				return Result{}, err
			}
			p = parsed{fset, f}
			files[fn.file] = p
		}
		fd := findFunc(p.f, fn.recv, fn.name)
		if fd == nil {
			return Result{}, fmt.Errorf("%s: func (%s) %s not found", fn.file, fn.recv, fn.name)
		}
		sk := iterSkeleton(p.fset, fd)
		sb.WriteString(fmt.Sprintf("/-- statement skeleton of `%s.%s` (%s) -/\n", fn.recv, fn.name, fn.file))
		sb.WriteString("def " + fn.lean + " : List String := [\n")
		for i, l := range sk {
			sb.WriteString("  " + leanStr(l))
			if i+1 < len(sk) {
				sb.WriteString(",")
			}
			sb.WriteString("\n")
		}
		sb.WriteString("]\n")
		// FNV-1a (64 bit) of the skeleton, for ties that pin long functions cheaply
		h := uint64(14695981039346656037)
		for _, c := range []byte(strings.Join(sk, "\n")) {
			h ^= uint64(c)
			h *= 1099511628211
		}
		sb.WriteString(fmt.Sprintf("def %sHash : Nat := %d\n\n", fn.lean, h))
		summary[fn.lean] = len(sk)
	}
	if extra != nil {
		asts := map[string]*ast.File{}
		for k, v := range files {
			asts[k] = v.f
		}
		lean, sum, err := extra(asts)
		if err != nil {
			return Result{}, err
		}
		sb.WriteString(lean)
		for k, v := range sum {
			summary[k] = v
		}
	}
	sb.WriteString("\nend OpenFGAVerif.Gen." + ns + "\n")
	return Result{Lean: sb.String(), Summary: summary}, nil
}

func init() {
	register("Iter", func(repo string) (Result, error) {
		return skeletonGroup(repo, "Iter",
			"statement skeletons of the iterator adapters and of the shared iterator; `sharedBufferSize` = `bufferSize`",
			iterFns,
			func(files map[string]*ast.File) (string, map[string]interface{}, error) {
				f := files["pkg/storage/storagewrappers/sharediterator/shared_iterator_datastore.go"]
				n, ok := intConst(f, "bufferSize")
				if !ok {
					return "", nil, fmt.Errorf("const bufferSize (int literal) not found in shared_iterator_datastore.go")
				}
				return fmt.Sprintf("/-- `bufferSize`: items fetched per `fetchMore` -/\ndef sharedBufferSize : Nat := %d\n", n),
					map[string]interface{}{"sharedBufferSize": n}, nil
			})
	})
}
