package main

import (
	"fmt"
	"go/ast"
	"strings"
)

// IterCache: facts about the V1 iterator cache (C09).
//   - statement skeletons of the functions mirrored by lean/OpenFGAVerif/Model/IterCache.lean
//     (cachedIterator.Next/Head/Stop/addToBuffer/flush, findInCache, isInvalidAt, cachedTupleIterator.*)
//   - the "known field" arguments handed to newCachedIterator by each operation, and the fields each cache-key
//     function encodes (every elided field must be fixed by the key)
//   - the V2 CachingIterator (iterator_cache.go) skeletons, pinned so that a change there is noticed although the
//     V2 iterator is covered by the correspondence only

var iterCacheFns = []iterFn{
	{"pkg/storage/storagewrappers/cached_datastore.go", "cachedIterator", "Next", "cachedNext"},
	{"pkg/storage/storagewrappers/cached_datastore.go", "cachedIterator", "Head", "cachedHead"},
	{"pkg/storage/storagewrappers/cached_datastore.go", "cachedIterator", "Stop", "cachedStop"},
	{"pkg/storage/storagewrappers/cached_datastore.go", "cachedIterator", "addToBuffer", "cachedAddToBuffer"},
	{"pkg/storage/storagewrappers/cached_datastore.go", "cachedIterator", "flush", "cachedFlush"},
	{"pkg/storage/storagewrappers/cached_datastore.go", "", "findInCache", "findInCache"},
	{"pkg/storage/storagewrappers/cached_datastore.go", "", "isInvalidAt", "isInvalidAt"},
	{"pkg/storage/storagewrappers/cached_datastore.go", "CachedDatastore", "newCachedIterator", "newCachedIterator"},
	{"pkg/storage/storagewrappers/cached_datastore.go", "CachedDatastore", "newCachedIteratorByObjectRelation", "newByObjectRelation"},
	{"pkg/storage/storagewrappers/cached_datastore.go", "CachedDatastore", "newCachedIteratorByUserObjectType", "newByUserObjectType"},
	{"pkg/storage/storagewrappers/cached_datastore.go", "CachedDatastore", "Read", "cdsRead"},
	{"pkg/storage/storagewrappers/cached_datastore.go", "CachedDatastore", "ReadUsersetTuples", "cdsReadUsersetTuples"},
	{"pkg/storage/storagewrappers/cached_datastore.go", "CachedDatastore", "ReadStartingWithUser", "cdsReadStartingWithUser"},
	{"pkg/storage/storagewrappers/cached_iterators.go", "cachedTupleIterator", "Next", "cachedTupleNext"},
	{"pkg/storage/storagewrappers/cached_iterators.go", "cachedTupleIterator", "Head", "cachedTupleHead"},
	{"pkg/storage/storagewrappers/cached_iterators.go", "cachedTupleIterator", "buildTuple", "buildTuple"},
	{"pkg/storage/storagewrappers/iterator_cache.go", "CachingIterator", "Next", "v2Next"},
	{"pkg/storage/storagewrappers/iterator_cache.go", "CachingIterator", "Head", "v2Head"},
	{"pkg/storage/storagewrappers/iterator_cache.go", "CachingIterator", "Stop", "v2Stop"},
	{"pkg/storage/storagewrappers/iterator_cache.go", "CachingIterator", "flush", "v2Flush"},
	{"pkg/storage/storagewrappers/iterator_cache.go", "CachingIterator", "drainInBackground", "v2Drain"},
	{"pkg/storage/storagewrappers/iterator_cache.go", "LockFreeCachedIterator", "reconstruct", "v2Reconstruct"},
	{"pkg/storage/storagewrappers/cached_reader.go", "CachedTupleReader", "tryGetFromCache", "v2TryGetFromCache"},
	{"pkg/storage/storagewrappers/cached_reader.go", "CachedTupleReader", "isCacheEntryInvalidated", "v2IsInvalidated"},
}

// lastCallArgs returns the source of the arguments of the last call `recv.name(...)` in fd.
func lastCallArgs(fd *ast.FuncDecl, recv, name string) []string {
	var out []string
	ast.Inspect(fd, func(n ast.Node) bool {
		ce, ok := n.(*ast.CallExpr)
		if !ok {
			return true
		}
		se, ok := ce.Fun.(*ast.SelectorExpr)
		if !ok || se.Sel.Name != name {
			return true
		}
		if id, ok := se.X.(*ast.Ident); !ok || id.Name != recv {
			return true
		}
		out = nil
		for _, a := range ce.Args {
			out = append(out, exprText(a))
		}
		return true
	})
	return out
}

func exprText(e ast.Expr) string {
	switch x := e.(type) {
	case *ast.Ident:
		return x.Name
	case *ast.BasicLit:
		return x.Value
	case *ast.SelectorExpr:
		return exprText(x.X) + "." + x.Sel.Name
	case *ast.CallExpr:
		args := make([]string, len(x.Args))
		for i, a := range x.Args {
			args[i] = exprText(a)
		}
		return exprText(x.Fun) + "(" + strings.Join(args, ", ") + ")"
	case *ast.CompositeLit:
		return "{…}"
	}
	return "?"
}

// encodeStringArgs lists the arguments of builder.EncodeString(...) that follow builder.Reset() in fd.
func encodeStringArgs(fd *ast.FuncDecl) []string {
	var out []string
	after := false
	ast.Inspect(fd, func(n ast.Node) bool {
		ce, ok := n.(*ast.CallExpr)
		if !ok {
			return true
		}
		se, ok := ce.Fun.(*ast.SelectorExpr)
		if !ok {
			return true
		}
		if id, ok := se.X.(*ast.Ident); !ok || id.Name != "builder" {
			return true
		}
		switch se.Sel.Name {
		case "Reset":
			after = true
		case "EncodeString", "EncodeUint64":
			if after && len(ce.Args) == 1 {
				out = append(out, exprText(ce.Args[0]))
			}
		}
		return true
	})
	return out
}

func init() {
	register("IterCache", func(repo string) (Result, error) {
		return skeletonGroup(repo, "IterCache",
			"statement skeletons of the V1 iterator cache (and, pinned only, of the V2 CachingIterator); known-field and key-field lists",
			iterCacheFns,
			func(files map[string]*ast.File) (string, map[string]interface{}, error) {
				f := files["pkg/storage/storagewrappers/cached_datastore.go"]
				byOR := findFunc(f, "CachedDatastore", "newCachedIteratorByObjectRelation")
				byUOT := findFunc(f, "CachedDatastore", "newCachedIteratorByUserObjectType")
				if byOR == nil || byUOT == nil {
					return "", nil, fmt.Errorf("newCachedIteratorBy… not found")
				}
				a1 := lastCallArgs(byOR, "c", "newCachedIterator")
				a2 := lastCallArgs(byUOT, "c", "newCachedIterator")
				if len(a1) != 10 || len(a2) != 10 {
					return "", nil, fmt.Errorf("c.newCachedIterator: expected 10 arguments, got %d / %d", len(a1), len(a2))
				}
				_, kf, err := parseFileNoComments(repo, "pkg/storage/keys.go")
				if err != nil {
					return "", nil, err
				}
				keyFields := map[string][]string{}
				for _, name := range []string{"ReadKey", "ReadUsersetTuplesKey", "ReadStartingWithUserKey"} {
					fd := findFunc(kf, "", name)
					if fd == nil {
						return "", nil, fmt.Errorf("keys.go: %s not found", name)
					}
					keyFields[name] = encodeStringArgs(fd)
					if len(keyFields[name]) == 0 {
						return "", nil, fmt.Errorf("keys.go: %s: no builder.EncodeString after builder.Reset", name)
					}
				}
				var sb strings.Builder
				sb.WriteString("/-- the four known-field arguments (objectType, objectID, relation, userType) of `newCachedIterator` -/\n")
				sb.WriteString("def knownByObjectRelation : List String := " + leanStrList(a1[6:]) + "\n")
				sb.WriteString("def knownByUserObjectType : List String := " + leanStrList(a2[6:]) + "\n")
				sb.WriteString("/-- what each cache-key function encodes after the hashed suffix is computed -/\n")
				sb.WriteString("def keyFieldsRead : List String := " + leanStrList(keyFields["ReadKey"]) + "\n")
				sb.WriteString("def keyFieldsReadUsersetTuples : List String := " + leanStrList(keyFields["ReadUsersetTuplesKey"]) + "\n")
				sb.WriteString("def keyFieldsReadStartingWithUser : List String := " + leanStrList(keyFields["ReadStartingWithUserKey"]) + "\n")
				return sb.String(), map[string]interface{}{
					"knownByObjectRelation": a1[6:], "knownByUserObjectType": a2[6:], "keyFields": keyFields,
				}, nil
			})
	})
}
