package main

import (
	"fmt"
	"go/ast"
	"go/parser"
	"go/token"
	"os"
	"path/filepath"
	"sort"
	"strconv"
	"strings"
	"unicode"
)

// Keys: facts about the cache-key builder (pkg/storage/cache/keys) and about every
// place that builds a key with it.  Used by C24 (and the layouts by C16, C07, C08).
//
//   - the tag constants (evaluated, so that an explicit value or an alias is seen)
//   - the statement list of every Builder.Encode* method and of every types.go WriteTo
//   - PbValue.WriteTo: nil guard, loop head (stack discipline), kind -> statements table
//   - Tuple.WriteTo statement list
//   - helpers of pkg/storage/keys.go (copyObjectRelations, copyConditions, copyRelationReferences)
//   - TupleKeys.Less statement list
//   - for EVERY `keys.GetBuilder()` site in non-test code: the ordered list of builder
//     operations (lit / str / u64 / arr / ser / bytes / reset / key), constants resolved
//   - the number of such sites (a new key function breaks the tie until it is looked at)
//   - which operand of each site is the store id

type keyOp struct {
	Kind string // lit | str | u64 | arr | ser | raw | bytes | reset | key
	Expr string // source text of the argument ("" for bytes/reset/key)
	Lit  string // resolved constant for lit
}

type keySite struct {
	Name string // lowerCamel site name
	File string
	Func string
	Ops  []keyOp
}

func keysLowerFirst(s string) string {
	if s == "" {
		return s
	}
	r := []rune(s)
	r[0] = unicode.ToLower(r[0])
	return string(r)
}

// keysConstsOfDir collects string constants of all non-test files of a package directory.
func keysConstsOfDir(repo, dir string) map[string]string {
	out := map[string]string{}
	ents, err := os.ReadDir(filepath.Join(repo, dir))
	if err != nil {
		return out
	}
	for _, e := range ents {
		n := e.Name()
		if e.IsDir() || !strings.HasSuffix(n, ".go") || strings.HasSuffix(n, "_test.go") {
			continue
		}
		fset := token.NewFileSet()
		f, err := parser.ParseFile(fset, filepath.Join(repo, dir, n), nil, 0)
		if err != nil {
			continue
		}
		for k, v := range stringConsts(f) {
			out[k] = v
		}
	}
	return out
}

// keysStmts renders the statements of a block, one string each, skipping pure
// capacity hints (slices.Grow), which do not change the bytes.
func keysStmts(fset *token.FileSet, b *ast.BlockStmt) []string {
	var out []string
	if b == nil {
		return out
	}
	for _, s := range b.List {
		t := src(fset, s)
		if strings.Contains(t, "slices.Grow(") && strings.HasPrefix(t, "kb.data = slices.Grow(") {
			continue
		}
		out = append(out, t)
	}
	return out
}

// keysEvalTags evaluates the const block that starts with tagNull.
func keysEvalTags(f *ast.File) ([]string, []int, error) {
	for _, d := range f.Decls {
		gd, ok := d.(*ast.GenDecl)
		if !ok || gd.Tok != token.CONST || len(gd.Specs) == 0 {
			continue
		}
		first := gd.Specs[0].(*ast.ValueSpec)
		if len(first.Names) == 0 || first.Names[0].Name != "tagNull" {
			continue
		}
		var names []string
		var vals []int
		env := map[string]int{}
		var lastExpr ast.Expr
		var eval func(e ast.Expr, iota int) (int, error)
		eval = func(e ast.Expr, iota int) (int, error) {
			switch x := e.(type) {
			case *ast.Ident:
				if x.Name == "iota" {
					return iota, nil
				}
				if v, ok := env[x.Name]; ok {
					return v, nil
				}
				return 0, fmt.Errorf("unknown identifier %s in tag const block", x.Name)
			case *ast.BasicLit:
				v, err := strconv.ParseInt(x.Value, 0, 64)
				return int(v), err
			case *ast.ParenExpr:
				return eval(x.X, iota)
			case *ast.CallExpr: // byte(x)
				if len(x.Args) == 1 {
					return eval(x.Args[0], iota)
				}
			case *ast.BinaryExpr:
				a, err := eval(x.X, iota)
				if err != nil {
					return 0, err
				}
				b, err := eval(x.Y, iota)
				if err != nil {
					return 0, err
				}
				switch x.Op {
				case token.ADD:
					return a + b, nil
				case token.SUB:
					return a - b, nil
				case token.MUL:
					return a * b, nil
				case token.SHL:
					return a << uint(b), nil
				case token.OR:
					return a | b, nil
				}
			}
			return 0, fmt.Errorf("unsupported expression in tag const block")
		}
		for i, s := range gd.Specs {
			vs := s.(*ast.ValueSpec)
			if len(vs.Values) > 1 || len(vs.Names) != 1 {
				return nil, nil, fmt.Errorf("tag const block: multi-name spec")
			}
			if len(vs.Values) == 1 {
				lastExpr = vs.Values[0]
			}
			if lastExpr == nil {
				return nil, nil, fmt.Errorf("tag const block: no expression")
			}
			v, err := eval(lastExpr, i)
			if err != nil {
				return nil, nil, err
			}
			if v < 0 || v > 255 {
				return nil, nil, fmt.Errorf("tag %s out of byte range", vs.Names[0].Name)
			}
			env[vs.Names[0].Name] = v
			names = append(names, vs.Names[0].Name)
			vals = append(vals, v)
		}
		return names, vals, nil
	}
	return nil, nil, fmt.Errorf("const block starting with tagNull not found")
}

// keysSitesOfFile finds every `X := keys.GetBuilder()` in the file and the operations performed on X.
func keysSitesOfFile(repo, rel string, consts map[string]string) ([]keySite, error) {
	fset, f, err := parseFile(repo, rel)
	if err != nil {
		return nil, err
	}
	var sites []keySite
	for _, d := range f.Decls {
		fd, ok := d.(*ast.FuncDecl)
		if !ok || fd.Body == nil {
			continue
		}
		// builder identifiers declared in this function, in source order
		type decl struct {
			name string
			pos  token.Pos
		}
		var decls []decl
		ast.Inspect(fd.Body, func(n ast.Node) bool {
			as, ok := n.(*ast.AssignStmt)
			if !ok || as.Tok != token.DEFINE || len(as.Lhs) != 1 || len(as.Rhs) != 1 {
				return true
			}
			if src(fset, as.Rhs[0]) == "keys.GetBuilder()" {
				decls = append(decls, decl{as.Lhs[0].(*ast.Ident).Name, as.Pos()})
			}
			return true
		})
		for k, dc := range decls {
			end := fd.Body.End()
			if k+1 < len(decls) {
				end = decls[k+1].pos
			}
			var ops []keyOp
			var opErr error
			ast.Inspect(fd.Body, func(n ast.Node) bool {
				ce, ok := n.(*ast.CallExpr)
				if !ok || ce.Pos() < dc.pos || ce.Pos() >= end {
					return true
				}
				se, ok := ce.Fun.(*ast.SelectorExpr)
				if !ok {
					return true
				}
				id, ok := se.X.(*ast.Ident)
				if !ok || id.Name != dc.name {
					return true
				}
				arg := ""
				if len(ce.Args) > 0 {
					parts := make([]string, len(ce.Args))
					for i, a := range ce.Args {
						parts[i] = src(fset, a)
					}
					arg = strings.Join(parts, ", ")
				}
				switch se.Sel.Name {
				case "EncodeString":
					if bl, ok := ce.Args[0].(*ast.BasicLit); ok && bl.Kind == token.STRING {
						v, _ := strconv.Unquote(bl.Value)
						ops = append(ops, keyOp{"lit", arg, v})
					} else if cid, ok := ce.Args[0].(*ast.Ident); ok {
						if v, isConst := consts[cid.Name]; isConst {
							ops = append(ops, keyOp{"lit", arg, v})
						} else {
							ops = append(ops, keyOp{"str", arg, ""})
						}
					} else {
						ops = append(ops, keyOp{"str", arg, ""})
					}
				case "EncodeUint64":
					ops = append(ops, keyOp{"u64", arg, ""})
				case "EncodeArray":
					ops = append(ops, keyOp{"arr", arg, ""})
				case "Serialize":
					ops = append(ops, keyOp{"ser", arg, ""})
				case "Bytes":
					ops = append(ops, keyOp{"bytes", "", ""})
				case "Reset":
					ops = append(ops, keyOp{"reset", "", ""})
				case "Key":
					ops = append(ops, keyOp{"key", "", ""})
				case "Write":
					// raw, unframed bytes (a previously built prefix)
					ops = append(ops, keyOp{"raw", arg, ""})
				case "Close":
					// pool bookkeeping only
				default:
					opErr = fmt.Errorf("%s:%s: builder operation %s is not known to the key model", rel, fd.Name.Name, se.Sel.Name)
				}
				return true
			})
			if opErr != nil {
				return nil, opErr
			}
			name := keysLowerFirst(fd.Name.Name)
			if len(decls) > 1 || fd.Name.Name == "checkDirectUsersetTuples" || fd.Name.Name == "checkTTU" || fd.Name.Name == "MemoizedTypesystemResolverFunc" {
				// inline sites: name them after their first literal
				lit := ""
				for _, o := range ops {
					if o.Kind == "lit" {
						lit = o.Lit
						break
					}
				}
				name = keysLowerFirst(fd.Name.Name) + "_" + lit
			}
			if strings.HasPrefix(rel, "internal/modelgraph/") {
				name = "modelgraph" + fd.Name.Name
			}
			sites = append(sites, keySite{Name: name, File: rel, Func: fd.Name.Name, Ops: ops})
		}
	}
	return sites, nil
}

// keysCountBuilderSites counts `keys.GetBuilder()` occurrences in non-test .go files (outside the keys package).
func keysCountBuilderSites(repo string) (int, []string, error) {
	total := 0
	var files []string
	for _, root := range []string{"pkg", "internal", "cmd"} {
		err := filepath.Walk(filepath.Join(repo, root), func(p string, info os.FileInfo, err error) error {
			if err != nil {
				return nil
			}
			if info.IsDir() {
				return nil
			}
			if !strings.HasSuffix(p, ".go") || strings.HasSuffix(p, "_test.go") {
				return nil
			}
			rel, _ := filepath.Rel(repo, p)
			if strings.HasPrefix(rel, "pkg/storage/cache/keys/") || strings.HasPrefix(rel, "pkg/storage/test/") {
				return nil
			}
			b, err := os.ReadFile(p)
			if err != nil {
				return nil
			}
			c := strings.Count(string(b), "keys.GetBuilder()")
			if strings.Contains(string(b), "keys.Builder") {
				c += strings.Count(string(b), "keys.Builder{") + strings.Count(string(b), "var kb keys.Builder")
			}
			if c > 0 {
				total += c
				files = append(files, fmt.Sprintf("%s:%d", rel, c))
			}
			return nil
		})
		if err != nil {
			return 0, nil, err
		}
	}
	sort.Strings(files)
	return total, files, nil
}

func keysLeanOps(ops []keyOp) string {
	parts := make([]string, len(ops))
	for i, o := range ops {
		parts[i] = "(" + leanStr(o.Kind) + ", " + leanStr(o.Expr) + ", " + leanBytes(o.Lit) + ")"
	}
	return "[" + strings.Join(parts, ", ") + "]"
}

func keysLeanPairs(names []string, m map[string][]string) string {
	parts := make([]string, len(names))
	for i, n := range names {
		parts[i] = "(" + leanStr(n) + ", " + leanStrList(m[n]) + ")"
	}
	return "[" + strings.Join(parts, ",\n   ") + "]"
}

func init() {
	register("Keys", func(repo string) (Result, error) {
		// ---- tags and Encode* bodies ---------------------------------------------------------
		fsetB, fB, err := parseFile(repo, "pkg/storage/cache/keys/build.go")
		if err != nil {
			return Result{}, err
		}
		tagNames, tagVals, err := keysEvalTags(fB)
		if err != nil {
			return Result{}, err
		}
		wantTags := []string{"tagNull", "tagByte", "tagBool", "tagUint64", "tagString", "tagBytes", "tagArray", "tagMap", "tagPair", "tagKey", "tagValue", "tagUnset"}
		tagOf := map[string]int{}
		for i, n := range tagNames {
			tagOf[n] = tagVals[i]
		}
		for _, n := range wantTags {
			if _, ok := tagOf[n]; !ok {
				return Result{}, fmt.Errorf("tag constant %s not found", n)
			}
		}
		encStmts := map[string][]string{}
		var encNames []string
		for _, d := range fB.Decls {
			fd, ok := d.(*ast.FuncDecl)
			if !ok || fd.Recv == nil || fd.Body == nil {
				continue
			}
			if findFunc(fB, "Builder", fd.Name.Name) != fd {
				continue
			}
			n := fd.Name.Name
			if strings.HasPrefix(n, "Encode") || n == "Serialize" || n == "Write" || n == "WriteByte" || n == "WriteString" || n == "Reset" || n == "Bytes" || n == "Key" {
				encStmts[n] = keysStmts(fsetB, fd.Body)
				encNames = append(encNames, n)
			}
		}
		sort.Strings(encNames)
		for _, n := range []string{"EncodeBytes", "EncodeByte", "EncodeNull", "EncodeUnset", "EncodeString", "EncodeBool", "EncodeUint64", "EncodeArray", "EncodeArrayHeader", "EncodeMap", "EncodeMapHeader", "EncodePair", "Serialize"} {
			if _, ok := encStmts[n]; !ok {
				return Result{}, fmt.Errorf("Builder.%s not found", n)
			}
		}
		// Key.Bytes must expose the data unchanged (harness observes keys through it)
		keyBytes := findFunc(fB, "Key", "Bytes")
		if keyBytes == nil {
			return Result{}, fmt.Errorf("Key.Bytes not found")
		}
		keyBytesStmts := keysStmts(fsetB, keyBytes.Body)

		// ---- types.go -------------------------------------------------------------------------
		fsetT, fT, err := parseFile(repo, "pkg/storage/cache/keys/types.go")
		if err != nil {
			return Result{}, err
		}
		typeStmts := map[string][]string{}
		var typeNames []string
		for _, d := range fT.Decls {
			fd, ok := d.(*ast.FuncDecl)
			if !ok || fd.Recv == nil || fd.Name.Name != "WriteTo" {
				continue
			}
			r := src(fsetT, fd.Recv.List[0].Type)
			typeStmts[r] = keysStmts(fsetT, fd.Body)
			typeNames = append(typeNames, r)
		}
		sort.Strings(typeNames)

		// ---- xtypes.go ------------------------------------------------------------------------
		fsetX, fX, err := parseFile(repo, "pkg/storage/cache/keys/xtypes.go")
		if err != nil {
			return Result{}, err
		}
		pw := findFunc(fX, "PbValue", "WriteTo")
		tw := findFunc(fX, "Tuple", "WriteTo")
		if pw == nil || tw == nil {
			return Result{}, fmt.Errorf("PbValue.WriteTo / Tuple.WriteTo not found")
		}
		var pbPrelude, pbLoopHead []string
		pbCases := map[string][]string{}
		var pbCaseNames []string
		var loop *ast.ForStmt
		for _, s := range pw.Body.List {
			if fs, ok := s.(*ast.ForStmt); ok {
				loop = fs
				pbPrelude = append(pbPrelude, "for "+src(fsetX, fs.Cond))
				continue
			}
			if ds, ok := s.(*ast.DeclStmt); ok {
				// `type frame struct{...}` and `var stack []frame` (doc comments dropped)
				if gd, ok := ds.Decl.(*ast.GenDecl); ok {
					gd.Doc = nil
				}
				pbPrelude = append(pbPrelude, src(fsetX, ds))
				continue
			}
			pbPrelude = append(pbPrelude, src(fsetX, s))
		}
		if loop == nil || loop.Init != nil || loop.Post != nil {
			return Result{}, fmt.Errorf("PbValue.WriteTo: expected a `for len(stack) > 0` loop")
		}
		var sw *ast.TypeSwitchStmt
		for _, s := range loop.Body.List {
			if ts, ok := s.(*ast.TypeSwitchStmt); ok {
				sw = ts
				pbLoopHead = append(pbLoopHead, "switch "+src(fsetX, ts.Assign))
				continue
			}
			if sw != nil {
				return Result{}, fmt.Errorf("PbValue.WriteTo: statements after the kind switch")
			}
			pbLoopHead = append(pbLoopHead, src(fsetX, s))
		}
		if sw == nil {
			return Result{}, fmt.Errorf("PbValue.WriteTo: kind switch not found")
		}
		for _, c := range sw.Body.List {
			cc := c.(*ast.CaseClause)
			var tn []string
			for _, e := range cc.List {
				tn = append(tn, src(fsetX, e))
			}
			name := strings.Join(tn, ",")
			if cc.List == nil {
				name = "default"
			}
			var st []string
			for _, s := range cc.Body {
				st = append(st, src(fsetX, s))
			}
			pbCases[name] = st
			pbCaseNames = append(pbCaseNames, name)
		}
		tupleStmts := keysStmts(fsetX, tw.Body)

		// ---- pkg/storage/keys.go helpers and the digest-suffixed keys -------------------------
		fsetK, fK, err := parseFile(repo, "pkg/storage/keys.go")
		if err != nil {
			return Result{}, err
		}
		helperStmts := map[string][]string{}
		var helperNames []string
		for _, n := range []string{"copyObjectRelations", "copyConditions", "copyRelationReferences", "ReadStartingWithUserKey", "ReadUsersetTuplesKey", "ReadKey"} {
			fd := findFunc(fK, "", n)
			if fd == nil {
				return Result{}, fmt.Errorf("pkg/storage/keys.go: %s not found", n)
			}
			helperStmts[n] = keysStmts(fsetK, fd.Body)
			helperNames = append(helperNames, n)
		}
		fsetC, fC, err := parseFile(repo, "pkg/storage/cache.go")
		if err != nil {
			return Result{}, err
		}
		inv := findFunc(fC, "", "InvariantCacheKey")
		if inv == nil {
			return Result{}, fmt.Errorf("InvariantCacheKey not found")
		}
		helperStmts["InvariantCacheKey"] = keysStmts(fsetC, inv.Body)
		helperNames = append(helperNames, "InvariantCacheKey")
		invSig := src(fsetC, inv.Type)

		fsetTu, fTu, err := parseFile(repo, "pkg/tuple/tuple.go")
		if err != nil {
			return Result{}, err
		}
		less := findFunc(fTu, "TupleKeys", "Less")
		torel := findFunc(fTu, "", "ToObjectRelationString")
		if less == nil || torel == nil {
			return Result{}, fmt.Errorf("TupleKeys.Less / ToObjectRelationString not found")
		}
		helperStmts["TupleKeys.Less"] = keysStmts(fsetTu, less.Body)
		helperNames = append(helperNames, "TupleKeys.Less")
		helperStmts["ToObjectRelationString"] = keysStmts(fsetTu, torel.Body)
		helperNames = append(helperNames, "ToObjectRelationString")

		fsetH, fH, err := parseFile(repo, "pkg/storage/cache/keys/hash.go")
		if err != nil {
			return Result{}, err
		}
		for _, n := range []string{"NewDigest", "Reset", "Write", "Sum64"} {
			recv := "Digest"
			if n == "NewDigest" {
				recv = ""
			}
			fd := findFunc(fH, recv, n)
			if fd == nil {
				return Result{}, fmt.Errorf("hash.go: %s not found", n)
			}
			helperStmts["Digest."+n] = keysStmts(fsetH, fd.Body)
			helperNames = append(helperNames, "Digest."+n)
		}

		fsetBC, fBC, err := parseFile(repo, "pkg/server/commands/batch_check_command.go")
		if err != nil {
			return Result{}, err
		}
		gck := findFunc(fBC, "", "generateCacheKeyFromCheck")
		if gck == nil {
			return Result{}, fmt.Errorf("generateCacheKeyFromCheck not found")
		}
		helperStmts["generateCacheKeyFromCheck"] = keysStmts(fsetBC, gck.Body)
		helperNames = append(helperNames, "generateCacheKeyFromCheck")

		// ---- every builder site -----------------------------------------------------------------
		siteFiles := []string{
			"pkg/storage/cache.go", "pkg/storage/keys.go",
			"internal/check/check.go", "internal/check/strategies.go", "internal/check/request.go",
			"internal/graph/check.go", "internal/modelgraph/resolver.go",
			"pkg/storage/storagewrappers/model_caching.go", "pkg/typesystem/resolver.go",
		}
		var sites []keySite
		for _, rel := range siteFiles {
			consts := keysConstsOfDir(repo, filepath.Dir(rel))
			ss, err := keysSitesOfFile(repo, rel, consts)
			if err != nil {
				return Result{}, err
			}
			sites = append(sites, ss...)
		}
		total, countedFiles, err := keysCountBuilderSites(repo)
		if err != nil {
			return Result{}, err
		}
		if total != len(sites) {
			return Result{}, fmt.Errorf("found %d keys.GetBuilder()/keys.Builder sites in non-test code (%s) but only %d are extracted: a key function is not covered", total, strings.Join(countedFiles, " "), len(sites))
		}
		seen := map[string]bool{}
		for _, s := range sites {
			if seen[s.Name] {
				return Result{}, fmt.Errorf("duplicate key site name %s", s.Name)
			}
			seen[s.Name] = true
		}

		// store operand of each site: the first str operand whose expression names the store
		storeExprs := map[string]bool{"storeID": true, "store": true, "req.GetStoreID()": true}
		var storeArg [][2]string
		for _, s := range sites {
			arg := ""
			for _, o := range s.Ops {
				if o.Kind == "str" && storeExprs[o.Expr] {
					arg = o.Expr
					break
				}
			}
			storeArg = append(storeArg, [2]string{s.Name, arg})
		}

		// ---- emit ---------------------------------------------------------------------------------
		var sb strings.Builder
		sb.WriteString(genHeader)
		sb.WriteString("namespace OpenFGAVerif.Gen.Keys\n\n")
		sb.WriteString("/-! tag constants of pkg/storage/cache/keys/build.go (evaluated) -/\n")
		for _, n := range wantTags {
			sb.WriteString(fmt.Sprintf("def %s : UInt8 := %d\n", n, tagOf[n]))
		}
		var tt []string
		for i, n := range tagNames {
			tt = append(tt, fmt.Sprintf("(%s, %d)", leanStr(n), tagVals[i]))
		}
		sb.WriteString("/-- the whole const block, in source order -/\n")
		sb.WriteString("def tagTable : List (String × Nat) := [" + strings.Join(tt, ", ") + "]\n\n")
		sb.WriteString("/-- statements of the Builder methods (capacity hints removed) -/\n")
		sb.WriteString("def encodeStmts : List (String × List String) :=\n  " + keysLeanPairs(encNames, encStmts) + "\n\n")
		sb.WriteString("def keyBytesStmts : List String := " + leanStrList(keyBytesStmts) + "\n\n")
		sb.WriteString("/-- WriteTo of the wrapper types in types.go -/\n")
		sb.WriteString("def typeWriteTo : List (String × List String) :=\n  " + keysLeanPairs(typeNames, typeStmts) + "\n\n")
		sb.WriteString("/-- PbValue.WriteTo: statements outside the loop (the loop is rendered as its condition) -/\n")
		sb.WriteString("def pbPrelude : List String := " + leanStrList(pbPrelude) + "\n")
		sb.WriteString("/-- PbValue.WriteTo: loop body up to and including the switch head -/\n")
		sb.WriteString("def pbLoopHead : List String := " + leanStrList(pbLoopHead) + "\n")
		sb.WriteString("/-- PbValue.WriteTo: kind -> statements -/\n")
		sb.WriteString("def pbCases : List (String × List String) :=\n  " + keysLeanPairs(pbCaseNames, pbCases) + "\n\n")
		sb.WriteString("def tupleWriteTo : List String := " + leanStrList(tupleStmts) + "\n\n")
		sb.WriteString("/-- helper and composite functions whose logic is modelled by hand, pinned statement by statement -/\n")
		sb.WriteString("def helperStmts : List (String × List String) :=\n  " + keysLeanPairs(helperNames, helperStmts) + "\n\n")
		sb.WriteString("def invariantSignature : String := " + leanStr(invSig) + "\n\n")
		sb.WriteString("/-! builder operations of every key site: (kind, argument expression, literal bytes) -/\n")
		for _, s := range sites {
			sb.WriteString(fmt.Sprintf("/-- %s: %s -/\n", s.File, s.Func))
			sb.WriteString("def " + s.Name + "Ops : List (String × String × List UInt8) :=\n  " + keysLeanOps(s.Ops) + "\n")
		}
		var names []string
		for _, s := range sites {
			names = append(names, "("+leanStr(s.Name)+", "+s.Name+"Ops)")
		}
		sb.WriteString("\n/-- every `keys.GetBuilder()` site of the non-test code -/\n")
		sb.WriteString("def keySites : List (String × List (String × String × List UInt8)) :=\n  [" + strings.Join(names, ",\n   ") + "]\n")
		sb.WriteString(fmt.Sprintf("def builderSiteCount : Nat := %d\n", total))
		var sa []string
		for _, p := range storeArg {
			sa = append(sa, "("+leanStr(p[0])+", "+leanStr(p[1])+")")
		}
		sb.WriteString("/-- site -> the operand that is the store id (\"\" = none) -/\n")
		sb.WriteString("def storeArg : List (String × String) := [" + strings.Join(sa, ", ") + "]\n")
		sb.WriteString("\nend OpenFGAVerif.Gen.Keys\n")

		siteSummary := map[string][]string{}
		for _, s := range sites {
			var l []string
			for _, o := range s.Ops {
				if o.Kind == "lit" {
					l = append(l, "lit:"+o.Lit)
				} else {
					l = append(l, o.Kind+":"+o.Expr)
				}
			}
			siteSummary[s.Name] = l
		}
		return Result{Lean: sb.String(), Summary: map[string]interface{}{
			"tags": tagOf, "sites": siteSummary, "builderSiteCount": total, "siteFiles": countedFiles,
			"pbCases": pbCaseNames,
		}}, nil
	})
}
