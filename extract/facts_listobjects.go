package main

import (
	"fmt"
	"go/ast"
	"go/token"
	"sort"
	"strings"
)

// ListObjects: the decision points of the classic ListObjects engine that the Lean model
// (Model/RevExpand.lean) mirrors — the edge-kind switch of getRelationshipEdgesWithTargetRewrite and
// what the pruned mode does at intersection / exclusion, the order of tests in execute,
// trySendCandidate and trySendObject (comparison operators included), which result status is sent
// without a Check, the loop of readTuplesAndExecute, the final error rule of Execute and the guards
// that select the engine.
func init() {
	register("ListObjects", func(repo string) (Result, error) {
		b := func(x bool) string {
			if x {
				return "true"
			}
			return "false"
		}
		// ---- internal/graph/graph.go ----
		fsetG, fG, err := parseFile(repo, "internal/graph/graph.go")
		if err != nil {
			return Result{}, err
		}
		gre := findFunc(fG, "RelationshipGraph", "getRelationshipEdgesWithTargetRewrite")
		if gre == nil {
			return Result{}, fmt.Errorf("getRelationshipEdgesWithTargetRewrite not found")
		}
		var sw *ast.TypeSwitchStmt
		ast.Inspect(gre.Body, func(n ast.Node) bool {
			if s, ok := n.(*ast.TypeSwitchStmt); ok && sw == nil {
				sw = s
				return false
			}
			return true
		})
		if sw == nil {
			return Result{}, fmt.Errorf("type switch over the rewrite not found")
		}
		var cases []string
		clauseOf := map[string]*ast.CaseClause{}
		for _, st := range sw.Body.List {
			cc := st.(*ast.CaseClause)
			if len(cc.List) == 0 {
				continue // default
			}
			name := src(fsetG, cc.List[0])
			name = strings.TrimPrefix(name, "*openfgav1.")
			cases = append(cases, name)
			clauseOf[name] = cc
		}
		prunedInfo := func(name string) (child string, flagsAll bool, err error) {
			cc := clauseOf[name]
			if cc == nil {
				return "", false, fmt.Errorf("case %s not found", name)
			}
			for _, st := range cc.Body {
				is, ok := st.(*ast.IfStmt)
				if !ok || src(fsetG, is.Cond) != "findEdgeOption == resolveAnyEdge" {
					continue
				}
				for _, s2 := range is.Body.List {
					if as, ok := s2.(*ast.AssignStmt); ok && len(as.Lhs) == 1 && src(fsetG, as.Lhs[0]) == "child" {
						child = src(fsetG, as.Rhs[0])
					}
					if rs, ok := s2.(*ast.RangeStmt); ok && src(fsetG, rs.X) == "childresults" {
						body := src(fsetG, rs.Body)
						if strings.Contains(body, "childresult.TargetReferenceInvolvesIntersectionOrExclusion = true") {
							flagsAll = true
						}
					}
				}
				if child == "" {
					return "", false, fmt.Errorf("case %s: pruned child not found", name)
				}
				return child, flagsAll, nil
			}
			return "", false, fmt.Errorf("case %s: resolveAnyEdge branch not found", name)
		}
		interChild, interFlags, err := prunedInfo("Userset_Intersection")
		if err != nil {
			return Result{}, err
		}
		diffChild, diffFlags, err := prunedInfo("Userset_Difference")
		if err != nil {
			return Result{}, err
		}
		directGuard := ""
		if cc := clauseOf["Userset_This"]; cc != nil {
			for _, st := range cc.Body {
				if is, ok := st.(*ast.IfStmt); ok && strings.Contains(src(fsetG, is.Body), "DirectEdge") {
					directGuard = src(fsetG, is.Cond)
				}
			}
		}
		if directGuard == "" {
			return Result{}, fmt.Errorf("guard of the direct edge not found")
		}

		// ---- reverse_expand.go ----
		fsetR, fR, err := parseFile(repo, "pkg/server/commands/reverseexpand/reverse_expand.go")
		if err != nil {
			return Result{}, err
		}
		tsc := findFunc(fR, "ReverseExpandQuery", "trySendCandidate")
		if tsc == nil {
			return Result{}, fmt.Errorf("trySendCandidate not found")
		}
		var tscSteps []string
		for _, st := range tsc.Body.List {
			is, ok := st.(*ast.IfStmt)
			if !ok {
				continue
			}
			head := src(fsetR, is.Cond)
			if is.Init != nil {
				head = src(fsetR, is.Init) + "; " + head
			}
			tscSteps = append(tscSteps, "if:"+head)
			for _, s2 := range is.Body.List {
				switch x := s2.(type) {
				case *ast.AssignStmt:
					if strings.Contains(src(fsetR, x), "resultStatus") {
						tscSteps = append(tscSteps, "assign:"+src(fsetR, x))
					}
				case *ast.IfStmt:
					if strings.Contains(src(fsetR, x.Body), "resultStatus") {
						tscSteps = append(tscSteps, "if:"+src(fsetR, x.Cond))
						for _, s3 := range x.Body.List {
							if as, ok := s3.(*ast.AssignStmt); ok && strings.Contains(src(fsetR, as), "resultStatus") {
								tscSteps = append(tscSteps, "assign:"+src(fsetR, as))
							}
						}
					}
				}
			}
		}
		if len(tscSteps) == 0 {
			return Result{}, fmt.Errorf("trySendCandidate: steps not recognised")
		}
		ex := findFunc(fR, "ReverseExpandQuery", "execute")
		if ex == nil {
			return Result{}, fmt.Errorf("execute not found")
		}
		type pos struct {
			p    token.Pos
			name string
		}
		var marks []pos
		visitedKey := ""
		weightedGuard := ""
		ast.Inspect(ex.Body, func(n ast.Node) bool {
			switch x := n.(type) {
			case *ast.IfStmt:
				c := src(fsetR, x.Cond)
				if c == "depth >= c.resolveNodeLimit" || strings.HasPrefix(c, "depth ") && strings.Contains(c, "c.resolveNodeLimit") {
					marks = append(marks, pos{x.Pos(), c})
				}
				if strings.Contains(c, "c.optimizationsEnabled") {
					weightedGuard = c
				}
			case *ast.CallExpr:
				f := src(fsetR, x.Fun)
				switch {
				case f == "c.visitedUsersetsMap.LoadOrStore":
					marks = append(marks, pos{x.Pos(), "visitedUsersetsMap.LoadOrStore"})
				case f == "c.trySendCandidate":
					marks = append(marks, pos{x.Pos(), "trySendCandidate"})
				case f == "g.GetPrunedRelationshipEdges":
					marks = append(marks, pos{x.Pos(), "GetPrunedRelationshipEdges"})
				case f == "fmt.Sprintf" && visitedKey == "":
					var args []string
					for _, a := range x.Args {
						args = append(args, src(fsetR, a))
					}
					visitedKey = strings.Join(args, ", ")
				}
			}
			return true
		})
		flagAccum := ""
		ast.Inspect(ex.Body, func(n ast.Node) bool {
			if as, ok := n.(*ast.AssignStmt); ok && len(as.Lhs) == 1 && len(as.Rhs) == 1 &&
				src(fsetR, as.Lhs[0]) == "intersectionOrExclusionInPreviousEdges" && flagAccum == "" {
				flagAccum = src(fsetR, as.Rhs[0])
			}
			return true
		})
		if flagAccum == "" {
			return Result{}, fmt.Errorf("execute: accumulation of the intersection/exclusion flag not found")
		}
		sort.Slice(marks, func(i, j int) bool { return marks[i].p < marks[j].p })
		var execOrder []string
		for _, m := range marks {
			execOrder = append(execOrder, m.name)
		}
		if len(execOrder) < 4 || visitedKey == "" || weightedGuard == "" {
			return Result{}, fmt.Errorf("execute: expected depth test, visited map, trySendCandidate and edge computation (found %v)", execOrder)
		}
		rte := findFunc(fR, "ReverseExpandQuery", "readTuplesAndExecute")
		if rte == nil {
			return Result{}, fmt.Errorf("readTuplesAndExecute not found")
		}
		var readConds []string
		ast.Inspect(rte.Body, func(n ast.Node) bool {
			ls, ok := n.(*ast.LabeledStmt)
			if !ok || ls.Label.Name != "LoopOnIterator" {
				return true
			}
			fs, ok := ls.Stmt.(*ast.ForStmt)
			if !ok {
				return true
			}
			ast.Inspect(fs.Body, func(m ast.Node) bool {
				if _, ok := m.(*ast.FuncLit); ok {
					return false
				}
				if is, ok := m.(*ast.IfStmt); ok {
					readConds = append(readConds, src(fsetR, is.Cond))
				}
				return true
			})
			return false
		})
		if len(readConds) == 0 {
			return Result{}, fmt.Errorf("readTuplesAndExecute: loop LoopOnIterator not found")
		}

		// ---- reverse_expand_weighted.go: who traverses the base when the exclusion has no excluded edge ----
		fsetW, fW, err := parseFile(repo, "pkg/server/commands/reverseexpand/reverse_expand_weighted.go")
		if err != nil {
			return Result{}, err
		}
		exh := findFunc(fW, "ReverseExpandQuery", "exclusionHandler")
		if exh == nil {
			return Result{}, fmt.Errorf("exclusionHandler not found")
		}
		noExcludedCall, noExcludedChan := "", ""
		ast.Inspect(exh.Body, func(n ast.Node) bool {
			is, ok := n.(*ast.IfStmt)
			if !ok || src(fsetW, is.Cond) != "edges.ExcludedEdge == nil" {
				return true
			}
			for _, st := range is.Body.List {
				rs, ok := st.(*ast.ReturnStmt)
				if !ok || len(rs.Results) != 1 {
					continue
				}
				if ce, ok := rs.Results[0].(*ast.CallExpr); ok && strings.HasSuffix(src(fsetW, ce.Fun), "loopOverEdges") {
					noExcludedCall = src(fsetW, ce.Fun)
					if len(ce.Args) >= 6 {
						noExcludedChan = src(fsetW, ce.Args[5])
					}
				}
			}
			return false
		})
		if noExcludedCall == "" || noExcludedChan == "" {
			return Result{}, fmt.Errorf("exclusionHandler: traversal of the base without excluded edge not found")
		}

		// executeQueryJob: is the read skipped when buildUserFilter yields an empty filter (typed-wildcard subject)?
		eqj := findFunc(fW, "ReverseExpandQuery", "executeQueryJob")
		if eqj == nil {
			return Result{}, fmt.Errorf("executeQueryJob not found")
		}
		skipsEmptyFilter := false
		for _, st := range eqj.Body.List {
			if is, ok := st.(*ast.IfStmt); ok && src(fsetW, is.Cond) == "len(userFilter) == 0" &&
				strings.Contains(src(fsetW, is.Body), "return nil, nil") {
				skipsEmptyFilter = true
			}
		}

		// ---- list_objects.go ----
		fsetL, fL, err := parseFile(repo, "pkg/server/commands/list_objects.go")
		if err != nil {
			return Result{}, err
		}
		tso := findFunc(fL, "", "trySendObject")
		if tso == nil {
			return Result{}, fmt.Errorf("trySendObject not found")
		}
		var tsoConds []string
		ast.Inspect(tso.Body, func(n ast.Node) bool {
			if is, ok := n.(*ast.IfStmt); ok {
				tsoConds = append(tsoConds, src(fsetL, is.Cond))
			}
			return true
		})
		sendsAfter := false
		if n := len(tso.Body.List); n >= 2 {
			_, firstIsIf := tso.Body.List[0].(*ast.IfStmt)
			sendsAfter = firstIsIf && strings.Contains(src(fsetL, tso.Body.List[n-1]), "TrySendThroughChannel")
		}
		ev := findFunc(fL, "ListObjectsQuery", "evaluate")
		if ev == nil {
			return Result{}, fmt.Errorf("evaluate not found")
		}
		var recvConds, checkConds []string
		ast.Inspect(ev.Body, func(n ast.Node) bool {
			cc, ok := n.(*ast.CommClause)
			if !ok || cc.Comm == nil || !strings.Contains(src(fsetL, cc.Comm), "<-reverseExpandResultsChan") {
				return true
			}
			for _, st := range cc.Body {
				switch x := st.(type) {
				case *ast.IfStmt:
					recvConds = append(recvConds, src(fsetL, x.Cond))
				case *ast.ExprStmt:
					if strings.HasPrefix(src(fsetL, x), "pool.Go(") {
						ast.Inspect(x, func(m ast.Node) bool {
							if is, ok := m.(*ast.IfStmt); ok {
								checkConds = append(checkConds, src(fsetL, is.Cond))
							}
							return true
						})
					}
				}
			}
			return false
		})
		if len(recvConds) == 0 || len(checkConds) == 0 {
			return Result{}, fmt.Errorf("evaluate: consumer loop not recognised")
		}
		exe := findFunc(fL, "ListObjectsQuery", "Execute")
		if exe == nil {
			return Result{}, fmt.Errorf("Execute not found")
		}
		finalRule, pipelineGuard := "", ""
		ast.Inspect(exe.Body, func(n ast.Node) bool {
			if is, ok := n.(*ast.IfStmt); ok {
				c := src(fsetL, is.Cond)
				if strings.Contains(c, "errs != nil") && strings.Contains(c, "maxResults") {
					finalRule = c
				}
				if strings.Contains(c, "q.pipelineEnabled") {
					pipelineGuard = c
				}
			}
			return true
		})
		if finalRule == "" || pipelineGuard == "" {
			return Result{}, fmt.Errorf("Execute: final error rule / pipeline guard not found")
		}
		// ---- flags ----
		_, fC, err := parseFile(repo, "pkg/server/config/config.go")
		if err != nil {
			return Result{}, err
		}
		consts := stringConsts(fC)
		flagOpt, ok1 := consts["ExperimentalListObjectsOptimizations"]
		flagPipe, ok2 := consts["ExperimentalPipelineListObjects"]
		if !ok1 || !ok2 {
			return Result{}, fmt.Errorf("experimental flag constants not found")
		}

		// ---- worker.Intersection.Execute: the scan that picks the smallest bag and lists the others ----
		fsetI, fI, err := parseFile(repo, "internal/listobjects/pipeline/internal/worker/intersection.go")
		if err != nil {
			return Result{}, err
		}
		iex := findFunc(fI, "Intersection", "Execute")
		if iex == nil {
			return Result{}, fmt.Errorf("worker.Intersection.Execute not found")
		}
		var interInit, interBody, interFilter []string
		interHeader, interOutput, interNewMinPush, interElsePush, interCompare := "", "", "", "", ""
		var interNewMinUpdates []string
		flat := func(fset *token.FileSet, list []ast.Stmt) []string { // statements of a block, if/else flattened one level
			var out []string
			var walk func(list []ast.Stmt)
			walk = func(list []ast.Stmt) {
				for _, st := range list {
					switch x := st.(type) {
					case *ast.IfStmt:
						head := src(fset, x.Cond)
						if x.Init != nil {
							head = src(fset, x.Init) + "; " + head
						}
						out = append(out, "if "+head)
						walk(x.Body.List)
						if x.Else != nil {
							out = append(out, "else")
							if eb, ok := x.Else.(*ast.BlockStmt); ok {
								walk(eb.List)
							} else {
								walk([]ast.Stmt{x.Else})
							}
						}
						out = append(out, "end")
					case *ast.RangeStmt:
						out = append(out, "range "+src(fset, x.X))
						walk(x.Body.List)
						out = append(out, "end")
					default:
						out = append(out, src(fset, st))
					}
				}
			}
			walk(list)
			return out
		}
		appendArg := func(fset *token.FileSet, st ast.Stmt) string { // `inputs = append(inputs, X)` -> X
			as, ok := st.(*ast.AssignStmt)
			if !ok || len(as.Lhs) != 1 || len(as.Rhs) != 1 || src(fset, as.Lhs[0]) != "inputs" {
				return ""
			}
			ce, ok := as.Rhs[0].(*ast.CallExpr)
			if !ok || src(fset, ce.Fun) != "append" || len(ce.Args) != 2 || src(fset, ce.Args[0]) != "inputs" {
				return ""
			}
			return src(fset, ce.Args[1])
		}
		for k, st := range iex.Body.List {
			fs, ok := st.(*ast.ForStmt)
			if !ok || fs.Init == nil || fs.Cond == nil || fs.Post == nil || !strings.Contains(src(fsetI, fs.Cond), "len(w.bags)") {
				if ls, ok := st.(*ast.LabeledStmt); ok && ls.Label.Name == "OutputLoop" {
					interFilter = flat(fsetI, []ast.Stmt{ls.Stmt})
				}
				if as, ok := st.(*ast.AssignStmt); ok && len(as.Lhs) == 1 && src(fsetI, as.Lhs[0]) == "output" {
					interOutput = src(fsetI, as)
				}
				continue
			}
			if _, isRange := st.(*ast.RangeStmt); isRange {
				continue
			}
			interHeader = src(fsetI, fs.Init) + "; " + src(fsetI, fs.Cond) + "; " + src(fsetI, fs.Post)
			for _, prev := range iex.Body.List[:k] {
				if as, ok := prev.(*ast.AssignStmt); ok && len(as.Lhs) == 1 {
					if n := src(fsetI, as.Lhs[0]); n == "objMin" || n == "indexMin" {
						interInit = append(interInit, src(fsetI, as))
					}
				}
			}
			interBody = flat(fsetI, fs.Body.List)
			for _, b := range fs.Body.List {
				is, ok := b.(*ast.IfStmt)
				if !ok {
					continue
				}
				interCompare = src(fsetI, is.Cond)
				for _, t := range is.Body.List {
					if a := appendArg(fsetI, t); a != "" {
						interNewMinPush = a
					} else {
						interNewMinUpdates = append(interNewMinUpdates, src(fsetI, t))
					}
				}
				if eb, ok := is.Else.(*ast.BlockStmt); ok && len(eb.List) == 1 {
					interElsePush = appendArg(fsetI, eb.List[0])
				}
			}
		}
		if interHeader == "" || interNewMinPush == "" || interElsePush == "" || interOutput == "" || len(interFilter) == 0 {
			return Result{}, fmt.Errorf("worker.Intersection.Execute: scan over w.bags / output loop not recognised")
		}
		var interCancelConds []string
		ast.Inspect(iex.Body, func(n ast.Node) bool {
			if is, ok := n.(*ast.IfStmt); ok && len(is.Body.List) == 1 {
				if b := src(fsetI, is.Body.List[0]); b == "cancel()" || b == "return" {
					interCancelConds = append(interCancelConds, src(fsetI, is.Cond)+" => "+b)
				}
			}
			return true
		})

		// ---- loopOverEdges: which errors of the residual-check pool are elided ----
		loe := findFunc(fW, "ReverseExpandQuery", "loopOverEdges")
		if loe == nil {
			return Result{}, fmt.Errorf("loopOverEdges not found")
		}
		elideScope, elideReturnsNil, elideFound := "", false, false
		var elideDisjuncts []string
		var splitOr func(e ast.Expr) []string
		splitOr = func(e ast.Expr) []string {
			if p, ok := e.(*ast.ParenExpr); ok {
				return splitOr(p.X)
			}
			if be, ok := e.(*ast.BinaryExpr); ok && be.Op == token.LOR {
				return append(splitOr(be.X), splitOr(be.Y)...)
			}
			return []string{src(fsetW, e)}
		}
		var loeTail []string // everything from `err := pool.Wait()` to the end of the function, flattened
		for k, st := range loe.Body.List {
			as, ok := st.(*ast.AssignStmt)
			if !ok || len(as.Rhs) != 1 || src(fsetW, as.Rhs[0]) != "pool.Wait()" {
				continue
			}
			loeTail = flat(fsetW, loe.Body.List[k:])
			for _, st2 := range loe.Body.List[k+1:] {
				outer, ok := st2.(*ast.IfStmt)
				if !ok || src(fsetW, outer.Cond) != "err != nil" {
					continue
				}
				for _, st3 := range outer.Body.List {
					is, ok := st3.(*ast.IfStmt)
					if !ok || !strings.Contains(src(fsetW, is.Cond), "errors.As(") {
						continue
					}
					elideScope = src(fsetW, is.Cond)
					elideFound = true
					for _, st4 := range is.Body.List {
						switch x := st4.(type) {
						case *ast.ReturnStmt:
							if len(x.Results) == 1 && src(fsetW, x.Results[0]) == "nil" {
								elideReturnsNil = true // unconditional
								elideDisjuncts = nil
							}
						case *ast.IfStmt:
							if len(x.Body.List) == 1 && src(fsetW, x.Body.List[0]) == "return nil" && !elideReturnsNil {
								elideReturnsNil = true
								elideDisjuncts = splitOr(x.Cond)
							}
						}
					}
				}
			}
		}
		if len(loeTail) == 0 {
			return Result{}, fmt.Errorf("loopOverEdges: `err := pool.Wait()` not found")
		}
		_ = elideFound
		// the analogous filters of the classic path (evaluate) and of the pipeline branch (Execute / ExecuteStreamed)
		var evaluateReportGuards, pipelineReportGuards []string
		ast.Inspect(ev.Body, func(n ast.Node) bool {
			if is, ok := n.(*ast.IfStmt); ok && strings.Contains(src(fsetL, is.Body), "resultsChan <- ListObjectsResult{Err: err}") &&
				strings.Contains(src(fsetL, is.Cond), "errors.Is") {
				evaluateReportGuards = append(evaluateReportGuards, src(fsetL, is.Cond))
			}
			return true
		})
		exs := findFunc(fL, "ListObjectsQuery", "ExecuteStreamed")
		if exs == nil {
			return Result{}, fmt.Errorf("ExecuteStreamed not found")
		}
		storeOpts := func(fd *ast.FuncDecl) []string {
			var out []string
			ast.Inspect(fd.Body, func(n ast.Node) bool {
				if ce, ok := n.(*ast.CallExpr); ok && src(fsetL, ce.Fun) == "pipeline.NewValidatingStore" {
					for _, a := range ce.Args {
						out = append(out, src(fsetL, a))
					}
				}
				return true
			})
			return out
		}
		for _, fd := range []*ast.FuncDecl{exe, exs} {
			ast.Inspect(fd.Body, func(n ast.Node) bool {
				if is, ok := n.(*ast.IfStmt); ok && is.Init != nil && strings.Contains(src(fsetL, is.Init), "p.Err()") {
					for _, st := range is.Body.List {
						if in, ok := st.(*ast.IfStmt); ok {
							pipelineReportGuards = append(pipelineReportGuards, src(fsetL, in.Cond))
						}
					}
				}
				return true
			})
		}
		ast.Inspect(exs.Body, func(n ast.Node) bool {
			if is, ok := n.(*ast.IfStmt); ok && strings.HasPrefix(src(fsetL, is.Cond), "errRx != nil &&") {
				pipelineReportGuards = append(pipelineReportGuards, src(fsetL, is.Cond))
			}
			return true
		})
		storeOptsUnary, storeOptsStreamed := storeOpts(exe), storeOpts(exs)
		if len(storeOptsUnary) == 0 || len(storeOptsStreamed) == 0 {
			return Result{}, fmt.Errorf("pipeline.NewValidatingStore not found in Execute / ExecuteStreamed")
		}
		var evaluateConsistency []string
		ast.Inspect(ev.Body, func(n ast.Node) bool {
			if cl, ok := n.(*ast.CompositeLit); ok && cl.Type != nil {
				for _, el := range cl.Elts {
					if kv, ok := el.(*ast.KeyValueExpr); ok && src(fsetL, kv.Key) == "Consistency" {
						evaluateConsistency = append(evaluateConsistency, src(fsetL, cl.Type)+".Consistency = "+src(fsetL, kv.Value))
					}
				}
			}
			return true
		})

		var sb strings.Builder
		sb.WriteString(genHeader)
		sb.WriteString("namespace OpenFGAVerif.Gen.ListObjects\n\n")
		sb.WriteString("/-- cases of the type switch of getRelationshipEdgesWithTargetRewrite, source order -/\n")
		sb.WriteString("def edgeSwitchCases : List String := " + leanStrList(cases) + "\n")
		sb.WriteString("def intersectionPrunedChild : String := " + leanStr(interChild) + "\n")
		sb.WriteString("def differencePrunedChild : String := " + leanStr(diffChild) + "\n")
		sb.WriteString("def prunedFlagsAllChildResults : Bool := " + b(interFlags && diffFlags) + "\n")
		sb.WriteString("def directEdgeGuard : String := " + leanStr(directGuard) + "\n")
		sb.WriteString("def trySendCandidateSteps : List String := " + leanStrList(tscSteps) + "\n")
		sb.WriteString("def trySendObjectConds : List String := " + leanStrList(tsoConds) + "\n")
		sb.WriteString("def trySendObjectSendsAfterCount : Bool := " + b(sendsAfter) + "\n")
		sb.WriteString("def consumerRecvConds : List String := " + leanStrList(recvConds) + "\n")
		sb.WriteString("def checkGoroutineConds : List String := " + leanStrList(checkConds) + "\n")
		sb.WriteString("def finalErrorRule : String := " + leanStr(finalRule) + "\n")
		sb.WriteString("/-- the rule also fires for maxResults == 0 (\"no limit\") -/\n")
		sb.WriteString("def zeroLimitReportsErrors : Bool := " + b(strings.Contains(finalRule, "maxResults == 0 ||")) + "\n")
		sb.WriteString("def executeOrder : List String := " + leanStrList(execOrder) + "\n")
		sb.WriteString("def visitedKeyFormat : String := " + leanStr(visitedKey) + "\n")
		sb.WriteString("/-- how the flag of the edge taken is combined with the flag accumulated so far -/\n")
		sb.WriteString("def flagAccumulation : String := " + leanStr(flagAccum) + "\n")
		sb.WriteString("def readTuplesLoopConds : List String := " + leanStrList(readConds) + "\n")
		sb.WriteString("def pipelineGuard : String := " + leanStr(pipelineGuard) + "\n")
		sb.WriteString("def weightedGuard : String := " + leanStr(weightedGuard) + "\n")
		sb.WriteString("/-- weighted engine, exclusion without excluded edge: the traversal that sends to this channel … -/\n")
		sb.WriteString("def exclusionNoExcludedEdgeChan : String := " + leanStr(noExcludedChan) + "\n")
		sb.WriteString("/-- … is run by this receiver (a shallow clone has a fresh candidateObjectsMap) -/\n")
		sb.WriteString("def exclusionNoExcludedEdgeCall : String := " + leanStr(noExcludedCall) + "\n")
		sb.WriteString("/-- weighted engine: executeQueryJob issues no read for an empty user filter (fix of finding L6) -/\n")
		sb.WriteString("def weightedSkipsEmptyUserFilter : Bool := " + b(skipsEmptyFilter) + "\n")
		sb.WriteString("def flagOptimizations : String := " + leanStr(flagOpt) + "\n")
		sb.WriteString("def flagPipeline : String := " + leanStr(flagPipe) + "\n")
		sb.WriteString("\n/-- worker.Intersection.Execute (streaming pipeline): the scan over `w.bags` that selects the smallest bag -/\n")
		sb.WriteString("def interScanInit : List String := " + leanStrList(interInit) + "\n")
		sb.WriteString("def interScanHeader : String := " + leanStr(interHeader) + "\n")
		sb.WriteString("def interScanBody : List String := " + leanStrList(interBody) + "\n")
		sb.WriteString("def interCompare : String := " + leanStr(interCompare) + "\n")
		sb.WriteString("/-- what is appended to `inputs` when a new smallest bag is found / otherwise -/\n")
		sb.WriteString("def interNewMinPush : String := " + leanStr(interNewMinPush) + "\n")
		sb.WriteString("def interElsePush : String := " + leanStr(interElsePush) + "\n")
		sb.WriteString("def interNewMinUpdates : List String := " + leanStrList(interNewMinUpdates) + "\n")
		sb.WriteString("def interOutput : String := " + leanStr(interOutput) + "\n")
		sb.WriteString("def interFilterLoop : List String := " + leanStrList(interFilter) + "\n")
		sb.WriteString("def interCancelConds : List String := " + leanStrList(interCancelConds) + "\n")
		sb.WriteString("\n/-- loopOverEdges (weighted engine) after `err := pool.Wait()`: flattened statements, and the guard of `return nil` -/\n")
		sb.WriteString("def weightedWaitTail : List String := " + leanStrList(loeTail) + "\n")
		sb.WriteString("def weightedElideScope : String := " + leanStr(elideScope) + "\n")
		sb.WriteString("/-- some error of the pool is turned into `nil` … -/\n")
		sb.WriteString("def weightedElideReturnsNil : Bool := " + b(elideReturnsNil) + "\n")
		sb.WriteString("/-- … when one of these holds (empty = unconditionally) -/\n")
		sb.WriteString("def weightedElideDisjuncts : List String := " + leanStrList(elideDisjuncts) + "\n")
		sb.WriteString("/-- evaluate: the pool error is put on the result channel when … -/\n")
		sb.WriteString("def evaluateReportGuards : List String := " + leanStrList(evaluateReportGuards) + "\n")
		sb.WriteString("/-- Execute / ExecuteStreamed, pipeline branch: p.Err() is returned when … -/\n")
		sb.WriteString("def pipelineReportGuards : List String := " + leanStrList(pipelineReportGuards) + "\n")
		sb.WriteString("\n/-- arguments of pipeline.NewValidatingStore in Execute / ExecuteStreamed -/\n")
		sb.WriteString("def pipelineStoreArgsUnary : List String := " + leanStrList(storeOptsUnary) + "\n")
		sb.WriteString("def pipelineStoreArgsStreamed : List String := " + leanStrList(storeOptsStreamed) + "\n")
		sb.WriteString("/-- evaluate (classic / weighted engine): the literals that carry the consistency preference -/\n")
		sb.WriteString("def evaluateConsistency : List String := " + leanStrList(evaluateConsistency) + "\n")
		sb.WriteString("\nend OpenFGAVerif.Gen.ListObjects\n")
		return Result{Lean: sb.String(), Summary: map[string]interface{}{
			"edgeSwitchCases": cases, "intersectionPrunedChild": interChild, "differencePrunedChild": diffChild,
			"directEdgeGuard": directGuard, "trySendCandidate": tscSteps, "trySendObject": tsoConds,
			"consumerRecv": recvConds, "checkGoroutine": checkConds, "finalErrorRule": finalRule,
			"executeOrder": execOrder, "visitedKey": visitedKey, "readTuplesLoop": readConds,
			"pipelineGuard": pipelineGuard, "weightedGuard": weightedGuard,
		}}, nil
	})
}
