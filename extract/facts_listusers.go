package main

import (
	"fmt"
	"go/ast"
	"go/token"
	"strings"
)

// ListUsers: the control-flow skeletons of pkg/server/commands/listusers/list_users_rpc.go that the Lean
// model (Model/ListUsers.lean) mirrors statement by statement: the status constants, the guards of
// `expand`, the tuple loop of `expandDirect` / `expandTTU`, the counting of `expandIntersection` (with the
// comparison that decides membership), the exclusion bookkeeping of `expandUnion`, the case table of
// `expandExclusion` (order of the cases, the `if`s inside them, the fields of every foundUser that is
// sent), the cycle-guard key, and the last-write-wins map / status filter at the end of `ListUsers`.
//
// A skeleton is the list of the statements of a function body in source order, each prefixed with its
// nesting depth: `if <cond>` / `else`, `for` / `range <x>`, `switch` / `case <exprs>` / `default`,
// `send {<fields of the foundUser literal>} -> <channel>`, assignments, `x++`, calls, `continue`,
// `break`, `return <exprs>`, `go` / `func` for function literals.  Tracing, telemetry and `defer`
// statements are left out.
func init() {
	register("ListUsers", func(repo string) (Result, error) {
		fset, f, err := parseFile(repo, "pkg/server/commands/listusers/list_users_rpc.go")
		if err != nil {
			return Result{}, err
		}
		noise := func(s string) bool {
			for _, w := range []string{"span.", "tracer.", "telemetry.", "span :=", "defer "} {
				if strings.Contains(s, w) {
					return true
				}
			}
			return false
		}
		var walkStmts func(out *[]string, depth int, list []ast.Stmt)
		var walkExpr func(out *[]string, depth int, e ast.Node)
		emit := func(out *[]string, depth int, s string) {
			*out = append(*out, fmt.Sprintf("%d:%s", depth, s))
		}
		// function literals inside an expression (pool.Go(func…), panics.Try(func…), go func…)
		walkExpr = func(out *[]string, depth int, e ast.Node) {
			ast.Inspect(e, func(n ast.Node) bool {
				if fl, ok := n.(*ast.FuncLit); ok {
					emit(out, depth, "func")
					walkStmts(out, depth+1, fl.Body.List)
					return false
				}
				return true
			})
		}
		sendOf := func(ce *ast.CallExpr) (string, bool) {
			if src(fset, ce.Fun) != "concurrency.TrySendThroughChannel" || len(ce.Args) != 3 {
				return "", false
			}
			lit := src(fset, ce.Args[1])
			if cl, ok := ce.Args[1].(*ast.CompositeLit); ok {
				var fields []string
				for _, el := range cl.Elts {
					fields = append(fields, src(fset, el))
				}
				lit = "{" + strings.Join(fields, "; ") + "}"
			}
			return "send " + lit + " -> " + src(fset, ce.Args[2]), true
		}
		walkStmts = func(out *[]string, depth int, list []ast.Stmt) {
			for _, st := range list {
				switch x := st.(type) {
				case *ast.IfStmt:
					if x.Init != nil {
						emit(out, depth, src(fset, x.Init))
					}
					emit(out, depth, "if "+src(fset, x.Cond))
					walkStmts(out, depth+1, x.Body.List)
					if x.Else != nil {
						emit(out, depth, "else")
						switch e := x.Else.(type) {
						case *ast.BlockStmt:
							walkStmts(out, depth+1, e.List)
						default:
							walkStmts(out, depth+1, []ast.Stmt{e.(ast.Stmt)})
						}
					}
				case *ast.ForStmt:
					emit(out, depth, "for")
					walkStmts(out, depth+1, x.Body.List)
				case *ast.RangeStmt:
					k, v := "_", "_"
					if x.Key != nil {
						k = src(fset, x.Key)
					}
					if x.Value != nil {
						v = src(fset, x.Value)
					}
					emit(out, depth, fmt.Sprintf("range %s, %s := %s", k, v, src(fset, x.X)))
					walkStmts(out, depth+1, x.Body.List)
				case *ast.SwitchStmt:
					tag := ""
					if x.Tag != nil {
						tag = " " + src(fset, x.Tag)
					}
					emit(out, depth, "switch"+tag)
					for _, c := range x.Body.List {
						cc := c.(*ast.CaseClause)
						if cc.List == nil {
							emit(out, depth, "default")
						} else {
							var es []string
							for _, e := range cc.List {
								es = append(es, src(fset, e))
							}
							emit(out, depth, "case "+strings.Join(es, ", "))
						}
						walkStmts(out, depth+1, cc.Body)
					}
				case *ast.TypeSwitchStmt:
					emit(out, depth, "typeswitch "+src(fset, x.Assign))
					for _, c := range x.Body.List {
						cc := c.(*ast.CaseClause)
						if cc.List == nil {
							emit(out, depth, "default")
						} else {
							var es []string
							for _, e := range cc.List {
								es = append(es, src(fset, e))
							}
							emit(out, depth, "case "+strings.Join(es, ", "))
						}
						walkStmts(out, depth+1, cc.Body)
					}
				case *ast.SelectStmt:
					emit(out, depth, "select")
					for _, c := range x.Body.List {
						cc := c.(*ast.CommClause)
						if cc.Comm == nil {
							emit(out, depth, "default")
						} else {
							emit(out, depth, "case "+src(fset, cc.Comm))
						}
						walkStmts(out, depth+1, cc.Body)
					}
				case *ast.LabeledStmt:
					walkStmts(out, depth, []ast.Stmt{x.Stmt})
				case *ast.BlockStmt:
					walkStmts(out, depth, x.List)
				case *ast.GoStmt:
					emit(out, depth, "go")
					walkExpr(out, depth+1, x.Call)
				case *ast.DeferStmt:
					// left out
				case *ast.BranchStmt:
					emit(out, depth, src(fset, x))
				case *ast.ReturnStmt:
					s := src(fset, x)
					if i := strings.Index(s, "func("); i >= 0 {
						s = s[:i] + "func"
					}
					emit(out, depth, s)
					walkExpr(out, depth+1, x)
				case *ast.IncDecStmt:
					emit(out, depth, src(fset, x))
				case *ast.ExprStmt:
					if ce, ok := x.X.(*ast.CallExpr); ok {
						if s, ok := sendOf(ce); ok {
							emit(out, depth, s)
							continue
						}
					}
					s := src(fset, x)
					if noise(s) {
						continue
					}
					if i := strings.Index(s, "func("); i >= 0 {
						emit(out, depth, s[:i]+"func")
						walkExpr(out, depth+1, x)
					} else {
						emit(out, depth, s)
					}
				case *ast.AssignStmt:
					s := src(fset, x)
					if noise(s) || strings.HasPrefix(s, "ctx, span") {
						continue
					}
					if i := strings.Index(s, "func("); i >= 0 {
						emit(out, depth, s[:i]+"func")
						walkExpr(out, depth+1, x)
					} else {
						emit(out, depth, s)
					}
				case *ast.DeclStmt:
					if gd, ok := x.Decl.(*ast.GenDecl); ok && gd.Tok == token.VAR {
						emit(out, depth, src(fset, x))
					}
				case *ast.SendStmt:
					emit(out, depth, src(fset, x))
				default:
					emit(out, depth, src(fset, x))
				}
			}
		}
		skeleton := func(recv, name string) ([]string, error) {
			fd := findFunc(f, recv, name)
			if fd == nil {
				return nil, fmt.Errorf("function %s not found in list_users_rpc.go", name)
			}
			var out []string
			walkStmts(&out, 0, fd.Body.List)
			if len(out) == 0 {
				return nil, fmt.Errorf("function %s: empty skeleton", name)
			}
			return out, nil
		}
		status, err := constBlockIota(f, "HasRelationship")
		if err != nil {
			return Result{}, err
		}
		type item struct{ lean, recv, name string }
		items := []item{
			{"listUsers", "listUsersQuery", "ListUsers"},
			{"dispatch", "listUsersQuery", "dispatch"},
			{"expand", "listUsersQuery", "expand"},
			{"expandRewrite", "listUsersQuery", "expandRewrite"},
			{"expandDirect", "listUsersQuery", "expandDirect"},
			{"expandDirectDispatch", "", "expandDirectDispatch"},
			{"expandIntersection", "listUsersQuery", "expandIntersection"},
			{"expandUnion", "listUsersQuery", "expandUnion"},
			{"expandExclusion", "listUsersQuery", "expandExclusion"},
			{"expandTTU", "listUsersQuery", "expandTTU"},
			{"enteredCycle", "", "enteredCycle"},
		}
		var sb strings.Builder
		sb.WriteString(genHeader)
		sb.WriteString("namespace OpenFGAVerif.Gen.ListUsers\n\n")
		sb.WriteString("/-- `userRelationshipStatus` constants in iota order -/\n")
		sb.WriteString("def statusConsts : List String := " + leanStrList(status) + "\n")
		summary := map[string]interface{}{"statusConsts": status}
		for _, it := range items {
			sk, err := skeleton(it.recv, it.name)
			if err != nil {
				return Result{}, err
			}
			sb.WriteString("/-- skeleton of `" + it.name + "` -/\n")
			sb.WriteString("def " + it.lean + " : List String := " + leanStrList(sk) + "\n")
			summary[it.lean] = len(sk)
		}
		// the request clone: the visited map is copied per child (per-path guard) and the depth is carried over
		fs3, f3, err := parseFile(repo, "pkg/server/commands/listusers/list_users.go")
		if err != nil {
			return Result{}, err
		}
		cl3 := findFunc(f3, "internalListUsersRequest", "clone")
		if cl3 == nil {
			return Result{}, fmt.Errorf("internalListUsersRequest.clone not found")
		}
		var cloneSk []string
		for _, st := range cl3.Body.List {
			cloneSk = append(cloneSk, src(fs3, st))
		}
		sb.WriteString("/-- statements of `internalListUsersRequest.clone` -/\n")
		sb.WriteString("def clone : List String := " + leanStrList(cloneSk) + "\n")
		summary["clone"] = cloneSk
		sb.WriteString("\nend OpenFGAVerif.Gen.ListUsers\n")
		return Result{Lean: sb.String(), Summary: summary}, nil
	})
}
