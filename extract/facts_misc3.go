package main

import (
	"fmt"
	"go/ast"
	"os"
	"path/filepath"
	"sort"
	"strings"
)

// Misc3: three small source facts behind C12/C13 (sqlite row errors), C16 (soft delete reports its error) and
// C18 (which validator contextual tuples go through).
//
//	sqlIterEnd        pkg/storage/sqlite/tuple_iterator.go SQLTupleIterator.next: the statements of the
//	                  `if !t.rows.Next()` block (a driver error while stepping must not read as end of rows)
//	sqliteDeleteStore pkg/storage/sqlite/sqlite.go Datastore.DeleteStore: top-level statements
//	tupleValidators   every call of validation.ValidateTupleForWrite / ValidateTupleForRead in pkg/server and the
//	                  engines: file:function:validator
func init() {
	register("Misc3", func(repo string) (Result, error) {
		fset, f, err := parseFile(repo, "pkg/storage/sqlite/tuple_iterator.go")
		if err != nil {
			return Result{}, err
		}
		nx := findFunc(f, "SQLTupleIterator", "next")
		if nx == nil {
			return Result{}, fmt.Errorf("SQLTupleIterator.next not found")
		}
		var iterEnd []string
		ast.Inspect(nx.Body, func(n ast.Node) bool {
			if is, ok := n.(*ast.IfStmt); ok && src(fset, is.Cond) == "!t.rows.Next()" {
				for _, s := range is.Body.List {
					iterEnd = append(iterEnd, src(fset, s))
				}
				return false
			}
			return true
		})
		fset2, f2, err := parseFile(repo, "pkg/storage/sqlite/sqlite.go")
		if err != nil {
			return Result{}, err
		}
		ds := findFunc(f2, "Datastore", "DeleteStore")
		if ds == nil {
			return Result{}, fmt.Errorf("sqlite Datastore.DeleteStore not found")
		}
		var del []string
		for _, s := range ds.Body.List {
			del = append(del, src(fset2, s))
		}
		var vals []string
		for _, root := range []string{"pkg/server", "internal/graph", "internal/check"} {
			_ = filepath.Walk(filepath.Join(repo, root), func(path string, info os.FileInfo, werr error) error {
				if werr != nil || info.IsDir() || !strings.HasSuffix(path, ".go") || strings.HasSuffix(path, "_test.go") {
					return nil
				}
				rel, _ := filepath.Rel(repo, path)
				fs, ff, perr := parseFile(repo, rel)
				if perr != nil {
					return nil
				}
				for _, d := range ff.Decls {
					fd, ok := d.(*ast.FuncDecl)
					if !ok || fd.Body == nil {
						continue
					}
					ast.Inspect(fd.Body, func(n ast.Node) bool {
						if ce, ok := n.(*ast.CallExpr); ok {
							s := src(fs, ce.Fun)
							if s == "validation.ValidateTupleForWrite" || s == "validation.ValidateTupleForRead" {
								vals = append(vals, rel+":"+fd.Name.Name+":"+strings.TrimPrefix(s, "validation."))
							}
						}
						return true
					})
				}
				return nil
			})
		}
		sort.Strings(vals)
		var sb strings.Builder
		sb.WriteString(genHeader)
		sb.WriteString("namespace OpenFGAVerif.Gen.Misc3\n\n")
		sb.WriteString("def sqlIterEnd : List String := " + leanStrList(iterEnd) + "\n")
		sb.WriteString("def sqliteDeleteStore : List String := " + leanStrList(del) + "\n")
		sb.WriteString("def tupleValidators : List String := " + leanStrList(vals) + "\n")
		sb.WriteString("\nend OpenFGAVerif.Gen.Misc3\n")
		return Result{Lean: sb.String(), Summary: map[string]interface{}{"sqlIterEnd": iterEnd, "tupleValidators": vals}}, nil
	})
}
