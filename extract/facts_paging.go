package main

import (
	"fmt"
	"go/ast"
	"go/token"
	"strings"
)

// Paging: facts about pagination (C14).
//
//	memory.go   read: Atoi of the token, the slice guard, the page cut and the token it returns
//	            ReadAuthorizationModels / ListStores: clamp, cut, token, sort order
//	            ReadChanges: comparison with the token (asc/desc), page cut, token = last ULID
//	sqlite.go   read: ORDER BY ulid, ulid >= token, LIMIT ps+1; SQLTupleIterator.ToArray: page loop + look-ahead row
//	            ListStores: id >= token, ORDER BY id, LIMIT ps+1, cut and token
//	            ReadAuthorizationModels: id <= token, ORDER BY id desc, LIMIT ps+1, cut and token
//	            ReadChanges: AddFromUlid (> / <), LIMIT ps, token = last ULID, not-found on empty
//	commands    read.go: Deserialize ignores the type, Serialize(contUlid, "")
//	            read_changes.go: objType != req.GetType() → ErrMismatchObjectType; Serialize(contUlid, req.GetType())
//	            list_stores.go / read_authzmodels.go: the raw datastore token is passed through the encoder
//
// Every fact is a normalised source fragment; `Props/C14.lean` pins each of them (`tie_*`).

// stmtHead names one statement by what it does first: "range X", "if COND", "for COND", "switch TAG", the callee and
// its first argument of a call statement ("sort.SliceStable(stores, …)"), "defer CALL", "return …" and the full text
// of assignments and declarations (they are short).
func stmtHead(S func(ast.Node) string, st ast.Stmt) string {
	callHead := func(c *ast.CallExpr) string {
		switch len(c.Args) {
		case 0:
			return S(c.Fun) + "()"
		case 1:
			return S(c.Fun) + "(" + S(c.Args[0]) + ")"
		}
		return S(c.Fun) + "(" + S(c.Args[0]) + ", …)"
	}
	switch x := st.(type) {
	case *ast.RangeStmt:
		return "range " + S(x.X)
	case *ast.IfStmt:
		h := "if " + S(x.Cond)
		if x.Init != nil {
			h = "if " + S(x.Init) + "; " + S(x.Cond)
		}
		return h
	case *ast.ForStmt:
		if x.Cond != nil {
			return "for " + S(x.Cond)
		}
		return "for"
	case *ast.SwitchStmt:
		if x.Tag != nil {
			return "switch " + S(x.Tag)
		}
		return "switch"
	case *ast.ExprStmt:
		if c, ok := x.X.(*ast.CallExpr); ok {
			return callHead(c)
		}
	case *ast.DeferStmt:
		return "defer " + callHead(x.Call)
	case *ast.GoStmt:
		return "go " + callHead(x.Call)
	case *ast.LabeledStmt:
		return x.Label.Name + ": " + stmtHead(S, x.Stmt)
	}
	return S(st)
}

func init() {
	register("Paging", func(repo string) (Result, error) {
		var sb strings.Builder
		sum := map[string]interface{}{}
		sb.WriteString(genHeader)
		sb.WriteString("namespace OpenFGAVerif.Gen.Paging\n\n")
		emit := func(name, val string) {
			sb.WriteString("def " + name + " : String := " + leanStr(val) + "\n")
			sum[name] = val
		}
		emitList := func(name string, val []string) {
			sb.WriteString("def " + name + " : List String := " + leanStrList(val) + "\n")
			sum[name] = val
		}

		// ------------------------------------------------------------ memory.go
		fset, f, err := parseFile(repo, "pkg/storage/memory/memory.go")
		if err != nil {
			return Result{}, err
		}
		S := func(n ast.Node) string { return src(fset, n) }
		readFn := findFunc(f, "MemoryBackend", "read")
		if readFn == nil {
			return Result{}, fmt.Errorf("memory.read not found")
		}
		// statements after the first top-level if/else (the filter): the paging tail
		var tail []string
		seenFilter := false
		for _, st := range readFn.Body.List {
			if is, ok := st.(*ast.IfStmt); ok && strings.Contains(S(is.Cond), `filter.Object == ""`) {
				seenFilter = true
				continue
			}
			if seenFilter {
				tail = append(tail, S(st))
			}
		}
		if len(tail) == 0 {
			return Result{}, fmt.Errorf("memory.read: paging tail not found")
		}
		sb.WriteString("/-! memory.go -/\n")
		emitList("memReadTail", tail)

		pagingStmts := func(recv, name string, keep func(string) bool) ([]string, error) {
			fd := findFunc(f, recv, name)
			if fd == nil {
				return nil, fmt.Errorf("memory.%s not found", name)
			}
			var out []string
			for _, st := range fd.Body.List {
				s := S(st)
				if keep(s) {
					out = append(out, s)
				}
			}
			if len(out) == 0 {
				return nil, fmt.Errorf("memory.%s: no paging statements recognised", name)
			}
			return out, nil
		}
		isPaging := func(s string) bool {
			for _, k := range []string{"Pagination", "pageSize", "from", "to :=", "continuationToken", "sort.Slice", "res :="} {
				if strings.Contains(s, k) {
					return true
				}
			}
			return false
		}
		ms, err := pagingStmts("MemoryBackend", "ReadAuthorizationModels", isPaging)
		if err != nil {
			return Result{}, err
		}
		emitList("memModelsPaging", ms)
		ls, err := pagingStmts("MemoryBackend", "ListStores", func(s string) bool {
			return isPaging(s) && !strings.HasPrefix(s, "if len(options.IDs)") && !strings.HasPrefix(s, "if options.Name")
		})
		if err != nil {
			return Result{}, err
		}
		emitList("memStoresPaging", ls)
		// the ORDER of ListStores' top-level statements (collect → IDs filter → name filter → sort → clamp → cut):
		// one head per statement, in source order; and the collect loop, the two filter statements and the empty-window
		// return in full (memStoresPaging drops them)
		lsFn := findFunc(f, "MemoryBackend", "ListStores")
		var lsOrder, lsSteps []string
		nFilters := 0
		for _, st := range lsFn.Body.List {
			lsOrder = append(lsOrder, stmtHead(S, st))
			switch x := st.(type) {
			case *ast.RangeStmt: // the collect loop over the store map
				lsSteps = append(lsSteps, S(st))
			case *ast.IfStmt:
				c := S(x.Cond)
				if strings.Contains(c, "options.IDs") || strings.Contains(c, "options.Name") {
					nFilters++
					lsSteps = append(lsSteps, S(st))
				} else if strings.Contains(c, "len(res)") {
					lsSteps = append(lsSteps, S(st))
				}
			}
		}
		if nFilters == 0 {
			return Result{}, fmt.Errorf("memory.ListStores: the IDs / name filter statements were not recognised")
		}
		emitList("memStoresOrder", lsOrder)
		emitList("memStoresSteps", lsSteps)

		rcFn := findFunc(f, "MemoryBackend", "ReadChanges")
		if rcFn == nil {
			return Result{}, fmt.Errorf("memory.ReadChanges not found")
		}
		var rcFromCmp string
		ast.Inspect(rcFn.Body, func(n ast.Node) bool {
			if is, ok := n.(*ast.IfStmt); ok && S(is.Cond) == "from != nil" {
				rcFromCmp = S(is.Body)
			}
			return true
		})
		if rcFromCmp == "" {
			return Result{}, fmt.Errorf("memory.ReadChanges: `if from != nil` not found")
		}
		emit("memChangesFromCmp", rcFromCmp)
		var rcTail []string
		after := false
		for _, st := range rcFn.Body.List {
			s := S(st)
			if strings.HasPrefix(s, "if len(allChanges) == 0") {
				after = true
			}
			if after {
				rcTail = append(rcTail, s)
			}
		}
		emitList("memChangesTail", rcTail)
		var rcParse string
		for _, st := range rcFn.Body.List {
			if is, ok := st.(*ast.IfStmt); ok && S(is.Cond) == `options.Pagination.From != ""` {
				rcParse = S(is.Body)
			}
		}
		emit("memChangesTokenParse", rcParse)

		// ------------------------------------------------------------ sqlite.go
		fset2, f2, err := parseFile(repo, "pkg/storage/sqlite/sqlite.go")
		if err != nil {
			return Result{}, err
		}
		S2 := func(n ast.Node) string { return src(fset2, n) }
		// every statement of a function that mentions one of the keys, with the guards it stands under
		guarded := func(fd *ast.FuncDecl, keys ...string) []string {
			var out []string
			var walk func(n ast.Node, guards []string)
			hit := func(s string) bool {
				for _, k := range keys {
					if strings.Contains(s, k) {
						return true
					}
				}
				return false
			}
			walk = func(n ast.Node, guards []string) {
				switch x := n.(type) {
				case *ast.BlockStmt:
					for _, s := range x.List {
						walk(s, guards)
					}
				case *ast.IfStmt:
					g := append(append([]string{}, guards...), S2(x.Cond))
					// an if whose body is a single return/assignment mentioning a key is emitted whole
					walk(x.Body, g)
					if x.Else != nil {
						walk(x.Else, append(append([]string{}, guards...), "!("+S2(x.Cond)+")"))
					}
				case *ast.ForStmt:
					walk(x.Body, append(append([]string{}, guards...), "for "+S2(x.Cond)))
				case *ast.RangeStmt:
					walk(x.Body, append(append([]string{}, guards...), "range "+S2(x.X)))
				case nil:
				default:
					s := S2(n)
					if hit(s) {
						out = append(out, strings.Join(guards, " && ")+" ⊢ "+s)
					}
				}
			}
			walk(fd.Body, nil)
			return out
		}
		sqlFn := func(name string) (*ast.FuncDecl, error) {
			fd := findFunc(f2, "Datastore", name)
			if fd == nil {
				return nil, fmt.Errorf("sqlite.%s not found", name)
			}
			return fd, nil
		}
		sb.WriteString("\n/-! sqlite.go: `guards ⊢ statement` -/\n")
		fd, err := sqlFn("read")
		if err != nil {
			return Result{}, err
		}
		emitList("sqlReadPaging", guarded(fd, "OrderBy(", `"ulid"`, "Limit("))
		fd, err = sqlFn("ReadPage")
		if err != nil {
			return Result{}, err
		}
		emitList("sqlReadPageBody", guarded(fd, "s.read(", "ToArray("))
		fd, err = sqlFn("ListStores")
		if err != nil {
			return Result{}, err
		}
		emitList("sqlStoresPaging", guarded(fd, "Pagination", "OrderBy(", "return stores"))
		fd, err = sqlFn("ReadAuthorizationModels")
		if err != nil {
			return Result{}, err
		}
		emitList("sqlModelsPaging", guarded(fd, "Pagination", "OrderBy(", "return models"))
		fd, err = sqlFn("ReadChanges")
		if err != nil {
			return Result{}, err
		}
		emitList("sqlChangesPaging", guarded(fd, "Pagination", "orderBy", "return changes", "ErrNotFound"))

		// ToArray of the sqlite iterator
		fset3, f3, err := parseFile(repo, "pkg/storage/sqlite/tuple_iterator.go")
		if err != nil {
			return Result{}, err
		}
		ta := findFunc(f3, "SQLTupleIterator", "ToArray")
		if ta == nil {
			return Result{}, fmt.Errorf("sqlite.SQLTupleIterator.ToArray not found")
		}
		emit("sqlToArray", src(fset3, ta.Body))

		// AddFromUlid
		fset4, f4, err := parseFile(repo, "pkg/storage/sqlcommon/sqlcommon.go")
		if err != nil {
			return Result{}, err
		}
		au := findFunc(f4, "", "AddFromUlid")
		if au == nil {
			return Result{}, fmt.Errorf("sqlcommon.AddFromUlid not found")
		}
		emit("sqlAddFromUlid", src(fset4, au.Body))

		// ------------------------------------------------------------ commands
		sb.WriteString("\n/-! pkg/server/commands -/\n")
		cmd := func(file, recv string, keys ...string) ([]string, error) {
			fs, ff, err := parseFile(repo, file)
			if err != nil {
				return nil, err
			}
			fd := findFunc(ff, recv, "Execute")
			if fd == nil {
				return nil, fmt.Errorf("%s: Execute not found", file)
			}
			var out []string
			ast.Inspect(fd.Body, func(n ast.Node) bool {
				switch x := n.(type) {
				case *ast.AssignStmt, *ast.ExprStmt:
					s := src(fs, x)
					for _, k := range keys {
						if strings.Contains(s, k) {
							out = append(out, s)
							break
						}
					}
				case *ast.IfStmt:
					c := src(fs, x.Cond)
					for _, k := range keys {
						if strings.Contains(c, k) {
							out = append(out, "if "+c+" "+src(fs, x.Body))
							break
						}
					}
				}
				return true
			})
			if len(out) == 0 {
				return nil, fmt.Errorf("%s: no token handling recognised", file)
			}
			return out, nil
		}
		rd, err := cmd("pkg/server/commands/read.go", "ReadQuery", "Decode(", "Deserialize(", "Serialize(", "Encode(", "NewPaginationOptions", "len(decodedContToken) > 0", "len(contUlid) == 0")
		if err != nil {
			return Result{}, err
		}
		emitList("cmdReadToken", rd)
		rc, err := cmd("pkg/server/commands/read_changes.go", "ReadChangesQuery", "Decode(", "Deserialize(", "Serialize(", "Encode(", "NewPaginationOptions", "objType != req.GetType()", `token != ""`, "ErrNotFound", "len(contUlid) == 0")
		if err != nil {
			return Result{}, err
		}
		emitList("cmdReadChangesToken", rc)
		lst, err := cmd("pkg/server/commands/list_stores.go", "ListStoresQuery", "Decode(", "Encode(", "NewPaginationOptions")
		if err != nil {
			return Result{}, err
		}
		emitList("cmdListStoresToken", lst)
		ram, err := cmd("pkg/server/commands/read_authzmodels.go", "ReadAuthorizationModelsQuery", "Decode(", "Encode(", "NewPaginationOptions")
		if err != nil {
			return Result{}, err
		}
		emitList("cmdReadModelsToken", ram)

		// storage.NewPaginationOptions: default page size when ps <= 0
		fset5, f5, err := parseFile(repo, "pkg/storage/storage.go")
		if err != nil {
			return Result{}, err
		}
		np := findFunc(f5, "", "NewPaginationOptions")
		if np == nil {
			return Result{}, fmt.Errorf("storage.NewPaginationOptions not found")
		}
		emit("newPaginationOptions", src(fset5, np.Body))
		_ = token.NoPos

		sb.WriteString("\nend OpenFGAVerif.Gen.Paging\n")
		return Result{Lean: sb.String(), Summary: map[string]interface{}{"fragments": len(sum)}}, nil
	})
}
