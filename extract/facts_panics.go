package main

import (
	"fmt"
	"go/ast"
	"go/token"
	"os"
	"path/filepath"
	"sort"
	"strings"
)

// Panics (C19): every syntactically recognisable panic site of the anchored files
//
//	pkg/server/server.go, internal/graph/check.go, internal/concurrency/panic.go, pkg/typesystem/typesystem.go,
//	internal/condition/condition.go, pkg/storage/cache/keys/xtypes.go
//
// as "file:function:kind:expression":
//
//	panic   an explicit call of the builtin panic
//	index   an index expression with a constant integer index  x[0], x[1]  (slices / arrays / strings; an index
//	        into a map literal type cannot be told apart syntactically and is listed too)
//	assert  a type assertion without the comma-ok form  x.(T)
//	deref   (not recognisable syntactically — not listed)
//
// plus the recovery points: calls of panics.Try / concurrency.RecoverFromPanic / recover() with their function.
// The reviewed list lives in Props/C19.lean; a new site breaks the tie and has to be reviewed.
func init() {
	register("Panics", func(repo string) (Result, error) {
		files := []string{
			"pkg/server/server.go", "internal/graph/check.go", "internal/concurrency/panic.go",
			"pkg/typesystem/typesystem.go", "internal/condition/condition.go", "pkg/storage/cache/keys/xtypes.go",
		}
		var sites, recov []string
		for _, rel := range files {
			fset, f, err := parseFile(repo, rel)
			if err != nil {
				return Result{}, err
			}
			base := rel[strings.LastIndex(rel, "/")+1:]
			for _, d := range f.Decls {
				fd, ok := d.(*ast.FuncDecl)
				if !ok || fd.Body == nil {
					continue
				}
				fname := fd.Name.Name
				if fd.Recv != nil && len(fd.Recv.List) == 1 {
					t := fd.Recv.List[0].Type
					if s, ok := t.(*ast.StarExpr); ok {
						t = s.X
					}
					fname = src(fset, t) + "." + fname
				}
				okAsserts := map[*ast.TypeAssertExpr]bool{}
				ast.Inspect(fd.Body, func(n ast.Node) bool {
					switch x := n.(type) {
					case *ast.AssignStmt:
						if len(x.Lhs) == 2 && len(x.Rhs) == 1 {
							if ta, ok := x.Rhs[0].(*ast.TypeAssertExpr); ok {
								okAsserts[ta] = true
							}
						}
					case *ast.ValueSpec:
						if len(x.Names) == 2 && len(x.Values) == 1 {
							if ta, ok := x.Values[0].(*ast.TypeAssertExpr); ok {
								okAsserts[ta] = true
							}
						}
					}
					return true
				})
				ast.Inspect(fd.Body, func(n ast.Node) bool {
					switch x := n.(type) {
					case *ast.CallExpr:
						fun := src(fset, x.Fun)
						switch fun {
						case "panic":
							arg := ""
							if len(x.Args) == 1 {
								arg = src(fset, x.Args[0])
							}
							sites = append(sites, fmt.Sprintf("%s:%s:panic:%s", base, fname, arg))
						case "panics.Try", "concurrency.RecoverFromPanic", "recover":
							recov = append(recov, fmt.Sprintf("%s:%s:%s", base, fname, fun))
						}
					case *ast.IndexExpr:
						if bl, ok := x.Index.(*ast.BasicLit); ok && bl.Kind == token.INT {
							sites = append(sites, fmt.Sprintf("%s:%s:index:%s", base, fname, src(fset, x)))
						}
					case *ast.TypeAssertExpr:
						if x.Type != nil && !okAsserts[x] { // x.Type == nil: type switch guard
							sites = append(sites, fmt.Sprintf("%s:%s:assert:%s", base, fname, src(fset, x)))
						}
					}
					return true
				})
			}
		}
		sort.Strings(sites)
		sort.Strings(recov)
		// run.go: the recovery interceptors must be the first of their chains
		fsetR, fR, err := parseFile(repo, "cmd/run/run.go")
		if err != nil {
			return Result{}, err
		}
		var chains []string
		ast.Inspect(fR, func(n ast.Node) bool {
			ce, ok := n.(*ast.CallExpr)
			if !ok {
				return true
			}
			fun := src(fsetR, ce.Fun)
			if (fun == "grpc.ChainUnaryInterceptor" || fun == "grpc.ChainStreamInterceptor") && len(ce.Args) > 0 {
				first := src(fsetR, ce.Args[0])
				if i := strings.Index(first, "("); i > 0 {
					first = first[:i]
				}
				chains = append(chains, fun+":first="+first)
			}
			return true
		})
		// every explicit panic( of the production code outside the anchored files
		anchored := map[string]bool{}
		for _, f := range files {
			anchored[f] = true
		}
		var others []string
		var evaluateCalls, relRefCalls []string
		for _, root := range []string{"internal", "pkg", "cmd"} {
			_ = filepath.Walk(filepath.Join(repo, root), func(path string, info os.FileInfo, err error) error {
				if err != nil || info.IsDir() || !strings.HasSuffix(path, ".go") || strings.HasSuffix(path, "_test.go") {
					return nil
				}
				rel, _ := filepath.Rel(repo, path)
				if strings.Contains(rel, "/mocks/") || strings.HasPrefix(rel, "pkg/testutils") || strings.Contains(rel, "testfixtures") || strings.HasPrefix(rel, "pkg/storage/test") || strings.HasPrefix(rel, "internal/mocks") || strings.HasPrefix(rel, "pkg/server/test") {
					return nil
				}
				fs, f, perr := parseFile(repo, rel)
				if perr != nil {
					return nil
				}
				for _, d := range f.Decls {
					fd, ok := d.(*ast.FuncDecl)
					if !ok || fd.Body == nil {
						continue
					}
					ast.Inspect(fd.Body, func(n ast.Node) bool {
						ce, ok := n.(*ast.CallExpr)
						if !ok {
							return true
						}
						fun := src(fs, ce.Fun)
						if fun == "panic" && !anchored[rel] {
							arg := ""
							if len(ce.Args) == 1 {
								arg = src(fs, ce.Args[0])
							}
							others = append(others, fmt.Sprintf("%s:%s:%s", rel, fd.Name.Name, arg))
						}
						if strings.HasSuffix(fun, ".Evaluate") && len(ce.Args) >= 1 && src(fs, ce.Args[0]) == "ctx" && strings.Contains(strings.ToLower(fun), "condition") {
							var as []string
							for _, a := range ce.Args {
								as = append(as, src(fs, a))
							}
							if ce.Ellipsis.IsValid() {
								as[len(as)-1] += "..."
							}
							evaluateCalls = append(evaluateCalls, fmt.Sprintf("%s:%s:%s(%s)", rel, fd.Name.Name, fun, strings.Join(as, ", ")))
						}
						if strings.HasSuffix(fun, "GetRelationReferenceAsString") {
							relRefCalls = append(relRefCalls, fmt.Sprintf("%s:%s", rel, fd.Name.Name))
						}
						return true
					})
				}
				return nil
			})
		}
		sort.Strings(others)
		sort.Strings(evaluateCalls)
		sort.Strings(relRefCalls)
		// exclusion: the length guard precedes the first constant index; eval.go: the literals assigned to contextFields
		fsC, fC, err := parseFile(repo, "internal/graph/check.go")
		if err != nil {
			return Result{}, err
		}
		exclGuardFirst := false
		if ex := findFunc(fC, "", "exclusion"); ex != nil {
			guardAt, useAt := -1, -1
			for i, st := range ex.Body.List {
				if is, ok := st.(*ast.IfStmt); ok && src(fsC, is.Cond) == "len(handlers) != 2" && guardAt < 0 {
					if len(is.Body.List) == 1 {
						if _, isRet := is.Body.List[0].(*ast.ReturnStmt); isRet {
							guardAt = i
						}
					}
				}
				if useAt < 0 && strings.Contains(src(fsC, st), "handlers[") {
					useAt = i
				}
			}
			exclGuardFirst = guardAt >= 0 && useAt > guardAt
		}
		fsE, fE, err := parseFile(repo, "internal/condition/eval/eval.go")
		if err != nil {
			return Result{}, err
		}
		var ctxLits []string
		ast.Inspect(fE, func(n ast.Node) bool {
			as, ok := n.(*ast.AssignStmt)
			if !ok || len(as.Lhs) != 1 || len(as.Rhs) != 1 || src(fsE, as.Lhs[0]) != "contextFields" {
				return true
			}
			switch x := as.Rhs[0].(type) {
			case *ast.CompositeLit:
				ctxLits = append(ctxLits, fmt.Sprintf("literal:%d", len(x.Elts)))
			case *ast.CallExpr:
				ctxLits = append(ctxLits, "call:"+src(fsE, x.Fun))
			default:
				ctxLits = append(ctxLits, "other:"+src(fsE, as.Rhs[0]))
			}
			return true
		})
		// typesystem: what is stored into computedRelations (read back with val.(string))
		fsT, fT, err := parseFile(repo, "pkg/typesystem/typesystem.go")
		if err != nil {
			return Result{}, err
		}
		var stores []string
		ast.Inspect(fT, func(n ast.Node) bool {
			if ce, ok := n.(*ast.CallExpr); ok && src(fsT, ce.Fun) == "t.computedRelations.Store" && len(ce.Args) == 2 {
				stores = append(stores, src(fsT, ce.Args[1]))
			}
			return true
		})
		// isUsersetRewriteValid: the nil test is the first statement, and every child is validated recursively
		nilGuardFirst := false
		var recursive []string
		if iv := findFunc(fT, "TypeSystem", "isUsersetRewriteValid"); iv != nil && len(iv.Body.List) > 0 {
			if is, ok := iv.Body.List[0].(*ast.IfStmt); ok && src(fsT, is.Cond) == "rewrite.GetUserset() == nil" && len(is.Body.List) == 1 {
				if rs, ok := is.Body.List[0].(*ast.ReturnStmt); ok && len(rs.Results) == 1 && strings.Contains(src(fsT, rs.Results[0]), "ErrInvalidUsersetRewrite") {
					nilGuardFirst = true
				}
			}
			ast.Inspect(iv.Body, func(n ast.Node) bool {
				if ce, ok := n.(*ast.CallExpr); ok && src(fsT, ce.Fun) == "t.isUsersetRewriteValid" && len(ce.Args) == 3 {
					recursive = append(recursive, src(fsT, ce.Args[2]))
				}
				return true
			})
		} else {
			return Result{}, fmt.Errorf("typesystem.go: isUsersetRewriteValid not found")
		}
		// F26: typesystem.New checks the shape of every type restriction before the model graph is built
		shapeGuardBeforeGraph := false
		var shapeGuardConds []string
		if nw := findFunc(fT, "", "New"); nw != nil {
			body := src(fsT, nw.Body)
			gi := strings.Index(body, "checkRelationReferenceShape(")
			bi := strings.Index(body, "graph.NewAuthorizationModelGraph(")
			shapeGuardBeforeGraph = gi >= 0 && bi > gi
		}
		if sg := findFunc(fT, "", "checkRelationReferenceShape"); sg != nil {
			ast.Inspect(sg.Body, func(n ast.Node) bool {
				switch x := n.(type) {
				case *ast.CaseClause:
					for _, e := range x.List {
						shapeGuardConds = append(shapeGuardConds, "case "+src(fsT, e))
					}
				case *ast.IfStmt:
					shapeGuardConds = append(shapeGuardConds, "if "+src(fsT, x.Cond))
				}
				return true
			})
		}
		// F27: the memory datastore answers a pagination token that is not an offset with ErrInvalidContinuationToken
		fsM, fM, err := parseFile(repo, "pkg/storage/memory/memory.go")
		if err != nil {
			return Result{}, err
		}
		var tokenErrs []string
		ast.Inspect(fM, func(n ast.Node) bool {
			bs, ok := n.(*ast.BlockStmt)
			if !ok {
				return true
			}
			for i, st := range bs.List {
				as, ok := st.(*ast.AssignStmt)
				if !ok || !strings.Contains(src(fsM, as), "strconv.Atoi(options.Pagination.From)") || i+1 >= len(bs.List) {
					continue
				}
				if is, ok := bs.List[i+1].(*ast.IfStmt); ok && src(fsM, is.Cond) == "err != nil" {
					for _, s2 := range is.Body.List {
						if rs, ok := s2.(*ast.ReturnStmt); ok {
							tokenErrs = append(tokenErrs, src(fsM, rs))
						}
					}
				}
			}
			return true
		})
		// memory datastore, offset pagination (ReadAuthorizationModels, ListStores): the assignments to `from` / `to` in
		// source order — the offset is clamped BEFORE the upper slice bound is derived from it
		var pageBounds []string
		for _, fn := range []string{"ReadAuthorizationModels", "ListStores"} {
			fd := findFunc(fM, "MemoryBackend", fn)
			if fd == nil {
				return Result{}, fmt.Errorf("memory.%s not found", fn)
			}
			ast.Inspect(fd.Body, func(n ast.Node) bool {
				switch x := n.(type) {
				case *ast.AssignStmt:
					if len(x.Lhs) >= 1 {
						if id, ok := x.Lhs[0].(*ast.Ident); ok && (id.Name == "from" || id.Name == "to") {
							pageBounds = append(pageBounds, fn+": "+src(fsM, x))
						}
					}
				case *ast.SliceExpr:
					pageBounds = append(pageBounds, fn+": slice "+src(fsM, x))
				}
				return true
			})
		}
		var sb strings.Builder
		sb.WriteString(genHeader)
		sb.WriteString("namespace OpenFGAVerif.Gen.Panics\n\n")
		sb.WriteString("/-- memory datastore, offset pagination: assignments to from / to and the slice expressions, in source order -/\n")
		sb.WriteString("def memoryPageBounds : List String := " + leanStrList(pageBounds) + "\n")
		sb.WriteString("/-- typesystem.New calls checkRelationReferenceShape on the type restrictions before graph.NewAuthorizationModelGraph -/\n")
		sb.WriteString(fmt.Sprintf("def shapeGuardBeforeGraph : Bool := %v\n", shapeGuardBeforeGraph))
		sb.WriteString("/-- the cases and tests of checkRelationReferenceShape -/\n")
		sb.WriteString("def shapeGuardConds : List String := " + leanStrList(shapeGuardConds) + "\n")
		sb.WriteString("/-- memory datastore: what is returned when the pagination token is not an offset -/\n")
		sb.WriteString("def memoryTokenParseErrors : List String := " + leanStrList(tokenErrs) + "\n\n")
		sb.WriteString("/-- isUsersetRewriteValid starts with `if rewrite.GetUserset() == nil { return …ErrInvalidUsersetRewrite }` -/\n")
		sb.WriteString(fmt.Sprintf("def rewriteNilGuardFirst : Bool := %v\n", nilGuardFirst))
		sb.WriteString("/-- the sub-rewrites isUsersetRewriteValid recurses into -/\n")
		sb.WriteString("def rewriteValidationRecursesInto : List String := " + leanStrList(recursive) + "\n\n")
		sb.WriteString("/-- explicit panic( calls of the production code outside the anchored files, as file:function:argument -/\n")
		sb.WriteString("def otherPanics : List String := " + leanStrList(others) + "\n\n")
		sb.WriteString("/-- calls of EvaluableCondition.Evaluate in production code -/\n")
		sb.WriteString("def evaluateCalls : List String := " + leanStrList(evaluateCalls) + "\n")
		sb.WriteString("/-- what eval.go assigns to contextFields before that call -/\n")
		sb.WriteString("def contextFieldsAssignments : List String := " + leanStrList(ctxLits) + "\n")
		sb.WriteString("/-- production callers of typesystem.GetRelationReferenceAsString -/\n")
		sb.WriteString("def relationRefCallers : List String := " + leanStrList(relRefCalls) + "\n")
		sb.WriteString("/-- exclusion: `if len(handlers) != 2 { return … }` precedes the first handlers[i] -/\n")
		sb.WriteString(fmt.Sprintf("def exclusionGuardBeforeIndex : Bool := %v\n", exclGuardFirst))
		sb.WriteString("/-- values stored into TypeSystem.computedRelations -/\n")
		sb.WriteString("def computedRelationsStores : List String := " + leanStrList(stores) + "\n\n")
		sb.WriteString("/-- every explicit panic, constant index and unchecked type assertion of the anchored files -/\n")
		sb.WriteString("def sites : List String := " + leanStrList(sites) + "\n\n")
		sb.WriteString("/-- the recovery points of the anchored files -/\n")
		sb.WriteString("def recoveries : List String := " + leanStrList(recov) + "\n\n")
		sb.WriteString("/-- cmd/run/run.go: first interceptor of every gRPC interceptor chain -/\n")
		sb.WriteString("def interceptorChains : List String := " + leanStrList(chains) + "\n")
		sb.WriteString("\nend OpenFGAVerif.Gen.Panics\n")
		return Result{Lean: sb.String(), Summary: map[string]interface{}{"sites": len(sites), "otherPanics": len(others), "recoveries": recov, "chains": chains, "evaluateCalls": evaluateCalls}}, nil
	})
}
