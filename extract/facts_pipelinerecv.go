package main

import (
	"fmt"
	"go/ast"
	"strings"
)

// PipelineRecv: the consumer side of the ListObjects pipeline (internal/listobjects/pipeline/pipeline.go,
// Pipeline.Recv): when may Recv close the pipeline? The doc contract: a Recv whose OWN context is done returns
// ("", false) and leaves the pipeline running (the caller may poll with short per-call timeouts); the pipeline is
// closed by Recv only after an error was received or the output was exhausted under a live context.
func init() {
	register("PipelineRecv", func(repo string) (Result, error) {
		fset, f, err := parseFile(repo, "internal/listobjects/pipeline/pipeline.go")
		if err != nil {
			return Result{}, err
		}
		fd := findFunc(f, "Pipeline", "Recv")
		if fd == nil {
			return Result{}, fmt.Errorf("Pipeline.Recv not found")
		}
		// every call of p.Close() inside Recv with the chain of enclosing if-conditions
		var sites []string
		var walk func(n ast.Node, conds []string)
		walk = func(n ast.Node, conds []string) {
			switch x := n.(type) {
			case *ast.BlockStmt:
				for _, s := range x.List {
					walk(s, conds)
				}
			case *ast.ForStmt:
				walk(x.Body, conds)
			case *ast.IfStmt:
				c := src(fset, x.Cond)
				if x.Init != nil {
					c = src(fset, x.Init) + "; " + c
				}
				walk(x.Body, append(append([]string{}, conds...), c))
				if x.Else != nil {
					walk(x.Else, append(append([]string{}, conds...), "!("+c+")"))
				}
			case *ast.ExprStmt:
				if src(fset, x.X) == "p.Close()" {
					sites = append(sites, strings.Join(conds, " && "))
				}
			}
		}
		walk(fd.Body, nil)
		// the first statement of the receive loop
		first := ""
		for _, s := range fd.Body.List {
			if fs, ok := s.(*ast.ForStmt); ok && len(fs.Body.List) > 0 {
				first = src(fset, fs.Body.List[0])
			}
		}
		var sb strings.Builder
		sb.WriteString(genHeader)
		sb.WriteString("namespace OpenFGAVerif.Gen.PipelineRecv\n\n")
		sb.WriteString("/-- for every `p.Close()` inside Pipeline.Recv: the conjunction of the enclosing if-conditions -/\n")
		sb.WriteString("def closeSites : List String := " + leanStrList(sites) + "\n")
		sb.WriteString("/-- first statement of the receive loop -/\n")
		sb.WriteString("def loopHead : String := " + leanStr(first) + "\n")
		sb.WriteString("\nend OpenFGAVerif.Gen.PipelineRecv\n")
		return Result{Lean: sb.String(), Summary: map[string]interface{}{"closeSites": sites, "loopHead": first}}, nil
	})
}
