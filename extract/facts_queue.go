package main

// Fact group "Queue" (C22): the order of atomic / lock / channel operations inside the methods
// of internal/containers/mpmc.Queue and internal/containers/mpsc.Accumulator, the branch
// conditions, the channel capacities, and the consumer discipline of the pipeline's mediums.

import (
	"fmt"
	"go/ast"
	"go/token"
	"strconv"
	"strings"
)

// opsOf lists, in source order, the synchronisation-relevant operations of a function body:
// calls on mutexes / atomics / ctx / extend / close / make, channel sends and receives,
// reads and writes of a slot's Data field, `default` clauses, and `return` statements.
func opsOf(fset *token.FileSet, body ast.Node) []string {
	interesting := []string{".mu.", ".done.", ".head.", ".tail.", ".Sequence.", "ctx.Err", "ctx.Done", ".extend(", "close(",
		".Next.", ".closed.", "make(chan"}
	var out []string
	isInteresting := func(s string) bool {
		for _, k := range interesting {
			if strings.Contains(s, k) {
				return true
			}
		}
		return false
	}
	ast.Inspect(body, func(n ast.Node) bool {
		switch x := n.(type) {
		case *ast.DeferStmt:
			s := src(fset, x.Call)
			if isInteresting(s) {
				out = append(out, "defer "+s)
			}
			return false
		case *ast.CallExpr:
			fun := src(fset, x.Fun)
			s := src(fset, x)
			if isInteresting(fun+"(") || (fun == "close" || fun == "make") && isInteresting(s) {
				// nested interesting calls inside the arguments come afterwards (source order is
				// kept well enough for the methods at hand: arguments are plain expressions)
				out = append(out, s)
			}
			return true
		case *ast.SendStmt:
			out = append(out, "send "+src(fset, x.Chan))
			return true
		case *ast.UnaryExpr:
			if x.Op == token.ARROW {
				out = append(out, "recv "+src(fset, x.X))
			}
			return true
		case *ast.AssignStmt:
			for _, l := range x.Lhs {
				if strings.HasSuffix(src(fset, l), ".Data") {
					out = append(out, src(fset, x))
				}
			}
			for _, r := range x.Rhs {
				if strings.HasSuffix(src(fset, r), ".Data") && len(x.Lhs) == 1 && !strings.HasSuffix(src(fset, x.Lhs[0]), ".Data") {
					out = append(out, src(fset, x))
				}
			}
			return true
		case *ast.CommClause:
			if x.Comm == nil {
				out = append(out, "default")
			}
			return true
		case *ast.ReturnStmt:
			out = append(out, src(fset, x))
			return true
		}
		return true
	})
	return out
}

// condsOf lists the conditions of if / for statements in source order.
func condsOf(fset *token.FileSet, body ast.Node) []string {
	var out []string
	ast.Inspect(body, func(n ast.Node) bool {
		switch x := n.(type) {
		case *ast.IfStmt:
			out = append(out, "if "+src(fset, x.Cond))
		case *ast.ForStmt:
			if x.Cond != nil {
				out = append(out, "for "+src(fset, x.Cond))
			} else {
				out = append(out, "for")
			}
		}
		return true
	})
	return out
}

// assignRhs returns the source of the right-hand side of the first `name := ...` / `name = ...` in body.
func assignRhs(fset *token.FileSet, body ast.Node, name string) string {
	res := ""
	ast.Inspect(body, func(n ast.Node) bool {
		if res != "" {
			return false
		}
		if as, ok := n.(*ast.AssignStmt); ok && len(as.Lhs) == 1 && len(as.Rhs) == 1 {
			if id, ok := as.Lhs[0].(*ast.Ident); ok && id.Name == name {
				res = src(fset, as.Rhs[0])
			}
		}
		return true
	})
	return res
}

// chanCap finds `<recv>.<field> = make(chan T, n)` (or without n) in body and returns n (0 = unbuffered, -1 = not found).
func chanCap(fset *token.FileSet, body ast.Node, field string) int {
	res := -1
	ast.Inspect(body, func(n ast.Node) bool {
		as, ok := n.(*ast.AssignStmt)
		if !ok || len(as.Lhs) != 1 || len(as.Rhs) != 1 {
			return true
		}
		if !strings.HasSuffix(src(fset, as.Lhs[0]), "."+field) {
			return true
		}
		ce, ok := as.Rhs[0].(*ast.CallExpr)
		if !ok || src(fset, ce.Fun) != "make" || len(ce.Args) == 0 {
			return true
		}
		if _, ok := ce.Args[0].(*ast.ChanType); !ok {
			return true
		}
		if len(ce.Args) == 1 {
			res = 0
		} else if v, err := strconv.Atoi(src(fset, ce.Args[1])); err == nil {
			res = v
		}
		return true
	})
	return res
}

func structFieldType(fset *token.FileSet, f *ast.File, typ, field string) string {
	for _, d := range f.Decls {
		gd, ok := d.(*ast.GenDecl)
		if !ok || gd.Tok != token.TYPE {
			continue
		}
		for _, s := range gd.Specs {
			ts := s.(*ast.TypeSpec)
			st, ok := ts.Type.(*ast.StructType)
			if !ok || ts.Name.Name != typ {
				continue
			}
			for _, fl := range st.Fields.List {
				for _, n := range fl.Names {
					if n.Name == field {
						return src(fset, fl.Type)
					}
				}
			}
		}
	}
	return ""
}

func typeDoc(f *ast.File, typ string) string {
	for _, d := range f.Decls {
		gd, ok := d.(*ast.GenDecl)
		if !ok || gd.Tok != token.TYPE {
			continue
		}
		for _, s := range gd.Specs {
			ts := s.(*ast.TypeSpec)
			if ts.Name.Name == typ {
				doc := ""
				if gd.Doc != nil {
					doc += gd.Doc.Text()
				}
				if ts.Doc != nil {
					doc += ts.Doc.Text()
				}
				return strings.Join(strings.Fields(doc), " ")
			}
		}
	}
	return ""
}

func init() {
	register("Queue", func(repo string) (Result, error) {
		const mpmcPath = "internal/containers/mpmc/queue.go"
		const mpscPath = "internal/containers/mpsc/accumulator.go"
		const mediumPath = "internal/listobjects/pipeline/internal/worker/medium.go"
		fset, f, err := parseFile(repo, mpmcPath)
		if err != nil {
			return Result{}, err
		}
		get := func(fs *token.FileSet, file *ast.File, recv, name string) (*ast.FuncDecl, error) {
			fd := findFunc(file, recv, name)
			if fd == nil || fd.Body == nil {
				return nil, fmt.Errorf("function %s.%s not found", recv, name)
			}
			return fd, nil
		}
		var sb strings.Builder
		sb.WriteString(genHeader)
		sb.WriteString("namespace OpenFGAVerif.Gen.Queue\n\n")
		summary := map[string]interface{}{}
		emitList := func(name string, xs []string) {
			sb.WriteString("def " + name + " : List String := " + leanStrList(xs) + "\n")
			summary[name] = xs
		}
		emitStr := func(name, s string) {
			sb.WriteString("def " + name + " : String := " + leanStr(s) + "\n")
			summary[name] = s
		}
		emitNat := func(name string, n int) {
			sb.WriteString("def " + name + " : Nat := " + strconv.Itoa(n) + "\n")
			summary[name] = n
		}
		emitBool := func(name string, b bool) {
			sb.WriteString("def " + name + " : Bool := " + strconv.FormatBool(b) + "\n")
			summary[name] = b
		}
		// ---- mpmc
		for _, m := range []struct{ recv, fn, lean string }{
			{"", "NewQueue", "mpmcNewQueue"}, {"Queue", "Send", "mpmcSend"}, {"Queue", "Recv", "mpmcRecv"},
			{"Queue", "Close", "mpmcClose"}, {"Queue", "extend", "mpmcExtend"}, {"Queue", "Grow", "mpmcGrow"},
		} {
			fd, err := get(fset, f, m.recv, m.fn)
			if err != nil {
				return Result{}, err
			}
			emitList(m.lean+"Ops", opsOf(fset, fd.Body))
			emitList(m.lean+"Conds", condsOf(fset, fd.Body))
		}
		nq, _ := get(fset, f, "", "NewQueue")
		ec, fc := chanCap(fset, nq.Body, "empty"), chanCap(fset, nq.Body, "full")
		if ec < 0 || fc < 0 {
			return Result{}, fmt.Errorf("NewQueue: make(chan struct{}, n) for empty/full not found")
		}
		emitNat("mpmcEmptyCap", ec)
		emitNat("mpmcFullCap", fc)
		mk, err := get(fset, f, "Queue", "mask")
		if err != nil {
			return Result{}, err
		}
		if len(mk.Body.List) != 1 {
			return Result{}, fmt.Errorf("mask: expected a single return statement")
		}
		emitStr("mpmcMask", src(fset, mk.Body.List[0]))
		send, _ := get(fset, f, "Queue", "Send")
		recv, _ := get(fset, f, "Queue", "Recv")
		emitStr("mpmcSendDiff", assignRhs(fset, send.Body, "diff"))
		emitStr("mpmcRecvDiff", assignRhs(fset, recv.Body, "diff"))
		emitStr("mpmcSendCell", assignRhs(fset, send.Body, "cell"))
		emitStr("mpmcRecvCell", assignRhs(fset, recv.Body, "cell"))
		ext, _ := get(fset, f, "Queue", "extend")
		emitStr("mpmcExtendSize", assignRhs(fset, ext.Body, "currentSize"))
		emitStr("mpmcExtendOldIndex", assignRhs(fset, ext.Body, "oldIndex"))
		emitStr("mpmcExtendNewData", assignRhs(fset, ext.Body, "newData"))
		var ranges []string
		ast.Inspect(ext.Body, func(n ast.Node) bool {
			if rs, ok := n.(*ast.RangeStmt); ok {
				ranges = append(ranges, src(fset, rs.X))
			}
			if fs, ok := n.(*ast.ForStmt); ok && fs.Init != nil {
				ranges = append(ranges, src(fset, fs.Init))
			}
			return true
		})
		emitList("mpmcExtendLoops", ranges)
		var snaps []string
		for _, v := range []string{"capacity", "extensions", "extended"} {
			snaps = append(snaps, v+" := "+assignRhs(fset, send.Body, v))
		}
		emitList("mpmcSendSnapshot", snaps)
		// ---- mpsc
		fset2, f2, err := parseFile(repo, mpscPath)
		if err != nil {
			return Result{}, err
		}
		for _, m := range []struct{ recv, fn, lean string }{
			{"", "NewAccumulator", "mpscNew"}, {"Accumulator", "Send", "mpscSend"}, {"Accumulator", "Recv", "mpscRecv"},
			{"Accumulator", "TryRecv", "mpscTryRecv"}, {"Accumulator", "Close", "mpscClose"},
		} {
			fd, err := get(fset2, f2, m.recv, m.fn)
			if err != nil {
				return Result{}, err
			}
			emitList(m.lean+"Ops", opsOf(fset2, fd.Body))
			emitList(m.lean+"Conds", condsOf(fset2, fd.Body))
		}
		na, _ := get(fset2, f2, "", "NewAccumulator")
		sc, dc := chanCap(fset2, na.Body, "signal"), chanCap(fset2, na.Body, "done")
		if sc < 0 || dc < 0 {
			return Result{}, fmt.Errorf("NewAccumulator: make(chan struct{}...) for signal/done not found")
		}
		emitNat("mpscSignalCap", sc)
		emitNat("mpscDoneCap", dc)
		emitStr("mpscTailFieldType", structFieldType(fset2, f2, "Accumulator", "tail"))
		kinds, err := constBlockIota(f2, "end")
		if err != nil {
			return Result{}, err
		}
		emitList("mpscKinds", kinds)
		// ---- pipeline mediums: consumer discipline
		fset3, f3, err := parseFile(repo, mediumPath)
		if err != nil {
			return Result{}, err
		}
		nqm, err := get(fset3, f3, "", "NewQueueMedium")
		if err != nil {
			return Result{}, err
		}
		qext := ""
		ast.Inspect(nqm.Body, func(n ast.Node) bool {
			if ce, ok := n.(*ast.CallExpr); ok && strings.HasPrefix(src(fset3, ce.Fun), "mpmc.MustQueue") && len(ce.Args) == 2 {
				qext = src(fset3, ce.Args[1])
			}
			return true
		})
		if qext == "" {
			return Result{}, fmt.Errorf("NewQueueMedium: mpmc.MustQueue(capacity, extensions) call not found")
		}
		emitStr("pipelineQueueExtensions", qext)
		emitStr("queueMediumClosedType", structFieldType(fset3, f3, "QueueMedium", "closed"))
		emitStr("accMediumClosedType", structFieldType(fset3, f3, "AccumulatorMedium", "closed"))
		writesClosed := func(recvType string) (bool, error) {
			fd, err := get(fset3, f3, recvType, "Recv")
			if err != nil {
				return false, err
			}
			w := false
			ast.Inspect(fd.Body, func(n ast.Node) bool {
				if as, ok := n.(*ast.AssignStmt); ok && len(as.Lhs) == 1 && strings.HasSuffix(src(fset3, as.Lhs[0]), ".closed") {
					w = true
				}
				return true
			})
			return w, nil
		}
		w1, err := writesClosed("QueueMedium")
		if err != nil {
			return Result{}, err
		}
		w2, err := writesClosed("AccumulatorMedium")
		if err != nil {
			return Result{}, err
		}
		emitBool("queueMediumRecvWritesClosed", w1)
		emitBool("accMediumRecvWritesClosed", w2)
		emitBool("mediumDocSingleConsumer", strings.Contains(typeDoc(f3, "Medium"), "multiple-producer, single-consumer"))
		emitBool("queueMediumDocSingleConsumer", strings.Contains(typeDoc(f3, "QueueMedium"), "single-consumer"))
		// Core.ProcessSender: the only reader of a sender is the calling goroutine itself (the
		// Recv loop is not inside a spawned closure; the NumProcs workers read an internal channel)
		fset4, f4, err := parseFile(repo, "internal/listobjects/pipeline/internal/worker/core.go")
		if err != nil {
			return Result{}, err
		}
		ps, err := get(fset4, f4, "Core", "ProcessSender")
		if err != nil {
			return Result{}, err
		}
		recvOutside, recvInside := 0, 0
		var walk func(n ast.Node, inLit bool)
		walk = func(n ast.Node, inLit bool) {
			ast.Inspect(n, func(m ast.Node) bool {
				if m == n {
					return true
				}
				switch x := m.(type) {
				case *ast.FuncLit:
					walk(x.Body, true)
					return false
				case *ast.CallExpr:
					if strings.HasSuffix(src(fset4, x.Fun), "sender.Recv") {
						if inLit {
							recvInside++
						} else {
							recvOutside++
						}
					}
				}
				return true
			})
		}
		walk(ps.Body, false)
		emitNat("processSenderRecvOutsideClosures", recvOutside)
		emitNat("processSenderRecvInsideClosures", recvInside)
		drain := false
		for _, st := range ps.Body.List {
			if d, ok := st.(*ast.DeferStmt); ok && strings.HasPrefix(src(fset4, d.Call), "DrainSender(") {
				drain = true
			}
		}
		emitBool("processSenderDrainsInSameGoroutine", drain)
		sb.WriteString("\nend OpenFGAVerif.Gen.Queue\n")
		return Result{Lean: sb.String(), Summary: summary}, nil
	})
}
