package main

import (
	"fmt"
	"go/ast"
	"go/token"
	"strings"
)

// Reducer: the protocol facts of the Check reducers and of the dispatch pipeline on which the theorems of C20
// (Proofs/Reducer.lean, Proofs/Dispatch.lean) depend:
//   - internal/graph/check.go  union / intersection / exclusion: capacity expression of every result channel,
//     number of plain `ch <- x` statements (must be 0), the `TrySendThroughChannel(ctx, …, ch)` calls with their
//     context and channel, `defer cancel()`, the closer goroutine (`pool.Wait(); close(out)`), the loop bound
//   - internal/graph/default_resolver.go  defaultUserset / defaultTTU (capacity of dispatchChan, the deferred
//     `cancelFunc(); pool.Wait()`), produce…Dispatches (`defer close`, sends), processDispatches (capacity of
//     outcomes, deferred `dispatchPool.Wait(); close(outcomes)`, sends), consumeDispatches (`cancel()` right
//     after the loop)
//   - internal/concurrency/concurrency.go  TrySendThroughChannel: the two select cases
//
// rdFuncFacts collects, for one function body (closures included):
type rdFacts struct {
	makes      []string // "name=cap expr" for every `name := make(chan T, cap)` ("" cap = unbuffered)
	plainSends []string // every SendStmt rendered
	trySends   []string // "ctx|channel" of every concurrency.TrySendThroughChannel call
	defers     []string // rendered deferred calls / deferred closure skeletons
	gos        []string // skeleton of every `go func(){…}()` body
	pools      []string // "name=NewPool(args)"
	forConds   []string // conditions of the `for` statements
}

func rdCollect(fset *token.FileSet, body *ast.BlockStmt) rdFacts {
	var f rdFacts
	ast.Inspect(body, func(n ast.Node) bool {
		switch x := n.(type) {
		case *ast.AssignStmt:
			if len(x.Lhs) == 1 && len(x.Rhs) == 1 {
				if ce, ok := x.Rhs[0].(*ast.CallExpr); ok {
					fun := src(fset, ce.Fun)
					if fun == "make" && len(ce.Args) >= 1 {
						if _, isChan := ce.Args[0].(*ast.ChanType); isChan {
							c := ""
							if len(ce.Args) >= 2 {
								c = src(fset, ce.Args[1])
							}
							f.makes = append(f.makes, src(fset, x.Lhs[0])+"="+c)
						}
					}
					if fun == "concurrency.NewPool" {
						var as []string
						for _, a := range ce.Args {
							as = append(as, src(fset, a))
						}
						f.pools = append(f.pools, src(fset, x.Lhs[0])+"=NewPool("+strings.Join(as, ", ")+")")
					}
				}
			}
		case *ast.SendStmt:
			f.plainSends = append(f.plainSends, src(fset, x))
		case *ast.CallExpr:
			if src(fset, x.Fun) == "concurrency.TrySendThroughChannel" && len(x.Args) == 3 {
				f.trySends = append(f.trySends, src(fset, x.Args[0])+"|"+src(fset, x.Args[2]))
			}
		case *ast.DeferStmt:
			if fl, ok := x.Call.Fun.(*ast.FuncLit); ok {
				f.defers = append(f.defers, strings.Join(azSkeleton(fset, fl.Body), "; "))
			} else {
				f.defers = append(f.defers, src(fset, x.Call))
			}
		case *ast.GoStmt:
			if fl, ok := x.Call.Fun.(*ast.FuncLit); ok {
				sk := azSkeleton(fset, fl.Body)
				// keep the goroutine's statements short: only the calls that matter for the protocol
				var keep []string
				for _, s := range sk {
					if len(s) < 200 && !strings.HasPrefix(s, "defer ") && (strings.Contains(s, "Wait()") || strings.HasPrefix(s, "close(") || strings.Contains(s, "TrySendThroughChannel")) {
						keep = append(keep, s)
					}
				}
				f.gos = append(f.gos, strings.Join(keep, "; "))
			}
		case *ast.ForStmt:
			if x.Cond != nil {
				f.forConds = append(f.forConds, src(fset, x.Cond))
			} else {
				f.forConds = append(f.forConds, "")
			}
		}
		return true
	})
	return f
}

func init() {
	register("Reducer", func(repo string) (Result, error) {
		fset, f, err := parseFile(repo, "internal/graph/check.go")
		if err != nil {
			return Result{}, err
		}
		fset2, f2, err := parseFile(repo, "internal/graph/default_resolver.go")
		if err != nil {
			return Result{}, err
		}
		fset3, f3, err := parseFile(repo, "internal/concurrency/concurrency.go")
		if err != nil {
			return Result{}, err
		}
		var sb strings.Builder
		sb.WriteString(genHeader)
		sb.WriteString("namespace OpenFGAVerif.Gen.Reducer\n\n")
		summary := map[string]interface{}{}
		emit := func(prefix string, fs *token.FileSet, file *ast.File, recv, name string) error {
			fd := findFunc(file, recv, name)
			if fd == nil {
				return fmt.Errorf("func %s not found", name)
			}
			x := rdCollect(fs, fd.Body)
			sb.WriteString("/-- " + name + ": channels created, as name=capacity -/\n")
			sb.WriteString("def " + prefix + "Makes : List String := " + leanStrList(x.makes) + "\n")
			sb.WriteString("def " + prefix + "PlainSends : List String := " + leanStrList(x.plainSends) + "\n")
			sb.WriteString("/-- " + name + ": TrySendThroughChannel calls as ctx|channel -/\n")
			sb.WriteString("def " + prefix + "TrySends : List String := " + leanStrList(x.trySends) + "\n")
			sb.WriteString("def " + prefix + "Defers : List String := " + leanStrList(x.defers) + "\n")
			sb.WriteString("def " + prefix + "Gos : List String := " + leanStrList(x.gos) + "\n")
			sb.WriteString("def " + prefix + "Pools : List String := " + leanStrList(x.pools) + "\n")
			sb.WriteString("def " + prefix + "ForConds : List String := " + leanStrList(x.forConds) + "\n\n")
			summary[name] = map[string]interface{}{"makes": x.makes, "plainSends": x.plainSends, "trySends": x.trySends, "defers": x.defers, "gos": x.gos}
			return nil
		}
		for _, e := range []struct{ p, recv, name string }{{"union", "", "union"}, {"intersection", "", "intersection"}, {"exclusion", "", "exclusion"}} {
			if err := emit(e.p, fset, f, e.recv, e.name); err != nil {
				return Result{}, err
			}
		}
		for _, e := range []struct{ p, name string }{{"defaultUserset", "defaultUserset"}, {"defaultTTU", "defaultTTU"},
			{"produceUserset", "produceUsersetDispatches"}, {"produceTTU", "produceTTUDispatches"},
			{"processDispatches", "processDispatches"}, {"consumeDispatches", "consumeDispatches"}} {
			if err := emit(e.p, fset2, f2, "LocalChecker", e.name); err != nil {
				return Result{}, err
			}
		}
		// consumeDispatches: the statement right after the labelled loop
		cd := findFunc(f2, "LocalChecker", "consumeDispatches")
		after := ""
		for i, st := range cd.Body.List {
			if ls, ok := st.(*ast.LabeledStmt); ok {
				if _, isFor := ls.Stmt.(*ast.ForStmt); isFor && i+1 < len(cd.Body.List) {
					after = src(fset2, cd.Body.List[i+1])
				}
			}
		}
		if after == "" {
			return Result{}, fmt.Errorf("consumeDispatches: labelled consumer loop not found")
		}
		sb.WriteString("/-- consumeDispatches: the statement right after the consumer loop -/\n")
		sb.WriteString("def consumeAfterLoop : String := " + leanStr(after) + "\n")
		// every plain send anywhere in the two files
		total := 0
		for _, pr := range []struct {
			fs *token.FileSet
			f  *ast.File
		}{{fset, f}, {fset2, f2}} {
			ast.Inspect(pr.f, func(n ast.Node) bool {
				if _, ok := n.(*ast.SendStmt); ok {
					total++
				}
				return true
			})
		}
		sb.WriteString("/-- number of plain `ch <- x` statements in check.go and default_resolver.go -/\n")
		sb.WriteString(fmt.Sprintf("def plainSendsInFiles : Nat := %d\n", total))
		// TrySendThroughChannel
		ts := findFunc(f3, "", "TrySendThroughChannel")
		if ts == nil {
			return Result{}, fmt.Errorf("TrySendThroughChannel not found")
		}
		var cases []string
		ast.Inspect(ts.Body, func(n ast.Node) bool {
			if cc, ok := n.(*ast.CommClause); ok {
				c := "default"
				if cc.Comm != nil {
					c = src(fset3, cc.Comm)
				}
				var body []string
				for _, s := range cc.Body {
					body = append(body, src(fset3, s))
				}
				cases = append(cases, c+" => "+strings.Join(body, "; "))
			}
			return true
		})
		sb.WriteString("/-- the select cases of concurrency.TrySendThroughChannel -/\n")
		sb.WriteString("def trySendCases : List String := " + leanStrList(cases) + "\n")
		np := findFunc(f3, "", "NewPool")
		if np == nil {
			return Result{}, fmt.Errorf("NewPool not found")
		}
		sb.WriteString("def newPoolBody : String := " + leanStr(src(fset3, np.Body)) + "\n")
		sb.WriteString("\nend OpenFGAVerif.Gen.Reducer\n")
		summary["plainSendsInFiles"] = total
		summary["trySendCases"] = cases
		summary["consumeAfterLoop"] = after
		return Result{Lean: sb.String(), Summary: summary}, nil
	})
}
