package main

import (
	"fmt"
	"go/ast"
	"go/token"
	"sort"
	"strings"
)

// Release: the "release discipline" facts on which the resource part of C20 (and the no-hang part of C19) rests.
// Three tables, regenerated from the source on every run and tied to reviewed copies in Props/C20.lean:
//
//  1. stop discipline  — for every function of the listed files, every statement that OBTAINS an iterator
//     (`x[, err] := <call>` where the callee is a datastore read, an iterator constructor / wrapper or one of the
//     iterator-building helpers) with what happens to it:
//       defer        `defer x.Stop()` follows, and between the assignment and that defer there is no `return` other
//                    than inside the `if err != nil {…}` guard right after the assignment
//       static       storage.NewStaticTupleKeyIterator over a slice: nothing to release
//       wraps-deferred:y   x is a pure adapter over y, an iterator of the same function whose Stop is deferred
//       owner:y      x is handed to another obtaining call whose result y is itself in the table (y's Stop covers x)
//       returned     x is returned to the caller (who is in the table as the obtainer)
//       passed:f     x is handed to a call f(…x…) / a composite literal (message) — f's contract stops it
//       passed:f+stop   … and stopped explicitly where the hand-over fails (`if !TrySend(…Msg{Iter: x}…) { x.Stop() }`)
//       stop-all-paths   x.Stop() is called explicitly and no `return` lies between the assignment and the last
//                    explicit Stop (other than the error guard)
//       stop-misses-returns:N   explicit Stop only, and N `return` statements lie before it  ⇒ NOT covered
//       none         nothing of the above ⇒ NOT covered
//  2. send discipline  — every channel send statement of the listed files: inside a `select` that also has a
//     `<-….Done()` case (select-done), inside a select with default (select-default), or plain; a plain send is
//     recorded with the capacity expression of the channel (from `make(chan T, cap)` in the same function, `?` when
//     the channel is a parameter / field).  Plus the number of TrySendThroughChannel calls per file.
//  3. defer order      — for every function that defers a `….Wait()`: the deferred actions in EXECUTION order (defers
//     run last-in-first-out; statements of a deferred closure in order) and whether every deferred cancel call of a
//     context created in the function runs before the Wait.
//
// Syntactic (go/ast, no type information): callee names decide what obtains an iterator.  A new way to obtain one
// that matches none of the patterns is not seen; what is seen must be classified, and the iterator-accounting harness
// of C20 observes the real iterators.

var relStopFiles = []string{
	"internal/graph/check.go",
	"internal/graph/default_resolver.go",
	"internal/graph/weight_two_resolver.go",
	"internal/graph/recursive_resolver.go",
	"internal/graph/object_providers.go",
	"internal/check/check.go",
	"internal/check/recursive.go",
	"internal/check/weight2.go",
	"internal/check/bottom_up.go",
	"internal/checkutil/checkutil.go",
	"pkg/server/commands/expand.go",
	"pkg/server/commands/list_objects.go",
	"pkg/server/commands/listusers/list_users_rpc.go",
	"pkg/server/commands/reverseexpand/reverse_expand.go",
	"pkg/server/commands/reverseexpand/reverse_expand_weighted.go",
	"internal/listobjects/pipeline/store.go",
}

var relSendFiles = []string{
	"internal/graph/check.go",
	"internal/graph/default_resolver.go",
	"internal/graph/weight_two_resolver.go",
	"internal/graph/recursive_resolver.go",
	"internal/graph/object_providers.go",
	"internal/graph/cached_resolver.go",
	"internal/graph/shadow_resolver.go",
	"internal/graph/dispatch_throttling_check_resolver.go",
	"internal/check/check.go",
	"internal/check/default.go",
	"internal/check/recursive.go",
	"internal/check/weight2.go",
	"internal/check/bottom_up.go",
	"pkg/server/commands/list_objects.go",
	"pkg/server/commands/listusers/list_users_rpc.go",
	"pkg/server/commands/reverseexpand/reverse_expand.go",
	"pkg/server/commands/reverseexpand/reverse_expand_weighted.go",
}

var relDeferFiles = []string{
	"internal/graph/check.go",
	"internal/graph/default_resolver.go",
	"internal/graph/recursive_resolver.go",
	"internal/graph/weight_two_resolver.go",
	"internal/graph/object_providers.go",
	"internal/check/check.go",
	"internal/check/default.go",
	"internal/check/recursive.go",
	"internal/check/weight2.go",
	"internal/check/bottom_up.go",
	"pkg/server/commands/list_objects.go",
	"pkg/server/commands/listusers/list_users_rpc.go",
	"pkg/server/commands/reverseexpand/reverse_expand.go",
	"pkg/server/commands/reverseexpand/reverse_expand_weighted.go",
}

// relObtains: does this call obtain an iterator?  (last component of the callee)
func relObtains(fset *token.FileSet, ce *ast.CallExpr) (string, bool) {
	name := ""
	recv := ""
	switch f := ce.Fun.(type) {
	case *ast.SelectorExpr:
		name = f.Sel.Name
		recv = src(fset, f.X)
	case *ast.Ident:
		name = f.Name
	default:
		return "", false
	}
	full := name
	if recv != "" {
		full = recv + "." + name
	}
	switch name {
	case "Read", "ReadUsersetTuples", "ReadStartingWithUser":
		// a datastore read (not ReadPage / ReadUserTuple, which return values) — the receiver is a datastore-like expression
		lr := strings.ToLower(recv)
		if len(ce.Args) >= 3 && (strings.Contains(lr, "datastore") || strings.HasSuffix(lr, "ds") || strings.HasSuffix(lr, "store") || strings.HasSuffix(lr, "reader")) {
			return full, true
		}
		return "", false
	case "IteratorReadUsersetTuples", "IteratorReadStartingFromUser", "buildFilteredIterator", "buildIterator", "createIterator",
		"WrapIterator", "Validate", "Merge", "Concat", "FromChannel":
		if name == "Validate" || name == "Merge" || name == "Concat" || name == "FromChannel" {
			if recv != "iterator" {
				return "", false
			}
		}
		return full, true
	}
	if strings.HasPrefix(name, "New") && strings.Contains(name, "Iterator") {
		return full, true
	}
	return "", false
}

type relSite struct {
	where string // file:func
	v     string
	call  string
	disp  string
}

func relMentions(fset *token.FileSet, n ast.Node, v string) bool {
	found := false
	ast.Inspect(n, func(x ast.Node) bool {
		if id, ok := x.(*ast.Ident); ok && id.Name == v {
			found = true
		}
		return !found
	})
	return found
}

// relStopSites analyses one function body (closures are analysed as part of the enclosing function: a deferred
// Stop in the closure that obtained the iterator is found because positions are compared within the innermost
// function literal that contains the assignment).
func relStopSites(fset *token.FileSet, where string, body *ast.BlockStmt) []relSite {
	var sites []relSite
	// innermost function scope of every obtaining assignment
	var visit func(scope *ast.BlockStmt)
	visit = func(scope *ast.BlockStmt) {
		type obt struct {
			as   *ast.AssignStmt
			v    string
			call string
			ce   *ast.CallExpr
		}
		var obts []obt
		var inner []*ast.BlockStmt
		ast.Inspect(scope, func(n ast.Node) bool {
			if fl, ok := n.(*ast.FuncLit); ok {
				inner = append(inner, fl.Body)
				return false
			}
			as, ok := n.(*ast.AssignStmt)
			if !ok || len(as.Rhs) != 1 || len(as.Lhs) < 1 || len(as.Lhs) > 2 {
				return true
			}
			ce, ok := as.Rhs[0].(*ast.CallExpr)
			if !ok {
				return true
			}
			call, is := relObtains(fset, ce)
			if !is {
				return true
			}
			id, ok := as.Lhs[0].(*ast.Ident)
			if !ok || id.Name == "_" {
				return true
			}
			obts = append(obts, obt{as, id.Name, call, ce})
			return true
		})
		for _, o := range obts {
			// the error guard right after the assignment
			var guard *ast.IfStmt
			var after []ast.Stmt
			ast.Inspect(scope, func(n ast.Node) bool {
				if _, ok := n.(*ast.FuncLit); ok {
					return false
				}
				if b, ok := n.(*ast.BlockStmt); ok {
					for i, st := range b.List {
						if st == ast.Stmt(o.as) {
							after = b.List[i+1:]
						}
					}
				}
				if cc, ok := n.(*ast.CaseClause); ok {
					for i, st := range cc.Body {
						if st == ast.Stmt(o.as) {
							after = cc.Body[i+1:]
						}
					}
				}
				return true
			})
			if len(after) > 0 {
				if is, ok := after[0].(*ast.IfStmt); ok && strings.Contains(src(fset, is.Cond), "err") {
					guard = is
				}
			}
			inGuard := func(p token.Pos) bool { return guard != nil && p >= guard.Pos() && p <= guard.End() }
			var deferPos, lastStop token.Pos
			stops := 0
			ast.Inspect(scope, func(n ast.Node) bool {
				switch x := n.(type) {
				case *ast.DeferStmt:
					if x.Pos() > o.as.End() && src(fset, x.Call) == o.v+".Stop()" && deferPos == token.NoPos {
						deferPos = x.Pos()
					}
				case *ast.ExprStmt:
					if x.Pos() > o.as.End() && src(fset, x.X) == o.v+".Stop()" {
						stops++
						if x.Pos() > lastStop {
							lastStop = x.Pos()
						}
					}
				}
				return true
			})
			returnsBefore := func(limit token.Pos) int {
				k := 0
				ast.Inspect(scope, func(n ast.Node) bool {
					if _, ok := n.(*ast.FuncLit); ok {
						return false
					}
					if r, ok := n.(*ast.ReturnStmt); ok && r.Pos() > o.as.End() && r.Pos() < limit && !inGuard(r.Pos()) {
						// a return that hands the iterator itself on is a transfer, not a leak
						if !relMentions(fset, r, o.v) {
							k++
						}
					}
					return true
				})
				return k
			}
			disp := ""
			if deferPos != token.NoPos {
				if k := returnsBefore(deferPos); k == 0 {
					disp = "defer"
				} else {
					disp = fmt.Sprintf("defer-after-returns:%d", k)
				}
			}
			if disp == "" && strings.HasSuffix(o.call, "NewStaticTupleKeyIterator") && len(o.ce.Args) == 1 {
				if _, isObt := o.ce.Args[0].(*ast.CallExpr); !isObt {
					disp = "static" // a slice in memory: no resource behind it
				}
			}
			if disp == "" {
				// a pure adapter over an iterator of this function whose Stop is deferred
				for _, o2 := range obts {
					if o2.as == o.as {
						continue
					}
					for _, a := range o.ce.Args {
						if id, ok := a.(*ast.Ident); ok && id.Name == o2.v {
							hasDefer := false
							ast.Inspect(scope, func(n ast.Node) bool {
								if d, ok := n.(*ast.DeferStmt); ok && src(fset, d.Call) == o2.v+".Stop()" {
									hasDefer = true
								}
								return true
							})
							if hasDefer {
								disp = "wraps-deferred:" + o2.v
							}
						}
					}
				}
			}
			if disp == "" {
				// handed to another obtaining call / returned / passed on
				for _, o2 := range obts {
					if o2.as != o.as && o2.as.Pos() > o.as.End() {
						for _, a := range o2.ce.Args {
							if relMentions(fset, a, o.v) {
								disp = "owner:" + o2.v
							}
						}
						if disp != "" {
							break
						}
					}
				}
			}
			if disp == "" {
				ast.Inspect(scope, func(n ast.Node) bool {
					if disp != "" {
						return false
					}
					switch x := n.(type) {
					case *ast.ReturnStmt:
						if x.Pos() > o.as.End() && !inGuard(x.Pos()) && relMentions(fset, x, o.v) {
							// `return f(…, x)` hands it to f, `return x` / `return wrap(x), nil` to the caller
							disp = "returned"
							for _, r := range x.Results {
								if ce, ok := r.(*ast.CallExpr); ok {
									if _, is := relObtains(fset, ce); !is {
										disp = "passed:" + src(fset, ce.Fun)
									}
								}
							}
						}
					}
					return true
				})
			}
			passedTo := ""
			if disp == "" {
				ast.Inspect(scope, func(n ast.Node) bool {
					if passedTo != "" {
						return false
					}
					switch x := n.(type) {
					case *ast.CallExpr:
						if x.Pos() > o.as.End() && x != o.ce {
							if _, is := relObtains(fset, x); !is {
								for _, a := range x.Args {
									if _, lit := a.(*ast.FuncLit); !lit && relMentions(fset, a, o.v) {
										passedTo = "passed:" + src(fset, x.Fun)
									}
								}
							}
						}
					}
					return true
				})
			}
			if disp == "" && stops > 0 {
				if passedTo != "" {
					disp = passedTo + "+stop"
				} else if k := returnsBefore(lastStop); k == 0 {
					disp = "stop-all-paths"
				} else {
					disp = fmt.Sprintf("stop-misses-returns:%d", k)
				}
			}
			if disp == "" && passedTo != "" {
				disp = passedTo
			}
			if disp == "" {
				ast.Inspect(scope, func(n ast.Node) bool {
					if disp != "" {
						return false
					}
					switch x := n.(type) {
					case *ast.CallExpr:
						if x.Pos() > o.as.End() && x != o.ce {
							if _, is := relObtains(fset, x); !is {
								for _, a := range x.Args {
									if relMentions(fset, a, o.v) {
										disp = "passed:" + src(fset, x.Fun)
									}
								}
							}
						}
					case *ast.CompositeLit:
						if x.Pos() > o.as.End() && relMentions(fset, x, o.v) {
							disp = "passed:" + src(fset, x.Type) + "{}"
						}
					}
					return true
				})
			}
			if disp == "" {
				disp = "none"
			}
			sites = append(sites, relSite{where, o.v, o.call, disp})
		}
		for _, b := range inner {
			visit(b)
		}
	}
	visit(body)
	return sites
}

type relSend struct {
	where string
	ch    string
	class string
}

func relSends(fset *token.FileSet, where string, body *ast.BlockStmt) []relSend {
	caps := map[string]string{}
	ast.Inspect(body, func(n ast.Node) bool {
		if as, ok := n.(*ast.AssignStmt); ok && len(as.Lhs) == 1 && len(as.Rhs) == 1 {
			if ce, ok := as.Rhs[0].(*ast.CallExpr); ok && src(fset, ce.Fun) == "make" && len(ce.Args) >= 1 {
				if _, isChan := ce.Args[0].(*ast.ChanType); isChan {
					c := "0"
					if len(ce.Args) >= 2 {
						c = src(fset, ce.Args[1])
					}
					caps[src(fset, as.Lhs[0])] = c
				}
			}
		}
		return true
	})
	// sends that are the communication of a select case
	inSelect := map[*ast.SendStmt]string{}
	ast.Inspect(body, func(n ast.Node) bool {
		sel, ok := n.(*ast.SelectStmt)
		if !ok {
			return true
		}
		hasDone, hasDefault := false, false
		var sends []*ast.SendStmt
		for _, c := range sel.Body.List {
			cc := c.(*ast.CommClause)
			if cc.Comm == nil {
				hasDefault = true
				continue
			}
			if s, ok := cc.Comm.(*ast.SendStmt); ok {
				sends = append(sends, s)
			}
			if strings.Contains(src(fset, cc.Comm), ".Done()") {
				hasDone = true
			}
		}
		for _, s := range sends {
			switch {
			case hasDone:
				inSelect[s] = "select-done"
			case hasDefault:
				inSelect[s] = "select-default"
			default:
				inSelect[s] = "select-no-exit"
			}
		}
		return true
	})
	var out []relSend
	ast.Inspect(body, func(n ast.Node) bool {
		s, ok := n.(*ast.SendStmt)
		if !ok {
			return true
		}
		ch := src(fset, s.Chan)
		class, sel := inSelect[s]
		if !sel {
			c, known := caps[ch]
			if !known {
				c = "?"
			}
			class = "plain:cap=" + c
		}
		out = append(out, relSend{where, ch, class})
		return true
	})
	return out
}

// relDeferOrder: deferred actions of one function scope in execution order, and whether cancel precedes Wait
func relDeferOrder(fset *token.FileSet, scope *ast.BlockStmt) ([]string, bool, bool) {
	var defers []*ast.DeferStmt
	cancels := map[string]bool{}
	ast.Inspect(scope, func(n ast.Node) bool {
		if _, ok := n.(*ast.FuncLit); ok {
			// a deferred closure belongs to this scope, any other closure is its own scope
			return false
		}
		switch x := n.(type) {
		case *ast.DeferStmt:
			defers = append(defers, x)
			return false
		case *ast.AssignStmt:
			if len(x.Lhs) == 2 && len(x.Rhs) == 1 {
				if ce, ok := x.Rhs[0].(*ast.CallExpr); ok {
					f := src(fset, ce.Fun)
					if f == "context.WithCancel" || f == "context.WithTimeout" || f == "context.WithDeadline" || f == "context.WithCancelCause" {
						cancels[src(fset, x.Lhs[1])] = true
					}
				}
			}
		}
		return true
	})
	var order []string
	for i := len(defers) - 1; i >= 0; i-- {
		d := defers[i]
		if fl, ok := d.Call.Fun.(*ast.FuncLit); ok {
			for _, st := range fl.Body.List {
				order = append(order, src(fset, st))
			}
		} else {
			order = append(order, src(fset, d.Call))
		}
	}
	hasWait := false
	waitAt, ok := -1, true
	for i, a := range order {
		if strings.Contains(a, ".Wait()") {
			hasWait = true
			if waitAt < 0 {
				waitAt = i
			}
		}
	}
	if hasWait {
		for i, a := range order {
			name := strings.TrimSuffix(a, "()")
			if cancels[name] && i > waitAt {
				ok = false // a cancel of this function's own context only runs after the Wait
			}
		}
	}
	return order, hasWait, ok
}

func relShort(file string) string {
	file = strings.TrimSuffix(file, ".go")
	parts := strings.Split(file, "/")
	if len(parts) >= 2 {
		return parts[len(parts)-2] + "/" + parts[len(parts)-1]
	}
	return file
}

func relFuncName(fd *ast.FuncDecl) string {
	return fd.Name.Name
}

func init() {
	register("Release", func(repo string) (Result, error) {
		var sb strings.Builder
		sb.WriteString(genHeader)
		sb.WriteString("namespace OpenFGAVerif.Gen.Release\n\n")
		summary := map[string]interface{}{}

		// 1. stop discipline
		var sites []relSite
		for _, file := range relStopFiles {
			fset, f, err := parseFile(repo, file)
			if err != nil {
				return Result{}, err
			}
			for _, d := range f.Decls {
				fd, ok := d.(*ast.FuncDecl)
				if !ok || fd.Body == nil {
					continue
				}
				sites = append(sites, relStopSites(fset, relShort(file)+":"+relFuncName(fd), fd.Body)...)
			}
		}
		if len(sites) < 20 {
			return Result{}, fmt.Errorf("stop discipline: only %d iterator-obtaining sites recognised (expected dozens): the patterns no longer match the source", len(sites))
		}
		sb.WriteString("/-- stop discipline: (file:function, variable, obtaining call, disposition kind, detail) for every iterator obtained in the listed files -/\n")
		sb.WriteString("def stopSites : List (String × String × String × String × String) := [\n")
		var ss []string
		uncovered := 0
		for i, s := range sites {
			sep := ","
			if i == len(sites)-1 {
				sep = ""
			}
			kind, detail := s.disp, ""
			if j := strings.IndexByte(s.disp, ':'); j >= 0 {
				kind, detail = s.disp[:j], s.disp[j+1:]
				if strings.HasSuffix(detail, "+stop") {
					kind, detail = kind+"+stop", strings.TrimSuffix(detail, "+stop")
				}
			}
			sb.WriteString("  (" + leanStr(s.where) + ", " + leanStr(s.v) + ", " + leanStr(s.call) + ", " + leanStr(kind) + ", " + leanStr(detail) + ")" + sep + "\n")
			ss = append(ss, s.where+" "+s.v+" := "+s.call+" -> "+s.disp)
			if s.disp == "none" || strings.HasPrefix(s.disp, "stop-misses-returns") || strings.HasPrefix(s.disp, "defer-after-returns") {
				uncovered++
			}
		}
		sb.WriteString("]\n\n")
		summary["stopSites"] = ss
		summary["stopSitesUncovered"] = uncovered

		// 2. send discipline
		var sends []relSend
		trySends := map[string]int{}
		for _, file := range relSendFiles {
			fset, f, err := parseFile(repo, file)
			if err != nil {
				return Result{}, err
			}
			for _, d := range f.Decls {
				fd, ok := d.(*ast.FuncDecl)
				if !ok || fd.Body == nil {
					continue
				}
				sends = append(sends, relSends(fset, relShort(file)+":"+relFuncName(fd), fd.Body)...)
			}
			n := 0
			ast.Inspect(f, func(x ast.Node) bool {
				if ce, ok := x.(*ast.CallExpr); ok && src(fset, ce.Fun) == "concurrency.TrySendThroughChannel" {
					n++
				}
				return true
			})
			trySends[relShort(file)] = n
		}
		sb.WriteString("/-- send discipline: (file:function, channel, class) for every channel send statement of the listed files\n(sends through concurrency.TrySendThroughChannel are calls, not send statements) -/\n")
		sb.WriteString("def sendSites : List (String × String × String) := [\n")
		var sd []string
		for i, s := range sends {
			sep := ","
			if i == len(sends)-1 {
				sep = ""
			}
			sb.WriteString("  (" + leanStr(s.where) + ", " + leanStr(s.ch) + ", " + leanStr(s.class) + ")" + sep + "\n")
			sd = append(sd, s.where+" "+s.ch+" "+s.class)
		}
		sb.WriteString("]\n\n")
		var tk []string
		for k := range trySends {
			tk = append(tk, k)
		}
		sort.Strings(tk)
		sb.WriteString("/-- number of concurrency.TrySendThroughChannel calls per file -/\n")
		sb.WriteString("def trySendCalls : List (String × Nat) := [")
		for i, k := range tk {
			if i > 0 {
				sb.WriteString(", ")
			}
			sb.WriteString(fmt.Sprintf("(%s, %d)", leanStr(k), trySends[k]))
		}
		sb.WriteString("]\n\n")
		summary["sendSites"] = sd
		summary["trySendCalls"] = trySends

		// 3. defer order
		type dord struct {
			where string
			order []string
			ok    bool
		}
		var dords []dord
		for _, file := range relDeferFiles {
			fset, f, err := parseFile(repo, file)
			if err != nil {
				return Result{}, err
			}
			for _, d := range f.Decls {
				fd, ok := d.(*ast.FuncDecl)
				if !ok || fd.Body == nil {
					continue
				}
				// the function scope and every closure that is not itself a deferred closure
				scopes := []*ast.BlockStmt{fd.Body}
				names := []string{relFuncName(fd)}
				k := 0
				var collect func(n ast.Node)
				collect = func(n ast.Node) {
					ast.Inspect(n, func(x ast.Node) bool {
						if ds, ok := x.(*ast.DeferStmt); ok {
							if _, isLit := ds.Call.Fun.(*ast.FuncLit); isLit {
								return false
							}
						}
						if fl, ok := x.(*ast.FuncLit); ok {
							k++
							scopes = append(scopes, fl.Body)
							names = append(names, fmt.Sprintf("%s.func%d", relFuncName(fd), k))
						}
						return true
					})
				}
				collect(fd.Body)
				for i, sc := range scopes {
					order, hasWait, ok := relDeferOrder(fset, sc)
					if hasWait {
						dords = append(dords, dord{relShort(file) + ":" + names[i], order, ok})
					}
				}
			}
		}
		if len(dords) < 4 {
			return Result{}, fmt.Errorf("defer order: only %d functions with a deferred Wait recognised", len(dords))
		}
		sb.WriteString("/-- defer order: (file:function, deferred actions in EXECUTION order joined by \" ; \", every deferred cancel of the\nfunction's own context runs before the first deferred Wait) -/\n")
		sb.WriteString("def deferOrders : List (String × String × Bool) := [\n")
		var dd []string
		for i, d := range dords {
			sep := ","
			if i == len(dords)-1 {
				sep = ""
			}
			b := "false"
			if d.ok {
				b = "true"
			}
			sb.WriteString("  (" + leanStr(d.where) + ", " + leanStr(strings.Join(d.order, " ; ")) + ", " + b + ")" + sep + "\n")
			dd = append(dd, fmt.Sprintf("%s: %s [%v]", d.where, strings.Join(d.order, " ; "), d.ok))
		}
		sb.WriteString("]\n\n")
		summary["deferOrders"] = dd

		// 4. OrderedCombinedIterator.head: every removal from the pending list and whether the source is stopped right before
		{
			fset, f, err := parseFile(repo, "pkg/storage/tuple_iterators.go")
			if err != nil {
				return Result{}, err
			}
			hd := findFunc(f, "OrderedCombinedIterator", "head")
			if hd == nil {
				return Result{}, fmt.Errorf("OrderedCombinedIterator.head not found")
			}
			type rem struct {
				stmt string
				ok   bool
			}
			var rems []rem
			ast.Inspect(hd.Body, func(n ast.Node) bool {
				b, ok := n.(*ast.BlockStmt)
				if !ok {
					return true
				}
				for i, st := range b.List {
					as, ok := st.(*ast.AssignStmt)
					if !ok || len(as.Lhs) != 1 || len(as.Rhs) != 1 {
						continue
					}
					if _, isIdx := as.Lhs[0].(*ast.IndexExpr); !isIdx || !strings.HasPrefix(src(fset, as.Lhs[0]), "c.pending[") || src(fset, as.Rhs[0]) != "nil" {
						continue
					}
					prev := ""
					if i > 0 {
						prev = src(fset, b.List[i-1])
					}
					rems = append(rems, rem{src(fset, as), prev == "iter.Stop()"})
				}
				return true
			})
			if len(rems) == 0 {
				return Result{}, fmt.Errorf("OrderedCombinedIterator.head: no `c.pending[i] = nil` removal found")
			}
			sb.WriteString("/-- OrderedCombinedIterator.head: every removal of a source from the pending list, and whether `iter.Stop()` is the\nstatement right before it -/\n")
			sb.WriteString("def ocRemovals : List (String × Bool) := [")
			var rs []string
			for i, r := range rems {
				if i > 0 {
					sb.WriteString(", ")
				}
				b := "false"
				if r.ok {
					b = "true"
				}
				sb.WriteString("(" + leanStr(r.stmt) + ", " + b + ")")
				rs = append(rs, fmt.Sprintf("%s stopped-before=%v", r.stmt, r.ok))
			}
			sb.WriteString("]\n\n")
			summary["ocRemovals"] = rs
		}

		sb.WriteString("end OpenFGAVerif.Gen.Release\n")
		return Result{Lean: sb.String(), Summary: summary}, nil
	})
}
