package main

import (
	"fmt"
	"go/ast"
	"strings"
)

// Release2: two release points outside the iterator/send tables of facts_release.go.
//
//	throttleWait   internal/throttler/throttler.go constantRateThrottler.Throttle: the statement that parks the
//	               caller — a select that also watches ctx.Done() (a parked dispatch must give up at the deadline)
//	drainPrologue  pkg/storage/storagewrappers/iterator_cache.go CachingIterator.drainInBackground: the statements
//	               before the first `return` — `defer c.inner.Stop()` must be among them, or the early return
//	               ("already cached by another goroutine") leaves the datastore iterator open
func init() {
	register("Release2", func(repo string) (Result, error) {
		fset, f, err := parseFile(repo, "internal/throttler/throttler.go")
		if err != nil {
			return Result{}, err
		}
		th := findFunc(f, "constantRateThrottler", "Throttle")
		if th == nil {
			return Result{}, fmt.Errorf("constantRateThrottler.Throttle not found")
		}
		var waits []string
		ast.Inspect(th.Body, func(n ast.Node) bool {
			switch x := n.(type) {
			case *ast.SelectStmt:
				var cs []string
				for _, c := range x.Body.List {
					if cc, ok := c.(*ast.CommClause); ok {
						if cc.Comm == nil {
							cs = append(cs, "default")
						} else {
							cs = append(cs, src(fset, cc.Comm))
						}
					}
				}
				waits = append(waits, "select{"+strings.Join(cs, " | ")+"}")
				return false
			case *ast.UnaryExpr:
				if x.Op.String() == "<-" {
					waits = append(waits, "recv "+src(fset, x.X))
				}
			}
			return true
		})
		fset2, f2, err := parseFile(repo, "pkg/storage/storagewrappers/iterator_cache.go")
		if err != nil {
			return Result{}, err
		}
		dr := findFunc(f2, "CachingIterator", "drainInBackground")
		if dr == nil {
			return Result{}, fmt.Errorf("CachingIterator.drainInBackground not found")
		}
		var prologue []string
		for _, s := range dr.Body.List {
			hasReturn := false
			ast.Inspect(s, func(n ast.Node) bool {
				if _, ok := n.(*ast.FuncLit); ok {
					return false
				}
				if _, ok := n.(*ast.ReturnStmt); ok {
					hasReturn = true
				}
				return true
			})
			if hasReturn {
				break
			}
			prologue = append(prologue, src(fset2, s))
		}
		var sb strings.Builder
		sb.WriteString(genHeader)
		sb.WriteString("namespace OpenFGAVerif.Gen.Release2\n\n")
		sb.WriteString("/-- blocking waits of constantRateThrottler.Throttle -/\n")
		sb.WriteString("def throttleWait : List String := " + leanStrList(waits) + "\n")
		sb.WriteString("/-- statements of CachingIterator.drainInBackground before the first statement that can return -/\n")
		sb.WriteString("def drainPrologue : List String := " + leanStrList(prologue) + "\n")
		sb.WriteString("\nend OpenFGAVerif.Gen.Release2\n")
		return Result{Lean: sb.String(), Summary: map[string]interface{}{"throttleWait": waits, "drainPrologue": prologue}}, nil
	})
}
