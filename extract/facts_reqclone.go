package main

import (
	"fmt"
	"go/ast"
	"go/token"
	"os"
	"path/filepath"
	"sort"
	"strings"
)

// ReqClone: how the two engines propagate the request-invariant parts to dispatched sub-problems.
//
//	default engine  internal/graph/resolve_check_request.go: struct fields of ResolveCheckRequest, the
//	                field := value pairs of the composite literal in clone(), the arguments of the
//	                storage.InvariantCacheKey call in NewResolveCheckRequest
//	weighted graph  internal/check/request.go: the pairs of cloneWithTupleKey (composite literal and
//	                the req.x = … assignments after it), the InvariantCacheKey arguments in NewRequest
//
// The sub-problem cache key is (store, object, relation, user, invariantCacheKey) and a cached entry is
// valid when it is younger than LastCacheInvalidationTime: a clone that forgets one of these fields makes
// sub-problems share entries across requests (C08, C04) or accept entries older than the last write (C11).
func init() {
	register("ReqClone", func(repo string) (Result, error) {
		pairsOfLit := func(fset *token.FileSet, cl *ast.CompositeLit) [][2]string {
			var out [][2]string
			for _, e := range cl.Elts {
				if kv, ok := e.(*ast.KeyValueExpr); ok {
					out = append(out, [2]string{src(fset, kv.Key), src(fset, kv.Value)})
				}
			}
			return out
		}
		invArgs := func(fset *token.FileSet, body ast.Node) string {
			res := ""
			ast.Inspect(body, func(n ast.Node) bool {
				if ce, ok := n.(*ast.CallExpr); ok && src(fset, ce.Fun) == "storage.InvariantCacheKey" {
					var as []string
					for _, a := range ce.Args {
						as = append(as, src(fset, a))
					}
					if ce.Ellipsis.IsValid() && len(as) > 0 {
						as[len(as)-1] += "..."
					}
					res = strings.Join(as, ", ")
				}
				return true
			})
			return res
		}
		// ---- default engine
		fset, f, err := parseFile(repo, "internal/graph/resolve_check_request.go")
		if err != nil {
			return Result{}, err
		}
		var fields []string
		ast.Inspect(f, func(n ast.Node) bool {
			ts, ok := n.(*ast.TypeSpec)
			if !ok || ts.Name.Name != "ResolveCheckRequest" {
				return true
			}
			if st, ok := ts.Type.(*ast.StructType); ok {
				for _, fl := range st.Fields.List {
					for _, nm := range fl.Names {
						fields = append(fields, nm.Name)
					}
				}
			}
			return false
		})
		cl := findFunc(f, "ResolveCheckRequest", "clone")
		if cl == nil || len(fields) == 0 {
			return Result{}, fmt.Errorf("ResolveCheckRequest / clone not found")
		}
		var v1Pairs [][2]string
		ast.Inspect(cl.Body, func(n ast.Node) bool {
			if c, ok := n.(*ast.CompositeLit); ok && src(fset, c.Type) == "ResolveCheckRequest" {
				v1Pairs = pairsOfLit(fset, c)
				return false
			}
			return true
		})
		nr := findFunc(f, "", "NewResolveCheckRequest")
		if nr == nil {
			return Result{}, fmt.Errorf("NewResolveCheckRequest not found")
		}
		v1Inv := invArgs(fset, nr.Body)
		// ---- weighted-graph engine
		fset2, f2, err := parseFile(repo, "internal/check/request.go")
		if err != nil {
			return Result{}, err
		}
		cw := findFunc(f2, "Request", "cloneWithTupleKey")
		nq := findFunc(f2, "", "NewRequest")
		if cw == nil || nq == nil {
			return Result{}, fmt.Errorf("Request.cloneWithTupleKey / NewRequest not found")
		}
		var v2Pairs [][2]string
		for _, st := range cw.Body.List {
			as, ok := st.(*ast.AssignStmt)
			if !ok || len(as.Lhs) != 1 || len(as.Rhs) != 1 {
				continue
			}
			if ue, ok := as.Rhs[0].(*ast.UnaryExpr); ok {
				if c, ok := ue.X.(*ast.CompositeLit); ok && src(fset2, c.Type) == "Request" {
					v2Pairs = append(v2Pairs, pairsOfLit(fset2, c)...)
					continue
				}
			}
			l := src(fset2, as.Lhs[0])
			if strings.HasPrefix(l, "req.") {
				v2Pairs = append(v2Pairs, [2]string{strings.TrimPrefix(l, "req."), src(fset2, as.Rhs[0])})
			}
		}
		v2Inv := invArgs(fset2, nq.Body)

		// ---- request literals built outside the package that owns the invariant key (it is unexported, so a
		// literal elsewhere carries invariantCacheKey = 0 and zero invalidation time)
		var foreignLits []string
		for _, root := range []string{"pkg", "internal", "cmd"} {
			_ = filepath.Walk(filepath.Join(repo, root), func(path string, info os.FileInfo, err error) error {
				if err != nil || info.IsDir() || !strings.HasSuffix(path, ".go") || strings.HasSuffix(path, "_test.go") {
					return nil
				}
				rel, _ := filepath.Rel(repo, path)
				if strings.HasPrefix(rel, "internal/graph/") || strings.Contains(rel, "/mocks/") {
					return nil
				}
				fs, ff, perr := parseFile(repo, rel)
				if perr != nil {
					return nil
				}
				for _, d := range ff.Decls {
					fd, ok := d.(*ast.FuncDecl)
					if !ok || fd.Body == nil {
						continue
					}
					ast.Inspect(fd.Body, func(n ast.Node) bool {
						if c, ok := n.(*ast.CompositeLit); ok && c.Type != nil && src(fs, c.Type) == "graph.ResolveCheckRequest" {
							foreignLits = append(foreignLits, rel+":"+fd.Name.Name)
						}
						return true
					})
				}
				return nil
			})
		}
		sort.Strings(foreignLits)

		pairList := func(ps [][2]string) string {
			var xs []string
			for _, p := range ps {
				xs = append(xs, "("+leanStr(p[0])+", "+leanStr(p[1])+")")
			}
			return "[" + strings.Join(xs, ", ") + "]"
		}
		var sb strings.Builder
		sb.WriteString(genHeader)
		sb.WriteString("namespace OpenFGAVerif.Gen.ReqClone\n\n")
		sb.WriteString("/-- fields of graph.ResolveCheckRequest in declaration order -/\n")
		sb.WriteString("def v1Fields : List String := " + leanStrList(fields) + "\n")
		sb.WriteString("/-- field := value pairs of the composite literal built by ResolveCheckRequest.clone -/\n")
		sb.WriteString("def v1Clone : List (String × String) := " + pairList(v1Pairs) + "\n")
		sb.WriteString("def v1InvariantArgs : String := " + leanStr(v1Inv) + "\n")
		sb.WriteString("/-- pairs of check.Request.cloneWithTupleKey (literal, then req.x = … assignments) -/\n")
		sb.WriteString("def v2Clone : List (String × String) := " + pairList(v2Pairs) + "\n")
		sb.WriteString("def v2InvariantArgs : String := " + leanStr(v2Inv) + "\n")
		sb.WriteString("/-- functions outside internal/graph that build a graph.ResolveCheckRequest as a struct literal -/\n")
		sb.WriteString("def foreignRequestLiterals : List String := " + leanStrList(foreignLits) + "\n")
		sb.WriteString("\nend OpenFGAVerif.Gen.ReqClone\n")
		return Result{Lean: sb.String(), Summary: map[string]interface{}{"v1Fields": fields, "v1Clone": len(v1Pairs), "v2Clone": len(v2Pairs), "v1InvariantArgs": v1Inv, "v2InvariantArgs": v2Inv}}, nil
	})
}
