package main

import (
	"fmt"
	"go/ast"
	"strings"
)

// ReqScope: WHERE the request-scoped view of the datastore (the wrapper that carries the contextual tuples of
// ONE request) is built, for the two Check commands that Server.BatchCheck shares among the items of a batch
// (used by C07 and C04):
//
//   - pkg/server/commands/check_command.go, CheckQuery.Execute: the wrapper is the result of a top-level
//     `x := storagewrappers.NewRequestStorageWrapperWithCache(c.datastore, params.ContextualTuples.GetTupleKeys(), …)`
//     statement of Execute itself (not inside a function literal, not behind a sync.Once), that local variable
//     is what is put into the context for the resolver, Execute assigns to no field of the receiver, calls no
//     `.Do(` and the struct has no field that could memoise a wrapper;
//   - pkg/server/commands/check.go, CheckQueryV2.resolve: the per-request `check.Request` (which indexes the
//     contextual tuples) is built by a top-level `r, err := check.NewRequest(check.RequestParams{…
//     ContextualTuples: params.ContextualTuples.GetTupleKeys() …})` of resolve and handed to ResolveCheck;
//     no receiver field is assigned.
func init() {
	register("ReqScope", func(repo string) (Result, error) {
		// ---------------- v1
		fset, f, err := parseFile(repo, "pkg/server/commands/check_command.go")
		if err != nil {
			return Result{}, err
		}
		ex := findFunc(f, "CheckQuery", "Execute")
		if ex == nil {
			return Result{}, fmt.Errorf("CheckQuery.Execute not found")
		}
		recv := ""
		if ex.Recv != nil && len(ex.Recv.List) == 1 && len(ex.Recv.List[0].Names) == 1 {
			recv = ex.Recv.List[0].Names[0].Name
		}
		const ctor = "storagewrappers.NewRequestStorageWrapperWithCache"
		// every call of the constructor in the file: enclosing function, depth of function literals, statement shape
		var ctorSites []string
		for _, d := range f.Decls {
			fd, ok := d.(*ast.FuncDecl)
			if !ok || fd.Body == nil {
				continue
			}
			name := fd.Name.Name
			if fd.Recv != nil && len(fd.Recv.List) == 1 {
				name = strings.TrimPrefix(src(fset, fd.Recv.List[0].Type), "*") + "." + name
			}
			var walk func(n ast.Node, depth int)
			walk = func(n ast.Node, depth int) {
				ast.Inspect(n, func(m ast.Node) bool {
					switch x := m.(type) {
					case *ast.FuncLit:
						if x != n {
							walk(x.Body, depth+1)
							return false
						}
					case *ast.CallExpr:
						if src(fset, x.Fun) == ctor {
							ctorSites = append(ctorSites, fmt.Sprintf("%s:funclit-depth=%d", name, depth))
						}
					}
					return true
				})
			}
			walk(fd.Body, 0)
		}
		// the top-level statement of Execute that builds the wrapper
		wrapperStmt, wrapperVar := "", ""
		var wrapperArgs []string
		for _, st := range ex.Body.List {
			as, ok := st.(*ast.AssignStmt)
			if !ok || len(as.Lhs) != 1 || len(as.Rhs) != 1 {
				continue
			}
			ce, ok := as.Rhs[0].(*ast.CallExpr)
			if !ok || src(fset, ce.Fun) != ctor {
				continue
			}
			wrapperVar = src(fset, as.Lhs[0])
			wrapperStmt = wrapperVar + " " + as.Tok.String() + " " + ctor
			for i, a := range ce.Args {
				if i < 2 {
					wrapperArgs = append(wrapperArgs, src(fset, a))
				}
			}
		}
		if wrapperStmt == "" {
			wrapperStmt = "<no top-level statement of Execute builds the wrapper>"
		}
		// writes to the receiver, `.Do(` calls, what is put into the context, what is asked for metadata
		var recvWrites, doCalls, ctxReader []string
		ast.Inspect(ex.Body, func(n ast.Node) bool {
			switch x := n.(type) {
			case *ast.AssignStmt:
				for _, l := range x.Lhs {
					if se, ok := l.(*ast.SelectorExpr); ok {
						if id, ok := se.X.(*ast.Ident); ok && id.Name == recv {
							recvWrites = append(recvWrites, src(fset, x))
						}
					}
				}
			case *ast.IncDecStmt:
				if strings.HasPrefix(src(fset, x.X), recv+".") {
					recvWrites = append(recvWrites, src(fset, x))
				}
			case *ast.CallExpr:
				if se, ok := x.Fun.(*ast.SelectorExpr); ok && se.Sel.Name == "Do" {
					doCalls = append(doCalls, src(fset, x.Fun))
				}
				if src(fset, x.Fun) == "storage.ContextWithRelationshipTupleReader" {
					for _, a := range x.Args {
						ctxReader = append(ctxReader, src(fset, a))
					}
				}
			}
			return true
		})
		// struct fields that could keep a wrapper / a once from one Execute to the next
		var memoFields []string
		foundStruct := false
		ast.Inspect(f, func(n ast.Node) bool {
			ts, ok := n.(*ast.TypeSpec)
			if !ok || ts.Name.Name != "CheckQuery" {
				return true
			}
			st, ok := ts.Type.(*ast.StructType)
			if !ok {
				return true
			}
			foundStruct = true
			for _, fl := range st.Fields.List {
				t := src(fset, fl.Type)
				if strings.Contains(t, "sync.") || strings.Contains(t, "RequestStorageWrapper") || strings.Contains(t, "CombinedTupleReader") ||
					strings.Contains(t, "atomic.") || strings.Contains(t, "ContextualTuple") || strings.Contains(t, "TupleKey") {
					for _, nm := range fl.Names {
						memoFields = append(memoFields, nm.Name+" "+t)
					}
				}
			}
			return false
		})
		if !foundStruct {
			return Result{}, fmt.Errorf("type CheckQuery struct not found")
		}

		// ---------------- v2
		fset2, f2, err := parseFile(repo, "pkg/server/commands/check.go")
		if err != nil {
			return Result{}, err
		}
		rs := findFunc(f2, "CheckQueryV2", "resolve")
		ex2 := findFunc(f2, "CheckQueryV2", "Execute")
		if rs == nil || ex2 == nil {
			return Result{}, fmt.Errorf("CheckQueryV2.resolve / Execute not found")
		}
		recv2 := ""
		if rs.Recv != nil && len(rs.Recv.List) == 1 && len(rs.Recv.List[0].Names) == 1 {
			recv2 = rs.Recv.List[0].Names[0].Name
		}
		v2ReqStmt, v2ReqVar, v2CtxField := "<no top-level statement of resolve builds the check.Request>", "", ""
		for _, st := range rs.Body.List {
			as, ok := st.(*ast.AssignStmt)
			if !ok || len(as.Rhs) != 1 {
				continue
			}
			ce, ok := as.Rhs[0].(*ast.CallExpr)
			if !ok || src(fset2, ce.Fun) != "check.NewRequest" || len(ce.Args) != 1 {
				continue
			}
			var lhs []string
			for _, l := range as.Lhs {
				lhs = append(lhs, src(fset2, l))
			}
			v2ReqVar = lhs[0]
			v2ReqStmt = strings.Join(lhs, ", ") + " " + as.Tok.String() + " check.NewRequest"
			if cl, ok := ce.Args[0].(*ast.CompositeLit); ok {
				for _, e := range cl.Elts {
					if kv, ok := e.(*ast.KeyValueExpr); ok && src(fset2, kv.Key) == "ContextualTuples" {
						v2CtxField = src(fset2, kv.Value)
					}
				}
			}
		}
		var v2Writes, v2Resolve []string
		for _, fd := range []*ast.FuncDecl{rs, ex2} {
			ast.Inspect(fd.Body, func(n ast.Node) bool {
				switch x := n.(type) {
				case *ast.AssignStmt:
					for _, l := range x.Lhs {
						if se, ok := l.(*ast.SelectorExpr); ok {
							if id, ok := se.X.(*ast.Ident); ok && id.Name == recv2 {
								v2Writes = append(v2Writes, src(fset2, x))
							}
						}
					}
				case *ast.CallExpr:
					if se, ok := x.Fun.(*ast.SelectorExpr); ok && se.Sel.Name == "ResolveCheck" {
						v2Resolve = append(v2Resolve, src(fset2, x))
					}
				}
				return true
			})
		}
		_ = v2ReqVar

		var sb strings.Builder
		sb.WriteString(genHeader)
		sb.WriteString("namespace OpenFGAVerif.Gen.ReqScope\n\n")
		sb.WriteString("/-- every call of NewRequestStorageWrapperWithCache in check_command.go: enclosing function and depth of function literals -/\n")
		sb.WriteString("def v1WrapperSites : List String := " + leanStrList(ctorSites) + "\n")
		sb.WriteString("/-- the top-level statement of CheckQuery.Execute that builds the wrapper -/\n")
		sb.WriteString("def v1WrapperStmt : String := " + leanStr(wrapperStmt) + "\n")
		sb.WriteString("/-- its first two arguments: the datastore of the command and the contextual tuples of THIS call's params -/\n")
		sb.WriteString("def v1WrapperArgs : List String := " + leanStrList(wrapperArgs) + "\n")
		sb.WriteString("/-- arguments of storage.ContextWithRelationshipTupleReader in Execute -/\n")
		sb.WriteString("def v1ContextReader : List String := " + leanStrList(ctxReader) + "\n")
		sb.WriteString("/-- assignments to fields of the receiver inside Execute (function literals included) -/\n")
		sb.WriteString("def v1ReceiverWrites : List String := " + leanStrList(recvWrites) + "\n")
		sb.WriteString("/-- `.Do(` calls inside Execute -/\n")
		sb.WriteString("def v1DoCalls : List String := " + leanStrList(doCalls) + "\n")
		sb.WriteString("/-- fields of CheckQuery whose type could keep a wrapper, a once or tuples between calls -/\n")
		sb.WriteString("def v1MemoFields : List String := " + leanStrList(memoFields) + "\n")
		sb.WriteString("def v2RequestStmt : String := " + leanStr(v2ReqStmt) + "\n")
		sb.WriteString("def v2RequestContextualTuples : String := " + leanStr(v2CtxField) + "\n")
		sb.WriteString("def v2ReceiverWrites : List String := " + leanStrList(v2Writes) + "\n")
		sb.WriteString("def v2ResolveCalls : List String := " + leanStrList(v2Resolve) + "\n")
		sb.WriteString("\nend OpenFGAVerif.Gen.ReqScope\n")
		return Result{Lean: sb.String(), Summary: map[string]interface{}{
			"v1WrapperSites": ctorSites, "v1WrapperStmt": wrapperStmt, "v1WrapperArgs": wrapperArgs, "v1ContextReader": ctxReader,
			"v1ReceiverWrites": recvWrites, "v1DoCalls": doCalls, "v1MemoFields": memoFields,
			"v2RequestStmt": v2ReqStmt, "v2RequestContextualTuples": v2CtxField, "v2ReceiverWrites": v2Writes, "v2ResolveCalls": v2Resolve,
		}}, nil
	})
}
