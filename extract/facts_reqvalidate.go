package main

import (
	"go/ast"
	"os"
	"path/filepath"
	"sort"
	"strings"
)

// ReqValidate: every request-level validation call `req.Validate()` of the server handlers (pkg/server/*.go) with
// the condition of the if-statement that encloses it. The protovalidate rules (name patterns, sizes, required
// fields) run in the gRPC validation interceptor; a handler reached WITHOUT the interceptor (in-process / embedded
// use, which is also how the correspondence harnesses call the server) must run them itself: the guard has to be
// exactly `!validator.RequestIsValidatedFromContext(ctx)`.
func init() {
	register("ReqValidate", func(repo string) (Result, error) {
		dir := filepath.Join(repo, "pkg", "server")
		ents, err := os.ReadDir(dir)
		if err != nil {
			return Result{}, err
		}
		var sites []string
		for _, e := range ents {
			if e.IsDir() || !strings.HasSuffix(e.Name(), ".go") || strings.HasSuffix(e.Name(), "_test.go") {
				continue
			}
			rel := filepath.Join("pkg", "server", e.Name())
			fset, f, perr := parseFile(repo, rel)
			if perr != nil {
				return Result{}, perr
			}
			for _, d := range f.Decls {
				fd, ok := d.(*ast.FuncDecl)
				if !ok || fd.Body == nil {
					continue
				}
				var walk func(n ast.Node, guard string)
				walk = func(n ast.Node, guard string) {
					ast.Inspect(n, func(m ast.Node) bool {
						switch x := m.(type) {
						case *ast.IfStmt:
							if x.Init != nil {
								walk(x.Init, guard)
							}
							walk(x.Body, src(fset, x.Cond))
							if x.Else != nil {
								walk(x.Else, "!("+src(fset, x.Cond)+")")
							}
							return false
						case *ast.CallExpr:
							if s := src(fset, x.Fun); strings.HasSuffix(s, ".Validate") && len(x.Args) == 0 && (strings.HasPrefix(s, "req.") || strings.HasPrefix(s, "request.")) {
								sites = append(sites, e.Name()+":"+fd.Name.Name+":"+guard)
							}
						}
						return true
					})
				}
				walk(fd.Body, "")
			}
		}
		sort.Strings(sites)
		var sb strings.Builder
		sb.WriteString(genHeader)
		sb.WriteString("namespace OpenFGAVerif.Gen.ReqValidate\n\n")
		sb.WriteString("/-- file:handler:condition of the if-statement enclosing each `req.Validate()` -/\n")
		sb.WriteString("def sites : List String := " + leanStrList(sites) + "\n")
		sb.WriteString("\nend OpenFGAVerif.Gen.ReqValidate\n")
		return Result{Lean: sb.String(), Summary: map[string]interface{}{"sites": len(sites)}}, nil
	})
}
