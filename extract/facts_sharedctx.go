package main

import (
	"fmt"
	"go/ast"
	"go/token"
	"sort"
	"strings"
)

// SharedCtx: which context reaches the shared inner iterator (C09, C23).
//
// A shared iterator serves every request that shares it, so no call it makes on the shared inner iterator may carry the
// context of one particular request: a cancelled requester would otherwise poison the shared state for all the others
// (the resolvers treat context.Canceled as the end of the iteration => silently truncated answers).
//
// For pkg/storage/storagewrappers/sharediterator/shared_iterator_datastore.go this group lists
//
//	iterCalls      every call on the shared inner iterator (receiver of static type iteratorReader / storage.Iterator /
//	               storage.TupleIterator, found by a small syntactic type resolution over the file's own declarations):
//	               (enclosing function, callee, source of the context argument, class of the context)
//	producerCalls  the datastore Read* calls inside the `producer` closures (they CREATE the shared inner iterator)
//	bypassCalls    the other datastore Read* calls (per-request fall-backs: the result is not shared)
//
// Classes: "background" (context.Background/TODO, possibly wrapped by context.With*), "detached" (context.WithoutCancel),
// "noctx" (the call has no context argument), "caller" (a parameter of an exported method / of a function whose callers
// pass a caller's context: the context of one request), "unknown:<src>".  A context parameter of an unexported function
// is resolved through all its call sites in the file (join = the worst class); a struct field through everything
// assigned to it.
const sharedCtxFile = "pkg/storage/storagewrappers/sharediterator/shared_iterator_datastore.go"

type sctx struct {
	fset    *token.FileSet
	file    *ast.File
	structs map[string]*ast.StructType
	funcs   []*ast.FuncDecl
	public  map[string]bool // types whose exported methods are called from outside the file: exported types and types asserted to implement an interface (`var _ I = (*T)(nil)`)
}

func baseTypeName(e ast.Expr) string {
	switch t := e.(type) {
	case *ast.StarExpr:
		return baseTypeName(t.X)
	case *ast.IndexExpr:
		return baseTypeName(t.X)
	case *ast.IndexListExpr:
		return baseTypeName(t.X)
	case *ast.Ident:
		return t.Name
	case *ast.SelectorExpr:
		return exprText(t.X) + "." + t.Sel.Name
	case *ast.ParenExpr:
		return baseTypeName(t.X)
	}
	return "?"
}

func recvOf(fd *ast.FuncDecl) (name, typ string) {
	if fd.Recv == nil || len(fd.Recv.List) != 1 {
		return "", ""
	}
	f := fd.Recv.List[0]
	if len(f.Names) == 1 {
		name = f.Names[0].Name
	}
	return name, baseTypeName(f.Type)
}

func funcLabel(fd *ast.FuncDecl) string {
	if _, t := recvOf(fd); t != "" {
		return t + "." + fd.Name.Name
	}
	return fd.Name.Name
}

// fieldType: declared type of field `name` of struct `st` (embedded fields are named by the last identifier of their type).
func (c *sctx) fieldType(st, name string) string {
	s := c.structs[st]
	if s == nil {
		return "?"
	}
	for _, f := range s.Fields.List {
		if len(f.Names) == 0 {
			bt := baseTypeName(f.Type)
			if bt == name || strings.HasSuffix(bt, "."+name) {
				return bt
			}
			continue
		}
		for _, n := range f.Names {
			if n.Name == name {
				return baseTypeName(f.Type)
			}
		}
	}
	return "?"
}

func (c *sctx) hasMethod(typ, name string) *ast.FuncDecl {
	for _, fd := range c.funcs {
		if _, t := recvOf(fd); t == typ && fd.Name.Name == name {
			return fd
		}
	}
	return nil
}

// env: identifier -> static type name, for the receiver, the parameters and `x := <param or typed expr>` are not tracked.
func (c *sctx) envOf(fd *ast.FuncDecl) map[string]string {
	env := map[string]string{}
	if n, t := recvOf(fd); n != "" {
		env[n] = t
	}
	if fd.Type.Params != nil {
		for _, f := range fd.Type.Params.List {
			for _, n := range f.Names {
				env[n.Name] = baseTypeName(f.Type)
			}
		}
	}
	return env
}

func (c *sctx) typeOf(e ast.Expr, env map[string]string) string {
	switch x := e.(type) {
	case *ast.Ident:
		if t, ok := env[x.Name]; ok {
			return t
		}
	case *ast.SelectorExpr:
		return c.fieldType(c.typeOf(x.X, env), x.Sel.Name)
	case *ast.ParenExpr:
		return c.typeOf(x.X, env)
	case *ast.StarExpr:
		return c.typeOf(x.X, env)
	}
	return "?"
}

var innerIterTypes = map[string]bool{"iteratorReader": true, "storage.Iterator": true, "storage.TupleIterator": true}

const dsType = "storage.RelationshipTupleReader"

func worse(a, b string) string {
	rank := func(s string) int {
		switch {
		case s == "":
			return -1
		case s == "noctx":
			return 0
		case s == "background":
			return 1
		case s == "detached":
			return 2
		case s == "caller":
			return 4
		}
		return 3
	}
	if rank(b) > rank(a) {
		return b
	}
	return a
}

// enclosing returns the FuncDecl that contains pos.
func (c *sctx) enclosing(pos token.Pos) *ast.FuncDecl {
	for _, fd := range c.funcs {
		if fd.Pos() <= pos && pos < fd.End() {
			return fd
		}
	}
	return nil
}

func isCtxPkgCall(e ast.Expr) (string, *ast.CallExpr) {
	ce, ok := e.(*ast.CallExpr)
	if !ok {
		return "", nil
	}
	se, ok := ce.Fun.(*ast.SelectorExpr)
	if !ok {
		return "", nil
	}
	if id, ok := se.X.(*ast.Ident); ok && id.Name == "context" {
		return se.Sel.Name, ce
	}
	return "", nil
}

// classify the context expression e that occurs inside fd.
func (c *sctx) classify(e ast.Expr, fd *ast.FuncDecl, seen map[string]bool) string {
	if name, ce := isCtxPkgCall(e); ce != nil {
		switch {
		case name == "Background" || name == "TODO":
			return "background"
		case name == "WithoutCancel":
			return "detached"
		case strings.HasPrefix(name, "With") && len(ce.Args) > 0:
			return c.classify(ce.Args[0], fd, seen)
		}
		return "unknown:" + src(c.fset, e)
	}
	switch x := e.(type) {
	case *ast.ParenExpr:
		return c.classify(x.X, fd, seen)
	case *ast.CallExpr:
		// e.g. `tracer.Start(ctx, "name")`: a context derived from its first argument
		if len(x.Args) > 0 {
			return c.classify(x.Args[0], fd, seen)
		}
		return "unknown:" + src(c.fset, e)
	case *ast.Ident:
		// a local variable: everything assigned to it in this function
		lkey := "local:" + funcLabel(fd) + ":" + x.Name
		if seen[lkey] {
			return "" // `ctx, span := tracer.Start(ctx, …)`: neutral
		}
		seen[lkey] = true
		defer delete(seen, lkey)
		cls := ""
		ast.Inspect(fd, func(n ast.Node) bool {
			as, ok := n.(*ast.AssignStmt)
			if !ok {
				return true
			}
			for i, l := range as.Lhs {
				if id, ok := l.(*ast.Ident); ok && id.Name == x.Name {
					var rhs ast.Expr
					if len(as.Rhs) == len(as.Lhs) {
						rhs = as.Rhs[i]
					} else if len(as.Rhs) == 1 && i == 0 {
						rhs = as.Rhs[0]
					}
					if rhs == nil {
						cls = worse(cls, "unknown:"+src(c.fset, as))
					} else if id2, ok := rhs.(*ast.Ident); ok && id2.Name == x.Name {
						// x = x
					} else {
						cls = worse(cls, c.classify(rhs, fd, seen))
					}
				}
			}
			return true
		})
		// a parameter of the function
		isParam, idx := false, 0
		if fd.Type.Params != nil {
			k := 0
			for _, f := range fd.Type.Params.List {
				for _, n := range f.Names {
					if n.Name == x.Name {
						isParam, idx = true, k
					}
					k++
				}
			}
		}
		if isParam {
			cls = worse(cls, c.classifyParam(fd, idx, seen))
		}
		if cls == "" {
			// e.g. the parameter of a function literal
			return "unknown:" + x.Name
		}
		return cls
	case *ast.SelectorExpr:
		// a struct field: everything assigned to a field of that name in the file
		fkey := "field:" + x.Sel.Name
		if seen[fkey] {
			return "" // `clone` copies the field from another instance: neutral
		}
		seen[fkey] = true
		defer delete(seen, fkey)
		cls := ""
		ast.Inspect(c.file, func(n ast.Node) bool {
			switch y := n.(type) {
			case *ast.KeyValueExpr:
				if id, ok := y.Key.(*ast.Ident); ok && id.Name == x.Sel.Name {
					if f := c.enclosing(y.Pos()); f != nil {
						cls = worse(cls, c.classify(y.Value, f, seen))
					}
				}
			case *ast.AssignStmt:
				for i, l := range y.Lhs {
					if se, ok := l.(*ast.SelectorExpr); ok && se.Sel.Name == x.Sel.Name {
						f := c.enclosing(y.Pos())
						if f == nil || len(y.Rhs) != len(y.Lhs) {
							cls = worse(cls, "unknown:"+src(c.fset, y))
						} else {
							cls = worse(cls, c.classify(y.Rhs[i], f, seen))
						}
					}
				}
			}
			return true
		})
		if cls == "" {
			return "unknown:" + src(c.fset, e)
		}
		return cls
	}
	return "unknown:" + src(c.fset, e)
}

// classifyParam: the class of parameter idx of fd = the join over all its call sites in the file; an exported function
// (or one without call sites, or one used as a value) receives a caller's context.
func (c *sctx) classifyParam(fd *ast.FuncDecl, idx int, seen map[string]bool) string {
	key := fmt.Sprintf("%s#%d", funcLabel(fd), idx)
	if seen[key] {
		return ""
	}
	seen[key] = true
	defer delete(seen, key)
	_, rt := recvOf(fd)
	if ast.IsExported(fd.Name.Name) && (rt == "" || c.public[rt]) {
		return "caller"
	}
	cls, sites := "", 0
	called := map[ast.Expr]bool{}
	for _, g := range c.funcs {
		env := c.envOf(g)
		ast.Inspect(g, func(n ast.Node) bool {
			ce, ok := n.(*ast.CallExpr)
			if !ok {
				return true
			}
			match := false
			switch f := ce.Fun.(type) {
			case *ast.Ident:
				match = rt == "" && f.Name == fd.Name.Name
			case *ast.SelectorExpr:
				if f.Sel.Name == fd.Name.Name && rt != "" {
					t := c.typeOf(f.X, env)
					match = t == rt || t == "?"
				}
			}
			if match {
				called[ce.Fun] = true
				sites++
				if idx < len(ce.Args) {
					cls = worse(cls, c.classify(ce.Args[idx], g, seen))
				} else {
					cls = worse(cls, "unknown:"+src(c.fset, ce))
				}
			}
			return true
		})
	}
	// used as a method value / function value (not called): whoever calls it supplies the context
	for _, g := range c.funcs {
		env := c.envOf(g)
		callFuns := map[ast.Expr]bool{}
		ast.Inspect(g, func(n ast.Node) bool {
			if ce, ok := n.(*ast.CallExpr); ok {
				callFuns[ce.Fun] = true
			}
			return true
		})
		ast.Inspect(g, func(n ast.Node) bool {
			if f, ok := n.(*ast.SelectorExpr); ok && rt != "" && f.Sel.Name == fd.Name.Name && !callFuns[f] {
				if t := c.typeOf(f.X, env); t == rt {
					cls = worse(cls, "unknown:value "+src(c.fset, f))
				}
			}
			return true
		})
	}
	if sites == 0 {
		return worse(cls, "caller")
	}
	return cls
}

type ctxCall struct{ fn, callee, arg, class string }

func leanCtxCalls(name, doc string, cs []ctxCall) string {
	var sb strings.Builder
	sb.WriteString("/-- " + doc + " -/\n")
	sb.WriteString("def " + name + " : List (String × String × String × String) := [")
	for i, c := range cs {
		if i > 0 {
			sb.WriteString(",")
		}
		sb.WriteString("\n  (" + leanStr(c.fn) + ", " + leanStr(c.callee) + ", " + leanStr(c.arg) + ", " + leanStr(c.class) + ")")
	}
	sb.WriteString("\n]\n\n")
	return sb.String()
}

func init() {
	register("SharedCtx", func(repo string) (Result, error) {
		fset, f, err := parseFileNoComments(repo, sharedCtxFile)
		if err != nil {
			return Result{}, err
		}
		c := &sctx{fset: fset, file: f, structs: map[string]*ast.StructType{}, public: map[string]bool{}}
		for _, d := range f.Decls {
			switch x := d.(type) {
			case *ast.FuncDecl:
				if x.Body != nil {
					c.funcs = append(c.funcs, x)
				}
			case *ast.GenDecl:
				for _, s := range x.Specs {
					if ts, ok := s.(*ast.TypeSpec); ok {
						if st, ok := ts.Type.(*ast.StructType); ok {
							c.structs[ts.Name.Name] = st
						}
						if ast.IsExported(ts.Name.Name) {
							c.public[ts.Name.Name] = true
						}
					}
					if vs, ok := s.(*ast.ValueSpec); ok && len(vs.Names) == 1 && vs.Names[0].Name == "_" && len(vs.Values) == 1 {
						// var _ I = (*T)(nil)
						if ce, ok := vs.Values[0].(*ast.CallExpr); ok {
							if t := baseTypeName(ce.Fun); t != "?" {
								c.public[t] = true
							}
						}
					}
				}
			}
		}
		for _, need := range []string{"sharedIterator", "iteratorReader", "IteratorDatastore", "storageItem"} {
			if c.structs[need] == nil {
				return Result{}, fmt.Errorf("%s: struct %s not found", sharedCtxFile, need)
			}
		}
		var iterCalls, producerCalls, bypassCalls []ctxCall
		for _, fd := range c.funcs {
			env := c.envOf(fd)
			// positions of function literals assigned to a `.producer` field
			type span struct{ lo, hi token.Pos }
			var producers []span
			ast.Inspect(fd, func(n ast.Node) bool {
				if as, ok := n.(*ast.AssignStmt); ok && len(as.Lhs) == 1 && len(as.Rhs) == 1 {
					if se, ok := as.Lhs[0].(*ast.SelectorExpr); ok && se.Sel.Name == "producer" {
						if fl, ok := as.Rhs[0].(*ast.FuncLit); ok {
							producers = append(producers, span{fl.Pos(), fl.End()})
						}
					}
				}
				return true
			})
			ast.Inspect(fd, func(n ast.Node) bool {
				ce, ok := n.(*ast.CallExpr)
				if !ok {
					return true
				}
				se, ok := ce.Fun.(*ast.SelectorExpr)
				if !ok {
					return true
				}
				rt := c.typeOf(se.X, env)
				switch {
				case innerIterTypes[rt]:
					// a method the file itself declares on the type is an internal call; its body is scanned on its own,
					// but the context it is GIVEN is what reaches the inner iterator: list it too
					cc := ctxCall{fn: funcLabel(fd), callee: src(fset, se), arg: "-", class: "noctx"}
					if len(ce.Args) > 0 {
						cc.arg = src(fset, ce.Args[0])
						cc.class = c.classify(ce.Args[0], fd, map[string]bool{})
						if m := c.hasMethod(rt, se.Sel.Name); m == nil && se.Sel.Name != "Next" && se.Sel.Name != "Head" && strings.HasPrefix(cc.class, "unknown:") {
							// an external method other than Next/Head whose first argument is not recognisably a context
							cc.class = "noctx"
						}
					}
					iterCalls = append(iterCalls, cc)
				case rt == dsType:
					cc := ctxCall{fn: funcLabel(fd), callee: src(fset, se), arg: "-", class: "noctx"}
					if len(ce.Args) > 0 {
						cc.arg = src(fset, ce.Args[0])
						cc.class = c.classify(ce.Args[0], fd, map[string]bool{})
					}
					inProducer := false
					for _, p := range producers {
						if p.lo <= ce.Pos() && ce.Pos() < p.hi {
							inProducer = true
						}
					}
					if inProducer {
						producerCalls = append(producerCalls, cc)
					} else {
						bypassCalls = append(bypassCalls, cc)
					}
				}
				return true
			})
		}
		// the pattern this group exists for must be there: a batch read in fetchMore and the per-item Next of the reader
		var haveFetch, haveNext bool
		for _, cc := range iterCalls {
			if cc.fn == "sharedIterator.fetchMore" && cc.class != "noctx" {
				haveFetch = true
			}
			if cc.fn == "iteratorReader.Read" && strings.HasSuffix(cc.callee, ".Next") {
				haveNext = true
			}
		}
		if !haveFetch || !haveNext {
			return Result{}, fmt.Errorf("%s: the shared iterator's read path (fetchMore -> iteratorReader.Read -> Next) was not recognised (fetch=%v next=%v)", sharedCtxFile, haveFetch, haveNext)
		}
		if len(producerCalls) == 0 {
			return Result{}, fmt.Errorf("%s: no datastore call inside a `producer` closure found", sharedCtxFile)
		}
		classes := map[string]bool{}
		for _, cc := range iterCalls {
			classes[cc.class] = true
		}
		var classList []string
		for k := range classes {
			classList = append(classList, k)
		}
		sort.Strings(classList)

		var sb strings.Builder
		sb.WriteString(genHeader)
		sb.WriteString("namespace OpenFGAVerif.Gen.SharedCtx\n\n")
		sb.WriteString("/-! which context reaches the shared inner iterator of `sharedIterator` (" + sharedCtxFile + "):\n(enclosing function, callee, source of the context argument, class) -/\n\n")
		sb.WriteString(leanCtxCalls("iterCalls", "every call on the shared inner iterator (made on behalf of all clones)", iterCalls))
		sb.WriteString(leanCtxCalls("producerCalls", "the datastore calls that create the shared inner iterator (inside the `producer` closures)", producerCalls))
		sb.WriteString(leanCtxCalls("bypassCalls", "datastore calls whose result is handed to one request only (not shared)", bypassCalls))
		sb.WriteString("/-- the classes that occur in `iterCalls` -/\ndef iterClasses : List String := " + leanStrList(classList) + "\n")
		sb.WriteString("\nend OpenFGAVerif.Gen.SharedCtx\n")
		toRows := func(cs []ctxCall) [][]string {
			out := [][]string{}
			for _, x := range cs {
				out = append(out, []string{x.fn, x.callee, x.arg, x.class})
			}
			return out
		}
		return Result{Lean: sb.String(), Summary: map[string]interface{}{
			"iterCalls": toRows(iterCalls), "producerCalls": toRows(producerCalls), "bypassCalls": len(bypassCalls), "iterClasses": classList,
		}}, nil
	})
}
