package main

import (
	"fmt"
	"go/ast"
	"go/token"
	"sort"
	"strconv"
	"strings"
)

// SqlWhere (C16, C13): the WHERE predicate list of every query builder of the sqlite / sqlcommon backends.
//
// For every function of pkg/storage/sqlite/sqlite.go and pkg/storage/sqlcommon/sqlcommon.go that names a table
// (From / Insert / Update / Delete / Into with a string literal):
//
//	sqlWhere       (function, tables, parts)   every `.Where(arg, …)` call in source order; a part is (kind, items):
//	                 ("sq.Eq", ["store=store", …])     composite literal of a squirrel type: `column=value expression`
//	                 ("var", ["whereClause"])            a variable (its construction is in sqlWhereVars)
//	                 ("raw", [source text])              anything else: a string / fmt.Sprintf / sq.Expr — raw SQL
//	sqlWhereVars   (function, variable, steps)  for a predicate variable handed to Where: how it is built, in source order:
//	                 ("type", "sq.And")  ("init", element)  ("append", element)  ("other", statement)
//	sqlRawPreds    (function, source text, string literals joined, contains a top-level-looking OR, is ONE fully parenthesised literal)
//	sqlRawOrOpen   the raw predicates that contain " OR " and are not one literal "( … )": squirrel splices raw strings
//	               verbatim between its ANDs, so `store = ? AND a OR b` selects rows of every store.
func init() {
	register("SqlWhere", func(repo string) (Result, error) {
		type part struct {
			kind  string
			items []string
		}
		var whereRows, varRows, rawRows, rawOpen []string
		nFuncs, nParts := 0, 0
		for _, rel := range []string{"pkg/storage/sqlcommon/sqlcommon.go", "pkg/storage/sqlite/sqlite.go"} {
			fset, f, err := parseFile(repo, rel)
			if err != nil {
				return Result{}, err
			}
			S := func(n ast.Node) string { return src(fset, n) }
			base := rel[strings.LastIndex(rel, "/")+1:]
			if strings.HasPrefix(rel, "internal/modelgraph/") {
				base = "modelgraph/" + base
			}
			for _, d := range f.Decls {
				fd, ok := d.(*ast.FuncDecl)
				if !ok || fd.Body == nil {
					continue
				}
				tables := map[string]bool{}
				type wcall struct {
					pos  token.Pos
					call *ast.CallExpr
				}
				var wheres []wcall
				ast.Inspect(fd.Body, func(n ast.Node) bool {
					ce, ok := n.(*ast.CallExpr)
					if !ok {
						return true
					}
					se, ok := ce.Fun.(*ast.SelectorExpr)
					if !ok || len(ce.Args) == 0 {
						return true
					}
					switch se.Sel.Name {
					case "From", "Insert", "Update", "Delete", "Into":
						if bl, ok := ce.Args[0].(*ast.BasicLit); ok && bl.Kind == token.STRING {
							if t, err := strconv.Unquote(bl.Value); err == nil && len(strings.Fields(t)) > 0 {
								tables[strings.Fields(t)[0]] = true
							}
						}
					case "Where":
						// position of the selector, not of the whole chained expression (chains start at the same place)
						wheres = append(wheres, wcall{se.Sel.Pos(), ce})
					}
					return true
				})
				name := fd.Name.Name
				if fd.Recv != nil {
					name = "Datastore." + name
				}
				name = base + ":" + name
				if len(tables) == 0 && len(wheres) == 0 {
					continue
				}
				if len(tables) == 0 {
					tables["-"] = true // a helper that only adds a predicate (AddFromUlid)
				}
				sort.Slice(wheres, func(i, j int) bool { return wheres[i].pos < wheres[j].pos })
				var ts []string
				for t := range tables {
					ts = append(ts, t)
				}
				sortStrings(ts)
				var parts []part
				vars := map[string]bool{}
				for _, w := range wheres {
					a := w.call.Args[0]
					switch x := a.(type) {
					case *ast.CompositeLit:
						p := part{kind: S(x.Type)}
						for _, e := range x.Elts {
							if kv, ok := e.(*ast.KeyValueExpr); ok {
								k := S(kv.Key)
								if u, err := strconv.Unquote(k); err == nil {
									k = u
								}
								p.items = append(p.items, k+"="+S(kv.Value))
							} else {
								p.items = append(p.items, S(e))
							}
						}
						parts = append(parts, p)
					case *ast.Ident:
						parts = append(parts, part{"var", []string{x.Name}})
						vars[x.Name] = true
					default:
						text := S(a)
						for _, extra := range w.call.Args[1:] {
							text += ", " + S(extra)
						}
						parts = append(parts, part{"raw", []string{text}})
						var lits []string
						ast.Inspect(a, func(n ast.Node) bool {
							if bl, ok := n.(*ast.BasicLit); ok && bl.Kind == token.STRING {
								if u, err := strconv.Unquote(bl.Value); err == nil {
									lits = append(lits, u)
								}
							}
							return true
						})
						joined := strings.Join(lits, "⋯")
						hasOr := strings.Contains(strings.ToUpper(" "+joined+" "), " OR ")
						oneClosed := false
						if bl, ok := a.(*ast.BasicLit); ok && bl.Kind == token.STRING {
							u, _ := strconv.Unquote(bl.Value)
							u = strings.TrimSpace(u)
							oneClosed = strings.HasPrefix(u, "(") && strings.HasSuffix(u, ")")
						}
						rawRows = append(rawRows, fmt.Sprintf("(%s, %s, %s, %v, %v)", leanStr(name), leanStr(text), leanStr(joined), hasOr, oneClosed))
						if hasOr && !oneClosed {
							rawOpen = append(rawOpen, fmt.Sprintf("(%s, %s)", leanStr(name), leanStr(text)))
						}
					}
				}
				// how every predicate variable is built
				var vnames []string
				for v := range vars {
					vnames = append(vnames, v)
				}
				sortStrings(vnames)
				for _, v := range vnames {
					var steps []string
					add := func(op, text string) { steps = append(steps, "("+leanStr(op)+", "+leanStr(text)+")") }
					ast.Inspect(fd.Body, func(n ast.Node) bool {
						switch x := n.(type) {
						case *ast.DeclStmt:
							if gd, ok := x.Decl.(*ast.GenDecl); ok && gd.Tok == token.VAR {
								for _, sp := range gd.Specs {
									vs := sp.(*ast.ValueSpec)
									for _, nm := range vs.Names {
										if nm.Name == v {
											if vs.Type != nil {
												add("type", S(vs.Type))
											}
											for _, val := range vs.Values {
												add("other", S(val))
											}
										}
									}
								}
							}
						case *ast.AssignStmt:
							if len(x.Lhs) != 1 || len(x.Rhs) != 1 {
								for _, l := range x.Lhs {
									if id, ok := l.(*ast.Ident); ok && id.Name == v {
										add("other", S(x))
									}
								}
								return true
							}
							id, ok := x.Lhs[0].(*ast.Ident)
							if !ok || id.Name != v {
								return true
							}
							switch r := x.Rhs[0].(type) {
							case *ast.CompositeLit:
								if x.Tok == token.DEFINE {
									add("type", S(r.Type))
									for _, e := range r.Elts {
										add("init", S(e))
									}
									return true
								}
							case *ast.CallExpr:
								if fn, ok := r.Fun.(*ast.Ident); ok && fn.Name == "append" && len(r.Args) >= 2 && !r.Ellipsis.IsValid() {
									if a0, ok := r.Args[0].(*ast.Ident); ok && a0.Name == v && x.Tok == token.ASSIGN {
										for _, e := range r.Args[1:] {
											add("append", S(e))
										}
										return true
									}
								}
							}
							add("other", S(x))
						}
						return true
					})
					varRows = append(varRows, fmt.Sprintf("(%s, %s, [%s])", leanStr(name), leanStr(v), strings.Join(steps, ", ")))
				}
				var ps []string
				for _, p := range parts {
					ps = append(ps, "("+leanStr(p.kind)+", "+leanStrList(p.items)+")")
				}
				whereRows = append(whereRows, fmt.Sprintf("(%s, %s, [%s])", leanStr(name), leanStr(strings.Join(ts, "+")), strings.Join(ps, ", ")))
				nFuncs++
				nParts += len(parts)
			}
		}
		if nFuncs < 10 || nParts < 20 {
			return Result{}, fmt.Errorf("sqlite.go/sqlcommon.go: only %d query builders with %d WHERE parts recognised", nFuncs, nParts)
		}
		var sb strings.Builder
		sb.WriteString(genHeader)
		sb.WriteString("namespace OpenFGAVerif.Gen.SqlWhere\n\n")
		sb.WriteString("/-- every query builder: (function, tables, WHERE parts in source order); a part is (kind, items) -/\n")
		sb.WriteString("def sqlWhere : List (String × String × List (String × List String)) :=\n  [" + strings.Join(whereRows, ",\n   ") + "]\n\n")
		sb.WriteString("/-- how every predicate variable handed to Where is built: (function, variable, [(step, text)]) -/\n")
		sb.WriteString("def sqlWhereVars : List (String × String × List (String × String)) :=\n  [" + strings.Join(varRows, ",\n   ") + "]\n\n")
		sb.WriteString("/-- raw SQL predicates: (function, source, string literals, contains OR, is one parenthesised literal) -/\n")
		sb.WriteString("def sqlRawPreds : List (String × String × String × Bool × Bool) :=\n  [" + strings.Join(rawRows, ",\n   ") + "]\n\n")
		sb.WriteString("/-- raw predicates with an OR that is not enclosed in one parenthesised literal -/\n")
		sb.WriteString("def sqlRawOrOpen : List (String × String) := [" + strings.Join(rawOpen, ", ") + "]\n\n")
		sb.WriteString("end OpenFGAVerif.Gen.SqlWhere\n")
		return Result{Lean: sb.String(), Summary: map[string]interface{}{"queryBuilders": nFuncs, "whereParts": nParts, "rawPreds": len(rawRows), "rawOrOpen": len(rawOpen)}}, nil
	})
}

// ResolverKeys (C16, C17, C31): the key expression of every singleflight call and of the typesystem cache in
// pkg/typesystem/resolver.go and pkg/storage/storagewrappers/model_caching.go.
//
//	flightKeys   (file:function, datastore method called inside the flight, arguments of that call after ctx,
//	              key pieces) — a key piece is (isArgument, name-or-literal, UTF-8 bytes of the literal);
//	              `"lit"+x` and fmt.Sprintf("…%s…", a, b) are both split into literal / argument pieces
//	cacheKeys    (file:function, the EncodeString arguments between GetBuilder() and Key(), in order)
func init() {
	register("ResolverKeys", func(repo string) (Result, error) {
		cps := func(s string) string { return leanBytes(s) }
		var flights, caches []string
		for _, rel := range []string{"pkg/typesystem/resolver.go", "pkg/storage/storagewrappers/model_caching.go", "internal/modelgraph/resolver.go"} {
			fset, f, err := parseFile(repo, rel)
			if err != nil {
				return Result{}, err
			}
			S := func(n ast.Node) string { return src(fset, n) }
			base := rel[strings.LastIndex(rel, "/")+1:]
			for _, d := range f.Decls {
				fd, ok := d.(*ast.FuncDecl)
				if !ok || fd.Body == nil {
					continue
				}
				fname := base + ":" + fd.Name.Name
				var pieces func(e ast.Expr) ([]string, error)
				pieces = func(e ast.Expr) ([]string, error) {
					lit := func(s string) string { return "(false, " + leanStr(s) + ", " + cps(s) + ")" }
					arg := func(s string) string { return "(true, " + leanStr(s) + ", [])" }
					switch x := e.(type) {
					case *ast.BasicLit:
						if x.Kind == token.STRING {
							u, err := strconv.Unquote(x.Value)
							if err != nil {
								return nil, err
							}
							return []string{lit(u)}, nil
						}
					case *ast.Ident:
						return []string{arg(x.Name)}, nil
					case *ast.BinaryExpr:
						if x.Op == token.ADD {
							l, err := pieces(x.X)
							if err != nil {
								return nil, err
							}
							r, err := pieces(x.Y)
							if err != nil {
								return nil, err
							}
							return append(l, r...), nil
						}
					case *ast.CallExpr:
						if S(x.Fun) == "fmt.Sprintf" && len(x.Args) >= 1 {
							bl, ok := x.Args[0].(*ast.BasicLit)
							if !ok || bl.Kind != token.STRING {
								break
							}
							format, err := strconv.Unquote(bl.Value)
							if err != nil {
								return nil, err
							}
							segs := strings.Split(format, "%s")
							if strings.Contains(strings.Join(segs, ""), "%") || len(segs)-1 != len(x.Args)-1 {
								return nil, fmt.Errorf("%s: unsupported key format %q", fname, format)
							}
							var out []string
							for i, sg := range segs {
								if sg != "" {
									out = append(out, lit(sg))
								}
								if i < len(segs)-1 {
									out = append(out, arg(S(x.Args[i+1])))
								}
							}
							return out, nil
						}
					}
					return nil, fmt.Errorf("%s: key expression %q not understood", fname, S(e))
				}
				var perr error
				ast.Inspect(fd.Body, func(n ast.Node) bool {
					ce, ok := n.(*ast.CallExpr)
					if !ok {
						return true
					}
					se, ok := ce.Fun.(*ast.SelectorExpr)
					if !ok || se.Sel.Name != "Do" || len(ce.Args) != 2 {
						return true
					}
					fl, ok := ce.Args[1].(*ast.FuncLit)
					if !ok {
						return true
					}
					ps, err := pieces(ce.Args[0])
					if err != nil {
						perr = err
						return true
					}
					// the datastore call inside the flight
					method, dargs := "", []string{}
					ast.Inspect(fl.Body, func(m ast.Node) bool {
						c2, ok := m.(*ast.CallExpr)
						if !ok || method != "" {
							return true
						}
						if s2, ok := c2.Fun.(*ast.SelectorExpr); ok && len(c2.Args) >= 1 && S(c2.Args[0]) == "ctx" {
							method = s2.Sel.Name
							for _, a := range c2.Args[1:] {
								dargs = append(dargs, S(a))
							}
						}
						return true
					})
					if method == "" {
						perr = fmt.Errorf("%s: no datastore call inside the singleflight function", fname)
						return true
					}
					flights = append(flights, fmt.Sprintf("(%s, %s, %s, [%s])", leanStr(fname), leanStr(method), leanStrList(dargs), strings.Join(ps, ", ")))
					return true
				})
				if perr != nil {
					return Result{}, perr
				}
				// cache key: EncodeString arguments of a builder
				var enc []string
				hasBuilder := false
				ast.Inspect(fd.Body, func(n ast.Node) bool {
					ce, ok := n.(*ast.CallExpr)
					if !ok {
						return true
					}
					if S(ce.Fun) == "keys.GetBuilder" {
						hasBuilder = true
					}
					if se, ok := ce.Fun.(*ast.SelectorExpr); ok && se.Sel.Name == "EncodeString" && len(ce.Args) == 1 {
						enc = append(enc, S(ce.Args[0]))
					}
					return true
				})
				if hasBuilder {
					caches = append(caches, fmt.Sprintf("(%s, %s)", leanStr(fname), leanStrList(enc)))
				}
			}
		}
		if len(flights) < 3 || len(caches) < 2 {
			return Result{}, fmt.Errorf("resolver.go/model_caching.go: %d singleflight keys and %d cache keys recognised (expected >= 3 and >= 2)", len(flights), len(caches))
		}
		var sb strings.Builder
		sb.WriteString(genHeader)
		sb.WriteString("namespace OpenFGAVerif.Gen.ResolverKeys\n\n")
		sb.WriteString("/-- every singleflight call: (function, datastore method, its arguments after ctx, key pieces (isArg, text, UTF-8 bytes of a literal)) -/\n")
		sb.WriteString("def flightKeys : List (String × String × List String × List (Bool × String × List UInt8)) :=\n  [" + strings.Join(flights, ",\n   ") + "]\n\n")
		sb.WriteString("/-- every cache key built with keys.GetBuilder(): (function, EncodeString arguments in order) -/\n")
		sb.WriteString("def cacheKeys : List (String × List String) :=\n  [" + strings.Join(caches, ",\n   ") + "]\n\n")
		sb.WriteString("end OpenFGAVerif.Gen.ResolverKeys\n")
		return Result{Lean: sb.String(), Summary: map[string]interface{}{"flightKeys": len(flights), "cacheKeys": len(caches)}}, nil
	})
}
