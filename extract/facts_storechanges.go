package main

import (
	"fmt"
	"go/ast"
	"go/token"
	"sort"
	"strings"
)

// StoreChanges: where the changelog's timestamps / ULIDs are taken and how the horizon reaches the datastore (C15).
//
//	pkg/storage/memory/memory.go          Write: the top-level statements in order (Lock, deferred Unlock, `now`, sanitize,
//	                                      entropy, the two loops, the final assignment); every change record's Timestamp /
//	                                      Ulid expression; ReadChanges: order of the tests inside the scan loop
//	                                      (type, horizon break, continuation token) and the read lock
//	pkg/storage/sqlite/sqlite.go          Write: the time handed to write(); write: BeginTx < entropy < every ulid.MustNew,
//	                                      the inserted_at expression of the changelog rows; ReadChanges: the horizon clause
//	                                      is part of the base query, the token clause is the only conditional one besides
//	                                      type and limit
//	pkg/server/commands/read_changes.go   Execute: the ReadChangesFilter literal (HorizonOffset: q.horizonOffset), that it
//	                                      is a top-level statement, that nothing else assigns the filter, that it is the
//	                                      filter handed to backend.ReadChanges; the option that sets q.horizonOffset
//	pkg/server/read_changes.go            the server hands its configured offset to the query
func init() {
	register("StoreChanges", func(repo string) (Result, error) {
		b := func(x bool) string {
			if x {
				return "true"
			}
			return "false"
		}
		// ---------------------------------------------------------------- memory.Write
		fsm, fm, err := parseFile(repo, "pkg/storage/memory/memory.go")
		if err != nil {
			return Result{}, err
		}
		mw := findFunc(fm, "MemoryBackend", "Write")
		mrc := findFunc(fm, "MemoryBackend", "ReadChanges")
		if mw == nil || mrc == nil {
			return Result{}, fmt.Errorf("memory.go: Write / ReadChanges not found")
		}
		var stmtOrder []string
		var lockPos, nowPos, entropyPos token.Pos
		nowExpr, entropyExpr := "", ""
		nowAssignments := 0
		for _, st := range mw.Body.List {
			s := src(fsm, st)
			kind := ""
			switch {
			case s == "s.mutexTuples.Lock()":
				kind = "lock"
				lockPos = st.Pos()
			case s == "defer s.mutexTuples.Unlock()":
				kind = "defer-unlock"
			case strings.HasPrefix(s, "now := "):
				kind = "now"
				nowPos = st.Pos()
				nowExpr = strings.TrimPrefix(s, "now := ")
			case strings.HasPrefix(s, "entropy := "):
				kind = "entropy"
				entropyPos = st.Pos()
				entropyExpr = strings.TrimPrefix(s, "entropy := ")
			case strings.Contains(s, "sanitizeTuplesWriteDelete("):
				kind = "sanitize"
			case s == "if err != nil { return err }":
				kind = "err-return"
			case s == "s.tuples[store] = records":
				kind = "assign-tuples"
			case s == "return nil":
				kind = "return-nil"
			case strings.HasPrefix(s, "var records"):
				kind = "records"
			case strings.Contains(s, "tracer.Start("):
				kind = "span"
			case s == "defer span.End()":
				kind = "defer-span"
			}
			if ls, ok := st.(*ast.LabeledStmt); ok {
				if rs, ok := ls.Stmt.(*ast.RangeStmt); ok {
					switch src(fsm, rs.X) {
					case "s.tuples[store]":
						kind = "delete-loop"
					case "writes":
						kind = "write-loop"
					}
				}
			}
			if kind == "" {
				kind = "other:" + s
				if len(kind) > 60 {
					kind = kind[:60]
				}
			}
			stmtOrder = append(stmtOrder, kind)
		}
		// every assignment to `now` anywhere in the function (there must be exactly the one above)
		var mustNewPos []token.Pos
		var changeStamps []string
		ast.Inspect(mw.Body, func(n ast.Node) bool {
			switch x := n.(type) {
			case *ast.AssignStmt:
				for _, l := range x.Lhs {
					if src(fsm, l) == "now" {
						nowAssignments++
					}
				}
			case *ast.CallExpr:
				if src(fsm, x.Fun) == "ulid.MustNew" {
					mustNewPos = append(mustNewPos, x.Pos())
				}
			case *ast.CompositeLit:
				if src(fsm, x.Type) == "tupleChangeRec" {
					ts, ul := "?", "?"
					ast.Inspect(x, func(m ast.Node) bool {
						if kv, ok := m.(*ast.KeyValueExpr); ok {
							switch src(fsm, kv.Key) {
							case "Timestamp":
								ts = src(fsm, kv.Value)
							case "Ulid":
								ul = src(fsm, kv.Value)
							}
						}
						return true
					})
					changeStamps = append(changeStamps, "Timestamp: "+ts+" | Ulid: "+ul)
				}
			}
			return true
		})
		if lockPos == 0 || nowPos == 0 || entropyPos == 0 || len(mustNewPos) == 0 || len(changeStamps) == 0 {
			return Result{}, fmt.Errorf("memory.Write: Lock / now / entropy / ulid.MustNew / change records not recognised (order %v)", stmtOrder)
		}
		stampsUnderLock := lockPos < nowPos && lockPos < entropyPos && nowAssignments == 1
		for _, p := range mustNewPos {
			if p < lockPos {
				stampsUnderLock = false
			}
		}
		// the relative order of the three statements the theorem talks about
		type pk struct {
			p token.Pos
			k string
		}
		three := []pk{{lockPos, "lock"}, {nowPos, "now"}, {entropyPos, "entropy"}}
		sort.Slice(three, func(i, j int) bool { return three[i].p < three[j].p })
		var stampOrder []string
		for _, t := range three {
			stampOrder = append(stampOrder, t.k)
		}

		// ---------------------------------------------------------------- memory.ReadChanges
		var loopTests []string
		readLock := false
		for _, st := range mrc.Body.List {
			if src(fsm, st) == "s.mutexTuples.RLock()" {
				readLock = true
			}
		}
		ast.Inspect(mrc.Body, func(n ast.Node) bool {
			rs, ok := n.(*ast.RangeStmt)
			if !ok || src(fsm, rs.X) != "s.changes[store]" {
				return true
			}
			var walk func(list []ast.Stmt, depth int)
			walk = func(list []ast.Stmt, depth int) {
				for _, st := range list {
					switch x := st.(type) {
					case *ast.IfStmt:
						c := src(fsm, x.Cond)
						body := ""
						if len(x.Body.List) == 1 {
							body = src(fsm, x.Body.List[0])
						}
						switch {
						case strings.Contains(c, "objectType"):
							loopTests = append(loopTests, fmt.Sprintf("%d:type", depth))
							walk(x.Body.List, depth+1)
						case strings.Contains(c, "horizonOffset"):
							loopTests = append(loopTests, fmt.Sprintf("%d:horizon->%s", depth, body))
						case c == "from != nil":
							loopTests = append(loopTests, fmt.Sprintf("%d:from", depth))
						default:
							loopTests = append(loopTests, fmt.Sprintf("%d:if %s", depth, c))
						}
					case *ast.AssignStmt:
						if s := src(fsm, x); strings.HasPrefix(s, "allChanges = append(") {
							loopTests = append(loopTests, fmt.Sprintf("%d:append", depth))
						}
					}
				}
			}
			walk(rs.Body.List, 0)
			return false
		})
		if len(loopTests) == 0 {
			return Result{}, fmt.Errorf("memory.ReadChanges: scan loop not recognised")
		}

		// ---------------------------------------------------------------- sqlite
		fss, fsq, err := parseFile(repo, "pkg/storage/sqlite/sqlite.go")
		if err != nil {
			return Result{}, err
		}
		sW := findFunc(fsq, "Datastore", "Write")
		sw := findFunc(fsq, "Datastore", "write")
		src2 := findFunc(fsq, "Datastore", "ReadChanges")
		if sW == nil || sw == nil || src2 == nil {
			return Result{}, fmt.Errorf("sqlite.go: Write / write / ReadChanges not found")
		}
		sqlNowArg := ""
		ast.Inspect(sW.Body, func(n ast.Node) bool {
			if c, ok := n.(*ast.CallExpr); ok && src(fss, c.Fun) == "s.write" && len(c.Args) > 0 {
				sqlNowArg = src(fss, c.Args[len(c.Args)-1])
			}
			return true
		})
		var sev []pk
		ulidExprs := map[string]bool{}
		insertedAt := map[string]bool{}
		ast.Inspect(sw.Body, func(n ast.Node) bool {
			switch x := n.(type) {
			case *ast.CallExpr:
				switch f := src(fss, x.Fun); {
				case strings.HasSuffix(f, ".BeginTx"):
					sev = append(sev, pk{x.Pos(), "begin"})
				case f == "ulid.DefaultEntropy":
					sev = append(sev, pk{x.Pos(), "entropy"})
				case f == "ulid.MustNew":
					sev = append(sev, pk{x.Pos(), "ulid"})
					ulidExprs[src(fss, x)] = true
				case f == "txn.Commit":
					sev = append(sev, pk{x.Pos(), "commit"})
				case f == "sq.Expr" && len(x.Args) == 1 && strings.Contains(src(fss, x.Args[0]), "datetime("):
					insertedAt[src(fss, x)] = true
				}
			}
			return true
		})
		sort.Slice(sev, func(i, j int) bool { return sev[i].p < sev[j].p })
		var sqlStamp []string
		for _, e := range sev {
			if len(sqlStamp) == 0 || sqlStamp[len(sqlStamp)-1] != e.k {
				sqlStamp = append(sqlStamp, e.k)
			}
		}
		keys := func(m map[string]bool) []string {
			var out []string
			for k := range m {
				out = append(out, k)
			}
			sort.Strings(out)
			return out
		}
		if sqlNowArg == "" || len(ulidExprs) == 0 {
			return Result{}, fmt.Errorf("sqlite: time argument of write / ulid.MustNew not recognised")
		}
		// ReadChanges: is the horizon clause part of the statement that defines `sb` (unconditional)?
		sqlHorizonInBase := false
		var sqlCondClauses []string
		for _, st := range src2.Body.List {
			switch x := st.(type) {
			case *ast.AssignStmt:
				if x.Tok == token.DEFINE && len(x.Lhs) == 1 && src(fss, x.Lhs[0]) == "sb" && strings.Contains(src(fss, x.Rhs[0]), "inserted_at <=") {
					sqlHorizonInBase = true
				}
			case *ast.IfStmt:
				if strings.Contains(src(fss, x.Body), "sb = ") {
					sqlCondClauses = append(sqlCondClauses, src(fss, x.Cond))
				}
			}
		}

		// ---------------------------------------------------------------- commands/read_changes.go
		fsc, fc, err := parseFile(repo, "pkg/server/commands/read_changes.go")
		if err != nil {
			return Result{}, err
		}
		ex := findFunc(fc, "ReadChangesQuery", "Execute")
		opt := findFunc(fc, "", "WithReadChangeQueryHorizonOffset")
		if ex == nil || opt == nil {
			return Result{}, fmt.Errorf("read_changes.go: Execute / WithReadChangeQueryHorizonOffset not found")
		}
		var filterLit []string
		filterTopLevel := false
		for _, st := range ex.Body.List {
			as, ok := st.(*ast.AssignStmt)
			if !ok || len(as.Lhs) != 1 || len(as.Rhs) != 1 || src(fsc, as.Lhs[0]) != "filter" {
				continue
			}
			if cl, ok := as.Rhs[0].(*ast.CompositeLit); ok && src(fsc, cl.Type) == "storage.ReadChangesFilter" {
				filterTopLevel = true
				for _, e := range cl.Elts {
					filterLit = append(filterLit, src(fsc, e))
				}
			}
		}
		if !filterTopLevel {
			// the literal may have moved into a nested block: still report its elements
			ast.Inspect(ex.Body, func(n ast.Node) bool {
				if cl, ok := n.(*ast.CompositeLit); ok && src(fsc, cl.Type) == "storage.ReadChangesFilter" && len(filterLit) == 0 {
					for _, e := range cl.Elts {
						filterLit = append(filterLit, src(fsc, e))
					}
				}
				return true
			})
		}
		var filterAssigns []string
		backendCall := ""
		notFoundKeepsToken := false
		ast.Inspect(ex.Body, func(n ast.Node) bool {
			switch x := n.(type) {
			case *ast.AssignStmt:
				for _, l := range x.Lhs {
					if ls := src(fsc, l); strings.HasPrefix(ls, "filter.") || (ls == "filter" && x.Tok == token.ASSIGN) {
						filterAssigns = append(filterAssigns, src(fsc, x))
					}
				}
			case *ast.CallExpr:
				if src(fsc, x.Fun) == "q.backend.ReadChanges" {
					backendCall = src(fsc, x)
				}
			case *ast.IfStmt:
				if strings.Contains(src(fsc, x.Cond), "storage.ErrNotFound") && strings.Contains(src(fsc, x.Body), "ContinuationToken: req.GetContinuationToken()") {
					notFoundKeepsToken = true
				}
			}
			return true
		})
		if backendCall == "" || len(filterLit) == 0 {
			return Result{}, fmt.Errorf("read_changes.go: ReadChangesFilter literal / backend.ReadChanges call not recognised")
		}
		hasHorizon := false
		for _, e := range filterLit {
			if e == "HorizonOffset: q.horizonOffset" {
				hasHorizon = true
			}
		}
		everyPage := hasHorizon && filterTopLevel && len(filterAssigns) == 0 &&
			backendCall == "q.backend.ReadChanges(ctx, req.GetStoreId(), filter, opts)"
		optBody := ""
		ast.Inspect(opt.Body, func(n ast.Node) bool {
			if as, ok := n.(*ast.AssignStmt); ok && strings.Contains(src(fsc, as), "horizonOffset") {
				optBody = src(fsc, as)
			}
			return true
		})
		// server/read_changes.go
		fsv, fv, err := parseFile(repo, "pkg/server/read_changes.go")
		if err != nil {
			return Result{}, err
		}
		serverPasses := false
		ast.Inspect(fv, func(n ast.Node) bool {
			if c, ok := n.(*ast.CallExpr); ok && src(fsv, c) == "commands.WithReadChangeQueryHorizonOffset(s.changelogHorizonOffset)" {
				serverPasses = true
			}
			return true
		})

		var sb strings.Builder
		sb.WriteString(genHeader)
		sb.WriteString("namespace OpenFGAVerif.Gen.StoreChanges\n\n")
		sb.WriteString("/-- MemoryBackend.Write: its top-level statements in source order -/\n")
		sb.WriteString("def memWriteStmtOrder : List String := " + leanStrList(stmtOrder) + "\n")
		sb.WriteString("/-- … the relative order of `s.mutexTuples.Lock()`, `now := …`, `entropy := …` -/\n")
		sb.WriteString("def memStampOrder : List String := " + leanStrList(stampOrder) + "\n")
		sb.WriteString("/-- Lock precedes the (single) assignment of `now`, the creation of `entropy` and every ulid.MustNew call -/\n")
		sb.WriteString("def memStampsUnderLock : Bool := " + b(stampsUnderLock) + "\n")
		sb.WriteString("def memNowExpr : String := " + leanStr(nowExpr) + "\n")
		sb.WriteString("def memEntropyExpr : String := " + leanStr(entropyExpr) + "\n")
		sb.WriteString("/-- Timestamp / Ulid of every tupleChangeRec literal in Write -/\n")
		sb.WriteString("def memChangeStamps : List String := " + leanStrList(changeStamps) + "\n")
		sb.WriteString("/-- MemoryBackend.ReadChanges: the tests of the scan loop as `depth:test`, in source order; the read lock -/\n")
		sb.WriteString("def memScanLoop : List String := " + leanStrList(loopTests) + "\n")
		sb.WriteString("def memReadLock : Bool := " + b(readLock) + "\n")
		sb.WriteString("\n/-- sqlite: the time handed to write() by Write; BeginTx / entropy / ulid.MustNew / Commit in source order (runs collapsed) -/\n")
		sb.WriteString("def sqlWriteNowArg : String := " + leanStr(sqlNowArg) + "\n")
		sb.WriteString("def sqlStampOrder : List String := " + leanStrList(sqlStamp) + "\n")
		sb.WriteString("def sqlUlidExprs : List String := " + leanStrList(keys(ulidExprs)) + "\n")
		sb.WriteString("def sqlInsertedAtExprs : List String := " + leanStrList(keys(insertedAt)) + "\n")
		sb.WriteString("/-- sqlite.ReadChanges: the horizon clause belongs to the statement that defines the query; the conditional clauses -/\n")
		sb.WriteString("def sqlHorizonInBaseQuery : Bool := " + b(sqlHorizonInBase) + "\n")
		sb.WriteString("def sqlConditionalClauses : List String := " + leanStrList(sqlCondClauses) + "\n")
		sb.WriteString("\n/-- ReadChangesQuery.Execute: elements of the ReadChangesFilter literal; is `filter := …` a top-level statement; other\n    assignments to the filter; the datastore call -/\n")
		sb.WriteString("def rcFilterLiteral : List String := " + leanStrList(filterLit) + "\n")
		sb.WriteString("def rcFilterTopLevel : Bool := " + b(filterTopLevel) + "\n")
		sb.WriteString("def rcFilterAssignments : List String := " + leanStrList(filterAssigns) + "\n")
		sb.WriteString("def rcBackendCall : String := " + leanStr(backendCall) + "\n")
		sb.WriteString("/-- derived: every datastore call of Execute — first page or continuation — carries q.horizonOffset -/\n")
		sb.WriteString("def rcHorizonEveryPage : Bool := " + b(everyPage) + "\n")
		sb.WriteString("def rcHorizonOption : String := " + leanStr(optBody) + "\n")
		sb.WriteString("def rcNotFoundKeepsToken : Bool := " + b(notFoundKeepsToken) + "\n")
		sb.WriteString("def rcServerPassesHorizon : Bool := " + b(serverPasses) + "\n")
		sb.WriteString("\nend OpenFGAVerif.Gen.StoreChanges\n")
		return Result{Lean: sb.String(), Summary: map[string]interface{}{
			"memWriteStmtOrder": stmtOrder, "memStampsUnderLock": stampsUnderLock, "memScanLoop": loopTests,
			"sqlWriteNowArg": sqlNowArg, "sqlStampOrder": sqlStamp, "rcFilterLiteral": filterLit,
			"rcHorizonEveryPage": everyPage, "rcFilterAssignments": filterAssigns,
		}}, nil
	})
}
