package main

import (
	"fmt"
	"go/ast"
	"go/token"
	"strconv"
	"strings"
)

// StoreKeys: the identity under which the two tuple stores look a request key up during a Write (C12).
//
//	pkg/storage/sqlite/sqlite.go   tupleLockKey (struct fields), makeTupleLockKeys (how each field is filled, the
//	                               strings.Join field list + separator of the de-dup key, the `seen` test, the two
//	                               loops feeding `add`), buildRowConstructorIN (argument list), the row-constructor
//	                               column list of selectExistingRowsForWrite and the key of its `existing` map, the
//	                               column list of the DELETE condition and of the two INSERTs of write()
//	pkg/storage/memory/memory.go   match (every comparison, in source order), find, the look-ups of
//	                               sanitizeTuplesWriteDelete and of the two loops of Write
func init() {
	register("StoreKeys", func(repo string) (Result, error) {
		b := func(x bool) string {
			if x {
				return "true"
			}
			return "false"
		}
		fset, f, err := parseFile(repo, "pkg/storage/sqlite/sqlite.go")
		if err != nil {
			return Result{}, err
		}
		// ---------------------------------------------------------------- tupleLockKey
		var structFields []string
		for _, d := range f.Decls {
			gd, ok := d.(*ast.GenDecl)
			if !ok || gd.Tok != token.TYPE {
				continue
			}
			for _, s := range gd.Specs {
				ts := s.(*ast.TypeSpec)
				st, ok := ts.Type.(*ast.StructType)
				if !ok || ts.Name.Name != "tupleLockKey" {
					continue
				}
				for _, fl := range st.Fields.List {
					for _, n := range fl.Names {
						structFields = append(structFields, n.Name)
					}
				}
			}
		}
		if len(structFields) == 0 {
			return Result{}, fmt.Errorf("sqlite.go: type tupleLockKey not found")
		}
		// ---------------------------------------------------------------- makeTupleLockKeys
		mk := findFunc(f, "", "makeTupleLockKeys")
		if mk == nil {
			return Result{}, fmt.Errorf("sqlite.go: makeTupleLockKeys not found")
		}
		stripK := func(s string) string {
			s = strings.TrimSpace(s)
			if strings.HasPrefix(s, "string(") && strings.HasSuffix(s, ")") {
				s = s[len("string(") : len(s)-1]
			}
			return strings.TrimPrefix(s, "k.")
		}
		var joinFields []string
		var sepCodes []string
		joinFound := false
		var assign, splits, feeds []string
		dedupTest := ""
		dedupMarks, dedupAppends := false, false
		ast.Inspect(mk.Body, func(n ast.Node) bool {
			switch x := n.(type) {
			case *ast.CallExpr:
				if src(fset, x.Fun) == "strings.Join" && len(x.Args) == 2 && !joinFound {
					if cl, ok := x.Args[0].(*ast.CompositeLit); ok {
						joinFound = true
						for _, e := range cl.Elts {
							joinFields = append(joinFields, stripK(src(fset, e)))
						}
						if bl, ok := x.Args[1].(*ast.BasicLit); ok && bl.Kind == token.STRING {
							s, _ := strconv.Unquote(bl.Value)
							for _, r := range s {
								sepCodes = append(sepCodes, strconv.Itoa(int(r)))
							}
						} else {
							sepCodes = []string{"999999"} // not a literal: unknown separator
						}
					}
				}
			case *ast.CompositeLit:
				if src(fset, x.Type) == "tupleLockKey" {
					for _, e := range x.Elts {
						if kv, ok := e.(*ast.KeyValueExpr); ok {
							assign = append(assign, src(fset, kv.Key)+"="+src(fset, kv.Value))
						} else {
							assign = append(assign, "?="+src(fset, e))
						}
					}
				}
			case *ast.AssignStmt:
				s := src(fset, x)
				if x.Tok == token.DEFINE && len(x.Rhs) == 1 {
					if c, ok := x.Rhs[0].(*ast.CallExpr); ok {
						if fn := src(fset, c.Fun); fn == "tupleUtils.SplitObject" || fn == "tupleUtils.ToUserParts" {
							splits = append(splits, s)
						}
					}
				}
				if s == "seen[s] = struct{}{}" {
					dedupMarks = true
				}
				if s == "keys = append(keys, k)" {
					dedupAppends = true
				}
			case *ast.IfStmt:
				if x.Init != nil && strings.Contains(src(fset, x.Init), "seen[") {
					body := ""
					for _, s := range x.Body.List {
						body += src(fset, s) + ";"
					}
					dedupTest = src(fset, x.Init) + "; " + src(fset, x.Cond) + " -> " + body
				}
			case *ast.RangeStmt:
				for _, s := range x.Body.List {
					if es, ok := s.(*ast.ExprStmt); ok {
						if c, ok := es.X.(*ast.CallExpr); ok && src(fset, c.Fun) == "add" {
							feeds = append(feeds, src(fset, x.X)+":"+src(fset, c))
						}
					}
				}
			}
			return true
		})
		if !joinFound || len(assign) == 0 {
			return Result{}, fmt.Errorf("makeTupleLockKeys: strings.Join field list / tupleLockKey literal not recognised")
		}
		// ---------------------------------------------------------------- buildRowConstructorIN + SELECT
		br := findFunc(f, "", "buildRowConstructorIN")
		sel := findFunc(f, "Datastore", "selectExistingRowsForWrite")
		wr := findFunc(f, "Datastore", "write")
		if br == nil || sel == nil || wr == nil {
			return Result{}, fmt.Errorf("sqlite.go: buildRowConstructorIN / selectExistingRowsForWrite / write not found")
		}
		var inArgs []string
		placeholder := ""
		ast.Inspect(br.Body, func(n ast.Node) bool {
			switch x := n.(type) {
			case *ast.CallExpr:
				if src(fset, x.Fun) == "append" && len(x.Args) > 1 && src(fset, x.Args[0]) == "args" {
					for _, a := range x.Args[1:] {
						inArgs = append(inArgs, stripK(src(fset, a)))
					}
				}
			case *ast.BasicLit:
				if x.Kind == token.STRING {
					if s, _ := strconv.Unquote(x.Value); strings.HasPrefix(s, "(?") {
						placeholder = s
					}
				}
			}
			return true
		})
		inColumns, existingKey := "", ""
		ast.Inspect(sel.Body, func(n ast.Node) bool {
			switch x := n.(type) {
			case *ast.BasicLit:
				if x.Kind == token.STRING {
					if s, _ := strconv.Unquote(x.Value); strings.HasSuffix(strings.TrimSpace(s), "IN") {
						inColumns = s
					}
				}
			case *ast.AssignStmt:
				if s := src(fset, x); strings.HasPrefix(s, "existing[") {
					existingKey = s
				}
			}
			return true
		})
		if len(inArgs) == 0 || inColumns == "" || existingKey == "" {
			return Result{}, fmt.Errorf("sqlite.go: row-constructor IN arguments / column list / existing-map key not recognised")
		}
		// ---------------------------------------------------------------- write(): DELETE condition, INSERT columns
		var delWhere []string
		insertCols := map[string][]string{}
		ast.Inspect(wr.Body, func(n ast.Node) bool {
			switch x := n.(type) {
			case *ast.CallExpr:
				if src(fset, x.Fun) == "append" && len(x.Args) == 2 && src(fset, x.Args[0]) == "deleteConditions" {
					if cl, ok := x.Args[1].(*ast.CompositeLit); ok {
						for _, e := range cl.Elts {
							if kv, ok := e.(*ast.KeyValueExpr); ok {
								k, _ := strconv.Unquote(src(fset, kv.Key))
								delWhere = append(delWhere, k+"="+src(fset, kv.Value))
							}
						}
					}
				}
				if se, ok := x.Fun.(*ast.SelectorExpr); ok && se.Sel.Name == "Columns" {
					// s.stbl.Insert("tuple").Columns(...)
					if ic, ok := se.X.(*ast.CallExpr); ok {
						if ise, ok := ic.Fun.(*ast.SelectorExpr); ok && ise.Sel.Name == "Insert" && len(ic.Args) == 1 {
							tbl, _ := strconv.Unquote(src(fset, ic.Args[0]))
							var cols []string
							for _, a := range x.Args {
								c, _ := strconv.Unquote(src(fset, a))
								cols = append(cols, c)
							}
							insertCols[tbl] = cols
						}
					}
				}
			}
			return true
		})
		if len(delWhere) == 0 || len(insertCols["tuple"]) == 0 || len(insertCols["changelog"]) == 0 {
			return Result{}, fmt.Errorf("sqlite.write: DELETE condition / INSERT column lists not recognised")
		}

		// ---------------------------------------------------------------- memory: match / find / look-ups
		fsm, fm, err := parseFile(repo, "pkg/storage/memory/memory.go")
		if err != nil {
			return Result{}, err
		}
		mt := findFunc(fm, "", "match")
		fd := findFunc(fm, "", "find")
		san := findFunc(fm, "", "sanitizeTuplesWriteDelete")
		mw := findFunc(fm, "MemoryBackend", "Write")
		if mt == nil || fd == nil || san == nil || mw == nil {
			return Result{}, fmt.Errorf("memory.go: match / find / sanitizeTuplesWriteDelete / Write not found")
		}
		var matchConds, matchSplits []string
		matchOnlyReturnsFalse := true
		ast.Inspect(mt.Body, func(n ast.Node) bool {
			switch x := n.(type) {
			case *ast.IfStmt:
				matchConds = append(matchConds, src(fsm, x.Cond))
			case *ast.AssignStmt:
				if x.Tok == token.DEFINE {
					matchSplits = append(matchSplits, src(fsm, x))
				}
			case *ast.ReturnStmt:
				if len(x.Results) == 1 {
					r := src(fsm, x.Results[0])
					last := mt.Body.List[len(mt.Body.List)-1]
					if r == "true" && ast.Node(x) != ast.Node(last) {
						matchOnlyReturnsFalse = false
					}
					if r != "true" && r != "false" {
						matchOnlyReturnsFalse = false
					}
				}
			}
			return true
		})
		if rs, ok := mt.Body.List[len(mt.Body.List)-1].(*ast.ReturnStmt); !ok || len(rs.Results) != 1 || src(fsm, rs.Results[0]) != "true" {
			matchOnlyReturnsFalse = false
		}
		findBody := src(fsm, fd.Body)
		var sanLookups, writeMatches []string
		ast.Inspect(san.Body, func(n ast.Node) bool {
			switch x := n.(type) {
			case *ast.IfStmt:
				if c := src(fsm, x.Cond); strings.Contains(c, "find(") {
					sanLookups = append(sanLookups, c)
				}
			case *ast.AssignStmt:
				if s := src(fsm, x); strings.Contains(s, "find(") {
					sanLookups = append(sanLookups, s)
				}
			}
			return true
		})
		ast.Inspect(mw.Body, func(n ast.Node) bool {
			if c, ok := n.(*ast.CallExpr); ok && src(fsm, c.Fun) == "match" {
				writeMatches = append(writeMatches, src(fsm, c))
			}
			return true
		})
		if len(matchConds) == 0 || len(sanLookups) == 0 || len(writeMatches) == 0 {
			return Result{}, fmt.Errorf("memory.go: match comparisons / sanitize look-ups / Write match calls not recognised")
		}

		var sb strings.Builder
		sb.WriteString(genHeader)
		sb.WriteString("namespace OpenFGAVerif.Gen.StoreKeys\n\n")
		sb.WriteString("/-- sqlite.go `type tupleLockKey struct`: field names in order -/\n")
		sb.WriteString("def sqlLockKeyStruct : List String := " + leanStrList(structFields) + "\n")
		sb.WriteString("/-- makeTupleLockKeys: how every field of the key is filled (`field=expression`) and where the parts come from -/\n")
		sb.WriteString("def sqlLockKeyAssign : List String := " + leanStrList(assign) + "\n")
		sb.WriteString("def sqlLockKeySplits : List String := " + leanStrList(splits) + "\n")
		sb.WriteString("/-- makeTupleLockKeys: the fields joined into the de-dup key `s` (in order, `k.` and `string(…)` stripped) -/\n")
		sb.WriteString("def sqlLockKeyJoin : List String := " + leanStrList(joinFields) + "\n")
		sb.WriteString("/-- … and the separator of the join, as code points -/\n")
		sb.WriteString("def sqlLockKeySep : List Nat := [" + strings.Join(sepCodes, ", ") + "]\n")
		sb.WriteString("/-- the `seen` test (init; condition -> body), the marking and the append that follow it -/\n")
		sb.WriteString("def sqlLockKeyDedupTest : String := " + leanStr(dedupTest) + "\n")
		sb.WriteString("def sqlLockKeyDedupMarksAndAppends : Bool := " + b(dedupMarks && dedupAppends) + "\n")
		sb.WriteString("/-- the loops that feed `add` (`ranged expression:call`) -/\n")
		sb.WriteString("def sqlLockKeyFeeds : List String := " + leanStrList(feeds) + "\n")
		sb.WriteString("/-- buildRowConstructorIN: arguments bound per key, the placeholder group; selectExistingRowsForWrite: the column tuple, the key of `existing` -/\n")
		sb.WriteString("def sqlRowInArgs : List String := " + leanStrList(inArgs) + "\n")
		sb.WriteString("def sqlRowInPlaceholder : String := " + leanStr(placeholder) + "\n")
		sb.WriteString("def sqlRowInColumns : String := " + leanStr(inColumns) + "\n")
		sb.WriteString("def sqlExistingKey : String := " + leanStr(existingKey) + "\n")
		sb.WriteString("/-- write(): `column=expression` of the per-key DELETE condition; the column lists of the two INSERTs -/\n")
		sb.WriteString("def sqlDeleteWhere : List String := " + leanStrList(delWhere) + "\n")
		sb.WriteString("def sqlInsertTupleColumns : List String := " + leanStrList(insertCols["tuple"]) + "\n")
		sb.WriteString("def sqlInsertChangelogColumns : List String := " + leanStrList(insertCols["changelog"]) + "\n")
		sb.WriteString("\n/-- memory.go `match`: every `if` condition in source order, the splits it makes, and: every `return` inside is `return false`, the last statement is `return true` -/\n")
		sb.WriteString("def memMatchConds : List String := " + leanStrList(matchConds) + "\n")
		sb.WriteString("def memMatchSplits : List String := " + leanStrList(matchSplits) + "\n")
		sb.WriteString("def memMatchRejectsOnly : Bool := " + b(matchOnlyReturnsFalse) + "\n")
		sb.WriteString("def memFindBody : String := " + leanStr(findBody) + "\n")
		sb.WriteString("/-- the look-ups of sanitizeTuplesWriteDelete and the `match` calls of Write's two loops -/\n")
		sb.WriteString("def memSanitizeLookups : List String := " + leanStrList(sanLookups) + "\n")
		sb.WriteString("def memWriteMatches : List String := " + leanStrList(writeMatches) + "\n")
		sb.WriteString("\nend OpenFGAVerif.Gen.StoreKeys\n")
		return Result{Lean: sb.String(), Summary: map[string]interface{}{
			"sqlLockKeyStruct": structFields, "sqlLockKeyJoin": joinFields, "sqlLockKeySep": sepCodes, "sqlRowInArgs": inArgs,
			"sqlDeleteWhere": delWhere, "memMatchConds": matchConds, "memSanitizeLookups": sanLookups,
		}}, nil
	})
}
