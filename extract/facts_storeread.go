package main

import (
	"fmt"
	"go/ast"
	"go/token"
	"strings"
)

// StoreRead: facts about the READ paths of the memory and sqlite datastores (C13).
//
// memory.go
//   - match: normalised source of the body (pinned by a tie lemma; the model `matchT` mirrors it)
//   - read: the "everything empty" shortcut and whether it looks at filter.Conditions; the filter condition
//   - ReadUserTuple: loop body
//   - ReadUsersetTuples: where the Conditions test stands relative to the first append; whether the restriction loop
//     leaves after the first match; the restriction test
//   - ReadStartingWithUser: the guard list, the ObjectIDs guard (empty set = nothing / everything), whether the
//     user loop leaves after the first match, the sort key
//
// sqlite.go
//   - the Where(...) clauses (with the guards they stand under) of read / ReadUserTuple / ReadUsersetTuples /
//     ReadStartingWithUser, the user_relation guards and the ObjectIDs guard
//
// A shape that is neither the one of the unchanged tree nor a recognised repaired one is an error (broken tie).
func init() {
	register("StoreRead", func(repo string) (Result, error) {
		fset, f, err := parseFile(repo, "pkg/storage/memory/memory.go")
		if err != nil {
			return Result{}, err
		}
		S := func(n ast.Node) string { return src(fset, n) }

		// ---- match
		matchFn := findFunc(f, "", "match")
		if matchFn == nil {
			return Result{}, fmt.Errorf("memory.match not found")
		}
		matchSrc := S(matchFn.Body)

		// ---- read
		readFn := findFunc(f, "MemoryBackend", "read")
		if readFn == nil {
			return Result{}, fmt.Errorf("memory.read not found")
		}
		var shortcutCond, readFilterCond string
		shortcutSkips := false
		foundShortcut := false
		for _, st := range readFn.Body.List {
			is, ok := st.(*ast.IfStmt)
			if !ok || !strings.Contains(S(is.Cond), `filter.Object == ""`) {
				continue
			}
			foundShortcut = true
			shortcutCond = S(is.Cond)
			shortcutSkips = !strings.Contains(shortcutCond, "filter.Conditions") && !strings.Contains(S(is.Body), "filter.Conditions")
			if !strings.Contains(S(is.Body), "copy(matches, s.tuples[store])") && shortcutSkips {
				return Result{}, fmt.Errorf("memory.read: shortcut branch has an unknown shape: %s", S(is.Body))
			}
			els, ok := is.Else.(*ast.BlockStmt)
			if !ok || len(els.List) != 1 {
				return Result{}, fmt.Errorf("memory.read: else branch of the shortcut has an unknown shape")
			}
			rs, ok := els.List[0].(*ast.RangeStmt)
			if !ok || S(rs.X) != "s.tuples[store]" || len(rs.Body.List) != 1 {
				return Result{}, fmt.Errorf("memory.read: filter loop not found")
			}
			ifs, ok := rs.Body.List[0].(*ast.IfStmt)
			if !ok || S(ifs.Body) != "{ matches = append(matches, t) }" {
				return Result{}, fmt.Errorf("memory.read: filter loop body has an unknown shape")
			}
			readFilterCond = S(ifs.Cond)
		}
		if !foundShortcut {
			// no shortcut at all: every read goes through the filter loop (which looks at Conditions)
			return Result{}, fmt.Errorf("memory.read: the empty-key shortcut is gone; the model `memRead` has to be re-derived")
		}

		// ---- ReadUserTuple
		rutupFn := findFunc(f, "MemoryBackend", "ReadUserTuple")
		if rutupFn == nil {
			return Result{}, fmt.Errorf("memory.ReadUserTuple not found")
		}
		loop := findRangeOver(fset, rutupFn.Body, "s.tuples[store]")
		if loop == nil {
			return Result{}, fmt.Errorf("memory.ReadUserTuple: loop not found")
		}
		readUserTupleLoop := S(loop.Body)

		// ---- ReadUsersetTuples
		rutFn := findFunc(f, "MemoryBackend", "ReadUsersetTuples")
		if rutFn == nil {
			return Result{}, fmt.Errorf("memory.ReadUsersetTuples not found")
		}
		loop = findRangeOver(fset, rutFn.Body, "s.tuples[store]")
		if loop == nil || len(loop.Body.List) == 0 {
			return Result{}, fmt.Errorf("memory.ReadUsersetTuples: loop not found")
		}
		var rutOuter *ast.IfStmt
		rutCondFirst := false
		for _, st := range loop.Body.List {
			if is, ok := st.(*ast.IfStmt); ok {
				c := S(is.Cond)
				if strings.Contains(c, "match(t,") && strings.Contains(c, "tupleUtils.GetUserTypeFromUser(t.User) == tupleUtils.UserSet") {
					rutOuter = is
					break
				}
				// a Conditions guard in front of the outer test
				if isCondGuard(fset, is) {
					rutCondFirst = true
				}
			}
		}
		if rutOuter == nil {
			return Result{}, fmt.Errorf("memory.ReadUsersetTuples: `if match(...) && GetUserTypeFromUser(t.User) == UserSet` not found")
		}
		rutOuterCond := S(rutOuter.Cond)
		if strings.Contains(rutOuterCond, "filter.Conditions") {
			rutCondFirst = true
		}
		// position of the Conditions guard relative to the first append inside the block
		idxAppend, idxCond := -1, -1
		var restrLoop *ast.RangeStmt
		noRestrFastPath := false
		for i, st := range rutOuter.Body.List {
			if is, ok := st.(*ast.IfStmt); ok && isCondGuard(fset, is) {
				if idxCond < 0 {
					idxCond = i
				}
				continue
			}
			if containsCall(st, "append") && idxAppend < 0 {
				idxAppend = i
			}
			if is, ok := st.(*ast.IfStmt); ok && S(is.Cond) == "len(filter.AllowedUserTypeRestrictions) == 0" {
				b := S(is.Body)
				if b == "{ matches = append(matches, t) continue }" {
					noRestrFastPath = true
				} else {
					return Result{}, fmt.Errorf("memory.ReadUsersetTuples: the no-restriction branch has an unknown shape: %s", b)
				}
			}
			if rs, ok := st.(*ast.RangeStmt); ok && S(rs.X) == "filter.AllowedUserTypeRestrictions" {
				restrLoop = rs
			}
		}
		if !noRestrFastPath || restrLoop == nil || idxAppend < 0 {
			return Result{}, fmt.Errorf("memory.ReadUsersetTuples: body has an unknown shape (no-restriction branch / restriction loop / append not found)")
		}
		if idxCond >= 0 && idxCond < idxAppend {
			rutCondFirst = true
		}
		if idxCond < 0 && !rutCondFirst {
			return Result{}, fmt.Errorf("memory.ReadUsersetTuples: no test of filter.Conditions found at all")
		}
		// the restriction loop: `if <test> { matches = append(matches, t); continue|break }`
		rutBreak, rutRestrCond, err := loopAppendShape(fset, restrLoop, loop.Body)
		if err != nil {
			return Result{}, fmt.Errorf("memory.ReadUsersetTuples: %w", err)
		}
		rutPlain := false
		switch {
		case rutRestrCond == "allowedType.GetType() == userType && allowedType.GetRelation() == userRelation":
			rutPlain = true
		case strings.Contains(rutRestrCond, "GetRelationOrWildcard") || strings.Contains(rutRestrCond, "GetWildcard"):
			rutPlain = false
		default:
			return Result{}, fmt.Errorf("memory.ReadUsersetTuples: restriction test has an unknown shape: %s", rutRestrCond)
		}

		// ---- ReadStartingWithUser
		rswuFn := findFunc(f, "MemoryBackend", "ReadStartingWithUser")
		if rswuFn == nil {
			return Result{}, fmt.Errorf("memory.ReadStartingWithUser not found")
		}
		loop = findRangeOver(fset, rswuFn.Body, "s.tuples[store]")
		if loop == nil {
			return Result{}, fmt.Errorf("memory.ReadStartingWithUser: loop not found")
		}
		var rswuGuards []string
		var idsGuard string
		var userLoop *ast.RangeStmt
		for _, st := range loop.Body.List {
			switch x := st.(type) {
			case *ast.IfStmt:
				if S(x.Body) != "{ continue }" || x.Else != nil {
					return Result{}, fmt.Errorf("memory.ReadStartingWithUser: guard with an unknown body: %s", S(x))
				}
				c := S(x.Cond)
				if strings.Contains(c, "filter.ObjectIDs") {
					idsGuard = c
				} else {
					rswuGuards = append(rswuGuards, c)
				}
			case *ast.RangeStmt:
				if S(x.X) == "filter.UserFilter" {
					userLoop = x
				}
			default:
				return Result{}, fmt.Errorf("memory.ReadStartingWithUser: unexpected statement in the loop: %s", S(st))
			}
		}
		if userLoop == nil {
			return Result{}, fmt.Errorf("memory.ReadStartingWithUser: user-filter loop not found")
		}
		rswuEmptyAll := false
		switch {
		case idsGuard == "filter.ObjectIDs != nil && !filter.ObjectIDs.Exists(t.ObjectID)":
			rswuEmptyAll = false
		case strings.Contains(idsGuard, "filter.ObjectIDs.Size() > 0") && strings.Contains(idsGuard, "!filter.ObjectIDs.Exists(t.ObjectID)"):
			rswuEmptyAll = true
		default:
			return Result{}, fmt.Errorf("memory.ReadStartingWithUser: ObjectIDs guard has an unknown shape: %q", idsGuard)
		}
		// user loop: targetUser computation, `if targetUser != t.User { continue }`, append [, break]
		ul := userLoop.Body.List
		rswuBreak := false
		if len(ul) < 4 {
			return Result{}, fmt.Errorf("memory.ReadStartingWithUser: user loop has an unknown shape")
		}
		rswuTarget := S(ul[0]) + " ; " + S(ul[1]) + " ; " + S(ul[2])
		if S(ul[3]) != "matches = append(matches, t)" {
			return Result{}, fmt.Errorf("memory.ReadStartingWithUser: user loop: expected the append as 4th statement, got %s", S(ul[3]))
		}
		switch {
		case len(ul) == 4:
		case len(ul) == 5:
			if bs, ok := ul[4].(*ast.BranchStmt); ok && (bs.Tok == token.BREAK || (bs.Tok == token.CONTINUE && bs.Label != nil)) {
				rswuBreak = true
			} else {
				return Result{}, fmt.Errorf("memory.ReadStartingWithUser: user loop: unknown statement after the append: %s", S(ul[4]))
			}
		default:
			return Result{}, fmt.Errorf("memory.ReadStartingWithUser: user loop has an unknown shape")
		}
		var sortLess string
		ast.Inspect(rswuFn.Body, func(n ast.Node) bool {
			if ce, ok := n.(*ast.CallExpr); ok && (S(ce.Fun) == "sort.Slice" || S(ce.Fun) == "sort.SliceStable") && len(ce.Args) == 2 {
				if fl, ok := ce.Args[1].(*ast.FuncLit); ok && len(fl.Body.List) == 1 {
					if rs, ok := fl.Body.List[0].(*ast.ReturnStmt); ok && len(rs.Results) == 1 {
						sortLess = S(rs.Results[0])
					}
				}
			}
			return true
		})

		// ---- sqlite.go
		fset2, f2, err := parseFile(repo, "pkg/storage/sqlite/sqlite.go")
		if err != nil {
			return Result{}, err
		}
		wheres := func(recv, name string) ([]string, *ast.FuncDecl, error) {
			fd := findFunc(f2, recv, name)
			if fd == nil {
				return nil, nil, fmt.Errorf("sqlite.%s not found", name)
			}
			return whereClauses(fset2, fd.Body), fd, nil
		}
		sqlRead, sqlReadFn, err := wheres("Datastore", "read")
		if err != nil {
			return Result{}, err
		}
		sqlRUT1, _, err := wheres("Datastore", "ReadUserTuple")
		if err != nil {
			return Result{}, err
		}
		sqlRUT, _, err := wheres("Datastore", "ReadUsersetTuples")
		if err != nil {
			return Result{}, err
		}
		sqlRSWU, sqlRswuFn, err := wheres("Datastore", "ReadStartingWithUser")
		if err != nil {
			return Result{}, err
		}
		// user_relation pinning in read
		readPins, err := userRelPin(fset2, sqlReadFn.Body, `sb = sb.Where(sq.Eq{ "user_relation": userRelation, })`)
		if err != nil {
			return Result{}, fmt.Errorf("sqlite.read: %w", err)
		}
		rswuPins, err := userRelPin(fset2, sqlRswuFn.Body, `targetUser["user_relation"] = userRelation`)
		if err != nil {
			return Result{}, fmt.Errorf("sqlite.ReadStartingWithUser: %w", err)
		}
		sqlEmptyAll := false
		foundIds := false
		ast.Inspect(sqlRswuFn.Body, func(n ast.Node) bool {
			if is, ok := n.(*ast.IfStmt); ok && strings.Contains(src(fset2, is.Cond), "filter.ObjectIDs") {
				foundIds = true
				c := src(fset2, is.Cond)
				sqlEmptyAll = strings.Contains(c, "Size() > 0")
			}
			return true
		})
		if !foundIds {
			return Result{}, fmt.Errorf("sqlite.ReadStartingWithUser: ObjectIDs guard not found")
		}
		sqlRutFn := findFunc(f2, "Datastore", "ReadUsersetTuples")
		var sqlRutRestrLoop, sqlRswuTargetLoop string
		if l := findRangeOver(fset2, sqlRutFn.Body, "filter.AllowedUserTypeRestrictions"); l != nil {
			sqlRutRestrLoop = src(fset2, l.Body)
		} else {
			return Result{}, fmt.Errorf("sqlite.ReadUsersetTuples: restriction loop not found")
		}
		if l := findRangeOver(fset2, sqlRswuFn.Body, "filter.UserFilter"); l != nil {
			sqlRswuTargetLoop = src(fset2, l.Body)
		} else {
			return Result{}, fmt.Errorf("sqlite.ReadStartingWithUser: user-filter loop not found")
		}
		var orderBy string
		ast.Inspect(sqlRswuFn.Body, func(n ast.Node) bool {
			if ce, ok := n.(*ast.CallExpr); ok {
				if se, ok := ce.Fun.(*ast.SelectorExpr); ok && se.Sel.Name == "OrderBy" && len(ce.Args) == 1 {
					orderBy = strings.Trim(src(fset2, ce.Args[0]), `"`)
				}
			}
			return true
		})

		b := func(x bool) string {
			if x {
				return "true"
			}
			return "false"
		}
		var sb strings.Builder
		sb.WriteString(genHeader)
		sb.WriteString("namespace OpenFGAVerif.Gen.StoreRead\n\n")
		sb.WriteString("/-! pkg/storage/memory/memory.go -/\n")
		sb.WriteString("def memMatchSrc : String := " + leanStr(matchSrc) + "\n")
		sb.WriteString("def memReadShortcutCond : String := " + leanStr(shortcutCond) + "\n")
		sb.WriteString("def memReadShortcutSkipsConds : Bool := " + b(shortcutSkips) + "\n")
		sb.WriteString("def memReadFilterCond : String := " + leanStr(readFilterCond) + "\n")
		sb.WriteString("def memReadUserTupleLoop : String := " + leanStr(readUserTupleLoop) + "\n")
		sb.WriteString("def rutOuterCond : String := " + leanStr(rutOuterCond) + "\n")
		sb.WriteString("def rutCondFirst : Bool := " + b(rutCondFirst) + "\n")
		sb.WriteString("def rutBreakOnMatch : Bool := " + b(rutBreak) + "\n")
		sb.WriteString("def rutRestrCond : String := " + leanStr(rutRestrCond) + "\n")
		sb.WriteString("def rutPlainMatchesWildcard : Bool := " + b(rutPlain) + "\n")
		sb.WriteString("def rswuGuardsOther : List String := " + leanStrList(rswuGuards) + "\n")
		sb.WriteString("def rswuIdsGuard : String := " + leanStr(idsGuard) + "\n")
		sb.WriteString("def rswuEmptyIdsMeansAll : Bool := " + b(rswuEmptyAll) + "\n")
		sb.WriteString("def rswuTarget : String := " + leanStr(rswuTarget) + "\n")
		sb.WriteString("def rswuBreakOnMatch : Bool := " + b(rswuBreak) + "\n")
		sb.WriteString("def rswuSortLess : String := " + leanStr(sortLess) + "\n")
		sb.WriteString("\n/-! pkg/storage/sqlite/sqlite.go: `guard ⊢ clause` for every Where(...) in source order -/\n")
		sb.WriteString("def sqlReadWheres : List String := " + leanStrList(sqlRead) + "\n")
		sb.WriteString("def sqlReadUserTupleWheres : List String := " + leanStrList(sqlRUT1) + "\n")
		sb.WriteString("def sqlRutWheres : List String := " + leanStrList(sqlRUT) + "\n")
		var sqlRswuOther []string
		var sqlRswuIds string
		for _, c := range sqlRSWU {
			if strings.Contains(c, "filter.ObjectIDs") {
				sqlRswuIds = c
			} else {
				sqlRswuOther = append(sqlRswuOther, c)
			}
		}
		sb.WriteString("def sqlRswuWheresOther : List String := " + leanStrList(sqlRswuOther) + "\n")
		sb.WriteString("def sqlRswuIdsWhere : String := " + leanStr(sqlRswuIds) + "\n")
		sb.WriteString("def sqlRutRestrLoop : String := " + leanStr(sqlRutRestrLoop) + "\n")
		sb.WriteString("def sqlRswuTargetLoop : String := " + leanStr(sqlRswuTargetLoop) + "\n")
		sb.WriteString("def sqlReadUserNoRelPinsEmpty : Bool := " + b(readPins) + "\n")
		sb.WriteString("def sqlRswuUserNoRelPinsEmpty : Bool := " + b(rswuPins) + "\n")
		sb.WriteString("def sqlRswuEmptyIdsMeansAll : Bool := " + b(sqlEmptyAll) + "\n")
		sb.WriteString("def sqlRswuOrderBy : String := " + leanStr(orderBy) + "\n")
		sb.WriteString("\nend OpenFGAVerif.Gen.StoreRead\n")
		return Result{Lean: sb.String(), Summary: map[string]interface{}{
			"memShape": map[string]bool{"readShortcutSkipsConds": shortcutSkips, "rutCondFirst": rutCondFirst, "rutBreakOnMatch": rutBreak,
				"rutPlainMatchesWildcard": rutPlain, "rswuBreakOnMatch": rswuBreak, "rswuEmptyIdsMeansAll": rswuEmptyAll},
			"sqlShape": map[string]bool{"readUserNoRelPinsEmpty": readPins, "rswuUserNoRelPinsEmpty": rswuPins, "rswuEmptyIdsMeansAll": sqlEmptyAll},
			"sqlWhereClauses": len(sqlRead) + len(sqlRUT1) + len(sqlRUT) + len(sqlRSWU),
		}}, nil
	})
}

// findRangeOver returns the first `for … := range <x>` whose range expression prints as x.
func findRangeOver(fset *token.FileSet, body ast.Node, x string) *ast.RangeStmt {
	var out *ast.RangeStmt
	ast.Inspect(body, func(n ast.Node) bool {
		if out != nil {
			return false
		}
		if rs, ok := n.(*ast.RangeStmt); ok && src(fset, rs.X) == x {
			out = rs
			return false
		}
		return true
	})
	return out
}

// isCondGuard recognises `if len(filter.Conditions) > 0 && !slices.Contains(filter.Conditions, t.ConditionName) { continue }`.
func isCondGuard(fset *token.FileSet, is *ast.IfStmt) bool {
	return src(fset, is.Cond) == "len(filter.Conditions) > 0 && !slices.Contains(filter.Conditions, t.ConditionName)" &&
		src(fset, is.Body) == "{ continue }" && is.Else == nil
}

func containsCall(n ast.Node, name string) bool {
	found := false
	ast.Inspect(n, func(x ast.Node) bool {
		if ce, ok := x.(*ast.CallExpr); ok {
			if id, ok := ce.Fun.(*ast.Ident); ok && id.Name == name {
				found = true
			}
		}
		return !found
	})
	return found
}

// loopAppendShape looks at a `for range` whose body is one `if <test> { … }` and tells whether the tuple can be
// appended more than once per outer iteration: (breaks after the append, the test).
func loopAppendShape(fset *token.FileSet, rs *ast.RangeStmt, outer *ast.BlockStmt) (bool, string, error) {
	if len(rs.Body.List) != 1 {
		return false, "", fmt.Errorf("restriction loop: expected a single if statement, got %d statements", len(rs.Body.List))
	}
	is, ok := rs.Body.List[0].(*ast.IfStmt)
	if !ok || is.Else != nil {
		return false, "", fmt.Errorf("restriction loop: expected a single if statement")
	}
	test := src(fset, is.Cond)
	if !containsCall(is.Body, "append") {
		// flag-variable style: nothing is appended inside the loop, so at most once afterwards
		return true, test, nil
	}
	l := is.Body.List
	if len(l) != 2 || src(fset, l[0]) != "matches = append(matches, t)" {
		return false, "", fmt.Errorf("restriction loop: body has an unknown shape: %s", src(fset, is.Body))
	}
	bs, ok := l[1].(*ast.BranchStmt)
	if !ok {
		return false, "", fmt.Errorf("restriction loop: expected continue/break after the append")
	}
	switch {
	case bs.Tok == token.BREAK && bs.Label == nil:
		return true, test, nil
	case bs.Tok == token.CONTINUE && bs.Label != nil:
		return true, test, nil // `continue Outer`: leaves the restriction loop
	case bs.Tok == token.CONTINUE && bs.Label == nil:
		return false, test, nil // continues the restriction loop itself: the next equal restriction appends again
	}
	return false, "", fmt.Errorf("restriction loop: unknown branch statement %s", src(fset, bs))
}

// whereClauses lists, in source order, every `.Where(arg)` call of a function body together with the chain of
// `if` conditions it stands under: "cond1 && cond2 ⊢ arg".
func whereClauses(fset *token.FileSet, body *ast.BlockStmt) []string {
	var out []string
	var walk func(n ast.Node, guards []string)
	emit := func(ce *ast.CallExpr, guards []string) {
		se, ok := ce.Fun.(*ast.SelectorExpr)
		if !ok || se.Sel.Name != "Where" || len(ce.Args) < 1 {
			return
		}
		g := strings.Join(guards, " && ")
		out = append(out, g+" ⊢ "+src(fset, ce.Args[0]))
	}
	walk = func(n ast.Node, guards []string) {
		switch x := n.(type) {
		case nil:
			return
		case *ast.IfStmt:
			if x.Init != nil {
				walk(x.Init, guards)
			}
			g := append(append([]string{}, guards...), src(fset, x.Cond))
			walk(x.Body, g)
			if x.Else != nil {
				ge := append(append([]string{}, guards...), "!("+src(fset, x.Cond)+")")
				walk(x.Else, ge)
			}
			return
		case *ast.BlockStmt:
			for _, s := range x.List {
				walk(s, guards)
			}
			return
		case *ast.RangeStmt:
			g := append(append([]string{}, guards...), "range "+src(fset, x.X))
			walk(x.Body, g)
			return
		case *ast.ForStmt:
			walk(x.Body, append(append([]string{}, guards...), "for"))
			return
		}
		// generic statement / expression: collect the Where calls inside, innermost receiver first
		var calls []*ast.CallExpr
		ast.Inspect(n, func(y ast.Node) bool {
			if _, ok := y.(*ast.FuncLit); ok {
				return false
			}
			if ce, ok := y.(*ast.CallExpr); ok {
				calls = append(calls, ce)
			}
			return true
		})
		// ast.Inspect visits outer calls first; a method chain a.Where(x).Where(y) has y outermost → reverse
		for i := len(calls) - 1; i >= 0; i-- {
			emit(calls[i], guards)
		}
	}
	walk(body, nil)
	return out
}

// userRelPin finds `if userRelation != "" { <stmt> }` and reports whether a user without relation is pinned to
// user_relation = '' (an else branch or an unconditional assignment); as written there is no else: not pinned.
func userRelPin(fset *token.FileSet, body *ast.BlockStmt, stmt string) (bool, error) {
	found, pinned := false, false
	var bad string
	ast.Inspect(body, func(n ast.Node) bool {
		is, ok := n.(*ast.IfStmt)
		if !ok || src(fset, is.Cond) != `userRelation != ""` {
			return true
		}
		found = true
		if got := strings.TrimSuffix(strings.TrimPrefix(src(fset, is.Body), "{ "), " }"); got != stmt {
			bad = got
		}
		if is.Else != nil {
			if strings.Contains(src(fset, is.Else), "user_relation") {
				pinned = true
			} else {
				bad = src(fset, is.Else)
			}
		}
		return true
	})
	if bad != "" {
		return false, fmt.Errorf("user_relation guard has an unknown shape: %s", bad)
	}
	if !found {
		// no guard: is user_relation set unconditionally?
		if strings.Contains(src(fset, body), `"user_relation": userRelation`) || strings.Contains(src(fset, body), `targetUser["user_relation"] = userRelation`) {
			return true, nil
		}
		return false, fmt.Errorf("`if userRelation != \"\"` guard not found")
	}
	return pinned, nil
}
