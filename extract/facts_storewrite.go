package main

import (
	"fmt"
	"go/ast"
	"go/token"
	"sort"
	"strconv"
	"strings"
)

// StoreWrite: facts about the tuple write path and the changelog read path, used by C12 and C15.
//
//	pkg/storage/sqlite/sqlite.go   write(): order of BEGIN / deferred Rollback / SELECT / DELETE tuple / INSERT tuple /
//	                               INSERT changelog / COMMIT, RunWith(txn) on every statement, error check + return after
//	                               every statement, condition comparison; ReadChanges(): horizon WHERE clause, ORDER BY
//	pkg/storage/memory/memory.go   Write(): lock held, sanitize before the first mutation, no error return after it,
//	                               delete loop before write loop; sanitizeTuplesWriteDelete(): option constants and the
//	                               condition comparison; ReadChanges(): horizon test followed by break, Reverse for desc
//	pkg/server/commands/write.go   parseOptionOnDuplicate / parseOptionOnMissing switch tables
//	pkg/storage/storage.go         option constants, DefaultMaxTuplesPerWrite
func init() {
	register("StoreWrite", func(repo string) (Result, error) {
		b := func(x bool) string {
			if x {
				return "true"
			}
			return "false"
		}

		// ---------------------------------------------------------------- sqlite.write
		fset, f, err := parseFile(repo, "pkg/storage/sqlite/sqlite.go")
		if err != nil {
			return Result{}, err
		}
		wr := findFunc(f, "Datastore", "write")
		sel := findFunc(f, "Datastore", "selectExistingRowsForWrite")
		if wr == nil || sel == nil {
			return Result{}, fmt.Errorf("sqlite.go: write / selectExistingRowsForWrite not found")
		}
		type ev struct {
			pos  token.Pos
			kind string
		}
		var events []ev
		inTxn := map[string]bool{}
		errChecked := map[string]bool{}
		deferredRollback := false
		rollbackRightAfterBegin := false

		// chain flattens a.b(x).c(y) into the method names with their first string-literal argument and returns the root
		var chain func(e ast.Expr) (root ast.Expr, parts []string)
		chain = func(e ast.Expr) (ast.Expr, []string) {
			switch x := e.(type) {
			case *ast.CallExpr:
				if se, ok := x.Fun.(*ast.SelectorExpr); ok {
					root, parts := chain(se.X)
					p := se.Sel.Name
					if len(x.Args) > 0 {
						if bl, ok := x.Args[0].(*ast.BasicLit); ok && bl.Kind == token.STRING {
							s, _ := strconv.Unquote(bl.Value)
							p += "(" + s + ")"
						} else if id, ok := x.Args[0].(*ast.Ident); ok {
							p += "(" + id.Name + ")"
						}
					}
					return root, append(parts, p)
				}
				return e, nil
			case *ast.SelectorExpr:
				root, parts := chain(x.X)
				return root, append(parts, x.Sel.Name)
			}
			return e, nil
		}
		// definitions of builder variables inside a function: name -> chain parts of the defining expression
		builderDefs := func(fn *ast.FuncDecl) map[string][]string {
			defs := map[string][]string{}
			ast.Inspect(fn.Body, func(n ast.Node) bool {
				as, ok := n.(*ast.AssignStmt)
				if !ok || len(as.Lhs) != 1 || len(as.Rhs) != 1 {
					return true
				}
				id, ok := as.Lhs[0].(*ast.Ident)
				if !ok {
					return true
				}
				root, parts := chain(as.Rhs[0])
				if len(parts) == 0 {
					return true
				}
				// x = x.Values(...) keeps the definition of x
				if rid, ok := root.(*ast.Ident); ok && rid.Name == id.Name {
					defs[id.Name] = append(defs[id.Name], parts...)
					return true
				}
				if as.Tok == token.DEFINE {
					defs[id.Name] = parts
				}
				return true
			})
			return defs
		}
		fullParts := func(defs map[string][]string, e ast.Expr) []string {
			root, parts := chain(e)
			if id, ok := root.(*ast.Ident); ok {
				if d, ok := defs[id.Name]; ok {
					return append(append([]string{}, d...), parts...)
				}
			}
			return parts
		}
		has := func(parts []string, p string) bool {
			for _, x := range parts {
				if x == p {
					return true
				}
			}
			return false
		}
		// is statement `next` an `if err != nil { … return … }`?
		isErrReturn := func(next ast.Stmt) bool {
			is, ok := next.(*ast.IfStmt)
			if !ok || src(fset, is.Cond) != "err != nil" {
				return false
			}
			ret := false
			ast.Inspect(is.Body, func(n ast.Node) bool {
				if _, ok := n.(*ast.ReturnStmt); ok {
					ret = true
				}
				return true
			})
			return ret
		}
		wdefs := builderDefs(wr)
		// walk every block so that "the statement after the call" is known
		var walkBlock func(list []ast.Stmt)
		classify := func(call *ast.CallExpr) (string, []string) {
			se, ok := call.Fun.(*ast.SelectorExpr)
			if !ok {
				return "", nil
			}
			switch se.Sel.Name {
			case "BeginTx":
				return "begin", nil
			case "Commit":
				if src(fset, se.X) == "txn" {
					return "commit", nil
				}
			case "selectExistingRowsForWrite":
				return "select", nil
			case "ExecContext", "Exec", "QueryContext", "Query":
				parts := fullParts(wdefs, se.X)
				switch {
				case has(parts, "Delete(tuple)"):
					return "delete", parts
				case has(parts, "Insert(tuple)"):
					return "insert", parts
				case has(parts, "Insert(changelog)"):
					return "changelog", parts
				default:
					return "other:" + strings.Join(parts, "."), parts
				}
			}
			return "", nil
		}
		walkBlock = func(list []ast.Stmt) {
			for i, st := range list {
				// calls directly inside this statement (not inside nested blocks, which are walked separately)
				var calls []*ast.CallExpr
				ast.Inspect(st, func(n ast.Node) bool {
					switch x := n.(type) {
					case *ast.BlockStmt:
						walkBlock(x.List)
						return false
					case *ast.FuncLit:
						// busyRetry(func() error { … }) : look inside, the statement is still `st`
						ast.Inspect(x.Body, func(m ast.Node) bool {
							if c, ok := m.(*ast.CallExpr); ok {
								calls = append(calls, c)
							}
							return true
						})
						return false
					case *ast.CallExpr:
						calls = append(calls, x)
					}
					return true
				})
				if ds, ok := st.(*ast.DeferStmt); ok {
					if strings.Contains(src(fset, ds.Call), "txn.Rollback()") {
						deferredRollback = true
						// the two statements before must be the BeginTx call and its error check
						if i >= 2 && isErrReturn(list[i-1]) && strings.Contains(src(fset, list[i-2]), "BeginTx") {
							rollbackRightAfterBegin = true
						}
					}
					continue
				}
				for _, c := range calls {
					kind, parts := classify(c)
					if kind == "" {
						continue
					}
					events = append(events, ev{c.Pos(), kind})
					switch kind {
					case "delete", "insert", "changelog":
						inTxn[kind] = has(parts, "RunWith(txn)")
					case "select":
						ok := false
						for _, a := range c.Args {
							if src(fset, a) == "txn" {
								ok = true
							}
						}
						inTxn[kind] = ok
					}
					checked := false
					if is, ok := st.(*ast.IfStmt); ok && is.Init != nil && strings.Contains(src(fset, is.Cond), "err != nil") {
						// if err = f(); err != nil { return … }
						ast.Inspect(is.Body, func(n ast.Node) bool {
							if _, ok := n.(*ast.ReturnStmt); ok {
								checked = true
							}
							return true
						})
					} else if i+1 < len(list) && isErrReturn(list[i+1]) {
						checked = true
					}
					if prev, seen := errChecked[kind]; seen {
						errChecked[kind] = prev && checked
					} else {
						errChecked[kind] = checked
					}
				}
			}
		}
		walkBlock(wr.Body.List)
		sort.Slice(events, func(i, j int) bool { return events[i].pos < events[j].pos })
		var order []string
		for _, e := range events {
			order = append(order, e.kind)
		}
		for _, k := range []string{"begin", "select", "delete", "insert", "changelog", "commit"} {
			n := 0
			for _, o := range order {
				if o == k {
					n++
				}
			}
			if n == 0 {
				return Result{}, fmt.Errorf("sqlite.write: no %s statement recognised (order %v)", k, order)
			}
		}
		// the SELECT helper must run its query on the transaction it is given
		selOnTxn := false
		ast.Inspect(sel.Body, func(n ast.Node) bool {
			if c, ok := n.(*ast.CallExpr); ok {
				if se, ok := c.Fun.(*ast.SelectorExpr); ok && se.Sel.Name == "RunWith" && len(c.Args) == 1 && src(fset, c.Args[0]) == "txn" {
					selOnTxn = true
				}
			}
			return true
		})
		inTxn["select"] = inTxn["select"] && selOnTxn
		// after the COMMIT statement: only its error check and `return nil`
		commitLast := false
		{
			l := wr.Body.List
			n := len(l)
			if n >= 3 {
				if rs, ok := l[n-1].(*ast.ReturnStmt); ok && len(rs.Results) == 1 && src(fset, rs.Results[0]) == "nil" &&
					isErrReturn(l[n-2]) && strings.Contains(src(fset, l[n-3]), "txn.Commit()") {
					commitLast = true
				}
			}
		}
		allChecked := true
		for _, k := range []string{"begin", "select", "delete", "insert", "changelog", "commit"} {
			if !errChecked[k] {
				allChecked = false
			}
		}
		// condition comparison under OnDuplicateInsertIgnore
		sqlCondCmp := ""
		ast.Inspect(wr.Body, func(n ast.Node) bool {
			if is, ok := n.(*ast.IfStmt); ok {
				c := src(fset, is.Cond)
				if strings.Contains(c, "GetCondition()") && sqlCondCmp == "" {
					sqlCondCmp = c
				}
			}
			return true
		})
		if sqlCondCmp == "" {
			return Result{}, fmt.Errorf("sqlite.write: condition comparison not found")
		}
		// which option values select "ignore" (case labels of the two switches)
		swCases := func(tag string) (ignoreLabel string, errorFallsToDefault bool) {
			ast.Inspect(wr.Body, func(n ast.Node) bool {
				ss, ok := n.(*ast.SwitchStmt)
				if !ok || src(fset, ss.Tag) != tag {
					return true
				}
				for _, c := range ss.Body.List {
					cc := c.(*ast.CaseClause)
					if len(cc.List) == 1 {
						lbl := src(fset, cc.List[0])
						body := ""
						for _, s := range cc.Body {
							body += src(fset, s) + ";"
						}
						if strings.Contains(body, "continue") {
							ignoreLabel = lbl
						}
						if strings.HasPrefix(body, "fallthrough") {
							errorFallsToDefault = true
						}
					}
				}
				return false
			})
			return
		}
		// the existence tests that decide "missing delete" / "duplicate write": first statement of the two loops
		loopGuard := func(over string) string {
			g := ""
			ast.Inspect(wr.Body, func(n ast.Node) bool {
				rs, ok := n.(*ast.RangeStmt)
				if !ok || src(fset, rs.X) != over || g != "" || len(rs.Body.List) == 0 {
					return true
				}
				if is, ok := rs.Body.List[0].(*ast.IfStmt); ok && is.Init != nil {
					g = src(fset, is.Init) + "; " + src(fset, is.Cond)
				}
				return false
			})
			return g
		}
		sqlMissingGuard, sqlDupGuard := loopGuard("deletes"), loopGuard("writes")
		if sqlMissingGuard == "" || sqlDupGuard == "" {
			return Result{}, fmt.Errorf("sqlite.write: existence test at the head of the deletes / writes loop not recognised")
		}
		sqlIgnoreMissing, _ := swCases("opts.OnMissingDelete")
		sqlIgnoreDup, _ := swCases("opts.OnDuplicateInsert")

		// ---------------------------------------------------------------- sqlite.ReadChanges
		rc := findFunc(f, "Datastore", "ReadChanges")
		if rc == nil {
			return Result{}, fmt.Errorf("sqlite.go: ReadChanges not found")
		}
		var sqlHorizon, sqlAsc, sqlDesc, sqlTypeWhere string
		ast.Inspect(rc.Body, func(n ast.Node) bool {
			switch x := n.(type) {
			case *ast.BasicLit:
				if x.Kind == token.STRING {
					s, _ := strconv.Unquote(x.Value)
					switch {
					case strings.HasPrefix(s, "inserted_at"):
						sqlHorizon = s
					case s == "ulid asc":
						sqlAsc = s
					case s == "ulid desc":
						sqlDesc = s
					}
				}
			case *ast.CompositeLit:
				if s := src(fset, x); strings.HasPrefix(s, `sq.Eq{"object_type"`) {
					sqlTypeWhere = s
				}
			}
			return true
		})
		if sqlHorizon == "" || sqlAsc == "" || sqlDesc == "" || sqlTypeWhere == "" {
			return Result{}, fmt.Errorf("sqlite.ReadChanges: horizon clause / order by / type filter not recognised")
		}

		// ---------------------------------------------------------------- memory.Write
		fsm, fm, err := parseFile(repo, "pkg/storage/memory/memory.go")
		if err != nil {
			return Result{}, err
		}
		mw := findFunc(fm, "MemoryBackend", "Write")
		san := findFunc(fm, "", "sanitizeTuplesWriteDelete")
		mrc := findFunc(fm, "MemoryBackend", "ReadChanges")
		if mw == nil || san == nil || mrc == nil {
			return Result{}, fmt.Errorf("memory.go: Write / sanitizeTuplesWriteDelete / ReadChanges not found")
		}
		var lockPos, unlockPos, sanPos, sanErrRetPos, firstMutPos, lastErrRetPos, delLoopPos, writeLoopPos, finalAssignPos token.Pos
		for i, st := range mw.Body.List {
			s := src(fsm, st)
			switch {
			case s == "s.mutexTuples.Lock()":
				lockPos = st.Pos()
			case s == "defer s.mutexTuples.Unlock()":
				unlockPos = st.Pos()
			case strings.Contains(s, "sanitizeTuplesWriteDelete(s.tuples[store], deletes, writes,") && sanPos == 0:
				sanPos = st.Pos()
				if i+1 < len(mw.Body.List) {
					if is, ok := mw.Body.List[i+1].(*ast.IfStmt); ok && src(fsm, is.Cond) == "err != nil" && src(fsm, is.Body) == "{ return err }" {
						sanErrRetPos = is.Pos()
					}
				}
			}
			if ls, ok := st.(*ast.LabeledStmt); ok {
				if rs, ok := ls.Stmt.(*ast.RangeStmt); ok {
					switch src(fsm, rs.X) {
					case "s.tuples[store]":
						delLoopPos = st.Pos()
					case "writes":
						writeLoopPos = st.Pos()
					}
				}
			}
			if s == "s.tuples[store] = records" {
				finalAssignPos = st.Pos()
			}
		}
		ast.Inspect(mw.Body, func(n ast.Node) bool {
			switch x := n.(type) {
			case *ast.AssignStmt:
				for _, l := range x.Lhs {
					ls := src(fsm, l)
					if ls == "s.changes[store]" || ls == "s.tuples[store]" {
						if firstMutPos == 0 || x.Pos() < firstMutPos {
							firstMutPos = x.Pos()
						}
					}
				}
			case *ast.ReturnStmt:
				if len(x.Results) == 1 && src(fsm, x.Results[0]) != "nil" {
					if x.Pos() > lastErrRetPos {
						lastErrRetPos = x.Pos()
					}
				}
			}
			return true
		})
		if sanPos == 0 || firstMutPos == 0 || delLoopPos == 0 || writeLoopPos == 0 {
			return Result{}, fmt.Errorf("memory.Write: sanitize call / mutation / loops not recognised")
		}
		memLocked := lockPos != 0 && unlockPos != 0 && lockPos < unlockPos && unlockPos < sanPos
		memSanFirst := sanErrRetPos != 0 && sanPos < firstMutPos && sanErrRetPos < firstMutPos
		memNoErrAfterMut := lastErrRetPos < firstMutPos
		memDelBeforeWrite := delLoopPos < writeLoopPos && writeLoopPos < finalAssignPos && finalAssignPos != 0
		// sanitize: the comparison and the option tests
		var memCondCmp, memMissTest, memDupTest string
		ast.Inspect(san.Body, func(n ast.Node) bool {
			if is, ok := n.(*ast.IfStmt); ok {
				c := src(fsm, is.Cond)
				switch {
				case strings.Contains(c, "ConditionName") && memCondCmp == "":
					memCondCmp = c
				case strings.Contains(c, "opts.OnMissingDelete"):
					memMissTest = c
				case strings.Contains(c, "opts.OnDuplicateInsert"):
					memDupTest = c
				}
			}
			return true
		})
		if memCondCmp == "" || memMissTest == "" || memDupTest == "" {
			return Result{}, fmt.Errorf("sanitizeTuplesWriteDelete: option tests / condition comparison not recognised")
		}
		// ReadChanges: the horizon test and what follows it
		var memHorizon, memHorizonAction, memTypeTest string
		memReverse := false
		ast.Inspect(mrc.Body, func(n ast.Node) bool {
			switch x := n.(type) {
			case *ast.IfStmt:
				c := src(fsm, x.Cond)
				if strings.Contains(c, "horizonOffset") {
					memHorizon = c
					if len(x.Body.List) == 1 {
						memHorizonAction = src(fsm, x.Body.List[0])
					}
				}
				if strings.Contains(c, "objectType") && strings.Contains(c, "HasPrefix") {
					memTypeTest = c
				}
				if c == "options.SortDesc" && strings.Contains(src(fsm, x.Body), "slices.Reverse(allChanges)") {
					memReverse = true
				}
			}
			return true
		})
		if memHorizon == "" || memTypeTest == "" {
			return Result{}, fmt.Errorf("memory.ReadChanges: horizon / type test not recognised")
		}

		// ---------------------------------------------------------------- commands/write.go option tables
		fsc, fc, err := parseFile(repo, "pkg/server/commands/write.go")
		if err != nil {
			return Result{}, err
		}
		table := func(fn, ignoreConst, errorConst string) ([][2]string, bool, error) {
			fd := findFunc(fc, "", fn)
			if fd == nil {
				return nil, false, fmt.Errorf("commands/write.go: %s not found", fn)
			}
			var rows [][2]string
			defaultIsError := false
			found := false
			ast.Inspect(fd.Body, func(n ast.Node) bool {
				ss, ok := n.(*ast.SwitchStmt)
				if !ok {
					return true
				}
				found = true
				for _, c := range ss.Body.List {
					cc := c.(*ast.CaseClause)
					if len(cc.Body) != 1 {
						continue
					}
					rs, ok := cc.Body[0].(*ast.ReturnStmt)
					if !ok || len(rs.Results) != 2 {
						continue
					}
					val, e := src(fsc, rs.Results[0]), src(fsc, rs.Results[1])
					if cc.List == nil {
						defaultIsError = e != "nil"
						continue
					}
					for _, l := range cc.List {
						bl, ok := l.(*ast.BasicLit)
						if !ok {
							continue
						}
						s, _ := strconv.Unquote(bl.Value)
						v := "?"
						if e == "nil" && val == ignoreConst {
							v = "ignore"
						} else if e == "nil" && val == errorConst {
							v = "error"
						}
						rows = append(rows, [2]string{s, v})
					}
				}
				return false
			})
			if !found || len(rows) == 0 {
				return nil, false, fmt.Errorf("commands/write.go: %s: switch not recognised", fn)
			}
			return rows, defaultIsError, nil
		}
		dupRows, dupDefErr, err := table("parseOptionOnDuplicate", "storage.OnDuplicateInsertIgnore", "storage.OnDuplicateInsertError")
		if err != nil {
			return Result{}, err
		}
		missRows, missDefErr, err := table("parseOptionOnMissing", "storage.OnMissingDeleteIgnore", "storage.OnMissingDeleteError")
		if err != nil {
			return Result{}, err
		}
		// Execute: validate, parse on_duplicate, parse on_missing, datastore.Write — in this order
		ex := findFunc(fc, "WriteCommand", "Execute")
		if ex == nil {
			return Result{}, fmt.Errorf("commands/write.go: Execute not found")
		}
		var execOrder []string
		ast.Inspect(ex.Body, func(n ast.Node) bool {
			if c, ok := n.(*ast.CallExpr); ok {
				switch s := src(fsc, c.Fun); s {
				case "c.validateWriteRequest", "parseOptionOnDuplicate", "parseOptionOnMissing", "c.datastore.Write":
					execOrder = append(execOrder, strings.TrimPrefix(s, "c."))
				}
			}
			return true
		})
		// validateWriteRequest: the validators applied to every delete key, in order
		vw := findFunc(fc, "WriteCommand", "validateWriteRequest")
		if vw == nil {
			return Result{}, fmt.Errorf("commands/write.go: validateWriteRequest not found")
		}
		var delValidators []string
		ast.Inspect(vw.Body, func(n ast.Node) bool {
			rs, ok := n.(*ast.RangeStmt)
			if !ok || src(fsc, rs.X) != "deletes" {
				return true
			}
			ast.Inspect(rs.Body, func(m ast.Node) bool {
				if c, ok := m.(*ast.CallExpr); ok {
					if f := src(fsc, c.Fun); strings.HasPrefix(f, "tupleUtils.IsValid") {
						delValidators = append(delValidators, strings.TrimPrefix(f, "tupleUtils."))
					}
				}
				return true
			})
			return false
		})
		// the options handed to the datastore
		passesOpts := strings.Contains(src(fsc, ex.Body), "storage.WithOnMissingDelete(onEmptyDelete)") &&
			strings.Contains(src(fsc, ex.Body), "storage.WithOnDuplicateInsert(onDuplicateInsert)")

		// ---------------------------------------------------------------- storage.go constants
		_, fs, err := parseFile(repo, "pkg/storage/storage.go")
		if err != nil {
			return Result{}, err
		}
		consts := map[string]string{}
		for _, d := range fs.Decls {
			gd, ok := d.(*ast.GenDecl)
			if !ok || gd.Tok != token.CONST {
				continue
			}
			for _, s := range gd.Specs {
				v := s.(*ast.ValueSpec)
				for i, n := range v.Names {
					if i < len(v.Values) {
						if bl, ok := v.Values[i].(*ast.BasicLit); ok && bl.Kind == token.INT {
							consts[n.Name] = bl.Value
						}
					}
				}
			}
		}
		for _, k := range []string{"OnMissingDeleteError", "OnMissingDeleteIgnore", "OnDuplicateInsertError", "OnDuplicateInsertIgnore", "DefaultMaxTuplesPerWrite"} {
			if _, ok := consts[k]; !ok {
				return Result{}, fmt.Errorf("storage.go: constant %s not found", k)
			}
		}

		leanTable := func(rows [][2]string) string {
			var xs []string
			for _, r := range rows {
				if r[1] == "?" {
					continue
				}
				xs = append(xs, "("+leanStr(r[0])+", "+b(r[1] == "ignore")+")")
			}
			return "[" + strings.Join(xs, ", ") + "]"
		}
		var sb strings.Builder
		sb.WriteString(genHeader)
		sb.WriteString("namespace OpenFGAVerif.Gen.StoreWrite\n\n")
		sb.WriteString("/-- sqlite.write: recognised operations in source order -/\n")
		sb.WriteString("def sqlStmtOrder : List String := " + leanStrList(order) + "\n")
		sb.WriteString("/-- RunWith(txn) on the statement (select: txn handed to the helper and used by it) -/\n")
		sb.WriteString("def sqlSelectInTxn : Bool := " + b(inTxn["select"]) + "\n")
		sb.WriteString("def sqlDeleteInTxn : Bool := " + b(inTxn["delete"]) + "\n")
		sb.WriteString("def sqlInsertInTxn : Bool := " + b(inTxn["insert"]) + "\n")
		sb.WriteString("def sqlChangelogInTxn : Bool := " + b(inTxn["changelog"]) + "\n")
		sb.WriteString("/-- `defer func() { _ = txn.Rollback() }()` directly after the BeginTx error check -/\n")
		sb.WriteString("def sqlRollbackDeferred : Bool := " + b(deferredRollback && rollbackRightAfterBegin) + "\n")
		sb.WriteString("/-- the function ends with txn.Commit(), its error check, `return nil` -/\n")
		sb.WriteString("def sqlCommitLast : Bool := " + b(commitLast) + "\n")
		sb.WriteString("/-- every operation's error is checked and returned right after the call -/\n")
		sb.WriteString("def sqlErrorsReturned : Bool := " + b(allChecked) + "\n")
		sb.WriteString("def sqlCondCompare : String := " + leanStr(sqlCondCmp) + "\n")
		sb.WriteString("def sqlIgnoreMissingCase : String := " + leanStr(sqlIgnoreMissing) + "\n")
		sb.WriteString("def sqlIgnoreDupCase : String := " + leanStr(sqlIgnoreDup) + "\n")
		sb.WriteString("/-- the existence tests at the head of the deletes / writes loops of sqlite.write -/\n")
		sb.WriteString("def sqlMissingGuard : String := " + leanStr(sqlMissingGuard) + "\n")
		sb.WriteString("def sqlDupGuard : String := " + leanStr(sqlDupGuard) + "\n")
		sb.WriteString("def sqlHorizonWhere : String := " + leanStr(sqlHorizon) + "\n")
		sb.WriteString("def sqlOrderBy : List String := " + leanStrList([]string{sqlAsc, sqlDesc}) + "\n")
		sb.WriteString("def sqlTypeWhere : String := " + leanStr(sqlTypeWhere) + "\n")
		sb.WriteString("\n/-- memory.Write -/\n")
		sb.WriteString("def memLockHeld : Bool := " + b(memLocked) + "\n")
		sb.WriteString("def memSanitizeBeforeMutation : Bool := " + b(memSanFirst) + "\n")
		sb.WriteString("def memNoErrorReturnAfterMutation : Bool := " + b(memNoErrAfterMut) + "\n")
		sb.WriteString("def memDeleteLoopBeforeWriteLoop : Bool := " + b(memDelBeforeWrite) + "\n")
		sb.WriteString("def memCondCompare : String := " + leanStr(memCondCmp) + "\n")
		sb.WriteString("def memMissingTest : String := " + leanStr(memMissTest) + "\n")
		sb.WriteString("def memDupTest : String := " + leanStr(memDupTest) + "\n")
		sb.WriteString("def memHorizonTest : String := " + leanStr(memHorizon) + "\n")
		sb.WriteString("def memHorizonAction : String := " + leanStr(memHorizonAction) + "\n")
		sb.WriteString("def memTypeTest : String := " + leanStr(memTypeTest) + "\n")
		sb.WriteString("def memDescIsReverse : Bool := " + b(memReverse) + "\n")
		sb.WriteString("\n/-- commands/write.go: literal ↦ selects `ignore` -/\n")
		sb.WriteString("def onDuplicateTable : List (String × Bool) := " + leanTable(dupRows) + "\n")
		sb.WriteString("def onMissingTable : List (String × Bool) := " + leanTable(missRows) + "\n")
		sb.WriteString("def onDuplicateDefaultIsError : Bool := " + b(dupDefErr) + "\n")
		sb.WriteString("def onMissingDefaultIsError : Bool := " + b(missDefErr) + "\n")
		sb.WriteString("def cmdExecuteOrder : List String := " + leanStrList(execOrder) + "\n")
		sb.WriteString("def cmdPassesOptions : Bool := " + b(passesOpts) + "\n")
		sb.WriteString("/-- validators applied to each delete key by validateWriteRequest -/\n")
		sb.WriteString("def cmdDeleteValidators : List String := " + leanStrList(delValidators) + "\n")
		sb.WriteString("\n/-- storage.go -/\n")
		sb.WriteString("def onMissingDeleteError : Nat := " + consts["OnMissingDeleteError"] + "\n")
		sb.WriteString("def onMissingDeleteIgnore : Nat := " + consts["OnMissingDeleteIgnore"] + "\n")
		sb.WriteString("def onDuplicateInsertError : Nat := " + consts["OnDuplicateInsertError"] + "\n")
		sb.WriteString("def onDuplicateInsertIgnore : Nat := " + consts["OnDuplicateInsertIgnore"] + "\n")
		sb.WriteString("def defaultMaxTuplesPerWrite : Nat := " + consts["DefaultMaxTuplesPerWrite"] + "\n")
		sb.WriteString("\nend OpenFGAVerif.Gen.StoreWrite\n")
		return Result{Lean: sb.String(), Summary: map[string]interface{}{
			"sqlStmtOrder": order, "sqlInTxn": inTxn, "sqlRollbackDeferred": deferredRollback && rollbackRightAfterBegin,
			"sqlCommitLast": commitLast, "sqlErrorsReturned": allChecked, "sqlCondCompare": sqlCondCmp,
			"memCondCompare": memCondCmp, "memSanitizeBeforeMutation": memSanFirst, "memNoErrorReturnAfterMutation": memNoErrAfterMut,
			"onDuplicateTable": dupRows, "onMissingTable": missRows, "memHorizonTest": memHorizon + " → " + memHorizonAction,
			"sqlHorizonWhere": sqlHorizon,
		}}, nil
	})
}
