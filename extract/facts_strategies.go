package main

import (
	"fmt"
	"go/ast"
	"go/token"
	"strconv"
	"strings"
)

// Strategies: the control skeletons of the optimised Check strategies (weight-2 fast path, recursive
// resolver), of the stream / fan-in plumbing they are built on, of the typesystem predicates that
// select them and of the storage iterators that feed them.  Every skeleton is a `List String`, one
// entry per statement ("<depth>:<text>", see `skeleton`), so that the Lean side can tie the shape of
// its model (statement order, guards, loop structure) to the code that is checked in.

const skelFuncPlaceholder = "func{..}"

// skeleton returns the control skeleton of a function body: one string per statement, depth first in
// source order, formatted "<depth>:<text>" (the statements of the body itself have depth 0).
//
//   - if:      "if <cond>" / "if <init>; <cond>", body at depth+1; "else" / "else if ..." at the depth of the if
//   - for:     "for" / "for <cond>" / "for <init>; <cond>; <post>", body at depth+1
//   - range:   "range <key>, <value> := <X>" (what exists, source tokens), body at depth+1
//   - switch:  "switch <init; ><tag>" / "switch <init; ><assign>", clauses "case a, b" / "default" at depth+1,
//     clause bodies at depth+2
//   - select:  "select", clauses "case <comm>" / "default" at depth+1, clause bodies at depth+2
//   - label:   "label <name>", then the labelled statement at the same depth
//   - block:   "block", statements at depth+1
//   - other:   the src() text of the statement in which every outermost function literal is replaced by
//     `func{..}`; the bodies of those literals follow, in source order, at depth+1
//
// Comments are ignored.  skeleton panics when a function literal cannot be located in the rendering of
// its statement (the extractor driver turns a panic into an error of the group); use skeletonE to get
// the error instead.
func skeleton(fset *token.FileSet, body *ast.BlockStmt) []string {
	out, err := skeletonE(fset, body)
	if err != nil {
		panic(err)
	}
	return out
}

func skeletonE(fset *token.FileSet, body *ast.BlockStmt) ([]string, error) {
	w := &skelWalker{fset: fset}
	if body != nil {
		w.stmts(body.List, 0)
	}
	return w.out, w.err
}

type skelWalker struct {
	fset *token.FileSet
	out  []string
	err  error
}

func (w *skelWalker) emit(depth int, text string) {
	w.out = append(w.out, strconv.Itoa(depth)+":"+text)
}

func (w *skelWalker) stmts(list []ast.Stmt, depth int) {
	for _, s := range list {
		w.stmt(s, depth)
	}
}

func (w *skelWalker) ifStmt(s *ast.IfStmt, depth int, prefix string) {
	head := prefix + "if "
	if s.Init != nil {
		head += src(w.fset, s.Init) + "; "
	}
	head += src(w.fset, s.Cond)
	w.emit(depth, head)
	w.stmts(s.Body.List, depth+1)
	switch e := s.Else.(type) {
	case nil:
	case *ast.IfStmt:
		w.ifStmt(e, depth, "else ")
	case *ast.BlockStmt:
		w.emit(depth, "else")
		w.stmts(e.List, depth+1)
	default:
		w.emit(depth, "else")
		w.stmt(e, depth+1)
	}
}

func (w *skelWalker) stmt(s ast.Stmt, depth int) {
	switch x := s.(type) {
	case nil:
		return
	case *ast.EmptyStmt:
		return
	case *ast.IfStmt:
		w.ifStmt(x, depth, "")
	case *ast.ForStmt:
		head := "for"
		if x.Init != nil || x.Post != nil {
			init, cond, post := "", "", ""
			if x.Init != nil {
				init = src(w.fset, x.Init)
			}
			if x.Cond != nil {
				cond = src(w.fset, x.Cond)
			}
			if x.Post != nil {
				post = src(w.fset, x.Post)
			}
			head = strings.TrimRight("for "+init+"; "+cond+"; "+post, " ")
		} else if x.Cond != nil {
			head = "for " + src(w.fset, x.Cond)
		}
		w.emit(depth, head)
		w.stmts(x.Body.List, depth+1)
	case *ast.RangeStmt:
		head := "range "
		if x.Key != nil {
			head += src(w.fset, x.Key)
			if x.Value != nil {
				head += ", " + src(w.fset, x.Value)
			}
			head += " " + x.Tok.String() + " "
		}
		head += src(w.fset, x.X)
		w.emit(depth, head)
		w.stmts(x.Body.List, depth+1)
	case *ast.SwitchStmt:
		head := "switch"
		if x.Init != nil {
			head += " " + src(w.fset, x.Init) + ";"
		}
		if x.Tag != nil {
			head += " " + src(w.fset, x.Tag)
		}
		w.emit(depth, head)
		w.clauses(x.Body, depth)
	case *ast.TypeSwitchStmt:
		head := "switch"
		if x.Init != nil {
			head += " " + src(w.fset, x.Init) + ";"
		}
		head += " " + src(w.fset, x.Assign)
		w.emit(depth, head)
		w.clauses(x.Body, depth)
	case *ast.SelectStmt:
		w.emit(depth, "select")
		w.clauses(x.Body, depth)
	case *ast.LabeledStmt:
		w.emit(depth, "label "+x.Label.Name)
		w.stmt(x.Stmt, depth)
	case *ast.BlockStmt:
		w.emit(depth, "block")
		w.stmts(x.List, depth+1)
	default:
		w.plain(s, depth)
	}
}

func (w *skelWalker) clauses(body *ast.BlockStmt, depth int) {
	if body == nil {
		return
	}
	for _, c := range body.List {
		switch cc := c.(type) {
		case *ast.CaseClause:
			if cc.List == nil {
				w.emit(depth+1, "default")
			} else {
				parts := make([]string, len(cc.List))
				for i, e := range cc.List {
					parts[i] = src(w.fset, e)
				}
				w.emit(depth+1, "case "+strings.Join(parts, ", "))
			}
			w.stmts(cc.Body, depth+2)
		case *ast.CommClause:
			if cc.Comm == nil {
				w.emit(depth+1, "default")
			} else {
				w.emit(depth+1, "case "+src(w.fset, cc.Comm))
			}
			w.stmts(cc.Body, depth+2)
		default:
			w.stmt(c, depth+1)
		}
	}
}

// plain handles every statement without own control structure: its text with the outermost function
// literals replaced by the placeholder, then the bodies of those literals at depth+1.
func (w *skelWalker) plain(s ast.Stmt, depth int) {
	var lits []*ast.FuncLit
	ast.Inspect(s, func(n ast.Node) bool {
		if fl, ok := n.(*ast.FuncLit); ok {
			lits = append(lits, fl)
			return false // nested literals are handled with the body of this one
		}
		return true
	})
	text := src(w.fset, s)
	from := 0
	for _, fl := range lits {
		lt := src(w.fset, fl)
		i := strings.Index(text[from:], lt)
		if i < 0 {
			if w.err == nil {
				w.err = fmt.Errorf("skeleton: function literal at %s not found in the rendering of its statement %q",
					w.fset.Position(fl.Pos()), text)
			}
			continue
		}
		i += from
		text = text[:i] + skelFuncPlaceholder + text[i+len(lt):]
		from = i + len(skelFuncPlaceholder)
	}
	w.emit(depth, text)
	for _, fl := range lits {
		w.stmts(fl.Body.List, depth+1)
	}
}

// stratIntConst returns the value of `const <name> = <integer literal>` of the file.
func stratIntConst(f *ast.File, name string) (uint64, error) {
	for _, d := range f.Decls {
		gd, ok := d.(*ast.GenDecl)
		if !ok || gd.Tok != token.CONST {
			continue
		}
		for _, s := range gd.Specs {
			v, ok := s.(*ast.ValueSpec)
			if !ok {
				continue
			}
			for i, n := range v.Names {
				if n.Name != name {
					continue
				}
				if i >= len(v.Values) {
					return 0, fmt.Errorf("const %s has no explicit value", name)
				}
				bl, ok := v.Values[i].(*ast.BasicLit)
				if !ok || bl.Kind != token.INT {
					return 0, fmt.Errorf("const %s is not an integer literal", name)
				}
				u, err := strconv.ParseUint(bl.Value, 0, 64)
				if err != nil {
					return 0, fmt.Errorf("const %s: %w", name, err)
				}
				return u, nil
			}
		}
	}
	return 0, fmt.Errorf("const %s not found", name)
}

type stratFn struct {
	def  string // name of the Lean definition
	file string // path relative to the repository root
	recv string // receiver type without '*' ("" for a plain function)
	name string // Go function / method name
}

const (
	stratW2File    = "internal/graph/weight_two_resolver.go"
	stratStream    = "internal/iterator/stream.go"
	stratFanIn     = "internal/iterator/fan_in.go"
	stratRecursive = "internal/graph/recursive_resolver.go"
	stratObjProv   = "internal/graph/object_providers.go"
	stratCheck     = "internal/graph/check.go"
	stratTypesys   = "pkg/typesystem/typesystem.go"
	stratCheckutil = "internal/checkutil/checkutil.go"
	stratCombined  = "pkg/storage/storagewrappers/combinedtuplereader.go"
	stratTupleIter = "pkg/storage/tuple_iterators.go"
	stratMappers   = "pkg/storage/tuple_mappers.go"
	stratMemory    = "pkg/storage/memory/memory.go"
)

var stratFns = []stratFn{
	// weight-2 resolver
	{"weight2UsersetSkel", stratW2File, "LocalChecker", "weight2Userset"},
	{"weight2TTUSkel", stratW2File, "LocalChecker", "weight2TTU"},
	{"weight2Skel", stratW2File, "LocalChecker", "weight2"},
	{"produceLeftChannelsSkel", stratW2File, "", "produceLeftChannels"},
	{"fastPathNoopSkel", stratW2File, "", "fastPathNoop"},
	{"fastPathDirectSkel", stratW2File, "", "fastPathDirect"},
	{"fastPathComputedSkel", stratW2File, "", "fastPathComputed"},
	{"addNextItemSkel", stratW2File, "", "addNextItemInSliceStreamsToBatch"},
	{"fastPathUnionSkel", stratW2File, "", "fastPathUnion"},
	{"fastPathIntersectionSkel", stratW2File, "", "fastPathIntersection"},
	{"fastPathDifferenceSkel", stratW2File, "", "fastPathDifference"},
	{"fastPathOperationSetupSkel", stratW2File, "", "fastPathOperationSetup"},
	{"fastPathRewriteSkel", stratW2File, "", "fastPathRewrite"},
	// streams
	{"streamHeadSkel", stratStream, "Stream", "Head"},
	{"streamNextSkel", stratStream, "Stream", "Next"},
	{"streamSkipToTargetObjectSkel", stratStream, "Stream", "SkipToTargetObject"},
	{"streamDrainSkel", stratStream, "Stream", "Drain"},
	{"streamFetchSourceSkel", stratStream, "Stream", "fetchSource"},
	{"streamIsDoneSkel", stratStream, "Stream", "isDone"},
	{"nextItemInSliceStreamsSkel", stratStream, "", "NextItemInSliceStreams"},
	{"streamsCleanDoneSkel", stratStream, "Streams", "CleanDone"},
	{"streamsGetActiveStreamsCountSkel", stratStream, "Streams", "GetActiveStreamsCount"},
	{"fanInIteratorChannelsSkel", stratFanIn, "", "FanInIteratorChannels"},
	// recursive resolver
	{"recursiveUsersetSkel", stratRecursive, "LocalChecker", "recursiveUserset"},
	{"recursiveTTUSkel", stratRecursive, "LocalChecker", "recursiveTTU"},
	{"recursiveFastPathSkel", stratRecursive, "LocalChecker", "recursiveFastPath"},
	{"buildRecursiveMapperSkel", stratRecursive, "", "buildRecursiveMapper"},
	{"recursiveMatchUserUsersetSkel", stratRecursive, "LocalChecker", "recursiveMatchUserUserset"},
	{"breadthFirstRecursiveMatchSkel", stratRecursive, "LocalChecker", "breadthFirstRecursiveMatch"},
	{"recursiveTTUObjectProviderBeginSkel", stratObjProv, "recursiveTTUObjectProvider", "Begin"},
	{"recursiveUsersetObjectProviderBeginSkel", stratObjProv, "recursiveUsersetObjectProvider", "Begin"},
	{"iteratorsToUsersetSkel", stratObjProv, "", "iteratorsToUserset"},
	// check.go: the callers that select a strategy
	{"checkDirectUsersetTuplesSkel", stratCheck, "LocalChecker", "checkDirectUsersetTuples"},
	{"checkTTUSkel", stratCheck, "LocalChecker", "checkTTU"},
	{"processUsersetMessageSkel", stratCheck, "", "processUsersetMessage"},
	{"streamedLookupUsersetFromIteratorSkel", stratCheck, "", "streamedLookupUsersetFromIterator"},
	// typesystem predicates
	{"usersetUseWeight2ResolverSkel", stratTypesys, "TypeSystem", "UsersetUseWeight2Resolver"},
	{"ttuUseWeight2ResolverSkel", stratTypesys, "TypeSystem", "TTUUseWeight2Resolver"},
	{"ttuUseRecursiveResolverSkel", stratTypesys, "TypeSystem", "TTUUseRecursiveResolver"},
	{"usersetUseRecursiveResolverSkel", stratTypesys, "TypeSystem", "UsersetUseRecursiveResolver"},
	// readers / iterators feeding the strategies
	{"iteratorReadStartingFromUserSkel", stratCheckutil, "", "IteratorReadStartingFromUser"},
	{"userFilterSkel", stratCheckutil, "", "userFilter"},
	{"combinedReadStartingWithUserSkel", stratCombined, "CombinedTupleReader", "ReadStartingWithUser"},
	{"newCombinedTupleReaderSkel", stratCombined, "", "NewCombinedTupleReader"},
	{"orderedCombinedHeadSkel", stratTupleIter, "OrderedCombinedIterator", "head"},
	{"orderedCombinedNextSkel", stratTupleIter, "OrderedCombinedIterator", "Next"},
	{"conditionsFilteredNextSkel", stratTupleIter, "ConditionsFilteredTupleKeyIterator", "Next"},
	{"conditionsFilteredHeadSkel", stratTupleIter, "ConditionsFilteredTupleKeyIterator", "Head"},
	{"mapUsersetSkel", stratMappers, "", "MapUserset"},
	{"memoryReadStartingWithUserSkel", stratMemory, "MemoryBackend", "ReadStartingWithUser"},
}

func init() {
	register("Strategies", func(repo string) (Result, error) {
		type parsed struct {
			fset *token.FileSet
			f    *ast.File
		}
		files := map[string]parsed{}
		get := func(rel string) (parsed, error) {
			if p, ok := files[rel]; ok {
				return p, nil
			}
			fset, f, err := parseFile(repo, rel)
			if err != nil {
				return parsed{}, err
			}
			files[rel] = parsed{fset, f}
			return files[rel], nil
		}

		summary := map[string]interface{}{}
		var sb strings.Builder
		sb.WriteString(genHeader)
		sb.WriteString("namespace OpenFGAVerif.Gen.Strategies\n\n")

		// constants of the weight-2 resolver
		w2, err := get(stratW2File)
		if err != nil {
			return Result{}, err
		}
		for _, c := range []struct{ def, name string }{
			{"iteratorMinBatchThreshold", "IteratorMinBatchThreshold"},
			{"baseIndex", "BaseIndex"},
			{"differenceIndex", "DifferenceIndex"},
		} {
			v, err := stratIntConst(w2.f, c.name)
			if err != nil {
				return Result{}, fmt.Errorf("%s: %w", stratW2File, err)
			}
			fmt.Fprintf(&sb, "/-- `const %s` of %s -/\n", c.name, stratW2File)
			fmt.Fprintf(&sb, "def %s : Nat := %d\n", c.def, v)
			summary[c.def] = v
		}
		sb.WriteString("\n")

		seen := map[string]bool{}
		skels := map[string][]string{}
		for _, fn := range stratFns {
			if seen[fn.def] {
				return Result{}, fmt.Errorf("duplicate definition %s", fn.def)
			}
			seen[fn.def] = true
			p, err := get(fn.file)
			if err != nil {
				return Result{}, err
			}
			full := fn.name
			if fn.recv != "" {
				full = fn.recv + "." + fn.name
			}
			fd := findFunc(p.f, fn.recv, fn.name)
			if fd == nil {
				return Result{}, fmt.Errorf("%s: function %s not found", fn.file, full)
			}
			if fd.Body == nil {
				return Result{}, fmt.Errorf("%s: function %s has no body", fn.file, full)
			}
			sk, err := skeletonE(p.fset, fd.Body)
			if err != nil {
				return Result{}, fmt.Errorf("%s: %s: %w", fn.file, full, err)
			}
			if len(sk) == 0 {
				return Result{}, fmt.Errorf("%s: function %s has an empty body", fn.file, full)
			}
			fmt.Fprintf(&sb, "/-- control skeleton of `%s` (%s) -/\n", full, fn.file)
			fmt.Fprintf(&sb, "def %s : List String := [\n", fn.def)
			for i, line := range sk {
				sb.WriteString("  " + leanStr(line))
				if i+1 < len(sk) {
					sb.WriteString(",")
				}
				sb.WriteString("\n")
			}
			sb.WriteString("]\n\n")
			summary[fn.def] = len(sk)
			skels[fn.def] = sk
		}
		// derived switches read by the correspondence driver (findings S1 / S2): does the recursive resolver
		// restrict the edges it follows to the self-referencing userset / to parents of the object's own type?
		has := func(def, needle string) bool {
			for _, l := range skels[def] {
				if strings.Contains(l, needle) {
					return true
				}
			}
			return false
		}
		selfOnly := has("recursiveUsersetSkel", "NewFilteredTupleKeyIterator(rightIter")
		sameType := has("recursiveTTUSkel", "sameTypeParents(") && has("buildRecursiveMapperSkel", "sameTypeParents(")
		bs := func(b bool) string {
			if b {
				return "true"
			}
			return "false"
		}
		sb.WriteString("/-- `recursiveUserset` filters the right-hand iterator down to the self-referencing userset (fix of S1) -/\n")
		sb.WriteString("def recursiveFollowsOnlySelfUserset : Bool := " + bs(selfOnly) + "\n\n")
		sb.WriteString("/-- `recursiveTTU` / `buildRecursiveMapper` keep only parents of the object's own type (fix of S2) -/\n")
		sb.WriteString("def recursiveFollowsOnlySameTypeParents : Bool := " + bs(sameType) + "\n\n")
		summary["recursiveFollowsOnlySelfUserset"] = selfOnly
		summary["recursiveFollowsOnlySameTypeParents"] = sameType
		sb.WriteString("end OpenFGAVerif.Gen.Strategies\n")
		return Result{Lean: sb.String(), Summary: summary}, nil
	})
}
