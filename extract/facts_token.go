package main

import (
	"fmt"
	"go/ast"
	"go/token"
	"strconv"
	"strings"
)

// Token: facts about pkg/encoder (continuation tokens), used by C28 and C14.
//   - the format string of StringContinuationTokenSerializer.Serialize and the separator of Deserialize
//   - the base64 alphabet object used by Base64Encoder (URLEncoding / StdEncoding / Raw...)
//   - the order of the two stages in TokenEncoder.Encode / Decode
//   - the guards: Serialize rejects ulid == "", Deserialize rejects !found || ulid == ""
//   - GCMEncrypter: empty input passes through in both directions, nonce is prepended
func init() {
	register("Token", func(repo string) (Result, error) {
		fset, f, err := parseFile(repo, "pkg/encoder/token_serializer.go")
		if err != nil {
			return Result{}, err
		}
		ser := findFunc(f, "StringContinuationTokenSerializer", "Serialize")
		des := findFunc(f, "StringContinuationTokenSerializer", "Deserialize")
		if ser == nil || des == nil {
			return Result{}, fmt.Errorf("Serialize/Deserialize not found")
		}
		var format, cutSep string
		var serGuard, desGuard string
		ast.Inspect(ser, func(n ast.Node) bool {
			switch x := n.(type) {
			case *ast.CallExpr:
				if s := src(fset, x.Fun); s == "fmt.Sprintf" && len(x.Args) == 3 {
					if bl, ok := x.Args[0].(*ast.BasicLit); ok {
						format, _ = strconv.Unquote(bl.Value)
					}
					if src(fset, x.Args[1]) != "ulid" || src(fset, x.Args[2]) != "objType" {
						format = ""
					}
				}
			case *ast.IfStmt:
				if serGuard == "" {
					serGuard = src(fset, x.Cond)
				}
			}
			return true
		})
		ast.Inspect(des, func(n ast.Node) bool {
			switch x := n.(type) {
			case *ast.CallExpr:
				if s := src(fset, x.Fun); s == "strings.Cut" && len(x.Args) == 2 {
					if bl, ok := x.Args[1].(*ast.BasicLit); ok {
						cutSep, _ = strconv.Unquote(bl.Value)
					}
				}
			case *ast.IfStmt:
				if desGuard == "" {
					desGuard = src(fset, x.Cond)
				}
			}
			return true
		})
		if format == "" || !strings.HasPrefix(format, "%s") || !strings.HasSuffix(format, "%s") || strings.Count(format, "%s") != 2 {
			return Result{}, fmt.Errorf("Serialize: expected fmt.Sprintf(\"%%s<sep>%%s\", ulid, objType), got format %q", format)
		}
		serSep := strings.TrimSuffix(strings.TrimPrefix(format, "%s"), "%s")
		if cutSep == "" {
			return Result{}, fmt.Errorf("Deserialize: strings.Cut(token, <literal>) not found")
		}
		if serGuard != `ulid == ""` {
			return Result{}, fmt.Errorf("Serialize: guard is %q, expected ulid == \"\"", serGuard)
		}
		if desGuard != `!found || ulid == ""` {
			return Result{}, fmt.Errorf("Deserialize: guard is %q, expected !found || ulid == \"\"", desGuard)
		}

		// base64 flavour
		fset2, f2, err := parseFile(repo, "pkg/encoder/base64.go")
		if err != nil {
			return Result{}, err
		}
		flavour := func(name string) (string, error) {
			fd := findFunc(f2, "Base64Encoder", name)
			if fd == nil {
				return "", fmt.Errorf("Base64Encoder.%s not found", name)
			}
			var enc string
			ast.Inspect(fd, func(n ast.Node) bool {
				if se, ok := n.(*ast.SelectorExpr); ok {
					if s := src(fset2, se.X); strings.HasPrefix(s, "base64.") {
						enc = strings.TrimPrefix(s, "base64.") + "." + se.Sel.Name
					}
				}
				return true
			})
			if enc == "" {
				return "", fmt.Errorf("Base64Encoder.%s: no base64.<Encoding> call", name)
			}
			return enc, nil
		}
		encFl, err := flavour("Encode")
		if err != nil {
			return Result{}, err
		}
		decFl, err := flavour("Decode")
		if err != nil {
			return Result{}, err
		}

		// TokenEncoder stage order
		fset3, f3, err := parseFile(repo, "pkg/encoder/token_encoder.go")
		if err != nil {
			return Result{}, err
		}
		order := func(name string) ([]string, error) {
			fd := findFunc(f3, "TokenEncoder", name)
			if fd == nil {
				return nil, fmt.Errorf("TokenEncoder.%s not found", name)
			}
			var calls []string
			ast.Inspect(fd.Body, func(n ast.Node) bool {
				if ce, ok := n.(*ast.CallExpr); ok {
					s := src(fset3, ce.Fun)
					if strings.HasPrefix(s, "e.") {
						calls = append(calls, strings.TrimPrefix(s, "e."))
					}
				}
				return true
			})
			return calls, nil
		}
		encOrder, err := order("Encode")
		if err != nil {
			return Result{}, err
		}
		decOrder, err := order("Decode")
		if err != nil {
			return Result{}, err
		}

		// GCM: empty passthrough + nonce prefix
		fset4, f4, err := parseFile(repo, "pkg/encrypter/gcm_encrypter.go")
		if err != nil {
			return Result{}, err
		}
		gcmFact := func(name string) (emptyPass bool, body string, e error) {
			fd := findFunc(f4, "GCMEncrypter", name)
			if fd == nil {
				return false, "", fmt.Errorf("GCMEncrypter.%s not found", name)
			}
			if len(fd.Body.List) > 0 {
				if is, ok := fd.Body.List[0].(*ast.IfStmt); ok && src(fset4, is.Cond) == "len(data) == 0" {
					if len(is.Body.List) == 1 {
						if rs, ok := is.Body.List[0].(*ast.ReturnStmt); ok && len(rs.Results) == 2 && src(fset4, rs.Results[0]) == "data" && src(fset4, rs.Results[1]) == "nil" {
							emptyPass = true
						}
					}
				}
			}
			return emptyPass, src(fset4, fd.Body), nil
		}
		encEmpty, encBody, err := gcmFact("Encrypt")
		if err != nil {
			return Result{}, err
		}
		decEmpty, decBody, err := gcmFact("Decrypt")
		if err != nil {
			return Result{}, err
		}
		sealNoncePrefix := strings.Contains(encBody, "e.cipherMode.Seal(nonce, nonce, data, nil)")
		openSplit := strings.Contains(decBody, "nonce, ciphertext := data[:nonceSize], data[nonceSize:]") &&
			strings.Contains(decBody, "e.cipherMode.Open(nil, nonce, ciphertext, nil)") &&
			strings.Contains(decBody, "len(data) < nonceSize")
		_ = token.NoPos
		// key derivation: create32ByteKey must be sha256.Sum256 of the whole secret
		kd := findFunc(f4, "", "create32ByteKey")
		if kd == nil {
			return Result{}, fmt.Errorf("create32ByteKey not found")
		}
		keyDerivation := src(fset4, kd.Body)
		// every paginated handler must hand the server's token encoder to its query
		var encoderSites []string
		for _, rel := range []string{"pkg/server/authorization_models.go", "pkg/server/read.go", "pkg/server/read_changes.go", "pkg/server/stores.go"} {
			fsetS, fS, err := parseFile(repo, rel)
			if err != nil {
				return Result{}, err
			}
			ast.Inspect(fS, func(n ast.Node) bool {
				if ce, ok := n.(*ast.CallExpr); ok {
					fn := src(fsetS, ce.Fun)
					if strings.HasPrefix(fn, "commands.With") && strings.HasSuffix(fn, "Encoder") && len(ce.Args) == 1 {
						encoderSites = append(encoderSites, strings.TrimPrefix(rel, "pkg/server/")+":"+fn+"("+src(fsetS, ce.Args[0])+")")
					}
				}
				return true
			})
		}

		// ReadChanges token gate: the guards between decoding the token and calling the backend, in source order,
		// each with the error it returns; and what the query serializes into the next token / hands to the backend
		fsetR, fR, err := parseFile(repo, "pkg/server/commands/read_changes.go")
		if err != nil {
			return Result{}, err
		}
		rcx := findFunc(fR, "ReadChangesQuery", "Execute")
		if rcx == nil {
			return Result{}, fmt.Errorf("ReadChangesQuery.Execute not found")
		}
		var rcGate []string
		var rcSerArgs, rcBackend []string
		backendSeen := false
		ast.Inspect(rcx.Body, func(n ast.Node) bool {
			switch x := n.(type) {
			case *ast.IfStmt:
				if backendSeen {
					return true
				}
				ret := "-"
				if len(x.Body.List) > 0 {
					if rs, ok := x.Body.List[len(x.Body.List)-1].(*ast.ReturnStmt); ok && len(rs.Results) == 2 {
						ret = src(fsetR, rs.Results[1])
					}
				}
				rcGate = append(rcGate, src(fsetR, x.Cond)+" => "+ret)
			case *ast.AssignStmt:
				if len(x.Rhs) == 1 {
					if ce, ok := x.Rhs[0].(*ast.CallExpr); ok {
						fn := src(fsetR, ce.Fun)
						if fn == "q.backend.ReadChanges" {
							backendSeen = true
						}
						if fn == "q.encoder.Decode" || fn == "q.tokenSerializer.Deserialize" || fn == "q.tokenSerializer.Serialize" || fn == "q.encoder.Encode" {
							var as []string
							for _, a := range ce.Args {
								as = append(as, src(fsetR, a))
							}
							var ls []string
							for _, l := range x.Lhs {
								ls = append(ls, src(fsetR, l))
							}
							rcSerArgs = append(rcSerArgs, strings.Join(ls, ",")+" = "+fn+"("+strings.Join(as, ", ")+")")
						}
					}
				}
			case *ast.KeyValueExpr:
				if k := src(fsetR, x.Key); k == "ObjectType" {
					rcBackend = append(rcBackend, k+": "+src(fsetR, x.Value))
				}
			case *ast.CallExpr:
				if src(fsetR, x.Fun) == "storage.NewPaginationOptions" && len(x.Args) == 2 {
					rcBackend = append(rcBackend, "from: "+src(fsetR, x.Args[1]))
				}
			}
			return true
		})

		// the SQL datastores' own serializer for ReadChanges positions (pkg/storage/sqlcommon)
		fsetQ, fQ, err := parseFile(repo, "pkg/storage/sqlcommon/sqlcommon.go")
		if err != nil {
			return Result{}, err
		}
		sqlSer := findFunc(fQ, "SQLContinuationTokenSerializer", "Serialize")
		sqlDes := findFunc(fQ, "SQLContinuationTokenSerializer", "Deserialize")
		if sqlSer == nil || sqlDes == nil {
			return Result{}, fmt.Errorf("SQLContinuationTokenSerializer.Serialize/Deserialize not found")
		}
		sqlSerBody, sqlDesBody := src(fsetQ, sqlSer.Body), src(fsetQ, sqlDes.Body)
		sqlNewTok := ""
		if nt := findFunc(fQ, "", "NewContToken"); nt != nil {
			sqlNewTok = src(fsetQ, nt.Body)
		}

		b := func(x bool) string {
			if x {
				return "true"
			}
			return "false"
		}
		var sb strings.Builder
		sb.WriteString(genHeader)
		sb.WriteString("namespace OpenFGAVerif.Gen.Token\n\n")
		sb.WriteString("/-- separator written by `Serialize` (pkg/encoder/token_serializer.go) -/\n")
		sb.WriteString("def serializeSep : List UInt8 := " + leanBytes(serSep) + "\n")
		sb.WriteString("/-- separator `Deserialize` cuts at -/\n")
		sb.WriteString("def deserializeSep : List UInt8 := " + leanBytes(cutSep) + "\n")
		sb.WriteString("def base64EncodeFlavour : String := " + leanStr(encFl) + "\n")
		sb.WriteString("def base64DecodeFlavour : String := " + leanStr(decFl) + "\n")
		sb.WriteString("/-- calls made by TokenEncoder.Encode, in source order -/\n")
		sb.WriteString("def encodeStages : List String := " + leanStrList(encOrder) + "\n")
		sb.WriteString("def decodeStages : List String := " + leanStrList(decOrder) + "\n")
		sb.WriteString("def gcmEncryptEmptyPassthrough : Bool := " + b(encEmpty) + "\n")
		sb.WriteString("def gcmDecryptEmptyPassthrough : Bool := " + b(decEmpty) + "\n")
		sb.WriteString("def gcmSealPrependsNonce : Bool := " + b(sealNoncePrefix) + "\n")
		sb.WriteString("def gcmOpenSplitsNonce : Bool := " + b(openSplit) + "\n")
		sb.WriteString("/-- paginated handlers passing the server's token encoder to their query -/\n")
		sb.WriteString("def encoderSites : List String := " + leanStrList(encoderSites) + "\n")
		sb.WriteString("/-- body of create32ByteKey (key derivation from the configured secret) -/\n")
		sb.WriteString("def keyDerivationBody : String := " + leanStr(keyDerivation) + "\n")
		sb.WriteString("/-- ReadChangesQuery.Execute: guards before the backend call (`cond => returned error`), in source order -/\n")
		sb.WriteString("def readChangesGate : List String := " + leanStrList(rcGate) + "\n")
		sb.WriteString("/-- ReadChangesQuery.Execute: the decode / deserialize / serialize / encode calls with their operands -/\n")
		sb.WriteString("def readChangesCodecCalls : List String := " + leanStrList(rcSerArgs) + "\n")
		sb.WriteString("/-- what the query hands to the backend (start position, type filter) -/\n")
		sb.WriteString("def readChangesBackendArgs : List String := " + leanStrList(rcBackend) + "\n")
		sb.WriteString("/-- bodies of sqlcommon.SQLContinuationTokenSerializer.Serialize / Deserialize and NewContToken -/\n")
		sb.WriteString("def sqlSerializeBody : String := " + leanStr(sqlSerBody) + "\n")
		sb.WriteString("def sqlDeserializeBody : String := " + leanStr(sqlDesBody) + "\n")
		sb.WriteString("def sqlNewContTokenBody : String := " + leanStr(sqlNewTok) + "\n")
		sb.WriteString("\nend OpenFGAVerif.Gen.Token\n")
		return Result{Lean: sb.String(), Summary: map[string]interface{}{
			"serializeSep": serSep, "deserializeSep": cutSep, "base64": []string{encFl, decFl},
			"encodeStages": encOrder, "decodeStages": decOrder,
			"gcm": []bool{encEmpty, decEmpty, sealNoncePrefix, openSplit},
		}}, nil
	})
}
