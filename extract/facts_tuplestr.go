package main

import (
	"fmt"
	"go/ast"
	"go/token"
	"strconv"
	"strings"
)

// TupleStr: facts about pkg/tuple/tuple.go (string encodings of objects, usersets, users, tuples), used by C29 (and C18).
//   - the separator literals of every split / build / render function, in source order
//   - the `switch chr` tables of IsValidObject / IsValidRelation / IsValidUserID / IsValidUserset
//     (case literals + body text), the control-character guard, the range clause and the final return
//   - the composition expressions of IsValidUser / IsWildcard / IsTypedWildcard / IsObjectRelation / GetUserTypeFromUser
//   - ParseTupleString: the Cut separators and the order of the five checks
//   - StringToUserProto: the two classification conditions; FromUserParts: separators and guards
func init() {
	register("TupleStr", func(repo string) (Result, error) {
		fset, f, err := parseFile(repo, "pkg/tuple/tuple.go")
		if err != nil {
			return Result{}, err
		}
		var sb strings.Builder
		sb.WriteString(genHeader)
		sb.WriteString("namespace OpenFGAVerif.Gen.TupleStr\n\n")
		summary := map[string]interface{}{}

		fn := func(recv, name string) (*ast.FuncDecl, error) {
			fd := findFunc(f, recv, name)
			if fd == nil || fd.Body == nil {
				return nil, fmt.Errorf("func %s not found in pkg/tuple/tuple.go", name)
			}
			return fd, nil
		}
		// every CHAR / STRING literal of a node, in source order, as byte strings
		lits := func(n ast.Node) []string {
			var out []string
			ast.Inspect(n, func(x ast.Node) bool {
				if bl, ok := x.(*ast.BasicLit); ok {
					switch bl.Kind {
					case token.CHAR:
						if r, _, _, err := strconv.UnquoteChar(bl.Value[1:len(bl.Value)-1], '\''); err == nil {
							out = append(out, string(r))
						}
					case token.STRING:
						if s, err := strconv.Unquote(bl.Value); err == nil {
							out = append(out, s)
						}
					}
				}
				return true
			})
			return out
		}
		leanBytesList := func(xs []string) string {
			p := make([]string, len(xs))
			for i, x := range xs {
				p[i] = leanBytes(x)
			}
			return "[" + strings.Join(p, ", ") + "]"
		}
		emitLits := func(leanName, recv, goName string) error {
			fd, err := fn(recv, goName)
			if err != nil {
				return err
			}
			l := lits(fd.Body)
			sb.WriteString(fmt.Sprintf("/-- character and string literals of `%s`, in source order -/\n", goName))
			sb.WriteString("def " + leanName + " : List (List UInt8) := " + leanBytesList(l) + "\n")
			summary[leanName] = l
			return nil
		}
		emitBody := func(leanName, recv, goName string) error {
			fd, err := fn(recv, goName)
			if err != nil {
				return err
			}
			s := src(fset, fd.Body)
			sb.WriteString(fmt.Sprintf("/-- body of `%s` (whitespace-normalised source) -/\n", goName))
			sb.WriteString("def " + leanName + " : String := " + leanStr(s) + "\n")
			summary[leanName] = s
			return nil
		}

		// const Wildcard
		wc, ok := stringConsts(f)["Wildcard"]
		if !ok {
			return Result{}, fmt.Errorf("const Wildcard not found")
		}
		sb.WriteString("/-- `const Wildcard` -/\ndef wildcard : List UInt8 := " + leanBytes(wc) + "\n")
		summary["wildcard"] = wc

		// split / build functions: literals + whole (small) bodies
		for _, e := range [][3]string{
			{"splitObjectBody", "", "SplitObject"},
			{"buildObjectBody", "", "BuildObject"},
			{"getObjectRelationAsStringBody", "", "GetObjectRelationAsString"},
			{"splitObjectRelationBody", "", "SplitObjectRelation"},
			{"toObjectRelationStringBody", "", "ToObjectRelationString"},
			{"getTypeBody", "", "GetType"},
			{"getRelationBody", "", "GetRelation"},
			{"isObjectRelationBody", "", "IsObjectRelation"},
			{"getUserTypeFromUserBody", "", "GetUserTypeFromUser"},
			{"isValidUserBody", "", "IsValidUser"},
			{"isWildcardBody", "", "IsWildcard"},
			{"isTypedWildcardBody", "", "IsTypedWildcard"},
			{"typedPublicWildcardBody", "", "TypedPublicWildcard"},
			{"toUserPartsBody", "", "ToUserParts"},
			{"fromUserPartsBody", "", "FromUserParts"},
			{"isSelfDefiningBody", "", "IsSelfDefining"},
			{"objectKeyBody", "", "ObjectKey"},
		} {
			if err := emitBody(e[0], e[1], e[2]); err != nil {
				return Result{}, err
			}
		}
		for _, e := range [][3]string{
			{"splitObjectLits", "", "SplitObject"},
			{"buildObjectLits", "", "BuildObject"},
			{"getObjectRelationAsStringLits", "", "GetObjectRelationAsString"},
			{"splitObjectRelationLits", "", "SplitObjectRelation"},
			{"toObjectRelationStringLits", "", "ToObjectRelationString"},
			{"fromUserPartsLits", "", "FromUserParts"},
			{"stringToUserProtoLits", "", "StringToUserProto"},
		} {
			if err := emitLits(e[0], e[1], e[2]); err != nil {
				return Result{}, err
			}
		}

		// renderers: the sequence of sb.WriteString / sb.WriteByte / append calls
		writes := func(n ast.Node) []string {
			var out []string
			ast.Inspect(n, func(x ast.Node) bool {
				ce, ok := x.(*ast.CallExpr)
				if !ok {
					return true
				}
				s := src(fset, ce.Fun)
				switch s {
				case "sb.WriteString", "sb.WriteByte":
					if len(ce.Args) == 1 {
						out = append(out, strings.TrimPrefix(s, "sb.")+"("+src(fset, ce.Args[0])+")")
					}
				case "append", "copy":
					args := make([]string, len(ce.Args))
					for i, a := range ce.Args {
						args[i] = src(fset, a)
					}
					out = append(out, s+"("+strings.Join(args, ", ")+")")
				}
				return true
			})
			return out
		}
		emitWrites := func(leanName, recv, goName string) error {
			fd, err := fn(recv, goName)
			if err != nil {
				return err
			}
			w := writes(fd.Body)
			if len(w) == 0 {
				return fmt.Errorf("%s: no sb.Write*/append calls found", goName)
			}
			sb.WriteString(fmt.Sprintf("/-- write calls of `%s`, in source order -/\n", goName))
			sb.WriteString("def " + leanName + " : List String := " + leanStrList(w) + "\n")
			summary[leanName] = w
			return nil
		}
		if err := emitWrites("tupleKeyToStringWrites", "", "TupleKeyToString"); err != nil {
			return Result{}, err
		}
		if err := emitWrites("tupleStringWrites", "Tuple", "String"); err != nil {
			return Result{}, err
		}
		if err := emitWrites("tupleKeyWithConditionToStringWrites", "", "TupleKeyWithConditionToString"); err != nil {
			return Result{}, err
		}
		// UserProtoToString: per type-switch case
		{
			fd, err := fn("", "UserProtoToString")
			if err != nil {
				return Result{}, err
			}
			var cases []string
			ast.Inspect(fd.Body, func(x ast.Node) bool {
				ts, ok := x.(*ast.TypeSwitchStmt)
				if !ok {
					return true
				}
				for _, c := range ts.Body.List {
					cc := c.(*ast.CaseClause)
					name := "default"
					if len(cc.List) > 0 {
						name = src(fset, cc.List[0])
					}
					var w []string
					for _, st := range cc.Body {
						w = append(w, writes(st)...)
					}
					cases = append(cases, name+": "+strings.Join(w, "; "))
				}
				return false
			})
			if len(cases) == 0 {
				return Result{}, fmt.Errorf("UserProtoToString: type switch not found")
			}
			sb.WriteString("/-- `UserProtoToString`: per case of the type switch, the write calls -/\n")
			sb.WriteString("def userProtoToStringCases : List String := " + leanStrList(cases) + "\n")
			summary["userProtoToStringCases"] = cases
		}
		// StringToUserProto: the if-conditions in order
		{
			fd, err := fn("", "StringToUserProto")
			if err != nil {
				return Result{}, err
			}
			var conds []string
			var assigns []string
			for _, st := range fd.Body.List {
				switch x := st.(type) {
				case *ast.IfStmt:
					kind := "?"
					ast.Inspect(x.Body, func(n ast.Node) bool {
						if cl, ok := n.(*ast.CompositeLit); ok {
							t := src(fset, cl.Type)
							if strings.HasPrefix(t, "openfgav1.User_") {
								kind = strings.TrimPrefix(t, "openfgav1.User_")
							}
						}
						return true
					})
					conds = append(conds, src(fset, x.Cond)+" => "+kind)
				case *ast.AssignStmt:
					assigns = append(assigns, src(fset, x))
				case *ast.ReturnStmt:
					kind := "?"
					ast.Inspect(x, func(n ast.Node) bool {
						if cl, ok := n.(*ast.CompositeLit); ok {
							t := src(fset, cl.Type)
							if strings.HasPrefix(t, "openfgav1.User_") {
								kind = strings.TrimPrefix(t, "openfgav1.User_")
							}
						}
						return true
					})
					conds = append(conds, "else => "+kind)
				}
			}
			sb.WriteString("def stringToUserProtoSplits : List String := " + leanStrList(assigns) + "\n")
			sb.WriteString("def stringToUserProtoConds : List String := " + leanStrList(conds) + "\n")
			summary["stringToUserProtoConds"] = conds
			summary["stringToUserProtoSplits"] = assigns
		}

		// validity loops
		type caseRow struct {
			chars []int
			body  string
		}
		loopFacts := func(leanPrefix, goName string) error {
			fd, err := fn("", goName)
			if err != nil {
				return err
			}
			var rng *ast.RangeStmt
			var decl, ret string
			for _, st := range fd.Body.List {
				switch x := st.(type) {
				case *ast.RangeStmt:
					rng = x
				case *ast.DeclStmt:
					decl = src(fset, x)
				case *ast.ReturnStmt:
					ret = src(fset, x)
				}
			}
			if rng == nil || len(rng.Body.List) != 2 {
				return fmt.Errorf("%s: expected `for … range s { if unicode.IsControl…; switch chr {…} }`", goName)
			}
			key, val := "_", "_"
			if rng.Key != nil {
				key = src(fset, rng.Key)
			}
			if rng.Value != nil {
				val = src(fset, rng.Value)
			}
			rangeTxt := key + ", " + val + " := range " + src(fset, rng.X)
			guard := src(fset, rng.Body.List[0])
			sw, ok := rng.Body.List[1].(*ast.SwitchStmt)
			if !ok || sw.Tag == nil || src(fset, sw.Tag) != val || sw.Init != nil {
				return fmt.Errorf("%s: second loop statement is not `switch %s`", goName, val)
			}
			var rows []caseRow
			var reject []int
			for _, c := range sw.Body.List {
				cc := c.(*ast.CaseClause)
				var row caseRow
				for _, e := range cc.List {
					bl, ok := e.(*ast.BasicLit)
					if !ok || bl.Kind != token.CHAR {
						return fmt.Errorf("%s: case expression %s is not a character literal", goName, src(fset, e))
					}
					r, _, _, err := strconv.UnquoteChar(bl.Value[1:len(bl.Value)-1], '\'')
					if err != nil {
						return err
					}
					row.chars = append(row.chars, int(r))
				}
				var bs []string
				for _, st := range cc.Body {
					bs = append(bs, src(fset, st))
				}
				row.body = strings.Join(bs, "; ")
				if row.body == "return false" {
					reject = append(reject, row.chars...)
				}
				rows = append(rows, row)
			}
			nats := func(xs []int) string {
				p := make([]string, len(xs))
				for i, x := range xs {
					p[i] = strconv.Itoa(x)
				}
				return "[" + strings.Join(p, ", ") + "]"
			}
			var rowsLean []string
			var rowsSum []string
			for _, r := range rows {
				rowsLean = append(rowsLean, "("+nats(r.chars)+", "+leanStr(r.body)+")")
				rowsSum = append(rowsSum, nats(r.chars)+" "+r.body)
			}
			sb.WriteString(fmt.Sprintf("\n/-- `%s`: variables, range clause, control guard, `switch chr` table (case runes, body; [] = default), return -/\n", goName))
			sb.WriteString("def " + leanPrefix + "Decl : String := " + leanStr(decl) + "\n")
			sb.WriteString("def " + leanPrefix + "Range : String := " + leanStr(rangeTxt) + "\n")
			sb.WriteString("def " + leanPrefix + "Guard : String := " + leanStr(guard) + "\n")
			sb.WriteString("def " + leanPrefix + "Cases : List (List Nat × String) := [" + strings.Join(rowsLean, ", ") + "]\n")
			sb.WriteString("def " + leanPrefix + "Reject : List Nat := " + nats(reject) + "\n")
			sb.WriteString("def " + leanPrefix + "Return : String := " + leanStr(ret) + "\n")
			summary[leanPrefix] = map[string]interface{}{"decl": decl, "range": rangeTxt, "guard": guard, "cases": rowsSum, "return": ret}
			return nil
		}
		for _, e := range [][2]string{{"object", "IsValidObject"}, {"relation", "IsValidRelation"}, {"userID", "IsValidUserID"}, {"userset", "IsValidUserset"}} {
			if err := loopFacts(e[0], e[1]); err != nil {
				return Result{}, err
			}
		}

		// ParseTupleString: the Cut calls and the guards, in order
		{
			fd, err := fn("", "ParseTupleString")
			if err != nil {
				return Result{}, err
			}
			var steps []string
			for _, st := range fd.Body.List {
				switch x := st.(type) {
				case *ast.AssignStmt:
					steps = append(steps, src(fset, x))
				case *ast.IfStmt:
					steps = append(steps, "if "+src(fset, x.Cond))
				case *ast.ReturnStmt:
					steps = append(steps, strings.ReplaceAll(src(fset, x), "\n", " "))
				}
			}
			sb.WriteString("\n/-- `ParseTupleString`: assignments, guards and the final return, in source order -/\n")
			sb.WriteString("def parseTupleStringSteps : List String := " + leanStrList(steps) + "\n")
			summary["parseTupleStringSteps"] = steps
		}
		// MustParseTupleString delegates
		if err := emitBody("mustParseTupleStringBody", "", "MustParseTupleString"); err != nil {
			return Result{}, err
		}

		sb.WriteString("\nend OpenFGAVerif.Gen.TupleStr\n")
		return Result{Lean: sb.String(), Summary: summary}, nil
	})
}
