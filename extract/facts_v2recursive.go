package main

import (
	"fmt"
	"go/ast"
	"strings"
)

// V2Recursive: how the weighted-graph recursive strategy (internal/check/recursive.go, Recursive.execute) ends:
// the tail after the seed-loading loop. An error met while loading the seed sets (`err`) must be re-attached to a
// FALSE outcome of recursiveMatch — a truncated seed set proves nothing — while a TRUE outcome stands on its own.
func init() {
	register("V2Recursive", func(repo string) (Result, error) {
		fset, f, err := parseFile(repo, "internal/check/recursive.go")
		if err != nil {
			return Result{}, err
		}
		fd := findFunc(f, "Recursive", "execute")
		if fd == nil {
			return Result{}, fmt.Errorf("Recursive.execute not found")
		}
		// statements after the last top-level `for`
		last := -1
		for i, s := range fd.Body.List {
			if _, ok := s.(*ast.ForStmt); ok {
				last = i
			}
		}
		var tail []string
		for _, s := range fd.Body.List[last+1:] {
			tail = append(tail, src(fset, s))
		}
		// every return inside the loading loop that answers false: its second result
		var falseReturns []string
		ast.Inspect(fd.Body, func(n ast.Node) bool {
			r, ok := n.(*ast.ReturnStmt)
			if ok && len(r.Results) == 2 && strings.Contains(src(fset, r.Results[0]), "Allowed: false") {
				falseReturns = append(falseReturns, src(fset, r.Results[1]))
			}
			return true
		})
		var sb strings.Builder
		sb.WriteString(genHeader)
		sb.WriteString("namespace OpenFGAVerif.Gen.V2Recursive\n\n")
		sb.WriteString("/-- statements of Recursive.execute after the seed-loading loop -/\n")
		sb.WriteString("def executeTail : List String := " + leanStrList(tail) + "\n")
		sb.WriteString("/-- error operand of every `return &Response{Allowed: false}, …` inside execute -/\n")
		sb.WriteString("def earlyFalseErrs : List String := " + leanStrList(falseReturns) + "\n")
		sb.WriteString("\nend OpenFGAVerif.Gen.V2Recursive\n")
		return Result{Lean: sb.String(), Summary: map[string]interface{}{"executeTail": tail, "earlyFalseErrs": falseReturns}}, nil
	})
}
