package main

import (
	"fmt"
	"go/ast"
	"go/token"
	"strconv"
	"strings"
)

// valSkeleton renders a function body as the ordered list of its statements: control statements contribute their header
// ("if <init>; <cond>", "else", "for <header>", "switch <tag>", "case <list>"), every other statement its source text.
// Two bodies have the same skeleton iff they are the same program up to layout and comments; the models in
// lean/OpenFGAVerif/Model are written against these skeletons and the tie lemmas compare them literally.
func valSkeleton(fset *token.FileSet, body *ast.BlockStmt) []string {
	var out []string
	var walk func(s ast.Stmt)
	walkBlock := func(b *ast.BlockStmt) {
		if b == nil {
			return
		}
		for _, s := range b.List {
			walk(s)
		}
	}
	walk = func(s ast.Stmt) {
		switch x := s.(type) {
		case *ast.BlockStmt:
			walkBlock(x)
		case *ast.IfStmt:
			h := "if "
			if x.Init != nil {
				h += src(fset, x.Init) + "; "
			}
			out = append(out, h+src(fset, x.Cond))
			walkBlock(x.Body)
			if x.Else != nil {
				out = append(out, "else")
				walk(x.Else)
			}
			out = append(out, "end")
		case *ast.ForStmt:
			h := "for "
			if x.Init != nil {
				h += src(fset, x.Init)
			}
			h += ";"
			if x.Cond != nil {
				h += " " + src(fset, x.Cond)
			}
			h += ";"
			if x.Post != nil {
				h += " " + src(fset, x.Post)
			}
			out = append(out, h)
			walkBlock(x.Body)
			out = append(out, "end")
		case *ast.RangeStmt:
			h := "for "
			if x.Key != nil {
				h += src(fset, x.Key)
			}
			if x.Value != nil {
				h += ", " + src(fset, x.Value)
			}
			out = append(out, h+" := range "+src(fset, x.X))
			walkBlock(x.Body)
			out = append(out, "end")
		case *ast.SwitchStmt:
			h := "switch"
			if x.Init != nil {
				h += " " + src(fset, x.Init) + ";"
			}
			if x.Tag != nil {
				h += " " + src(fset, x.Tag)
			}
			out = append(out, h)
			walkBlock(x.Body)
			out = append(out, "end")
		case *ast.TypeSwitchStmt:
			h := "typeswitch"
			if x.Init != nil {
				h += " " + src(fset, x.Init) + ";"
			}
			out = append(out, h+" "+src(fset, x.Assign))
			walkBlock(x.Body)
			out = append(out, "end")
		case *ast.CaseClause:
			if x.List == nil {
				out = append(out, "default")
			} else {
				parts := make([]string, len(x.List))
				for i, e := range x.List {
					parts[i] = src(fset, e)
				}
				out = append(out, "case "+strings.Join(parts, ", "))
			}
			for _, b := range x.Body {
				walk(b)
			}
		case *ast.LabeledStmt:
			out = append(out, "label "+x.Label.Name)
			walk(x.Stmt)
		default:
			out = append(out, src(fset, s))
		}
	}
	walkBlock(body)
	return out
}

// valSkeletonOf parses rel and returns the skeleton of function (recv).name.
func valSkeletonOf(repo, rel, recv, name string) ([]string, error) {
	fset, f, err := parseFile(repo, rel)
	if err != nil {
		return nil, err
	}
	fd := findFunc(f, recv, name)
	if fd == nil || fd.Body == nil {
		return nil, fmt.Errorf("%s: function %s.%s not found", rel, recv, name)
	}
	return valSkeleton(fset, fd.Body), nil
}

// valEvalIntConst evaluates integer literals combined with * + << (enough for size constants).
func valEvalIntConst(e ast.Expr) (int64, error) {
	switch x := e.(type) {
	case *ast.BasicLit:
		if x.Kind != token.INT {
			return 0, fmt.Errorf("not an integer literal")
		}
		return strconv.ParseInt(strings.ReplaceAll(x.Value, "_", ""), 0, 64)
	case *ast.ParenExpr:
		return valEvalIntConst(x.X)
	case *ast.BinaryExpr:
		a, err := valEvalIntConst(x.X)
		if err != nil {
			return 0, err
		}
		b, err := valEvalIntConst(x.Y)
		if err != nil {
			return 0, err
		}
		switch x.Op {
		case token.MUL:
			return a * b, nil
		case token.ADD:
			return a + b, nil
		case token.SHL:
			return a << uint(b), nil
		}
	}
	return 0, fmt.Errorf("unsupported constant expression")
}

func valIntConst(repo, rel, name string) (int64, error) {
	_, f, err := parseFile(repo, rel)
	if err != nil {
		return 0, err
	}
	for _, d := range f.Decls {
		gd, ok := d.(*ast.GenDecl)
		if !ok || gd.Tok != token.CONST {
			continue
		}
		for _, s := range gd.Specs {
			v := s.(*ast.ValueSpec)
			for i, n := range v.Names {
				if n.Name == name && i < len(v.Values) {
					return valEvalIntConst(v.Values[i])
				}
			}
		}
	}
	return 0, fmt.Errorf("%s: constant %s not found", rel, name)
}

func valLeanIdent(recv, name string) string {
	s := name
	if name == "match" {
		s = "memoryMatch" // `match` is a Lean keyword
	}
	if recv != "" {
		s = recv + "_" + name
	}
	return strings.ToLower(s[:1]) + s[1:]
}

// Validation: statement skeletons of every function that takes part in tuple validation (C18), the write context limit
// and whether Server.Write overrides it.
func init() {
	register("Validation", func(repo string) (Result, error) {
		type fn struct{ rel, recv, name string }
		fns := []fn{
			{"internal/validation/validation.go", "", "ValidateUserObjectRelation"},
			{"internal/validation/validation.go", "", "ValidateTupleForWrite"},
			{"internal/validation/validation.go", "", "ValidateTupleForRead"},
			{"internal/validation/validation.go", "", "validateTuplesetRestrictions"},
			{"internal/validation/validation.go", "", "validateTypeRestrictions"},
			{"internal/validation/validation.go", "", "validateCondition"},
			{"internal/validation/validation.go", "", "ValidateObject"},
			{"internal/validation/validation.go", "", "ValidateRelation"},
			{"internal/validation/validation.go", "", "ValidateUser"},
			{"internal/validation/validation.go", "", "ValidateStruct"},
			{"internal/validation/validation.go", "", "validateValueForbiddenChars"},
			{"internal/utils/sanitize.go", "", "ContainsForbiddenChars"},
			{"internal/condition/condition.go", "EvaluableCondition", "CastContextToTypedParameters"},
			{"pkg/server/commands/write.go", "WriteCommand", "Execute"},
			{"pkg/server/commands/write.go", "WriteCommand", "validateWriteRequest"},
			{"pkg/server/commands/write.go", "WriteCommand", "validateNotImplicit"},
			{"pkg/server/commands/check_command.go", "", "validateCheckRequest"},
			{"pkg/typesystem/typesystem.go", "TypeSystem", "HasTypeInfo"},
			{"pkg/typesystem/typesystem.go", "TypeSystem", "IsTuplesetRelation"},
			{"pkg/typesystem/typesystem.go", "TypeSystem", "GetRelation"},
			{"pkg/typesystem/typesystem.go", "TypeSystem", "GetRelations"},
			{"pkg/storage/memory/memory.go", "", "match"},
		}
		var sb strings.Builder
		sb.WriteString(genHeader)
		sb.WriteString("namespace OpenFGAVerif.Gen.Validation\n\n")
		summary := map[string]interface{}{}
		for _, f := range fns {
			sk, err := valSkeletonOf(repo, f.rel, f.recv, f.name)
			if err != nil {
				return Result{}, err
			}
			id := valLeanIdent(f.recv, f.name)
			fmt.Fprintf(&sb, "/-- statement skeleton of `%s` (%s) -/\ndef %s : List String := %s\n\n", f.name, f.rel, id, leanStrList(sk))
			summary[id] = len(sk)
		}
		lim, err := valIntConst(repo, "pkg/server/config/config.go", "DefaultWriteContextByteLimit")
		if err != nil {
			return Result{}, err
		}
		fmt.Fprintf(&sb, "/-- config.DefaultWriteContextByteLimit -/\ndef defaultWriteContextByteLimit : Nat := %d\n\n", lim)
		summary["defaultWriteContextByteLimit"] = lim
		// NewWriteCommand's default and Server.Write not overriding it
		fsetW, fW, err := parseFile(repo, "pkg/server/commands/write.go")
		if err != nil {
			return Result{}, err
		}
		nw := findFunc(fW, "", "NewWriteCommand")
		if nw == nil {
			return Result{}, fmt.Errorf("NewWriteCommand not found")
		}
		dflt := strings.Contains(src(fsetW, nw.Body), "conditionContextByteLimit: config.DefaultWriteContextByteLimit")
		fsetS, fS, err := parseFile(repo, "pkg/server/write.go")
		if err != nil {
			return Result{}, err
		}
		sw := findFunc(fS, "Server", "Write")
		if sw == nil {
			return Result{}, fmt.Errorf("Server.Write not found")
		}
		override := strings.Contains(src(fsetS, sw.Body), "WithConditionContextByteLimit")
		validates := strings.Contains(src(fsetS, sw.Body), "req.Validate()")
		b := func(x bool) string {
			if x {
				return "true"
			}
			return "false"
		}
		fmt.Fprintf(&sb, "/-- NewWriteCommand initialises the limit with the config default -/\ndef writeCommandDefaultLimit : Bool := %s\n", b(dflt))
		fmt.Fprintf(&sb, "/-- Server.Write passes WithConditionContextByteLimit -/\ndef serverWriteOverridesLimit : Bool := %s\n", b(override))
		fmt.Fprintf(&sb, "/-- Server.Write runs the generated request validation when the interceptor did not -/\ndef serverWriteValidatesRequest : Bool := %s\n", b(validates))
		summary["writeCommandDefaultLimit"] = dflt
		summary["serverWriteOverridesLimit"] = override
		sb.WriteString("\nend OpenFGAVerif.Gen.Validation\n")
		return Result{Lean: sb.String(), Summary: summary}, nil
	})
}

// ModelValidation: statement skeletons of model validation (typesystem.NewAndValidate and everything it calls), of the
// model write command, of the latest-model resolver and of the model functions of the caching wrapper and the memory /
// sql backends (C17).
func init() {
	register("ModelValidation", func(repo string) (Result, error) {
		type fn struct{ rel, recv, name string }
		fns := []fn{
			{"pkg/typesystem/typesystem.go", "", "NewAndValidate"},
			{"pkg/typesystem/typesystem.go", "TypeSystem", "validateRelation"},
			{"pkg/typesystem/typesystem.go", "", "containsDuplicateType"},
			{"pkg/typesystem/typesystem.go", "TypeSystem", "validateNames"},
			{"pkg/typesystem/typesystem.go", "TypeSystem", "isUsersetRewriteValid"},
			{"pkg/typesystem/typesystem.go", "TypeSystem", "validateTypeRestrictions"},
			{"pkg/typesystem/typesystem.go", "", "hasEntrypoints"},
			{"pkg/typesystem/typesystem.go", "TypeSystem", "hasCycle"},
			{"pkg/typesystem/typesystem.go", "TypeSystem", "HasCycle"},
			{"pkg/typesystem/typesystem.go", "TypeSystem", "validateConditions"},
			{"pkg/typesystem/typesystem.go", "TypeSystem", "IsDirectlyAssignable"},
			{"pkg/typesystem/typesystem.go", "", "RewriteContainsSelf"},
			{"pkg/typesystem/typesystem.go", "", "WalkUsersetRewrite"},
			{"pkg/typesystem/typesystem.go", "", "flattenUserset"},
			{"pkg/server/commands/write_authzmodel.go", "WriteAuthorizationModelCommand", "Execute"},
			{"pkg/typesystem/resolver.go", "", "MemoizedTypesystemResolverFunc"},
			{"pkg/storage/storagewrappers/model_caching.go", "cachedOpenFGADatastore", "ReadAuthorizationModel"},
			{"pkg/storage/storagewrappers/model_caching.go", "cachedOpenFGADatastore", "FindLatestAuthorizationModel"},
			{"pkg/storage/storagewrappers/model_caching.go", "", "ModelCacheKey"},
			{"pkg/storage/memory/memory.go", "", "findAuthorizationModelByID"},
			{"pkg/storage/memory/memory.go", "MemoryBackend", "ReadAuthorizationModel"},
			{"pkg/storage/memory/memory.go", "MemoryBackend", "FindLatestAuthorizationModel"},
			{"pkg/storage/memory/memory.go", "MemoryBackend", "WriteAuthorizationModel"},
			{"pkg/storage/sqlcommon/sqlcommon.go", "", "FindLatestAuthorizationModel"},
			{"pkg/storage/sqlcommon/sqlcommon.go", "", "ReadAuthorizationModel"},
		}
		var sb strings.Builder
		sb.WriteString(genHeader)
		sb.WriteString("namespace OpenFGAVerif.Gen.ModelValidation\n\n")
		summary := map[string]interface{}{}
		seen := map[string]int{}
		for _, f := range fns {
			sk, err := valSkeletonOf(repo, f.rel, f.recv, f.name)
			if err != nil {
				return Result{}, err
			}
			id := valLeanIdent(f.recv, f.name)
			if strings.Contains(f.rel, "sqlcommon") {
				id = "sql_" + f.name
			}
			seen[id]++
			fmt.Fprintf(&sb, "/-- statement skeleton of `%s` (%s) -/\ndef %s : List String := %s\n\n", f.name, f.rel, id, leanStrList(sk))
			summary[id] = len(sk)
		}
		sb.WriteString("end OpenFGAVerif.Gen.ModelValidation\n")
		return Result{Lean: sb.String(), Summary: summary}, nil
	})
}

// StoreScope (C16): how every datastore function scopes its data by store.
//   - memory.go: every index into the per-store maps of MemoryBackend (tuples, changes, authorizationModels, assertions,
//     stores), as (method, map, index expression);
//   - sqlcommon.go / sqlite.go: for every function that builds a query on a table, the table and whether the function
//     names the `store` column.
func init() {
	register("StoreScope", func(repo string) (Result, error) {
		fset, f, err := parseFile(repo, "pkg/storage/memory/memory.go")
		if err != nil {
			return Result{}, err
		}
		maps := map[string]bool{"s.tuples": true, "s.changes": true, "s.authorizationModels": true, "s.assertions": true, "s.stores": true}
		var mem []string
		for _, d := range f.Decls {
			fd, ok := d.(*ast.FuncDecl)
			if !ok || fd.Body == nil || fd.Recv == nil {
				continue
			}
			ast.Inspect(fd.Body, func(n ast.Node) bool {
				switch x := n.(type) {
				case *ast.IndexExpr:
					if m := src(fset, x.X); maps[m] {
						mem = append(mem, "("+leanStr(fd.Name.Name)+", "+leanStr(m)+", "+leanStr(src(fset, x.Index))+")")
					}
				case *ast.CallExpr:
					if id, ok := x.Fun.(*ast.Ident); ok && id.Name == "delete" && len(x.Args) == 2 {
						if m := src(fset, x.Args[0]); maps[m] {
							mem = append(mem, "("+leanStr(fd.Name.Name)+", "+leanStr("delete "+m)+", "+leanStr(src(fset, x.Args[1]))+")")
						}
					}
				case *ast.RangeStmt:
					if m := src(fset, x.X); maps[m] {
						mem = append(mem, "("+leanStr(fd.Name.Name)+", "+leanStr("range "+m)+", "+leanStr("")+")")
					}
				}
				return true
			})
		}
		if len(mem) == 0 {
			return Result{}, fmt.Errorf("memory.go: no per-store map accesses found")
		}
		var sql []string
		for _, rel := range []string{"pkg/storage/sqlcommon/sqlcommon.go", "pkg/storage/sqlite/sqlite.go"} {
			fs2, f2, err := parseFile(repo, rel)
			if err != nil {
				return Result{}, err
			}
			for _, d := range f2.Decls {
				fd, ok := d.(*ast.FuncDecl)
				if !ok || fd.Body == nil {
					continue
				}
				tables := map[string]bool{}
				ast.Inspect(fd.Body, func(n ast.Node) bool {
					ce, ok := n.(*ast.CallExpr)
					if !ok {
						return true
					}
					se, ok := ce.Fun.(*ast.SelectorExpr)
					if !ok || len(ce.Args) == 0 {
						return true
					}
					switch se.Sel.Name {
					case "From", "Insert", "Update", "Delete", "Into":
						if bl, ok := ce.Args[0].(*ast.BasicLit); ok && bl.Kind == token.STRING {
							if t, err := strconv.Unquote(bl.Value); err == nil {
								tables[strings.Fields(t)[0]] = true
							}
						}
					}
					return true
				})
				if len(tables) == 0 {
					continue
				}
				body := src(fs2, fd.Body)
				hasStore := strings.Contains(body, `"store"`) || strings.Contains(body, `"store":`) || strings.Contains(body, "store = ?") || strings.Contains(body, `"store",`)
				var ts []string
				for t := range tables {
					ts = append(ts, t)
				}
				sortStrings(ts)
				name := fd.Name.Name
				if fd.Recv != nil {
					name = "Datastore." + name
				}
				sql = append(sql, fmt.Sprintf("(%s, %s, %v)", leanStr(rel[strings.LastIndex(rel, "/")+1:]+":"+name), leanStr(strings.Join(ts, "+")), hasStore))
			}
		}
		var sb strings.Builder
		sb.WriteString(genHeader)
		sb.WriteString("namespace OpenFGAVerif.Gen.StoreScope\n\n")
		sb.WriteString("/-- every access of MemoryBackend to one of its per-store maps: `<method> <map> <index expression>` -/\n")
		sb.WriteString("def memoryAccesses : List (String × String × String) := [" + strings.Join(mem, ", ") + "]\n\n")
		sb.WriteString("/-- every SQL function that names a table: the tables and whether it names the `store` column -/\n")
		sb.WriteString("def sqlFunctions : List (String × String × Bool) := [" + strings.Join(sql, ", ") + "]\n\n")
		for _, nm := range []string{"WriteAssertions", "ReadAssertions", "DeleteStore", "GetStore"} {
			sk, err := valSkeletonOf(repo, "pkg/storage/memory/memory.go", "MemoryBackend", nm)
			if err != nil {
				return Result{}, err
			}
			fmt.Fprintf(&sb, "/-- statement skeleton of memory `%s` -/\ndef memory_%s : List String := %s\n\n", nm, nm, leanStrList(sk))
		}
		sb.WriteString("end OpenFGAVerif.Gen.StoreScope\n")
		return Result{Lean: sb.String(), Summary: map[string]interface{}{"memoryAccesses": len(mem), "sqlFunctions": len(sql)}}, nil
	})
}

func sortStrings(xs []string) {
	for i := 1; i < len(xs); i++ {
		for j := i; j > 0 && xs[j] < xs[j-1]; j-- {
			xs[j], xs[j-1] = xs[j-1], xs[j]
		}
	}
}
