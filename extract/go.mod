module verifextract

go 1.21
