// Command extract is the translator half of the tie between /repo and the Lean
// model: it parses the anchored Go sources with go/parser and emits, on every
// run, (a) Lean *data* modules under lean/OpenFGAVerif/Gen/ and (b) facts.json.
//
// Each fact group is one function registered in `groups`.  A group that no
// longer recognises the pattern it looks for reports an error for that group
// (the previous Gen file is left in place so that the model still compiles)
// and the checks that depend on the group treat it as a broken tie.
//
// Files are written only when their content changes, so an unchanged /repo
// does not trigger a Lean rebuild.
package main

import (
	"encoding/json"
	"flag"
	"fmt"
	"os"
	"path/filepath"
	"sort"
)

type Result struct {
	Lean    string      // full source of Gen/<Name>.lean ("" = no Lean output)
	Summary interface{} // goes to facts.json
}

type Group struct {
	Name string // Lean module name under Gen/ and key in facts.json
	Run  func(repo string) (Result, error)
}

var groups []Group

func register(name string, run func(repo string) (Result, error)) {
	groups = append(groups, Group{name, run})
}

func writeIfChanged(path, content string) error {
	old, err := os.ReadFile(path)
	if err == nil && string(old) == content {
		return nil
	}
	return os.WriteFile(path, []byte(content), 0o644)
}

func main() {
	repo := flag.String("repo", "/repo", "repository root")
	gen := flag.String("gen", "", "output directory for Gen/*.lean")
	factsPath := flag.String("facts", "", "output path of facts.json")
	flag.Parse()
	if *gen == "" || *factsPath == "" {
		fmt.Fprintln(os.Stderr, "need -gen and -facts")
		os.Exit(2)
	}
	_ = os.MkdirAll(*gen, 0o755)
	sort.Slice(groups, func(i, j int) bool { return groups[i].Name < groups[j].Name })
	facts := map[string]interface{}{}
	for _, g := range groups {
		res, err := func() (r Result, e error) {
			defer func() {
				if p := recover(); p != nil {
					e = fmt.Errorf("extractor panic: %v", p)
				}
			}()
			return g.Run(*repo)
		}()
		entry := map[string]interface{}{}
		if err != nil {
			entry["error"] = err.Error()
		} else {
			entry["summary"] = res.Summary
			if res.Lean != "" {
				if werr := writeIfChanged(filepath.Join(*gen, g.Name+".lean"), res.Lean); werr != nil {
					entry["error"] = werr.Error()
				}
			}
		}
		facts[g.Name] = entry
	}
	b, _ := json.MarshalIndent(facts, "", " ")
	if err := os.WriteFile(*factsPath, b, 0o644); err != nil {
		fmt.Fprintln(os.Stderr, err)
		os.Exit(1)
	}
}
