module github.com/openfga/openfga/verifharness

go 1.25.7

toolchain go1.26.5

require (
	github.com/golang-jwt/jwt/v5 v5.3.1
	github.com/grpc-ecosystem/grpc-gateway/v2 v2.29.0
	github.com/oklog/ulid/v2 v2.1.1
	github.com/openfga/api/proto v0.0.0-20260319214821-f153694bfc20
	github.com/openfga/language/pkg/go v0.3.1
	github.com/openfga/openfga v0.0.0
	github.com/pressly/goose/v3 v3.27.3
	go.uber.org/zap v1.28.0
	golang.org/x/sync v0.22.0
	google.golang.org/grpc v1.82.1
	google.golang.org/protobuf v1.36.11
)

require (
	cel.dev/expr v0.25.1 // indirect
	github.com/Masterminds/squirrel v1.5.4 // indirect
	github.com/MicahParks/keyfunc/v2 v2.1.0 // indirect
	github.com/Yiling-J/theine-go v0.6.2 // indirect
	github.com/antlr4-go/antlr/v4 v4.13.1 // indirect
	github.com/beorn7/perks v1.0.1 // indirect
	github.com/cenkalti/backoff/v5 v5.0.3 // indirect
	github.com/cespare/xxhash/v2 v2.3.0 // indirect
	github.com/davecgh/go-spew v1.1.2-0.20180830191138-d8f796af33cc // indirect
	github.com/dustin/go-humanize v1.0.1 // indirect
	github.com/emirpasic/gods v1.18.1 // indirect
	github.com/envoyproxy/protoc-gen-validate v1.3.3 // indirect
	github.com/fsnotify/fsnotify v1.9.0 // indirect
	github.com/go-logr/logr v1.4.4 // indirect
	github.com/go-logr/stdr v1.2.2 // indirect
	github.com/go-viper/mapstructure/v2 v2.4.0 // indirect
	github.com/google/cel-go v0.29.2 // indirect
	github.com/google/uuid v1.6.0 // indirect
	github.com/grpc-ecosystem/go-grpc-middleware v1.4.0 // indirect
	github.com/grpc-ecosystem/go-grpc-middleware/v2 v2.3.3 // indirect
	github.com/hashicorp/go-cleanhttp v0.5.2 // indirect
	github.com/hashicorp/go-retryablehttp v0.7.8 // indirect
	github.com/klauspost/cpuid/v2 v2.0.9 // indirect
	github.com/lann/builder v0.0.0-20180802200727-47ae307949d0 // indirect
	github.com/lann/ps v0.0.0-20150810152359-62de8c46ede0 // indirect
	github.com/mfridman/interpolate v0.0.2 // indirect
	github.com/munnerz/goautoneg v0.0.0-20191010083416-a7dc8b61c822 // indirect
	github.com/natefinch/wrap v0.2.0 // indirect
	github.com/pelletier/go-toml/v2 v2.2.4 // indirect
	github.com/pmezard/go-difflib v1.0.1-0.20181226105442-5d4384ee4fb2 // indirect
	github.com/prometheus/client_golang v1.24.0 // indirect
	github.com/prometheus/client_model v0.6.2 // indirect
	github.com/prometheus/common v0.70.0 // indirect
	github.com/prometheus/procfs v0.21.1 // indirect
	github.com/remyoudompheng/bigfft v0.0.0-20230129092748-24d4a6f8daec // indirect
	github.com/sagikazarmark/locafero v0.9.0 // indirect
	github.com/sethvargo/go-retry v0.4.0 // indirect
	github.com/sourcegraph/conc v0.3.0 // indirect
	github.com/spf13/afero v1.15.0 // indirect
	github.com/spf13/cast v1.10.0 // indirect
	github.com/spf13/pflag v1.0.10 // indirect
	github.com/spf13/viper v1.20.1 // indirect
	github.com/stretchr/testify v1.11.1 // indirect
	github.com/subosito/gotenv v1.6.0 // indirect
	github.com/zeebo/xxh3 v1.0.2 // indirect
	go.opentelemetry.io/auto/sdk v1.2.1 // indirect
	go.opentelemetry.io/otel v1.44.0 // indirect
	go.opentelemetry.io/otel/exporters/otlp/otlptrace v1.44.0 // indirect
	go.opentelemetry.io/otel/exporters/otlp/otlptrace/otlptracegrpc v1.44.0 // indirect
	go.opentelemetry.io/otel/metric v1.44.0 // indirect
	go.opentelemetry.io/otel/sdk v1.44.0 // indirect
	go.opentelemetry.io/otel/trace v1.44.0 // indirect
	go.opentelemetry.io/proto/otlp v1.10.0 // indirect
	go.uber.org/mock v0.6.0 // indirect
	go.uber.org/multierr v1.11.0 // indirect
	go.yaml.in/yaml/v3 v3.0.4 // indirect
	golang.org/x/exp v0.0.0-20260718201538-764159d718ef // indirect
	golang.org/x/net v0.57.0 // indirect
	golang.org/x/sys v0.47.0 // indirect
	golang.org/x/text v0.40.0 // indirect
	gonum.org/v1/gonum v0.17.0 // indirect
	google.golang.org/genproto/googleapis/api v0.0.0-20260526163538-3dc84a4a5aaa // indirect
	google.golang.org/genproto/googleapis/rpc v0.0.0-20260720211330-0afa2a65878a // indirect
	gopkg.in/yaml.v3 v3.0.1 // indirect
	modernc.org/libc v1.74.3 // indirect
	modernc.org/mathutil v1.7.1 // indirect
	modernc.org/memory v1.11.0 // indirect
	modernc.org/sqlite v1.54.0 // indirect
)

replace github.com/openfga/openfga => /tmp/wt_try_23104
