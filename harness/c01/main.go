// Harness for C01 (Check decisions match the model's relation semantics): random validated models,
// tuple sets (with conditions, wildcards, usersets, leftovers), contextual tuples and requests run
// through the real default Check engine in a deterministic configuration (breadth limit 1, default
// strategy forced), so that the Lean model of the engine can be compared exactly.
package main

import (
	"context"
	"fmt"
	"strings"

	"github.com/openfga/openfga/internal/validation"
	"github.com/openfga/openfga/pkg/typesystem"
	"github.com/openfga/openfga/verifharness/fga"
	"github.com/openfga/openfga/verifharness/fgarun"
	"github.com/openfga/openfga/verifharness/hx"
)

// crafted shapes: the defect candidates found while proving (DESIGN §8), kept in the stream so that
// every run exercises them.
func crafted() []string {
	this := func() *fga.Rewrite { return &fga.Rewrite{Kind: "this"} }
	u := fga.Restr{Typ: "user"}
	var out []string
	mk := func(m *fga.Model, tuples []fga.Tuple, rq fga.Req) {
		ts, err := typesystem.NewAndValidate(context.Background(), m.Proto(fgarun.ModelID))
		if err != nil {
			panic("crafted model invalid: " + err.Error())
		}
		out = append(out, fmt.Sprintf("cfg 25 %d %s %s %s %s %s", b2i(m.Stratified()), m.Encode(), fga.EncodeAux(fga.Aux(m, ts, rq.User)),
			fga.EncodeTuples("tuples", tuples), fga.EncodeTuples("ctx", nil), rq.Encode()))
	}
	// F1: cycle entirely inside the subtracted operand
	f1 := &fga.Model{Types: []*fga.TypeDef{{Name: "user"},
		{Name: "team", Rels: []*fga.RelDef{{Name: "member", Rewrite: this(), Restrs: []fga.Restr{u, {Typ: "group", Rel: "member"}}}}},
		{Name: "group", Rels: []*fga.RelDef{{Name: "member", Rewrite: this(), Restrs: []fga.Restr{u, {Typ: "team", Rel: "member"}}}}},
		{Name: "doc", Rels: []*fga.RelDef{
			{Name: "blocked", Rewrite: this(), Restrs: []fga.Restr{u, {Typ: "group", Rel: "member"}}},
			{Name: "viewer", Rewrite: &fga.Rewrite{Kind: "diff", Kids: []*fga.Rewrite{this(), {Kind: "cu", Rel: "blocked"}}}, Restrs: []fga.Restr{u}},
		}}}}
	mk(f1, []fga.Tuple{
		{Obj: "group:a", Rel: "member", User: "team:b#member"}, {Obj: "team:b", Rel: "member", User: "group:a#member"},
		{Obj: "doc:1", Rel: "blocked", User: "group:a#member"}, {Obj: "doc:1", Rel: "viewer", User: "user:x"},
	}, fga.Req{Obj: "doc:1", Rel: "viewer", User: "user:x"})
	// F12: an unevaluable condition on one userset tuple is swallowed because another tuple passed
	f12 := &fga.Model{Types: []*fga.TypeDef{{Name: "user"},
		{Name: "group", Rels: []*fga.RelDef{{Name: "member", Rewrite: this(), Restrs: []fga.Restr{u}}}},
		{Name: "doc", Rels: []*fga.RelDef{
			{Name: "blocked", Rewrite: this(), Restrs: []fga.Restr{u, {Typ: "group", Rel: "member", Cond: "c1"}, {Typ: "group", Rel: "member"}}},
			{Name: "viewer", Rewrite: &fga.Rewrite{Kind: "diff", Kids: []*fga.Rewrite{this(), {Kind: "cu", Rel: "blocked"}}}, Restrs: []fga.Restr{u}},
		}}},
		Conds: []*fga.CondDef{{Name: "c1", Param: "x", Op: "lt", Const: 10}}}
	f12t := []fga.Tuple{
		{Obj: "doc:1", Rel: "viewer", User: "user:x"},
		{Obj: "doc:1", Rel: "blocked", User: "group:a#member", Cond: "c1"},
		{Obj: "doc:1", Rel: "blocked", User: "group:b#member"},
		{Obj: "group:a", Rel: "member", User: "user:x"},
	}
	mk(f12, f12t, fga.Req{Obj: "doc:1", Rel: "viewer", User: "user:x"})
	mk(f12, f12t, fga.Req{Obj: "doc:1", Rel: "blocked", User: "user:x"})
	// an error (depth limit) in an earlier dispatched branch must not hide a later `true`
	deep := &fga.Model{Types: []*fga.TypeDef{{Name: "user"},
		{Name: "group", Rels: []*fga.RelDef{{Name: "member", Rewrite: this(), Restrs: []fga.Restr{u, {Typ: "group", Rel: "member"}}}}},
		{Name: "doc", Rels: []*fga.RelDef{{Name: "viewer", Rewrite: this(), Restrs: []fga.Restr{{Typ: "group", Rel: "member"}}}}}}}
	deept := []fga.Tuple{
		{Obj: "doc:1", Rel: "viewer", User: "group:a#member"}, {Obj: "doc:1", Rel: "viewer", User: "group:z#member"},
		{Obj: "group:a", Rel: "member", User: "group:b#member"}, {Obj: "group:b", Rel: "member", User: "group:c#member"},
		{Obj: "group:c", Rel: "member", User: "group:d#member"}, {Obj: "group:d", Rel: "member", User: "group:e#member"},
		{Obj: "group:e", Rel: "member", User: "group:f#member"}, {Obj: "group:z", Rel: "member", User: "user:x"},
	}
	{
		ts, err := typesystem.NewAndValidate(context.Background(), deep.Proto(fgarun.ModelID))
		if err != nil {
			panic(err)
		}
		rq := fga.Req{Obj: "doc:1", Rel: "viewer", User: "user:x"}
		for _, d := range []int{3, 4, 5} {
			out = append(out, fmt.Sprintf("cfg %d 1 %s %s %s %s %s", d, deep.Encode(), fga.EncodeAux(fga.Aux(deep, ts, rq.User)),
				fga.EncodeTuples("tuples", deept), fga.EncodeTuples("ctx", nil), rq.Encode()))
		}
	}
	// a tuple left over from an older model version: unconditioned userset tuple where the current model
	// only allows that userset WITH a condition (and another, unconditioned userset of the same type)
	stale := &fga.Model{Types: []*fga.TypeDef{{Name: "user"},
		{Name: "group", Rels: []*fga.RelDef{{Name: "member", Rewrite: this(), Restrs: []fga.Restr{u}}, {Name: "admin", Rewrite: this(), Restrs: []fga.Restr{u}}}},
		{Name: "doc", Rels: []*fga.RelDef{{Name: "viewer", Rewrite: this(), Restrs: []fga.Restr{{Typ: "group", Rel: "member", Cond: "c1"}, {Typ: "group", Rel: "admin"}}}}}},
		Conds: []*fga.CondDef{{Name: "c1", Param: "x", Op: "lt", Const: 10}}}
	stalet := []fga.Tuple{{Obj: "doc:1", Rel: "viewer", User: "group:g#member"}, {Obj: "group:g", Rel: "member", User: "user:x"},
		{Obj: "doc:2", Rel: "viewer", User: "group:g#admin", Cond: "c1", Ctx: []fga.KV{{K: "x", V: 1}}}, {Obj: "group:g", Rel: "admin", User: "user:x"}}
	mk(stale, stalet, fga.Req{Obj: "doc:1", Rel: "viewer", User: "user:x", Ctx: []fga.KV{{K: "x", V: 1}}})
	mk(stale, stalet, fga.Req{Obj: "doc:1", Rel: "viewer", User: "group:g#member"})
	mk(stale, stalet, fga.Req{Obj: "doc:2", Rel: "viewer", User: "user:x"})
	return out
}

func gen(r *hx.Rand, n int, tier string, emit func(string), st *hx.Stats) {
	for _, c := range crafted() {
		emit(c)
		st.Inc("crafted")
	}
	for i := 0; i < n; {
		c := r.Fork()
		opts := fga.DefaultOpts()
		m, ts := fga.GenModel(c, opts)
		if len(m.Types) < 2 {
			continue
		}
		nt := 3 + c.Intn(16)
		tuples := fga.GenTuples(c, m, nt)
		strat := m.Stratified()
		// several requests per world
		for k := 0; k < 4 && i < n; k++ {
			rq := fga.GenReq(c, m, tuples)
			var ctxT []fga.Tuple
			if c.Chance(1, 3) {
				seen := map[string]bool{}
				for _, t := range tuples {
					seen[t.String()] = true
				}
				for j := 0; j < 1+c.Intn(3); j++ {
					t, ok := fga.GenTuple(c, m)
					if !ok || seen[t.String()] {
						continue
					}
					if validation.ValidateTupleForWrite(ts, t.Key()) != nil {
						continue
					}
					seen[t.String()] = true
					ctxT = append(ctxT, t)
				}
			}
			depth := 25
			if c.Chance(1, 6) {
				depth = 2 + c.Intn(5)
			}
			aux := fga.Aux(m, ts, rq.User)
			line := fmt.Sprintf("cfg %d %d %s %s %s %s %s", depth, b2i(strat), m.Encode(), fga.EncodeAux(aux),
				fga.EncodeTuples("tuples", tuples), fga.EncodeTuples("ctx", ctxT), rq.Encode())
			emit(line)
			i++
			st.Inc("cases")
			if !strat {
				st.Inc("nonstratified")
			}
			if m.HasKind("diff") {
				st.Inc("with-exclusion")
			}
			if m.HasKind("inter") {
				st.Inc("with-intersection")
			}
			if m.HasKind("ttu") {
				st.Inc("with-ttu")
			}
			if len(m.Conds) > 0 {
				st.Inc("with-conditions")
			}
			if len(ctxT) > 0 {
				st.Inc("with-contextual")
			}
			if strings.Contains(rq.User, "#") {
				st.Inc("subject-userset")
			} else if strings.HasSuffix(rq.User, ":*") {
				st.Inc("subject-wildcard")
			} else {
				st.Inc("subject-object")
			}
			if depth != 25 {
				st.Inc("low-depth-limit")
			}
		}
	}
}

func b2i(b bool) int {
	if b {
		return 1
	}
	return 0
}

func exec(line string, st *hx.Stats) string {
	t := fga.NewToks(line)
	t.Expect("cfg")
	depth := t.Int()
	_ = t.Int()
	m := fga.DecodeModel(t)
	fga.SkipAux(t)
	tuples := fga.DecodeTuples(t, "tuples")
	ctxT := fga.DecodeTuples(t, "ctx")
	rq := fga.DecodeReq(t)
	ts, err := typesystem.NewAndValidate(context.Background(), m.Proto(fgarun.ModelID))
	if err != nil {
		return "invalid-model"
	}
	ds := fgarun.Store(tuples)
	defer ds.Close()
	out := fgarun.Check(ts, ds, fgarun.Config{MaxDepth: uint32(depth), Breadth: 1, Strategy: "default"}, rq, ctxT, nil)
	st.Inc("out:" + strings.Fields(out)[0] + " " + strings.Join(strings.Fields(out)[1:2], ""))
	return out
}

func main() { hx.Main(hx.Harness{Gen: gen, Exec: exec}) }
