// Harness for C02 (answers do not depend on strategy or tuning): every case of the C01 input space is
// evaluated by the real engine under every forced planner strategy (default, weight2, recursive),
// several breadth limits, repeated and concurrently; the output lists the set of answer classes seen
// per strategy.  The Lean driver requires all of them to be one class, equal to the reference oracle.
package main

import (
	"context"
	"fmt"
	"sort"
	"strings"
	"sync"
	"time"

	"github.com/openfga/openfga/internal/validation"
	"github.com/openfga/openfga/pkg/typesystem"
	"github.com/openfga/openfga/verifharness/fga"
	"github.com/openfga/openfga/verifharness/fgarun"
	"github.com/openfga/openfga/verifharness/hx"
)

func b2i(b bool) int {
	if b {
		return 1
	}
	return 0
}

// crafted: F9 (de-duplication by object before the condition filter shadows a valid wildcard tuple)
func crafted() []string {
	this := func() *fga.Rewrite { return &fga.Rewrite{Kind: "this"} }
	m := &fga.Model{Types: []*fga.TypeDef{{Name: "user"},
		{Name: "group", Rels: []*fga.RelDef{{Name: "member", Rewrite: this(), Restrs: []fga.Restr{{Typ: "user", Cond: "c1"}, {Typ: "user", Wild: true}}}}},
		{Name: "doc", Rels: []*fga.RelDef{{Name: "viewer", Rewrite: this(), Restrs: []fga.Restr{{Typ: "group", Rel: "member"}}}}}},
		Conds: []*fga.CondDef{{Name: "c1", Param: "x", Op: "lt", Const: 10}}}
	ts, err := typesystem.NewAndValidate(context.Background(), m.Proto(fgarun.ModelID))
	if err != nil {
		panic(err)
	}
	tuples := []fga.Tuple{
		{Obj: "group:g", Rel: "member", User: "user:x", Cond: "c1", Ctx: []fga.KV{{K: "x", V: 20}}},
		{Obj: "group:g", Rel: "member", User: "user:*"},
		{Obj: "doc:1", Rel: "viewer", User: "group:g#member"},
	}
	rq := fga.Req{Obj: "doc:1", Rel: "viewer", User: "user:x"}
	out := []string{fmt.Sprintf("cfg 25 1 %s %s %s %s %s", m.Encode(), fga.EncodeAux(fga.Aux(m, ts, rq.User)),
		fga.EncodeTuples("tuples", tuples), fga.EncodeTuples("ctx", nil), rq.Encode())}
	// tuple-to-userset with several parent types, one of which needs deeper resolution than the weight-two
	// fast path can offer: the strategy must not be offered (or must agree)
	{
		u := fga.Restr{Typ: "user"}
		pm := &fga.Model{Types: []*fga.TypeDef{{Name: "user"},
			{Name: "group", Rels: []*fga.RelDef{{Name: "member", Rewrite: this(), Restrs: []fga.Restr{u}}}},
			{Name: "folder", Rels: []*fga.RelDef{{Name: "viewer", Rewrite: this(), Restrs: []fga.Restr{u}}}},
			{Name: "org", Rels: []*fga.RelDef{{Name: "viewer", Rewrite: this(), Restrs: []fga.Restr{{Typ: "group", Rel: "member"}}}}},
			{Name: "doc", Rels: []*fga.RelDef{
				{Name: "parent", Rewrite: this(), Restrs: []fga.Restr{{Typ: "folder"}, {Typ: "org"}}},
				{Name: "viewer", Rewrite: &fga.Rewrite{Kind: "ttu", Tupleset: "parent", Computed: "viewer"}}}}}}
		pts, err := typesystem.NewAndValidate(context.Background(), pm.Proto(fgarun.ModelID))
		if err != nil {
			panic(err)
		}
		pt := []fga.Tuple{
			{Obj: "doc:1", Rel: "parent", User: "org:o"}, {Obj: "org:o", Rel: "viewer", User: "group:g#member"},
			{Obj: "group:g", Rel: "member", User: "user:x"}, {Obj: "doc:2", Rel: "parent", User: "folder:f"},
			{Obj: "folder:f", Rel: "viewer", User: "user:x"}, {Obj: "doc:3", Rel: "parent", User: "folder:f"},
			{Obj: "doc:3", Rel: "parent", User: "org:o"},
		}
		for _, o := range []string{"doc:1", "doc:2", "doc:3"} {
			prq := fga.Req{Obj: o, Rel: "viewer", User: "user:x"}
			out = append(out, fmt.Sprintf("cfg 25 1 %s %s %s %s %s", pm.Encode(), fga.EncodeAux(fga.Aux(pm, pts, prq.User)),
				fga.EncodeTuples("tuples", pt), fga.EncodeTuples("ctx", nil), prq.Encode()))
		}
	}
	// large fan-out through the weight-two set operations (several batches of the fast-path streams):
	// member = (a or b) but not c / (a and b), the subject is in a few hundred groups, the document
	// names one of the LAST ones.
	for _, kind := range []string{"diff", "inter", "union"} {
		var mem *fga.Rewrite
		ab := &fga.Rewrite{Kind: "union", Kids: []*fga.Rewrite{{Kind: "cu", Rel: "a"}, {Kind: "cu", Rel: "b"}}}
		switch kind {
		case "diff":
			mem = &fga.Rewrite{Kind: "diff", Kids: []*fga.Rewrite{ab, {Kind: "cu", Rel: "c"}}}
		case "inter":
			mem = &fga.Rewrite{Kind: "inter", Kids: []*fga.Rewrite{{Kind: "cu", Rel: "a"}, {Kind: "cu", Rel: "b"}}}
		default:
			mem = ab
		}
		u := fga.Restr{Typ: "user"}
		bm := &fga.Model{Types: []*fga.TypeDef{{Name: "user"},
			{Name: "group", Rels: []*fga.RelDef{
				{Name: "a", Rewrite: this(), Restrs: []fga.Restr{u}}, {Name: "b", Rewrite: this(), Restrs: []fga.Restr{u}},
				{Name: "c", Rewrite: this(), Restrs: []fga.Restr{u}}, {Name: "member", Rewrite: mem}}},
			{Name: "doc", Rels: []*fga.RelDef{{Name: "viewer", Rewrite: this(), Restrs: []fga.Restr{{Typ: "group", Rel: "member"}}}}}}}
		bts, err := typesystem.NewAndValidate(context.Background(), bm.Proto(fgarun.ModelID))
		if err != nil {
			panic(err)
		}
		var bt []fga.Tuple
		for i := 0; i < 260; i++ {
			g := fmt.Sprintf("group:g%03d", i)
			bt = append(bt, fga.Tuple{Obj: g, Rel: "a", User: "user:x"})
			if i%2 == 0 || kind == "inter" {
				bt = append(bt, fga.Tuple{Obj: g, Rel: "b", User: "user:x"})
			}
			if i%7 == 0 && (kind != "diff" || i < 8) {
				// under `diff` the subtracted stream ends early (only the first groups)
				bt = append(bt, fga.Tuple{Obj: g, Rel: "c", User: "user:x"})
			}
		}
		bt = append(bt, fga.Tuple{Obj: "doc:1", Rel: "viewer", User: "group:g257#member"})
		bt = append(bt, fga.Tuple{Obj: "doc:2", Rel: "viewer", User: "group:g252#member"}) // 252 = 7*36: excluded under diff
		bt = append(bt, fga.Tuple{Obj: "doc:3", Rel: "viewer", User: "group:g005#member"}) // an EARLY group
		for _, o := range []string{"doc:1", "doc:2", "doc:3"} {
			brq := fga.Req{Obj: o, Rel: "viewer", User: "user:x"}
			out = append(out, fmt.Sprintf("cfg 25 1 %s %s %s %s %s", bm.Encode(), fga.EncodeAux(fga.Aux(bm, bts, brq.User)),
				fga.EncodeTuples("tuples", bt), fga.EncodeTuples("ctx", nil), brq.Encode()))
		}
	}
	return out
}

func gen(r *hx.Rand, n int, tier string, emit func(string), st *hx.Stats) {
	for _, c := range crafted() {
		emit(c)
		st.Inc("crafted")
	}
	// families aimed at the fast paths (see strategies.go): about a sixth of the budget
	nb := n / 6
	if nb < 12 {
		nb = 12
	}
	if nb > 600 {
		nb = 600 // thorough tier: the large fan-out cases are slow (48 real Check runs each)
	}
	for i := 0; i < nb; i++ {
		c := r.Fork()
		line, kind := genBiased(c, i)
		emit(line)
		st.Inc("biased:" + kind)
	}
	for i := 0; i < n; {
		c := r.Fork()
		m, ts := fga.GenModel(c, fga.DefaultOpts())
		if c.Chance(2, 3) {
			m, ts = fga.GenStrategyModel(c)
			st.Inc("strategy-model")
		}
		if len(m.Types) < 2 {
			continue
		}
		tuples := fga.GenTuples(c, m, 3+c.Intn(22))
		strat := m.Stratified()
		for k := 0; k < 3 && i < n; k++ {
			rq := fga.GenReq(c, m, tuples)
			var ctxT []fga.Tuple
			if c.Chance(1, 4) {
				seen := map[string]bool{}
				for _, t := range tuples {
					seen[t.String()] = true
				}
				for j := 0; j < 1+c.Intn(2); j++ {
					t, ok := fga.GenTuple(c, m)
					if !ok || seen[t.String()] || validation.ValidateTupleForWrite(ts, t.Key()) != nil {
						continue
					}
					seen[t.String()] = true
					ctxT = append(ctxT, t)
				}
			}
			aux := fga.Aux(m, ts, rq.User)
			emit(fmt.Sprintf("cfg 25 %d %s %s %s %s %s", b2i(strat), m.Encode(), fga.EncodeAux(aux),
				fga.EncodeTuples("tuples", tuples), fga.EncodeTuples("ctx", ctxT), rq.Encode()))
			i++
			st.Inc("cases")
			for k, v := range aux {
				if v && (strings.HasPrefix(k, "w2:") || strings.HasPrefix(k, "tw2:")) {
					st.Inc("weight2-applicable")
					break
				}
			}
			for k, v := range aux {
				if v && (strings.HasPrefix(k, "urec:") || strings.HasPrefix(k, "trec:")) {
					st.Inc("recursive-applicable")
					break
				}
			}
		}
	}
}

func class(out string) string {
	f := strings.Fields(out)
	if f[0] == "E" {
		return "E" + f[1]
	}
	return f[0]
}

func exec(line string, st *hx.Stats) string {
	t := fga.NewToks(line)
	t.Expect("cfg")
	depth := t.Int()
	_ = t.Int()
	m := fga.DecodeModel(t)
	fga.SkipAux(t)
	tuples := fga.DecodeTuples(t, "tuples")
	ctxT := fga.DecodeTuples(t, "ctx")
	rq := fga.DecodeReq(t)
	ts, err := typesystem.NewAndValidate(context.Background(), m.Proto(fgarun.ModelID))
	if err != nil {
		return "invalid-model"
	}
	ds := fgarun.Store(tuples)
	defer ds.Close()
	var parts []string
	offered := map[string]bool{}
	for _, strat := range []string{"default", "weight2", "recursive"} {
		seen := map[string]bool{}
		var mu sync.Mutex
		add := func(o string) {
			mu.Lock()
			seen[class(o)] = true
			mu.Unlock()
		}
		for _, br := range []uint32{1, 3, 25} {
			for rep := 0; rep < 2; rep++ {
				pl := &fgarun.ForcedPlanner{Want: strat, Offered: offered}
				add(fgarun.Check(ts, ds, fgarun.Config{MaxDepth: uint32(depth), Breadth: br, Strategy: strat}, rq, ctxT, pl))
			}
		}
		if len(tuples) > 200 {
			// large fan-out cases: once more with a slow right-hand side (the consumer lags the producers)
			slow := fgarun.SlowReads{OpenFGADatastore: ds, Delay: 250 * time.Millisecond}
			add(fgarun.Check(ts, slow, fgarun.Config{MaxDepth: uint32(depth), Breadth: 25, Strategy: strat}, rq, ctxT, &fgarun.ForcedPlanner{Want: strat}))
		}
		var wg sync.WaitGroup
		for g := 0; g < 8; g++ {
			wg.Add(1)
			go func() {
				defer wg.Done()
				add(fgarun.Check(ts, ds, fgarun.Config{MaxDepth: uint32(depth), Breadth: 25, Strategy: strat}, rq, ctxT, &fgarun.ForcedPlanner{Want: strat}))
			}()
		}
		wg.Wait()
		var cs []string
		for c := range seen {
			cs = append(cs, c)
		}
		sort.Strings(cs)
		parts = append(parts, strat+":"+strings.Join(cs, "|"))
	}
	// exact correspondence of the strategy models: breadth limit 1, strategy forced, full outcome incl. error kind
	for _, strat := range []string{"default", "weight2", "recursive"} {
		seen := map[string]bool{}
		for rep := 0; rep < 2; rep++ {
			seen[class(fgarun.Check(ts, ds, fgarun.Config{MaxDepth: uint32(depth), Breadth: 1, Strategy: strat}, rq, ctxT, &fgarun.ForcedPlanner{Want: strat}))] = true
		}
		var cs []string
		for c := range seen {
			cs = append(cs, c)
		}
		sort.Strings(cs)
		parts = append(parts, "b1"+strat+":"+strings.Join(cs, "|"))
	}
	off := fgarun.OfferedSnapshot(offered)
	for _, o := range off {
		st.Inc("offered:" + o)
	}
	return strings.Join(parts, " ") + " offered:" + strings.Join(off, ",")
}

func main() { hx.Main(hx.Harness{Gen: gen, Exec: exec}) }
