// Generator families aimed at the two fast-path strategies of the default engine (weight-two set
// operations over sorted streams, recursive breadth-first resolver): fan-out across the batch boundaries
// of the stream operations, duplicates across streams, conditions / wildcards / contextual tuples on the
// left-hand side, recursive chains around the depth limit, cycles, and userset / parent tuples that the
// recursive resolver must not follow.
package main

import (
	"context"
	"fmt"

	"github.com/openfga/openfga/pkg/typesystem"
	"github.com/openfga/openfga/verifharness/fga"
	"github.com/openfga/openfga/verifharness/fgarun"
	"github.com/openfga/openfga/verifharness/hx"
)

func this() *fga.Rewrite         { return &fga.Rewrite{Kind: "this"} }
func cu(rel string) *fga.Rewrite { return &fga.Rewrite{Kind: "cu", Rel: rel} }

func caseLine(depth int, m *fga.Model, tuples, ctxT []fga.Tuple, rq fga.Req) string {
	ts, err := typesystem.NewAndValidate(context.Background(), m.Proto(fgarun.ModelID))
	if err != nil {
		panic(fmt.Sprintf("biased generator produced an invalid model: %v", err))
	}
	strat := 0
	if m.Stratified() {
		strat = 1
	}
	return fmt.Sprintf("cfg %d %d %s %s %s %s %s", depth, strat, m.Encode(), fga.EncodeAux(fga.Aux(m, ts, rq.User)),
		fga.EncodeTuples("tuples", tuples), fga.EncodeTuples("ctx", ctxT), rq.Encode())
}

// setOp builds `member` as a random set expression (depth ≤ 2) over the directly assignable relations a, b, c.
func setOp(r *hx.Rand, d int) *fga.Rewrite {
	if d >= 2 || r.Chance(1, 3) {
		return cu(hx.Pick(r, []string{"a", "b", "c"}))
	}
	k := hx.Pick(r, []string{"union", "inter", "diff"})
	return &fga.Rewrite{Kind: k, Kids: []*fga.Rewrite{setOp(r, d+1), setOp(r, d+1)}}
}

// fanOut: the subject is in N groups (N around the batch boundaries of the fast-path set operations), with
// per-relation membership patterns that create duplicates across streams and streams that end early;
// the document names a group at a chosen position (first, last, around the boundary).
func fanOut(r *hx.Rand) (string, string) {
	u := fga.Restr{Typ: "user"}
	withCond := r.Chance(1, 3)
	withWild := r.Chance(1, 3)
	direct := func(name string) *fga.RelDef {
		rd := &fga.RelDef{Name: name, Rewrite: this(), Restrs: []fga.Restr{u}}
		if withCond {
			rd.Restrs = append(rd.Restrs, fga.Restr{Typ: "user", Cond: "c1"})
		}
		if withWild {
			rd.Restrs = append(rd.Restrs, fga.Restr{Typ: "user", Wild: true})
		}
		return rd
	}
	m := &fga.Model{Types: []*fga.TypeDef{{Name: "user"},
		{Name: "group", Rels: []*fga.RelDef{direct("a"), direct("b"), direct("c"), {Name: "member", Rewrite: setOp(r, 0)}}},
		{Name: "doc", Rels: []*fga.RelDef{{Name: "viewer", Rewrite: this(), Restrs: []fga.Restr{{Typ: "group", Rel: "member"}}}}}}}
	if withCond {
		m.Conds = []*fga.CondDef{{Name: "c1", Param: "x", Op: "lt", Const: 10}}
	}
	n := hx.Pick(r, []int{99, 100, 101, 102, 103, 199, 200, 201, 202, 203, 204, 303})
	var tuples []fga.Tuple
	pa, pb, pc := 1+r.Intn(3), 1+r.Intn(4), 2+r.Intn(9)
	cutB, cutC := r.Intn(n+1), r.Intn(n+1) // relations b and c stop early: their streams end before a's
	for i := 0; i < n; i++ {
		g := fmt.Sprintf("group:g%04d", i)
		add := func(rel string) {
			t := fga.Tuple{Obj: g, Rel: rel, User: "user:x"}
			if withCond && r.Chance(1, 7) {
				t.Cond = "c1"
				t.Ctx = []fga.KV{{K: "x", V: hx.Pick(r, []int{5, 20})}}
			}
			if withWild && r.Chance(1, 9) {
				// wildcard and concrete tuple on one object, either order in the store
				w := fga.Tuple{Obj: g, Rel: rel, User: "user:*"}
				if r.Chance(1, 2) {
					tuples = append(tuples, w, t)
				} else {
					tuples = append(tuples, t, w)
				}
				return
			}
			tuples = append(tuples, t)
		}
		if i%pa == 0 {
			add("a")
		}
		if i%pb == 0 && i < cutB {
			add("b")
		}
		if i%pc == 0 && i < cutC {
			add("c")
		}
	}
	// shuffle the store order a little: the datastore sorts, the combined iterator merges
	for i := len(tuples) - 1; i > 0; i-- {
		if r.Chance(1, 3) {
			j := r.Intn(i + 1)
			tuples[i], tuples[j] = tuples[j], tuples[i]
		}
	}
	pos := hx.Pick(r, []int{0, 1, 99, 100, 101, 102, n - 2, n - 1, r.Intn(n)})
	if pos < 0 || pos >= n {
		pos = n - 1
	}
	tuples = append(tuples, fga.Tuple{Obj: "doc:1", Rel: "viewer", User: fmt.Sprintf("group:g%04d#member", pos)})
	var ctxT []fga.Tuple
	if r.Chance(1, 3) {
		// contextual tuples on the left-hand side (merged by the ordered combined iterator)
		for k := 0; k < 1+r.Intn(3); k++ {
			ctxT = append(ctxT, fga.Tuple{Obj: fmt.Sprintf("group:g%04d", (pos+k*7)%n), Rel: hx.Pick(r, []string{"a", "b", "c"}), User: "user:x"})
		}
		ctxT = dedupKeys(ctxT, tuples)
	}
	rq := fga.Req{Obj: "doc:1", Rel: "viewer", User: "user:x"}
	if withCond && r.Chance(2, 3) {
		rq.Ctx = []fga.KV{{K: "x", V: hx.Pick(r, []int{5, 20})}}
	}
	return caseLine(25, m, tuples, ctxT, rq), "fanout"
}

func dedupKeys(ctxT, stored []fga.Tuple) []fga.Tuple {
	seen := map[string]bool{}
	for _, t := range stored {
		seen[t.String()] = true
	}
	var out []fga.Tuple
	for _, t := range ctxT {
		if !seen[t.String()] {
			seen[t.String()] = true
			out = append(out, t)
		}
	}
	return out
}

// smallLeft: few objects, every combination of {own tuple, wildcard tuple} × {no condition, met, not met,
// unevaluable} on one object and relation, stored or contextual: the F9 neighbourhood.
func smallLeft(r *hx.Rand) (string, string) {
	m := &fga.Model{Types: []*fga.TypeDef{{Name: "user"},
		{Name: "group", Rels: []*fga.RelDef{
			{Name: "a", Rewrite: this(), Restrs: []fga.Restr{{Typ: "user"}, {Typ: "user", Cond: "c1"}, {Typ: "user", Wild: true}, {Typ: "user", Wild: true, Cond: "c1"}}},
			{Name: "b", Rewrite: this(), Restrs: []fga.Restr{{Typ: "user"}, {Typ: "user", Wild: true}}},
			{Name: "member", Rewrite: hx.Pick(r, []*fga.Rewrite{cu("a"),
				{Kind: "union", Kids: []*fga.Rewrite{cu("a"), cu("b")}},
				{Kind: "inter", Kids: []*fga.Rewrite{cu("a"), cu("b")}},
				{Kind: "diff", Kids: []*fga.Rewrite{cu("b"), cu("a")}},
				{Kind: "diff", Kids: []*fga.Rewrite{cu("a"), cu("b")}}})}}},
		{Name: "folder", Rels: []*fga.RelDef{{Name: "owner", Rewrite: this(), Restrs: []fga.Restr{{Typ: "group"}}},
			{Name: "can", Rewrite: &fga.Rewrite{Kind: "ttu", Tupleset: "owner", Computed: "member"}}}},
		{Name: "doc", Rels: []*fga.RelDef{{Name: "viewer", Rewrite: this(), Restrs: []fga.Restr{{Typ: "group", Rel: "member"}}}}}},
		Conds: []*fga.CondDef{{Name: "c1", Param: "x", Op: "lt", Const: 10}}}
	var tuples, ctxT []fga.Tuple
	mk := func(g, rel, user string) fga.Tuple {
		t := fga.Tuple{Obj: g, Rel: rel, User: user}
		if rel == "a" {
			switch r.Intn(4) {
			case 0:
				t.Cond, t.Ctx = "c1", []fga.KV{{K: "x", V: 5}}
			case 1:
				t.Cond, t.Ctx = "c1", []fga.KV{{K: "x", V: 20}}
			case 2:
				t.Cond = "c1" // evaluated against the request context (possibly missing)
			}
		}
		return t
	}
	for _, g := range []string{"group:g1", "group:g2", "group:g3"} {
		for _, rel := range []string{"a", "b"} {
			for _, user := range []string{"user:x", "user:*"} {
				if r.Chance(1, 2) {
					t := mk(g, rel, user)
					if r.Chance(1, 4) {
						ctxT = append(ctxT, t)
					} else {
						tuples = append(tuples, t)
					}
				}
			}
		}
	}
	for i := len(tuples) - 1; i > 0; i-- {
		j := r.Intn(i + 1)
		tuples[i], tuples[j] = tuples[j], tuples[i]
	}
	g := hx.Pick(r, []string{"group:g1", "group:g2", "group:g3"})
	tuples = append(tuples, fga.Tuple{Obj: "doc:1", Rel: "viewer", User: g + "#member"}, fga.Tuple{Obj: "folder:1", Rel: "owner", User: g})
	rq := fga.Req{Obj: "doc:1", Rel: "viewer", User: "user:x"}
	if r.Chance(1, 2) {
		rq = fga.Req{Obj: "folder:1", Rel: "can", User: "user:x"}
	}
	if r.Chance(2, 3) {
		rq.Ctx = []fga.KV{{K: "x", V: hx.Pick(r, []int{5, 20})}}
	}
	return caseLine(25, m, tuples, ctxT, rq), "small-left"
}

// chains: recursive userset / tuple-to-userset relations with chains around the depth limit, cycles, and
// edges the recursive resolver must not follow (another relation of the same type, a parent of another type).
func chains(r *hx.Rand) (string, string) {
	ttu := r.Chance(1, 2)
	depth := hx.Pick(r, []int{25, 25, 8})
	length := depth - 4 + r.Intn(8)
	if r.Chance(1, 3) {
		length = 1 + r.Intn(5)
	}
	var m *fga.Model
	var tuples []fga.Tuple
	var rq fga.Req
	node := func(i int) string { return fmt.Sprintf("group:n%02d", i) }
	if !ttu {
		m = &fga.Model{Types: []*fga.TypeDef{{Name: "user"}, {Name: "employee"},
			{Name: "group", Rels: []*fga.RelDef{
				{Name: "other", Rewrite: this(), Restrs: []fga.Restr{{Typ: "employee"}}},
				{Name: "member", Rewrite: this(), Restrs: []fga.Restr{{Typ: "user"}, {Typ: "group", Rel: "member"}, {Typ: "group", Rel: "other"}}}}}}}
		for i := 0; i+1 < length; i++ {
			tuples = append(tuples, fga.Tuple{Obj: node(i), Rel: "member", User: node(i+1) + "#member"})
		}
		rq = fga.Req{Obj: node(0), Rel: "member", User: "user:x"}
	} else {
		node = func(i int) string { return fmt.Sprintf("folder:n%02d", i) }
		m = &fga.Model{Types: []*fga.TypeDef{{Name: "user"}, {Name: "employee"},
			{Name: "org", Rels: []*fga.RelDef{{Name: "parent", Rewrite: this(), Restrs: []fga.Restr{{Typ: "folder"}}},
				{Name: "viewer", Rewrite: this(), Restrs: []fga.Restr{{Typ: "employee"}}}}},
			{Name: "folder", Rels: []*fga.RelDef{{Name: "parent", Rewrite: this(), Restrs: []fga.Restr{{Typ: "folder"}, {Typ: "org"}}},
				{Name: "viewer", Rewrite: &fga.Rewrite{Kind: "union", Kids: []*fga.Rewrite{this(), {Kind: "ttu", Tupleset: "parent", Computed: "viewer"}}},
					Restrs: []fga.Restr{{Typ: "user"}}}}}}}
		for i := 0; i+1 < length; i++ {
			tuples = append(tuples, fga.Tuple{Obj: node(i), Rel: "parent", User: node(i + 1)})
		}
		rq = fga.Req{Obj: node(0), Rel: "viewer", User: "user:x"}
	}
	rel := rq.Rel
	// where the subject sits: at the end of the chain, in the middle, nowhere
	switch r.Intn(4) {
	case 0, 1:
		tuples = append(tuples, fga.Tuple{Obj: node(length - 1), Rel: rel, User: "user:x"})
	case 2:
		tuples = append(tuples, fga.Tuple{Obj: node(r.Intn(length)), Rel: rel, User: "user:x"})
	}
	// cycles and diamonds
	if length > 2 && r.Chance(1, 2) {
		a, b := r.Intn(length), r.Intn(length)
		if !ttu {
			tuples = append(tuples, fga.Tuple{Obj: node(a), Rel: "member", User: node(b) + "#member"})
		} else {
			tuples = append(tuples, fga.Tuple{Obj: node(a), Rel: "parent", User: node(b)})
		}
	}
	// edges that must not be followed
	if r.Chance(1, 2) {
		side := node(50 + r.Intn(3))
		tuples = append(tuples, fga.Tuple{Obj: side, Rel: rel, User: "user:x"})
		at := node(r.Intn(length))
		if !ttu {
			tuples = append(tuples, fga.Tuple{Obj: at, Rel: "member", User: side + "#other"})
		} else {
			tuples = append(tuples, fga.Tuple{Obj: at, Rel: "parent", User: "org:o"}, fga.Tuple{Obj: "org:o", Rel: "parent", User: side})
		}
	}
	tuples = dedupKeys(tuples, nil)
	for i := len(tuples) - 1; i > 0; i-- {
		if r.Chance(1, 2) {
			j := r.Intn(i + 1)
			tuples[i], tuples[j] = tuples[j], tuples[i]
		}
	}
	return caseLine(depth, m, tuples, nil, rq), "chains"
}

func genBiased(r *hx.Rand, i int) (string, string) {
	switch i % 4 {
	case 0:
		return fanOut(r)
	case 1, 2:
		return smallLeft(r)
	default:
		return chains(r)
	}
}
