package main

import (
	"context"
	"fmt"

	authzGraph "github.com/openfga/language/pkg/go/graph"

	"github.com/openfga/openfga/pkg/typesystem"
	"github.com/openfga/openfga/verifharness/fga"
	"github.com/openfga/openfga/verifharness/fgarun"
	"github.com/openfga/openfga/verifharness/hx"
)

var (
	fmtErrTupleCycle        = authzGraph.ErrTupleCycle
	errConstraintTupleCycle = authzGraph.ErrContrainstTupleCycle
	errModelCycle           = authzGraph.ErrModelCycle
	errInvalidModel         = authzGraph.ErrInvalidModel
)

func this() *fga.Rewrite                { return &fga.Rewrite{Kind: "this"} }
func cu(r string) *fga.Rewrite          { return &fga.Rewrite{Kind: "cu", Rel: r} }
func ttu(ts, c string) *fga.Rewrite     { return &fga.Rewrite{Kind: "ttu", Tupleset: ts, Computed: c} }
func un(k ...*fga.Rewrite) *fga.Rewrite { return &fga.Rewrite{Kind: "union", Kids: k} }
func in(k ...*fga.Rewrite) *fga.Rewrite { return &fga.Rewrite{Kind: "inter", Kids: k} }
func df(b, s *fga.Rewrite) *fga.Rewrite {
	return &fga.Rewrite{Kind: "diff", Kids: []*fga.Rewrite{b, s}}
}

// genCycleModel builds models whose weighted graph has tuple cycles and recursive relations made of
// usersets and tuple-to-usersets (unions only inside the cycle, as the graph builder demands), with
// conditions on the cycle edges, wildcards, and intersections / exclusions hanging off the cycle.
// The names are those of harness/fga's vocabulary so that GenTuples / GenReq produce connected data.
func genCycleModel(r *hx.Rand) (*fga.Model, *typesystem.TypeSystem) {
	for try := 0; ; try++ {
		m := &fga.Model{Types: []*fga.TypeDef{{Name: "user"}}}
		if r.Chance(2, 3) {
			m.Conds = append(m.Conds, &fga.CondDef{Name: "c1", Param: "x", Op: hx.Pick(r, []string{"lt", "ge"}), Const: 10})
		}
		cond := func() string {
			if len(m.Conds) > 0 && r.Chance(1, 3) {
				return "c1"
			}
			return ""
		}
		u := func() []fga.Restr {
			rs := []fga.Restr{{Typ: "user", Cond: cond()}}
			if r.Chance(1, 4) {
				rs = append(rs, fga.Restr{Typ: "user", Wild: true, Cond: cond()})
			}
			if r.Chance(1, 6) && len(m.Conds) > 0 {
				rs = append(rs, fga.Restr{Typ: "user", Cond: "c1"})
			}
			return rs
		}
		dedup := func(rs []fga.Restr) []fga.Restr {
			seen := map[fga.Restr]bool{}
			var out []fga.Restr
			for _, x := range rs {
				if !seen[x] {
					seen[x] = true
					out = append(out, x)
				}
			}
			return out
		}
		// group#member <-> team#member userset cycle (optionally self-recursive as well)
		gm := append(u(), fga.Restr{Typ: "team", Rel: "member", Cond: cond()})
		if r.Chance(1, 3) {
			gm = append(gm, fga.Restr{Typ: "group", Rel: "member", Cond: cond()})
		}
		if r.Chance(1, 3) {
			gm = append(gm, fga.Restr{Typ: "team", Rel: "member", Cond: "c1"})
			if len(m.Conds) == 0 {
				gm = gm[:len(gm)-1]
			}
		}
		tm := u()
		if r.Chance(4, 5) {
			tm = append(tm, fga.Restr{Typ: "group", Rel: "member", Cond: cond()})
		}
		group := &fga.TypeDef{Name: "group", Rels: []*fga.RelDef{
			{Name: "member", Rewrite: this(), Restrs: dedup(gm)},
			{Name: "owner", Rewrite: this(), Restrs: dedup(u())},
		}}
		if r.Chance(1, 2) {
			group.Rels[0].Rewrite = un(this(), cu("owner"))
		}
		team := &fga.TypeDef{Name: "team", Rels: []*fga.RelDef{
			{Name: "member", Rewrite: this(), Restrs: dedup(tm)},
		}}
		if r.Chance(1, 3) {
			team.Rels = append(team.Rels, &fga.RelDef{Name: "admin", Rewrite: this(), Restrs: dedup(u())})
			team.Rels[0].Rewrite = un(this(), cu("admin"))
		}
		// folder: recursive TTU, or a TTU tuple cycle over two relations
		fp := []fga.Restr{{Typ: "folder", Cond: cond()}}
		if r.Chance(1, 4) && len(m.Conds) > 0 {
			fp = append(fp, fga.Restr{Typ: "folder", Cond: "c1"})
		}
		folder := &fga.TypeDef{Name: "folder", Rels: []*fga.RelDef{{Name: "parent", Rewrite: this(), Restrs: dedup(fp)}}}
		switch r.Intn(3) {
		case 0:
			folder.Rels = append(folder.Rels, &fga.RelDef{Name: "viewer", Rewrite: un(this(), ttu("parent", "viewer")), Restrs: dedup(u())})
		case 1:
			folder.Rels = append(folder.Rels,
				&fga.RelDef{Name: "editor", Rewrite: un(this(), ttu("parent", "viewer")), Restrs: dedup(u())},
				&fga.RelDef{Name: "viewer", Rewrite: un(this(), ttu("parent", "editor")), Restrs: dedup(u())})
		default:
			vr := append(u(), fga.Restr{Typ: "group", Rel: "member", Cond: cond()})
			folder.Rels = append(folder.Rels,
				&fga.RelDef{Name: "editor", Rewrite: un(this(), ttu("parent", "viewer")), Restrs: dedup(u())},
				&fga.RelDef{Name: "viewer", Rewrite: un(this(), cu("editor")), Restrs: dedup(vr)})
		}
		// doc: hangs off the cycles through usersets / TTU, with intersection and exclusion
		dp := []fga.Restr{{Typ: "folder", Cond: cond()}}
		dv := []fga.Restr{{Typ: "group", Rel: "member", Cond: cond()}}
		if r.Chance(1, 2) {
			dv = append(dv, fga.Restr{Typ: "team", Rel: "member", Cond: cond()})
		}
		if r.Chance(1, 2) {
			dv = append(dv, u()...)
		}
		doc := &fga.TypeDef{Name: "doc", Rels: []*fga.RelDef{
			{Name: "parent", Rewrite: this(), Restrs: dp},
			{Name: "viewer", Rewrite: this(), Restrs: dedup(dv)},
			{Name: "blocked", Rewrite: this(), Restrs: dedup(append(u(), fga.Restr{Typ: "group", Rel: "member"}))},
		}}
		switch r.Intn(5) {
		case 0:
			doc.Rels = append(doc.Rels, &fga.RelDef{Name: "editor", Rewrite: df(cu("viewer"), cu("blocked"))})
		case 1:
			doc.Rels = append(doc.Rels, &fga.RelDef{Name: "editor", Rewrite: in(cu("viewer"), ttu("parent", "viewer"))})
		case 2:
			doc.Rels = append(doc.Rels, &fga.RelDef{Name: "editor", Rewrite: un(cu("viewer"), ttu("parent", "viewer"))})
		case 3:
			doc.Rels = append(doc.Rels, &fga.RelDef{Name: "editor", Rewrite: df(un(this(), ttu("parent", "viewer")), cu("blocked")), Restrs: dedup(u())})
		default:
			doc.Rels = append(doc.Rels, &fga.RelDef{Name: "editor", Rewrite: ttu("parent", "viewer")})
		}
		m.Types = append(m.Types, doc, folder, group, team)
		ts, err := typesystem.NewAndValidate(context.Background(), m.Proto(fgarun.ModelID))
		if err == nil {
			return m, ts
		}
		if try > 200 {
			panic("cycle generator cannot produce a valid model: " + err.Error())
		}
	}
}

// genShapeModel builds the shapes the breaking-change detector talks about and the ones `ttu` /
// `GetDirectEdgeFromNodeForUserType` distinguish: computed aliases (pure and inside unions) of directly
// assignable relations, targets that accept several usersets of one type, tuple-to-usersets whose tupleset
// has several parent types with different conditions, and exclusions / intersections around them.
func genShapeModel(r *hx.Rand) (*fga.Model, *typesystem.TypeSystem) {
	for try := 0; ; try++ {
		m := &fga.Model{Types: []*fga.TypeDef{{Name: "user"}}}
		if r.Chance(2, 3) {
			m.Conds = append(m.Conds, &fga.CondDef{Name: "c1", Param: "x", Op: hx.Pick(r, []string{"lt", "ge"}), Const: 10})
		}
		cond := func() string {
			if len(m.Conds) > 0 && r.Chance(1, 3) {
				return "c1"
			}
			return ""
		}
		u := fga.Restr{Typ: "user"}
		// group: member direct; owner = member (pure alias); admin = owner (alias chain) or a union with member
		group := &fga.TypeDef{Name: "group", Rels: []*fga.RelDef{
			{Name: "member", Rewrite: this(), Restrs: []fga.Restr{u}},
			{Name: "owner", Rewrite: cu("member")},
		}}
		if r.Chance(1, 2) {
			group.Rels = append(group.Rels, &fga.RelDef{Name: "admin", Rewrite: cu("owner")})
		} else {
			group.Rels = append(group.Rels, &fga.RelDef{Name: "admin", Rewrite: un(this(), cu("member")), Restrs: []fga.Restr{u}})
		}
		if r.Chance(1, 3) {
			group.Rels[0].Restrs = append(group.Rels[0].Restrs, fga.Restr{Typ: "user", Wild: true, Cond: cond()})
		}
		// folder: viewer direct + from parent; several parent types with different conditions
		fp := []fga.Restr{{Typ: "folder", Cond: cond()}}
		folder := &fga.TypeDef{Name: "folder", Rels: []*fga.RelDef{
			{Name: "parent", Rewrite: this(), Restrs: fp},
			{Name: "member", Rewrite: this(), Restrs: []fga.Restr{u, {Typ: "group", Rel: hx.Pick(r, []string{"member", "owner", "admin"})}}},
			{Name: "viewer", Rewrite: un(this(), cu("member"), ttu("parent", "viewer")), Restrs: []fga.Restr{u}},
		}}
		// doc: the target relations
		dp := []fga.Restr{{Typ: "folder", Cond: cond()}, {Typ: "group", Cond: cond()}}
		if r.Chance(1, 2) {
			dp[1].Cond = "c1"
			if len(m.Conds) == 0 {
				dp[1].Cond = ""
			}
		}
		if r.Chance(1, 2) {
			dp[0], dp[1] = dp[1], dp[0]
		}
		var vr []fga.Restr
		vr = append(vr, u)
		for _, rel := range []string{"member", "owner", "admin"} {
			if r.Chance(1, 2) {
				vr = append(vr, fga.Restr{Typ: "group", Rel: rel, Cond: cond()})
			}
		}
		if r.Chance(1, 3) {
			vr = append(vr, fga.Restr{Typ: "user", Wild: true})
		}
		kids := []*fga.Rewrite{this()}
		if r.Chance(1, 2) {
			kids = append(kids, cu("editor"))
		}
		if r.Chance(2, 3) {
			kids = append(kids, ttu("parent", "member"))
		}
		viewer := &fga.RelDef{Name: "viewer", Rewrite: un(kids...), Restrs: vr}
		if len(kids) == 1 {
			viewer.Rewrite = this()
		}
		doc := &fga.TypeDef{Name: "doc", Rels: []*fga.RelDef{
			{Name: "parent", Rewrite: this(), Restrs: dp},
			{Name: "editor", Rewrite: this(), Restrs: []fga.Restr{u, {Typ: "group", Rel: "member"}}},
			{Name: "blocked", Rewrite: this(), Restrs: []fga.Restr{u, {Typ: "user", Wild: true}}},
			viewer,
		}}
		switch r.Intn(4) {
		case 0:
			doc.Rels = append(doc.Rels, &fga.RelDef{Name: "owner", Rewrite: df(cu("viewer"), cu("blocked"))})
		case 1:
			doc.Rels = append(doc.Rels, &fga.RelDef{Name: "owner", Rewrite: in(cu("viewer"), cu("editor"))})
		case 2:
			doc.Rels = append(doc.Rels, &fga.RelDef{Name: "owner", Rewrite: cu("viewer")})
		}
		m.Types = append(m.Types, doc, folder, group)
		ts, err := typesystem.NewAndValidate(context.Background(), m.Proto(fgarun.ModelID))
		if err == nil {
			return m, ts
		}
		if try > 200 {
			panic("shape generator cannot produce a valid model: " + err.Error())
		}
	}
}

// crafted shapes that every run exercises (candidate findings found while modelling, the documented
// breaking-change shapes, and the request-shape errors).
func crafted() []string {
	u := fga.Restr{Typ: "user"}
	var out []string
	mk := func(m *fga.Model, tuples []fga.Tuple, rq fga.Req) {
		ts, err := typesystem.NewAndValidate(context.Background(), m.Proto(fgarun.ModelID))
		if err != nil {
			panic(fmt.Sprintf("crafted model invalid: %v", err))
		}
		out = append(out, caseLine(m, ts, tuples, nil, rq))
	}
	// TTU tuple cycle over two relations (finding V2-A, fixed by commit 1d97cee: the shared visited filter was keyed by
	// the parent *object* only; reverting the fix makes this case answer false)
	m1 := &fga.Model{Types: []*fga.TypeDef{{Name: "user"},
		{Name: "folder", Rels: []*fga.RelDef{
			{Name: "parent", Rewrite: this(), Restrs: []fga.Restr{{Typ: "folder"}}},
			{Name: "editor", Rewrite: un(this(), ttu("parent", "viewer")), Restrs: []fga.Restr{u}},
			{Name: "viewer", Rewrite: un(this(), ttu("parent", "editor")), Restrs: []fga.Restr{u}},
		}}}}
	mk(m1, []fga.Tuple{
		{Obj: "folder:a", Rel: "parent", User: "folder:b"}, {Obj: "folder:b", Rel: "parent", User: "folder:b"},
		{Obj: "folder:b", Rel: "editor", User: "user:x"},
	}, fga.Req{Obj: "folder:a", Rel: "editor", User: "user:x"})
	// userset tuple cycle with a condition on a cycle edge (finding V2-B, fixed by commit 1d97cee: the visited filter ran
	// before the condition filter; reverting the fix makes this case answer false at breadth 1)
	m2 := &fga.Model{Types: []*fga.TypeDef{{Name: "user"},
		{Name: "group", Rels: []*fga.RelDef{{Name: "member", Rewrite: this(), Restrs: []fga.Restr{u, {Typ: "team", Rel: "member", Cond: "c1"}, {Typ: "team", Rel: "member"}}}}},
		{Name: "team", Rels: []*fga.RelDef{{Name: "member", Rewrite: this(), Restrs: []fga.Restr{u, {Typ: "group", Rel: "member"}}}}}},
		Conds: []*fga.CondDef{{Name: "c1", Param: "x", Op: "lt", Const: 10}}}
	mk(m2, []fga.Tuple{
		{Obj: "team:a", Rel: "member", User: "group:a#member"}, {Obj: "team:a", Rel: "member", User: "group:b#member"},
		{Obj: "group:a", Rel: "member", User: "team:b#member", Cond: "c1", Ctx: []fga.KV{{K: "x", V: 20}}},
		{Obj: "group:b", Rel: "member", User: "team:b#member"},
		{Obj: "team:b", Rel: "member", User: "user:x"},
	}, fga.Req{Obj: "team:a", Rel: "member", User: "user:x"})
	// documented shapes: userset subject below an exclusion, wildcard subject below an exclusion / intersection
	m3 := &fga.Model{Types: []*fga.TypeDef{{Name: "user"},
		{Name: "group", Rels: []*fga.RelDef{{Name: "member", Rewrite: this(), Restrs: []fga.Restr{u, {Typ: "user", Wild: true}}}}},
		{Name: "doc", Rels: []*fga.RelDef{
			{Name: "blocked", Rewrite: this(), Restrs: []fga.Restr{u, {Typ: "user", Wild: true}}},
			{Name: "viewer", Rewrite: df(this(), cu("blocked")), Restrs: []fga.Restr{u, {Typ: "user", Wild: true}, {Typ: "group", Rel: "member"}}},
			{Name: "editor", Rewrite: in(this(), cu("viewer")), Restrs: []fga.Restr{u, {Typ: "user", Wild: true}, {Typ: "group", Rel: "member"}}},
		}}}}
	t3 := []fga.Tuple{{Obj: "doc:a", Rel: "viewer", User: "group:a#member"}, {Obj: "doc:a", Rel: "viewer", User: "user:*"},
		{Obj: "doc:a", Rel: "editor", User: "user:*"}, {Obj: "doc:a", Rel: "editor", User: "group:a#member"}, {Obj: "group:a", Rel: "member", User: "user:x"}}
	for _, rel := range []string{"viewer", "editor"} {
		for _, usr := range []string{"group:a#member", "user:*", "user:x"} {
			mk(m3, t3, fga.Req{Obj: "doc:a", Rel: rel, User: usr})
		}
	}
	// documented shapes for userset subjects: self-referential, alias, computed userset on the same object, TTU
	m4 := &fga.Model{Types: []*fga.TypeDef{{Name: "user"},
		{Name: "group", Rels: []*fga.RelDef{
			{Name: "member", Rewrite: this(), Restrs: []fga.Restr{u}},
			{Name: "owner", Rewrite: cu("member")},
		}},
		{Name: "folder", Rels: []*fga.RelDef{{Name: "viewer", Rewrite: this(), Restrs: []fga.Restr{u}}}},
		{Name: "doc", Rels: []*fga.RelDef{
			{Name: "parent", Rewrite: this(), Restrs: []fga.Restr{{Typ: "folder"}}},
			{Name: "owner", Rewrite: this(), Restrs: []fga.Restr{u}},
			{Name: "viewer", Rewrite: un(this(), cu("owner"), ttu("parent", "viewer")), Restrs: []fga.Restr{u, {Typ: "group", Rel: "owner"}}},
		}}}}
	t4 := []fga.Tuple{{Obj: "doc:a", Rel: "viewer", User: "group:a#owner"}, {Obj: "doc:a", Rel: "parent", User: "folder:a"}}
	for _, usr := range []string{"doc:a#viewer", "group:a#member", "doc:a#owner", "folder:a#viewer", "group:a#owner"} {
		mk(m4, t4, fga.Req{Obj: "doc:a", Rel: "viewer", User: usr})
	}
	// weight-two fast path: the right stream (stored order) is not sorted, two candidates on each side — exercises the
	// ordering-based pruning of Weight2.execute (must stay disabled for an unordered iterator)
	m6 := &fga.Model{Types: []*fga.TypeDef{{Name: "user"},
		{Name: "group", Rels: []*fga.RelDef{{Name: "member", Rewrite: this(), Restrs: []fga.Restr{u}}}},
		{Name: "folder", Rels: []*fga.RelDef{{Name: "viewer", Rewrite: this(), Restrs: []fga.Restr{u}}}},
		{Name: "doc", Rels: []*fga.RelDef{
			{Name: "parent", Rewrite: this(), Restrs: []fga.Restr{{Typ: "folder"}}},
			{Name: "viewer", Rewrite: this(), Restrs: []fga.Restr{{Typ: "group", Rel: "member"}}},
			{Name: "can", Rewrite: ttu("parent", "viewer")},
		}}}}
	var t6 []fga.Tuple
	for k := 60; k >= 10; k-- { // a long right stream of large values first: the left batch arrives in the middle of it
		t6 = append(t6, fga.Tuple{Obj: "doc:a", Rel: "viewer", User: fmt.Sprintf("group:z%d#member", k)},
			fga.Tuple{Obj: "doc:a", Rel: "parent", User: fmt.Sprintf("folder:z%d", k)})
	}
	t6 = append(t6,
		fga.Tuple{Obj: "doc:a", Rel: "viewer", User: "group:b#member"},
		fga.Tuple{Obj: "group:a", Rel: "member", User: "user:x"}, fga.Tuple{Obj: "group:b", Rel: "member", User: "user:x"},
		fga.Tuple{Obj: "doc:a", Rel: "parent", User: "folder:b"},
		fga.Tuple{Obj: "folder:a", Rel: "viewer", User: "user:x"}, fga.Tuple{Obj: "folder:b", Rel: "viewer", User: "user:x"})
	mk(m6, t6, fga.Req{Obj: "doc:a", Rel: "viewer", User: "user:x"})
	mk(m6, t6, fga.Req{Obj: "doc:a", Rel: "can", User: "user:x"})
	// an error in one branch of a union and `true` in a later one: the union answers `true`
	// (DefaultStrategy.execute over usersets, ResolveUnionEdges over the edges of a relation)
	m7 := &fga.Model{Types: []*fga.TypeDef{{Name: "user"},
		{Name: "group", Rels: []*fga.RelDef{{Name: "member", Rewrite: this(), Restrs: []fga.Restr{{Typ: "user", Cond: "c1"}}}}},
		{Name: "doc", Rels: []*fga.RelDef{
			{Name: "editor", Rewrite: this(), Restrs: []fga.Restr{u}},
			{Name: "viewer", Rewrite: this(), Restrs: []fga.Restr{{Typ: "group", Rel: "member"}}},
			{Name: "owner", Rewrite: un(this(), cu("editor")), Restrs: []fga.Restr{{Typ: "user", Cond: "c1"}}},
		}}},
		Conds: []*fga.CondDef{{Name: "c1", Param: "x", Op: "lt", Const: 10}}}
	t7 := []fga.Tuple{
		{Obj: "doc:a", Rel: "viewer", User: "group:a#member"}, {Obj: "doc:a", Rel: "viewer", User: "group:b#member"},
		{Obj: "group:a", Rel: "member", User: "user:x", Cond: "c1"},
		{Obj: "group:b", Rel: "member", User: "user:x", Cond: "c1", Ctx: []fga.KV{{K: "x", V: 5}}},
		{Obj: "doc:a", Rel: "owner", User: "user:x", Cond: "c1"}, {Obj: "doc:a", Rel: "editor", User: "user:x"},
	}
	mk(m7, t7, fga.Req{Obj: "doc:a", Rel: "viewer", User: "user:x"})
	mk(m7, t7, fga.Req{Obj: "doc:a", Rel: "owner", User: "user:x"})
	// a tuple left over from an earlier model (a userset in what is now a tupleset relation): the default engine ignores it
	// (ValidateTupleForRead), the weighted-graph engine reads it through the `folder:` prefix filter and follows it
	m8 := &fga.Model{Types: []*fga.TypeDef{{Name: "user"},
		{Name: "folder", Rels: []*fga.RelDef{{Name: "viewer", Rewrite: this(), Restrs: []fga.Restr{u}}}},
		{Name: "doc", Rels: []*fga.RelDef{
			{Name: "parent", Rewrite: this(), Restrs: []fga.Restr{{Typ: "folder"}}},
			{Name: "can", Rewrite: ttu("parent", "viewer")},
		}}}}
	mk(m8, []fga.Tuple{{Obj: "doc:a", Rel: "parent", User: "folder:b#viewer"}, {Obj: "folder:b", Rel: "viewer", User: "user:x"}},
		fga.Req{Obj: "doc:a", Rel: "can", User: "user:x"})
	// a divergence the detector does not report: the userset alias is a union that contains a computed userset
	m9 := &fga.Model{Types: []*fga.TypeDef{{Name: "user"},
		{Name: "group", Rels: []*fga.RelDef{
			{Name: "owner", Rewrite: this(), Restrs: []fga.Restr{u}},
			{Name: "member", Rewrite: un(this(), cu("owner")), Restrs: []fga.Restr{u}},
		}},
		{Name: "folder", Rels: []*fga.RelDef{
			{Name: "editor", Rewrite: this(), Restrs: []fga.Restr{u}},
			{Name: "viewer", Rewrite: un(this(), cu("editor")), Restrs: []fga.Restr{u, {Typ: "group", Rel: "member"}}},
		}}}}
	mk(m9, []fga.Tuple{{Obj: "folder:a", Rel: "viewer", User: "group:a#member"}},
		fga.Req{Obj: "folder:a", Rel: "viewer", User: "group:a#owner"})
	// the filtered iterator swallows the evaluation error of the first tuple because the second one passed
	c1 := []*fga.CondDef{{Name: "c1", Param: "x", Op: "lt", Const: 10}}
	m10 := &fga.Model{Types: []*fga.TypeDef{{Name: "user"},
		{Name: "group", Rels: []*fga.RelDef{{Name: "member", Rewrite: this(), Restrs: []fga.Restr{u}}}},
		{Name: "doc", Rels: []*fga.RelDef{{Name: "viewer", Rewrite: this(),
			Restrs: []fga.Restr{{Typ: "group", Rel: "member", Cond: "c1"}, {Typ: "group", Rel: "member"}}}}}},
		Conds: c1}
	mk(m10, []fga.Tuple{
		{Obj: "doc:a", Rel: "viewer", User: "group:a#member", Cond: "c1"}, {Obj: "doc:a", Rel: "viewer", User: "group:b#member"},
		{Obj: "group:a", Rel: "member", User: "user:x"},
	}, fga.Req{Obj: "doc:a", Rel: "viewer", User: "user:x"})
	// a conditioned tuple for `user:x` where the condition is declared for `user:*` only: the default engine's
	// validateCondition accepts it (stored: honoured; contextual: request accepted), the weighted graph does not
	m11 := &fga.Model{Types: []*fga.TypeDef{{Name: "user"},
		{Name: "doc", Rels: []*fga.RelDef{{Name: "viewer", Rewrite: this(),
			Restrs: []fga.Restr{u, {Typ: "user", Wild: true, Cond: "c1"}}}}}},
		Conds: c1}
	lax := fga.Tuple{Obj: "doc:a", Rel: "viewer", User: "user:x", Cond: "c1", Ctx: []fga.KV{{K: "x", V: 5}}}
	mk(m11, []fga.Tuple{lax}, fga.Req{Obj: "doc:a", Rel: "viewer", User: "user:x"})
	if ts, err := typesystem.NewAndValidate(context.Background(), m11.Proto(fgarun.ModelID)); err == nil {
		out = append(out, caseLine(m11, ts, nil, []fga.Tuple{lax}, fga.Req{Obj: "doc:a", Rel: "viewer", User: "user:x"}))
	}
	// recursive strategy (finding V2-B(recursive), fixed by commit 11f1667: Recursive.buildTupleMapperForID applied its
	// visited filter before the condition filter): group:d was claimed by the conditioned tuple of group:c (condition
	// false) and skipped when group:e reached it unconditionally, depending on the order of the breadth-first search;
	// reverting the fix makes the recursive runs of this case answer false
	m12 := &fga.Model{Types: []*fga.TypeDef{{Name: "user"},
		{Name: "group", Rels: []*fga.RelDef{{Name: "rmember", Rewrite: this(),
			Restrs: []fga.Restr{u, {Typ: "group", Rel: "rmember", Cond: "c1"}, {Typ: "group", Rel: "rmember"}}}}}},
		Conds: c1}
	mk(m12, []fga.Tuple{
		{Obj: "group:a", Rel: "rmember", User: "group:c#rmember"}, {Obj: "group:a", Rel: "rmember", User: "group:e#rmember"},
		{Obj: "group:c", Rel: "rmember", User: "group:d#rmember", Cond: "c1", Ctx: []fga.KV{{K: "x", V: 20}}},
		{Obj: "group:e", Rel: "rmember", User: "group:d#rmember"},
		{Obj: "group:d", Rel: "rmember", User: "group:b#rmember"}, {Obj: "group:b", Rel: "rmember", User: "user:x"},
	}, fga.Req{Obj: "group:a", Rel: "rmember", User: "user:x"})
	// the same through a recursive tuple-to-userset
	m13 := &fga.Model{Types: []*fga.TypeDef{{Name: "user"},
		{Name: "folder", Rels: []*fga.RelDef{
			{Name: "parent", Rewrite: this(), Restrs: []fga.Restr{{Typ: "folder", Cond: "c1"}, {Typ: "folder"}}},
			{Name: "rviewer", Rewrite: un(this(), ttu("parent", "rviewer")), Restrs: []fga.Restr{u}},
		}}},
		Conds: c1}
	mk(m13, []fga.Tuple{
		{Obj: "folder:a", Rel: "parent", User: "folder:c"}, {Obj: "folder:a", Rel: "parent", User: "folder:e"},
		{Obj: "folder:c", Rel: "parent", User: "folder:d", Cond: "c1", Ctx: []fga.KV{{K: "x", V: 20}}},
		{Obj: "folder:e", Rel: "parent", User: "folder:d"},
		{Obj: "folder:d", Rel: "parent", User: "folder:b"}, {Obj: "folder:b", Rel: "rviewer", User: "user:x"},
	}, fga.Req{Obj: "folder:a", Rel: "rviewer", User: "user:x"})
	// AND inside a tuple cycle: the weighted graph cannot be built -> fallback to the default engine
	m5 := &fga.Model{Types: []*fga.TypeDef{{Name: "user"},
		{Name: "group", Rels: []*fga.RelDef{
			{Name: "allowed", Rewrite: this(), Restrs: []fga.Restr{u}},
			{Name: "member", Rewrite: in(this(), cu("allowed")), Restrs: []fga.Restr{u, {Typ: "group", Rel: "member"}}},
		}}}}
	mk(m5, []fga.Tuple{{Obj: "group:a", Rel: "member", User: "user:x"}, {Obj: "group:a", Rel: "allowed", User: "user:x"}},
		fga.Req{Obj: "group:a", Rel: "member", User: "user:x"})
	// contextual tuples closing a parent cycle below a self-recursive TTU (seeded change C19c-1: the recursive mapper's
	// visited filter applied before the contextual tuples are merged in never terminates on this case)
	mCyc := &fga.Model{Types: []*fga.TypeDef{{Name: "user"},
		{Name: "group", Rels: []*fga.RelDef{
			{Name: "parent", Rewrite: this(), Restrs: []fga.Restr{{Typ: "group"}}},
			{Name: "member", Rewrite: un(this(), ttu("parent", "member")), Restrs: []fga.Restr{u}},
		}}}}
	{
		ts, err := typesystem.NewAndValidate(context.Background(), mCyc.Proto(fgarun.ModelID))
		if err != nil {
			panic(fmt.Sprintf("crafted model invalid: %v", err))
		}
		for _, rq := range []fga.Req{{Obj: "group:a", Rel: "member", User: "user:x"}, {Obj: "group:b", Rel: "member", User: "user:x"}} {
			out = append(out, caseLine(mCyc, ts, []fga.Tuple{
				{Obj: "group:a", Rel: "parent", User: "group:b"}, {Obj: "group:z", Rel: "member", User: "user:x"},
			}, []fga.Tuple{
				{Obj: "group:b", Rel: "parent", User: "group:c"}, {Obj: "group:c", Rel: "parent", User: "group:b"},
			}, rq))
		}
	}
	return out
}
