package main

import (
	"fmt"
	"sort"
	"strings"

	authzGraph "github.com/openfga/language/pkg/go/graph"

	"github.com/openfga/openfga/internal/modelgraph"
)

// dumpGraph serialises the weighted authorization-model graph the engine actually used (the library
// is trusted and taken as data): every node and edge with the attributes internal/check reads —
// node type, label, recursive relation, tuple-cycle flag, wildcard set, and the weight for the
// request's user type exactly as the engine obtains it (GetNodeWeight / GetEdgeWeight, which for a
// userset user type is computed lazily and memoised inside the graph: the dump is taken from the same
// graph instance right after the run that the Lean model is compared with).
//
// Operator nodes carry a random ULID in their unique label; they are renamed `<op>@<k>` by discovery
// order (relation nodes sorted, depth first along the edge lists, whose order is deterministic).
//
//	graph <nNodes> { n <name> <type> <label> <rec|-> <tc> <w|-> <nw> wild… }
//	      <nEdges> { e <from> <to> <etype> <tupleset|-> <reldef> <rec|-> <tc> <w|-> <nc> cond|-… <nw> wild… }
func dumpGraph(mg *modelgraph.AuthorizationModelGraph, userType string) string {
	nodes := mg.GetNodes()
	var rels []string
	for id, n := range nodes {
		if n.GetNodeType() != authzGraph.OperatorNode {
			rels = append(rels, id)
		}
	}
	sort.Strings(rels)
	name := map[string]string{}
	var order []string
	k := 0
	var visit func(id string)
	visit = func(id string) {
		if _, ok := name[id]; ok {
			return
		}
		n := nodes[id]
		if n.GetNodeType() == authzGraph.OperatorNode {
			name[id] = fmt.Sprintf("%s@%d", n.GetLabel(), k)
			k++
		} else {
			name[id] = id
		}
		order = append(order, id)
		es, _ := mg.GetEdgesFromNode(n)
		for _, e := range es {
			visit(e.GetTo().GetUniqueLabel())
		}
	}
	for _, id := range rels {
		visit(id)
	}
	d := func(s string) string {
		if s == "" {
			return "-"
		}
		return s
	}
	canon := func(s string) string {
		if s == "" {
			return "-"
		}
		if c, ok := name[s]; ok {
			return c
		}
		return s
	}
	b := func(x bool) int {
		if x {
			return 1
		}
		return 0
	}
	var sb strings.Builder
	fmt.Fprintf(&sb, "graph %d", len(order))
	ne := 0
	for _, id := range order {
		n := nodes[id]
		w := "-"
		if v, ok := mg.GetNodeWeight(n, userType); ok {
			w = fmt.Sprint(v)
		}
		fmt.Fprintf(&sb, " n %s %d %s %s %d %s %d", name[id], n.GetNodeType(), d(n.GetLabel()), canon(n.GetRecursiveRelation()), b(n.IsPartOfTupleCycle()), w, len(n.GetWildcards()))
		for _, x := range n.GetWildcards() {
			sb.WriteString(" " + x)
		}
		es, _ := mg.GetEdgesFromNode(n)
		ne += len(es)
	}
	fmt.Fprintf(&sb, " %d", ne)
	for _, id := range order {
		es, _ := mg.GetEdgesFromNode(nodes[id])
		for _, e := range es {
			w := "-"
			if v, ok := mg.GetEdgeWeight(e, userType); ok {
				w = fmt.Sprint(v)
			}
			fmt.Fprintf(&sb, " e %s %s %d %s %s %s %d %s %d", name[id], name[e.GetTo().GetUniqueLabel()], e.GetEdgeType(), d(e.GetTuplesetRelation()),
				d(e.GetRelationDefinition()), canon(e.GetRecursiveRelation()), b(e.IsPartOfTupleCycle()), w, len(e.GetConditions()))
			for _, c := range e.GetConditions() {
				sb.WriteString(" " + d(c))
			}
			fmt.Fprintf(&sb, " %d", len(e.GetWildcards()))
			for _, x := range e.GetWildcards() {
				sb.WriteString(" " + x)
			}
		}
	}
	return sb.String()
}
