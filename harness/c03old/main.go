// Harness for C03 (the weighted-graph Check engine agrees with the default engine): the C01 input
// space — random validated models, tuple sets with wildcards / usersets / conditions / leftovers,
// contextual tuples, object, wildcard and userset subjects — is evaluated by
//
//	v1     the real default engine (internal/graph behind commands.CheckQuery), breadth 1, default strategy
//	d1     the real weighted-graph engine (internal/check behind commands.CheckQueryV2, no fallback, no
//	       cache), default strategy forced through the planner, breadth 1  — compared exactly with the Lean model
//	d25    the same with breadth 25, repeated (set of classes seen)
//	w1 w25 weight2 forced; r1 r25 recursive forced
//	srv    pkg/server.Check with the experimental flag weighted_graph_check (own planner, fallback to v1),
//	       with the warnings it logs: "falling back" and the v2breaking reasons
//	cfb    commands.CheckQueryV2 with a fallback Checker (the default engine), as BatchCheck wires it; cfbn = fallbacks
//	       taken; term = IsV2CheckTerminalError on the raw and on the server-mapped error of d1
//	cr cx ce   the detector predicates called directly (CheckReason, CheckExclusionReason, CheckReasonFromV2Error)
//	graph  the weighted graph the engine used, dumped from the real library (see graph.go)
package main

import (
	"context"
	"errors"
	"fmt"
	"os"
	"sort"
	"strings"
	"sync"
	"time"

	"github.com/oklog/ulid/v2"
	openfgav1 "github.com/openfga/api/proto/openfga/v1"
	"go.uber.org/zap"
	"go.uber.org/zap/zaptest/observer"
	"google.golang.org/grpc/status"

	"github.com/openfga/openfga/internal/check"
	"github.com/openfga/openfga/internal/condition"
	"github.com/openfga/openfga/internal/graph"
	"github.com/openfga/openfga/internal/modelgraph"
	"github.com/openfga/openfga/internal/planner"
	"github.com/openfga/openfga/internal/validation"
	"github.com/openfga/openfga/pkg/logger"
	"github.com/openfga/openfga/pkg/server"
	"github.com/openfga/openfga/pkg/server/commands"
	"github.com/openfga/openfga/pkg/server/commands/v2breaking"
	"github.com/openfga/openfga/pkg/storage"
	"github.com/openfga/openfga/pkg/storage/cache/keys"
	"github.com/openfga/openfga/pkg/storage/memory"
	"github.com/openfga/openfga/pkg/tuple"
	"github.com/openfga/openfga/pkg/typesystem"
	"github.com/openfga/openfga/verifharness/fga"
	"github.com/openfga/openfga/verifharness/fgarun"
	"github.com/openfga/openfga/verifharness/hx"
)

func b2i(b bool) int {
	if b {
		return 1
	}
	return 0
}

func caseLine(m *fga.Model, ts *typesystem.TypeSystem, tuples, ctxT []fga.Tuple, rq fga.Req) string {
	return fmt.Sprintf("cfg 25 %d %s %s %s %s %s", b2i(m.Stratified()), m.Encode(), fga.EncodeAux(fga.Aux(m, ts, rq.User)),
		fga.EncodeTuples("tuples", tuples), fga.EncodeTuples("ctx", ctxT), rq.Encode())
}

func gen(r *hx.Rand, n int, tier string, emit func(string), st *hx.Stats) {
	for _, c := range crafted() {
		emit(c)
		st.Inc("crafted")
	}
	for i := 0; i < n; {
		c := r.Fork()
		m, ts := fga.GenModel(c, fga.DefaultOpts())
		dense := false
		usersetReq := false
		switch c.Intn(10) {
		case 0, 1, 2:
			m, ts = fga.GenStrategyModel(c)
			dense = true
			st.Inc("strategy-model")
		case 3, 4, 5:
			m, ts = genCycleModel(c)
			dense = c.Chance(1, 2)
			st.Inc("cycle-model")
		case 6, 7:
			m, ts = genShapeModel(c)
			dense = true
			usersetReq = true
			st.Inc("shape-model")
		}
		if len(m.Types) < 2 {
			continue
		}
		nt := 3 + c.Intn(18)
		if dense {
			nt = 20 + c.Intn(25)
		}
		tuples := fga.GenTuples(c, m, nt)
		for k := 0; k < 4 && i < n; k++ {
			rq := fga.GenReq(c, m, tuples)
			if usersetReq && c.Chance(1, 2) {
				// shape models: userset subjects of the aliasing type, sometimes on the requested object itself
				rq.User = "group:" + hx.Pick(c, []string{"a", "b", "c"}) + "#" + hx.Pick(c, []string{"member", "owner", "admin"})
				if c.Chance(1, 4) {
					for _, t := range m.Types {
						if t.Name == fga.TypeOf(rq.Obj) {
							rq.User = rq.Obj + "#" + hx.Pick(c, t.Rels).Name
						}
					}
				}
			} else if dense && c.Chance(2, 3) {
				// strategy / cycle models: ask for an object subject on an object that has tuples
				rq.User = "user:" + hx.Pick(c, []string{"x", "y", "z"})
			}
			var ctxT []fga.Tuple
			if c.Chance(1, 3) {
				seen := map[string]bool{}
				for _, t := range tuples {
					seen[t.String()] = true
				}
				for j := 0; j < 1+c.Intn(3); j++ {
					t, ok := fga.GenTuple(c, m)
					if ok && c.Chance(1, 2) {
						// near the request: a contextual tuple on the requested object
						if t2, ok2 := ctxTupleOn(c, m, rq.Obj); ok2 {
							t = t2
						}
					}
					if !ok || seen[t.String()] || validation.ValidateTupleForWrite(ts, t.Key()) != nil {
						continue
					}
					seen[t.String()] = true
					ctxT = append(ctxT, t)
				}
			}
			emit(caseLine(m, ts, tuples, ctxT, rq))
			i++
			st.Inc("cases")
			if !m.Stratified() {
				st.Inc("nonstratified")
			}
			for _, kind := range []string{"diff", "inter", "ttu"} {
				if m.HasKind(kind) {
					st.Inc("with-" + kind)
				}
			}
			if len(m.Conds) > 0 {
				st.Inc("with-conditions")
			}
			if len(ctxT) > 0 {
				st.Inc("with-contextual")
			}
			switch {
			case strings.Contains(rq.User, "#"):
				st.Inc("subject-userset")
			case strings.HasSuffix(rq.User, ":*"):
				st.Inc("subject-wildcard")
			default:
				st.Inc("subject-object")
			}
		}
	}
}

// ctxTupleOn draws a tuple on the given object from the type restrictions of one of its relations.
func ctxTupleOn(r *hx.Rand, m *fga.Model, obj string) (fga.Tuple, bool) {
	typ := fga.TypeOf(obj)
	for _, t := range m.Types {
		if t.Name != typ {
			continue
		}
		var cands []*fga.RelDef
		for _, rd := range t.Rels {
			if len(rd.Restrs) > 0 {
				cands = append(cands, rd)
			}
		}
		if len(cands) == 0 {
			return fga.Tuple{}, false
		}
		rd := hx.Pick(r, cands)
		x := hx.Pick(r, rd.Restrs)
		tu := fga.Tuple{Obj: obj, Rel: rd.Name, Cond: x.Cond}
		switch {
		case x.Wild:
			tu.User = x.Typ + ":*"
		case x.Rel != "":
			tu.User = x.Typ + ":" + hx.Pick(r, []string{"a", "b", "c"}) + "#" + x.Rel
		case x.Typ == "user":
			tu.User = "user:" + hx.Pick(r, []string{"x", "y", "z"})
		default:
			tu.User = x.Typ + ":" + hx.Pick(r, []string{"a", "b", "c"})
		}
		if tu.Cond != "" && r.Chance(1, 2) {
			for _, c := range m.Conds {
				if c.Name == tu.Cond {
					tu.Ctx = []fga.KV{{K: c.Param, V: hx.Pick(r, []int{0, 5, 10, 20})}}
				}
			}
		}
		return tu, true
	}
	return fga.Tuple{}, false
}

// ---- running the engines ---------------------------------------------------------------------------

func v2class(res *commands.CheckResult, err error) string {
	if err != nil {
		var ee *condition.EvaluationError
		var ite *tuple.InvalidTupleError
		switch {
		case errors.As(err, &ee):
			return "Econd"
		case errors.As(err, &ite):
			return "Einvalidtuple"
		case errors.Is(err, check.ErrWildcardInvalidRequest):
			return "Eshape:wildcard"
		case errors.Is(err, check.ErrUsersetInvalidRequest):
			return "Eshape:userset"
		case errors.Is(err, check.ErrValidation):
			return "Evalidation"
		case errors.Is(err, check.ErrInvalidUser):
			return "Einvaliduser"
		case errors.Is(err, check.ErrPanicRequest):
			return "Epanic"
		case errors.Is(err, context.DeadlineExceeded):
			return "Edeadline"
		}
		return "Eother"
	}
	if res.Allowed {
		return "T"
	}
	return "F"
}

func v1class(out string) string {
	f := strings.Fields(out)
	if f[0] == "E" {
		return "E" + f[1]
	}
	return f[0]
}

// forcedPlanner makes every plan selector return the strategy `want` when it is offered (else
// "default") and records the offered strategies; safe for concurrent use (fgarun.ForcedPlanner's
// Offered map is not).
type forcedPlanner struct {
	want    string
	mu      sync.Mutex
	offered map[string]bool
}

type forcedSel struct{ p *forcedPlanner }

func (p *forcedPlanner) GetPlanSelector(_ keys.Key) planner.Selector { return forcedSel{p} }
func (p *forcedPlanner) Stop()                                       {}

func (s forcedSel) Select(plans map[string]*planner.PlanConfig) *planner.PlanConfig {
	s.p.mu.Lock()
	for k := range plans {
		s.p.offered[k] = true
	}
	s.p.mu.Unlock()
	if pc, ok := plans[s.p.want]; ok {
		return pc
	}
	return plans["default"]
}

func (s forcedSel) UpdateStats(_ *planner.PlanConfig, _ time.Duration) {}

func runV2(mg *modelgraph.AuthorizationModelGraph, ds storage.OpenFGADatastore, strategy string, breadth int, rq fga.Req, ctxT []fga.Tuple, offered map[string]bool) (string, error) {
	pl := &forcedPlanner{want: strategy, offered: map[string]bool{}}
	defer func() {
		pl.mu.Lock()
		for k := range pl.offered {
			offered[k] = true
		}
		pl.mu.Unlock()
	}()
	q := commands.NewCheckQuery(
		commands.WithCheckQueryV2Datastore(ds),
		commands.WithCheckQueryV2Model(mg),
		commands.WithCheckQueryV2Planner(pl),
		commands.WithCheckQueryV2ConcurrencyLimit(breadth),
		commands.WithCheckQueryV2UpstreamTimeout(3*time.Second),
	)
	ctx, cancel := context.WithTimeout(context.Background(), 3*time.Second)
	defer cancel()
	var ct *openfgav1.ContextualTupleKeys
	if len(ctxT) > 0 {
		ct = &openfgav1.ContextualTupleKeys{TupleKeys: fga.Keys(ctxT)}
	}
	res, err := q.Execute(ctx, &commands.CheckCommandParams{
		StoreID:          fgarun.StoreID,
		TupleKey:         &openfgav1.CheckRequestTupleKey{Object: rq.Obj, Relation: rq.Rel, User: rq.User},
		ContextualTuples: ct,
		Context:          fga.CtxStruct(rq.Ctx),
	})
	return v2class(res, err), err
}

// runV2Fallback runs CheckQueryV2 (default strategy, concurrency 1) with the default engine as fallback Checker and
// returns the class of the answer and how often the fallback was taken.
func runV2Fallback(ts *typesystem.TypeSystem, mg *modelgraph.AuthorizationModelGraph, ds storage.OpenFGADatastore, depth int, rq fga.Req, ctxT []fga.Tuple) (string, int) {
	resolver, closer, err := graph.NewOrderedCheckResolvers(
		graph.WithLocalCheckerOpts(
			graph.WithResolveNodeBreadthLimit(1),
			graph.WithMaxResolutionDepth(uint32(depth)),
			graph.WithPlanner(&fgarun.ForcedPlanner{Want: "default"}),
			graph.WithOptimizations(true),
		),
	).Build()
	if err != nil {
		return "Esetup", 0
	}
	defer closer()
	v1cmd := commands.NewCheckCommand(ds, resolver, ts)
	q := commands.NewCheckQuery(
		commands.WithCheckQueryV2Datastore(ds),
		commands.WithCheckQueryV2Model(mg),
		commands.WithCheckQueryV2Planner(&forcedPlanner{want: "default", offered: map[string]bool{}}),
		commands.WithCheckQueryV2ConcurrencyLimit(1),
		commands.WithCheckQueryV2UpstreamTimeout(3*time.Second),
		commands.WithCheckQueryV2Fallback(v1cmd),
	)
	ctx, cancel := context.WithTimeout(context.Background(), 3*time.Second)
	defer cancel()
	var ct *openfgav1.ContextualTupleKeys
	if len(ctxT) > 0 {
		ct = &openfgav1.ContextualTupleKeys{TupleKeys: fga.Keys(ctxT)}
	}
	res, err := q.Execute(ctx, &commands.CheckCommandParams{
		StoreID:          fgarun.StoreID,
		TupleKey:         &openfgav1.CheckRequestTupleKey{Object: rq.Obj, Relation: rq.Rel, User: rq.User},
		ContextualTuples: ct,
		Context:          fga.CtxStruct(rq.Ctx),
	})
	if q.FallbackCount() > 0 {
		return v1class(fgarun.Canon(res, err)), q.FallbackCount()
	}
	return v2class(res, err), 0
}

// ---- server-level path (flag weighted_graph_check, fallback to v1, breaking-change log) -----------

var (
	srvOnce sync.Once
	srv     *server.Server
	srvDS   storage.OpenFGADatastore
	srvLogs *observer.ObservedLogs
)

func theServer() {
	srvOnce.Do(func() {
		core, logs := observer.New(zap.WarnLevel)
		srvLogs = logs
		srvDS = memory.New()
		srv = server.MustNewServerWithOpts(
			server.WithDatastore(srvDS),
			server.WithLogger(&logger.ZapLogger{Logger: zap.New(core)}),
			server.WithExperimentals("weighted_graph_check"),
			// breadth 1: the default engine behind the fallback is then deterministic up to the two goroutines of
			// `exclusion` (otherwise C02's finding F2 makes "fallback answer = default engine's answer" flaky)
			server.WithResolveNodeBreadthLimit(1),
		)
	})
}

// serverCheck returns the class of the answer, whether the server fell back to the default engine and the
// breaking-change reasons it logged.
func serverCheck(pm *openfgav1.AuthorizationModel, tuples, ctxT []fga.Tuple, rq fga.Req) (string, bool, []string) {
	theServer()
	ctx := context.Background()
	storeID := ulid.Make().String()
	if err := srvDS.WriteAuthorizationModel(ctx, storeID, pm); err != nil {
		return "Esetup", false, nil
	}
	for _, t := range tuples {
		if err := srvDS.Write(ctx, storeID, nil, []*openfgav1.TupleKey{t.Key()}); err != nil {
			return "Esetup", false, nil
		}
	}
	srvLogs.TakeAll()
	var ct *openfgav1.ContextualTupleKeys
	if len(ctxT) > 0 {
		ct = &openfgav1.ContextualTupleKeys{TupleKeys: fga.Keys(ctxT)}
	}
	resp, err := srv.Check(ctx, &openfgav1.CheckRequest{
		StoreId:              storeID,
		AuthorizationModelId: pm.GetId(),
		TupleKey:             &openfgav1.CheckRequestTupleKey{Object: rq.Obj, Relation: rq.Rel, User: rq.User},
		ContextualTuples:     ct,
		Context:              fga.CtxStruct(rq.Ctx),
	})
	fallback := false
	var reasons []string
	for _, e := range srvLogs.TakeAll() {
		switch e.Message {
		case "Weighted graph check failed, falling back":
			fallback = true
		case "potential v2 Check resolution breaking change":
			if r, ok := e.ContextMap()["reason"].(string); ok {
				reasons = append(reasons, r)
			}
		}
	}
	sort.Strings(reasons)
	cls := "F"
	if err != nil {
		cls = "Eother"
		if st, ok := status.FromError(err); ok {
			code := openfgav1.ErrorCode(st.Code())
			switch {
			case code == openfgav1.ErrorCode_invalid_tuple:
				cls = "Einvalidtuple"
			case code == openfgav1.ErrorCode_validation_error && strings.Contains(st.Message(), "condition"):
				cls = "Econd"
			case code == openfgav1.ErrorCode_validation_error:
				cls = "Evalidation"
			case code == openfgav1.ErrorCode_authorization_model_resolution_too_complex:
				cls = "Edepth"
			default:
				cls = "E" + strings.ReplaceAll(code.String(), " ", "_")
			}
		}
	} else if resp.GetAllowed() {
		cls = "T"
	}
	return cls, fallback, reasons
}

// mgErrKind classifies why the weighted graph could not be built (every such model is served by the
// default engine through the fallback).
func mgErrKind(err error) string {
	switch {
	case errors.Is(err, errConstraintTupleCycle):
		return "tuplecycle-and-butnot"
	case errors.Is(err, fmtErrTupleCycle):
		return "tuplecycle-unresolved"
	case errors.Is(err, errModelCycle):
		return "modelcycle"
	case errors.Is(err, errInvalidModel):
		return "invalidmodel"
	}
	return "other"
}

func dashJoin(xs []string, sep string) string {
	if len(xs) == 0 {
		return "-"
	}
	return strings.Join(xs, sep)
}

func exec(line string, st *hx.Stats) string {
	t := fga.NewToks(line)
	t.Expect("cfg")
	depth := t.Int()
	_ = t.Int()
	m := fga.DecodeModel(t)
	fga.SkipAux(t)
	tuples := fga.DecodeTuples(t, "tuples")
	ctxT := fga.DecodeTuples(t, "ctx")
	rq := fga.DecodeReq(t)
	pm := m.Proto(fgarun.ModelID)
	ts, err := typesystem.NewAndValidate(context.Background(), pm)
	if err != nil {
		return "invalid-model"
	}
	ds := fgarun.Store(tuples)
	defer ds.Close()
	var out []string
	v1 := v1class(fgarun.Check(ts, ds, fgarun.Config{MaxDepth: uint32(depth), Breadth: 1, Strategy: "default"}, rq, ctxT, nil))
	out = append(out, "v1 "+v1)
	st.Inc("v1:" + v1)
	tk := &openfgav1.CheckRequestTupleKey{Object: rq.Obj, Relation: rq.Rel, User: rq.User}
	userType := tuple.GetType(rq.User)
	if tuple.IsObjectRelation(rq.User) {
		userType = tuple.ToObjectRelationString(userType, tuple.GetRelation(rq.User))
	}
	mg, mgErr := modelgraph.New(pm)
	graphDump := ""
	var d1err error
	switch {
	case mgErr == nil:
		out = append(out, "mg ok")
		offered := map[string]bool{}
		var d1 string
		d1, d1err = runV2(mg, ds, "default", 1, rq, ctxT, offered)
		graphDump = dumpGraph(mg, userType)
		if os.Getenv("C03_PROBE_GRAPH") != "" {
			for i := 0; i < 6; i++ {
				mg2, err2 := modelgraph.New(pm)
				if err2 != nil || dumpGraph(mg2, userType) != graphDump {
					st.Inc("graph-nondeterministic")
					out = append(out, "gnd 1")
					break
				}
			}
		}
		out = append(out, "d1 "+d1)
		st.Inc("v2:" + d1)
		many := func(strategy string, breadth, reps int) string {
			seen := map[string]bool{}
			for i := 0; i < reps; i++ {
				c, _ := runV2(mg, ds, strategy, breadth, rq, ctxT, offered)
				seen[c] = true
			}
			var cs []string
			for c := range seen {
				cs = append(cs, c)
			}
			sort.Strings(cs)
			return strings.Join(cs, "|")
		}
		out = append(out, "d25 "+many("default", 25, 3))
		// the fast paths race two streams: repeat them where they are applicable
		w1, w25 := many("weight2", 1, 1), many("weight2", 25, 2)
		if offered["weight2"] {
			w1, w25 = w1+"|"+many("weight2", 1, 3), w25+"|"+many("weight2", 25, 6)
		}
		r1, r25 := many("recursive", 1, 1), many("recursive", 25, 2)
		if offered["recursive"] {
			r1, r25 = r1+"|"+many("recursive", 1, 2), r25+"|"+many("recursive", 25, 4)
		}
		out = append(out, "w1 "+w1, "w25 "+w25, "r1 "+r1, "r25 "+r25)
		// command level: CheckQueryV2 with a fallback Checker (the default engine, breadth 1)
		cfb, cfbn := runV2Fallback(ts, mg, ds, depth, rq, ctxT)
		out = append(out, "cfb "+cfb, fmt.Sprintf("cfbn %d", cfbn))
		// the classification that decides between returning an error and falling back
		term := "-"
		if d1err != nil {
			term = fmt.Sprintf("%d%d", b2i(commands.IsV2CheckTerminalError(d1err)), b2i(commands.IsV2CheckTerminalError(commands.CheckCommandErrorToServerError(d1err))))
		}
		out = append(out, "term "+term)
		var off []string
		for k := range offered {
			off = append(off, k)
			st.Inc("offered:" + k)
		}
		sort.Strings(off)
		out = append(out, "off "+dashJoin(off, ","))
	default:
		k := mgErrKind(mgErr)
		out = append(out, "mg "+k)
		st.Inc("mg:" + k)
	}
	sc, fb, reasons := serverCheck(pm, tuples, ctxT, rq)
	out = append(out, "srv "+sc, fmt.Sprintf("fb %d", b2i(fb)), "log "+dashJoin(reasons, ","))
	if fb {
		st.Inc("server-fallback")
	}
	d := func(s string) string {
		if s == "" {
			return "-"
		}
		return s
	}
	out = append(out, "cr "+d(v2breaking.CheckReason(ts, tk)), "cx "+d(v2breaking.CheckExclusionReason(ts, tk)), "ce "+d(v2breaking.CheckReasonFromV2Error(d1err)))
	if graphDump != "" {
		out = append(out, graphDump)
	}
	return strings.Join(out, " ")
}

func main() { hx.Main(hx.Harness{Gen: gen, Exec: exec}) }
