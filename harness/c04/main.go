// Harness for C04 (contextual tuples behave exactly like stored tuples).
//
// One case = a validated model, a base store s, two sets of movable tuples cA / cB (each passes
// ValidateTupleForWrite, keys disjoint from s) and a history of requests — Check, BatchCheck, ListObjects,
// ListUsers, Expand — each carrying cA, cB or no contextual tuples, interleaved, sent twice.
//
// "split" side : in-process server with ALL caches on (Check query cache, Check / ListObjects iterator caches,
//                shared iterators, model caches) over the store s; the request carries its contextual tuples.
// "ref" side   : in-process server without caches over the store s ∪ c (one store per contextual set), the
//                request carries nothing.
// Both sides are the real server code (default engine; again with the weighted-graph engine enabled).
// A "batm" step is a BatchCheck whose items carry DIFFERENT contextual sets (cA, cB or nothing, chosen per
// item); its reference answer is assembled from BatchChecks without contextual tuples against the store that
// holds the item's set.  Some histories get a crafted pair of contextual tuples on one object#relation — a
// typed wildcard and a user whose id sorts before '*' — and a Check for a third user of that type.
//
// Output per step: <split answer, caches on>/<split answer, no caches>/<reference answer>, "~" appended when re-asking the same question on the
// same side gave another answer (non-determinism of the engine itself: C02, not C04).
package main

import (
	"context"
	"fmt"
	"sort"
	"strings"
	"sync"
	"time"

	openfgav1 "github.com/openfga/api/proto/openfga/v1"
	"google.golang.org/grpc/status"

	"github.com/openfga/openfga/internal/validation"
	"github.com/openfga/openfga/pkg/server"
	"github.com/openfga/openfga/pkg/storage"
	"github.com/openfga/openfga/pkg/storage/memory"
	"github.com/openfga/openfga/pkg/typesystem"
	"github.com/openfga/openfga/verifharness/fga"
	"github.com/openfga/openfga/verifharness/fgarun"
	"github.com/openfga/openfga/verifharness/hx"
)

type step struct {
	kind string // chk | bat | batm | lo | lu | exp
	sel  string // a | b | n   (batm: m = per item, see sels)
	sels []string // batm: the contextual set of each item
	reqs []fga.Req
	typ  string // lo: object type; lu: user filter type
	frel string // lu: user filter relation
}

func b2i(b bool) int {
	if b {
		return 1
	}
	return 0
}

func dash(s string) string {
	if s == "" {
		return "-"
	}
	return s
}

func undash(s string) string {
	if s == "-" {
		return ""
	}
	return s
}

func encode(m *fga.Model, ts *typesystem.TypeSystem, base, cA, cB []fga.Tuple, steps []step) string {
	var sb strings.Builder
	fmt.Fprintf(&sb, "c04 %d %s %s %s %s steps %d", b2i(m.Stratified()), m.Encode(), fga.EncodeTuples("tuples", base),
		fga.EncodeTuples("ctx", cA), fga.EncodeTuples("ctx", cB), len(steps))
	for _, s := range steps {
		fmt.Fprintf(&sb, " %s %s", s.kind, s.sel)
		switch s.kind {
		case "chk":
			fmt.Fprintf(&sb, " %s %s", fga.EncodeAux(fga.Aux(m, ts, s.reqs[0].User)), s.reqs[0].Encode())
		case "bat":
			fmt.Fprintf(&sb, " %d", len(s.reqs))
			for _, r := range s.reqs {
				fmt.Fprintf(&sb, " %s %s", fga.EncodeAux(fga.Aux(m, ts, r.User)), r.Encode())
			}
		case "batm":
			fmt.Fprintf(&sb, " %d", len(s.reqs))
			for i, r := range s.reqs {
				fmt.Fprintf(&sb, " %s %s %s", s.sels[i], fga.EncodeAux(fga.Aux(m, ts, r.User)), r.Encode())
			}
		case "lo":
			fmt.Fprintf(&sb, " %s %s", s.typ, s.reqs[0].Encode())
		case "lu":
			fmt.Fprintf(&sb, " %s %s %s", s.typ, dash(s.frel), s.reqs[0].Encode())
		case "exp":
			fmt.Fprintf(&sb, " %s", s.reqs[0].Encode())
		}
	}
	return sb.String()
}

// looseCondition: the tuple carries a condition that no restriction of ITS shape (object / wildcard / userset) allows.
func looseCondition(m *fga.Model, t fga.Tuple) bool {
	if t.Cond == "" {
		return false
	}
	rd := m.FindRel(fga.TypeOf(t.Obj), t.Rel)
	if rd == nil {
		return false
	}
	ut, uid, urel := fga.UserParts(t.User)
	for _, x := range rd.Restrs {
		if x.Typ != ut || x.Cond != t.Cond {
			continue
		}
		switch {
		case urel != "":
			if x.Rel == urel && !x.Wild {
				return false
			}
		case uid == "*":
			if x.Wild {
				return false
			}
		default:
			if !x.Wild && x.Rel == "" {
				return false
			}
		}
	}
	return true
}

// craftedLoResidual: ListObjects whose candidates need a residual Check (intersection) that is answered through a
// DISPATCHED sub-problem (group#member -> team#member) deciding on a contextual tuple: with the query cache on, the
// sub-problem must be cached per request context, so the same question without (or with other) contextual tuples
// must not see it (weighted reverse expansion builds its own candidate Check requests).
func craftedLoResidual() string {
	this := func() *fga.Rewrite { return &fga.Rewrite{Kind: "this"} }
	cu := func(r string) *fga.Rewrite { return &fga.Rewrite{Kind: "cu", Rel: r} }
	u := fga.Restr{Typ: "user"}
	m := &fga.Model{Types: []*fga.TypeDef{{Name: "user"},
		{Name: "team", Rels: []*fga.RelDef{{Name: "member", Rewrite: this(), Restrs: []fga.Restr{u}}}},
		{Name: "group", Rels: []*fga.RelDef{{Name: "member", Rewrite: this(), Restrs: []fga.Restr{{Typ: "team", Rel: "member"}}}}},
		{Name: "doc", Rels: []*fga.RelDef{
			{Name: "allowed", Rewrite: this(), Restrs: []fga.Restr{u}},
			{Name: "via", Rewrite: this(), Restrs: []fga.Restr{{Typ: "group", Rel: "member"}}},
			{Name: "viewer", Rewrite: &fga.Rewrite{Kind: "inter", Kids: []*fga.Rewrite{cu("allowed"), cu("via")}}},
			{Name: "hidden", Rewrite: &fga.Rewrite{Kind: "diff", Kids: []*fga.Rewrite{cu("allowed"), cu("via")}}}}}}}
	ts, err := typesystem.NewAndValidate(context.Background(), m.Proto(fgarun.ModelID))
	if err != nil {
		panic(err)
	}
	base := []fga.Tuple{
		{Obj: "doc:1", Rel: "allowed", User: "user:x"}, {Obj: "doc:1", Rel: "via", User: "group:g#member"},
		{Obj: "doc:2", Rel: "allowed", User: "user:x"}, {Obj: "doc:2", Rel: "via", User: "group:h#member"},
		{Obj: "group:g", Rel: "member", User: "team:t#member"}, {Obj: "group:h", Rel: "member", User: "team:s#member"},
	}
	cA := []fga.Tuple{{Obj: "team:t", Rel: "member", User: "user:x"}}
	cB := []fga.Tuple{{Obj: "team:s", Rel: "member", User: "user:x"}}
	lo := func(sel, rel string) step {
		return step{kind: "lo", sel: sel, typ: "doc", reqs: []fga.Req{{Obj: "doc:1", Rel: rel, User: "user:x"}}}
	}
	steps := []step{lo("a", "viewer"), lo("n", "viewer"), lo("b", "viewer"), lo("a", "hidden"), lo("n", "hidden"), lo("b", "hidden"),
		{kind: "chk", sel: "n", reqs: []fga.Req{{Obj: "doc:1", Rel: "viewer", User: "user:x"}}}}
	return encode(m, ts, base, cA, cB, steps)
}

// craftedMergeOrder: an intersection one userset hop below the target, whose operand reads are sorted merges of the
// STORED tuples and the CONTEXTUAL tuples of the request (weighted-graph engine, weight-two / recursive strategies):
// stored and contextual tuples of one user and relation whose object ids INTERLEAVE (stored g1, g3 — contextual g2 and
// g0, g4) must merge into one sorted stream, or the sorted intersection skips objects.
func craftedMergeOrder() string {
	this := func() *fga.Rewrite { return &fga.Rewrite{Kind: "this"} }
	cu := func(r string) *fga.Rewrite { return &fga.Rewrite{Kind: "cu", Rel: r} }
	u := fga.Restr{Typ: "user"}
	m := &fga.Model{Types: []*fga.TypeDef{{Name: "user"},
		{Name: "group", Rels: []*fga.RelDef{
			{Name: "allowed", Rewrite: this(), Restrs: []fga.Restr{u}},
			{Name: "assigned", Rewrite: this(), Restrs: []fga.Restr{u}},
			{Name: "member", Rewrite: &fga.Rewrite{Kind: "inter", Kids: []*fga.Rewrite{cu("assigned"), cu("allowed")}}},
			{Name: "outcast", Rewrite: &fga.Rewrite{Kind: "diff", Kids: []*fga.Rewrite{cu("allowed"), cu("assigned")}}}}},
		{Name: "doc", Rels: []*fga.RelDef{
			{Name: "viewer", Rewrite: this(), Restrs: []fga.Restr{{Typ: "group", Rel: "member"}}},
			{Name: "guest", Rewrite: this(), Restrs: []fga.Restr{{Typ: "group", Rel: "outcast"}}}}}}}
	ts, err := typesystem.NewAndValidate(context.Background(), m.Proto(fgarun.ModelID))
	if err != nil {
		panic(err)
	}
	var base []fga.Tuple
	for _, g := range []string{"g0", "g1", "g2", "g3", "g4"} {
		base = append(base, fga.Tuple{Obj: "group:" + g, Rel: "allowed", User: "user:x"},
			fga.Tuple{Obj: "doc:" + g, Rel: "viewer", User: "group:" + g + "#member"},
			fga.Tuple{Obj: "doc:" + g, Rel: "guest", User: "group:" + g + "#outcast"})
	}
	base = append(base, fga.Tuple{Obj: "group:g1", Rel: "assigned", User: "user:x"}, fga.Tuple{Obj: "group:g3", Rel: "assigned", User: "user:x"})
	cA := []fga.Tuple{{Obj: "group:g2", Rel: "assigned", User: "user:x"}}
	cB := []fga.Tuple{{Obj: "group:g0", Rel: "assigned", User: "user:x"}, {Obj: "group:g4", Rel: "assigned", User: "user:x"}}
	var steps []step
	for rep := 0; rep < 3; rep++ { // repeated: the planner samples its strategies
		for _, sel := range []string{"a", "b", "n"} {
			for _, g := range []string{"g1", "g2", "g3", "g0", "g4"} {
				steps = append(steps, step{kind: "chk", sel: sel, reqs: []fga.Req{{Obj: "doc:" + g, Rel: "viewer", User: "user:x"}}})
				if rep == 0 {
					steps = append(steps, step{kind: "chk", sel: sel, reqs: []fga.Req{{Obj: "doc:" + g, Rel: "guest", User: "user:x"}}})
				}
			}
		}
	}
	return encode(m, ts, base, cA, cB, steps)
}

func gen(r *hx.Rand, n int, tier string, emit func(string), st *hx.Stats) {
	for i := 0; i < n; i++ {
		if i == 4 {
			emit(craftedMergeOrder())
			st.Inc("crafted:stored-and-contextual-objects-interleave")
			st.Inc("histories")
			continue
		}
		if i == 2 {
			emit(craftedLoResidual())
			st.Inc("crafted:listobjects-residual-check-on-contextual-tuple")
			st.Inc("histories")
			continue
		}
		c := r.Fork()
		m, ts := fga.GenModel(c, fga.DefaultOpts())
		if c.Chance(1, 4) {
			m, ts = fga.GenStrategyModel(c)
		}
		if len(m.Types) < 2 {
			i--
			continue
		}
		all := fga.GenTuples(c, m, 6+c.Intn(22))
		// split: a tuple may move to a contextual set only if it could be written
		var base, cA, cB []fga.Tuple
		// tuples that only the lax validateCondition accepts (finding F16/F25: condition declared on a restriction
		// of another shape of the user type) become contextual only in one case out of six
		allowLoose := c.Chance(1, 6)
		for _, t := range all {
			movable := validation.ValidateTupleForWrite(ts, t.Key()) == nil && (allowLoose || !looseCondition(m, t))
			switch k := c.Intn(10); {
			case movable && k < 3 && len(cA) < 8:
				cA = append(cA, t)
			case movable && k < 5 && len(cB) < 8:
				cB = append(cB, t)
			case movable && k < 6 && len(cA) < 8 && len(cB) < 8:
				cA = append(cA, t)
				cB = append(cB, t)
			default:
				base = append(base, t)
			}
		}
		// crafted: on one object#relation that admits `T` and `T:*` (both unconditioned), cA gets the typed wildcard
		// AND a user whose id sorts before '*' (or after: control); a third user of that type is checked below
		var crafted []step
		if c.Chance(1, 4) {
			type cand struct {
				typ string
				rd  *fga.RelDef
				ut  string
			}
			var cands []cand
			for _, t := range m.Types {
				for _, rd := range t.Rels {
					for _, x := range rd.Restrs {
						if !x.Wild || x.Cond != "" {
							continue
						}
						for _, y := range rd.Restrs {
							if y.Typ == x.Typ && !y.Wild && y.Rel == "" && y.Cond == "" {
								cands = append(cands, cand{t.Name, rd, x.Typ})
							}
						}
					}
				}
			}
			if len(cands) > 0 {
				cd := hx.Pick(c, cands)
				obj := fga.Ent(m, cd.typ, hx.Pick(c, []string{"a", "b", "c"}))
				odd := hx.Pick(c, []string{"$s", "!s", "(s", "%s", "+s", "s"})
				have := map[string]bool{}
				for _, t := range all {
					have[t.String()] = true
				}
				ok := true
				pair := []fga.Tuple{{Obj: obj, Rel: cd.rd.Name, User: cd.ut + ":*"}, {Obj: obj, Rel: cd.rd.Name, User: cd.ut + ":" + odd}}
				for _, t := range pair {
					if have[t.String()] || validation.ValidateTupleForWrite(ts, t.Key()) != nil {
						ok = false
					}
				}
				if ok {
					cA = append(cA, pair...)
					rq := fga.Req{Obj: obj, Rel: cd.rd.Name, User: cd.ut + ":" + hx.Pick(c, []string{"x", "z", "third"}), Ctx: fga.GenReqCtx(c, m)}
					crafted = append(crafted, step{kind: "chk", sel: "a", reqs: []fga.Req{rq}},
						step{kind: "batm", sel: "m", sels: []string{"b", "a", "n"}, reqs: []fga.Req{rq, rq, rq}})
					st.Inc("crafted:wildcard-and-low-id-in-one-bucket")
				}
			}
		}
		visible := append(append(append([]fga.Tuple{}, base...), cA...), cB...)
		k := 5 + c.Intn(10)
		var steps []step
		baseReq := fga.GenReq(c, m, visible)
		for j := 0; j < k; j++ {
			s := step{sel: hx.Pick(c, []string{"a", "a", "b", "n"})}
			rq := fga.GenReq(c, m, visible)
			if c.Chance(1, 2) {
				rq.User, rq.Ctx = baseReq.User, baseReq.Ctx
			}
			switch x := c.Intn(10); {
			case x < 4:
				s.kind = "chk"
				s.reqs = []fga.Req{rq}
			case x < 5:
				s.kind = "bat"
				nb := 2 + c.Intn(3)
				for q := 0; q < nb; q++ {
					r2 := fga.GenReq(c, m, visible)
					if c.Chance(1, 2) {
						r2.User, r2.Ctx = rq.User, rq.Ctx
					}
					s.reqs = append(s.reqs, r2)
				}
				if c.Chance(1, 2) {
					// every item with its own contextual set; half of the items probe a contextual tuple of their set
					s.kind, s.sel = "batm", "m"
					for q := range s.reqs {
						sl := hx.Pick(c, []string{"a", "b", "n"})
						s.sels = append(s.sels, sl)
						set := cA
						if sl == "b" {
							set = cB
						}
						if sl != "n" && len(set) > 0 && c.Chance(1, 2) {
							t := hx.Pick(c, set)
							if !strings.HasSuffix(t.User, ":*") {
								s.reqs[q] = fga.Req{Obj: t.Obj, Rel: t.Rel, User: t.User, Ctx: s.reqs[q].Ctx}
							}
						}
					}
				}
			case x < 7:
				s.kind = "lo"
				s.typ = fga.TypeOf(rq.Obj)
				s.reqs = []fga.Req{rq}
			case x < 8:
				s.kind = "lu"
				// user filter: a plain type or a userset type
				ut, _, urel := fga.UserParts(rq.User)
				s.typ, s.frel = ut, urel
				if c.Chance(1, 3) {
					s.typ, s.frel = "user", ""
				}
				s.reqs = []fga.Req{rq}
			default:
				s.kind = "exp"
				s.reqs = []fga.Req{rq}
			}
			st.Inc("step:" + s.kind + ":" + s.sel)
			steps = append(steps, s)
		}
		for _, cs := range crafted {
			at := c.Intn(len(steps) + 1)
			steps = append(steps[:at], append([]step{cs}, steps[at:]...)...)
			st.Inc("step:" + cs.kind + ":" + cs.sel)
		}
		k = len(steps)
		emit(encode(m, ts, base, cA, cB, steps))
		st.Inc("histories")
		st.Add("requests", 2*k)
		if len(cA)+len(cB) > 0 {
			st.Inc("with-contextual")
		}
		if allowLoose {
			st.Inc("loose-condition-tuples-allowed")
		}
		if !m.Stratified() {
			st.Inc("nonstratified")
		}
	}
}

// ---- servers (long-lived; every case gets fresh stores) ----

// ListUsers returns a PARTIAL answer without error when its deadline expires (some generated worlds make it
// run into the deadline on both sides); such answers are reported as "DL" and not compared.
const luDeadline = 400 * time.Millisecond

type rig struct {
	ds            storage.OpenFGADatastore
	cached, plain *server.Server
}

var (
	rigs     map[string]*rig
	rigsOnce sync.Once
)

func getRigs() map[string]*rig {
	rigsOnce.Do(func() {
		rigs = map[string]*rig{}
		for _, eng := range []string{"v1", "v2", "lo"} {
			ds := memory.New()
			common := []server.OpenFGAServiceV1Option{
				server.WithDatastore(ds),
				server.WithResolveNodeBreadthLimit(1),
				server.WithListObjectsDeadline(10 * time.Second),
				server.WithListUsersDeadline(luDeadline),
			}
			if eng == "v2" {
				common = append(common, server.WithExperimentals("weighted_graph_check"))
			}
			if eng == "lo" {
				// default Check engine, weighted reverse expansion for ListObjects (its residual Checks of
				// intersections/exclusions go through the query cache)
				common = append(common, server.WithExperimentals("enable-list-objects-optimizations"))
			}
			cached := server.MustNewServerWithOpts(append(append([]server.OpenFGAServiceV1Option{}, common...),
				server.WithCheckQueryCacheEnabled(true), server.WithCheckCacheLimit(100000), server.WithCheckQueryCacheTTL(time.Hour),
				server.WithCheckIteratorCacheEnabled(true), server.WithCheckIteratorCacheMaxResults(10000), server.WithCheckIteratorCacheTTL(time.Hour),
				server.WithListObjectsIteratorCacheEnabled(true), server.WithListObjectsIteratorCacheMaxResults(10000), server.WithListObjectsIteratorCacheTTL(time.Hour),
				server.WithSharedIteratorEnabled(true),
			)...)
			plain := server.MustNewServerWithOpts(common...)
			rigs[eng] = &rig{ds: ds, cached: cached, plain: plain}
		}
	})
	return rigs
}

func errClass(err error) string {
	if s, ok := status.FromError(err); ok {
		c := int32(s.Code())
		if name, ok := openfgav1.ErrorCode_name[c]; ok && c >= 2000 {
			return "E:" + name
		}
		if name, ok := openfgav1.InternalErrorCode_name[c]; ok && c >= 4000 {
			return "E:" + name
		}
		if name, ok := openfgav1.UnprocessableContentErrorCode_name[c]; ok && c >= 3000 {
			return "E:" + name
		}
		return fmt.Sprintf("E:code%d", c)
	}
	return "E:other"
}

func renderNode(n *openfgav1.UsersetTree_Node, sb *strings.Builder) {
	if n == nil {
		sb.WriteString("nil")
		return
	}
	name := dash(n.GetName())
	switch v := n.GetValue().(type) {
	case *openfgav1.UsersetTree_Node_Leaf:
		switch l := v.Leaf.GetValue().(type) {
		case *openfgav1.UsersetTree_Leaf_Users:
			us := l.Users.GetUsers()
			fmt.Fprintf(sb, "users;%s;%d", name, len(us))
			for _, u := range us {
				sb.WriteString(";" + dash(u))
			}
		case *openfgav1.UsersetTree_Leaf_Computed:
			fmt.Fprintf(sb, "computed;%s;%s", name, dash(l.Computed.GetUserset()))
		case *openfgav1.UsersetTree_Leaf_TupleToUserset:
			var cs []string
			for _, c := range l.TupleToUserset.GetComputed() {
				cs = append(cs, dash(c.GetUserset()))
			}
			sort.Strings(cs) // read order differs between contextual-first and store order: compared as a set
			fmt.Fprintf(sb, "ttu;%s;%s;%d", name, dash(l.TupleToUserset.GetTupleset()), len(cs))
			for _, c := range cs {
				sb.WriteString(";" + c)
			}
		default:
			sb.WriteString("leaf?")
		}
	case *openfgav1.UsersetTree_Node_Union:
		ks := v.Union.GetNodes()
		fmt.Fprintf(sb, "union;%s;%d", name, len(ks))
		for _, k := range ks {
			sb.WriteString(";")
			renderNode(k, sb)
		}
	case *openfgav1.UsersetTree_Node_Intersection:
		ks := v.Intersection.GetNodes()
		fmt.Fprintf(sb, "inter;%s;%d", name, len(ks))
		for _, k := range ks {
			sb.WriteString(";")
			renderNode(k, sb)
		}
	case *openfgav1.UsersetTree_Node_Difference:
		fmt.Fprintf(sb, "diff;%s;", name)
		renderNode(v.Difference.GetBase(), sb)
		sb.WriteString(";")
		renderNode(v.Difference.GetSubtract(), sb)
	default:
		sb.WriteString("node?")
	}
}

// ask sends one step to a server; ctxT are the contextual tuples the request carries (nil on the ref side).
func ask(srv *server.Server, storeID, modelID string, s step, ctxT []fga.Tuple) string {
	ctx, cancel := context.WithTimeout(context.Background(), 30*time.Second)
	defer cancel()
	var ct *openfgav1.ContextualTupleKeys
	if len(ctxT) > 0 {
		ct = &openfgav1.ContextualTupleKeys{TupleKeys: fga.Keys(ctxT)}
	}
	rq := s.reqs[0]
	switch s.kind {
	case "chk":
		resp, err := srv.Check(ctx, &openfgav1.CheckRequest{StoreId: storeID, AuthorizationModelId: modelID,
			TupleKey:         &openfgav1.CheckRequestTupleKey{Object: rq.Obj, Relation: rq.Rel, User: rq.User},
			ContextualTuples: ct, Context: fga.CtxStruct(rq.Ctx)})
		if err != nil {
			return errClass(err)
		}
		if resp.GetAllowed() {
			return "T"
		}
		return "F"
	case "bat":
		var checks []*openfgav1.BatchCheckItem
		for i, r := range s.reqs {
			checks = append(checks, &openfgav1.BatchCheckItem{
				TupleKey:         &openfgav1.CheckRequestTupleKey{Object: r.Obj, Relation: r.Rel, User: r.User},
				ContextualTuples: ct, Context: fga.CtxStruct(r.Ctx), CorrelationId: fmt.Sprintf("c%d", i)})
		}
		resp, err := srv.BatchCheck(ctx, &openfgav1.BatchCheckRequest{StoreId: storeID, AuthorizationModelId: modelID, Checks: checks})
		if err != nil {
			return errClass(err)
		}
		return strings.Join(batchAnswers(resp, len(s.reqs)), ",")
	case "lo":
		resp, err := srv.ListObjects(ctx, &openfgav1.ListObjectsRequest{StoreId: storeID, AuthorizationModelId: modelID,
			Type: s.typ, Relation: rq.Rel, User: rq.User, ContextualTuples: ct, Context: fga.CtxStruct(rq.Ctx)})
		if err != nil {
			return errClass(err)
		}
		objs := append([]string{}, resp.GetObjects()...)
		sort.Strings(objs)
		return "[" + strings.Join(objs, ",") + "]"
	case "lu":
		typ, id, _ := fga.UserParts(rq.Obj)
		var tks []*openfgav1.TupleKey
		if len(ctxT) > 0 {
			tks = fga.Keys(ctxT)
		}
		t0 := time.Now()
		resp, err := srv.ListUsers(ctx, &openfgav1.ListUsersRequest{StoreId: storeID, AuthorizationModelId: modelID,
			Object: &openfgav1.Object{Type: typ, Id: id}, Relation: rq.Rel,
			UserFilters:      []*openfgav1.UserTypeFilter{{Type: s.typ, Relation: s.frel}},
			ContextualTuples: tks, Context: fga.CtxStruct(rq.Ctx)})
		if time.Since(t0) > luDeadline*3/4 {
			return "DL"
		}
		if err != nil {
			return errClass(err)
		}
		var us []string
		for _, u := range resp.GetUsers() {
			switch x := u.GetUser().(type) {
			case *openfgav1.User_Object:
				us = append(us, x.Object.GetType()+":"+x.Object.GetId())
			case *openfgav1.User_Userset:
				us = append(us, x.Userset.GetType()+":"+x.Userset.GetId()+"#"+x.Userset.GetRelation())
			case *openfgav1.User_Wildcard:
				us = append(us, x.Wildcard.GetType()+":*")
			}
		}
		sort.Strings(us)
		return "[" + strings.Join(us, ",") + "]"
	case "exp":
		resp, err := srv.Expand(ctx, &openfgav1.ExpandRequest{StoreId: storeID, AuthorizationModelId: modelID,
			TupleKey: &openfgav1.ExpandRequestTupleKey{Object: rq.Obj, Relation: rq.Rel}, ContextualTuples: ct})
		if err != nil {
			return errClass(err)
		}
		var sb strings.Builder
		renderNode(resp.GetTree().GetRoot(), &sb)
		return sb.String()
	}
	return "?"
}

func batchAnswers(resp *openfgav1.BatchCheckResponse, n int) []string {
	var parts []string
	for i := 0; i < n; i++ {
		r := resp.GetResult()[fmt.Sprintf("c%d", i)]
		switch {
		case r == nil:
			parts = append(parts, "missing")
		case r.GetError() != nil:
			if ie := r.GetError().GetInputError(); ie != 0 {
				parts = append(parts, "E:"+ie.String())
			} else {
				parts = append(parts, "E:"+r.GetError().GetInternalError().String())
			}
		case r.GetAllowed():
			parts = append(parts, "T")
		default:
			parts = append(parts, "F")
		}
	}
	return parts
}

// askMixed sends a "batm" step: ONE BatchCheck whose item i carries the contextual set ctxOf[s.sels[i]].
func askMixed(srv *server.Server, storeID, modelID string, s step, ctxOf map[string][]fga.Tuple) string {
	ctx, cancel := context.WithTimeout(context.Background(), 30*time.Second)
	defer cancel()
	var checks []*openfgav1.BatchCheckItem
	for i, r := range s.reqs {
		var ct *openfgav1.ContextualTupleKeys
		if set := ctxOf[s.sels[i]]; len(set) > 0 {
			ct = &openfgav1.ContextualTupleKeys{TupleKeys: fga.Keys(set)}
		}
		checks = append(checks, &openfgav1.BatchCheckItem{
			TupleKey:         &openfgav1.CheckRequestTupleKey{Object: r.Obj, Relation: r.Rel, User: r.User},
			ContextualTuples: ct, Context: fga.CtxStruct(r.Ctx), CorrelationId: fmt.Sprintf("c%d", i)})
	}
	resp, err := srv.BatchCheck(ctx, &openfgav1.BatchCheckRequest{StoreId: storeID, AuthorizationModelId: modelID, Checks: checks})
	if err != nil {
		return errClass(err)
	}
	return strings.Join(batchAnswers(resp, len(s.reqs)), ",")
}

// askMixedRef is the reference answer of a "batm" step: for every contextual set one BatchCheck WITHOUT contextual
// tuples, holding the items of that set, against the store that also holds the set.
func askMixedRef(srv *server.Server, refStore map[string][2]string, s step) string {
	ctx, cancel := context.WithTimeout(context.Background(), 30*time.Second)
	defer cancel()
	out := make([]string, len(s.reqs))
	for _, sel := range []string{"a", "b", "n"} {
		var checks []*openfgav1.BatchCheckItem
		var idx []int
		for i, r := range s.reqs {
			if s.sels[i] != sel {
				continue
			}
			idx = append(idx, i)
			checks = append(checks, &openfgav1.BatchCheckItem{
				TupleKey: &openfgav1.CheckRequestTupleKey{Object: r.Obj, Relation: r.Rel, User: r.User},
				Context:  fga.CtxStruct(r.Ctx), CorrelationId: fmt.Sprintf("c%d", len(idx)-1)})
		}
		if len(checks) == 0 {
			continue
		}
		resp, err := srv.BatchCheck(ctx, &openfgav1.BatchCheckRequest{StoreId: refStore[sel][0], AuthorizationModelId: refStore[sel][1], Checks: checks})
		if err != nil {
			return errClass(err)
		}
		for j, a := range batchAnswers(resp, len(idx)) {
			out[idx[j]] = a
		}
	}
	return strings.Join(out, ",")
}

func exec(line string, st *hx.Stats) string {
	t := fga.NewToks(line)
	t.Expect("c04")
	_ = t.Int()
	m := fga.DecodeModel(t)
	base := fga.DecodeTuples(t, "tuples")
	cA := fga.DecodeTuples(t, "ctx")
	cB := fga.DecodeTuples(t, "ctx")
	t.Expect("steps")
	k := t.Int()
	var steps []step
	for j := 0; j < k; j++ {
		s := step{kind: t.Next(), sel: t.Next()}
		switch s.kind {
		case "chk":
			fga.SkipAux(t)
			s.reqs = []fga.Req{fga.DecodeReq(t)}
		case "bat":
			nb := t.Int()
			for q := 0; q < nb; q++ {
				fga.SkipAux(t)
				s.reqs = append(s.reqs, fga.DecodeReq(t))
			}
		case "batm":
			nb := t.Int()
			for q := 0; q < nb; q++ {
				s.sels = append(s.sels, t.Next())
				fga.SkipAux(t)
				s.reqs = append(s.reqs, fga.DecodeReq(t))
			}
		case "lo":
			s.typ = t.Next()
			s.reqs = []fga.Req{fga.DecodeReq(t)}
		case "lu":
			s.typ = t.Next()
			s.frel = undash(t.Next())
			s.reqs = []fga.Req{fga.DecodeReq(t)}
		case "exp":
			s.reqs = []fga.Req{fga.DecodeReq(t)}
		default:
			panic("bad step kind " + s.kind)
		}
		steps = append(steps, s)
	}
	pm := m.Proto(fgarun.ModelID)
	if _, err := typesystem.NewAndValidate(context.Background(), pm); err != nil {
		return "invalid-model"
	}
	ctxOf := map[string][]fga.Tuple{"a": cA, "b": cB, "n": nil}
	var out []string
	for _, eng := range []string{"v1", "v2", "lo"} {
		rg := getRigs()[eng]
		bg := context.Background()
		mkStore := func(tuples []fga.Tuple) (string, string) {
			cs, err := rg.plain.CreateStore(bg, &openfgav1.CreateStoreRequest{Name: "c04-case"})
			if err != nil {
				panic(err)
			}
			wm, err := rg.plain.WriteAuthorizationModel(bg, &openfgav1.WriteAuthorizationModelRequest{
				StoreId: cs.GetId(), SchemaVersion: "1.1", TypeDefinitions: pm.GetTypeDefinitions(), Conditions: pm.GetConditions()})
			if err != nil {
				panic("model rejected by the server: " + err.Error())
			}
			for _, tu := range tuples {
				// straight into the datastore: leftovers of other models are not writable through the API
				if err := rg.ds.Write(bg, cs.GetId(), nil, []*openfgav1.TupleKey{tu.Key()}); err != nil {
					panic(fmt.Sprintf("store write %s: %v", tu.String(), err))
				}
			}
			return cs.GetId(), wm.GetAuthorizationModelId()
		}
		splitStore, splitModel := mkStore(base)
		refStore := map[string][2]string{}
		for _, sel := range []string{"a", "b", "n"} {
			id, mid := mkStore(append(append([]fga.Tuple{}, base...), ctxOf[sel]...))
			refStore[sel] = [2]string{id, mid}
		}
		var parts []string
		for pass := 0; pass < 2; pass++ {
			for _, s := range steps {
				askSplit := func(srv *server.Server) string {
					if s.kind == "batm" {
						return askMixed(srv, splitStore, splitModel, s, ctxOf)
					}
					return ask(srv, splitStore, splitModel, s, ctxOf[s.sel])
				}
				askRef := func() string {
					if s.kind == "batm" {
						return askMixedRef(rg.plain, refStore, s)
					}
					return ask(rg.plain, refStore[s.sel][0], refStore[s.sel][1], s, nil)
				}
				a := askSplit(rg.cached) // contextual tuples, all caches on
				// a request that was cancelled gave no answer (seen transiently with the iterator cache + shared
				// iterators, also for requests without contextual tuples): ask again, report "CX" if it stays so
				// (inside a BatchCheck the cancelled item is reported as internal_error: transformCheckCommandErrorToBatchCheckError)
				cancelled := func(x string) bool {
					return strings.Contains(x, "E:cancelled") || ((s.kind == "bat" || s.kind == "batm") && strings.Contains(x, "E:internal_error"))
				}
				for rep := 0; rep < 3 && cancelled(a); rep++ {
					st.Inc("cached-side-cancelled")
					a = askSplit(rg.cached)
				}
				if cancelled(a) {
					a = "CX"
				}
				p := askSplit(rg.plain) // contextual tuples, no caches
				b := askRef()           // the same tuples stored
				if a == "DL" || b == "DL" || p == "DL" {
					a, b, p = "DL", "DL", "DL"
					st.Inc("listusers-deadline")
				}
				if a == "CX" {
					a, b, p = "DL", "DL", "DL"
					st.Inc("cached-side-cancelled-persistently")
				}
				mark := ""
				if a != b || p != b {
					st.Inc("mismatch:" + s.kind)
					// is any side unstable by itself?
					if s.kind == "batm" {
						// only non-determinism of Check ITSELF excuses a difference: every item alone (own contextual
						// set, no caches) and the reference are re-asked; a mixed batch whose answers vary from run to run
						// while its items are stable one by one is exactly what must not happen
						singles := func() string {
							var out []string
							for i := range s.reqs {
								out = append(out, ask(rg.plain, splitStore, splitModel, step{kind: "chk", sel: s.sels[i], reqs: s.reqs[i : i+1]}, ctxOf[s.sels[i]]))
							}
							return strings.Join(out, ",")
						}
						s0 := singles()
						for rep := 0; rep < 6 && mark == ""; rep++ {
							if singles() != s0 || askRef() != b {
								mark = "~"
							}
						}
					} else {
						for rep := 0; rep < 6 && mark == ""; rep++ {
							if askSplit(rg.cached) != a || askSplit(rg.plain) != p || askRef() != b {
								mark = "~"
							}
						}
					}
				}
				parts = append(parts, a+"/"+p+"/"+b+mark)
			}
		}
		out = append(out, eng+" "+strings.Join(parts, " "))
	}
	return strings.Join(out, " | ")
}

func main() { hx.Main(hx.Harness{Gen: gen, Exec: exec}) }
