// Mode hc: HIGHER_CONSISTENCY ListObjects after a write, with the ListObjects iterator cache enabled and warm.
package main

import (
	"context"
	"strings"
	"sync/atomic"
	"time"

	openfgav1 "github.com/openfga/api/proto/openfga/v1"
	"golang.org/x/sync/singleflight"

	"github.com/openfga/openfga/internal/shared"
	"github.com/openfga/openfga/pkg/server/commands"
	serverconfig "github.com/openfga/openfga/pkg/server/config"
	"github.com/openfga/openfga/pkg/storage"
	"github.com/openfga/openfga/verifharness/fga"
	"github.com/openfga/openfga/verifharness/fgarun"
	"github.com/openfga/openfga/verifharness/hx"
)

// countingDS counts the tuple reads that reach the datastore (a request served from the iterator cache
// issues none).
type countingDS struct {
	storage.OpenFGADatastore
	n atomic.Int64
}

func (c *countingDS) ReadStartingWithUser(ctx context.Context, store string, f storage.ReadStartingWithUserFilter, o storage.ReadStartingWithUserOptions) (storage.TupleIterator, error) {
	c.n.Add(1)
	return c.OpenFGADatastore.ReadStartingWithUser(ctx, store, f, o)
}

func (c *countingDS) Read(ctx context.Context, store string, f storage.ReadFilter, o storage.ReadOptions) (storage.TupleIterator, error) {
	c.n.Add(1)
	return c.OpenFGADatastore.Read(ctx, store, f, o)
}

func (c *countingDS) ReadUsersetTuples(ctx context.Context, store string, f storage.ReadUsersetTuplesFilter, o storage.ReadUsersetTuplesOptions) (storage.TupleIterator, error) {
	c.n.Add(1)
	return c.OpenFGADatastore.ReadUsersetTuples(ctx, store, f, o)
}

func (c *countingDS) ReadUserTuple(ctx context.Context, store string, f storage.ReadUserTupleFilter, o storage.ReadUserTupleOptions) (*openfgav1.Tuple, error) {
	c.n.Add(1)
	return c.OpenFGADatastore.ReadUserTuple(ctx, store, f, o)
}

// execHigher: `w` is the world over the store AFTER the write (edges / reverse expansion are reported for it,
// as in mode std); the engines run on a second store that starts as `pre`:
//
//  1. every engine (unary and streamed) answers MINIMIZE_LATENCY requests until one of them reaches the
//     datastore no more (the iterator cache is warm; entries are stored asynchronously),
//  2. the write turns the store into `post`,
//  3. every engine answers one HIGHER_CONSISTENCY request: reported under the keys of the unlimited runs
//     (ci wi pi sc sw sp), so the driver checks them per object against the oracle on `post`.
func execHigher(w *world, m *fga.Model, pre, post []fga.Tuple, st *hx.Stats) string {
	out := []string{"ed=" + w.edges(m), "re=" + w.reverseExpand()}
	ds := &countingDS{OpenFGADatastore: fgarun.Store(pre)}
	defer ds.Close()
	settings := serverconfig.NewDefaultCacheSettings()
	settings.CheckCacheLimit = 10000
	settings.ListObjectsIteratorCacheEnabled = true
	settings.ListObjectsIteratorCacheMaxResults = 1000
	settings.ListObjectsIteratorCacheTTL = time.Hour
	res, err := shared.NewSharedDatastoreResources(context.Background(), &singleflight.Group{}, ds, settings)
	if err != nil {
		return "E:other:build"
	}
	defer res.Close()
	hw := *w
	hw.ds = ds
	hw.cacheOpts = []commands.ListObjectsQueryOption{commands.WithListObjectsCache(res, settings)}
	hw.pref = openfgav1.ConsistencyPreference_MINIMIZE_LATENCY
	for _, e := range engines {
		warm := false
		for round := 0; round < 5 && !warm; round++ {
			before := ds.n.Load()
			hw.list(e, 1000, stdDeadline)
			res.WaitGroup.Wait()
			afterUnary := ds.n.Load()
			hw.streamed(e)
			res.WaitGroup.Wait()
			warm = afterUnary == before || ds.n.Load() == afterUnary
		}
		if warm {
			st.Inc("hc:warm-" + e.key)
		} else {
			st.Inc("hc:cold-" + e.key)
		}
	}
	// the write
	in := func(ts []fga.Tuple, t fga.Tuple) bool {
		for _, x := range ts {
			if x.String() == t.String() {
				return true
			}
		}
		return false
	}
	var dels []*openfgav1.TupleKeyWithoutCondition
	var adds []*openfgav1.TupleKey
	for _, t := range pre {
		if !in(post, t) {
			dels = append(dels, &openfgav1.TupleKeyWithoutCondition{Object: t.Obj, Relation: t.Rel, User: t.User})
		}
	}
	for _, t := range post {
		if !in(pre, t) {
			adds = append(adds, t.Key())
		}
	}
	if err := ds.Write(context.Background(), fgarun.StoreID, dels, adds); err != nil {
		return "E:other:write"
	}
	hw.pref = openfgav1.ConsistencyPreference_HIGHER_CONSISTENCY
	for _, e := range engines {
		out = append(out, e.key+"i="+hw.list(e, 1000, stdDeadline))
	}
	for _, e := range engines {
		out = append(out, "s"+e.key+"="+hw.streamed(e))
	}
	st.Inc("exec:higher")
	return strings.Join(out, " ")
}
