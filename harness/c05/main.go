// Harness for C05 (ListObjects returns exactly the permitted objects).
//
// One case = one world of the C01 input space (validated model, stored + contextual tuples with
// conditions / wildcards / usersets / leftovers) and one ListObjects request (type, relation, subject:
// object, wildcard or userset).  The executor runs, on the real code:
//
//	ed=…   graph.GetPrunedRelationshipEdges(target, source) for the subject reference and every relation
//	       of the model as source (the edge table the classic reverse expansion walks over)
//	re=…   the classic reverseexpand.ReverseExpandQuery.Execute itself: (object, NoFurtherEval|RequiresFurtherEval)
//	c<L>=  commands.ListObjectsQuery.Execute, classic engine   (pipeline off, no optimisation flag)
//	w<L>=  … weighted reverse expansion                         (flag enable-list-objects-optimizations, pipeline off)
//	p<L>=  … streaming pipeline                                 (default configuration: flag pipeline_list_objects)
//	       for result limits L in {1,2,3,i(=1000),0(=no limit, classic only)}
//	sc=    ExecuteStreamed (classic) collected from the stream
//	cd<k>= (tier thorough, mode dl) classic/weighted/pipeline with a slow datastore and a short deadline
//
// Every list is printed sorted (the emission order is schedule dependent); errors are mapped to a small enum.
package main

import (
	"context"
	"errors"
	"fmt"
	"os"
	"sort"
	"strings"
	"time"

	openfgav1 "github.com/openfga/api/proto/openfga/v1"
	"google.golang.org/grpc/metadata"

	"github.com/openfga/openfga/internal/condition"
	"github.com/openfga/openfga/internal/graph"
	"github.com/openfga/openfga/internal/validation"
	"github.com/openfga/openfga/pkg/featureflags"
	"github.com/openfga/openfga/pkg/server/commands"
	"github.com/openfga/openfga/pkg/server/commands/reverseexpand"
	serverconfig "github.com/openfga/openfga/pkg/server/config"
	serverErrors "github.com/openfga/openfga/pkg/server/errors"
	"github.com/openfga/openfga/pkg/storage"
	"github.com/openfga/openfga/pkg/storage/storagewrappers"
	"github.com/openfga/openfga/pkg/tuple"
	"github.com/openfga/openfga/pkg/typesystem"
	"github.com/openfga/openfga/verifharness/fga"
	"github.com/openfga/openfga/verifharness/fgarun"
	"github.com/openfga/openfga/verifharness/hx"
)

func b2i(b bool) int {
	if b {
		return 1
	}
	return 0
}

const placeholder = "_"

// request deadline of the runs that are not meant to be cut
const stdDeadline = 4 * time.Second

// ---- crafted shapes -------------------------------------------------------------------------

type craftedCase struct {
	m      *fga.Model
	tuples []fga.Tuple
	ctxT   []fga.Tuple
	rq     fga.Req
}

func this() *fga.Rewrite            { return &fga.Rewrite{Kind: "this"} }
func cu(r string) *fga.Rewrite      { return &fga.Rewrite{Kind: "cu", Rel: r} }
func ttu(ts, c string) *fga.Rewrite { return &fga.Rewrite{Kind: "ttu", Tupleset: ts, Computed: c} }
func op(k string, kids ...*fga.Rewrite) *fga.Rewrite {
	return &fga.Rewrite{Kind: k, Kids: kids}
}

func craftedCases() []craftedCase {
	u := fga.Restr{Typ: "user"}
	var out []craftedCase
	// F1 through the confirming Check: a cycle inside the subtracted operand
	f1 := &fga.Model{Types: []*fga.TypeDef{{Name: "user"},
		{Name: "team", Rels: []*fga.RelDef{{Name: "member", Rewrite: this(), Restrs: []fga.Restr{u, {Typ: "group", Rel: "member"}}}}},
		{Name: "group", Rels: []*fga.RelDef{{Name: "member", Rewrite: this(), Restrs: []fga.Restr{u, {Typ: "team", Rel: "member"}}}}},
		{Name: "doc", Rels: []*fga.RelDef{
			{Name: "blocked", Rewrite: this(), Restrs: []fga.Restr{u, {Typ: "group", Rel: "member"}}},
			{Name: "viewer", Rewrite: op("diff", this(), cu("blocked")), Restrs: []fga.Restr{u}},
		}}}}
	out = append(out, craftedCase{m: f1, tuples: []fga.Tuple{
		{Obj: "group:a", Rel: "member", User: "team:b#member"}, {Obj: "team:b", Rel: "member", User: "group:a#member"},
		{Obj: "doc:1", Rel: "blocked", User: "group:a#member"}, {Obj: "doc:1", Rel: "viewer", User: "user:x"},
		{Obj: "doc:2", Rel: "viewer", User: "user:x"},
	}, rq: fga.Req{Obj: "doc:" + placeholder, Rel: "viewer", User: "user:x"}})
	// F12 through the confirming Check: a swallowed condition error under "but not"
	f12 := &fga.Model{Types: []*fga.TypeDef{{Name: "user"},
		{Name: "group", Rels: []*fga.RelDef{{Name: "member", Rewrite: this(), Restrs: []fga.Restr{u}}}},
		{Name: "doc", Rels: []*fga.RelDef{
			{Name: "blocked", Rewrite: this(), Restrs: []fga.Restr{u, {Typ: "group", Rel: "member", Cond: "c1"}, {Typ: "group", Rel: "member"}}},
			{Name: "viewer", Rewrite: op("diff", this(), cu("blocked")), Restrs: []fga.Restr{u}},
		}}},
		Conds: []*fga.CondDef{{Name: "c1", Param: "x", Op: "lt", Const: 10}}}
	out = append(out, craftedCase{m: f12, tuples: []fga.Tuple{
		{Obj: "doc:1", Rel: "viewer", User: "user:x"},
		{Obj: "doc:1", Rel: "blocked", User: "group:a#member", Cond: "c1"},
		{Obj: "doc:1", Rel: "blocked", User: "group:b#member"},
		{Obj: "group:a", Rel: "member", User: "user:x"},
		{Obj: "doc:2", Rel: "viewer", User: "user:x"},
	}, rq: fga.Req{Obj: "doc:" + placeholder, Rel: "viewer", User: "user:x"}})
	// many confirmed candidates behind an intersection: limit counting under concurrent Checks
	inter := &fga.Model{Types: []*fga.TypeDef{{Name: "user"},
		{Name: "doc", Rels: []*fga.RelDef{
			{Name: "a", Rewrite: this(), Restrs: []fga.Restr{u}},
			{Name: "b", Rewrite: this(), Restrs: []fga.Restr{u}},
			{Name: "viewer", Rewrite: op("inter", cu("a"), cu("b"))},
		}}}}
	var it []fga.Tuple
	for _, id := range []string{"1", "2", "3", "4", "5", "6"} {
		it = append(it, fga.Tuple{Obj: "doc:" + id, Rel: "a", User: "user:x"})
		if id != "4" {
			it = append(it, fga.Tuple{Obj: "doc:" + id, Rel: "b", User: "user:x"})
		}
	}
	out = append(out, craftedCase{m: inter, tuples: it, rq: fga.Req{Obj: "doc:" + placeholder, Rel: "viewer", User: "user:x"}})
	// a wildcard tuple that carries the condition of the sibling (non-wildcard) restriction: accepted by
	// ValidateTupleForWrite/Read, honoured by Check and the classic engine
	sib := &fga.Model{Types: []*fga.TypeDef{{Name: "user"},
		{Name: "doc", Rels: []*fga.RelDef{
			{Name: "viewer", Rewrite: this(), Restrs: []fga.Restr{{Typ: "user", Cond: "c1"}, {Typ: "user", Wild: true}}},
		}}},
		Conds: []*fga.CondDef{{Name: "c1", Param: "x", Op: "lt", Const: 10}}}
	out = append(out, craftedCase{m: sib, tuples: []fga.Tuple{
		{Obj: "doc:1", Rel: "viewer", User: "user:*", Cond: "c1", Ctx: []fga.KV{{K: "x", V: 5}}},
		{Obj: "doc:2", Rel: "viewer", User: "user:*"},
	}, rq: fga.Req{Obj: "doc:" + placeholder, Rel: "viewer", User: "user:y"}})
	// wildcard subject and a contextual tuple that names a concrete user of that type
	wc := &fga.Model{Types: []*fga.TypeDef{{Name: "user"},
		{Name: "group", Rels: []*fga.RelDef{
			{Name: "a", Rewrite: this(), Restrs: []fga.Restr{u, {Typ: "user", Wild: true}}},
		}}}}
	out = append(out, craftedCase{m: wc, tuples: []fga.Tuple{{Obj: "group:b", Rel: "a", User: "user:*"}},
		ctxT: []fga.Tuple{{Obj: "group:c", Rel: "a", User: "user:x"}},
		rq:   fga.Req{Obj: "group:" + placeholder, Rel: "a", User: "user:*"}})
	// the flag of an earlier edge must survive later unflagged edges: group#member is an intersection,
	// doc#viewer only names the userset
	acc := &fga.Model{Types: []*fga.TypeDef{{Name: "user"},
		{Name: "group", Rels: []*fga.RelDef{
			{Name: "allowed", Rewrite: this(), Restrs: []fga.Restr{u}},
			{Name: "member", Rewrite: op("inter", this(), cu("allowed")), Restrs: []fga.Restr{u}},
		}},
		{Name: "doc", Rels: []*fga.RelDef{
			{Name: "parent", Rewrite: this(), Restrs: []fga.Restr{{Typ: "doc"}}},
			{Name: "viewer", Rewrite: op("union", this(), ttu("parent", "viewer")), Restrs: []fga.Restr{{Typ: "group", Rel: "member"}}},
		}}}}
	out = append(out, craftedCase{m: acc, tuples: []fga.Tuple{
		{Obj: "group:g", Rel: "member", User: "user:x"}, {Obj: "group:h", Rel: "member", User: "user:x"},
		{Obj: "group:h", Rel: "allowed", User: "user:x"},
		{Obj: "doc:1", Rel: "viewer", User: "group:g#member"}, {Obj: "doc:2", Rel: "viewer", User: "group:h#member"},
		{Obj: "doc:3", Rel: "parent", User: "doc:1"}, {Obj: "doc:4", Rel: "parent", User: "doc:2"},
	}, rq: fga.Req{Obj: "doc:" + placeholder, Rel: "viewer", User: "user:x"}})
	// the same object through a union-only path and through an exclusion whose subtracted operand has no
	// path to the subject type (weighted engine: exclusionHandler with ExcludedEdge == nil)
	dup := &fga.Model{Types: []*fga.TypeDef{{Name: "user"}, {Name: "employee"},
		{Name: "doc", Rels: []*fga.RelDef{
			{Name: "a", Rewrite: this(), Restrs: []fga.Restr{u}},
			{Name: "b", Rewrite: this(), Restrs: []fga.Restr{{Typ: "employee"}}},
			{Name: "c", Rewrite: this(), Restrs: []fga.Restr{u}},
			{Name: "viewer", Rewrite: op("union", op("diff", cu("a"), cu("b")), cu("c"))},
		}}}}
	out = append(out, craftedCase{m: dup, tuples: []fga.Tuple{
		{Obj: "doc:1", Rel: "a", User: "user:x"}, {Obj: "doc:1", Rel: "c", User: "user:x"},
		{Obj: "doc:2", Rel: "a", User: "user:x"}, {Obj: "doc:3", Rel: "c", User: "user:x"},
	}, rq: fga.Req{Obj: "doc:" + placeholder, Rel: "viewer", User: "user:x"}})
	// a condition that cannot be evaluated next to objects that are definitely permitted
	cnd := &fga.Model{Types: []*fga.TypeDef{{Name: "user"},
		{Name: "doc", Rels: []*fga.RelDef{
			{Name: "viewer", Rewrite: this(), Restrs: []fga.Restr{u, {Typ: "user", Cond: "c1"}}},
		}}},
		Conds: []*fga.CondDef{{Name: "c1", Param: "x", Op: "lt", Const: 10}}}
	out = append(out, craftedCase{m: cnd, tuples: []fga.Tuple{
		{Obj: "doc:1", Rel: "viewer", User: "user:x", Cond: "c1"},
		{Obj: "doc:2", Rel: "viewer", User: "user:x"}, {Obj: "doc:3", Rel: "viewer", User: "user:x"},
	}, rq: fga.Req{Obj: "doc:" + placeholder, Rel: "viewer", User: "user:x"}})
	// userset subject that is itself of the requested type and relation; TTU and computed chains
	us := &fga.Model{Types: []*fga.TypeDef{{Name: "user"},
		{Name: "folder", Rels: []*fga.RelDef{
			{Name: "parent", Rewrite: this(), Restrs: []fga.Restr{{Typ: "folder"}}},
			{Name: "owner", Rewrite: this(), Restrs: []fga.Restr{u, {Typ: "folder", Rel: "viewer"}}},
			{Name: "viewer", Rewrite: op("union", this(), cu("owner"), ttu("parent", "viewer")), Restrs: []fga.Restr{u, {Typ: "user", Wild: true}, {Typ: "folder", Rel: "owner"}}},
		}}}}
	ust := []fga.Tuple{
		{Obj: "folder:a", Rel: "parent", User: "folder:b"}, {Obj: "folder:b", Rel: "parent", User: "folder:c"},
		{Obj: "folder:c", Rel: "parent", User: "folder:a"},
		{Obj: "folder:c", Rel: "owner", User: "user:x"}, {Obj: "folder:d", Rel: "viewer", User: "user:*"},
		{Obj: "folder:e", Rel: "viewer", User: "folder:a#owner"}, {Obj: "folder:a", Rel: "owner", User: "folder:d#viewer"},
	}
	out = append(out, craftedCase{m: us, tuples: ust, rq: fga.Req{Obj: "folder:" + placeholder, Rel: "viewer", User: "user:x"}})
	out = append(out, craftedCase{m: us, tuples: ust, rq: fga.Req{Obj: "folder:" + placeholder, Rel: "viewer", User: "folder:c#viewer"}})
	out = append(out, craftedCase{m: us, tuples: ust, rq: fga.Req{Obj: "folder:" + placeholder, Rel: "viewer", User: "user:*"}})
	return out
}

func encodeCase(mode string, breadth int, m *fga.Model, ts *typesystem.TypeSystem, tuples, ctxT []fga.Tuple, rq fga.Req) string {
	return fmt.Sprintf("lo %s %d cfg 25 %d %s %s %s %s %s", mode, breadth, b2i(m.Stratified()), m.Encode(),
		fga.EncodeAux(fga.Aux(m, ts, rq.User)), fga.EncodeTuples("tuples", tuples), fga.EncodeTuples("ctx", ctxT), rq.Encode())
}

// hc cases carry the store before the write in front of the usual case (`tuples` = the store after it)
func encodeHigherCase(breadth int, sc shapeCase, ts *typesystem.TypeSystem) string {
	rest := strings.TrimPrefix(encodeCase("hc", breadth, sc.m, ts, sc.tuples, sc.ctxT, sc.rq), fmt.Sprintf("lo hc %d ", breadth))
	return fmt.Sprintf("lo hc %d %s %s", breadth, fga.EncodeTuples("pre", sc.pre), rest)
}

// r2 derives a throw-away PRNG from a copy of r's state (r itself is not advanced)
func r2(r *hx.Rand, salt int) *hx.Rand {
	cp := *r
	return hx.NewRand(cp.U64() ^ uint64(salt)*0x9E3779B97F4A7C15)
}

// ---- generator -------------------------------------------------------------------------------

var extraIDs = []string{"d", "e", "f", "g", "h"}

// widen clones the tuples on objects of the requested type onto additional object ids, so that result
// limits 1..3 actually cut.
func widen(r *hx.Rand, tuples []fga.Tuple, typ string) []fga.Tuple {
	seen := map[string]bool{}
	for _, t := range tuples {
		seen[t.String()] = true
	}
	n := r.Intn(len(extraIDs) + 1)
	out := append([]fga.Tuple{}, tuples...)
	for _, id := range extraIDs[:n] {
		for _, t := range tuples {
			if fga.TypeOf(t.Obj) != typ || !r.Chance(2, 3) {
				continue
			}
			c := t
			c.Obj = typ + ":" + id
			if seen[c.String()] {
				continue
			}
			seen[c.String()] = true
			out = append(out, c)
		}
	}
	return out
}

func gen(r *hx.Rand, n int, tier string, emit func(string), st *hx.Stats) {
	for _, cc := range craftedCases() {
		ts, err := typesystem.NewAndValidate(context.Background(), cc.m.Proto(fgarun.ModelID))
		if err != nil {
			panic("crafted model invalid: " + err.Error())
		}
		for _, b := range []int{1, 10} {
			emit(encodeCase("std", b, cc.m, ts, cc.tuples, cc.ctxT, cc.rq))
			st.Inc("crafted")
		}
		if tier == "thorough" {
			emit(encodeCase("dl", 3, cc.m, ts, cc.tuples, cc.ctxT, cc.rq))
			st.Inc("crafted")
		}
	}
	for i, sc := range shapeCases(r, tier) {
		ts, err := typesystem.NewAndValidate(context.Background(), sc.m.Proto(fgarun.ModelID))
		if err != nil {
			panic("shape model invalid: " + err.Error())
		}
		if sc.pre != nil {
			emit(encodeHigherCase(hx.Pick(r2(r, i+1), []int{1, 3, 10}), sc, ts))
		} else {
			br := hx.Pick(r2(r, i+1), []int{1, 1, 3, 10})
			if sc.kind == "wide" {
				br = 1
			}
			emit(encodeCase("std", br, sc.m, ts, sc.tuples, sc.ctxT, sc.rq))
		}
		st.Inc("shape:" + sc.kind)
	}
	multiThis := 0 // quick tier: at most one model of the shape that makes the pipeline hang (L4)
	for i := 0; i < n; {
		c := r.Fork()
		var m *fga.Model
		var ts *typesystem.TypeSystem
		if c.Chance(1, 4) {
			m, ts = fga.GenStrategyModel(c)
		} else {
			m, ts = fga.GenModel(c, fga.DefaultOpts())
		}
		if len(m.Types) < 2 {
			continue
		}
		// a relation whose rewrite names `this` more than once (only expressible through the JSON API) makes the
		// streaming pipeline hang when the relation is recursive (reported to C21): keep a small share of them
		if maxThis(m) > 1 {
			if tier != "thorough" && multiThis >= 1 || !c.Chance(1, 10) {
				continue
			}
			multiThis++
		}
		base := fga.GenTuples(c, m, 4+c.Intn(18))
		strat := m.Stratified()
		for k := 0; k < 3 && i < n; k++ {
			// prefer requests with a non-empty answer: draw up to 6 and keep the first one on which the real
			// classic engine returns something (or fails), with probability 5/6
			var rq fga.Req
			var typ string
			var tuples []fga.Tuple
			for try := 0; try < 12; try++ {
				rq = fga.GenReq(c, m, base)
				typ = fga.TypeOf(rq.Obj)
				rq.Obj = typ + ":" + placeholder
				tuples = widen(c, base, typ)
				if c.Chance(1, 12) || probeNonEmpty(m, ts, tuples, rq) {
					break
				}
			}
			var ctxT []fga.Tuple
			if c.Chance(1, 3) {
				seen := map[string]bool{}
				for _, t := range tuples {
					seen[t.String()] = true
				}
				for j := 0; j < 1+c.Intn(3); j++ {
					t, ok := fga.GenTuple(c, m)
					if !ok || seen[t.String()] {
						continue
					}
					if validation.ValidateTupleForWrite(ts, t.Key()) != nil {
						continue
					}
					seen[t.String()] = true
					ctxT = append(ctxT, t)
				}
			}
			breadth := hx.Pick(c, []int{1, 1, 3, 10})
			mode := "std"
			if tier == "thorough" && c.Chance(1, 5) {
				mode = "dl"
			}
			emit(encodeCase(mode, breadth, m, ts, tuples, ctxT, rq))
			i++
			st.Inc("cases")
			st.Inc("mode:" + mode)
			if !strat {
				st.Inc("nonstratified")
			}
			for _, kind := range []string{"diff", "inter", "ttu"} {
				if m.HasKind(kind) {
					st.Inc("with-" + kind)
				}
			}
			if len(m.Conds) > 0 {
				st.Inc("with-conditions")
			}
			if len(ctxT) > 0 {
				st.Inc("with-contextual")
			}
			if strings.Contains(rq.User, "#") {
				st.Inc("subject-userset")
			} else if strings.HasSuffix(rq.User, ":*") {
				st.Inc("subject-wildcard")
			} else {
				st.Inc("subject-object")
			}
		}
	}
}

func maxThis(m *fga.Model) int {
	best := 0
	var count func(rw *fga.Rewrite) int
	count = func(rw *fga.Rewrite) int {
		n := 0
		if rw.Kind == "this" {
			n = 1
		}
		for _, k := range rw.Kids {
			n += count(k)
		}
		return n
	}
	for _, t := range m.Types {
		for _, rd := range t.Rels {
			if c := count(rd.Rewrite); c > best {
				best = c
			}
		}
	}
	return best
}

// probeNonEmpty runs the real classic engine once to see whether the request has a non-empty answer.
func probeNonEmpty(m *fga.Model, ts *typesystem.TypeSystem, tuples []fga.Tuple, rq fga.Req) bool {
	mem := fgarun.Store(tuples)
	defer mem.Close()
	resolver, closer, err := graph.NewOrderedCheckResolvers(graph.WithLocalCheckerOpts(
		graph.WithResolveNodeBreadthLimit(3), graph.WithMaxResolutionDepth(25),
		graph.WithPlanner(&fgarun.ForcedPlanner{Want: "default"}), graph.WithOptimizations(true))).Build()
	if err != nil {
		return false
	}
	defer closer()
	w := &world{ts: ts, ds: mem, resolver: resolver, breadth: 3, typ: fga.TypeOf(rq.Obj), rq: rq}
	r := w.list(engines[0], 1000, stdDeadline)
	return r != "-" && r != "E:invalid"
}

// ---- executor --------------------------------------------------------------------------------

type slowReader struct {
	storage.RelationshipTupleReader
	d time.Duration
}

func (s slowReader) wait(ctx context.Context) {
	t := time.NewTimer(s.d)
	defer t.Stop()
	select {
	case <-ctx.Done():
	case <-t.C:
	}
}

func (s slowReader) ReadStartingWithUser(ctx context.Context, store string, f storage.ReadStartingWithUserFilter, o storage.ReadStartingWithUserOptions) (storage.TupleIterator, error) {
	s.wait(ctx)
	return s.RelationshipTupleReader.ReadStartingWithUser(ctx, store, f, o)
}

func (s slowReader) Read(ctx context.Context, store string, f storage.ReadFilter, o storage.ReadOptions) (storage.TupleIterator, error) {
	s.wait(ctx)
	return s.RelationshipTupleReader.Read(ctx, store, f, o)
}

func (s slowReader) ReadUsersetTuples(ctx context.Context, store string, f storage.ReadUsersetTuplesFilter, o storage.ReadUsersetTuplesOptions) (storage.TupleIterator, error) {
	s.wait(ctx)
	return s.RelationshipTupleReader.ReadUsersetTuples(ctx, store, f, o)
}

func (s slowReader) ReadUserTuple(ctx context.Context, store string, f storage.ReadUserTupleFilter, o storage.ReadUserTupleOptions) (*openfgav1.Tuple, error) {
	s.wait(ctx)
	return s.RelationshipTupleReader.ReadUserTuple(ctx, store, f, o)
}

func canonErr(err error) string {
	var ee *condition.EvaluationError
	switch {
	case errors.Is(err, serverErrors.ErrAuthorizationModelResolutionTooComplex), errors.Is(err, graph.ErrResolutionDepthExceeded):
		return "E:depth"
	case errors.Is(err, condition.ErrEvaluationFailed), errors.As(err, &ee):
		return "E:cond"
	case errors.Is(err, context.DeadlineExceeded), errors.Is(err, context.Canceled):
		return "E:deadline"
	}
	msg := err.Error()
	if strings.Contains(msg, "invalid 'user' value") || strings.Contains(msg, "Invalid tuple") || strings.Contains(msg, "type '") || strings.Contains(msg, "relation '") {
		return "E:invalid"
	}
	msg = strings.NewReplacer("\n", "_", "\t", "_", " ", "_", ";", "_", "=", "_").Replace(msg)
	if len(msg) > 120 {
		msg = msg[:120]
	}
	return "E:other:" + msg
}

func joinSorted(objs []string) string {
	if len(objs) == 0 {
		return "-"
	}
	s := append([]string{}, objs...)
	sort.Strings(s)
	return strings.Join(s, ",")
}

type engine struct {
	key      string
	pipeline bool
	flags    []string
}

var engines = []engine{
	{"c", false, nil},
	{"w", false, []string{serverconfig.ExperimentalListObjectsOptimizations}},
	{"p", true, []string{serverconfig.ExperimentalPipelineListObjects}},
}

type world struct {
	ts       *typesystem.TypeSystem
	ds       storage.RelationshipTupleReader
	resolver graph.CheckResolver
	breadth  int
	typ      string
	rq       fga.Req
	ctxT     []fga.Tuple
	// hc mode: consistency preference of the requests and the cache plumbing of the query
	pref      openfgav1.ConsistencyPreference
	cacheOpts []commands.ListObjectsQueryOption
}

func (w *world) query(e engine, limit uint32, deadline time.Duration) (*commands.ListObjectsQuery, error) {
	return commands.NewListObjectsQuery(w.ds, w.resolver, fgarun.StoreID, append([]commands.ListObjectsQueryOption{
		commands.WithListObjectsDeadline(deadline),
		commands.WithListObjectsMaxResults(limit),
		commands.WithResolveNodeLimit(25),
		commands.WithResolveNodeBreadthLimit(uint32(w.breadth)),
		commands.WithMaxConcurrentReads(30),
		commands.WithListObjectsPipelineEnabled(e.pipeline),
		commands.WithFeatureFlagClient(featureflags.NewDefaultClient(e.flags)),
	}, w.cacheOpts...)...)
}

func (w *world) ctxTuples() *openfgav1.ContextualTupleKeys {
	if len(w.ctxT) == 0 {
		return nil
	}
	return &openfgav1.ContextualTupleKeys{TupleKeys: fga.Keys(w.ctxT)}
}

// watchdog runs f and gives up after d: an engine that does not return is an outcome of its own
// (the goroutine is leaked).
func watchdog(d time.Duration, f func() string) string {
	ch := make(chan string, 1)
	go func() {
		defer func() {
			if p := recover(); p != nil {
				ch <- "PANIC:" + strings.NewReplacer("\n", "_", "\t", "_", " ", "_").Replace(fmt.Sprint(p))
			}
		}()
		ch <- f()
	}()
	t := time.NewTimer(d)
	defer t.Stop()
	select {
	case r := <-ch:
		return r
	case <-t.C:
		return "HANG"
	}
}

func (w *world) list(e engine, limit uint32, deadline time.Duration) string {
	t0 := time.Now()
	r := watchdog(deadline+4*time.Second, func() string { return w.list0(e, limit, deadline) })
	// a run that is not meant to be cut but came close to its deadline (starved machine) claims nothing
	if deadline == stdDeadline && r != "HANG" && time.Since(t0) > deadline*3/4 {
		return "E:deadline"
	}
	return r
}

func (w *world) list0(e engine, limit uint32, deadline time.Duration) string {
	q, err := w.query(e, limit, deadline)
	if err != nil {
		return "E:other:build"
	}
	ctx, cancel := context.WithTimeout(typesystem.ContextWithTypesystem(context.Background(), w.ts), 30*time.Second)
	defer cancel()
	res, err := q.Execute(ctx, &openfgav1.ListObjectsRequest{
		StoreId: fgarun.StoreID, AuthorizationModelId: fgarun.ModelID, Type: w.typ, Relation: w.rq.Rel, User: w.rq.User,
		ContextualTuples: w.ctxTuples(), Context: fga.CtxStruct(w.rq.Ctx), Consistency: w.pref,
	})
	if err != nil {
		return canonErr(err)
	}
	return joinSorted(res.Objects)
}

type fakeStream struct {
	ctx  context.Context
	objs []string
}

func (f *fakeStream) Send(r *openfgav1.StreamedListObjectsResponse) error {
	f.objs = append(f.objs, r.GetObject())
	return nil
}
func (f *fakeStream) SetHeader(metadata.MD) error  { return nil }
func (f *fakeStream) SendHeader(metadata.MD) error { return nil }
func (f *fakeStream) SetTrailer(metadata.MD)       {}
func (f *fakeStream) Context() context.Context     { return f.ctx }
func (f *fakeStream) SendMsg(any) error            { return nil }
func (f *fakeStream) RecvMsg(any) error            { return nil }

func (w *world) streamed(e engine) string {
	return watchdog(stdDeadline+4*time.Second, func() string { return w.streamed0(e) })
}

func (w *world) streamed0(e engine) string {
	q, err := w.query(e, 1000, stdDeadline)
	if err != nil {
		return "E:other:build"
	}
	ctx, cancel := context.WithTimeout(typesystem.ContextWithTypesystem(context.Background(), w.ts), 30*time.Second)
	defer cancel()
	fs := &fakeStream{ctx: ctx}
	_, err = q.ExecuteStreamed(ctx, &openfgav1.StreamedListObjectsRequest{
		StoreId: fgarun.StoreID, AuthorizationModelId: fgarun.ModelID, Type: w.typ, Relation: w.rq.Rel, User: w.rq.User,
		ContextualTuples: w.ctxTuples(), Context: fga.CtxStruct(w.rq.Ctx), Consistency: w.pref,
	}, fs)
	if err != nil {
		return canonErr(err)
	}
	return joinSorted(fs.objs)
}

func userRef(user string) reverseexpand.IsUserRef {
	userObj, userRel := tuple.SplitObjectRelation(user)
	t, id := tuple.SplitObject(userObj)
	if userRel != "" {
		return &reverseexpand.UserRefObjectRelation{ObjectRelation: &openfgav1.ObjectRelation{Object: userObj, Relation: userRel}}
	}
	if tuple.IsTypedWildcard(userObj) {
		return &reverseexpand.UserRefTypedWildcard{Type: tuple.GetType(userObj)}
	}
	return &reverseexpand.UserRefObject{Object: &openfgav1.Object{Type: t, Id: id}}
}

// reverseExpand runs the classic reverse expansion alone and reports every (object, status).
func (w *world) reverseExpand() string {
	ds := storage.RelationshipTupleReader(w.ds)
	if len(w.ctxT) > 0 {
		ds = storagewrappers.NewCombinedTupleReader(w.ds, fga.Keys(w.ctxT))
	}
	q := reverseexpand.NewReverseExpandQuery(ds, w.ts,
		reverseexpand.WithResolveNodeLimit(25),
		reverseexpand.WithResolveNodeBreadthLimit(uint32(w.breadth)),
		reverseexpand.WithCheckResolver(w.resolver),
	)
	ctx, cancel := context.WithTimeout(typesystem.ContextWithTypesystem(context.Background(), w.ts), 30*time.Second)
	defer cancel()
	ch := make(chan *reverseexpand.ReverseExpandResult, 4096)
	err := q.Execute(ctx, &reverseexpand.ReverseExpandRequest{
		StoreID: fgarun.StoreID, ObjectType: w.typ, Relation: w.rq.Rel, User: userRef(w.rq.User),
		ContextualTuples: fga.Keys(w.ctxT), Context: fga.CtxStruct(w.rq.Ctx),
	}, ch, reverseexpand.NewResolutionMetadata())
	if err != nil {
		return canonErr(err)
	}
	var out []string
	for r := range ch {
		s := "R"
		if r.ResultStatus == reverseexpand.NoFurtherEvalStatus {
			s = "N"
		}
		out = append(out, r.Object+"/"+s)
	}
	return joinSorted(out)
}

func relRef(t, r string, wild bool) *openfgav1.RelationReference {
	if wild {
		return typesystem.WildcardRelationReference(t)
	}
	return typesystem.DirectRelationReference(t, r)
}

func dash(s string) string {
	if s == "" {
		return "-"
	}
	return s
}

func (w *world) edges(m *fga.Model) string {
	g := graph.New(w.ts)
	target := typesystem.DirectRelationReference(w.typ, w.rq.Rel)
	type src struct {
		t, r string
		w    bool
	}
	var srcs []src
	ut, uid, ur := fga.UserParts(w.rq.User)
	srcs = append(srcs, src{ut, ur, ur == "" && uid == "*"})
	for _, t := range m.Types {
		for _, rd := range t.Rels {
			srcs = append(srcs, src{t.Name, rd.Name, false})
		}
	}
	var groups []string
	for _, s := range srcs {
		es, err := g.GetPrunedRelationshipEdges(target, relRef(s.t, s.r, s.w))
		head := fmt.Sprintf("%s,%s,%d:", s.t, dash(s.r), b2i(s.w))
		if err != nil {
			groups = append(groups, head+"ERR")
			continue
		}
		var parts []string
		for _, e := range es {
			k := map[graph.RelationshipEdgeType]string{graph.DirectEdge: "d", graph.ComputedUsersetEdge: "c", graph.TupleToUsersetEdge: "t"}[e.Type]
			parts = append(parts, fmt.Sprintf("%s/%s/%s/%s/%d", k, e.TargetReference.GetType(), e.TargetReference.GetRelation(), dash(e.TuplesetRelation),
				b2i(e.TargetReferenceInvolvesIntersectionOrExclusion)))
		}
		if len(parts) == 0 {
			groups = append(groups, head+"-")
		} else {
			groups = append(groups, head+strings.Join(parts, "+"))
		}
	}
	return strings.Join(groups, ";")
}

func exec(line string, st *hx.Stats) string {
	t := fga.NewToks(line)
	t.Expect("lo")
	mode := t.Next()
	breadth := t.Int()
	var pre []fga.Tuple
	if mode == "hc" {
		pre = fga.DecodeTuples(t, "pre")
	}
	t.Expect("cfg")
	depth := t.Int()
	_ = t.Int()
	m := fga.DecodeModel(t)
	fga.SkipAux(t)
	tuples := fga.DecodeTuples(t, "tuples")
	ctxT := fga.DecodeTuples(t, "ctx")
	rq := fga.DecodeReq(t)
	ts, err := typesystem.NewAndValidate(context.Background(), m.Proto(fgarun.ModelID))
	if err != nil {
		return "invalid-model"
	}
	mem := fgarun.Store(tuples)
	defer mem.Close()
	resolver, closer, err := graph.NewOrderedCheckResolvers(
		graph.WithLocalCheckerOpts(
			graph.WithResolveNodeBreadthLimit(uint32(breadth)),
			graph.WithMaxResolutionDepth(uint32(depth)),
			graph.WithPlanner(&fgarun.ForcedPlanner{Want: "default"}),
			graph.WithOptimizations(true),
		),
	).Build()
	if err != nil {
		return "E:other:build"
	}
	defer closer()
	w := &world{ts: ts, ds: mem, resolver: resolver, breadth: breadth, typ: fga.TypeOf(rq.Obj), rq: rq, ctxT: ctxT}
	var out []string
	if mode == "dl" {
		// a slow datastore and short deadlines: the answer may be cut anywhere
		w.ds = slowReader{mem, 300 * time.Microsecond}
		k := 0
		for _, e := range engines {
			for _, d := range []time.Duration{200 * time.Microsecond, 700 * time.Microsecond, 1500 * time.Microsecond, 4 * time.Millisecond} {
				out = append(out, fmt.Sprintf("%sd%d=%s", e.key, k, w.list(e, 1000, d)))
				k++
			}
		}
		st.Inc("exec:deadline")
		return strings.Join(out, " ")
	}
	if mode == "hc" {
		return execHigher(w, m, pre, tuples, st)
	}
	if only := os.Getenv("C05_ONLY"); only != "" { // debugging aid: run a single engine/limit
		for _, e := range engines {
			if strings.HasPrefix(only, e.key) {
				return only + "=" + w.list(e, 1000, stdDeadline)
			}
		}
	}
	out = append(out, "ed="+w.edges(m))
	out = append(out, "re="+w.reverseExpand())
	hung := map[string]bool{} // an engine that did not return once is not run again on this case
	for _, e := range engines {
		for _, l := range []uint32{1, 2, 3, 1000} {
			name := fmt.Sprint(l)
			if l == 1000 {
				name = "i"
			}
			r := "HANG"
			if !hung[e.key] {
				r = w.list(e, l, stdDeadline)
			}
			if r == "HANG" {
				hung[e.key] = true
				st.Inc("exec:hang-" + e.key)
			}
			out = append(out, fmt.Sprintf("%s%s=%s", e.key, name, r))
		}
	}
	out = append(out, "c0="+w.list(engines[0], 0, stdDeadline))
	out = append(out, "sc="+w.streamed(engines[0]))
	if hung["p"] {
		out = append(out, "sp=HANG")
	} else {
		out = append(out, "sp="+w.streamed(engines[2]))
	}
	st.Inc("exec:std")
	return strings.Join(out, " ")
}

func main() { hx.Main(hx.Harness{Gen: gen, Exec: exec}) }
