// Generated shapes for C05 that the random model generator reaches too rarely:
//
//	card   intersections / exclusions of 3-5 operands whose operand result sets have controlled, widely and
//	       NON-MONOTONICALLY varying cardinalities, with a "witness" object per operand (member of every
//	       operand set but that one): an engine that leaves any single operand out of the intersection
//	       returns the witness (streaming pipeline: worker.Intersection picks the smallest bag and tests it
//	       against the list of all the others).
//	resid  intersections / exclusions where the residual Check of SOME candidates fails with a condition
//	       evaluation error (missing context parameter) while many others are permitted: the answer must be
//	       an error or (limit reached) a full page, never a short list (weighted engine: loopOverEdges may
//	       only elide cancellation / deadline errors of the residual-check pool).
//	hc     warm iterator cache -> delete one listed tuple + add another -> HIGHER_CONSISTENCY ListObjects
//	       (unary and streamed, three engines) with the ListObjects iterator cache enabled: the answer must be
//	       the answer for the store after the write.
package main

import (
	"fmt"

	"github.com/openfga/openfga/verifharness/fga"
	"github.com/openfga/openfga/verifharness/hx"
)

type shapeCase struct {
	craftedCase
	kind string
	pre  []fga.Tuple // hc: the store before the write (craftedCase.tuples = the store after it)
}

func docID(i int) string { return fmt.Sprintf("doc:o%02d", i) }

// cardCase: forced = 1 puts, in operand order, a running minimum at operand 0, a larger set at operand 1 and
// a new minimum at operand 2 (the new minimum is not adjacent to the previous one); forced = 2 does the same
// from the other end; forced = 0 draws all cardinalities at random.
func cardCase(c *hx.Rand, forced int) shapeCase {
	u := fga.Restr{Typ: "user"}
	const me = "user:x"
	k := 3 + c.Intn(3)
	next := 0
	fresh := func() string { next++; return docID(next) }
	member := make([]map[string]bool, k)
	for i := range member {
		member[i] = map[string]bool{}
	}
	// core: in every operand set
	for n := c.Intn(3); n > 0; n-- {
		o := fresh()
		for i := range member {
			member[i][o] = true
		}
	}
	// witnesses: in every operand set but one
	nw := 0
	for j := 0; j < k; j++ {
		if nw >= 2 && !c.Chance(3, 4) && !(forced == 1 && j == 0) && !(forced == 2 && j == k-1) {
			continue
		}
		nw++
		o := fresh()
		for i := range member {
			if i != j {
				member[i][o] = true
			}
		}
	}
	// shared pads: in a random proper subset of the operands
	for n := c.Intn(5); n > 0; n-- {
		o := fresh()
		in := 0
		for i := range member {
			if in < k-1 && c.Chance(1, 2) {
				member[i][o] = true
				in++
			}
		}
	}
	// cardinalities
	target := make([]int, k)
	for i := range target {
		target[i] = len(member[i]) + hx.Pick(c, []int{0, 0, 1, 2, 4, 7, 12, 18})
	}
	force := func(a, b, m int) { // |S_m| < |S_a| < |S_b|
		target[m] = len(member[m])
		target[a] = max(len(member[a]), target[m]+1+c.Intn(2))
		target[b] = max(len(member[b]), target[a]+3+c.Intn(9))
	}
	switch forced {
	case 1:
		force(0, 1, 2)
	case 2:
		force(k-1, k-2, k-3)
	}
	private := make([][]string, k)
	for i := range member {
		for len(member[i]) < target[i] {
			o := fresh()
			member[i][o] = true
			private[i] = append(private[i], o)
		}
	}
	// model
	doc := &fga.TypeDef{Name: "doc"}
	var tuples []fga.Tuple
	add := func(o, rel, user string) { tuples = append(tuples, fga.Tuple{Obj: o, Rel: rel, User: user}) }
	thisAt := -1
	if c.Chance(1, 4) {
		thisAt = c.Intn(k)
	}
	var ops []*fga.Rewrite
	for i := 0; i < k; i++ {
		rel := fmt.Sprintf("s%d", i)
		set := map[string]bool{}
		for o := range member[i] {
			set[o] = true
		}
		switch {
		case i == thisAt:
			rel = "viewer"
			ops = append(ops, this())
		case c.Chance(1, 6): // (s_i but not x_i): x_i holds extra objects only
			xr := fmt.Sprintf("x%d", i)
			doc.Rels = append(doc.Rels, &fga.RelDef{Name: xr, Rewrite: this(), Restrs: []fga.Restr{u}})
			for n := 1 + c.Intn(3); n > 0; n-- {
				o := fresh()
				set[o] = true
				add(o, xr, me)
			}
			ops = append(ops, op("diff", cu(rel), cu(xr)))
		case c.Chance(1, 6) && len(private[i]) > 0: // (s_i or y_i): some private objects come through y_i
			yr := fmt.Sprintf("y%d", i)
			doc.Rels = append(doc.Rels, &fga.RelDef{Name: yr, Rewrite: this(), Restrs: []fga.Restr{u}})
			for _, o := range private[i][:1+c.Intn(len(private[i]))] {
				delete(set, o)
				add(o, yr, me)
			}
			ops = append(ops, op("union", cu(rel), cu(yr)))
		default:
			ops = append(ops, cu(rel))
		}
		if rel != "viewer" {
			doc.Rels = append(doc.Rels, &fga.RelDef{Name: rel, Rewrite: this(), Restrs: []fga.Restr{u}})
		}
		for j := 1; j <= next; j++ { // deterministic order
			if set[docID(j)] {
				add(docID(j), rel, me)
				if c.Chance(1, 5) {
					add(docID(j), rel, "user:y")
				}
			}
		}
	}
	rw := op("inter", ops...)
	switch c.Intn(4) {
	case 0: // (… and … and …) but not z
		doc.Rels = append(doc.Rels, &fga.RelDef{Name: "z", Rewrite: this(), Restrs: []fga.Restr{u}})
		for n := 1 + c.Intn(2); n > 0; n-- {
			add(docID(1+c.Intn(next)), "z", me)
		}
		rw = op("diff", rw, cu("z"))
	case 1: // (… and … and …) or w
		doc.Rels = append(doc.Rels, &fga.RelDef{Name: "w", Rewrite: this(), Restrs: []fga.Restr{u}})
		add(fresh(), "w", me)
		rw = op("union", rw, cu("w"))
	}
	viewer := &fga.RelDef{Name: "viewer", Rewrite: rw}
	if thisAt >= 0 {
		viewer.Restrs = []fga.Restr{u}
	}
	doc.Rels = append(doc.Rels, viewer)
	// `z`/`w` tuples were appended after the operand tuples: de-duplicate (the same object may be drawn twice)
	seen := map[string]bool{}
	var uniq []fga.Tuple
	for _, t := range tuples {
		if !seen[t.String()] {
			seen[t.String()] = true
			uniq = append(uniq, t)
		}
	}
	m := &fga.Model{Types: []*fga.TypeDef{{Name: "user"}, doc}}
	return shapeCase{kind: fmt.Sprintf("card%d", k), craftedCase: craftedCase{m: m, tuples: uniq,
		rq: fga.Req{Obj: "doc:" + placeholder, Rel: "viewer", User: me}}}
}

// residErrCase: `viewer: [user] and gate` / `[user] and gate and g2` / `[user] but not blocked` (operand order
// random) where gate / blocked accept `user with c1`; SOME candidates carry that relation with condition c1 and
// no parameter anywhere (tuple or request): their residual Check cannot be evaluated.
func residErrCase(c *hx.Rand) shapeCase {
	u := fga.Restr{Typ: "user"}
	uc := fga.Restr{Typ: "user", Cond: "c1"}
	const me = "user:x"
	n := 8 + c.Intn(30)
	variant := c.Intn(4)
	errAt := map[int]bool{}
	for e := 1 + c.Intn(3); e > 0; e-- {
		if c.Chance(1, 2) {
			errAt[1+c.Intn(1+n/3)] = true // early
		} else {
			errAt[1+c.Intn(n)] = true
		}
	}
	doc := &fga.TypeDef{Name: "doc"}
	var tuples []fga.Tuple
	side := "gate"
	if variant == 2 {
		side = "blocked"
	}
	doc.Rels = append(doc.Rels, &fga.RelDef{Name: side, Rewrite: this(), Restrs: []fga.Restr{u, uc}})
	for i := 1; i <= n; i++ {
		o := docID(i)
		tuples = append(tuples, fga.Tuple{Obj: o, Rel: "viewer", User: me})
		switch {
		case errAt[i]: // unevaluable: parameter x is missing
			tuples = append(tuples, fga.Tuple{Obj: o, Rel: side, User: me, Cond: "c1"})
		case c.Chance(1, 8): // evaluable condition, true / false
			tuples = append(tuples, fga.Tuple{Obj: o, Rel: side, User: me, Cond: "c1", Ctx: []fga.KV{{K: "x", V: hx.Pick(c, []int{5, 50})}}})
		case variant == 2: // exclusion: most candidates are not blocked
			if c.Chance(1, 6) {
				tuples = append(tuples, fga.Tuple{Obj: o, Rel: side, User: me})
			}
		default: // intersection: most candidates pass the gate
			if !c.Chance(1, 6) {
				tuples = append(tuples, fga.Tuple{Obj: o, Rel: side, User: me})
			}
		}
	}
	var rw *fga.Rewrite
	switch variant {
	case 0:
		rw = op("inter", this(), cu(side))
	case 1:
		rw = op("inter", cu(side), this())
	case 2:
		rw = op("diff", this(), cu(side))
	default:
		doc.Rels = append(doc.Rels, &fga.RelDef{Name: "g2", Rewrite: this(), Restrs: []fga.Restr{u}})
		for i := 1; i <= n; i++ {
			if !c.Chance(1, 7) {
				tuples = append(tuples, fga.Tuple{Obj: docID(i), Rel: "g2", User: me})
			}
		}
		rw = op("inter", this(), cu(side), cu("g2"))
	}
	doc.Rels = append(doc.Rels, &fga.RelDef{Name: "viewer", Rewrite: rw, Restrs: []fga.Restr{u}})
	m := &fga.Model{Types: []*fga.TypeDef{{Name: "user"}, doc},
		Conds: []*fga.CondDef{{Name: "c1", Param: "x", Op: "lt", Const: 10}}}
	return shapeCase{kind: fmt.Sprintf("resid%d", variant), craftedCase: craftedCase{m: m, tuples: tuples,
		rq: fga.Req{Obj: "doc:" + placeholder, Rel: "viewer", User: me}}}
}

// prefixCase: a tupleset relation that admits two parent types whose NAMES share a prefix, the longer one listed
// first and carrying a condition (`parent: [team_archive with c1, team]`): the edge that supplies the condition
// filter for the parent-tuple read must be chosen by type-name equality, not by prefix.
func prefixCase(c *hx.Rand) shapeCase {
	u := fga.Restr{Typ: "user"}
	const me = "user:x"
	long, short := "team_archive", "team"
	if c.Chance(1, 3) {
		long, short = "teams", "team"
	}
	restrs := []fga.Restr{{Typ: long, Cond: "c1"}, {Typ: short}}
	if c.Chance(1, 4) {
		restrs = []fga.Restr{{Typ: short}, {Typ: long, Cond: "c1"}}
	}
	m := &fga.Model{Types: []*fga.TypeDef{{Name: "user"},
		{Name: short, Rels: []*fga.RelDef{{Name: "member", Rewrite: this(), Restrs: []fga.Restr{u}}}},
		{Name: long, Rels: []*fga.RelDef{{Name: "member", Rewrite: this(), Restrs: []fga.Restr{u}}}},
		{Name: "doc", Rels: []*fga.RelDef{
			{Name: "parent", Rewrite: this(), Restrs: restrs},
			{Name: "viewer", Rewrite: ttu("parent", "member")}}}},
		Conds: []*fga.CondDef{{Name: "c1", Param: "x", Op: "lt", Const: 10}}}
	var tuples []fga.Tuple
	n := 4 + c.Intn(8)
	for i := 1; i <= n; i++ {
		o := docID(i)
		switch c.Intn(4) {
		case 0, 1: // unconditioned parent of the short type
			p := fmt.Sprintf("%s:s%d", short, 1+c.Intn(3))
			tuples = append(tuples, fga.Tuple{Obj: o, Rel: "parent", User: p})
		case 2: // conditioned parent of the long type, condition true / false
			p := fmt.Sprintf("%s:l%d", long, 1+c.Intn(3))
			tuples = append(tuples, fga.Tuple{Obj: o, Rel: "parent", User: p, Cond: "c1", Ctx: []fga.KV{{K: "x", V: hx.Pick(c, []int{5, 50})}}})
		default: // both
			tuples = append(tuples, fga.Tuple{Obj: o, Rel: "parent", User: fmt.Sprintf("%s:s%d", short, 1+c.Intn(3))},
				fga.Tuple{Obj: o, Rel: "parent", User: fmt.Sprintf("%s:l%d", long, 1+c.Intn(3)), Cond: "c1", Ctx: []fga.KV{{K: "x", V: 50}}})
		}
	}
	for i := 1; i <= 3; i++ {
		if c.Chance(2, 3) {
			tuples = append(tuples, fga.Tuple{Obj: fmt.Sprintf("%s:s%d", short, i), Rel: "member", User: me})
		}
		if c.Chance(2, 3) {
			tuples = append(tuples, fga.Tuple{Obj: fmt.Sprintf("%s:l%d", long, i), Rel: "member", User: me})
		}
	}
	return shapeCase{kind: "prefix", craftedCase: craftedCase{m: m, tuples: tuples,
		rq: fga.Req{Obj: "doc:" + placeholder, Rel: "viewer", User: me}}}
}

// wideCase: many more candidates that need a residual Check (intersection / exclusion) than any result buffer
// holds; run at breadth limit 1 (kind "wide…" is pinned to breadth 1 by the emitter): the worker pool of the classic
// engine must have room for the reverse expansion AND one checker, or the call stalls until its deadline and
// silently returns a partial list.
func wideCase(c *hx.Rand) shapeCase {
	u := fga.Restr{Typ: "user"}
	const me = "user:x"
	n := 140 + c.Intn(60)
	doc := &fga.TypeDef{Name: "doc"}
	excl := c.Chance(1, 3)
	side := "gate"
	if excl {
		side = "blocked"
	}
	doc.Rels = append(doc.Rels, &fga.RelDef{Name: side, Rewrite: this(), Restrs: []fga.Restr{u}})
	var tuples []fga.Tuple
	for i := 1; i <= n; i++ {
		o := fmt.Sprintf("doc:w%03d", i)
		tuples = append(tuples, fga.Tuple{Obj: o, Rel: "viewer", User: me})
		if excl {
			if i%9 == 0 {
				tuples = append(tuples, fga.Tuple{Obj: o, Rel: side, User: me})
			}
		} else if i%9 != 0 {
			tuples = append(tuples, fga.Tuple{Obj: o, Rel: side, User: me})
		}
	}
	rw := op("inter", this(), cu(side))
	if excl {
		rw = op("diff", this(), cu(side))
	}
	doc.Rels = append(doc.Rels, &fga.RelDef{Name: "viewer", Rewrite: rw, Restrs: []fga.Restr{u}})
	m := &fga.Model{Types: []*fga.TypeDef{{Name: "user"}, doc}}
	return shapeCase{kind: "wide", craftedCase: craftedCase{m: m, tuples: tuples,
		rq: fga.Req{Obj: "doc:" + placeholder, Rel: "viewer", User: me}}}
}

// higherCase: a store `pre`, and the store after one write that deletes a tuple behind a listed object and adds
// a tuple that lists a new object.
func higherCase(c *hx.Rand) shapeCase {
	u := fga.Restr{Typ: "user"}
	const me = "user:x"
	n := 3 + c.Intn(6)
	variant := c.Intn(3)
	var m *fga.Model
	var pre, del, add []fga.Tuple
	switch variant {
	case 0: // direct assignment
		m = &fga.Model{Types: []*fga.TypeDef{{Name: "user"}, {Name: "doc", Rels: []*fga.RelDef{
			{Name: "viewer", Rewrite: this(), Restrs: []fga.Restr{u}}}}}}
		for i := 1; i <= n; i++ {
			pre = append(pre, fga.Tuple{Obj: docID(i), Rel: "viewer", User: me})
		}
		del = []fga.Tuple{pre[c.Intn(n)]}
		add = []fga.Tuple{{Obj: docID(n + 1), Rel: "viewer", User: me}}
	case 1: // intersection: candidates + confirming / residual Check
		m = &fga.Model{Types: []*fga.TypeDef{{Name: "user"}, {Name: "doc", Rels: []*fga.RelDef{
			{Name: "gate", Rewrite: this(), Restrs: []fga.Restr{u}},
			{Name: "viewer", Rewrite: op("inter", this(), cu("gate")), Restrs: []fga.Restr{u}}}}}}
		for i := 1; i <= n+1; i++ {
			pre = append(pre, fga.Tuple{Obj: docID(i), Rel: "gate", User: me})
			if i <= n {
				pre = append(pre, fga.Tuple{Obj: docID(i), Rel: "viewer", User: me})
			}
		}
		victim := docID(1 + c.Intn(n))
		del = []fga.Tuple{{Obj: victim, Rel: hx.Pick(c, []string{"viewer", "gate"}), User: me}}
		add = []fga.Tuple{{Obj: docID(n + 1), Rel: "viewer", User: me}}
	default: // through a group: the write changes the membership
		m = &fga.Model{Types: []*fga.TypeDef{{Name: "user"},
			{Name: "group", Rels: []*fga.RelDef{{Name: "member", Rewrite: this(), Restrs: []fga.Restr{u}}}},
			{Name: "doc", Rels: []*fga.RelDef{
				{Name: "viewer", Rewrite: this(), Restrs: []fga.Restr{u, {Typ: "group", Rel: "member"}}}}}}}
		for i := 1; i <= n; i++ {
			pre = append(pre, fga.Tuple{Obj: docID(i), Rel: "viewer", User: fmt.Sprintf("group:g%d#member", i%3)})
		}
		pre = append(pre, fga.Tuple{Obj: "group:g0", Rel: "member", User: me}, fga.Tuple{Obj: "group:g1", Rel: "member", User: me})
		del = []fga.Tuple{{Obj: "group:g1", Rel: "member", User: me}}
		add = []fga.Tuple{{Obj: "group:g2", Rel: "member", User: me}}
	}
	var post []fga.Tuple
	for _, t := range pre {
		if t.String() != del[0].String() {
			post = append(post, t)
		}
	}
	post = append(post, add...)
	return shapeCase{kind: fmt.Sprintf("hc%d", variant), pre: pre, craftedCase: craftedCase{m: m, tuples: post,
		rq: fga.Req{Obj: "doc:" + placeholder, Rel: "viewer", User: me}}}
}

// shapeCases draws the generated shapes from a private stream (the stream of the random cases is not shifted).
func shapeCases(r *hx.Rand, tier string) []shapeCase {
	cp := *r
	c := hx.NewRand(cp.U64() ^ 0xC05C05)
	scale := 1
	if tier == "thorough" {
		scale = 6
	}
	var out []shapeCase
	for i := 0; i < 10*scale; i++ {
		forced := 0
		if i%5 < 2 {
			forced = 1 + i%5
		}
		out = append(out, cardCase(c.Fork(), forced))
	}
	for i := 0; i < 6*scale; i++ {
		out = append(out, residErrCase(c.Fork()))
	}
	for i := 0; i < 3*scale; i++ {
		out = append(out, higherCase(c.Fork()))
	}
	// drawn after all the others so that their streams stay what they were
	for i := 0; i < 3*scale; i++ {
		out = append(out, prefixCase(c.Fork()))
	}
	for i := 0; i < 2; i++ {
		out = append(out, wideCase(c.Fork()))
	}
	return out
}
