package main

import (
	"context"
	"fmt"
	"os"
	"strconv"
	"sync"
	"time"

	openfgav1 "github.com/openfga/api/proto/openfga/v1"

	"github.com/openfga/openfga/internal/graph"
	"github.com/openfga/openfga/pkg/featureflags"
	"github.com/openfga/openfga/pkg/server/commands"
	"github.com/openfga/openfga/pkg/typesystem"
	"github.com/openfga/openfga/verifharness/fga"
	"github.com/openfga/openfga/verifharness/fgarun"
)

func main() {
	n, _ := strconv.Atoi(os.Args[1])
	breadth, _ := strconv.Atoi(os.Args[2])
	limit, _ := strconv.Atoi(os.Args[3])
	u := fga.Restr{Typ: "user"}
	m := &fga.Model{Types: []*fga.TypeDef{{Name: "user"},
		{Name: "doc", Rels: []*fga.RelDef{
			{Name: "a", Rewrite: &fga.Rewrite{Kind: "this"}, Restrs: []fga.Restr{u}},
			{Name: "b", Rewrite: &fga.Rewrite{Kind: "this"}, Restrs: []fga.Restr{u}},
			{Name: "viewer", Rewrite: &fga.Rewrite{Kind: "inter", Kids: []*fga.Rewrite{{Kind: "cu", Rel: "a"}, {Kind: "cu", Rel: "b"}}}},
		}}}}
	var it []fga.Tuple
	for i := 0; i < 40; i++ {
		id := fmt.Sprint(i)
		it = append(it, fga.Tuple{Obj: "doc:" + id, Rel: "a", User: "user:x"})
		it = append(it, fga.Tuple{Obj: "doc:" + id, Rel: "b", User: "user:x"})
	}
	ts, err := typesystem.NewAndValidate(context.Background(), m.Proto(fgarun.ModelID))
	if err != nil {
		panic(err)
	}
	mem := fgarun.Store(it)
	resolver, closer, _ := graph.NewOrderedCheckResolvers(graph.WithLocalCheckerOpts(
		graph.WithResolveNodeBreadthLimit(uint32(breadth)), graph.WithMaxResolutionDepth(25),
		graph.WithPlanner(&fgarun.ForcedPlanner{Want: "default"}), graph.WithOptimizations(true))).Build()
	defer closer()
	hist := map[int]int{}
	par, _ := strconv.Atoi(os.Args[4])
	var mu sync.Mutex
	var wg sync.WaitGroup
	for p := 0; p < par; p++ {
	wg.Add(1)
	go func() {
	defer wg.Done()
	for i := 0; i < n/par; i++ {
		q, _ := commands.NewListObjectsQuery(mem, resolver, fgarun.StoreID,
			commands.WithListObjectsDeadline(20*time.Second), commands.WithListObjectsMaxResults(uint32(limit)),
			commands.WithResolveNodeBreadthLimit(uint32(breadth)), commands.WithMaxConcurrentReads(30),
			commands.WithListObjectsPipelineEnabled(false), commands.WithFeatureFlagClient(featureflags.NewDefaultClient(nil)))
		ctx := typesystem.ContextWithTypesystem(context.Background(), ts)
		res, err := q.Execute(ctx, &openfgav1.ListObjectsRequest{StoreId: fgarun.StoreID, AuthorizationModelId: fgarun.ModelID, Type: "doc", Relation: "viewer", User: "user:x"})
		mu.Lock()
		if err != nil {
			hist[-1]++
		} else {
		hist[len(res.Objects)]++
		}
		mu.Unlock()
	}
	}()
	}
	wg.Wait()
	fmt.Println("limit", limit, "breadth", breadth, "histogram of |objects|:", hist)
}
