// Harness for C06 (ListUsers returns exactly the permitted users): the C01 input space (random validated
// models with wildcards, conditions, usersets, tuple-to-usersets, intersections and exclusions; stored and
// contextual tuples, leftovers) and, per world, ListUsers requests over objects x relations x user
// filters (object types and `type#relation` usersets).  The real query (commands/listusers, built the way
// pkg/server/list_users.go builds it: ValidateListUsersRequest, typesystem in the context,
// NewListUsersQuery over the datastore with the contextual tuples) runs several times per case with
// the default breadth limit and with breadth limit 3; the output is the set of distinct sorted result
// lists, so schedule-dependent answers are visible to the driver.
package main

import (
	"context"
	"errors"
	"fmt"
	"sort"
	"strings"
	"time"

	openfgav1 "github.com/openfga/api/proto/openfga/v1"

	"github.com/openfga/openfga/internal/condition"
	"github.com/openfga/openfga/internal/graph"
	"github.com/openfga/openfga/internal/validation"
	"github.com/openfga/openfga/pkg/server/commands/listusers"
	"github.com/openfga/openfga/pkg/tuple"
	"github.com/openfga/openfga/pkg/typesystem"
	"github.com/openfga/openfga/verifharness/fga"
	"github.com/openfga/openfga/verifharness/fgarun"
	"github.com/openfga/openfga/verifharness/hx"
)

func b2i(b bool) int {
	if b {
		return 1
	}
	return 0
}

// hasEdges is the pruning test at the top of listUsersQuery.ListUsers (doesHavePossibleEdges): dumped
// from the real graph package into the case line (aux key "edges").
func hasEdges(ts *typesystem.TypeSystem, objType, rel, ftype, frel string) bool {
	g := graph.New(ts)
	edges, err := g.GetPrunedRelationshipEdges(typesystem.DirectRelationReference(objType, rel), typesystem.DirectRelationReference(ftype, frel))
	if err != nil {
		return true
	}
	return len(edges) > 0
}

func filterString(ftype, frel string) string {
	if frel == "" {
		return ftype
	}
	return ftype + "#" + frel
}

func splitFilter(f string) (string, string) {
	if i := strings.IndexByte(f, '#'); i >= 0 {
		return f[:i], f[i+1:]
	}
	return f, ""
}

func caseLine(m *fga.Model, ts *typesystem.TypeSystem, depth int, tuples, ctxT []fga.Tuple, obj, rel, filter string, ctx []fga.KV) string {
	return caseLineAux(m, ts, depth, tuples, ctxT, obj, rel, filter, ctx, false)
}

// caseLineAux: `lug` marks the one case that is run with breadth limit 1 and a short deadline (finding LU-G).
func caseLineAux(m *fga.Model, ts *typesystem.TypeSystem, depth int, tuples, ctxT []fga.Tuple, obj, rel, filter string, ctx []fga.KV, lug bool) string {
	ft, fr := splitFilter(filter)
	aux := map[string]bool{"edges": hasEdges(ts, fga.TypeOf(obj), rel, ft, fr)}
	if lug {
		aux["lug"] = true
	}
	rq := fga.Req{Obj: obj, Rel: rel, User: filter, Ctx: ctx}
	return fmt.Sprintf("cfg %d %d %s %s %s %s %s", depth, b2i(m.Stratified()), m.Encode(), fga.EncodeAux(aux),
		fga.EncodeTuples("tuples", tuples), fga.EncodeTuples("ctx", ctxT), rq.Encode())
}

func this() *fga.Rewrite       { return &fga.Rewrite{Kind: "this"} }
func cu(r string) *fga.Rewrite { return &fga.Rewrite{Kind: "cu", Rel: r} }
func diff(b, s *fga.Rewrite) *fga.Rewrite {
	return &fga.Rewrite{Kind: "diff", Kids: []*fga.Rewrite{b, s}}
}
func inter(ks ...*fga.Rewrite) *fga.Rewrite { return &fga.Rewrite{Kind: "inter", Kids: ks} }
func union(ks ...*fga.Rewrite) *fga.Rewrite { return &fga.Rewrite{Kind: "union", Kids: ks} }

// crafted shapes: the defect candidates found while proving, kept in the stream so that every run
// exercises them (and the mechanisms around them: status bookkeeping, wildcard correction, cycle guard).
func crafted() []string {
	u := fga.Restr{Typ: "user"}
	uw := fga.Restr{Typ: "user", Wild: true}
	var out []string
	mk := func(m *fga.Model, tuples []fga.Tuple, obj, rel, filter string) {
		ts, err := typesystem.NewAndValidate(context.Background(), m.Proto(fgarun.ModelID))
		if err != nil {
			panic("crafted model invalid: " + err.Error())
		}
		out = append(out, caseLine(m, ts, 25, tuples, nil, obj, rel, filter, nil))
	}
	rel := func(n string, rw *fga.Rewrite, rs ...fga.Restr) *fga.RelDef {
		return &fga.RelDef{Name: n, Rewrite: rw, Restrs: rs}
	}
	t := func(o, r, us string) fga.Tuple { return fga.Tuple{Obj: o, Rel: r, User: us} }
	// LU-A (fixed: the base status is kept): both operands of an exclusion report "no relationship" for x
	a := &fga.Model{Types: []*fga.TypeDef{{Name: "user"}, {Name: "doc", Rels: []*fga.RelDef{
		rel("a", this(), u), rel("b", this(), u), rel("c", this(), u), rel("d", this(), u),
		rel("v", diff(diff(cu("a"), cu("b")), diff(cu("c"), cu("d")))),
	}}}}
	mk(a, []fga.Tuple{t("doc:1", "a", "user:x"), t("doc:1", "b", "user:x"), t("doc:1", "c", "user:x"), t("doc:1", "d", "user:x"),
		t("doc:1", "a", "user:y"), t("doc:1", "c", "user:y"), t("doc:1", "d", "user:y")}, "doc:1", "v", "user")
	// LU-B: wildcard in the base of an outer exclusion, x excluded by the inner one
	b := &fga.Model{Types: []*fga.TypeDef{{Name: "user"}, {Name: "doc", Rels: []*fga.RelDef{
		rel("a", this(), uw), rel("b", this(), u), rel("c", this(), u),
		rel("v", diff(diff(cu("a"), cu("b")), cu("c"))),
	}}}}
	mk(b, []fga.Tuple{t("doc:1", "a", "user:*"), t("doc:1", "b", "user:x"), t("doc:1", "c", "user:y")}, "doc:1", "v", "user")
	// LU-C: the same user reported with and without the relationship by two dispatches
	c := &fga.Model{Types: []*fga.TypeDef{{Name: "user"},
		{Name: "group", Rels: []*fga.RelDef{rel("a", this(), u), rel("b", this(), u), rel("member", diff(cu("a"), cu("b")))}},
		{Name: "doc", Rels: []*fga.RelDef{rel("viewer", this(), fga.Restr{Typ: "group", Rel: "member"})}}}}
	mk(c, []fga.Tuple{t("group:1", "a", "user:x"), t("group:2", "a", "user:x"), t("group:2", "b", "user:x"),
		t("doc:1", "viewer", "group:1#member"), t("doc:1", "viewer", "group:2#member")}, "doc:1", "viewer", "user")
	// LU-D (fixed: objects and wildcards are sent only for a filter without relation): userset filter, objects
	// and wildcards of the filter type directly assigned
	d := &fga.Model{Types: []*fga.TypeDef{{Name: "user"},
		{Name: "group", Rels: []*fga.RelDef{rel("member", this(), u)}},
		{Name: "doc", Rels: []*fga.RelDef{rel("viewer", this(), fga.Restr{Typ: "group"}, fga.Restr{Typ: "group", Wild: true}, fga.Restr{Typ: "group", Rel: "member"})}}}}
	mk(d, []fga.Tuple{t("doc:1", "viewer", "group:a"), t("doc:1", "viewer", "group:*"), t("doc:1", "viewer", "group:b#member")}, "doc:1", "viewer", "group#member")
	// wildcard correction in intersections, exclusions with wildcards on either side (sound shapes)
	e := &fga.Model{Types: []*fga.TypeDef{{Name: "user"}, {Name: "doc", Rels: []*fga.RelDef{
		rel("a", this(), u, uw), rel("b", this(), u, uw), rel("c", this(), u, uw),
		rel("i", inter(cu("a"), cu("b"))), rel("i3", inter(cu("a"), cu("b"), cu("c"))),
		rel("x", diff(cu("a"), cu("b"))), rel("xi", inter(diff(cu("a"), cu("b")), cu("c"))),
		rel("xu", union(diff(cu("a"), cu("b")), cu("c"))), rel("xx", diff(cu("c"), diff(cu("a"), cu("b")))),
		// the exclusion bookkeeping of expandUnion feeding an intersection / an exclusion
		rel("ux", inter(union(diff(cu("a"), cu("b")), cu("c")), cu("b"))),
		rel("uy", inter(union(diff(cu("a"), cu("b")), diff(cu("c"), cu("b"))), cu("b"))),
		rel("uz", diff(union(diff(cu("a"), cu("b")), diff(cu("c"), cu("b"))), cu("c"))),
		rel("uw", inter(union(diff(cu("a"), cu("b")), diff(cu("a"), cu("c"))), union(cu("b"), cu("c")))),
	}}}}
	et := []fga.Tuple{t("doc:1", "a", "user:*"), t("doc:1", "a", "user:x"), t("doc:1", "b", "user:x"), t("doc:1", "b", "user:y"),
		t("doc:1", "c", "user:*"), t("doc:1", "c", "user:z"), t("doc:2", "a", "user:x"), t("doc:2", "b", "user:*"), t("doc:2", "c", "user:y")}
	for _, o := range []string{"doc:1", "doc:2"} {
		for _, r := range []string{"i", "i3", "x", "xi", "xu", "xx", "ux", "uy", "uz", "uw"} {
			mk(e, et, o, r, "user")
		}
	}
	// cycle guard: mutually recursive usersets, a cycle inside a subtracted operand (F1 analogue)
	f := &fga.Model{Types: []*fga.TypeDef{{Name: "user"},
		{Name: "team", Rels: []*fga.RelDef{rel("member", this(), u, fga.Restr{Typ: "group", Rel: "member"})}},
		{Name: "group", Rels: []*fga.RelDef{rel("member", this(), u, fga.Restr{Typ: "team", Rel: "member"})}},
		{Name: "doc", Rels: []*fga.RelDef{
			rel("blocked", this(), u, fga.Restr{Typ: "group", Rel: "member"}),
			rel("viewer", diff(this(), cu("blocked")), u)}}}}
	ft := []fga.Tuple{t("group:a", "member", "team:b#member"), t("team:b", "member", "group:a#member"), t("team:b", "member", "user:y"),
		t("doc:1", "blocked", "group:a#member"), t("doc:1", "viewer", "user:x")}
	mk(f, ft, "doc:1", "viewer", "user")
	mk(f, ft, "group:a", "member", "user")
	mk(f, ft, "group:a", "member", "team#member")
	mk(f, ft, "group:a", "member", "group#member")
	// depth bookkeeping: a chain of three dispatches, expanded with depth limits 2, 3 and 4 (`>=` vs `>`)
	g := &fga.Model{Types: []*fga.TypeDef{{Name: "user"},
		{Name: "group", Rels: []*fga.RelDef{rel("member", this(), u, fga.Restr{Typ: "group", Rel: "member"})}}}}
	gt := []fga.Tuple{t("group:a", "member", "group:b#member"), t("group:b", "member", "group:c#member"), t("group:c", "member", "user:x")}
	gts, err := typesystem.NewAndValidate(context.Background(), g.Proto(fgarun.ModelID))
	if err != nil {
		panic(err)
	}
	for _, d := range []int{2, 3, 4} {
		out = append(out, caseLine(g, gts, d, gt, nil, "group:a", "member", "user", nil))
	}
	return out
}

type query struct{ obj, rel, filter string }

// queries enumerates object x relation x filter for a world.
func queries(m *fga.Model, tuples, ctxT []fga.Tuple) []query {
	objs := map[string]bool{}
	for _, t := range append(append([]fga.Tuple{}, tuples...), ctxT...) {
		objs[t.Obj] = true
		ut, uid, _ := fga.UserParts(t.User)
		if uid != "*" && ut != "user" {
			objs[ut+":"+uid] = true
		}
	}
	var os []string
	for o := range objs {
		os = append(os, o)
	}
	sort.Strings(os)
	var filters []string
	for _, t := range m.Types {
		filters = append(filters, t.Name)
		for _, rd := range t.Rels {
			filters = append(filters, t.Name+"#"+rd.Name)
		}
	}
	var out []query
	for _, o := range os {
		for _, t := range m.Types {
			if t.Name != fga.TypeOf(o) {
				continue
			}
			for _, rd := range t.Rels {
				for _, f := range filters {
					out = append(out, query{o, rd.Name, f})
				}
			}
		}
	}
	return out
}

// moreWildcards adds `user:*` (and sometimes `group:*`-style) restrictions so that wildcards meet
// intersections and exclusions more often than in the C01 distribution.
func moreWildcards(r *hx.Rand, m *fga.Model) *fga.Model {
	changed := false
	for _, t := range m.Types {
		for _, rd := range t.Rels {
			if len(rd.Restrs) == 0 || !r.Chance(1, 2) {
				continue
			}
			has := false
			for _, x := range rd.Restrs {
				if x.Typ == "user" && x.Wild {
					has = true
				}
			}
			if !has {
				rd.Restrs = append(rd.Restrs, fga.Restr{Typ: "user", Wild: true})
				changed = true
			}
		}
	}
	if !changed {
		return nil
	}
	return m
}

// focusedWorld builds the shapes the status / wildcard bookkeeping of expandExclusion,
// expandIntersection and expandUnion is about: base relations a..d assignable to users, wildcards and
// group members; derived relations r0..r3 that are nested set expressions over them (and over each
// other, acyclically); groups whose `member` is itself an exclusion, so that "no relationship" entries
// travel through dispatches.
func focusedWorld(r *hx.Rand) (*fga.Model, *typesystem.TypeSystem, []fga.Tuple) {
	for {
		if m, ts, tuples := focusedWorldOnce(r); m != nil {
			return m, ts, tuples
		}
	}
}

func focusedWorldOnce(r *hx.Rand) (*fga.Model, *typesystem.TypeSystem, []fga.Tuple) {
	u := fga.Restr{Typ: "user"}
	uw := fga.Restr{Typ: "user", Wild: true}
	gm := fga.Restr{Typ: "group", Rel: "member"}
	base := []string{"a", "b", "c", "d"}
	var leaf func(upto int) *fga.Rewrite
	leaf = func(upto int) *fga.Rewrite {
		if upto > 0 && r.Chance(1, 4) {
			return cu(fmt.Sprintf("r%d", r.Intn(upto)))
		}
		return cu(hx.Pick(r, base))
	}
	var tree func(depth, upto int) *fga.Rewrite
	tree = func(depth, upto int) *fga.Rewrite {
		if depth >= 3 || (depth > 0 && r.Chance(2, 5)) {
			return leaf(upto)
		}
		switch k := r.Intn(10); {
		case k < 5:
			return diff(tree(depth+1, upto), tree(depth+1, upto))
		case k < 8:
			if r.Chance(1, 4) {
				return inter(tree(depth+1, upto), tree(depth+1, upto), tree(depth+1, upto))
			}
			return inter(tree(depth+1, upto), tree(depth+1, upto))
		default:
			return union(tree(depth+1, upto), tree(depth+1, upto))
		}
	}
	grp := &fga.TypeDef{Name: "group", Rels: []*fga.RelDef{
		{Name: "a", Rewrite: this(), Restrs: []fga.Restr{u, uw}},
		{Name: "b", Rewrite: this(), Restrs: []fga.Restr{u, uw}},
	}}
	switch r.Intn(3) {
	case 0:
		grp.Rels = append(grp.Rels, &fga.RelDef{Name: "member", Rewrite: diff(cu("a"), cu("b"))})
	case 1:
		grp.Rels = append(grp.Rels, &fga.RelDef{Name: "member", Rewrite: cu("a")})
	default:
		grp.Rels = append(grp.Rels, &fga.RelDef{Name: "member", Rewrite: inter(cu("a"), cu("b"))})
	}
	doc := &fga.TypeDef{Name: "doc"}
	for _, b := range base {
		rs := []fga.Restr{u}
		if r.Chance(3, 4) {
			rs = append(rs, uw)
		}
		if r.Chance(1, 3) {
			rs = append(rs, gm)
		}
		doc.Rels = append(doc.Rels, &fga.RelDef{Name: b, Rewrite: this(), Restrs: rs})
	}
	for i := 0; i < 4; i++ {
		doc.Rels = append(doc.Rels, &fga.RelDef{Name: fmt.Sprintf("r%d", i), Rewrite: tree(0, i)})
	}
	m := &fga.Model{Types: []*fga.TypeDef{{Name: "user"}, grp, doc}}
	ts, err := typesystem.NewAndValidate(context.Background(), m.Proto(fgarun.ModelID))
	if err != nil {
		return nil, nil, nil // e.g. "potential loop": draw again
	}
	var tuples []fga.Tuple
	seen := map[string]bool{}
	add := func(t fga.Tuple) {
		if !seen[t.String()] {
			seen[t.String()] = true
			tuples = append(tuples, t)
		}
	}
	objs := []string{"doc:1"}
	if r.Chance(1, 3) {
		objs = append(objs, "doc:2")
	}
	for _, o := range objs {
		for _, rd := range doc.Rels[:4] {
			for _, x := range rd.Restrs {
				switch {
				case x.Wild:
					if r.Chance(2, 5) {
						add(fga.Tuple{Obj: o, Rel: rd.Name, User: "user:*"})
					}
				case x.Rel != "":
					if r.Chance(1, 2) {
						add(fga.Tuple{Obj: o, Rel: rd.Name, User: "group:" + hx.Pick(r, []string{"1", "2"}) + "#member"})
					}
				default:
					for _, id := range userIDs {
						if r.Chance(2, 5) {
							add(fga.Tuple{Obj: o, Rel: rd.Name, User: "user:" + id})
						}
					}
				}
			}
		}
	}
	for _, g := range []string{"group:1", "group:2"} {
		for _, rn := range []string{"a", "b"} {
			for _, id := range userIDs {
				if r.Chance(1, 3) {
					add(fga.Tuple{Obj: g, Rel: rn, User: "user:" + id})
				}
			}
			if r.Chance(1, 6) {
				add(fga.Tuple{Obj: g, Rel: rn, User: "user:*"})
			}
		}
	}
	hx.Shuffle(r, tuples)
	return m, ts, tuples
}

var userIDs = []string{"x", "y", "z"}

// lugCase: `viewer: a or b` with two users in `a`, run with breadth limit 1: the first operand blocks on its
// capacity-1 channel (its consumer is started only after the second operand was submitted to the pool, which
// the pool of size 1 never accepts), ListUsers waits for its deadline and returns a partial result without error.
func lugCase() string {
	u := fga.Restr{Typ: "user"}
	m := &fga.Model{Types: []*fga.TypeDef{{Name: "user"}, {Name: "doc", Rels: []*fga.RelDef{
		{Name: "a", Rewrite: this(), Restrs: []fga.Restr{u}}, {Name: "b", Rewrite: this(), Restrs: []fga.Restr{u}},
		{Name: "viewer", Rewrite: union(cu("a"), cu("b"))}}}}}
	ts, err := typesystem.NewAndValidate(context.Background(), m.Proto(fgarun.ModelID))
	if err != nil {
		panic(err)
	}
	tuples := []fga.Tuple{{Obj: "doc:1", Rel: "a", User: "user:x"}, {Obj: "doc:1", Rel: "a", User: "user:y"}, {Obj: "doc:1", Rel: "b", User: "user:z"}}
	return caseLineAux(m, ts, 25, tuples, nil, "doc:1", "viewer", "user", nil, true)
}

func gen(r *hx.Rand, n int, tier string, emit func(string), st *hx.Stats) {
	for _, c := range crafted() {
		emit(c)
		st.Inc("crafted")
	}
	if tier == "thorough" {
		emit(lugCase())
		st.Inc("crafted-lug")
	}
	perWorld := 10
	for i := 0; i < n; {
		c := r.Fork()
		if c.Chance(1, 2) {
			m, ts, tuples := focusedWorld(c)
			st.Inc("worlds-focused")
			rels := []string{"r0", "r1", "r2", "r3"}
			for _, rel := range rels {
				if i >= n {
					break
				}
				obj := "doc:1"
				emit(caseLine(m, ts, 25, tuples, nil, obj, rel, "user", nil))
				i++
				st.Inc("cases")
				st.Inc("cases-focused")
				st.Inc("filter-user")
			}
			if i < n && c.Chance(1, 2) {
				emit(caseLine(m, ts, 25, tuples, nil, "doc:1", hx.Pick(c, rels), "group#member", nil))
				i++
				st.Inc("cases")
				st.Inc("cases-focused")
				st.Inc("filter-userset")
			}
			continue
		}
		opts := fga.DefaultOpts()
		opts.Conditions = c.Chance(1, 3)
		m, ts := fga.GenModel(c, opts)
		if len(m.Types) < 2 {
			continue
		}
		if c.Chance(1, 2) {
			// re-encode / decode to get a private copy, then add wildcards
			cp := fga.DecodeModel(fga.NewToks(m.Encode()))
			if m2 := moreWildcards(c, cp); m2 != nil {
				if ts2, err := typesystem.NewAndValidate(context.Background(), m2.Proto(fgarun.ModelID)); err == nil {
					m, ts = m2, ts2
					st.Inc("worlds-extra-wildcards")
				}
			}
		}
		nt := 3 + c.Intn(18)
		tuples := fga.GenTuples(c, m, nt)
		var ctxT []fga.Tuple
		if c.Chance(1, 4) {
			seen := map[string]bool{}
			for _, t := range tuples {
				seen[t.String()] = true
			}
			for j := 0; j < 1+c.Intn(3); j++ {
				t, ok := fga.GenTuple(c, m)
				if !ok || seen[t.String()] {
					continue
				}
				if validation.ValidateTupleForWrite(ts, t.Key()) != nil {
					continue
				}
				seen[t.String()] = true
				ctxT = append(ctxT, t)
			}
		}
		qs := queries(m, tuples, ctxT)
		if len(qs) == 0 {
			continue
		}
		hx.Shuffle(c, qs)
		// prefer queries with a non-empty real answer (probed once, only to bias the sample), then queries
		// that have possible edges; keep a few empty ones and one that the pruning test answers
		ctx := fga.GenReqCtx(c, m)
		var withEdges, pruned []query
		for _, q := range qs {
			fa, ra := splitFilter(q.filter)
			if hasEdges(ts, fga.TypeOf(q.obj), q.rel, fa, ra) {
				withEdges = append(withEdges, q)
			} else {
				pruned = append(pruned, q)
			}
		}
		var nonEmpty, empty []query
		for k, q := range withEdges {
			if k >= 40 {
				empty = append(empty, q)
				continue
			}
			o := listUsersOnce(ts, tuples, ctxT, fga.Req{Obj: q.obj, Rel: q.rel, User: q.filter, Ctx: ctx}, 25, 10, deadline, false)
			if o == "R -" {
				empty = append(empty, q)
			} else {
				nonEmpty = append(nonEmpty, q)
			}
		}
		if len(nonEmpty) > perWorld-3 {
			nonEmpty = nonEmpty[:perWorld-3]
		}
		qs = append([]query{}, nonEmpty...)
		for _, q := range empty {
			if len(qs) >= perWorld-1 {
				break
			}
			qs = append(qs, q)
		}
		if len(pruned) > 0 {
			qs = append(qs, pruned[0])
		}
		st.Inc("worlds")
		for _, q := range qs {
			if i >= n {
				break
			}
			depth := 25
			if c.Chance(1, 10) {
				depth = 2 + c.Intn(5)
			}
			emit(caseLine(m, ts, depth, tuples, ctxT, q.obj, q.rel, q.filter, ctx))
			i++
			st.Inc("cases")
			if strings.Contains(q.filter, "#") {
				st.Inc("filter-userset")
			} else if q.filter == "user" {
				st.Inc("filter-user")
			} else {
				st.Inc("filter-object-type")
			}
			if m.HasKind("diff") {
				st.Inc("with-exclusion")
			}
			if m.HasKind("inter") {
				st.Inc("with-intersection")
			}
			if m.HasKind("ttu") {
				st.Inc("with-ttu")
			}
			if len(m.Conds) > 0 {
				st.Inc("with-conditions")
			}
			if len(ctxT) > 0 {
				st.Inc("with-contextual")
			}
			if depth != 25 {
				st.Inc("low-depth-limit")
			}
			if !m.Stratified() {
				st.Inc("nonstratified")
			}
		}
	}
}

func canonErr(err error) string {
	var ee *condition.EvaluationError
	switch {
	case errors.Is(err, graph.ErrResolutionDepthExceeded):
		return "E depth"
	case errors.Is(err, condition.ErrEvaluationFailed), errors.As(err, &ee):
		return "E cond"
	case errors.Is(err, context.DeadlineExceeded):
		return "E deadline"
	}
	return "E other " + strings.ReplaceAll(strings.ReplaceAll(err.Error(), "\n", " "), "\t", " ")
}

// deadline of one ListUsers call.  NOTE: with a breadth limit smaller than the number of operands of a
// union / intersection the real code blocks until the deadline (the operands' channels have capacity 1 and
// their consumers are only started after every operand was submitted to the pool) and then returns a
// partial result without error; the harness therefore never uses a breadth limit below 3 (generated
// unions / intersections have at most 3 operands).
const deadline = 5 * time.Second

func listUsersOnce(ts *typesystem.TypeSystem, tuples, ctxT []fga.Tuple, rq fga.Req, depth int, breadth uint32, deadline time.Duration, partial bool) string {
	ds := fgarun.Store(tuples)
	defer ds.Close()
	ft, fr := splitFilter(rq.User)
	ot, oid := tuple.SplitObject(rq.Obj)
	req := &openfgav1.ListUsersRequest{
		StoreId:              fgarun.StoreID,
		AuthorizationModelId: fgarun.ModelID,
		Object:               &openfgav1.Object{Type: ot, Id: oid},
		Relation:             rq.Rel,
		UserFilters:          []*openfgav1.UserTypeFilter{{Type: ft, Relation: fr}},
		ContextualTuples:     fga.Keys(ctxT),
		Context:              fga.CtxStruct(rq.Ctx),
	}
	ctx := context.Background()
	if err := listusers.ValidateListUsersRequest(ctx, req, ts); err != nil {
		return "E invalid"
	}
	ctx = typesystem.ContextWithTypesystem(ctx, ts)
	q := listusers.NewListUsersQuery(ds, req.GetContextualTuples(),
		listusers.WithResolveNodeLimit(uint32(depth)),
		listusers.WithResolveNodeBreadthLimit(breadth),
		listusers.WithListUsersMaxConcurrentReads(1),
		listusers.WithListUsersDeadline(deadline),
	)
	start := time.Now()
	resp, err := q.ListUsers(ctx, req)
	if err != nil {
		return canonErr(err)
	}
	if time.Since(start) >= deadline && !partial {
		// the deadline cut the expansion: ListUsers returns the partial result without an error
		return "E deadline"
	}
	us := make([]string, 0, len(resp.GetUsers()))
	for _, u := range resp.GetUsers() {
		us = append(us, tuple.UserProtoToString(u))
	}
	sort.Strings(us)
	pre := "R "
	if partial && time.Since(start) >= deadline {
		pre = "DEADLINE "
	}
	if len(us) == 0 {
		return pre + "-"
	}
	return pre + strings.Join(us, ",")
}

func exec(line string, st *hx.Stats) string {
	t := fga.NewToks(line)
	t.Expect("cfg")
	depth := t.Int()
	_ = t.Int()
	m := fga.DecodeModel(t)
	t.Expect("aux")
	lug := false
	for i, k := 0, t.Int(); i < k; i++ {
		key, val := t.Next(), t.Next()
		if key == "lug" && val == "1" {
			lug = true
		}
	}
	tuples := fga.DecodeTuples(t, "tuples")
	ctxT := fga.DecodeTuples(t, "ctx")
	rq := fga.DecodeReq(t)
	ts, err := typesystem.NewAndValidate(context.Background(), m.Proto(fgarun.ModelID))
	if err != nil {
		return "invalid-model"
	}
	if lug {
		st.Inc("out:lug")
		return listUsersOnce(ts, tuples, ctxT, rq, depth, 1, 400*time.Millisecond, true)
	}
	seen := map[string]bool{}
	var outs []string
	for _, b := range []uint32{10, 3, 10, 3} {
		o := listUsersOnce(ts, tuples, ctxT, rq, depth, b, deadline, false)
		if o == "E deadline" {
			// expensive expansions (cyclic models, depth 25) can exceed the deadline on a loaded machine:
			// one retry with a long deadline; a second miss is reported
			st.Inc("deadline-retry")
			o = listUsersOnce(ts, tuples, ctxT, rq, depth, b, 6*deadline, false)
		}
		if !seen[o] {
			seen[o] = true
			outs = append(outs, o)
		}
	}
	sort.Strings(outs)
	st.Inc("out:" + strings.Fields(outs[0])[0])
	if len(outs) > 1 {
		st.Inc("out:schedule-dependent")
	}
	return strings.Join(outs, " | ")
}

func main() { hx.Main(hx.Harness{Gen: gen, Exec: exec}) }
