package main

import (
	"context"
	"fmt"
	"sort"
	"strings"

	openfgav1 "github.com/openfga/api/proto/openfga/v1"
	parser "github.com/openfga/language/pkg/go/transformer"

	"github.com/openfga/openfga/pkg/server/commands/listusers"
	"github.com/openfga/openfga/pkg/tuple"
	"github.com/openfga/openfga/pkg/typesystem"
	"github.com/openfga/openfga/verifharness/fga"
	"github.com/openfga/openfga/verifharness/fgarun"
)

func run(dsl string, tuples []fga.Tuple, obj, rel, ftype, frel string, breadth uint32) string {
	model := parser.MustTransformDSLToProto(dsl)
	model.Id = fgarun.ModelID
	ts, err := typesystem.NewAndValidate(context.Background(), model)
	if err != nil {
		return "invalid " + err.Error()
	}
	ds := fgarun.Store(tuples)
	defer ds.Close()
	ctx := typesystem.ContextWithTypesystem(context.Background(), ts)
	q := listusers.NewListUsersQuery(ds, nil, listusers.WithResolveNodeBreadthLimit(breadth), listusers.WithListUsersMaxConcurrentReads(1))
	ot, oid := tuple.SplitObject(obj)
	resp, err := q.ListUsers(ctx, &openfgav1.ListUsersRequest{StoreId: fgarun.StoreID, AuthorizationModelId: fgarun.ModelID,
		Object: &openfgav1.Object{Type: ot, Id: oid}, Relation: rel, UserFilters: []*openfgav1.UserTypeFilter{{Type: ftype, Relation: frel}}})
	if err != nil {
		return "E " + err.Error()
	}
	var out []string
	for _, u := range resp.GetUsers() {
		out = append(out, tuple.UserProtoToString(u))
	}
	sort.Strings(out)
	return "[" + strings.Join(out, " ") + "]"
}

func rep(name, dsl string, tuples []fga.Tuple, obj, rel, ftype, frel string) {
	for _, b := range []uint32{1, 10} {
		cnt := map[string]int{}
		for i := 0; i < 200; i++ {
			cnt[run(dsl, tuples, obj, rel, ftype, frel, b)]++
		}
		fmt.Println(name, "breadth", b, cnt)
	}
}

func main() {
	rep("D", `model
  schema 1.1
type user
type group
  relations
    define member: [user]
type doc
  relations
    define viewer: [group, group:*, group#member]`,
		[]fga.Tuple{{Obj: "doc:1", Rel: "viewer", User: "group:a"}, {Obj: "doc:1", Rel: "viewer", User: "group:*"}, {Obj: "doc:1", Rel: "viewer", User: "group:b#member"}},
		"doc:1", "viewer", "group", "member")
}
