package main

import (
	"context"
	"fmt"

	openfgav1 "github.com/openfga/api/proto/openfga/v1"

	"github.com/openfga/openfga/pkg/storage"
)

// faultDS is a datastore whose own per-query timeout fires for every read on ONE object: the read fails
// with an error that wraps context.DeadlineExceeded while the context of the request is alive (a slow
// partition, a lock, a per-statement timeout of the backend).  All other reads are served normally.
type faultDS struct {
	storage.OpenFGADatastore
	object string // "type:id"
}

var errQueryTimeout = fmt.Errorf("storage: query on a slow object timed out: %w", context.DeadlineExceeded)

func (d *faultDS) Read(ctx context.Context, store string, filter storage.ReadFilter, options storage.ReadOptions) (storage.TupleIterator, error) {
	if filter.Object == d.object {
		return nil, errQueryTimeout
	}
	return d.OpenFGADatastore.Read(ctx, store, filter, options)
}

func (d *faultDS) ReadUserTuple(ctx context.Context, store string, filter storage.ReadUserTupleFilter, options storage.ReadUserTupleOptions) (*openfgav1.Tuple, error) {
	if filter.Object == d.object {
		return nil, errQueryTimeout
	}
	return d.OpenFGADatastore.ReadUserTuple(ctx, store, filter, options)
}

func (d *faultDS) ReadUsersetTuples(ctx context.Context, store string, filter storage.ReadUsersetTuplesFilter, options storage.ReadUsersetTuplesOptions) (storage.TupleIterator, error) {
	if filter.Object == d.object {
		return nil, errQueryTimeout
	}
	return d.OpenFGADatastore.ReadUsersetTuples(ctx, store, filter, options)
}

func (d *faultDS) ReadStartingWithUser(ctx context.Context, store string, filter storage.ReadStartingWithUserFilter, options storage.ReadStartingWithUserOptions) (storage.TupleIterator, error) {
	if filter.ObjectIDs != nil {
		for _, id := range filter.ObjectIDs.Values() {
			if filter.ObjectType+":"+id == d.object {
				return nil, errQueryTimeout
			}
		}
	}
	return d.OpenFGADatastore.ReadStartingWithUser(ctx, store, filter, options)
}
