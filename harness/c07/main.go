// Harness for C07 (BatchCheck is equivalent to individual Checks): the real
// commands.BatchCheckQuery.Execute with the real checker (default engine, and the weighted-graph engine)
// on batches of up to the configured maximum (and one beyond), full of exact duplicates, duplicates up
// to the order of contextual tuples, and near-duplicates that differ only in the request context, in
// the contextual tuples, or in the condition context of one contextual tuple.  Each item is also sent as
// a standalone Check; the output lists, per item in request order,
// "<correlation id>=<batch outcome>/<standalone outcome>".
//
// The batch shares ONE checker among its items (as Server.BatchCheck does); every standalone Check gets a
// FRESH checker (as Server.Check builds one command per request), so state that a shared command keeps
// from one item to the next shows up as a difference.
//
// Two more batch shapes:
//   - "independent": every item has its own tuple key and its own contextual tuples, which decide its answer
//     (the request probes one of its contextual tuples; or repeats the previous question without them);
//   - "fault" (engine token `v1!<object>`): 10-30 healthy items plus one whose object makes every datastore
//     read fail with an error wrapping context.DeadlineExceeded while the request context is alive
//     (harness/c07/fault.go).  A batch outcome `context canceled` while the request context is alive is
//     printed as "Ecancel-live": no standalone Check can produce it.
package main

import (
	"context"
	"errors"
	"fmt"
	"sort"
	"strings"
	"time"

	openfgav1 "github.com/openfga/api/proto/openfga/v1"

	"github.com/openfga/openfga/internal/check"
	"github.com/openfga/openfga/internal/condition"
	"github.com/openfga/openfga/internal/graph"
	"github.com/openfga/openfga/internal/modelgraph"
	"github.com/openfga/openfga/internal/validation"
	"github.com/openfga/openfga/pkg/server/commands"
	"github.com/openfga/openfga/pkg/storage"
	"github.com/openfga/openfga/pkg/typesystem"
	"github.com/openfga/openfga/verifharness/fga"
	"github.com/openfga/openfga/verifharness/fgarun"
	"github.com/openfga/openfga/verifharness/hx"
)

type item struct {
	cid  string
	rq   fga.Req
	ctxT []fga.Tuple
}

func b2i(b bool) int {
	if b {
		return 1
	}
	return 0
}

func dash(s string) string {
	if s == "" {
		return "-"
	}
	return s
}

func undash(s string) string {
	if s == "-" {
		return ""
	}
	return s
}

// bat <engine v1|v2> <concurrency> <max> <stratified> <model> <tuples> items <n> { <cid> <aux> <ctx> <req> }
func encode(engine string, conc, max int, m *fga.Model, ts *typesystem.TypeSystem, tuples []fga.Tuple, items []item) string {
	var sb strings.Builder
	fmt.Fprintf(&sb, "bat %s %d %d %d %s %s items %d", engine, conc, max, b2i(m.Stratified()), m.Encode(), fga.EncodeTuples("tuples", tuples), len(items))
	for _, it := range items {
		fmt.Fprintf(&sb, " %s %s %s %s", dash(it.cid), fga.EncodeAux(fga.Aux(m, ts, it.rq.User)), fga.EncodeTuples("ctx", it.ctxT), it.rq.Encode())
	}
	return sb.String()
}

func cloneT(ts []fga.Tuple) []fga.Tuple {
	out := make([]fga.Tuple, len(ts))
	for i, t := range ts {
		out[i] = t
		out[i].Ctx = append([]fga.KV(nil), t.Ctx...)
	}
	return out
}

func gen(r *hx.Rand, n int, tier string, emit func(string), st *hx.Stats) {
	for i := 0; i < n; i++ {
		c := r.Fork()
		shape := "variations"
		switch k := c.Intn(20); {
		case k < 2:
			shape = "fault"
		case k < 6:
			shape = "independent"
		}
		m, ts := fga.GenModel(c, fga.DefaultOpts())
		if c.Chance(1, 4) {
			m, ts = fga.GenStrategyModel(c)
		}
		if len(m.Types) < 2 {
			i--
			continue
		}
		tuples := fga.GenTuples(c, m, 4+c.Intn(18))
		seen := map[string]bool{}
		for _, t := range tuples {
			seen[t.String()] = true
		}
		genCtxTuples := func(k int) []fga.Tuple {
			var out []fga.Tuple
			local := map[string]bool{}
			for j := 0; j < 4*k && len(out) < k; j++ {
				t, ok := fga.GenTuple(c, m)
				if !ok || seen[t.String()] || local[t.String()] || validation.ValidateTupleForWrite(ts, t.Key()) != nil {
					continue
				}
				local[t.String()] = true
				out = append(out, t)
			}
			return out
		}
		// probe: a request that asks for exactly what one contextual tuple grants
		probe := func(t fga.Tuple) fga.Req {
			rq := fga.Req{Obj: t.Obj, Rel: t.Rel, User: t.User, Ctx: fga.GenReqCtx(c, m)}
			if strings.HasSuffix(t.User, ":*") && c.Chance(2, 3) {
				rq.User = fga.Ent(m, fga.TypeOf(t.User), hx.Pick(c, []string{"x", "y", "z", "a", "b"}))
			}
			return rq
		}
		// independent items: own tuple key, own contextual tuples that decide the answer
		genIndependent := func(k int) []item {
			var out []item
			for j := 0; j < k; j++ {
				var it item
				switch x := c.Intn(8); {
				case x < 4:
					it.ctxT = genCtxTuples(1 + c.Intn(2))
					if len(it.ctxT) > 0 {
						it.rq = probe(hx.Pick(c, it.ctxT))
						st.Inc("item:probe-own-contextual")
					} else {
						it.rq = fga.GenReq(c, m, tuples)
						st.Inc("item:plain")
					}
				case x < 5 && len(out) > 0 && len(out[len(out)-1].ctxT) > 0:
					// the previous question again, WITHOUT its contextual tuples
					it.rq = out[len(out)-1].rq
					it.rq.Ctx = append([]fga.KV(nil), it.rq.Ctx...)
					st.Inc("item:previous-without-contextual")
				case x < 7:
					it.rq = fga.GenReq(c, m, tuples)
					it.ctxT = genCtxTuples(1 + c.Intn(3))
					st.Inc("item:own-contextual")
				default:
					it.rq = fga.GenReq(c, m, tuples)
					st.Inc("item:plain")
				}
				it.cid = fmt.Sprintf("c%d", j)
				out = append(out, it)
			}
			return out
		}
		if shape != "variations" {
			engine := "v1"
			if c.Chance(1, 4) {
				engine = "v2"
			}
			conc := hx.Pick(c, []int{1, 1, 4, 8, 50})
			var items []item
			if shape == "independent" {
				items = genIndependent(2 + c.Intn(11))
			} else {
				items = genIndependent(10 + c.Intn(21))
				// the faulty item: its object times out in the datastore; mostly an object nobody else touches
				ots := []string{}
				for _, t := range m.Types {
					if len(t.Rels) > 0 {
						ots = append(ots, t.Name)
					}
				}
				ot := hx.Pick(c, ots)
				fobj := ot + ":slow"
				if c.Chance(1, 4) && len(tuples) > 0 {
					fobj = hx.Pick(c, tuples).Obj
					ot = fga.TypeOf(fobj)
				}
				var frel string
				for _, t := range m.Types {
					if t.Name == ot && len(t.Rels) > 0 {
						frel = hx.Pick(c, t.Rels).Name
					}
				}
				if frel != "" {
					f := item{cid: "slow", rq: fga.Req{Obj: fobj, Rel: frel, User: fga.Ent(m, "user", hx.Pick(c, []string{"x", "y", "z"})), Ctx: fga.GenReqCtx(c, m)}}
					at := c.Intn(len(items) + 1)
					items = append(items[:at], append([]item{f}, items[at:]...)...)
					engine += "!" + fobj
					conc = hx.Pick(c, []int{1, 1, 4, 8})
				}
			}
			emit(encode(engine, conc, 50, m, ts, tuples, items))
			st.Inc("batches:" + shape + ":" + engine[:2])
			st.Add("items", len(items))
			continue
		}
		// a few base requests; the batch is made of variations of them
		nb := 1 + c.Intn(4)
		var bases []item
		for j := 0; j < nb; j++ {
			it := item{rq: fga.GenReq(c, m, tuples)}
			if c.Chance(1, 2) {
				it.ctxT = genCtxTuples(1 + c.Intn(3))
			}
			bases = append(bases, it)
		}
		max := hx.Pick(c, []int{50, 50, 8, 3})
		var size int
		switch k := c.Intn(12); {
		case k == 0:
			size = max + 1
			st.Inc("size:max+1")
		case k == 1:
			size = max
			st.Inc("size:max")
		case k == 2:
			size = 1
			st.Inc("size:1")
		default:
			size = 1 + c.Intn(max)
			st.Inc("size:mid")
		}
		var items []item
		for j := 0; j < size; j++ {
			b := hx.Pick(c, bases)
			it := item{rq: b.rq, ctxT: cloneT(b.ctxT)}
			it.rq.Ctx = append([]fga.KV(nil), b.rq.Ctx...)
			kind := "exact"
			switch k := c.Intn(12); {
			case k < 3: // exact duplicate
			case k < 4 && len(it.ctxT) > 1: // same contextual tuples in another order
				hx.Shuffle(c, it.ctxT)
				kind = "ctx-reordered"
			case k < 6: // differs only in the request context
				if len(m.Conds) > 0 {
					cd := hx.Pick(c, m.Conds)
					found := false
					for x := range it.rq.Ctx {
						if it.rq.Ctx[x].K == cd.Param {
							if c.Chance(1, 3) {
								it.rq.Ctx = append(it.rq.Ctx[:x], it.rq.Ctx[x+1:]...)
							} else {
								it.rq.Ctx[x].V = hx.Pick(c, []int{0, 5, 10, 20})
							}
							found = true
							break
						}
					}
					if !found {
						it.rq.Ctx = append(it.rq.Ctx, fga.KV{K: cd.Param, V: hx.Pick(c, []int{0, 5, 10, 20})})
					}
					kind = "req-context"
				}
			case k < 8: // differs only in the contextual tuples
				if len(it.ctxT) > 0 && c.Chance(1, 2) {
					x := c.Intn(len(it.ctxT))
					it.ctxT = append(it.ctxT[:x], it.ctxT[x+1:]...)
				} else {
					extra := genCtxTuples(1)
					dup := false
					for _, e := range extra {
						for _, o := range it.ctxT {
							if o.String() == e.String() {
								dup = true
							}
						}
					}
					if !dup {
						it.ctxT = append(it.ctxT, extra...)
					}
				}
				kind = "ctx-tuples"
			case k < 9: // differs only in the condition context of one contextual tuple
				for x := range it.ctxT {
					if it.ctxT[x].Cond != "" {
						for _, cd := range m.Conds {
							if cd.Name == it.ctxT[x].Cond {
								if len(it.ctxT[x].Ctx) > 0 && c.Chance(1, 2) {
									it.ctxT[x].Ctx = nil
								} else {
									it.ctxT[x].Ctx = []fga.KV{{K: cd.Param, V: hx.Pick(c, []int{0, 5, 10, 20})}}
								}
								kind = "ctx-tuple-condition-context"
							}
						}
						break
					}
				}
			case k < 10: // another subject / relation on the same object
				o := fga.GenReq(c, m, tuples)
				it.rq.User = o.User
				kind = "other-user"
			default:
				o := fga.GenReq(c, m, tuples)
				it.rq.Obj, it.rq.Rel = o.Obj, o.Rel
				kind = "other-object"
			}
			st.Inc("item:" + kind)
			it.cid = fmt.Sprintf("c%d", j)
			items = append(items, it)
		}
		switch k := c.Intn(20); {
		case k == 0 && len(items) > 1:
			items[len(items)-1].cid = items[c.Intn(len(items)-1)].cid
			st.Inc("ids:duplicate")
		case k == 1:
			items[c.Intn(len(items))].cid = ""
			st.Inc("ids:empty")
		case k == 2 && len(items) > 2:
			// an empty id AFTER a duplicate: the duplicate is reported
			items[1].cid = items[0].cid
			items[len(items)-1].cid = ""
			st.Inc("ids:duplicate-then-empty")
		case k == 3:
			items = nil
			st.Inc("ids:no-checks")
		}
		engine := "v1"
		if c.Chance(1, 3) {
			engine = "v2"
		}
		conc := hx.Pick(c, []int{1, 4, 50})
		emit(encode(engine, conc, max, m, ts, tuples, items))
		st.Inc("batches:" + engine)
		st.Add("items", len(items))
	}
}

func outcome(res *commands.CheckResult, err error) string {
	if err != nil {
		var ee *condition.EvaluationError
		var ir *commands.InvalidRelationError
		var it *commands.InvalidTupleError
		var ic *commands.InvalidContextError
		switch {
		case errors.Is(err, graph.ErrResolutionDepthExceeded):
			return "Edepth"
		case errors.As(err, &ee):
			return "Econd"
		case errors.As(err, &ir), errors.As(err, &it), errors.As(err, &ic):
			return "Einvalid"
		case errors.Is(err, check.ErrWildcardInvalidRequest), errors.Is(err, check.ErrUsersetInvalidRequest), errors.Is(err, check.ErrValidation):
			return "Eshape"
		case errors.Is(err, context.DeadlineExceeded), errors.Is(err, context.Canceled):
			return "Ectx"
		}
		return "Eother"
	}
	if res != nil && res.Allowed {
		return "T"
	}
	return "F"
}

func exec(line string, st *hx.Stats) string {
	t := fga.NewToks(line)
	t.Expect("bat")
	engine := t.Next()
	conc := t.Int()
	max := t.Int()
	_ = t.Int()
	m := fga.DecodeModel(t)
	tuples := fga.DecodeTuples(t, "tuples")
	t.Expect("items")
	k := t.Int()
	var items []item
	for j := 0; j < k; j++ {
		cid := undash(t.Next())
		fga.SkipAux(t)
		ctxT := fga.DecodeTuples(t, "ctx")
		items = append(items, item{cid: cid, ctxT: ctxT, rq: fga.DecodeReq(t)})
	}
	pm := m.Proto(fgarun.ModelID)
	ts, err := typesystem.NewAndValidate(context.Background(), pm)
	if err != nil {
		return "invalid-model"
	}
	mem := fgarun.Store(tuples)
	defer mem.Close()
	var ds storage.OpenFGADatastore = mem
	if i := strings.IndexByte(engine, '!'); i >= 0 {
		ds = &faultDS{OpenFGADatastore: mem, object: engine[i+1:]}
		engine = engine[:i]
	}

	// as pkg/server/batch_check.go: the weighted-graph engine when the model graph resolves, else the default engine
	var mg *modelgraph.AuthorizationModelGraph
	if engine == "v2" {
		if g, err := modelgraph.New(pm); err == nil {
			mg = g
		} else {
			st.Inc("v2-fallback-to-v1")
		}
	}
	// one checker per REQUEST (Server.Check / Server.BatchCheck build their commands per request)
	mkChecker := func() (commands.Checker, func(), error) {
		if mg != nil {
			return commands.NewCheckQuery(
				commands.WithCheckQueryV2Datastore(ds),
				commands.WithCheckQueryV2Model(mg),
				commands.WithCheckQueryV2Planner(&fgarun.ForcedPlanner{Want: "default"}),
				commands.WithCheckQueryV2ConcurrencyLimit(1),
				commands.WithCheckQueryV2UpstreamTimeout(20*time.Second),
			), func() {}, nil
		}
		resolver, closer, err := graph.NewOrderedCheckResolvers(
			graph.WithLocalCheckerOpts(
				graph.WithResolveNodeBreadthLimit(1),
				graph.WithMaxResolutionDepth(25),
				graph.WithPlanner(&fgarun.ForcedPlanner{Want: "default"}),
				graph.WithOptimizations(true),
			),
		).Build()
		if err != nil {
			return nil, nil, err
		}
		return commands.NewCheckCommand(ds, resolver, ts), closer, nil
	}
	checker, closer, err := mkChecker()
	if err != nil {
		return "E build " + err.Error()
	}
	defer closer()

	var checks []*openfgav1.BatchCheckItem
	for _, it := range items {
		bi := &openfgav1.BatchCheckItem{
			TupleKey:      &openfgav1.CheckRequestTupleKey{Object: it.rq.Obj, Relation: it.rq.Rel, User: it.rq.User},
			Context:       fga.CtxStruct(it.rq.Ctx),
			CorrelationId: it.cid,
		}
		if len(it.ctxT) > 0 {
			bi.ContextualTuples = &openfgav1.ContextualTupleKeys{TupleKeys: fga.Keys(it.ctxT)}
		}
		checks = append(checks, bi)
	}
	cmd := commands.NewBatchCheckCommand(checker,
		commands.WithBatchCheckMaxChecksPerBatch(uint32(max)),
		commands.WithBatchCheckMaxConcurrentChecks(uint32(conc)))
	ctx, cancel := context.WithTimeout(context.Background(), 60*time.Second)
	defer cancel()
	results, meta, err := cmd.Execute(ctx, &commands.BatchCheckCommandParams{
		AuthorizationModelID: fgarun.ModelID,
		Checks:               checks,
		StoreID:              fgarun.StoreID,
	})
	requestAlive := ctx.Err() == nil
	if err != nil {
		var ve *commands.BatchCheckValidationError
		if errors.As(err, &ve) {
			switch {
			case strings.HasPrefix(ve.Message, "batchCheck received"):
				return "ERR too-many"
			case strings.HasPrefix(ve.Message, "batch check requires at least one"):
				return "ERR no-checks"
			case strings.HasPrefix(ve.Message, "received empty correlation id"):
				return "ERR empty-id"
			case strings.HasPrefix(ve.Message, "received duplicate correlation id: "):
				return "ERR dup-id " + dash(strings.TrimPrefix(ve.Message, "received duplicate correlation id: "))
			}
			return "ERR validation-other"
		}
		return "ERR other"
	}
	var parts []string
	known := map[string]bool{}
	// the standalone Check of item i, through a checker of its own
	standalone := func(i int) string {
		ck, cl, err := mkChecker()
		if err != nil {
			return "Ebuild"
		}
		defer cl()
		c2, cancel2 := context.WithTimeout(context.Background(), 20*time.Second)
		defer cancel2()
		res, err := ck.Execute(c2, &commands.CheckCommandParams{
			StoreID:          fgarun.StoreID,
			TupleKey:         checks[i].GetTupleKey(),
			ContextualTuples: checks[i].GetContextualTuples(),
			Context:          checks[i].GetContext(),
		})
		return outcome(res, err)
	}
	// item i as a batch of one (command and checker of its own)
	batchOfOne := func(i int) string {
		ck, cl, err := mkChecker()
		if err != nil {
			return "Ebuild"
		}
		defer cl()
		c3, cancel3 := context.WithTimeout(context.Background(), 20*time.Second)
		defer cancel3()
		one := commands.NewBatchCheckCommand(ck, commands.WithBatchCheckMaxChecksPerBatch(uint32(max)), commands.WithBatchCheckMaxConcurrentChecks(uint32(conc)))
		r1, _, e1 := one.Execute(c3, &commands.BatchCheckCommandParams{AuthorizationModelID: fgarun.ModelID, Checks: checks[i : i+1], StoreID: fgarun.StoreID})
		if e1 != nil {
			return "Ebatch"
		}
		if o := r1[commands.CorrelationID(items[i].cid)]; o != nil {
			return outcome(&commands.CheckResult{Allowed: o.Allowed}, o.Err)
		}
		return "missing"
	}
	for i, it := range items {
		known[it.cid] = true
		b := "missing"
		if o, ok := results[commands.CorrelationID(it.cid)]; ok && o != nil {
			b = outcome(&commands.CheckResult{Allowed: o.Allowed}, o.Err)
			if o.Err != nil && errors.Is(o.Err, context.Canceled) && requestAlive {
				// the item was cancelled although nobody cancelled the request
				b = "Ecancel-live"
			}
		}
		s1 := standalone(i)
		mark := ""
		if b != s1 && b != "missing" && b != "Ecancel-live" {
			// Check itself may be non-deterministic on this input (C02: exclusion / intersection races on
			// cyclic models): ask again, standalone and as a batch of one.  Only an answer of Check that varies
			// from call to call on the SAME path excuses the difference; a full batch that differs from stable
			// standalone answers and from stable batches of one does not.
			st.Inc("recheck")
			b1 := batchOfOne(i)
			for rep := 0; rep < 12 && mark == ""; rep++ {
				if standalone(i) != s1 || batchOfOne(i) != b1 {
					mark = "~"
				}
			}
		}
		parts = append(parts, it.cid+"="+b+"/"+s1+mark)
	}
	var extra []string
	for id := range results {
		if !known[string(id)] {
			extra = append(extra, string(id))
		}
	}
	sort.Strings(extra)
	return fmt.Sprintf("OK dup=%d extra=%d %s", meta.DuplicateCheckCount, len(extra), strings.Join(parts, " "))
}

func main() { hx.Main(hx.Harness{Gen: gen, Exec: exec}) }
