// Harness for C08 (the Check query cache never changes answers): request *sequences* against an
// unchanged store are sent through one engine instance whose sub-problem cache is shared by the whole
// sequence, and each answer is compared with the answer of a cache-less engine.  Both the default
// engine (CachedCheckResolver) and the weighted-graph engine (edge cache) are exercised, with breadth
// limit 1 (deterministic sub-problem order) and the default breadth.
package main

import (
	"context"
	"fmt"
	"strings"

	"github.com/openfga/openfga/internal/validation"
	"github.com/openfga/openfga/pkg/typesystem"
	"github.com/openfga/openfga/verifharness/fga"
	"github.com/openfga/openfga/verifharness/fgarun"
	"github.com/openfga/openfga/verifharness/hx"
)

func b2i(b bool) int {
	if b {
		return 1
	}
	return 0
}

type step struct {
	rq   fga.Req
	ctxT []fga.Tuple
}

func encode(m *fga.Model, ts *typesystem.TypeSystem, tuples []fga.Tuple, steps []step) string {
	var sb strings.Builder
	fmt.Fprintf(&sb, "cfg 25 %d %s %s seq %d", b2i(m.Stratified()), m.Encode(), fga.EncodeTuples("tuples", tuples), len(steps))
	for _, s := range steps {
		fmt.Fprintf(&sb, " %s %s %s", fga.EncodeAux(fga.Aux(m, ts, s.rq.User)), fga.EncodeTuples("ctx", s.ctxT), s.rq.Encode())
	}
	return sb.String()
}

// crafted: F11 (edge results computed under the shared visited filter are cached by the weighted-graph engine)
func crafted() []string {
	this := func() *fga.Rewrite { return &fga.Rewrite{Kind: "this"} }
	u := fga.Restr{Typ: "user"}
	m := &fga.Model{Types: []*fga.TypeDef{{Name: "user"},
		{Name: "team", Rels: []*fga.RelDef{{Name: "member", Rewrite: this(), Restrs: []fga.Restr{u, {Typ: "group", Rel: "member"}}}}},
		{Name: "group", Rels: []*fga.RelDef{{Name: "member", Rewrite: this(), Restrs: []fga.Restr{u, {Typ: "team", Rel: "member"}, {Typ: "org", Rel: "member"}}}}},
		{Name: "org", Rels: []*fga.RelDef{{Name: "member", Rewrite: this(), Restrs: []fga.Restr{u}}}}}}
	ts, err := typesystem.NewAndValidate(context.Background(), m.Proto(fgarun.ModelID))
	if err != nil {
		panic(err)
	}
	tuples := []fga.Tuple{
		{Obj: "group:a", Rel: "member", User: "team:b#member"}, {Obj: "team:b", Rel: "member", User: "group:a#member"},
		{Obj: "group:a", Rel: "member", User: "org:o#member"}, {Obj: "org:o", Rel: "member", User: "user:x"},
	}
	out := []string{encode(m, ts, tuples, []step{
		{rq: fga.Req{Obj: "group:a", Rel: "member", User: "user:x"}},
		{rq: fga.Req{Obj: "team:b", Rel: "member", User: "user:x"}},
	})}
	// a DISPATCHED sub-problem whose answer depends on the request context / on a contextual tuple: the
	// sub-problem key must carry both (not only the key of the root request)
	cm := &fga.Model{Types: []*fga.TypeDef{{Name: "user"},
		{Name: "team", Rels: []*fga.RelDef{{Name: "member", Rewrite: this(), Restrs: []fga.Restr{u}}}},
		{Name: "group", Rels: []*fga.RelDef{{Name: "member", Rewrite: this(), Restrs: []fga.Restr{{Typ: "user", Cond: "c1"}, {Typ: "team", Rel: "member"}}}}},
		{Name: "doc", Rels: []*fga.RelDef{{Name: "viewer", Rewrite: this(), Restrs: []fga.Restr{{Typ: "group", Rel: "member"}}}}}},
		Conds: []*fga.CondDef{{Name: "c1", Param: "x", Op: "lt", Const: 10}}}
	cts, err := typesystem.NewAndValidate(context.Background(), cm.Proto(fgarun.ModelID))
	if err != nil {
		panic(err)
	}
	ctup := []fga.Tuple{
		{Obj: "doc:1", Rel: "viewer", User: "group:g#member"}, {Obj: "group:g", Rel: "member", User: "user:x", Cond: "c1"},
		{Obj: "doc:2", Rel: "viewer", User: "group:h#member"}, {Obj: "group:h", Rel: "member", User: "team:t#member"},
	}
	tm := fga.Tuple{Obj: "team:t", Rel: "member", User: "user:x"}
	out = append(out, encode(cm, cts, ctup, []step{
		{rq: fga.Req{Obj: "doc:1", Rel: "viewer", User: "user:x", Ctx: []fga.KV{{K: "x", V: 5}}}},
		{rq: fga.Req{Obj: "doc:1", Rel: "viewer", User: "user:x", Ctx: []fga.KV{{K: "x", V: 20}}}},
		{rq: fga.Req{Obj: "doc:1", Rel: "viewer", User: "user:x", Ctx: []fga.KV{{K: "x", V: 5}}}},
		{rq: fga.Req{Obj: "doc:2", Rel: "viewer", User: "user:x"}, ctxT: []fga.Tuple{tm}},
		{rq: fga.Req{Obj: "doc:2", Rel: "viewer", User: "user:x"}},
		{rq: fga.Req{Obj: "doc:2", Rel: "viewer", User: "user:x"}, ctxT: []fga.Tuple{tm}},
	}))
	return out
}

func gen(r *hx.Rand, n int, tier string, emit func(string), st *hx.Stats) {
	for _, c := range crafted() {
		emit(c)
		st.Inc("crafted")
	}
	for i := 0; i < n; i++ {
		c := r.Fork()
		m, ts := fga.GenModel(c, fga.DefaultOpts())
		if c.Chance(1, 3) {
			m, ts = fga.GenStrategyModel(c)
		}
		if len(m.Types) < 2 {
			i--
			continue
		}
		tuples := fga.GenTuples(c, m, 4+c.Intn(20))
		// "flip" tuples: valid tuples that are NOT stored and are passed as contextual tuples by some
		// requests of the sequence and not by others — the same request then has two answers, and a cache
		// key that forgets the contextual tuples (or the context) serves one for the other
		var flips []fga.Tuple
		if c.Chance(1, 2) && len(tuples) > 3 {
			nf := 1 + c.Intn(2)
			for f := 0; f < nf && len(tuples) > 2; f++ {
				ix := c.Intn(len(tuples))
				if validation.ValidateTupleForWrite(ts, tuples[ix].Key()) == nil {
					flips = append(flips, tuples[ix])
					tuples = append(tuples[:ix:ix], tuples[ix+1:]...)
				}
			}
		}
		// one subject and context dominate the sequence so that sub-problems overlap
		base := fga.GenReq(c, m, tuples)
		k := 4 + c.Intn(12)
		var steps []step
		var pivot *fga.Req
		for j := 0; j < k; j++ {
			rq := fga.GenReq(c, m, tuples)
			if c.Chance(4, 5) {
				rq.User, rq.Ctx = base.User, base.Ctx
			}
			if len(flips) > 0 {
				// repeat one request around the flip tuple with and without it, and with another context
				if pivot == nil {
					f := flips[0]
					pv := fga.Req{Obj: f.Obj, Rel: f.Rel, User: base.User, Ctx: base.Ctx}
					if c.Chance(1, 2) {
						pv.User = f.User
					}
					pivot = &pv
				}
				if c.Chance(1, 2) {
					rq = *pivot
					if c.Chance(1, 4) {
						rq.Ctx = fga.GenReqCtx(c, m)
					}
				}
				var ctxT []fga.Tuple
				if c.Chance(1, 2) {
					ctxT = append(ctxT, flips[c.Intn(len(flips))])
				}
				steps = append(steps, step{rq, ctxT})
				continue
			}
			var ctxT []fga.Tuple
			if c.Chance(1, 8) {
				seen := map[string]bool{}
				for _, t := range tuples {
					seen[t.String()] = true
				}
				if t, ok := fga.GenTuple(c, m); ok && !seen[t.String()] && validation.ValidateTupleForWrite(ts, t.Key()) == nil {
					ctxT = append(ctxT, t)
				}
			}
			steps = append(steps, step{rq, ctxT})
			if len(m.Conds) > 0 && c.Chance(1, 3) {
				// the same request with another request context: sub-problems cached for one context
				// must not answer the other
				rq2 := rq
				rq2.Ctx = fga.GenReqCtx(c, m)
				steps = append(steps, step{rq2, ctxT})
			}
		}
		emit(encode(m, ts, tuples, steps))
		st.Inc("sequences")
		st.Add("requests", k)
	}
}

func exec(line string, st *hx.Stats) string {
	t := fga.NewToks(line)
	t.Expect("cfg")
	depth := t.Int()
	_ = t.Int()
	m := fga.DecodeModel(t)
	tuples := fga.DecodeTuples(t, "tuples")
	t.Expect("seq")
	k := t.Int()
	var steps []step
	for j := 0; j < k; j++ {
		fga.SkipAux(t)
		ctxT := fga.DecodeTuples(t, "ctx")
		steps = append(steps, step{fga.DecodeReq(t), ctxT})
	}
	pm := m.Proto(fgarun.ModelID)
	ts, err := typesystem.NewAndValidate(context.Background(), pm)
	if err != nil {
		return "invalid-model"
	}
	ds := fgarun.Store(tuples)
	defer ds.Close()
	var out []string
	run := func(name string, mk func(cache bool) fgarun.Engine) {
		cached := mk(true)
		plain := mk(false)
		defer cached.Close()
		defer plain.Close()
		var parts []string
		// the sequence is sent twice through the cached engine: the second pass is answered from a warm cache
		for pass := 0; pass < 2; pass++ {
			for _, s := range steps {
				c := cached.Check(s.rq, s.ctxT)
				u := plain.Check(s.rq, s.ctxT)
				cc, uc := cls(c), cls(u)
				if cc != uc && (cc == "T" || cc == "F") && (uc == "T" || uc == "F") {
					// before blaming the cache: is the cache-less engine itself stable on this request? (an engine
					// whose answer depends on arrival order — findings F2, V2-E — is C02/C03's business, not the
					// cache's); "N" is not a decision, the driver does not compare it
					for i := 0; i < 8 && uc != "N"; i++ {
						fresh := mk(false)
						if cls(fresh.Check(s.rq, s.ctxT)) != uc {
							uc, cc = "N", "N"
						}
						fresh.Close()
					}
				}
				parts = append(parts, cc+"/"+uc)
			}
		}
		out = append(out, name+"="+strings.Join(parts, ","))
	}
	for _, br := range []uint32{1, 25} {
		cfg := fgarun.Config{MaxDepth: uint32(depth), Breadth: br, Strategy: "default"}
		run(fmt.Sprintf("v1b%d", br), func(cache bool) fgarun.Engine { return fgarun.NewV1(ts, ds, cfg, cache) })
		run(fmt.Sprintf("v2b%d", br), func(cache bool) fgarun.Engine {
			e, err := fgarun.NewV2(ts, ds, pm, cfg, cache)
			if err != nil {
				return errEngine{err.Error()}
			}
			return e
		})
	}
	return strings.Join(out, " ")
}

type errEngine struct{ msg string }

func (e errEngine) Check(fga.Req, []fga.Tuple) string { return "E other nomodelgraph" }
func (e errEngine) Close()                            {}

func cls(o string) string {
	f := strings.Fields(o)
	if f[0] == "E" {
		return "E" + f[1]
	}
	return f[0]
}

func main() { hx.Main(hx.Harness{Gen: gen, Exec: exec}) }
