// Harness for C09 (iterator caches never change answers).
//
// Case kinds:
//
//	h <maxSize> <events>      one real CachedDatastore (real theine cache, real singleflight, real WaitGroup) over a scripted
//	                          datastore that wraps the real memory backend.  Events, ';'-separated, run in one goroutine; after every
//	                          read the harness waits for the background goroutines (deterministic):
//	    R<f>:<ops>:<fail>:<hc>:<cancelAfter>   read with filter f; ops n N h H (Next/Head with a live / cancelled request context),
//	                          then Stop.  fail = "-" or p: the datastore's iterator fails once, before item p.  hc = 1: a failing
//	                          Head consumes the failing element (as the SQL iterators do).  cancelAfter = "-" or k: the server context
//	                          is cancelled right after the k-th underlying call made by Stop's goroutine (0 = just before Stop).
//	    E<f>                  the cache entry of filter f is evicted
//	    Ip / If               store-level invalidation marker dated one hour ago / one hour ahead
//	    Jp<f> / Jf<f>         entity-level invalidation marker for filter f
//	    D                     all invalidation markers are evicted
//	  output: "n=<len of each filter's uncached result>" then one token group per event, then "F=" one verdict per filter: the final read
//	  (after waiting) compared with the uncached result ("ok" / the sequence).
//	hs <events>               the same history through NewRequestStorageWrapperWithCache (combined -> shared iterator -> cached -> bounded
//	                          -> scripted datastore); only the final verdicts are compared (batching of the shared iterator is not modelled here)
//	hr <maxSize> <events>     like h but without waiting between the reads (background drains race with the next reads); final verdicts only
//	sq ...                    (see execSqlite) the cancellation / Head assumptions probed on the real memory iterator
//	hc <n> <pauseAt> <order>  cancellation isolation of the shared iterator, through the full request wrapper (see execCancelShare): two
//	                          requests A and B share one query over n (> bufferSize) tuples; A's context is cancelled while the batch
//	                          fetch that A triggered is blocked inside the datastore iterator's pauseAt-th Next; B (live context) must
//	                          still be served the complete uncached sequence.  order 0: B opens its iterator before A reads, 1: after
//	                          A was cancelled.  output: "n=<n> A=P<k>,<end> B=P<k>,<end> made=<datastore iterators created>"
//
// Tuples are printed as their index in the filter's uncached result ("?" if the tuple is not in it, i.e. it was rebuilt wrongly).
package main

import (
	"context"
	"errors"
	"fmt"
	"strconv"
	"strings"
	"sync"
	"time"

	"golang.org/x/sync/singleflight"
	"google.golang.org/protobuf/proto"
	"google.golang.org/protobuf/types/known/structpb"

	openfgav1 "github.com/openfga/api/proto/openfga/v1"

	"github.com/openfga/openfga/internal/shared"
	"github.com/openfga/openfga/internal/utils/apimethod"
	serverconfig "github.com/openfga/openfga/pkg/server/config"
	"github.com/openfga/openfga/pkg/storage"
	"github.com/openfga/openfga/pkg/storage/cache/keys"
	"github.com/openfga/openfga/pkg/storage/memory"
	"github.com/openfga/openfga/pkg/storage/storagewrappers"
	"github.com/openfga/openfga/pkg/tuple"
	"github.com/openfga/openfga/verifharness/hx"
)

const storeID = "01HVMMBCMGZNT3SED4Z17ECXCA"

type scriptErr struct{ id int }

func (e scriptErr) Error() string { return "E" + strconv.Itoa(e.id) }

// ---------- scripted datastore ----------

type plan struct {
	failPos      int // -1 = never
	headConsumes bool
	lossy        bool // the failing element is a row that cannot be decoded: the failing call consumes (loses) item failPos
	cancelAfter  int  // -1 = never; counted from arm()
}

// faultIter wraps a real datastore iterator.
type faultIter struct {
	mu       sync.Mutex
	inner    storage.TupleIterator
	plan     plan
	yielded  int
	failed   bool
	reads    int // live Next calls
	stops    int
	armed    bool
	calls    int // calls since armed
	cancelFn context.CancelFunc
}

func (f *faultIter) arm() {
	f.mu.Lock()
	defer f.mu.Unlock()
	f.armed = true
	if f.plan.cancelAfter == 0 && f.cancelFn != nil {
		f.cancelFn()
	}
}

func (f *faultIter) afterCall() {
	if f.armed {
		f.calls++
		if f.plan.cancelAfter > 0 && f.calls == f.plan.cancelAfter && f.cancelFn != nil {
			f.cancelFn()
		}
	}
}

func (f *faultIter) Next(ctx context.Context) (*openfgav1.Tuple, error) {
	f.mu.Lock()
	defer f.mu.Unlock()
	defer f.afterCall()
	if ctx.Err() != nil {
		return nil, ctx.Err()
	}
	f.reads++
	if !f.failed && f.plan.failPos == f.yielded {
		f.failed = true
		if f.plan.lossy {
			if _, err := f.inner.Next(ctx); err == nil {
				f.yielded++
			}
		}
		return nil, scriptErr{7}
	}
	t, err := f.inner.Next(ctx)
	if err == nil {
		f.yielded++
	}
	return t, err
}

func (f *faultIter) Head(ctx context.Context) (*openfgav1.Tuple, error) {
	f.mu.Lock()
	defer f.mu.Unlock()
	defer f.afterCall()
	if ctx.Err() != nil {
		return nil, ctx.Err()
	}
	if !f.failed && f.plan.failPos == f.yielded {
		if f.plan.headConsumes {
			f.failed = true
			if f.plan.lossy {
				if _, err := f.inner.Next(ctx); err == nil {
					f.yielded++
				}
			}
		}
		return nil, scriptErr{7}
	}
	return f.inner.Head(ctx)
}

func (f *faultIter) Stop() {
	f.mu.Lock()
	defer f.mu.Unlock()
	f.stops++
	f.inner.Stop()
}

func (f *faultIter) IsOrdered() bool { return f.inner.IsOrdered() }

type scriptedDS struct {
	storage.RelationshipTupleReader
	mu       sync.Mutex
	nextPlan plan
	last     *faultIter
	made     int
	cancelFn context.CancelFunc
}

func (s *scriptedDS) wrap(it storage.TupleIterator, err error) (storage.TupleIterator, error) {
	if err != nil {
		return nil, err
	}
	s.mu.Lock()
	defer s.mu.Unlock()
	f := &faultIter{inner: it, plan: s.nextPlan, cancelFn: s.cancelFn}
	s.last = f
	s.made++
	s.nextPlan = plan{failPos: -1, cancelAfter: -1}
	return f, nil
}

func (s *scriptedDS) Read(ctx context.Context, store string, f storage.ReadFilter, o storage.ReadOptions) (storage.TupleIterator, error) {
	return s.wrap(s.RelationshipTupleReader.Read(ctx, store, f, o))
}
func (s *scriptedDS) ReadUsersetTuples(ctx context.Context, store string, f storage.ReadUsersetTuplesFilter, o storage.ReadUsersetTuplesOptions) (storage.TupleIterator, error) {
	return s.wrap(s.RelationshipTupleReader.ReadUsersetTuples(ctx, store, f, o))
}
func (s *scriptedDS) ReadStartingWithUser(ctx context.Context, store string, f storage.ReadStartingWithUserFilter, o storage.ReadStartingWithUserOptions) (storage.TupleIterator, error) {
	return s.wrap(s.RelationshipTupleReader.ReadStartingWithUser(ctx, store, f, o))
}

// ---------- data set and filters ----------

func ctxStruct(k string, v float64) *structpb.Struct {
	s, _ := structpb.NewStruct(map[string]interface{}{k: v})
	return s
}

func dataset() []*openfgav1.TupleKey {
	tk := tuple.NewTupleKey
	return []*openfgav1.TupleKey{
		tk("doc:1", "viewer", "user:a"),
		tk("doc:1", "viewer", "user:b"),
		tuple.NewTupleKeyWithCondition("doc:1", "viewer", "user:c", "c1", ctxStruct("x", 1)),
		tk("doc:1", "viewer", "group:g1#member"),
		tk("doc:1", "viewer", "group:g2#member"),
		tk("doc:1", "editor", "user:a"),
		tk("doc:2", "viewer", "user:a"),
		tuple.NewTupleKeyWithCondition("doc:2", "viewer", "user:*", "c2", nil),
		tk("doc:2", "viewer", "group:g1#member"),
		tk("group:g1", "member", "user:a"),
		tk("group:g1", "member", "user:b"),
		tk("group:g1", "member", "user:c"),
		tk("group:g1", "member", "user:d"),
		tk("group:g1", "member", "user:e"),
		tk("group:g1", "member", "user:f"),
		tuple.NewTupleKeyWithCondition("group:g1", "member", "user:g", "c1", ctxStruct("y", 2)),
		tk("folder:1", "viewer", "user:a"),
	}
}

const numFilters = 6

type reader func(ctx context.Context, ds storage.RelationshipTupleReader) (storage.TupleIterator, error)

func filter(i int) (reader, keys.Key) {
	switch i {
	case 0:
		f := storage.ReadFilter{Object: "doc:1", Relation: "viewer"}
		return func(ctx context.Context, ds storage.RelationshipTupleReader) (storage.TupleIterator, error) {
			return ds.Read(ctx, storeID, f, storage.ReadOptions{})
		}, storage.ReadKey(storeID, f)
	case 1:
		f := storage.ReadUsersetTuplesFilter{Object: "doc:1", Relation: "viewer",
			AllowedUserTypeRestrictions: []*openfgav1.RelationReference{{Type: "group", RelationOrWildcard: &openfgav1.RelationReference_Relation{Relation: "member"}}}}
		return func(ctx context.Context, ds storage.RelationshipTupleReader) (storage.TupleIterator, error) {
			return ds.ReadUsersetTuples(ctx, storeID, f, storage.ReadUsersetTuplesOptions{})
		}, storage.ReadUsersetTuplesKey(storeID, f)
	case 2:
		f := storage.ReadStartingWithUserFilter{ObjectType: "doc", Relation: "viewer", UserFilter: []*openfgav1.ObjectRelation{{Object: "user:a"}}}
		return func(ctx context.Context, ds storage.RelationshipTupleReader) (storage.TupleIterator, error) {
			return ds.ReadStartingWithUser(ctx, storeID, f, storage.ReadStartingWithUserOptions{})
		}, storage.ReadStartingWithUserKey(storeID, f)
	case 3:
		f := storage.ReadFilter{Object: "group:g1", Relation: "member"}
		return func(ctx context.Context, ds storage.RelationshipTupleReader) (storage.TupleIterator, error) {
			return ds.Read(ctx, storeID, f, storage.ReadOptions{})
		}, storage.ReadKey(storeID, f)
	case 4:
		f := storage.ReadFilter{Object: "doc:3", Relation: "viewer"}
		return func(ctx context.Context, ds storage.RelationshipTupleReader) (storage.TupleIterator, error) {
			return ds.Read(ctx, storeID, f, storage.ReadOptions{})
		}, storage.ReadKey(storeID, f)
	default:
		f := storage.ReadStartingWithUserFilter{ObjectType: "doc", Relation: "viewer",
			UserFilter: []*openfgav1.ObjectRelation{{Object: "user:a"}, {Object: "user:*"}}}
		return func(ctx context.Context, ds storage.RelationshipTupleReader) (storage.TupleIterator, error) {
			return ds.ReadStartingWithUser(ctx, storeID, f, storage.ReadStartingWithUserOptions{})
		}, storage.ReadStartingWithUserKey(storeID, f)
	}
}

func filterKeyOf(i int) keys.Key {
	_, k := filter(i)
	return k
}

// entity-level invalidation keys that apply to filter i
func entityKeys(i int) []keys.Key {
	or := func(o, r string) keys.Key { return storage.InvalidIteratorByObjectRelationCacheKey(storeID, o, r) }
	uot := func(u, t string) keys.Key { return storage.InvalidIteratorByUserObjectTypeCacheKey(storeID, u, t) }
	switch i {
	case 0, 1:
		return []keys.Key{or("doc:1", "viewer")}
	case 2:
		return []keys.Key{uot("user:a", "doc")}
	case 3:
		return []keys.Key{or("group:g1", "member")}
	case 4:
		return []keys.Key{or("doc:3", "viewer")}
	default:
		return []keys.Key{uot("user:a", "doc"), uot("user:*", "doc")}
	}
}

var (
	liveCtx      = context.Background()
	cancelledCtx = func() context.Context {
		c, cancel := context.WithCancel(context.Background())
		cancel()
		return c
	}()
)

type world struct {
	mem      storage.OpenFGADatastore
	sds      *scriptedDS
	full     [][]*openfgav1.Tuple
	serverCx context.Context
	cancel   context.CancelFunc
	keyOnly  bool // V2 cache: the rebuilt tuples carry no time stamp
}

func newWorld() (*world, error) {
	mem := memory.New()
	if err := mem.Write(context.Background(), storeID, nil, dataset()); err != nil {
		return nil, err
	}
	w := &world{mem: mem}
	w.serverCx, w.cancel = context.WithCancel(context.Background())
	w.sds = &scriptedDS{RelationshipTupleReader: mem, nextPlan: plan{failPos: -1, cancelAfter: -1}, cancelFn: w.cancel}
	for i := 0; i < numFilters; i++ {
		rd, _ := filter(i)
		it, err := rd(context.Background(), mem)
		if err != nil {
			return nil, err
		}
		var ts []*openfgav1.Tuple
		for {
			t, err := it.Next(context.Background())
			if err != nil {
				break
			}
			ts = append(ts, t)
		}
		it.Stop()
		w.full = append(w.full, ts)
	}
	return w, nil
}

func (w *world) tok(f int, t *openfgav1.Tuple) string {
	for i, u := range w.full[f] {
		if proto.Equal(t, u) || (w.keyOnly && proto.Equal(t.GetKey(), u.GetKey())) {
			return strconv.Itoa(i)
		}
	}
	return "?"
}

func errTok(err error) string {
	var se scriptErr
	switch {
	case errors.Is(err, storage.ErrIteratorDone):
		return "D"
	case errors.Is(err, context.Canceled), errors.Is(err, context.DeadlineExceeded):
		return "C"
	case errors.As(err, &se):
		return "E" + strconv.Itoa(se.id)
	}
	return "?" + strings.ReplaceAll(err.Error(), " ", "_")
}

func (w *world) drive(f int, it storage.TupleIterator, ops string) []string {
	var out []string
	for _, o := range ops {
		var t *openfgav1.Tuple
		var err error
		switch o {
		case 'n':
			t, err = it.Next(liveCtx)
		case 'N':
			t, err = it.Next(cancelledCtx)
		case 'h':
			t, err = it.Head(liveCtx)
		case 'H':
			t, err = it.Head(cancelledCtx)
		default:
			continue
		}
		if err != nil {
			out = append(out, errTok(err))
		} else {
			out = append(out, w.tok(f, t))
		}
	}
	return out
}

// finalVerdict reads filter f completely and compares with the uncached result.
func (w *world) finalVerdict(f int, ds storage.RelationshipTupleReader) string {
	rd, _ := filter(f)
	it, err := rd(liveCtx, ds)
	if err != nil {
		return "err"
	}
	defer it.Stop()
	var toks []string
	ok := true
	for i := 0; ; i++ {
		t, err := it.Next(liveCtx)
		if err != nil {
			toks = append(toks, errTok(err))
			if !errors.Is(err, storage.ErrIteratorDone) || i != len(w.full[f]) {
				ok = false
			}
			break
		}
		tk := w.tok(f, t)
		toks = append(toks, tk)
		if tk != strconv.Itoa(i) {
			ok = false
		}
		if i > 3*len(w.full[f])+5 {
			ok = false
			break
		}
	}
	if ok {
		return "ok"
	}
	return strings.Join(toks, ".")
}

type event struct {
	kind                      string
	f                         int
	ops                       string
	fail, cancelAfter         int
	hc, lossy                 bool
}

func parseEvents(s string) []event {
	var out []event
	for _, e := range strings.Split(s, ";") {
		if e == "" || e == "-" {
			continue
		}
		switch e[0] {
		case 'R':
			p := strings.Split(e[1:], ":")
			f, _ := strconv.Atoi(p[0])
			ev := event{kind: "R", f: f, ops: p[1], fail: -1, cancelAfter: -1}
			if ev.ops == "-" {
				ev.ops = ""
			}
			if p[2] != "-" {
				ev.fail, _ = strconv.Atoi(p[2])
			}
			ev.hc = p[3] == "1" || p[3] == "2"
			ev.lossy = p[3] == "2"
			if p[4] != "-" {
				ev.cancelAfter, _ = strconv.Atoi(p[4])
			}
			out = append(out, ev)
		case 'E':
			f, _ := strconv.Atoi(e[1:])
			out = append(out, event{kind: "E", f: f})
		case 'I':
			out = append(out, event{kind: "I" + e[1:2]})
		case 'J':
			f, _ := strconv.Atoi(e[2:])
			out = append(out, event{kind: "J" + e[1:2], f: f})
		case 'D':
			out = append(out, event{kind: "D"})
		}
	}
	return out
}

func (w *world) lens() string {
	parts := make([]string, numFilters)
	for i := range parts {
		parts[i] = strconv.Itoa(len(w.full[i]))
	}
	return "n=" + strings.Join(parts, ",")
}

func execHist(f []string, wait bool, v2 bool) string {
	maxSize, _ := strconv.Atoi(f[1])
	evs := parseEvents(f[2])
	w, err := newWorld()
	if err != nil {
		return "setup:" + err.Error()
	}
	cache, err := storage.NewInMemoryLRUCache[any]()
	if err != nil {
		return "cache:" + err.Error()
	}
	defer cache.Stop()
	var wg sync.WaitGroup
	sf := &singleflight.Group{}
	var cds storage.RelationshipTupleReader = storagewrappers.NewCachedDatastore(w.serverCx, w.sds, cache, maxSize, time.Hour, sf, &wg)
	if v2 {
		w.keyOnly = true
		cds = storagewrappers.NewCachedTupleReader(w.serverCx, w.sds, cache, maxSize, time.Hour, sf, &wg, 5*time.Second)
	}
	var out []string
	marker := func(future bool) *storage.InvalidEntityCacheEntry {
		t := time.Now().Add(-time.Hour)
		if future {
			t = time.Now().Add(time.Hour)
		}
		return &storage.InvalidEntityCacheEntry{LastModified: t}
	}
	for _, ev := range evs {
		switch ev.kind {
		case "R":
			w.sds.mu.Lock()
			w.sds.nextPlan = plan{failPos: ev.fail, headConsumes: ev.hc, lossy: ev.lossy, cancelAfter: ev.cancelAfter}
			before := w.sds.made
			w.sds.last = nil
			w.sds.mu.Unlock()
			rd, _ := filter(ev.f)
			it, err := rd(liveCtx, cds)
			if err != nil {
				out = append(out, "err")
				continue
			}
			w.sds.mu.Lock()
			fi := w.sds.last
			direct := w.sds.made > before
			w.sds.nextPlan = plan{failPos: -1, cancelAfter: -1}
			w.sds.mu.Unlock()
			res := w.drive(ev.f, it, ev.ops)
			if fi != nil {
				fi.arm()
			}
			it.Stop()
			if wait {
				wg.Wait()
			}
			tag := "c"
			if direct {
				tag = "d"
			}
			g := tag
			if len(res) > 0 {
				g += ":" + strings.Join(res, ".")
			}
			if direct && fi != nil && wait {
				fi.mu.Lock()
				g += fmt.Sprintf(":r%d:s%d", fi.reads, fi.stops)
				fi.mu.Unlock()
			}
			out = append(out, g)
		case "E":
			rdKey := filterKeyOf(ev.f)
			cache.Delete(rdKey)
			out = append(out, "-")
		case "Ip", "If":
			cache.Set(storage.InvalidIteratorCacheKey(storeID), marker(ev.kind == "If"), time.Hour)
			out = append(out, "-")
		case "Jp", "Jf":
			for _, k := range entityKeys(ev.f) {
				cache.Set(k, marker(ev.kind == "Jf"), time.Hour)
			}
			out = append(out, "-")
		case "D":
			cache.Delete(storage.InvalidIteratorCacheKey(storeID))
			for i := 0; i < numFilters; i++ {
				for _, k := range entityKeys(i) {
					cache.Delete(k)
				}
			}
			out = append(out, "-")
		}
	}
	wg.Wait()
	w.sds.mu.Lock()
	w.sds.nextPlan = plan{failPos: -1, cancelAfter: -1} // a plan meant for a read that was served from the cache
	w.sds.mu.Unlock()
	verdicts := make([]string, numFilters)
	for i := 0; i < numFilters; i++ {
		verdicts[i] = w.finalVerdict(i, cds)
		wg.Wait()
	}
	res := "-"
	if len(out) > 0 {
		res = strings.Join(out, ";")
	}
	return w.lens() + " " + res + " F=" + strings.Join(verdicts, ",")
}

func execStack(f []string) string {
	evs := parseEvents(f[1])
	w, err := newWorld()
	if err != nil {
		return "setup:" + err.Error()
	}
	settings := serverconfig.NewDefaultCacheSettings()
	settings.CheckCacheLimit = 10000
	settings.CheckIteratorCacheEnabled = true
	settings.CheckIteratorCacheMaxResults = 100
	settings.CheckIteratorCacheTTL = time.Hour
	settings.SharedIteratorEnabled = true
	settings.SharedIteratorLimit = 1000
	res, err := shared.NewSharedDatastoreResources(w.serverCx, &singleflight.Group{}, w.mem, settings)
	if err != nil {
		return "res:" + err.Error()
	}
	defer res.Close()
	mk := func() storage.RelationshipTupleReader {
		return storagewrappers.NewRequestStorageWrapperWithCache(w.sds, nil,
			&storagewrappers.Operation{Method: apimethod.Check, Concurrency: 10},
			storagewrappers.DataResourceConfiguration{Resources: res, CacheSettings: settings})
	}
	for _, ev := range evs {
		if ev.kind != "R" {
			continue
		}
		w.sds.mu.Lock()
		w.sds.nextPlan = plan{failPos: ev.fail, headConsumes: ev.hc, cancelAfter: -1}
		w.sds.mu.Unlock()
		rd, _ := filter(ev.f)
		it, err := rd(liveCtx, mk())
		if err != nil {
			continue
		}
		w.sds.mu.Lock()
		w.sds.nextPlan = plan{failPos: -1, cancelAfter: -1}
		w.sds.mu.Unlock()
		w.drive(ev.f, it, ev.ops)
		it.Stop()
	}
	// the shared iterators must be gone before the final reads (they are keyed like the cache)
	time.Sleep(2 * time.Millisecond)
	res.WaitGroup.Wait()
	verdicts := make([]string, numFilters)
	for i := 0; i < numFilters; i++ {
		verdicts[i] = w.finalVerdict(i, mk())
		res.WaitGroup.Wait()
	}
	return w.lens() + " - F=" + strings.Join(verdicts, ",")
}

// memory iterator: a cancelled call changes nothing, Done only at the true end
func execAssume(f []string) string {
	w, err := newWorld()
	if err != nil {
		return "setup:" + err.Error()
	}
	fi, _ := strconv.Atoi(f[1])
	rd, _ := filter(fi)
	it, err := rd(liveCtx, w.mem)
	if err != nil {
		return "err"
	}
	defer it.Stop()
	return w.lens() + " " + strings.Join(w.drive(fi, it, f[2]), ".")
}

func exec(line string, st *hx.Stats) string {
	f := strings.Fields(line)
	switch f[0] {
	case "h":
		return execHist(f, true, false)
	case "hr":
		return execHist(f, false, false)
	case "hv": // the V2 cache (CachedTupleReader / CachingIterator), waiting after every read
		return execHist(f, true, true)
	case "hvr": // V2, no waiting
		return execHist(f, false, true)
	case "hs":
		return execStack(f)
	case "as":
		return execAssume(f)
	case "hc":
		return execCancelShare(f)
	}
	return "badcase"
}

// ---------- generator ----------

var fullLen = []int{5, 2, 2, 7, 0, 3}

func genOps(r *hx.Rand, n int) string {
	var sb strings.Builder
	switch m := r.Intn(10); {
	case m < 3: // read everything
		for i := 0; i < n+1+r.Intn(2); i++ {
			sb.WriteByte('n')
		}
	case m < 5: // abandon after k
		k := r.Intn(n + 1)
		for i := 0; i < k; i++ {
			sb.WriteByte('n')
		}
	default:
		k := r.Intn(n + 4)
		for i := 0; i < k; i++ {
			switch x := r.Intn(100); {
			case x < 60:
				sb.WriteByte('n')
			case x < 78:
				sb.WriteByte('h')
			case x < 90:
				sb.WriteByte('N')
			default:
				sb.WriteByte('H')
			}
		}
	}
	if sb.Len() == 0 {
		return "-"
	}
	return sb.String()
}

func genEvents(r *hx.Rand, st *hx.Stats, withFaults bool, allowHC bool) string {
	n := 2 + r.Intn(7)
	// concentrate on one or two filters so that reads hit earlier entries
	fs := []int{r.Intn(numFilters)}
	if r.Chance(1, 2) {
		fs = append(fs, r.Intn(numFilters))
	}
	var evs []string
	for i := 0; i < n; i++ {
		switch x := r.Intn(100); {
		case x < 72:
			f := hx.Pick(r, fs)
			fail, hc, ca := "-", "0", "-"
			if withFaults && r.Chance(1, 5) {
				fail = strconv.Itoa(r.Intn(fullLen[f] + 1))
				st.Inc("fault:fail")
				if allowHC && r.Chance(1, 3) {
					hc = "1"
					st.Inc("fault:head-consumes")
				}
			}
			if withFaults && r.Chance(1, 8) {
				ca = strconv.Itoa(r.Intn(fullLen[f] + 3))
				st.Inc("fault:server-cancel")
			}
			evs = append(evs, fmt.Sprintf("R%d:%s:%s:%s:%s", f, genOps(r, fullLen[f]), fail, hc, ca))
		case x < 80:
			evs = append(evs, "E"+strconv.Itoa(hx.Pick(r, fs)))
			st.Inc("ev:evict")
		case x < 84:
			evs = append(evs, "Ip")
			st.Inc("ev:marker")
		case x < 88:
			evs = append(evs, "If")
			st.Inc("ev:marker")
		case x < 92:
			evs = append(evs, "Jp"+strconv.Itoa(hx.Pick(r, fs)))
			st.Inc("ev:marker")
		case x < 96:
			evs = append(evs, "Jf"+strconv.Itoa(hx.Pick(r, fs)))
			st.Inc("ev:marker")
		default:
			evs = append(evs, "D")
			st.Inc("ev:drop-markers")
		}
	}
	return strings.Join(evs, ";")
}

func gen(r *hx.Rand, n int, tier string, emit func(string), st *hx.Stats) {
	for i := 0; i < n; i++ {
		c := r.Fork()
		// a small share (1 in 50): a sharer cancelled in the middle of the batch fetch it triggered
		if c.Intn(50) == 0 {
			st.Inc("hc")
			emit(genCancelShare(c))
			continue
		}
		switch k := c.Intn(20); {
		case k < 13:
			st.Inc("h")
			emit(fmt.Sprintf("h %d %s", 1+c.Intn(9), genEvents(c, st, true, false)))
		case k < 15:
			st.Inc("hs")
			emit("hs " + genEvents(c, st, true, false))
		case k < 16:
			st.Inc("hr")
			emit(fmt.Sprintf("hr %d %s", 2+c.Intn(8), genEvents(c, st, true, false)))
		case k < 18:
			if c.Bool() {
				st.Inc("hv")
				emit(fmt.Sprintf("hv %d %s", 1+c.Intn(9), genEvents(c, st, true, false)))
			} else {
				st.Inc("hvr")
				emit(fmt.Sprintf("hvr %d %s", 2+c.Intn(8), genEvents(c, st, true, false)))
			}
		default:
			st.Inc("as")
			f := c.Intn(numFilters)
			emit(fmt.Sprintf("as %d %s", f, strings.ReplaceAll(genOps(c, fullLen[f])+"NnHhnn", "-", "")))
		}
	}
}

// ---------- a cancelled sharer must not truncate the other sharers' sequence ----------

// gate blocks the pauseAt-th Next call of the datastore iterators until the harness lets it go on.  It only controls WHEN
// the datastore answers, never WHAT: after the pause the call is forwarded unchanged, with the context it was given (so an
// iterator that is handed a context cancelled meanwhile answers with the context's error, as the real iterators do).
type gate struct {
	mu      sync.Mutex
	pauseAt int
	calls   int
	reached chan struct{} // closed when the pauseAt-th Next call has started
	proceed chan struct{} // closed by the harness: go on
}

type gatedIter struct {
	storage.TupleIterator
	g *gate
}

func (i *gatedIter) Next(ctx context.Context) (*openfgav1.Tuple, error) {
	i.g.mu.Lock()
	i.g.calls++
	hit := i.g.calls == i.g.pauseAt
	i.g.mu.Unlock()
	if hit {
		close(i.g.reached)
		select {
		case <-i.g.proceed:
		case <-time.After(20 * time.Second): // failure path only
		}
	}
	return i.TupleIterator.Next(ctx)
}

type gatedDS struct {
	storage.RelationshipTupleReader
	g    *gate
	mu   sync.Mutex
	made int
}

func (d *gatedDS) Read(ctx context.Context, store string, f storage.ReadFilter, o storage.ReadOptions) (storage.TupleIterator, error) {
	it, err := d.RelationshipTupleReader.Read(ctx, store, f, o)
	if err != nil {
		return nil, err
	}
	d.mu.Lock()
	d.made++
	d.mu.Unlock()
	return &gatedIter{TupleIterator: it, g: d.g}, nil
}

// consume reads until the first error; returns the length of the in-order prefix (P<k>) followed by what came next.
func consume(ctx context.Context, it storage.TupleIterator, want []*openfgav1.Tuple) string {
	k := 0
	for {
		t, err := it.Next(ctx)
		if err != nil {
			return fmt.Sprintf("P%d,%s", k, errTok(err))
		}
		if k < len(want) && proto.Equal(t, want[k]) {
			k++
			continue
		}
		return fmt.Sprintf("P%d,?%s", k, strings.ReplaceAll(tuple.TupleKeyToString(t.GetKey()), " ", "_"))
	}
}

func execCancelShare(f []string) string {
	n, _ := strconv.Atoi(f[1])
	pauseAt, _ := strconv.Atoi(f[2])
	order := f[3]
	mem := memory.New()
	defer mem.Close()
	for start := 0; start < n; start += 50 {
		var ws []*openfgav1.TupleKey
		for i := start; i < start+50 && i < n; i++ {
			ws = append(ws, tuple.NewTupleKey("big:1", "viewer", fmt.Sprintf("user:u%04d", i)))
		}
		if err := mem.Write(context.Background(), storeID, nil, ws); err != nil {
			return "setup:" + err.Error()
		}
	}
	flt := storage.ReadFilter{Object: "big:1", Relation: "viewer"}
	direct, err := mem.Read(liveCtx, storeID, flt, storage.ReadOptions{})
	if err != nil {
		return "setup:" + err.Error()
	}
	var want []*openfgav1.Tuple
	for {
		t, err := direct.Next(liveCtx)
		if err != nil {
			break
		}
		want = append(want, t)
	}
	direct.Stop()

	serverCtx, cancelServer := context.WithCancel(context.Background())
	defer cancelServer()
	settings := serverconfig.NewDefaultCacheSettings()
	settings.CheckCacheLimit = 10000
	settings.CheckIteratorCacheEnabled = true
	settings.CheckIteratorCacheMaxResults = 10000
	settings.CheckIteratorCacheTTL = time.Hour
	settings.SharedIteratorEnabled = true
	settings.SharedIteratorLimit = 1000
	res, err := shared.NewSharedDatastoreResources(serverCtx, &singleflight.Group{}, mem, settings)
	if err != nil {
		return "res:" + err.Error()
	}
	defer res.Close()
	g := &gate{pauseAt: pauseAt, reached: make(chan struct{}), proceed: make(chan struct{})}
	ds := &gatedDS{RelationshipTupleReader: mem, g: g}
	mk := func() storage.RelationshipTupleReader {
		return storagewrappers.NewRequestStorageWrapperWithCache(ds, nil,
			&storagewrappers.Operation{Method: apimethod.Check, Concurrency: 10},
			storagewrappers.DataResourceConfiguration{Resources: res, CacheSettings: settings})
	}
	ctxA, cancelA := context.WithCancel(context.Background())
	defer cancelA()
	itA, err := mk().Read(ctxA, storeID, flt, storage.ReadOptions{})
	if err != nil {
		return "errA"
	}
	var itB storage.TupleIterator
	if order == "0" {
		if itB, err = mk().Read(liveCtx, storeID, flt, storage.ReadOptions{}); err != nil {
			return "errB"
		}
	}
	doneA := make(chan string, 1)
	go func() {
		r := consume(ctxA, itA, want)
		itA.Stop()
		doneA <- r
	}()
	select {
	case <-g.reached:
	case <-time.After(20 * time.Second): // failure path only
		close(g.proceed)
		return "gate-not-reached A=" + <-doneA
	}
	cancelA() // A goes away while the fetch it triggered is inside the datastore iterator
	close(g.proceed)
	resA := <-doneA
	if itB == nil {
		if itB, err = mk().Read(liveCtx, storeID, flt, storage.ReadOptions{}); err != nil {
			return "errB"
		}
	}
	resB := consume(liveCtx, itB, want)
	itB.Stop()
	res.WaitGroup.Wait()
	ds.mu.Lock()
	made := ds.made
	ds.mu.Unlock()
	return fmt.Sprintf("n=%d A=%s B=%s made=%d", len(want), resA, resB, made)
}

func genCancelShare(r *hx.Rand) string {
	n := 101 + r.Intn(160)
	pauseAt := 1 + r.Intn(n)
	switch r.Intn(4) {
	case 0:
		pauseAt = 101 + r.Intn(n-100) // in a later batch: A has already been served a full batch
	case 1:
		pauseAt = 1 + r.Intn(100)
	}
	return fmt.Sprintf("hc %d %d %d", n, pauseAt, r.Intn(2))
}

func main() { hx.Main(hx.Harness{Gen: gen, Exec: exec}) }
