// Harness for C10 (higher-consistency requests are never stale): whole histories — writes and deletes
// interleaved with cached (MINIMIZE_LATENCY) and HIGHER_CONSISTENCY Check, BatchCheck, ListObjects and
// ListUsers requests — are replayed through the real in-process server (pkg/server) under sets of cache
// flags (query cache, Check iterator cache, ListObjects iterator cache, shared iterators, cache controller,
// weighted-graph Check, ListObjects pipeline), every cache with a TTL of one hour, and through a
// cache-less server instance on an identical store.  The Lean driver replays the writes, evaluates the
// reference oracle on the *current* store for every HIGHER request and checks that the HIGHER answers
// are the answers for the current store; answers of cached requests may be stale (counted).
//
// Flags: the ListObjects engines are selected like in production — the streaming pipeline needs the experimental
// flag pipeline_list_objects AND ListObjectsPipelineEnabled, the weighted reverse expansion the experimental flag
// enable-list-objects-optimizations; the reference instance keeps the engine flags and drops every cache.
// Ops: w (write), chk, bat, lo (unary ListObjects), slo (StreamedListObjects; the server gives the streamed
// command no iterator cache today), warm (unary MINIMIZE_LATENCY ListObjects repeated until a request reaches
// the datastore no more: the iterator cache stores its entries asynchronously), lu.  The ListObjects block of the
// generator: warm, slo — write{delete the tuple behind a listed object, add a clone on a new object} — HIGHER lo,
// slo, lu, chk — write{undo} — HIGHER lo, slo, lu, chk.
package main

import (
	"context"
	"fmt"
	"sort"
	"strings"
	"sync/atomic"
	"time"

	openfgav1 "github.com/openfga/api/proto/openfga/v1"
	"google.golang.org/grpc/metadata"
	"google.golang.org/grpc/status"

	"github.com/openfga/openfga/internal/validation"
	"github.com/openfga/openfga/pkg/server"
	serverconfig "github.com/openfga/openfga/pkg/server/config"
	"github.com/openfga/openfga/pkg/storage"
	"github.com/openfga/openfga/pkg/storage/memory"
	"github.com/openfga/openfga/pkg/tuple"
	"github.com/openfga/openfga/pkg/typesystem"
	"github.com/openfga/openfga/verifharness/fga"
	"github.com/openfga/openfga/verifharness/fgarun"
	"github.com/openfga/openfga/verifharness/hx"
)

const (
	fQuery  = 1   // check query cache
	fIter   = 2   // check iterator cache
	fLoIter = 4   // list objects iterator cache
	fShared = 8   // shared iterators
	fCtl    = 16  // cache controller
	fV2     = 32  // experimental weighted_graph_check
	fPipe   = 64  // list objects pipeline (experimental pipeline_list_objects + ListObjectsPipelineEnabled)
	fW      = 128 // weighted reverse expansion (experimental enable-list-objects-optimizations)

	engineBits = fV2 | fPipe | fW // the flags that select engines, not caches: the reference instance keeps them
)

type op struct {
	kind   string // w | chk | bat | lo | slo (streamed) | warm (lo repeated until the iterator cache answers) | lu
	higher bool
	del    []fga.Tuple
	add    []fga.Tuple
	ctxT   []fga.Tuple
	rq     fga.Req   // chk: request; lo: Obj = "<type>:x"; lu: User = "<filter type>:x"
	batch  []fga.Req // bat
}

func b2i(b bool) int {
	if b {
		return 1
	}
	return 0
}

func encodeCase(m *fga.Model, ts *typesystem.TypeSystem, masks []int, tuples []fga.Tuple, ops []op) string {
	var sb strings.Builder
	fmt.Fprintf(&sb, "cfg 25 %d flags %d", b2i(m.Stratified()), len(masks))
	for _, k := range masks {
		fmt.Fprintf(&sb, " %d", k)
	}
	fmt.Fprintf(&sb, " %s %s ops %d", m.Encode(), fga.EncodeTuples("tuples", tuples), len(ops))
	for _, o := range ops {
		switch o.kind {
		case "w":
			fmt.Fprintf(&sb, " w %s %s", fga.EncodeTuples("del", o.del), fga.EncodeTuples("add", o.add))
		case "chk":
			fmt.Fprintf(&sb, " chk %d %s %s %s", b2i(o.higher), fga.EncodeAux(fga.Aux(m, ts, o.rq.User)), fga.EncodeTuples("ctx", o.ctxT), o.rq.Encode())
		case "bat":
			fmt.Fprintf(&sb, " bat %d %d", b2i(o.higher), len(o.batch))
			for _, rq := range o.batch {
				fmt.Fprintf(&sb, " %s %s", fga.EncodeAux(fga.Aux(m, ts, rq.User)), rq.Encode())
			}
		case "lo", "slo", "warm", "lu":
			fmt.Fprintf(&sb, " %s %d %s %s", o.kind, b2i(o.higher), fga.EncodeAux(fga.Aux(m, ts, o.rq.User)), o.rq.Encode())
		}
	}
	return sb.String()
}

func decodeCase(line string) (m *fga.Model, masks []int, tuples []fga.Tuple, ops []op) {
	t := fga.NewToks(line)
	t.Expect("cfg")
	_ = t.Int()
	_ = t.Int()
	t.Expect("flags")
	n := t.Int()
	for i := 0; i < n; i++ {
		masks = append(masks, t.Int())
	}
	m = fga.DecodeModel(t)
	tuples = fga.DecodeTuples(t, "tuples")
	t.Expect("ops")
	k := t.Int()
	for i := 0; i < k; i++ {
		o := op{kind: t.Next()}
		switch o.kind {
		case "w":
			o.del = fga.DecodeTuples(t, "del")
			o.add = fga.DecodeTuples(t, "add")
		case "chk":
			o.higher = t.Int() == 1
			fga.SkipAux(t)
			o.ctxT = fga.DecodeTuples(t, "ctx")
			o.rq = fga.DecodeReq(t)
		case "bat":
			o.higher = t.Int() == 1
			nb := t.Int()
			for j := 0; j < nb; j++ {
				fga.SkipAux(t)
				o.batch = append(o.batch, fga.DecodeReq(t))
			}
		case "lo", "slo", "warm", "lu":
			o.higher = t.Int() == 1
			fga.SkipAux(t)
			o.rq = fga.DecodeReq(t)
		default:
			panic("bad op " + o.kind)
		}
		ops = append(ops, o)
	}
	return
}

// ---- generator --------------------------------------------------------------------------------------

func applyWrite(tuples []fga.Tuple, o op) []fga.Tuple {
	var out []fga.Tuple
	for _, t := range tuples {
		gone := false
		for _, d := range o.del {
			if d.String() == t.String() {
				gone = true
			}
		}
		if !gone {
			out = append(out, t)
		}
	}
	return append(out, o.add...)
}

func realCheck(ts *typesystem.TypeSystem, tuples []fga.Tuple, rq fga.Req) string {
	ds := fgarun.Store(tuples)
	defer ds.Close()
	return strings.Fields(fgarun.Check(ts, ds, fgarun.Config{MaxDepth: 25, Breadth: 1, Strategy: "default"}, rq, nil, nil))[0]
}

// maxThis: the largest number of direct-assignment leaves in one rewrite.  A recursive relation that names
// `this` more than once makes the streaming pipeline never return (known finding L4 of C05 / C21): such models
// run without the pipeline flag here.
func maxThis(m *fga.Model) int {
	best := 0
	var count func(rw *fga.Rewrite) int
	count = func(rw *fga.Rewrite) int {
		n := 0
		if rw.Kind == "this" {
			n = 1
		}
		for _, k := range rw.Kids {
			n += count(k)
		}
		return n
	}
	for _, t := range m.Types {
		for _, rd := range t.Rels {
			if c := count(rd.Rewrite); c > best {
				best = c
			}
		}
	}
	return best
}

func pickMasks(r *hx.Rand, tier string, allowPipe bool) []int {
	masks := pickMasks0(r, tier)
	if !allowPipe {
		for i := range masks {
			masks[i] &^= fPipe
			if masks[i] == 0 {
				masks[i] = fLoIter
			}
		}
	}
	return masks
}

func pickMasks0(r *hx.Rand, tier string) []int {
	if tier == "thorough" && r.Chance(1, 6) {
		var all []int
		for k := 1; k < 32; k++ {
			all = append(all, k|r.Intn(2)*fV2|r.Intn(2)*fPipe|r.Intn(2)*fW)
		}
		return all
	}
	// always: everything on (both engines), then each cache layer alone, then random subsets
	// (the ListObjects iterator cache alone under each of the three ListObjects engines: classic, weighted, pipeline)
	masks := []int{fQuery | fIter | fLoIter | fShared | fCtl, fQuery | fIter | fLoIter | fShared | fCtl | fV2 | fPipe,
		fQuery, fIter, fLoIter | fPipe, fLoIter | fW, fLoIter, fShared, fIter | fV2, fQuery | fV2}
	for i := 0; i < 2; i++ {
		masks = append(masks, 1+r.Intn(255))
	}
	return masks
}

func gen(r *hx.Rand, n int, tier string, emit func(string), st *hx.Stats) {
	for i := 0; i < n; {
		c := r.Fork()
		m, ts := fga.GenModel(c, fga.DefaultOpts())
		if c.Chance(1, 4) {
			m, ts = fga.GenStrategyModel(c)
		}
		if len(m.Types) < 2 {
			continue
		}
		tuples := fga.GenTuples(c, m, 4+c.Intn(10))
		if len(tuples) < 2 {
			continue
		}
		// a focus request whose answer a single delete flips
		var focus fga.Req
		var victim *fga.Tuple
		for try := 0; try < 8 && victim == nil; try++ {
			rq := fga.GenReq(c, m, tuples)
			if strings.HasSuffix(rq.User, ":*") || realCheck(ts, tuples, rq) != "T" {
				continue
			}
			for _, j := range permOf(c, len(tuples)) {
				rest := append(append([]fga.Tuple(nil), tuples[:j]...), tuples[j+1:]...)
				if realCheck(ts, rest, rq) == "F" {
					focus = rq
					v := tuples[j]
					victim = &v
					break
				}
			}
		}
		var ops []op
		cur := append([]fga.Tuple(nil), tuples...)
		higherOps := 0
		addReads := func(rq fga.Req, higher bool) {
			// the same question through the four APIs
			kinds := []string{"chk", "chk", "bat", "lo", "lu"}
			for _, k := range kinds {
				if !c.Chance(3, 5) && !(k == "chk" && higher) {
					continue
				}
				o := op{kind: k, higher: higher, rq: rq}
				switch k {
				case "bat":
					o.batch = []fga.Req{rq, fga.GenReq(c, m, cur)}
					o.batch[1].User, o.batch[1].Ctx = rq.User, rq.Ctx
				case "lo":
					if strings.HasSuffix(rq.User, ":*") {
						continue
					}
					o.rq = fga.Req{Obj: fga.TypeOf(rq.Obj) + ":x", Rel: rq.Rel, User: rq.User, Ctx: rq.Ctx}
					if c.Chance(1, 3) {
						o.kind = "slo"
					}
				case "lu":
					ut, _, urel := fga.UserParts(rq.User)
					if urel != "" {
						continue
					}
					o.rq = fga.Req{Obj: rq.Obj, Rel: rq.Rel, User: ut + ":x", Ctx: rq.Ctx}
				}
				if higher {
					higherOps++
				}
				ops = append(ops, o)
			}
		}
		write := func(o op) {
			ops = append(ops, o)
			cur = applyWrite(cur, o)
		}
		loBlock := false
		if victim != nil && !strings.HasSuffix(focus.User, ":*") && c.Chance(2, 3) {
			// ListObjects in the sequence  warm cache -> delete one listed tuple + add another -> HIGHER within the TTL
			loBlock = true
			st.Inc("with-listobjects-block")
			lo := fga.Req{Obj: fga.TypeOf(focus.Obj) + ":x", Rel: focus.Rel, User: focus.User, Ctx: focus.Ctx}
			clone := *victim
			clone.Obj = fga.TypeOf(victim.Obj) + ":zz9"
			addClone := validation.ValidateTupleForWrite(ts, clone.Key()) == nil
			for _, t := range cur {
				if t.String() == clone.String() {
					addClone = false
				}
			}
			listReads := func(higher bool) {
				for _, k := range []string{"lo", "slo", "lu", "chk"} {
					o := op{kind: k, higher: higher, rq: lo}
					switch k {
					case "chk":
						o.rq = focus
					case "lu":
						ut, _, urel := fga.UserParts(focus.User)
						if urel != "" || !c.Chance(1, 2) {
							continue
						}
						o.rq = fga.Req{Obj: focus.Obj, Rel: focus.Rel, User: ut + ":x", Ctx: focus.Ctx}
					}
					if higher {
						higherOps++
					}
					ops = append(ops, o)
				}
			}
			ops = append(ops, op{kind: "warm", rq: lo}, op{kind: "slo", rq: lo})
			w1 := op{kind: "w", del: []fga.Tuple{*victim}}
			if addClone {
				w1.add = []fga.Tuple{clone}
			}
			ops = append(ops, w1)
			cur = applyWrite(cur, w1)
			listReads(true) // must see the delete and the new object
			w2 := op{kind: "w", add: []fga.Tuple{*victim}}
			if addClone {
				w2.del = []fga.Tuple{clone}
			}
			ops = append(ops, w2)
			cur = applyWrite(cur, w2)
			listReads(true) // must see the re-insert
		}
		if victim != nil {
			st.Inc("with-flipping-write")
			addReads(focus, false) // populate the caches with the pre-write state
			addReads(focus, false)
			write(op{kind: "w", del: []fga.Tuple{*victim}})
			addReads(focus, true) // must see the delete
			addReads(focus, false)
			write(op{kind: "w", add: []fga.Tuple{*victim}})
			addReads(focus, true) // must see the re-insert
			addReads(focus, false)
		}
		// random tail: writes and reads on related and unrelated questions
		tail := 2 + c.Intn(8)
		if loBlock {
			tail = 1 + c.Intn(4)
		}
		for j, k := 0, tail; j < k; j++ {
			switch {
			case c.Chance(1, 3):
				o := op{kind: "w"}
				if len(cur) > 0 && c.Chance(1, 2) {
					o.del = []fga.Tuple{hx.Pick(c, cur)}
				}
				if c.Chance(2, 3) {
					seen := map[string]bool{}
					for _, t := range cur {
						seen[t.String()] = true
					}
					if t, ok := fga.GenTuple(c, m); ok && !seen[t.String()] && validation.ValidateTupleForWrite(ts, t.Key()) == nil {
						o.add = []fga.Tuple{t}
					}
				}
				if len(o.del)+len(o.add) > 0 {
					write(o)
				}
			default:
				rq := fga.GenReq(c, m, cur)
				if victim != nil && c.Chance(1, 2) {
					rq = focus
				}
				addReads(rq, c.Chance(1, 2))
			}
		}
		if higherOps == 0 || len(ops) < 3 {
			continue
		}
		if len(ops) > 40 {
			ops = ops[:40]
		}
		emit(encodeCase(m, ts, pickMasks(c, tier, maxThis(m) <= 1), tuples, ops))
		i++
		st.Inc("histories")
		st.Add("ops", len(ops))
		st.Add("higher-ops", higherOps)
		if !m.Stratified() {
			st.Inc("nonstratified")
		}
		if len(m.Conds) > 0 {
			st.Inc("with-conditions")
		}
	}
}

func permOf(r *hx.Rand, n int) []int {
	p := make([]int, n)
	for i := range p {
		p[i] = i
	}
	hx.Shuffle(r, p)
	return p
}

// ---- executor ---------------------------------------------------------------------------------------

type inst struct {
	srv     *server.Server
	ds      *countingDS
	mask    int
	hung    bool
	storeID string
	modelID string
}

// countingDS counts the iterator reads that reach the datastore (a ListObjects request answered from the iterator
// cache issues none)
type countingDS struct {
	storage.OpenFGADatastore
	n atomic.Int64
}

func (c *countingDS) ReadStartingWithUser(ctx context.Context, store string, f storage.ReadStartingWithUserFilter, o storage.ReadStartingWithUserOptions) (storage.TupleIterator, error) {
	c.n.Add(1)
	return c.OpenFGADatastore.ReadStartingWithUser(ctx, store, f, o)
}

func (c *countingDS) Read(ctx context.Context, store string, f storage.ReadFilter, o storage.ReadOptions) (storage.TupleIterator, error) {
	c.n.Add(1)
	return c.OpenFGADatastore.Read(ctx, store, f, o)
}

func (c *countingDS) ReadUsersetTuples(ctx context.Context, store string, f storage.ReadUsersetTuplesFilter, o storage.ReadUsersetTuplesOptions) (storage.TupleIterator, error) {
	c.n.Add(1)
	return c.OpenFGADatastore.ReadUsersetTuples(ctx, store, f, o)
}

// streamed ListObjects: a server stream that collects the objects
type loStream struct {
	ctx  context.Context
	objs []string
}

func (f *loStream) Send(r *openfgav1.StreamedListObjectsResponse) error {
	f.objs = append(f.objs, r.GetObject())
	return nil
}
func (f *loStream) SetHeader(metadata.MD) error  { return nil }
func (f *loStream) SendHeader(metadata.MD) error { return nil }
func (f *loStream) SetTrailer(metadata.MD)       {}
func (f *loStream) Context() context.Context     { return f.ctx }
func (f *loStream) SendMsg(any) error            { return nil }
func (f *loStream) RecvMsg(any) error            { return nil }

type noCloseDS struct{ storage.OpenFGADatastore }

func (noCloseDS) Close() {}

func newInst(mask int, pm *openfgav1.AuthorizationModel, tuples []fga.Tuple) (*inst, error) {
	ds := &countingDS{OpenFGADatastore: memory.New()}
	ctx := context.Background()
	if err := ds.WriteAuthorizationModel(ctx, fgarun.StoreID, pm); err != nil {
		return nil, err
	}
	for _, t := range tuples {
		if err := ds.Write(ctx, fgarun.StoreID, nil, []*openfgav1.TupleKey{t.Key()}); err != nil {
			return nil, err
		}
	}
	hour := time.Hour
	opts := []server.OpenFGAServiceV1Option{
		server.WithDatastore(noCloseDS{ds}),
		server.WithCheckCacheLimit(2000),
		server.WithCheckQueryCacheEnabled(mask&fQuery != 0), server.WithCheckQueryCacheTTL(hour),
		server.WithCheckIteratorCacheEnabled(mask&fIter != 0), server.WithCheckIteratorCacheTTL(hour),
		server.WithListObjectsIteratorCacheEnabled(mask&fLoIter != 0), server.WithListObjectsIteratorCacheTTL(hour),
		server.WithSharedIteratorEnabled(mask&fShared != 0),
		server.WithCacheControllerEnabled(mask&fCtl != 0), server.WithCacheControllerTTL(time.Nanosecond),
		server.WithListObjectsPipelineEnabled(mask&fPipe != 0),
	}
	// the experimental flags: the pipeline needs its flag AND ListObjectsPipelineEnabled (the server's default
	// flag client knows only the experimentals it is given)
	var exps []string
	if mask&fV2 != 0 {
		exps = append(exps, "weighted_graph_check")
	}
	if mask&fPipe != 0 {
		exps = append(exps, serverconfig.ExperimentalPipelineListObjects)
	}
	if mask&fW != 0 {
		exps = append(exps, serverconfig.ExperimentalListObjectsOptimizations)
	}
	if len(exps) > 0 {
		opts = append(opts, server.WithExperimentals(exps...))
	}
	s, err := server.NewServerWithOpts(opts...)
	if err != nil {
		return nil, err
	}
	return &inst{srv: s, ds: ds, mask: mask, storeID: fgarun.StoreID, modelID: pm.GetId()}, nil
}

func (in *inst) close() {
	in.srv.Close()
	in.ds.Close()
}

func errClass(err error) string {
	if st, ok := status.FromError(err); ok {
		code := openfgav1.ErrorCode(st.Code())
		switch {
		case code == openfgav1.ErrorCode_validation_error && strings.Contains(st.Message(), "condition"):
			return "Econd"
		case code == openfgav1.ErrorCode_validation_error, code == openfgav1.ErrorCode_invalid_tuple,
			code == openfgav1.ErrorCode_relation_not_found, code == openfgav1.ErrorCode_type_not_found,
			code == openfgav1.ErrorCode_invalid_user, code == openfgav1.ErrorCode_invalid_object_format:
			return "Einvalid"
		case code == openfgav1.ErrorCode_authorization_model_resolution_too_complex:
			return "Edepth"
		}
		if strings.Contains(st.Message(), "condition") {
			return "Econd"
		}
		return fmt.Sprintf("Eother%d", st.Code())
	}
	return "Eother"
}

func pref(higher bool) openfgav1.ConsistencyPreference {
	if higher {
		return openfgav1.ConsistencyPreference_HIGHER_CONSISTENCY
	}
	return openfgav1.ConsistencyPreference_MINIMIZE_LATENCY
}

func ctxKeys(ts []fga.Tuple) *openfgav1.ContextualTupleKeys {
	if len(ts) == 0 {
		return nil
	}
	return &openfgav1.ContextualTupleKeys{TupleKeys: fga.Keys(ts)}
}

func joinSet(xs []string) string {
	if len(xs) == 0 {
		return "-"
	}
	sort.Strings(xs)
	return strings.Join(xs, "+")
}

// run with a watchdog: an engine that does not return (the goroutine is leaked) answers "Ehang", and so does
// every later ListObjects request of that instance.
func (in *inst) run(o op) string {
	if o.kind != "lo" && o.kind != "slo" {
		return in.run0(o)
	}
	if in.hung {
		return "Ehang"
	}
	ch := make(chan string, 1)
	go func() {
		defer func() {
			if p := recover(); p != nil {
				ch <- "Epanic"
			}
		}()
		ch <- in.run0(o)
	}()
	t := time.NewTimer(25 * time.Second)
	defer t.Stop()
	select {
	case a := <-ch:
		return a
	case <-t.C:
		in.hung = true
		return "Ehang"
	}
}

func (in *inst) run0(o op) string {
	ctx, cancel := context.WithTimeout(context.Background(), 20*time.Second)
	defer cancel()
	switch o.kind {
	case "w":
		var dels []*openfgav1.TupleKeyWithoutCondition
		for _, d := range o.del {
			dels = append(dels, &openfgav1.TupleKeyWithoutCondition{Object: d.Obj, Relation: d.Rel, User: d.User})
		}
		if err := in.ds.Write(ctx, in.storeID, dels, fga.Keys(o.add)); err != nil {
			return "wE"
		}
		return "w"
	case "chk":
		resp, err := in.srv.Check(ctx, &openfgav1.CheckRequest{StoreId: in.storeID, AuthorizationModelId: in.modelID,
			TupleKey:         &openfgav1.CheckRequestTupleKey{Object: o.rq.Obj, Relation: o.rq.Rel, User: o.rq.User},
			ContextualTuples: ctxKeys(o.ctxT), Context: fga.CtxStruct(o.rq.Ctx), Consistency: pref(o.higher)})
		if err != nil {
			return errClass(err)
		}
		if resp.GetAllowed() {
			return "T"
		}
		return "F"
	case "bat":
		var items []*openfgav1.BatchCheckItem
		for i, rq := range o.batch {
			items = append(items, &openfgav1.BatchCheckItem{CorrelationId: fmt.Sprintf("c%d", i), Context: fga.CtxStruct(rq.Ctx),
				TupleKey: &openfgav1.CheckRequestTupleKey{Object: rq.Obj, Relation: rq.Rel, User: rq.User}})
		}
		resp, err := in.srv.BatchCheck(ctx, &openfgav1.BatchCheckRequest{StoreId: in.storeID, AuthorizationModelId: in.modelID,
			Checks: items, Consistency: pref(o.higher)})
		if err != nil {
			return errClass(err)
		}
		var parts []string
		for i := range o.batch {
			r := resp.GetResult()[fmt.Sprintf("c%d", i)]
			switch {
			case r == nil:
				parts = append(parts, "Emissing")
			case r.GetError() != nil:
				if strings.Contains(r.GetError().GetMessage(), "condition") {
					parts = append(parts, "Econd")
				} else {
					parts = append(parts, "Eitem")
				}
			case r.GetAllowed():
				parts = append(parts, "T")
			default:
				parts = append(parts, "F")
			}
		}
		return strings.Join(parts, ";")
	case "warm":
		// MINIMIZE_LATENCY ListObjects until a request reaches the datastore no more (the iterator cache stores
		// its entries asynchronously); one request when the instance has no ListObjects iterator cache
		lo := o
		lo.kind = "lo"
		a := in.run(lo)
		if in.mask&fLoIter == 0 {
			return a
		}
		for try := 0; try < 4; try++ {
			time.Sleep(time.Millisecond)
			before := in.ds.n.Load()
			a = in.run(lo)
			if in.ds.n.Load() == before {
				break
			}
		}
		return a
	case "slo":
		fs := &loStream{ctx: ctx}
		err := in.srv.StreamedListObjects(&openfgav1.StreamedListObjectsRequest{StoreId: in.storeID, AuthorizationModelId: in.modelID,
			Type: fga.TypeOf(o.rq.Obj), Relation: o.rq.Rel, User: o.rq.User, Context: fga.CtxStruct(o.rq.Ctx), Consistency: pref(o.higher)}, fs)
		if err != nil {
			return errClass(err)
		}
		return joinSet(append([]string(nil), fs.objs...))
	case "lo":
		resp, err := in.srv.ListObjects(ctx, &openfgav1.ListObjectsRequest{StoreId: in.storeID, AuthorizationModelId: in.modelID,
			Type: fga.TypeOf(o.rq.Obj), Relation: o.rq.Rel, User: o.rq.User, Context: fga.CtxStruct(o.rq.Ctx), Consistency: pref(o.higher)})
		if err != nil {
			return errClass(err)
		}
		return joinSet(append([]string(nil), resp.GetObjects()...))
	case "lu":
		typ, id := tuple.SplitObject(o.rq.Obj)
		ft, _, _ := fga.UserParts(o.rq.User)
		resp, err := in.srv.ListUsers(ctx, &openfgav1.ListUsersRequest{StoreId: in.storeID, AuthorizationModelId: in.modelID,
			Object: &openfgav1.Object{Type: typ, Id: id}, Relation: o.rq.Rel, UserFilters: []*openfgav1.UserTypeFilter{{Type: ft}},
			Context: fga.CtxStruct(o.rq.Ctx), Consistency: pref(o.higher)})
		if err != nil {
			return errClass(err)
		}
		var us []string
		for _, u := range resp.GetUsers() {
			us = append(us, tuple.UserProtoToString(u))
		}
		return joinSet(us)
	}
	return "?"
}

// engineAnswers: the answers the cache-less engines give for a Check on the given store under every
// planner choice (the server's planner samples strategies at random, so identical requests may be
// answered through different strategies — findings F9/F12 make that visible).
func engineAnswers(ts *typesystem.TypeSystem, pm *openfgav1.AuthorizationModel, cur []fga.Tuple, rq fga.Req, ctxT []fga.Tuple, v2 bool) []string {
	ds := fgarun.Store(cur)
	defer ds.Close()
	seen := map[string]bool{}
	var out []string
	add := func(o string) {
		f := strings.Fields(o)
		c := f[0]
		if c == "E" {
			c = "E" + f[1]
			if f[1] == "shape" || f[1] == "other" || f[1] == "terminal" || f[1] == "panic" {
				return // the server falls back to the default engine
			}
		}
		if !seen[c] {
			seen[c] = true
			out = append(out, c)
		}
	}
	for _, strat := range []string{"default", "weight2", "recursive"} {
		for _, br := range []uint32{1, 25} {
			cfg := fgarun.Config{MaxDepth: 25, Breadth: br, Strategy: strat}
			add(fgarun.Check(ts, ds, cfg, rq, ctxT, nil))
			if v2 {
				if e, err := fgarun.NewV2(ts, ds, pm, cfg, false); err == nil {
					add(e.Check(rq, ctxT))
					e.Close()
				}
			}
		}
	}
	return out
}

func exec(line string, st *hx.Stats) string {
	m, masks, tuples, ops := decodeCase(line)
	pm := m.Proto(fgarun.ModelID)
	ts, err := typesystem.NewAndValidate(context.Background(), pm)
	if err != nil {
		return "invalid-model"
	}
	// the store before every op
	stores := make([][]fga.Tuple, len(ops))
	{
		cur := append([]fga.Tuple(nil), tuples...)
		for i, o := range ops {
			stores[i] = cur
			if o.kind == "w" {
				cur = applyWrite(cur, o)
			}
		}
	}
	// references: no cache of any kind, same engine flags, same history on an identical store
	type refRun struct {
		out   []string
		again [][]string // two repetitions of every HIGHER read
	}
	refs := map[int]*refRun{}
	var out []string
	refFor := func(key int) (*refRun, error) {
		if r, ok := refs[key]; ok {
			return r, nil
		}
		ref, err := newInst(key, pm, tuples)
		if err != nil {
			return nil, err
		}
		r := &refRun{out: make([]string, len(ops)), again: make([][]string, len(ops))}
		for i, o := range ops {
			r.out[i] = ref.run(o)
			if o.kind != "w" && o.higher {
				for k := 0; k < 2; k++ {
					r.again[i] = append(r.again[i], ref.run(o))
				}
			}
		}
		ref.close()
		refs[key] = r
		out = append(out, fmt.Sprintf("ref%d=%s", key, strings.Join(r.out, ",")))
		return r, nil
	}
	for _, mask := range masks {
		ref, err := refFor(mask & engineBits)
		if err != nil {
			return "setup-failed " + strings.ReplaceAll(err.Error(), "\t", " ")
		}
		in, err := newInst(mask, pm, tuples)
		if err != nil {
			out = append(out, fmt.Sprintf("m%d=setup-failed", mask))
			continue
		}
		parts := make([]string, len(ops))
		for i, o := range ops {
			a := in.run(o)
			parts[i] = a
			if o.kind != "w" && o.higher && a != ref.out[i] {
				// is the disagreement stable?  (identical requests may differ for reasons that have nothing
				// to do with caches: planner sampling, goroutine races in the reducers)
				reps := []string{a}
				for k := 0; k < 2; k++ {
					reps = append(reps, in.run(o))
				}
				allowed := append([]string{ref.out[i]}, ref.again[i]...)
				switch o.kind {
				case "chk":
					allowed = append(allowed, engineAnswers(ts, pm, stores[i], o.rq, o.ctxT, mask&fV2 != 0)...)
				case "bat":
					combos := []string{""}
					for _, rq := range o.batch {
						var next []string
						for _, c := range combos {
							for _, a := range engineAnswers(ts, pm, stores[i], rq, nil, mask&fV2 != 0) {
								if c == "" {
									next = append(next, a)
								} else {
									next = append(next, c+";"+a)
								}
							}
						}
						combos = next
					}
					allowed = append(allowed, combos...)
				default:
					// ListObjects / ListUsers: sample fresh cache-less instances on the current store
					for k := 0; k < 4; k++ {
						if fr, err := newInst(mask&engineBits, pm, stores[i]); err == nil {
							allowed = append(allowed, fr.run(o), fr.run(o))
							fr.close()
						}
					}
				}
				parts[i] = strings.Join(reps, "~") + "!" + strings.Join(allowed, "~")
				st.Inc("higher-differs-from-reference")
			}
		}
		in.close()
		out = append(out, fmt.Sprintf("m%d=%s", mask, strings.Join(parts, ",")))
	}
	return strings.Join(out, " ")
}

func main() { hx.Main(hx.Harness{Gen: gen, Exec: exec}) }
