// Harness for C11 (the cache controller bounds staleness after writes).
//
// The real cache controller (internal/cachecontroller), the real iterator caches (storagewrappers
// CachedDatastore = default engine / ListObjects, CachedTupleReader = weighted-graph engine) and the real
// query cache (graph.CachedCheckResolver) are wired exactly as internal/shared and the request storage
// wrapper wire them — one shared cache, the controller built with (controller TTL, query TTL, Check
// iterator TTL) — over a memory datastore, and driven by *timelines*: writes (single ones and bursts
// larger than one changelog page), cached reads of fixed read keys (fully or partly consumed), query-cache
// requests, invalidation runs (also split: the run is held right after it read the changelog while other
// operations happen), clock advances.
//
// Time.  The code reads `time.Now()` directly, so the clock cannot be injected.  In `fake` mode (quick and
// thorough tiers) the shared cache is a map with a logical clock and a clock advance by d *ages the state*:
// the cache's clock moves by d, every timestamp stored in a cache entry and every changelog timestamp the
// controller gets to see is moved back by d.  All comparisons in the code are between stored timestamps and
// `time.Now()`, so this is equivalent to the wall clock jumping by d (one tick = one minute; the real
// execution time of a case, milliseconds, only orders the events inside a tick).  No sleeps.
// In `real` mode (thorough tier only, a few scripted timelines) the real theine cache is used and an advance
// sleeps (one tick = 100 ms).
package main

import (
	"context"
	"errors"
	"fmt"
	"reflect"
	"sort"
	"strconv"
	"strings"
	"sync"
	"sync/atomic"
	"time"
	"unsafe"

	openfgav1 "github.com/openfga/api/proto/openfga/v1"
	"golang.org/x/sync/singleflight"
	"google.golang.org/protobuf/proto"
	"google.golang.org/protobuf/types/known/timestamppb"

	"github.com/openfga/openfga/internal/cachecontroller"
	"github.com/openfga/openfga/internal/graph"
	"github.com/openfga/openfga/pkg/storage"
	"github.com/openfga/openfga/pkg/storage/cache/keys"
	"github.com/openfga/openfga/pkg/storage/memory"
	"github.com/openfga/openfga/pkg/storage/storagewrappers"
	"github.com/openfga/openfga/pkg/tuple"
	"github.com/openfga/openfga/verifharness/hx"
)

const storeID = "01HVMMBCMGZNT3SED4Z17ECXCA"
const modelID = "01HVMMBDNGZNT3SED4Z17ECXCB"

// ---- the fixed universe -------------------------------------------------------------------------------

type tk struct{ obj, rel, user string }

var tuples = []tk{
	{"doc:1", "viewer", "user:a"},         // 0
	{"doc:1", "viewer", "group:g#member"}, // 1
	{"doc:1", "parent", "folder:1"},       // 2
	{"doc:2", "viewer", "user:a"},         // 3
	{"doc:2", "viewer", "group:g#member"}, // 4
	{"folder:1", "viewer", "user:b"},      // 5
	{"group:g", "member", "user:a"},       // 6
	{"doc:2", "parent", "folder:1"},       // 7
}

// filler tuple toggled by write bursts (it matches no read key and shares no marker key with them)
var filler = tk{"misc:9", "owner", "bot:z"}

type readKey struct {
	kind      string // rut | read | rswu
	obj, rel  string // rut/read: object, relation; rswu: object type, relation
	users     []string
	markerIDs []int
}

var readKeys = []readKey{
	{kind: "rut", obj: "doc:1", rel: "viewer"},                                   // 0
	{kind: "rut", obj: "doc:2", rel: "viewer"},                                   // 1
	{kind: "read", obj: "doc:1", rel: "parent"},                                  // 2
	{kind: "read", obj: "doc:2", rel: "parent"},                                  // 3
	{kind: "read", obj: "doc:1", rel: "viewer"},                                  // 4
	{kind: "rswu", obj: "doc", rel: "viewer", users: []string{"user:a"}},         // 5
	{kind: "rswu", obj: "doc", rel: "viewer", users: []string{"group:g#member"}}, // 6
	{kind: "rswu", obj: "folder", rel: "viewer", users: []string{"user:b"}},      // 7
	{kind: "rswu", obj: "doc", rel: "parent", users: []string{"folder:1"}},       // 8
}

// marker keys, numbered: "OR <object> <relation>" / "UOT <user> <objectType>"
var markerIndex = map[string]int{}
var markerNames []string

func markerID(name string) int {
	if id, ok := markerIndex[name]; ok {
		return id
	}
	markerIndex[name] = len(markerNames)
	markerNames = append(markerNames, name)
	return len(markerNames) - 1
}

func tupleMarkers(t tk) []int {
	return []int{markerID("OR " + t.obj + " " + t.rel), markerID("UOT " + t.user + " " + tuple.GetType(t.obj))}
}

func init() {
	for i := range readKeys {
		r := &readKeys[i]
		switch r.kind {
		case "rut", "read":
			r.markerIDs = []int{markerID("OR " + r.obj + " " + r.rel)}
		case "rswu":
			for _, u := range r.users {
				r.markerIDs = append(r.markerIDs, markerID("UOT "+u+" "+r.obj))
			}
		}
	}
	for _, t := range tuples {
		tupleMarkers(t)
	}
	tupleMarkers(filler)
}

func (t tk) key() *openfgav1.TupleKey {
	return &openfgav1.TupleKey{Object: t.obj, Relation: t.rel, User: t.user}
}

// ---- the cache: logical clock (fake) or theine (real), with a log of what the code under test did ----------

type cacheEvent struct {
	op  string // set | del
	key keys.Key
	ttl time.Duration
}

type spyCache struct {
	mu    sync.Mutex
	fake  bool
	now   time.Duration // fake clock
	m     map[keys.Key]*fakeEntry
	inner storage.InMemoryCache[any]
	log   []cacheEvent

	lastIter keys.Key // the iterator entry stored last
	haveLast bool
	lastQ    keys.Key // the query entry stored last
	lastQTTL time.Duration
	haveQ    bool
}

type fakeEntry struct {
	val any
	exp time.Duration // < 0: never
}

const oneYear = time.Hour * 24 * 365

func (c *spyCache) Get(k keys.Key) any {
	if !c.fake {
		return c.inner.Get(k)
	}
	c.mu.Lock()
	defer c.mu.Unlock()
	e := c.m[k]
	if e == nil {
		return nil
	}
	if e.exp >= 0 && c.now >= e.exp {
		delete(c.m, k)
		return nil
	}
	return e.val
}

func (c *spyCache) Set(k keys.Key, v any, ttl time.Duration) {
	c.mu.Lock()
	c.log = append(c.log, cacheEvent{"set", k, ttl})
	switch cls, _ := keyClass(k); cls {
	case "iter":
		c.lastIter, c.haveLast = k, true
	case "query":
		c.lastQ, c.lastQTTL, c.haveQ = k, ttl, true
	}
	if c.fake {
		if ttl >= oneYear {
			ttl = oneYear
		}
		if ttl >= 0 {
			exp := c.now + ttl
			if ttl == 0 {
				exp = -1
			}
			c.m[k] = &fakeEntry{val: v, exp: exp}
		}
	}
	c.mu.Unlock()
	if !c.fake {
		c.inner.Set(k, v, ttl)
	}
}

func (c *spyCache) Delete(k keys.Key) {
	c.mu.Lock()
	c.log = append(c.log, cacheEvent{"del", k, 0})
	if c.fake {
		delete(c.m, k)
	}
	c.mu.Unlock()
	if !c.fake {
		c.inner.Delete(k)
	}
}

func (c *spyCache) Stop() {
	if !c.fake {
		c.inner.Stop()
	}
}

func (c *spyCache) take() []cacheEvent {
	c.mu.Lock()
	defer c.mu.Unlock()
	l := c.log
	c.log = nil
	return l
}

// age moves every stored timestamp back by d and the clock forward by d.
func (c *spyCache) age(d time.Duration) {
	c.mu.Lock()
	defer c.mu.Unlock()
	c.now += d
	for _, e := range c.m {
		switch v := e.val.(type) {
		case *storage.ChangelogCacheEntry:
			e.val = &storage.ChangelogCacheEntry{LastModified: v.LastModified.Add(-d), LastChecked: v.LastChecked.Add(-d)}
		case *storage.InvalidEntityCacheEntry:
			e.val = &storage.InvalidEntityCacheEntry{LastModified: v.LastModified.Add(-d)}
		case *storage.TupleIteratorCacheEntry:
			e.val = &storage.TupleIteratorCacheEntry{Tuples: v.Tuples, LastModified: v.LastModified.Add(-d)}
		case *storagewrappers.V2IteratorCacheEntry:
			e.val = &storagewrappers.V2IteratorCacheEntry{Entries: v.Entries, LastModified: v.LastModified.Add(-d), Ordered: v.Ordered}
		case *graph.CheckResponseCacheEntry:
			e.val = &graph.CheckResponseCacheEntry{LastModified: v.LastModified.Add(-d), CheckResponse: v.CheckResponse}
		default:
			panic(fmt.Sprintf("cache entry of unknown type %T cannot be aged", e.val))
		}
	}
}

// ---- the datastore seen by the controller and the caches ----------------------------------------------

type agingDS struct {
	storage.OpenFGADatastore
	mu        sync.Mutex
	shift     time.Duration   // total ageing so far
	shifts    []time.Duration // per changelog record: ageing at the time it was written
	reads     atomic.Int64    // tuple reads that reached the datastore
	holdRun   chan struct{}   // non-nil: the next ReadChanges blocks after reading until closed
	preRun    chan struct{}   // non-nil: the next ReadChanges blocks *before* reading until closed
	preAt     chan struct{}   // closed when that ReadChanges has arrived
	runAtRead chan struct{}   // closed when that ReadChanges has read
	midRead   func()          // runs once, at the first Next/Head of the iterator the next tuple read returns
	midOpen   func()          // runs once, inside the next tuple read of the datastore
}

func (d *agingDS) Write(ctx context.Context, store string, del storage.Deletes, wr storage.Writes, opts ...storage.TupleWriteOption) error {
	d.mu.Lock()
	defer d.mu.Unlock()
	if err := d.OpenFGADatastore.Write(ctx, store, del, wr, opts...); err != nil {
		return err
	}
	for i := 0; i < len(del)+len(wr); i++ {
		d.shifts = append(d.shifts, d.shift)
	}
	return nil
}

func (d *agingDS) ReadChanges(ctx context.Context, store string, f storage.ReadChangesFilter, o storage.ReadChangesOptions) ([]*openfgav1.TupleChange, string, error) {
	d.mu.Lock()
	if pre := d.preRun; pre != nil {
		at := d.preAt
		d.preRun, d.preAt = nil, nil
		d.mu.Unlock()
		close(at)
		<-pre
		d.mu.Lock()
	}
	changes, tok, err := d.OpenFGADatastore.ReadChanges(ctx, store, f, o)
	var out []*openfgav1.TupleChange
	if err == nil {
		total := len(d.shifts)
		for j, c := range changes {
			cc := proto.Clone(c).(*openfgav1.TupleChange)
			idx := total - 1 - j
			if idx >= 0 {
				cc.Timestamp = timestamppb.New(c.GetTimestamp().AsTime().Add(-(d.shift - d.shifts[idx])))
			}
			out = append(out, cc)
		}
	}
	hold, at := d.holdRun, d.runAtRead
	d.holdRun, d.runAtRead = nil, nil
	d.mu.Unlock()
	if hold != nil {
		close(at)
		<-hold
	}
	return out, tok, err
}

// opened: a tuple read reached the datastore and its snapshot is taken.  midOpen fires here, i.e. *inside* the
// datastore call (before the caching wrapper stamps the iterator); midRead fires at the first Next/Head of the
// returned iterator, i.e. while the read is in flight.
func (d *agingDS) opened(it storage.TupleIterator) storage.TupleIterator {
	d.reads.Add(1)
	d.mu.Lock()
	f, g := d.midOpen, d.midRead
	d.midOpen, d.midRead = nil, nil
	d.mu.Unlock()
	if f != nil {
		f()
	}
	if g != nil && it != nil {
		return &hookIter{TupleIterator: it, first: g}
	}
	return it
}

type hookIter struct {
	storage.TupleIterator
	once  sync.Once
	first func()
}

func (h *hookIter) Next(ctx context.Context) (*openfgav1.Tuple, error) {
	h.once.Do(h.first)
	return h.TupleIterator.Next(ctx)
}

func (h *hookIter) Head(ctx context.Context) (*openfgav1.Tuple, error) {
	h.once.Do(h.first)
	return h.TupleIterator.Head(ctx)
}

func (h *hookIter) Stop() {
	h.once.Do(h.first) // a read that is stopped before it is consumed: the write still happens
	h.TupleIterator.Stop()
}

func (d *agingDS) Read(ctx context.Context, store string, f storage.ReadFilter, o storage.ReadOptions) (storage.TupleIterator, error) {
	it, err := d.OpenFGADatastore.Read(ctx, store, f, o)
	return d.opened(it), err
}

func (d *agingDS) ReadUsersetTuples(ctx context.Context, store string, f storage.ReadUsersetTuplesFilter, o storage.ReadUsersetTuplesOptions) (storage.TupleIterator, error) {
	it, err := d.OpenFGADatastore.ReadUsersetTuples(ctx, store, f, o)
	return d.opened(it), err
}

func (d *agingDS) ReadStartingWithUser(ctx context.Context, store string, f storage.ReadStartingWithUserFilter, o storage.ReadStartingWithUserOptions) (storage.TupleIterator, error) {
	it, err := d.OpenFGADatastore.ReadStartingWithUser(ctx, store, f, o)
	return d.opened(it), err
}

// ---- the stub engine behind the query cache -------------------------------------------------------------

type stubResolver struct {
	ds    *agingDS
	calls atomic.Int64
	mid   func() // runs once, after the store was read and before the answer is returned
}

func (s *stubResolver) ResolveCheck(ctx context.Context, req *graph.ResolveCheckRequest) (*graph.ResolveCheckResponse, error) {
	s.calls.Add(1)
	k := req.GetTupleKey()
	_, err := s.ds.OpenFGADatastore.ReadUserTuple(ctx, req.GetStoreID(), storage.ReadUserTupleFilter{Object: k.GetObject(), Relation: k.GetRelation(), User: k.GetUser()}, storage.ReadUserTupleOptions{})
	allowed := err == nil
	if f := s.mid; f != nil {
		s.mid = nil
		f()
	}
	return &graph.ResolveCheckResponse{Allowed: allowed}, nil
}
func (s *stubResolver) Close()                           {}
func (s *stubResolver) SetDelegate(graph.CheckResolver)  {}
func (s *stubResolver) GetDelegate() graph.CheckResolver { return s }

// ---- the rig --------------------------------------------------------------------------------------------

type config struct {
	mode     string // fake | real
	reader   string // v1 | v2
	iterTTL  int    // ticks: settings.CheckIteratorCacheTTL (controller + Check entries)
	loTTL    int    // ticks: settings.ListObjectsIteratorCacheTTL
	queryTTL int
	ctrlTTL  int
	jitter   int // percent
}

type rig struct {
	cfg    config
	unit   time.Duration
	cache  *spyCache
	ds     *agingDS
	ctrl   cachecontroller.CacheController
	ctrlWG *sync.WaitGroup
	wg     *sync.WaitGroup
	cdsC   storage.RelationshipTupleReader // Check-side cached reader
	cdsL   storage.RelationshipTupleReader // ListObjects-side cached reader
	qres   *graph.CachedCheckResolver
	stub   *stubResolver
	held   chan struct{}
}

func newRig(cfg config) *rig {
	r := &rig{cfg: cfg, unit: time.Minute}
	if cfg.mode == "real" {
		r.unit = 100 * time.Millisecond
		inner, err := storage.NewInMemoryLRUCache[any]()
		if err != nil {
			panic(err)
		}
		r.cache = &spyCache{inner: inner}
	} else {
		r.cache = &spyCache{fake: true, m: map[keys.Key]*fakeEntry{}}
	}
	r.ds = &agingDS{OpenFGADatastore: memory.New()}
	d := func(t int) time.Duration { return time.Duration(t) * r.unit }
	// as shared.NewSharedDatastoreResources does: (CacheControllerTTL, CheckQueryCacheTTL, CheckIteratorCacheTTL)
	r.ctrl = cachecontroller.NewCacheController(r.ds, r.cache, d(cfg.ctrlTTL), d(cfg.queryTTL), d(cfg.iterTTL))
	f := reflect.ValueOf(r.ctrl).Elem().FieldByName("wg")
	if !f.IsValid() {
		panic("InMemoryCacheController has no field wg")
	}
	r.ctrlWG = (*sync.WaitGroup)(unsafe.Pointer(f.UnsafeAddr()))
	r.wg = &sync.WaitGroup{}
	sf := &singleflight.Group{}
	ctx := context.Background()
	if cfg.reader == "v2" {
		r.cdsC = storagewrappers.NewCachedTupleReader(ctx, r.ds, r.cache, 1000, d(cfg.iterTTL), sf, r.wg, 0)
		r.cdsL = r.cdsC
	} else {
		// as NewRequestStorageWrapperWithCache does for Check and for ListObjects
		r.cdsC = storagewrappers.NewCachedDatastore(ctx, r.ds, r.cache, 1000, d(cfg.iterTTL), sf, r.wg,
			storagewrappers.WithCachedDatastoreJitterPercentage(uint32(cfg.jitter)))
		r.cdsL = storagewrappers.NewCachedDatastore(ctx, r.ds, r.cache, 1000, d(cfg.loTTL), sf, r.wg,
			storagewrappers.WithCachedDatastoreJitterPercentage(uint32(cfg.jitter)))
	}
	r.stub = &stubResolver{ds: r.ds}
	q, err := graph.NewCachedCheckResolver(graph.WithExistingCache(r.cache), graph.WithCacheTTL(d(cfg.queryTTL)),
		graph.WithJitterPercentage(uint32(cfg.jitter)))
	if err != nil {
		panic(err)
	}
	q.SetDelegate(r.stub)
	r.qres = q
	return r
}

func (r *rig) close() {
	if r.held != nil {
		close(r.held)
		r.held = nil
	}
	r.ctrlWG.Wait()
	r.wg.Wait()
	r.cache.Stop()
	r.ds.OpenFGADatastore.Close()
}

func (r *rig) advance(ticks int) {
	d := time.Duration(ticks) * r.unit
	if r.cfg.mode == "real" {
		time.Sleep(d)
		return
	}
	r.ds.mu.Lock()
	r.ds.shift += d
	r.ds.mu.Unlock()
	r.cache.age(d)
}

func (r *rig) write(t tk, add bool) {
	var err error
	if add {
		err = r.ds.Write(context.Background(), storeID, nil, []*openfgav1.TupleKey{t.key()})
	} else {
		err = r.ds.Write(context.Background(), storeID, []*openfgav1.TupleKeyWithoutCondition{{Object: t.obj, Relation: t.rel, User: t.user}}, nil)
	}
	if err != nil {
		panic("write failed: " + err.Error())
	}
}

func userFilter(us []string) []*openfgav1.ObjectRelation {
	var out []*openfgav1.ObjectRelation
	for _, u := range us {
		o, rel := tuple.SplitObjectRelation(u)
		out = append(out, &openfgav1.ObjectRelation{Object: o, Relation: rel})
	}
	return out
}

func openRead(ctx context.Context, rd storage.RelationshipTupleReader, k readKey) (storage.TupleIterator, error) {
	cons := storage.ConsistencyOptions{Preference: openfgav1.ConsistencyPreference_MINIMIZE_LATENCY}
	switch k.kind {
	case "rut":
		return rd.ReadUsersetTuples(ctx, storeID, storage.ReadUsersetTuplesFilter{Object: k.obj, Relation: k.rel}, storage.ReadUsersetTuplesOptions{Consistency: cons})
	case "read":
		return rd.Read(ctx, storeID, storage.ReadFilter{Object: k.obj, Relation: k.rel}, storage.ReadOptions{Consistency: cons})
	default:
		return rd.ReadStartingWithUser(ctx, storeID, storage.ReadStartingWithUserFilter{ObjectType: k.obj, Relation: k.rel, UserFilter: userFilter(k.users)},
			storage.ReadStartingWithUserOptions{Consistency: cons})
	}
}

func tupleIdx(t *openfgav1.TupleKey) int {
	for i, u := range tuples {
		if u.obj == t.GetObject() && u.rel == t.GetRelation() && u.user == t.GetUser() {
			return i
		}
	}
	return 99
}

func setStr(xs []int) string {
	if len(xs) == 0 {
		return "-"
	}
	sort.Ints(xs)
	p := make([]string, len(xs))
	for i, x := range xs {
		p[i] = strconv.Itoa(x)
	}
	return strings.Join(p, ".")
}

// microTicks renders a duration in millionths of a tick.
func (r *rig) microTicks(d time.Duration) int64 {
	return int64(d) * 1_000_000 / int64(r.unit)
}

// keyClass says what kind of entry a cache key addresses (by its clear-text prefix).
func keyClass(k keys.Key) (string, string) {
	b := k.Bytes()
	// TLV: tag, uvarint length, bytes
	var strs []string
	for i := 0; i < len(b) && len(strs) < 6; {
		if i+1 >= len(b) {
			break
		}
		n := int(b[i+1])
		if n >= 0x80 || i+2+n > len(b) { // not a short string: stop
			break
		}
		strs = append(strs, string(b[i+2:i+2+n]))
		i += 2 + n
	}
	if len(strs) == 0 {
		return "?", ""
	}
	switch strs[0] {
	case storage.PrefixChangelogCache:
		return "cl", ""
	case storage.PrefixIteratorCache:
		return "iter", ""
	case storage.PrefixSubproblemCache:
		return "query", ""
	case storage.PrefixInvalidIteratorCache:
		if len(strs) >= 5 && (strs[1] == "OR" || strs[1] == "UOT") {
			return "marker", strs[1] + " " + strs[3] + " " + strs[4]
		}
		return "store", ""
	}
	return "?", ""
}

// read performs one cached read; partial = stop after the first tuple (the rest is drained in the background).
func (r *rig) read(ki int, lo bool, partial bool, mid func()) string {
	return r.readX(ki, lo, partial, mid, false, false)
}

// readX: withRun = the hook also performs an invalidation run (its summary is appended); atOpen = the hook
// fires inside the datastore call instead of at the first Next.
func (r *rig) readX(ki int, lo bool, partial bool, mid func(), withRun bool, atOpen bool) string {
	k := readKeys[ki]
	rd := r.cdsC
	if lo {
		rd = r.cdsL
	}
	r.cache.take()
	before := r.ds.reads.Load()
	if mid != nil {
		r.ds.mu.Lock()
		if atOpen {
			r.ds.midOpen = mid
		} else {
			r.ds.midRead = mid
		}
		r.ds.mu.Unlock()
	}
	ctx := context.Background()
	it, err := openRead(ctx, rd, k)
	if err != nil {
		return "E"
	}
	var got []int
	for {
		t, err := it.Next(ctx)
		if err != nil {
			if !errors.Is(err, storage.ErrIteratorDone) {
				it.Stop()
				return "E"
			}
			break
		}
		got = append(got, tupleIdx(t.GetKey()))
		if partial {
			break
		}
	}
	it.Stop()
	r.wg.Wait()
	r.ds.mu.Lock()
	pendingMid := r.ds.midRead
	if pendingMid == nil {
		pendingMid = r.ds.midOpen
	}
	r.ds.midRead, r.ds.midOpen = nil, nil
	r.ds.mu.Unlock()
	if pendingMid != nil {
		pendingMid() // served from the cache: the datastore was not read, the write happens right after
	}
	hit := "h"
	if r.ds.reads.Load() != before {
		hit = "m"
	}
	stored, deleted := "n", ""
	evs := r.cache.take()
	for _, e := range evs {
		cls, _ := keyClass(e.key)
		if cls == "iter" && e.op == "set" {
			stored = fmt.Sprintf("s%d", r.microTicks(e.ttl))
		}
		if cls == "iter" && e.op == "del" {
			deleted = "d"
		}
	}
	res := setStr(got)
	if partial {
		res = "p" // a partial read returns a prefix only; its content is not compared
	}
	out := hit + deleted + ":" + res + ":" + stored
	if withRun {
		if rs := r.runSummary(evs, nil); rs != "" {
			out += rs
		} else {
			out += ":R-"
		}
	}
	return out
}

// query sends one request through the query cache; the question is "does tuple qi exist".
func (r *rig) query(qi int, mid func()) string {
	t := tuples[qi]
	r.cache.take()
	ctx := context.Background()
	// a run started by DetermineInvalidationTime is kept from reading the changelog until the request is
	// done, so that the order of the request and the run is fixed
	var pre, preAt chan struct{}
	if r.held == nil {
		pre, preAt = make(chan struct{}), make(chan struct{})
		r.ds.mu.Lock()
		r.ds.preRun, r.ds.preAt = pre, preAt
		r.ds.mu.Unlock()
	}
	inv := r.ctrl.DetermineInvalidationTime(ctx, storeID) // may start a run
	req, err := graph.NewResolveCheckRequest(graph.ResolveCheckRequestParams{StoreID: storeID, TupleKey: t.key(),
		Consistency: openfgav1.ConsistencyPreference_MINIMIZE_LATENCY, LastCacheInvalidationTime: inv, AuthorizationModelID: modelID})
	if err != nil {
		return "E"
	}
	before := r.stub.calls.Load()
	r.stub.mid = mid
	resp, err := r.qres.ResolveCheck(ctx, req)
	if f := r.stub.mid; f != nil {
		r.stub.mid = nil
		f() // served from the cache: no evaluation, the write happens right after
	}
	if err != nil {
		return "E"
	}
	hit := "h"
	if r.stub.calls.Load() != before {
		hit = "m"
	}
	ans := "F"
	if resp.GetAllowed() {
		ans = "T"
	}
	if hit == "m" && mid == nil && r.cfg.jitter > 0 && r.cfg.mode == "fake" {
		// redraw the jittered lifetime until it is at least half of its range (it is reported and fed to the model)
		for tries := 0; tries < 40; tries++ {
			r.cache.mu.Lock()
			ok := r.cache.haveQ && r.cache.lastQTTL >= time.Duration(r.cfg.queryTTL)*r.unit*3/2
			if !ok && r.cache.haveQ {
				delete(r.cache.m, r.cache.lastQ)
			}
			r.cache.mu.Unlock()
			if ok {
				break
			}
			if _, err := r.qres.ResolveCheck(ctx, req); err != nil {
				return "E"
			}
		}
	}
	stored := "n"
	// the run DetermineInvalidationTime may have started: let it go on and finish (unless another one is being held)
	if pre != nil {
		r.ds.mu.Lock()
		r.ds.preRun, r.ds.preAt = nil, nil
		r.ds.mu.Unlock()
		close(pre)
		r.ctrlWG.Wait()
	}
	runOut := r.runSummary(r.cache.take(), &stored)
	return hit + ":" + ans + ":" + stored + runOut
}

// runSummary describes what a run wrote: ":R<F|P|N>:<markers>:<C0|C1>"; "" if the controller wrote nothing.
func (r *rig) runSummary(evs []cacheEvent, stored *string) string {
	full, cl := false, false
	var marks []int
	for _, e := range evs {
		if e.op != "set" {
			continue
		}
		cls, name := keyClass(e.key)
		switch cls {
		case "store":
			full = true
		case "marker":
			marks = append(marks, markerID(name))
		case "cl":
			cl = true
		case "query":
			if stored != nil {
				*stored = fmt.Sprintf("s%d", r.microTicks(e.ttl))
			}
		}
	}
	if !full && !cl && len(marks) == 0 {
		return ""
	}
	kind := "N"
	if full {
		kind = "F"
	} else if len(marks) > 0 {
		kind = "P"
	}
	uniq := map[int]bool{}
	var ms []int
	for _, m := range marks {
		if !uniq[m] {
			uniq[m] = true
			ms = append(ms, m)
		}
	}
	c := "C0"
	if cl {
		c = "C1"
	}
	return ":R" + kind + ":" + setStr(ms) + ":" + c
}

func (r *rig) run() string {
	r.cache.take()
	r.ctrl.InvalidateIfNeeded(context.Background(), storeID)
	r.ctrlWG.Wait()
	s := r.runSummary(r.cache.take(), nil)
	if s == "" {
		return "R-"
	}
	return s[1:]
}

func (r *rig) runBegin() string {
	if r.held != nil {
		return "b!"
	}
	r.cache.take()
	hold, at := make(chan struct{}), make(chan struct{})
	r.ds.mu.Lock()
	r.ds.holdRun, r.ds.runAtRead = hold, at
	r.ds.mu.Unlock()
	r.ctrl.InvalidateIfNeeded(context.Background(), storeID)
	select {
	case <-at:
	case <-time.After(2 * time.Second):
		return "b?"
	}
	r.held = hold
	return "b"
}

func (r *rig) runEnd() string {
	if r.held == nil {
		return "R!"
	}
	r.cache.take() // what happened while the run was held belongs to the other operations
	close(r.held)
	r.held = nil
	r.ctrlWG.Wait()
	s := r.runSummary(r.cache.take(), nil)
	if s == "" {
		return "R-"
	}
	return s[1:]
}

// ---- case lines -----------------------------------------------------------------------------------------
//
// ctl <mode> <reader> iter <n> lo <n> q <n> ctrl <n> jit <pct> page 50
//     u <nMarkers> <nTuples> { <m1> <m2> } <nReadKeys> { <nDeps> deps… <nMatch> tuple indices… } fill <m1> <m2>
//     init <n> tuple indices…   ops <k> op…
// op: adv <d> | wr <i> <a|d> | burst <n> | rd <r> <c|l> <f|p> | rdw/rdwr/rdo <r> <c|l> <i> <a|d> | qc <i> | qcw <i> <a|d>
//     | run | runb | rune

type opT struct {
	kind string
	a, b int
	s1   string
	s2   string
}

// matchTable: which universe tuples a read key returns, found by running the real datastore.
var matchOnce sync.Once
var matchTab [][]int

func matches() [][]int {
	matchOnce.Do(func() {
		for _, k := range readKeys {
			var m []int
			for i, t := range tuples {
				ds := memory.New()
				if err := ds.Write(context.Background(), storeID, nil, []*openfgav1.TupleKey{t.key()}); err != nil {
					panic(err)
				}
				it, err := openRead(context.Background(), ds, k)
				if err != nil {
					panic(err)
				}
				if _, err := it.Next(context.Background()); err == nil {
					m = append(m, i)
				}
				it.Stop()
				ds.Close()
			}
			matchTab = append(matchTab, m)
		}
	})
	return matchTab
}

func header(cfg config) string {
	var sb strings.Builder
	fmt.Fprintf(&sb, "ctl %s %s iter %d lo %d q %d ctrl %d jit %d page %d u %d %d", cfg.mode, cfg.reader, cfg.iterTTL, cfg.loTTL, cfg.queryTTL,
		cfg.ctrlTTL, cfg.jitter, storage.DefaultPageSize, len(markerNames), len(tuples))
	for _, t := range tuples {
		ms := tupleMarkers(t)
		fmt.Fprintf(&sb, " %d %d", ms[0], ms[1])
	}
	fmt.Fprintf(&sb, " %d", len(readKeys))
	mt := matches()
	for i, k := range readKeys {
		fmt.Fprintf(&sb, " %d", len(k.markerIDs))
		for _, m := range k.markerIDs {
			fmt.Fprintf(&sb, " %d", m)
		}
		fmt.Fprintf(&sb, " %d", len(mt[i]))
		for _, x := range mt[i] {
			fmt.Fprintf(&sb, " %d", x)
		}
	}
	fm := tupleMarkers(filler)
	fmt.Fprintf(&sb, " fill %d %d", fm[0], fm[1])
	return sb.String()
}

func encode(cfg config, init []int, ops []opT) string {
	var sb strings.Builder
	sb.WriteString(header(cfg))
	fmt.Fprintf(&sb, " init %d", len(init))
	for _, i := range init {
		fmt.Fprintf(&sb, " %d", i)
	}
	fmt.Fprintf(&sb, " ops %d", len(ops))
	for _, o := range ops {
		switch o.kind {
		case "adv", "burst", "qc":
			fmt.Fprintf(&sb, " %s %d", o.kind, o.a)
		case "wr", "qcw":
			fmt.Fprintf(&sb, " %s %d %s", o.kind, o.a, o.s1)
		case "rd":
			fmt.Fprintf(&sb, " rd %d %s %s", o.a, o.s1, o.s2)
		case "rdw", "rdwr", "rdo":
			fmt.Fprintf(&sb, " %s %d %s %d %s", o.kind, o.a, o.s1, o.b, o.s2)
		default:
			sb.WriteString(" " + o.kind)
		}
	}
	return sb.String()
}

type toks struct {
	t []string
	i int
}

func (t *toks) next() string {
	if t.i >= len(t.t) {
		panic("case line ended early")
	}
	s := t.t[t.i]
	t.i++
	return s
}
func (t *toks) int() int {
	n, err := strconv.Atoi(t.next())
	if err != nil {
		panic("integer expected")
	}
	return n
}
func (t *toks) expect(s string) {
	if g := t.next(); g != s {
		panic("expected " + s + " got " + g)
	}
}

func decode(line string) (cfg config, init []int, ops []opT) {
	t := &toks{t: strings.Fields(line)}
	t.expect("ctl")
	cfg.mode, cfg.reader = t.next(), t.next()
	t.expect("iter")
	cfg.iterTTL = t.int()
	t.expect("lo")
	cfg.loTTL = t.int()
	t.expect("q")
	cfg.queryTTL = t.int()
	t.expect("ctrl")
	cfg.ctrlTTL = t.int()
	t.expect("jit")
	cfg.jitter = t.int()
	t.expect("page")
	_ = t.int()
	t.expect("u")
	_ = t.int()
	nt := t.int()
	for i := 0; i < nt; i++ {
		t.int()
		t.int()
	}
	nr := t.int()
	for i := 0; i < nr; i++ {
		for j, n := 0, t.int(); j < n; j++ {
			t.int()
		}
		for j, n := 0, t.int(); j < n; j++ {
			t.int()
		}
	}
	t.expect("fill")
	t.int()
	t.int()
	t.expect("init")
	for j, n := 0, t.int(); j < n; j++ {
		init = append(init, t.int())
	}
	t.expect("ops")
	for j, n := 0, t.int(); j < n; j++ {
		o := opT{kind: t.next()}
		switch o.kind {
		case "adv", "burst", "qc":
			o.a = t.int()
		case "wr", "qcw":
			o.a = t.int()
			o.s1 = t.next()
		case "rd":
			o.a = t.int()
			o.s1, o.s2 = t.next(), t.next()
		case "rdw", "rdwr", "rdo":
			o.a = t.int()
			o.s1 = t.next()
			o.b = t.int()
			o.s2 = t.next()
		case "run", "runb", "rune":
		default:
			panic("bad op " + o.kind)
		}
		ops = append(ops, o)
	}
	return
}

// ---- generator ------------------------------------------------------------------------------------------

// scripted timelines: the shapes of the statement and the findings (see Props/C11.lean)
func crafted(tier string) []string {
	base := config{mode: "fake", reader: "v1", iterTTL: 10, loTTL: 10, queryTTL: 10, ctrlTTL: 3, jitter: 0}
	var out []string
	add := func(cfg config, init []int, ops ...opT) { out = append(out, encode(cfg, init, ops)) }
	rd := func(r int, src string) opT { return opT{kind: "rd", a: r, s1: src, s2: "f"} }
	adv := func(d int) opT { return opT{kind: "adv", a: d} }
	wr := func(i int, ad string) opT { return opT{kind: "wr", a: i, s1: ad} }
	run := opT{kind: "run"}
	// the documented behaviour: populate, write, (stale), run, fresh
	add(base, []int{1, 2}, rd(0, "c"), adv(1), wr(1, "d"), rd(0, "c"), adv(1), run, rd(0, "c"), rd(2, "c"))
	// more changes than one page inside the window: full invalidation
	add(base, []int{1, 2}, rd(0, "c"), rd(2, "c"), adv(1), wr(1, "d"), opT{kind: "burst", a: 60}, adv(1), run, rd(0, "c"), rd(2, "c"))
	// changes straddling the window: the old one is skipped (its readers have expired), the new one is marked
	add(base, []int{1, 2}, rd(2, "c"), adv(1), wr(2, "d"), adv(9), rd(0, "c"), adv(1), wr(1, "d"), adv(1), run, rd(0, "c"), rd(2, "c"))
	// population and write while a run is held after its read
	add(base, []int{1, 2}, rd(0, "c"), adv(1), wr(1, "d"), adv(1), opT{kind: "runb"}, rd(2, "c"), wr(2, "d"), opT{kind: "rune"}, rd(0, "c"), rd(2, "c"), adv(1), run, rd(2, "c"))
	// a write and a whole invalidation run while a read is in flight: the read must not be cached as valid
	add(base, []int{1, 2}, opT{kind: "rdwr", a: 0, s1: "c", b: 1, s2: "d"}, rd(0, "c"))
	add(v2cfg(base), []int{1, 2}, opT{kind: "rdwr", a: 0, s1: "c", b: 1, s2: "d"}, rd(0, "c"))
	// F6e: the write and the run land inside the datastore call, before the caching wrapper stamps the iterator
	add(base, []int{1, 2}, opT{kind: "rdo", a: 0, s1: "c", b: 1, s2: "d"}, rd(0, "c"))
	add(v2cfg(base), []int{1, 2}, opT{kind: "rdo", a: 0, s1: "c", b: 1, s2: "d"}, rd(0, "c"))
	// query cache: populate, write, run, fresh; the changelog entry outlives the query entry
	add(base, []int{0}, opT{kind: "qc", a: 0}, adv(1), wr(0, "d"), adv(1), run, opT{kind: "qc", a: 0}, adv(9), opT{kind: "qc", a: 0})
	// weighted-graph reader
	v2 := base
	v2.reader = "v2"
	add(v2, []int{1, 2}, rd(0, "c"), adv(1), wr(1, "d"), rd(0, "c"), adv(1), run, rd(0, "c"))
	// F6: TTL jitter — the entry outlives the controller's window (needs a large drawn jitter; the executor redraws)
	j := base
	j.jitter = 100
	add(j, []int{1}, rd(0, "c"), adv(1), wr(1, "d"), adv(11), run, rd(0, "c"))
	// F6b: ListObjects iterator TTL larger than the Check iterator TTL the controller is built with
	l := base
	l.loTTL = 30
	add(l, []int{1}, rd(0, "l"), adv(1), wr(1, "d"), adv(14), run, adv(5), rd(0, "l"), rd(0, "c"))
	// F6c: a write commits while an evaluation is in flight; the result is stamped when the evaluation ends
	add(base, []int{0}, opT{kind: "qcw", a: 0, s1: "d"}, adv(1), run, opT{kind: "qc", a: 0})
	// F6d: query-cache jitter — the entry outlives the changelog entry
	add(j, []int{0}, opT{kind: "qc", a: 0}, adv(1), wr(0, "d"), adv(1), run, adv(10), opT{kind: "qc", a: 0})
	if tier == "thorough" {
		// the same on the real theine cache with the wall clock (one tick = 100 ms)
		real := base
		real.mode = "real"
		add(real, []int{1, 2}, rd(0, "c"), adv(1), wr(1, "d"), rd(0, "c"), adv(1), run, rd(0, "c"), rd(2, "c"))
		rl := l
		rl.mode = "real"
		add(rl, []int{1}, rd(0, "l"), adv(1), wr(1, "d"), adv(14), run, adv(5), rd(0, "l"))
		rj := j
		rj.mode = "real"
		add(rj, []int{1}, rd(0, "c"), adv(1), wr(1, "d"), adv(12), run, rd(0, "c"))
	}
	return out
}

func v2cfg(c config) config {
	c.reader = "v2"
	return c
}

func gen(r *hx.Rand, n int, tier string, emit func(string), st *hx.Stats) {
	for _, c := range crafted(tier) {
		emit(c)
		st.Inc("crafted")
	}
	for i := 0; i < n; i++ {
		c := r.Fork()
		cfg := config{mode: "fake", reader: "v1", iterTTL: 4 + c.Intn(8), queryTTL: 4 + c.Intn(8), ctrlTTL: c.Intn(4), jitter: 0}
		cfg.loTTL = cfg.iterTTL
		if c.Chance(1, 4) {
			cfg.reader = "v2"
		}
		special := ""
		switch {
		case c.Chance(1, 12) && cfg.reader == "v1":
			cfg.jitter = 100
			special = "jitter"
		case c.Chance(1, 12) && cfg.reader == "v1":
			cfg.loTTL = cfg.iterTTL * 3
			special = "lo-ttl"
		}
		present := map[int]bool{}
		var init []int
		for t := range tuples {
			if c.Chance(1, 2) {
				present[t] = true
				init = append(init, t)
			}
		}
		var ops []opT
		held := false
		k := 8 + c.Intn(30)
		for len(ops) < k {
			x := c.Intn(20)
			if held && (x < 4 || x >= 19) {
				// the snapshot a held run carries cannot be aged: the clock stands still until it ends
				x = 17
			}
			switch {
			case x < 3:
				ops = append(ops, opT{kind: "adv", a: 1 + c.Intn(3)})
			case x < 4:
				ops = append(ops, opT{kind: "adv", a: cfg.iterTTL - 2 + c.Intn(5)})
			case x < 7:
				t := c.Intn(len(tuples))
				ad := "a"
				if present[t] {
					ad = "d"
				}
				present[t] = !present[t]
				ops = append(ops, opT{kind: "wr", a: t, s1: ad})
			case x < 8:
				ops = append(ops, opT{kind: "burst", a: 20 + c.Intn(60)})
				st.Inc("bursts")
			case x < 13:
				src := "c"
				if cfg.reader == "v1" && c.Chance(1, 3) {
					src = "l"
				}
				fp := "f"
				if c.Chance(1, 5) {
					fp = "p"
				}
				ops = append(ops, opT{kind: "rd", a: c.Intn(len(readKeys)), s1: src, s2: fp})
			case x < 14 && !held:
				t := c.Intn(len(tuples))
				ad := "a"
				if present[t] {
					ad = "d"
				}
				present[t] = !present[t]
				kind := "rdw"
				if c.Chance(1, 2) {
					kind = "rdwr"
					st.Inc("write-and-run-during-read")
				}
				ops = append(ops, opT{kind: kind, a: c.Intn(len(readKeys)), s1: "c", b: t, s2: ad})
				st.Inc("write-during-read")
			case x < 16:
				ops = append(ops, opT{kind: "qc", a: c.Intn(len(tuples))})
			case x < 17 && special != "":
				t := c.Intn(len(tuples))
				ad := "a"
				if present[t] {
					ad = "d"
				}
				present[t] = !present[t]
				ops = append(ops, opT{kind: "qcw", a: t, s1: ad})
				st.Inc("write-during-evaluation")
			case x < 19:
				if held {
					ops = append(ops, opT{kind: "rune"})
					held = false
				} else if c.Chance(1, 3) {
					ops = append(ops, opT{kind: "runb"})
					held = true
					st.Inc("split-runs")
				} else {
					ops = append(ops, opT{kind: "run"})
				}
			default:
				ops = append(ops, opT{kind: "adv", a: 1})
			}
		}
		if held {
			ops = append(ops, opT{kind: "rune"})
		}
		emit(encode(cfg, init, ops))
		st.Inc("timelines")
		st.Add("ops", len(ops))
		if special != "" {
			st.Inc("config-" + special)
		}
		if cfg.reader == "v2" {
			st.Inc("reader-v2")
		}
	}
}

// ---- executor -------------------------------------------------------------------------------------------

func exec(line string, st *hx.Stats) string {
	cfg, init, ops := decode(line)
	r := newRig(cfg)
	defer r.close()
	for _, i := range init {
		r.write(tuples[i], true)
	}
	// the initial writes are old history
	if cfg.mode == "fake" {
		r.advance(1000)
	}
	fillerOn := false
	var out []string
	for _, o := range ops {
		switch o.kind {
		case "adv":
			r.advance(o.a)
			out = append(out, "a")
		case "wr":
			r.write(tuples[o.a], o.s1 == "a")
			out = append(out, "w")
		case "burst":
			for j := 0; j < o.a; j++ {
				fillerOn = !fillerOn
				r.write(filler, fillerOn)
			}
			out = append(out, "w")
		case "rd":
			res := r.read(o.a, o.s1 == "l", o.s2 == "p", nil)
			if cfg.jitter > 0 && cfg.mode == "fake" && strings.Contains(res, ":s") {
				// redraw until the jitter is at least half of its range, so that the scripted gap falls inside it
				// (the lifetime actually used is reported and fed to the model)
				for tries := 0; tries < 40; tries++ {
					life, _ := strconv.ParseInt(res[strings.LastIndex(res, ":s")+2:], 10, 64)
					base := int64(cfg.iterTTL)
					if o.s1 == "l" {
						base = int64(cfg.loTTL)
					}
					if life >= base*1_500_000 {
						break
					}
					r.dropLastIter()
					again := r.read(o.a, o.s1 == "l", o.s2 == "p", nil)
					// what the operation did is what the first attempt did; only the lifetime is redrawn
					if j := strings.LastIndex(again, ":s"); j >= 0 {
						res = res[:strings.LastIndex(res, ":s")] + again[j:]
					}
				}
			}
			out = append(out, res)
		case "rdw":
			t, add := tuples[o.b], o.s2 == "a"
			out = append(out, r.read(o.a, o.s1 == "l", false, func() { r.write(t, add) }))
		case "rdwr", "rdo":
			t, add := tuples[o.b], o.s2 == "a"
			out = append(out, r.readX(o.a, o.s1 == "l", false, func() {
				r.write(t, add)
				if r.held == nil {
					r.ctrl.InvalidateIfNeeded(context.Background(), storeID)
					r.ctrlWG.Wait()
				}
			}, true, o.kind == "rdo"))
		case "qc":
			res := r.query(o.a, nil)
			out = append(out, res)
		case "qcw":
			t, add := tuples[o.a], o.s1 == "a"
			out = append(out, r.query(o.a, func() { r.write(t, add) }))
		case "run":
			out = append(out, r.run())
		case "runb":
			out = append(out, r.runBegin())
		case "rune":
			out = append(out, r.runEnd())
		}
	}
	if r.held != nil {
		close(r.held)
		r.held = nil
	}
	return strings.Join(out, " ")
}

// dropLastIter removes the iterator entry stored last (used only to redraw a jittered lifetime).
func (r *rig) dropLastIter() {
	r.cache.mu.Lock()
	defer r.cache.mu.Unlock()
	if r.cache.haveLast {
		delete(r.cache.m, r.cache.lastIter)
	}
	r.cache.log = nil
}

func main() { hx.Main(hx.Harness{Gen: gen, Exec: exec}) }
