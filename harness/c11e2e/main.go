// End-to-end demonstration (not part of ./check) of findings F6b and F6 through the real in-process
// server (pkg/server), the real theine cache and the wall clock.
//
//	F6b: listObjectsIteratorCache.ttl (3 s) > checkIteratorCache.ttl (300 ms), cache controller on.
//	F6 : checkIteratorCache.ttl 400 ms, cacheTTLJitterPercentage 100, cache controller on.
//
// Timeline: request (populates the iterator cache) · delete the tuple · silence for a bit more than the
// Check iterator TTL · request (starts the invalidation run; may be stale: accepted) · wait for the run ·
// request again: still the pre-delete answer, although an invalidation run that started after the delete
// has completed.  HIGHER_CONSISTENCY shows the current answer.
package main

import (
	"context"
	"fmt"
	"time"

	openfgav1 "github.com/openfga/api/proto/openfga/v1"
	parser "github.com/openfga/language/pkg/go/transformer"

	"github.com/openfga/openfga/pkg/server"
	"github.com/openfga/openfga/pkg/storage/memory"
)

const dsl = `model
  schema 1.1
type user
type group
  relations
    define member: [user]
type doc
  relations
    define viewer: [group#member]`

func main() {
	ctx := context.Background()
	demo := func(name string, opts ...server.OpenFGAServiceV1Option) {
		ds := memory.New()
		s := server.MustNewServerWithOpts(append([]server.OpenFGAServiceV1Option{server.WithDatastore(ds)}, opts...)...)
		defer s.Close()
		st, err := s.CreateStore(ctx, &openfgav1.CreateStoreRequest{Name: "c11-e2e"})
		must(err)
		m := parser.MustTransformDSLToProto(dsl)
		wm, err := s.WriteAuthorizationModel(ctx, &openfgav1.WriteAuthorizationModelRequest{StoreId: st.GetId(), SchemaVersion: m.GetSchemaVersion(), TypeDefinitions: m.GetTypeDefinitions()})
		must(err)
		write := func(del bool, o, r, u string) {
			req := &openfgav1.WriteRequest{StoreId: st.GetId(), AuthorizationModelId: wm.GetAuthorizationModelId()}
			if del {
				req.Deletes = &openfgav1.WriteRequestDeletes{TupleKeys: []*openfgav1.TupleKeyWithoutCondition{{Object: o, Relation: r, User: u}}}
			} else {
				req.Writes = &openfgav1.WriteRequestWrites{TupleKeys: []*openfgav1.TupleKey{{Object: o, Relation: r, User: u}}}
			}
			_, err := s.Write(ctx, req)
			must(err)
		}
		write(false, "group:g", "member", "user:a")
		write(false, "doc:1", "viewer", "group:g#member")
		time.Sleep(500 * time.Millisecond) // the set-up writes are old history
		ask := func(higher bool) string {
			c := openfgav1.ConsistencyPreference_MINIMIZE_LATENCY
			if higher {
				c = openfgav1.ConsistencyPreference_HIGHER_CONSISTENCY
			}
			if name == "F6b" {
				r, err := s.ListObjects(ctx, &openfgav1.ListObjectsRequest{StoreId: st.GetId(), AuthorizationModelId: wm.GetAuthorizationModelId(),
					Type: "doc", Relation: "viewer", User: "user:a", Consistency: c})
				must(err)
				return fmt.Sprint(r.GetObjects())
			}
			r, err := s.Check(ctx, &openfgav1.CheckRequest{StoreId: st.GetId(), AuthorizationModelId: wm.GetAuthorizationModelId(),
				TupleKey: &openfgav1.CheckRequestTupleKey{Object: "doc:1", Relation: "viewer", User: "user:a"}, Consistency: c})
			must(err)
			return fmt.Sprint(r.GetAllowed())
		}
		for attempt := 1; attempt <= 8; attempt++ {
			t0 := time.Now()
			at := func() string { return fmt.Sprintf("t=%4dms", time.Since(t0).Milliseconds()) }
			fmt.Println(name, at(), "request (populates)           :", ask(false))
			write(true, "doc:1", "viewer", "group:g#member")
			fmt.Println(name, at(), "deleted doc:1#viewer@group:g#member")
			time.Sleep(450 * time.Millisecond)
			fmt.Println(name, at(), "request (starts the run)      :", ask(false))
			time.Sleep(100 * time.Millisecond)
			got := ask(false)
			fmt.Println(name, at(), "request after the run         :", got, "   HIGHER_CONSISTENCY:", ask(true))
			if got != ask(true) {
				fmt.Println(name, "=> STALE after a completed invalidation run that started after the write")
				return
			}
			fmt.Println(name, "   (the drawn jitter was too small this time; again)")
			write(false, "doc:1", "viewer", "group:g#member")
			time.Sleep(1500 * time.Millisecond)
		}
		fmt.Println(name, "not reproduced in 8 attempts")
	}
	demo("F6b", server.WithCacheControllerEnabled(true), server.WithCacheControllerTTL(10*time.Millisecond),
		server.WithListObjectsIteratorCacheEnabled(true), server.WithListObjectsIteratorCacheTTL(3*time.Second),
		server.WithCheckIteratorCacheTTL(300*time.Millisecond))
	demo("F6", server.WithCacheControllerEnabled(true), server.WithCacheControllerTTL(10*time.Millisecond),
		server.WithCheckIteratorCacheEnabled(true), server.WithCheckIteratorCacheTTL(400*time.Millisecond),
		server.WithCacheTTLJitterPercentage(100))
}

func must(err error) {
	if err != nil {
		panic(err)
	}
}
