// Harness for C12 (atomic writes, on_duplicate / on_missing): random write histories over an 8-key tuple universe
// against the real memory and sqlite datastores (directly and through commands.WriteCommand), sqlite statement /
// connection failures injected at every driver-level operation through a wrapping database/sql driver, and real
// process crashes at every statement boundary (child process killed, database file re-read by the parent).
//
// case lines
//
//	H <backend> <op>...     backend = mem | sql | cmdmem | cmdsql; every sixth case is a near-collision history
//	                        (storew.GenCollisionOps: keys that differ in one field / at one field boundary — e.g. only in
//	                        the user relation, group:g#member vs group:g#admin — stored and then named together in one
//	                        request under every on_missing / on_duplicate mode)
//	F <mode> <op>...        sqlite; before every op the write is attempted with operation k failing, for every k
//	                        (mode b = statement fails before it runs, a = after it ran, c = the connection dies)
//	X <op>...               sqlite; like F but a child process is killed right before operation k
//	op = w;<on_missing>;<on_duplicate>;<deletes>;<writes>
//
// output, one group per op separated by a space:
//
//	H:  <result>;<tuples>;<changelog>
//	F:  <trace>;<k-results>;<result>;<tuples>;<changelog>     k-result = <error class>:<same|CHANGED>
//	X:  <k-results>;<result>;<tuples>;<changelog>             k-result = same|CHANGED
package main

import (
	"fmt"
	"os"
	"os/exec"
	"strconv"
	"strings"

	"github.com/openfga/openfga/verifharness/hx"
	"github.com/openfga/openfga/verifharness/storew"
)

func genOps(c *hx.Rand, n int, cmd, odd bool) string {
	ops := make([]string, 0, n)
	g := storew.NewGenState()
	for i := 0; i < n; i++ {
		ops = append(ops, storew.GenOp(c, cmd, odd, g).String())
	}
	return strings.Join(ops, " ")
}

func collisionOps(c *hx.Rand, cmd bool, st *hx.Stats) string {
	var ops []string
	for _, o := range storew.GenCollisionOps(c, cmd, st) {
		ops = append(ops, o.String())
	}
	return strings.Join(ops, " ")
}

func gen(r *hx.Rand, n int, tier string, emit func(string), st *hx.Stats) {
	maxOps := 10
	if tier == "thorough" {
		maxOps = 20
	}
	for i := 0; i < n; i++ {
		c := r.Fork()
		odd := c.Chance(1, 3)
		if i%6 == 5 {
			// near-collision batches: keys that differ in one field / at one field boundary, stored, then named together
			backend := []string{"sql", "mem", "sql", "cmdsql", "mem", "cmdmem"}[(i/6)%6]
			st.Inc("collision-" + backend)
			emit("H " + backend + " " + collisionOps(c, strings.HasPrefix(backend, "cmd"), st))
			continue
		}
		k := c.Intn(100)
		switch {
		case k < 24:
			st.Inc("hist-mem")
			emit("H mem " + genOps(c, 2+c.Intn(maxOps), false, odd))
		case k < 48:
			st.Inc("hist-sql")
			emit("H sql " + genOps(c, 2+c.Intn(maxOps), false, odd))
		case k < 58:
			st.Inc("hist-cmdmem")
			emit("H cmdmem " + genOps(c, 2+c.Intn(maxOps), true, odd))
		case k < 66:
			st.Inc("hist-cmdsql")
			emit("H cmdsql " + genOps(c, 2+c.Intn(maxOps), true, odd))
		case k < 96 || (tier != "thorough" && k < 98):
			mode := hx.Pick(c, []string{"b", "a", "c"})
			st.Inc("inject-" + mode)
			emit("F " + mode + " " + genOps(c, 2+c.Intn(6), false, odd))
		default:
			st.Inc("crash")
			emit("X " + genOps(c, 1+c.Intn(4), false, false))
		}
	}
}

func exec1(line string, st *hx.Stats) string {
	f := strings.Fields(line)
	switch f[0] {
	case "H":
		s := storew.NewSession(f[1])
		var outs []string
		for _, tok := range f[2:] {
			res := s.Write(storew.ParseOp(tok))
			outs = append(outs, res+";"+s.State())
		}
		return strings.Join(outs, " ")
	case "F":
		mode := f[1]
		s := storew.NewSession("sql")
		ctl := s.E.Ctl
		var outs []string
		for _, tok := range f[2:] {
			op := storew.ParseOp(tok)
			pre := s.State()
			var ks []string
			var res string
			var trace []string
			k0 := 0
			if mode == "c" {
				k0 = 1 // database/sql transparently retries a BEGIN that hits a dead connection
			}
			for k := k0; ; k++ {
				if k > 40 {
					return "RUNAWAY"
				}
				ctl.Arm(k, mode)
				res = s.Write(op)
				var fired bool
				trace, fired = ctl.Disarm()
				if !fired || res == "ok" {
					// not reached, or the write went through (applied): this is the final outcome
					break
				}
				st.Inc("injected-failures")
				post := s.State()
				if post == pre {
					ks = append(ks, res+":same")
				} else {
					ks = append(ks, res+":CHANGED")
				}
			}
			kk := "_"
			if len(ks) > 0 {
				kk = strings.Join(ks, ",")
			}
			outs = append(outs, strings.Join(trace, ".")+";"+kk+";"+res+";"+s.State())
		}
		return strings.Join(outs, " ")
	case "X":
		s := storew.NewSession("sql")
		var outs []string
		for _, tok := range f[1:] {
			pre := s.State()
			var ks []string
			res := ""
			for k := 1; ; k++ {
				if k > 40 {
					return "RUNAWAY"
				}
				cmd := exec.Command(os.Args[0], "crashchild", s.E.DBPath, s.Store, strconv.Itoa(k), tok)
				out, err := cmd.Output()
				if err == nil {
					res = strings.TrimSpace(string(out))
					break
				}
				if ee, ok := err.(*exec.ExitError); ok && ee.ExitCode() == 3 {
					st.Inc("crashes")
					if s.State() == pre {
						ks = append(ks, "same")
					} else {
						ks = append(ks, "CHANGED")
					}
					continue
				}
				return "CHILDERR:" + strings.ReplaceAll(err.Error(), " ", "_")
			}
			kk := "_"
			if len(ks) > 0 {
				kk = strings.Join(ks, ",")
			}
			outs = append(outs, kk+";"+res+";"+s.State())
		}
		return strings.Join(outs, " ")
	}
	return "badcase"
}

// crashchild <dbpath> <store> <k> <op>: run one write on the database file; the process exits with status 3 right
// before driver operation k (statement or COMMIT) — nothing is rolled back, closed or flushed by the process.
func crashChild(args []string) {
	if len(args) != 4 {
		os.Exit(2)
	}
	k, _ := strconv.Atoi(args[2])
	ctl := &storew.Ctl{FailAt: -1}
	ds, err := storew.OpenSQLite(args[0], ctl)
	if err != nil {
		fmt.Fprintln(os.Stderr, err)
		os.Exit(2)
	}
	s := &storew.Session{Backend: "sql", DS: ds, Store: args[1]}
	ctl.Arm(k, "x")
	res := s.Write(storew.ParseOp(args[3]))
	fmt.Println(res)
	os.Exit(0) // no Close: the parent re-reads the file
}

func main() {
	if len(os.Args) > 1 && os.Args[1] == "crashchild" {
		crashChild(os.Args[2:])
		return
	}
	defer storew.Cleanup()
	hx.Main(hx.Harness{Gen: gen, Exec: exec1})
}
