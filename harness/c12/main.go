package main

import (
	"context"
	"fmt"
	"os"
	"path/filepath"
	"time"

	openfgav1 "github.com/openfga/api/proto/openfga/v1"
	"github.com/pressly/goose/v3"
	"google.golang.org/protobuf/types/known/structpb"

	"github.com/openfga/openfga/assets"
	"github.com/openfga/openfga/pkg/storage"
	"github.com/openfga/openfga/pkg/storage/memory"
	"github.com/openfga/openfga/pkg/storage/sqlcommon"
	"github.com/openfga/openfga/pkg/storage/sqlite"
)

func main() {
	t0 := time.Now()
	dir, _ := os.MkdirTemp("", "verif-c12-*")
	defer os.RemoveAll(dir)
	path := filepath.Join(dir, "db.sqlite")
	uri := fmt.Sprintf("file:%s?_pragma=journal_mode(WAL)&_pragma=busy_timeout(5000)&_pragma=synchronous(NORMAL)", path)
	goose.SetLogger(goose.NopLogger())
	goose.SetBaseFS(assets.EmbedMigrations)
	db, err := goose.OpenDBWithDriver("sqlite", uri)
	if err != nil {
		panic(err)
	}
	if err := goose.Up(db, assets.SqliteMigrationDir); err != nil {
		panic(err)
	}
	db.Close()
	fmt.Println("migrated in", time.Since(t0))
	ds, err := sqlite.New(uri, sqlcommon.NewConfig())
	if err != nil {
		panic(err)
	}
	defer ds.Close()
	mem := memory.New()
	ctx := context.Background()
	for name, d := range map[string]storage.OpenFGADatastore{"sqlite": ds, "memory": mem} {
		for _, c := range []struct {
			n      string
			c1, c2 *structpb.Struct
		}{{"nil,nil", nil, nil}, {"nil,{}", nil, &structpb.Struct{}}, {"{},nil", &structpb.Struct{}, nil}, {"{},{}", &structpb.Struct{}, &structpb.Struct{}}} {
			st := "store-" + c.n
			tk := &openfgav1.TupleKey{Object: "doc:1", Relation: "viewer", User: "user:a", Condition: &openfgav1.RelationshipCondition{Name: "c1", Context: c.c1}}
			tk2 := &openfgav1.TupleKey{Object: "doc:1", Relation: "viewer", User: "user:a", Condition: &openfgav1.RelationshipCondition{Name: "c1", Context: c.c2}}
			e1 := d.Write(ctx, st, nil, []*openfgav1.TupleKey{tk})
			e2 := d.Write(ctx, st, nil, []*openfgav1.TupleKey{tk2}, storage.WithOnDuplicateInsert(storage.OnDuplicateInsertIgnore))
			fmt.Println(name, c.n, "first:", e1, "second:", e2)
		}
		// delete with empty object id
		st := "store-del"
		_ = d.Write(ctx, st, nil, []*openfgav1.TupleKey{{Object: "doc:1", Relation: "viewer", User: "user:a"}, {Object: "doc:2", Relation: "viewer", User: "user:a"}})
		e := d.Write(ctx, st, []*openfgav1.TupleKeyWithoutCondition{{Object: "doc:", Relation: "viewer", User: "user:a"}}, nil)
		ch, _, _ := d.ReadChanges(ctx, st, storage.ReadChangesFilter{}, storage.ReadChangesOptions{})
		fmt.Println(name, "delete doc: ->", e, "changes:", len(ch))
		// in-request duplicates
		st = "store-dup"
		e = d.Write(ctx, st, nil, []*openfgav1.TupleKey{{Object: "doc:1", Relation: "viewer", User: "user:a"}, {Object: "doc:1", Relation: "viewer", User: "user:a"}})
		ch, _, _ = d.ReadChanges(ctx, st, storage.ReadChangesFilter{}, storage.ReadChangesOptions{})
		fmt.Println(name, "dup in request ->", e, "changes:", len(ch))
	}
	fmt.Println("total", time.Since(t0))
}
