// Harness for C13 (storage backends implement the same read semantics).
//
// One case = a universe of tuple keys, a valid write history over it (batches of deletes + writes, conditions and
// contexts vary per write) and a list of read calls.  Exec replays the history on a fresh store of BOTH real
// backends (memory.New(), sqlite on a temporary database file migrated with the repo's own goose migrations) and
// runs every read call on both, printing what each iterator returned, in iterator order.
//
// Case line (space separated, no TAB; strings are from a restricted alphabet, "-" is the empty string):
//
//	T <n> <objType,objId,relation,user>*n
//	B <k> <d|w>,<tupleIdx>,<condName>,<ctxId>,<ctxHex>*k            (one per batch, in order)
//	R|P <object> <relation> <user> <conds>                          Read | ReadUserTuple
//	U <object> <relation> <restrs> <conds>                          ReadUsersetTuples; restr = type/r/rel | type/w | type/p
//	S <objectType> <relation> <users> <ids> <conds>                 ReadStartingWithUser; user = object/relation; ids = nil | - | a,b
//
// conds = nil | comma list, "~" is the empty condition name.
//
// Output: for every read call "M=<list> S=<list>", list = "[]" or items joined by ";", item =
// "<object>#<relation>@<user>,<cond>,<ctxhex>"; ReadUserTuple prints the item, "NF" (ErrNotFound) or "ERR".
package main

import (
	"context"
	"errors"
	"fmt"
	"os"
	"path/filepath"
	"strconv"
	"strings"
	"sync"

	"github.com/oklog/ulid/v2"
	openfgav1 "github.com/openfga/api/proto/openfga/v1"
	"github.com/pressly/goose/v3"
	"google.golang.org/protobuf/proto"
	"google.golang.org/protobuf/types/known/structpb"

	"github.com/openfga/openfga/assets"
	"github.com/openfga/openfga/pkg/storage"
	"github.com/openfga/openfga/pkg/storage/memory"
	"github.com/openfga/openfga/pkg/storage/sqlcommon"
	"github.com/openfga/openfga/pkg/storage/sqlite"
	"github.com/openfga/openfga/pkg/tuple"
	"github.com/openfga/openfga/verifharness/hx"
)

// ---------------------------------------------------------------- sqlite fixture

var (
	sqlOnce sync.Once
	sqlDS   storage.OpenFGADatastore
	sqlDir  string
)

func sqliteDS() storage.OpenFGADatastore {
	sqlOnce.Do(func() {
		goose.SetLogger(goose.NopLogger())
		goose.SetBaseFS(assets.EmbedMigrations)
		dir, err := os.MkdirTemp("", "verif-c13-sqlite-*")
		if err != nil {
			panic(err)
		}
		sqlDir = dir
		uri := fmt.Sprintf("file:%s?_pragma=journal_mode(WAL)&_pragma=busy_timeout(5000)&_pragma=synchronous(OFF)", filepath.Join(dir, "database.db"))
		db, err := goose.OpenDBWithDriver("sqlite", uri)
		if err != nil {
			panic(err)
		}
		if err := goose.Up(db, assets.SqliteMigrationDir); err != nil {
			panic(err)
		}
		_ = db.Close()
		ds, err := sqlite.New(uri, sqlcommon.NewConfig())
		if err != nil {
			panic(err)
		}
		sqlDS = ds
	})
	return sqlDS
}

func cleanup() {
	if sqlDS != nil {
		sqlDS.Close()
	}
	if sqlDir != "" {
		_ = os.RemoveAll(sqlDir)
	}
}

// ---------------------------------------------------------------- contexts

func ctxStruct(id int) *structpb.Struct {
	switch id {
	case 1:
		return &structpb.Struct{}
	case 2:
		s, _ := structpb.NewStruct(map[string]interface{}{"x": 1.0})
		return s
	case 3:
		s, _ := structpb.NewStruct(map[string]interface{}{"x": 2.0, "y": "a"})
		return s
	}
	return nil
}

func ctxHex(s *structpb.Struct) string {
	if s == nil {
		return "-"
	}
	b, err := proto.MarshalOptions{Deterministic: true}.Marshal(s)
	if err != nil {
		return "MARSHALERR"
	}
	return hx.H(b)
}

// ---------------------------------------------------------------- generator

var (
	objTypes  = []string{"doc", "folder", "group"}
	objIDs    = []string{"1", "2", "1|x", "10"}
	relations = []string{"viewer", "editor", "member", "parent"}
	users     = []string{"user:anne", "user:bob", "user:*", "group:eng#member", "group:eng", "group:fga#member", "group:*",
		"folder:1#viewer", "folder:1", "doc:2#editor", "employee:*", "user:anne@x.org", "group:eng#owner", "users:zed", "groups:eng#member"}
	condNames = []string{"", "", "c1", "c2"}
)

func e(s string) string {
	if s == "" {
		return "-"
	}
	return s
}
func une(s string) string {
	if s == "-" {
		return ""
	}
	return s
}

func condsField(r *hx.Rand) string {
	switch r.Intn(20) {
	case 0, 1, 2, 3, 4, 12, 13, 14, 15, 16, 17, 18, 19:
		return "nil"
	case 5:
		return "~"
	case 6:
		return "c1"
	case 7:
		return "c1,~"
	case 8:
		return "c2,c2"
	case 9:
		return "c2,c1"
	case 10:
		return "cX"
	default:
		return "~,~"
	}
}

type tkey struct{ ot, oid, rel, user string }

func gen(r *hx.Rand, n int, tier string, emit func(string), st *hx.Stats) {
	for i := 0; i < n; i++ {
		c := r.Fork()
		var sb strings.Builder
		// universe
		nt := 2 + c.Intn(7) // 2..8
		seen := map[tkey]bool{}
		var uni []tkey
		// bias: a common object/relation so that filters select several tuples
		baseOT, baseID, baseRel := hx.Pick(c, objTypes), hx.Pick(c, objIDs), hx.Pick(c, relations)
		for len(uni) < nt {
			k := tkey{hx.Pick(c, objTypes), hx.Pick(c, objIDs), hx.Pick(c, relations), hx.Pick(c, users)}
			if c.Chance(3, 5) {
				k.ot, k.rel = baseOT, baseRel
				if c.Chance(2, 3) {
					k.oid = baseID
				}
			}
			if seen[k] {
				continue
			}
			seen[k] = true
			uni = append(uni, k)
		}
		fmt.Fprintf(&sb, "T %d", nt)
		for _, k := range uni {
			fmt.Fprintf(&sb, " %s,%s,%s,%s", k.ot, k.oid, k.rel, k.user)
		}
		// history
		present := map[int]bool{}
		nb := 1 + c.Intn(5)
		for b := 0; b < nb; b++ {
			var ops []string
			touched := map[int]bool{}
			k := 1 + c.Intn(4)
			for j := 0; j < k; j++ {
				idx := c.Intn(nt)
				if touched[idx] {
					continue
				}
				touched[idx] = true
				if present[idx] {
					if b > 0 && c.Chance(1, 2) {
						ops = append(ops, fmt.Sprintf("d,%d,-,0,-", idx))
						present[idx] = false
					}
					continue
				}
				cn := hx.Pick(c, condNames)
				cid := 0
				if cn != "" {
					cid = c.Intn(4)
				} else if c.Chance(1, 12) {
					cid = 1 + c.Intn(3) // unnamed condition with a context: dropped by both backends
					st.Inc("write-unnamed-cond-with-ctx")
				}
				if cn != "" {
					st.Inc("write-conditioned")
				}
				ops = append(ops, fmt.Sprintf("w,%d,%s,%d,%s", idx, e(cn), cid, ctxHex(ctxStruct(cid))))
				present[idx] = true
			}
			if len(ops) == 0 {
				continue
			}
			// deletes first (as the API orders them)
			var dl, wl []string
			for _, o := range ops {
				if o[0] == 'd' {
					dl = append(dl, o)
				} else {
					wl = append(wl, o)
				}
			}
			all := append(dl, wl...)
			fmt.Fprintf(&sb, " B %d %s", len(all), strings.Join(all, " "))
		}
		// queries
		nq := 6
		for q := 0; q < nq; q++ {
			src := uni[c.Intn(nt)]
			switch c.Intn(10) {
			case 0, 1, 2: // Read
				obj := ""
				switch c.Intn(4) {
				case 0:
					obj = src.ot + ":" + src.oid
				case 1:
					obj = src.ot + ":"
				case 2:
					obj = hx.Pick(c, objTypes) + ":" + hx.Pick(c, objIDs)
				}
				rel := ""
				if c.Chance(1, 2) {
					rel = src.rel
				}
				usr := ""
				switch c.Intn(6) {
				case 0:
					usr = src.user
				case 1:
					usr = tuple.GetType(src.user) + ":"
				case 2:
					usr = hx.Pick(c, users)
				case 3: // the object part of a userset (F4e shape)
					if c.Chance(1, 2) {
						o, _ := tuple.SplitObjectRelation(src.user)
						usr = o
					}
				}
				conds := condsField(c)
				if obj == "" && rel == "" && usr == "" {
					st.Inc("read-empty-key")
				}
				st.Inc("op-Read")
				fmt.Fprintf(&sb, " R %s %s %s %s", e(obj), e(rel), e(usr), conds)
			case 3: // ReadUserTuple, full key
				k := src
				if c.Chance(1, 5) {
					k = tkey{hx.Pick(c, objTypes), hx.Pick(c, objIDs), hx.Pick(c, relations), hx.Pick(c, users)}
				}
				st.Inc("op-ReadUserTuple")
				fmt.Fprintf(&sb, " P %s %s %s %s", k.ot+":"+k.oid, k.rel, k.user, condsField(c))
			case 4, 5, 6: // ReadUsersetTuples
				obj := src.ot + ":" + src.oid
				if c.Chance(1, 8) {
					obj = src.ot + ":"
				}
				rel := src.rel
				if c.Chance(1, 10) {
					rel = ""
				}
				var rs []string
				nr := c.Intn(4)
				for j := 0; j < nr; j++ {
					switch c.Intn(12) {
					case 0, 1, 2, 3:
						ut, _, ur := tuple.ToUserParts(src.user)
						if ur == "" {
							ur = "member"
						}
						rs = append(rs, ut+"/r/"+ur)
					case 4, 5:
						rs = append(rs, "group/r/member")
					case 6:
						rs = append(rs, hx.Pick(c, []string{"group", "folder", "doc"})+"/r/"+hx.Pick(c, []string{"member", "viewer", "owner", "editor"}))
					case 7, 8:
						rs = append(rs, hx.Pick(c, []string{"user", "group", "employee"})+"/w")
					case 9:
						if len(rs) > 0 && c.Chance(1, 2) {
							rs = append(rs, rs[c.Intn(len(rs))]) // duplicate
							st.Inc("rut-duplicate-restriction")
						} else {
							rs = append(rs, "group/r/member")
						}
					case 10:
						if c.Chance(1, 3) {
							rs = append(rs, hx.Pick(c, []string{"user", "group"})+"/p")
							st.Inc("rut-plain-restriction")
						} else {
							rs = append(rs, "group/w")
						}
					default:
						rs = append(rs, "team/r/member")
					}
				}
				rstr := "-"
				if len(rs) > 0 {
					rstr = strings.Join(rs, ",")
				}
				st.Inc("op-ReadUsersetTuples")
				fmt.Fprintf(&sb, " U %s %s %s %s", obj, e(rel), rstr, condsField(c))
			default: // ReadStartingWithUser
				var us []string
				nu := 1 + c.Intn(3)
				if c.Chance(1, 15) {
					nu = 0
				}
				for j := 0; j < nu; j++ {
					u := src.user
					if j > 0 {
						u = hx.Pick(c, users)
					}
					o, rl := tuple.SplitObjectRelation(u)
					switch c.Intn(16) {
					case 0:
						rl = "" // object of a userset, without relation (F4e shape)
					case 1:
						if len(us) > 0 {
							us = append(us, us[c.Intn(len(us))])
							st.Inc("rswu-duplicate-user")
							continue
						}
					}
					x := o + "/" + rl
					dup := false
					for _, y := range us {
						if y == x {
							dup = true
						}
					}
					if !dup {
						us = append(us, x)
					}
				}
				ustr := "-"
				if len(us) > 0 {
					ustr = strings.Join(us, ",")
				}
				ids := "nil"
				switch c.Intn(14) {
				case 0:
					ids = "-"
					st.Inc("rswu-empty-objectids")
				case 1:
					ids = src.oid
				case 2:
					ids = src.oid + "," + hx.Pick(c, objIDs)
				case 3:
					ids = "zz"
				}
				ot, rel := src.ot, src.rel
				if c.Chance(1, 10) {
					ot = hx.Pick(c, objTypes)
				}
				st.Inc("op-ReadStartingWithUser")
				fmt.Fprintf(&sb, " S %s %s %s %s %s", ot, rel, ustr, ids, condsField(c))
			}
		}
		emit(sb.String())
	}
}

// ---------------------------------------------------------------- executor

func parseConds(s string) []string {
	if s == "nil" {
		return nil
	}
	var out []string
	for _, x := range strings.Split(s, ",") {
		if x == "~" {
			out = append(out, "")
		} else {
			out = append(out, x)
		}
	}
	return out
}

func item(t *openfgav1.Tuple) string {
	k := t.GetKey()
	cn, cx := "-", "-"
	if c := k.GetCondition(); c != nil {
		cn = e(c.GetName())
		cx = ctxHex(c.GetContext())
	}
	return fmt.Sprintf("%s#%s@%s,%s,%s", k.GetObject(), k.GetRelation(), k.GetUser(), cn, cx)
}

func drain(it storage.TupleIterator, err error) string {
	if err != nil {
		return "ERR"
	}
	defer it.Stop()
	var out []string
	for {
		// every third position is peeked first: Head must show exactly the tuple (key, condition name AND condition
		// context) that the following Next returns, and must not consume it
		head := ""
		if len(out)%3 == 1 {
			if h, herr := it.Head(context.Background()); herr == nil {
				head = item(h)
			} else if !errors.Is(herr, storage.ErrIteratorDone) {
				return "ERR-head"
			}
		}
		t, err := it.Next(context.Background())
		if err != nil {
			if errors.Is(err, storage.ErrIteratorDone) {
				if head != "" {
					out = append(out, "!head-without-next="+head)
				}
				break
			}
			return "ERR"
		}
		if head != "" && head != item(t) {
			out = append(out, "!head="+head)
		}
		out = append(out, item(t))
		if len(out) > 10000 {
			return "ERR-endless"
		}
	}
	if len(out) == 0 {
		return "[]"
	}
	return strings.Join(out, ";")
}

func exec(line string, st *hx.Stats) string {
	f := strings.Fields(line)
	ctx := context.Background()
	backs := []storage.OpenFGADatastore{memory.New(), sqliteDS()}
	store := ulid.Make().String()
	var uni []tkey
	var out []string
	i := 0
	for i < len(f) {
		switch f[i] {
		case "T":
			n, _ := strconv.Atoi(f[i+1])
			for j := 0; j < n; j++ {
				p := strings.SplitN(f[i+2+j], ",", 4)
				uni = append(uni, tkey{p[0], p[1], p[2], p[3]})
			}
			i += 2 + n
		case "B":
			n, _ := strconv.Atoi(f[i+1])
			var dels storage.Deletes
			var wr storage.Writes
			for j := 0; j < n; j++ {
				p := strings.Split(f[i+2+j], ",")
				idx, _ := strconv.Atoi(p[1])
				k := uni[idx]
				if p[0] == "d" {
					dels = append(dels, &openfgav1.TupleKeyWithoutCondition{Object: k.ot + ":" + k.oid, Relation: k.rel, User: k.user})
				} else {
					cid, _ := strconv.Atoi(p[3])
					tk := &openfgav1.TupleKey{Object: k.ot + ":" + k.oid, Relation: k.rel, User: k.user}
					cn := une(p[2])
					if cn != "" || cid != 0 {
						// built by hand: tuple.NewRelationshipCondition would normalise already
						tk.Condition = &openfgav1.RelationshipCondition{Name: cn, Context: ctxStruct(cid)}
					}
					wr = append(wr, tk)
				}
			}
			for bi, b := range backs {
				if err := b.Write(ctx, store, dels, wr); err != nil {
					return fmt.Sprintf("WERR backend=%d %s", bi, strings.ReplaceAll(err.Error(), "\t", " "))
				}
			}
			i += 2 + n
		case "R":
			flt := storage.ReadFilter{Object: une(f[i+1]), Relation: une(f[i+2]), User: une(f[i+3]), Conditions: parseConds(f[i+4])}
			res := make([]string, 2)
			for bi, b := range backs {
				res[bi] = drain(b.Read(ctx, store, flt, storage.ReadOptions{}))
			}
			out = append(out, "M="+res[0], "S="+res[1])
			i += 5
		case "P":
			flt := storage.ReadFilter{Object: une(f[i+1]), Relation: une(f[i+2]), User: une(f[i+3]), Conditions: parseConds(f[i+4])}
			res := make([]string, 2)
			for bi, b := range backs {
				t, err := b.ReadUserTuple(ctx, store, flt, storage.ReadUserTupleOptions{})
				switch {
				case errors.Is(err, storage.ErrNotFound):
					res[bi] = "NF"
				case err != nil:
					res[bi] = "ERR"
				default:
					res[bi] = item(t)
				}
			}
			out = append(out, "M="+res[0], "S="+res[1])
			i += 5
		case "U":
			flt := storage.ReadUsersetTuplesFilter{Object: une(f[i+1]), Relation: une(f[i+2]), Conditions: parseConds(f[i+4])}
			if f[i+3] != "-" {
				for _, x := range strings.Split(f[i+3], ",") {
					p := strings.Split(x, "/")
					switch p[1] {
					case "r":
						flt.AllowedUserTypeRestrictions = append(flt.AllowedUserTypeRestrictions, &openfgav1.RelationReference{Type: p[0], RelationOrWildcard: &openfgav1.RelationReference_Relation{Relation: p[2]}})
					case "w":
						flt.AllowedUserTypeRestrictions = append(flt.AllowedUserTypeRestrictions, &openfgav1.RelationReference{Type: p[0], RelationOrWildcard: &openfgav1.RelationReference_Wildcard{Wildcard: &openfgav1.Wildcard{}}})
					default:
						flt.AllowedUserTypeRestrictions = append(flt.AllowedUserTypeRestrictions, &openfgav1.RelationReference{Type: p[0]})
					}
				}
			}
			res := make([]string, 2)
			for bi, b := range backs {
				res[bi] = drain(b.ReadUsersetTuples(ctx, store, flt, storage.ReadUsersetTuplesOptions{}))
			}
			out = append(out, "M="+res[0], "S="+res[1])
			i += 5
		case "S":
			flt := storage.ReadStartingWithUserFilter{ObjectType: f[i+1], Relation: f[i+2], Conditions: parseConds(f[i+5])}
			if f[i+3] != "-" {
				for _, x := range strings.Split(f[i+3], ",") {
					p := strings.SplitN(x, "/", 2)
					flt.UserFilter = append(flt.UserFilter, &openfgav1.ObjectRelation{Object: p[0], Relation: p[1]})
				}
			}
			switch f[i+4] {
			case "nil":
			case "-":
				flt.ObjectIDs = storage.NewSortedSet()
			default:
				flt.ObjectIDs = storage.NewSortedSet(strings.Split(f[i+4], ",")...)
			}
			res := make([]string, 2)
			for bi, b := range backs {
				res[bi] = drain(b.ReadStartingWithUser(ctx, store, flt, storage.ReadStartingWithUserOptions{WithResultsSortedAscending: true}))
			}
			out = append(out, "M="+res[0], "S="+res[1])
			i += 6
		default:
			return "BADCASE " + f[i]
		}
	}
	return strings.Join(out, " ")
}

func main() {
	defer cleanup()
	hx.Main(hx.Harness{Gen: gen, Exec: exec})
}
