// temporary probe (storer): memory vs sqlite on suspicious read filters
package main

import (
	"context"
	"fmt"
	"os"
	"path/filepath"
	"sort"
	"strings"

	openfgav1 "github.com/openfga/api/proto/openfga/v1"
	"github.com/oklog/ulid/v2"
	"github.com/pressly/goose/v3"
	"google.golang.org/protobuf/types/known/structpb"

	"github.com/openfga/openfga/assets"
	"github.com/openfga/openfga/pkg/storage"
	"github.com/openfga/openfga/pkg/storage/memory"
	"github.com/openfga/openfga/pkg/storage/sqlcommon"
	"github.com/openfga/openfga/pkg/storage/sqlite"
	"github.com/openfga/openfga/pkg/tuple"
)

func newSqlite(dir string) storage.OpenFGADatastore {
	goose.SetLogger(goose.NopLogger())
	goose.SetBaseFS(assets.EmbedMigrations)
	path := filepath.Join(dir, "database.db")
	uri := fmt.Sprintf("file:%s?_pragma=journal_mode(WAL)&_pragma=busy_timeout(5000)&_pragma=synchronous(NORMAL)", path)
	db, err := goose.OpenDBWithDriver("sqlite", uri)
	if err != nil {
		panic(err)
	}
	if err := goose.Up(db, assets.SqliteMigrationDir); err != nil {
		panic(err)
	}
	db.Close()
	ds, err := sqlite.New(uri, sqlcommon.NewConfig())
	if err != nil {
		panic(err)
	}
	return ds
}

func show(it storage.TupleIterator, err error) string {
	if err != nil {
		return "ERR " + err.Error()
	}
	defer it.Stop()
	var out []string
	for {
		t, err := it.Next(context.Background())
		if err != nil {
			break
		}
		s := tuple.TupleKeyToString(t.GetKey())
		if c := t.GetKey().GetCondition(); c != nil {
			s += "[" + c.GetName() + " " + c.GetContext().String() + "]"
		}
		out = append(out, s)
	}
	sort.Strings(out)
	return fmt.Sprintf("%d: %s", len(out), strings.Join(out, " | "))
}

func main() {
	dir, _ := os.MkdirTemp("", "verif-storer-*")
	defer os.RemoveAll(dir)
	ctx := context.Background()
	backs := map[string]storage.OpenFGADatastore{"mem": memory.New(), "sqlite": newSqlite(dir)}
	store := ulid.Make().String()
	cctx, _ := structpb.NewStruct(map[string]interface{}{"x": 1.0})
	tks := []*openfgav1.TupleKey{
		tuple.NewTupleKey("doc:1", "viewer", "group:eng#member"),
		tuple.NewTupleKeyWithCondition("doc:1", "viewer", "group:fga#member", "c1", cctx),
		tuple.NewTupleKey("doc:1", "viewer", "group:*"),
		tuple.NewTupleKey("doc:1", "viewer", "group:eng"),
		tuple.NewTupleKeyWithCondition("doc:2", "viewer", "user:jon", "c1", nil),
		tuple.NewTupleKey("doc:1", "viewer", "user:jon"),
		tuple.NewTupleKey("doc:1", "viewer", "team:x#member"),
	}
	for n, b := range backs {
		if err := b.Write(ctx, store, nil, tks); err != nil {
			fmt.Println(n, "write err", err)
		}
	}
	names := []string{"mem", "sqlite"}
	probe := func(title string, f func(b storage.OpenFGADatastore) string) {
		fmt.Println("== " + title)
		for _, n := range names {
			fmt.Printf("  %-6s %s\n", n, f(backs[n]))
		}
	}
	rel := func(t, r string) *openfgav1.RelationReference {
		return &openfgav1.RelationReference{Type: t, RelationOrWildcard: &openfgav1.RelationReference_Relation{Relation: r}}
	}
	wc := func(t string) *openfgav1.RelationReference {
		return &openfgav1.RelationReference{Type: t, RelationOrWildcard: &openfgav1.RelationReference_Wildcard{Wildcard: &openfgav1.Wildcard{}}}
	}
	plain := func(t string) *openfgav1.RelationReference { return &openfgav1.RelationReference{Type: t} }
	rut := func(f storage.ReadUsersetTuplesFilter) func(b storage.OpenFGADatastore) string {
		return func(b storage.OpenFGADatastore) string {
			return show(b.ReadUsersetTuples(ctx, store, f, storage.ReadUsersetTuplesOptions{}))
		}
	}
	probe("RUT no restr, no cond", rut(storage.ReadUsersetTuplesFilter{Object: "doc:1", Relation: "viewer"}))
	probe("F4a RUT restr=[group#member] cond=[c1]", rut(storage.ReadUsersetTuplesFilter{Object: "doc:1", Relation: "viewer", AllowedUserTypeRestrictions: []*openfgav1.RelationReference{rel("group", "member")}, Conditions: []string{"c1"}}))
	probe("F4a' RUT no restr cond=['']", rut(storage.ReadUsersetTuplesFilter{Object: "doc:1", Relation: "viewer", Conditions: []string{""}}))
	probe("F4b RUT restr dup", rut(storage.ReadUsersetTuplesFilter{Object: "doc:1", Relation: "viewer", AllowedUserTypeRestrictions: []*openfgav1.RelationReference{rel("group", "member"), rel("group", "member")}}))
	probe("RUT restr wildcard group", rut(storage.ReadUsersetTuplesFilter{Object: "doc:1", Relation: "viewer", AllowedUserTypeRestrictions: []*openfgav1.RelationReference{wc("group")}}))
	probe("RUT restr plain group", rut(storage.ReadUsersetTuplesFilter{Object: "doc:1", Relation: "viewer", AllowedUserTypeRestrictions: []*openfgav1.RelationReference{plain("group")}}))
	probe("RUT restr rel '' group", rut(storage.ReadUsersetTuplesFilter{Object: "doc:1", Relation: "viewer", AllowedUserTypeRestrictions: []*openfgav1.RelationReference{rel("group", "")}}))
	probe("RUT object type only", rut(storage.ReadUsersetTuplesFilter{Object: "doc:", Relation: "viewer"}))
	probe("RUT object empty rel empty", rut(storage.ReadUsersetTuplesFilter{}))

	rswu := func(f storage.ReadStartingWithUserFilter) func(b storage.OpenFGADatastore) string {
		return func(b storage.OpenFGADatastore) string {
			return show(b.ReadStartingWithUser(ctx, store, f, storage.ReadStartingWithUserOptions{}))
		}
	}
	or := func(o, r string) *openfgav1.ObjectRelation { return &openfgav1.ObjectRelation{Object: o, Relation: r} }
	probe("RSWU user:jon", rswu(storage.ReadStartingWithUserFilter{ObjectType: "doc", Relation: "viewer", UserFilter: []*openfgav1.ObjectRelation{or("user:jon", "")}}))
	probe("F4c RSWU user:jon empty objectIDs", rswu(storage.ReadStartingWithUserFilter{ObjectType: "doc", Relation: "viewer", UserFilter: []*openfgav1.ObjectRelation{or("user:jon", "")}, ObjectIDs: storage.NewSortedSet()}))
	probe("RSWU dup user filter", rswu(storage.ReadStartingWithUserFilter{ObjectType: "doc", Relation: "viewer", UserFilter: []*openfgav1.ObjectRelation{or("user:jon", ""), or("user:jon", "")}}))
	probe("RSWU group:eng (no rel) vs group:eng#member", rswu(storage.ReadStartingWithUserFilter{ObjectType: "doc", Relation: "viewer", UserFilter: []*openfgav1.ObjectRelation{or("group:eng", "")}}))
	probe("RSWU no user filter", rswu(storage.ReadStartingWithUserFilter{ObjectType: "doc", Relation: "viewer"}))
	probe("RSWU cond ['']", rswu(storage.ReadStartingWithUserFilter{ObjectType: "doc", Relation: "viewer", UserFilter: []*openfgav1.ObjectRelation{or("user:jon", "")}, Conditions: []string{""}}))
	probe("RSWU objectIDs {2}", rswu(storage.ReadStartingWithUserFilter{ObjectType: "doc", Relation: "viewer", UserFilter: []*openfgav1.ObjectRelation{or("user:jon", "")}, ObjectIDs: storage.NewSortedSet("2")}))

	rd := func(f storage.ReadFilter) func(b storage.OpenFGADatastore) string {
		return func(b storage.OpenFGADatastore) string { return show(b.Read(ctx, store, f, storage.ReadOptions{})) }
	}
	probe("Read all cond=[c1]", rd(storage.ReadFilter{Conditions: []string{"c1"}}))
	probe("Read user group:eng", rd(storage.ReadFilter{Object: "doc:1", User: "group:eng"}))
	probe("Read user group:", rd(storage.ReadFilter{Object: "doc:1", User: "group:"}))
	probe("Read user group:eng#member", rd(storage.ReadFilter{User: "group:eng#member"}))
	probe("Read object doc:", rd(storage.ReadFilter{Object: "doc:"}))
	probe("Read object 'doc' (no colon)", rd(storage.ReadFilter{Object: "doc"}))
	probe("Read object ':1'", rd(storage.ReadFilter{Object: ":1"}))
	probe("Read user 'jon' no type", rd(storage.ReadFilter{User: "jon"}))
	probe("Read user 'group:#member'", rd(storage.ReadFilter{User: "group:#member"}))
	probe("Read rel viewer cond ['',c1]", rd(storage.ReadFilter{Relation: "viewer", Conditions: []string{"", "c1"}}))

	rutp := func(f storage.ReadUserTupleFilter) func(b storage.OpenFGADatastore) string {
		return func(b storage.OpenFGADatastore) string {
			t, err := b.ReadUserTuple(ctx, store, f, storage.ReadUserTupleOptions{})
			if err != nil {
				return "ERR " + err.Error()
			}
			return tuple.TupleKeyToString(t.GetKey()) + " cond=" + t.GetKey().GetCondition().GetName()
		}
	}
	probe("RUserT exact", rutp(storage.ReadFilter{Object: "doc:1", Relation: "viewer", User: "user:jon"}))
	probe("RUserT partial (no relation)", rutp(storage.ReadFilter{Object: "doc:1", User: "user:jon"}))
	probe("RUserT partial (user type only)", rutp(storage.ReadFilter{Object: "doc:1", Relation: "viewer", User: "user:"}))
	probe("RUserT cond c1 on doc:2", rutp(storage.ReadFilter{Object: "doc:2", Relation: "viewer", User: "user:jon", Conditions: []string{"c1"}}))
	probe("RUserT cond '' on doc:2", rutp(storage.ReadFilter{Object: "doc:2", Relation: "viewer", User: "user:jon", Conditions: []string{""}}))

	// paging with odd tokens
	pg := func(from string, ps int) func(b storage.OpenFGADatastore) string {
		return func(b storage.OpenFGADatastore) (res string) {
			defer func() {
				if p := recover(); p != nil {
					res = fmt.Sprint("PANIC ", p)
				}
			}()
			ts, tok, err := b.ReadPage(ctx, store, storage.ReadFilter{}, storage.ReadPageOptions{Pagination: storage.PaginationOptions{PageSize: ps, From: from}})
			if err != nil {
				return "ERR " + err.Error()
			}
			return fmt.Sprintf("%d tuples tokenlen=%d tok=%q", len(ts), len(tok), tok)
		}
	}
	probe("ReadPage from='' ps=3", pg("", 3))
	probe("ReadPage from='-1' ps=3", pg("-1", 3))
	probe("ReadPage from='100' ps=3", pg("100", 3))
	probe("ReadPage from='abc' ps=3", pg("abc", 3))
	probe("ReadPage from='7' ps=3", pg("7", 3))
}
