// Harness for C14 (paginated reads return every item exactly once).
//
// All four paged APIs are driven through the real command layer (pkg/server/commands) with the real token encoder
// (base64, or AES-GCM + base64) and the token serializer the server pairs with the backend (memory: "pos|type"
// strings, sqlite: JSON), on the real memory backend and on sqlite (temporary database file, the repo's migrations).
//
// Case lines
//
//	page read    <m|s> <b|g> <classes> <del> <filter>          filter: all | t<d|f>u<0-3> | o<i>
//	page changes <m|s> <b|g> <classes> <del> <type>            type: - | doc | folder
//	page stores  <m|s> <b|g> <n> <perm> <del> <decoy> <mode>   mode: name | all | ids:<ranks> | idp[n]:<ranks> | idv[n]:<ranks>
//	conc changes m <b|g> <writers> <per> <pre>                 concurrent writers on one memory store, then ReadChanges
//	page models  <m|s> <b|g> <n> <perm>
//	tok <kind> <api> <m|s> <n> <ps> [<arg>]                    malformed / foreign / type-bound tokens
//
// classes: one letter a..h per item (a-d: type doc, e-h: type folder; user u0..u3 = letter mod 4); item i is the tuple
// <type>:o<i>#viewer@user:u<k>.  del: indices deleted (in one later write) before reading.  perm: the order in which
// the ranks are created (the rank is the position in id order).
//
// ListStores id filters (storage/command level: ListStoresQuery.Execute(ctx, req, ids); at API level the id list comes
// from access control, in any order and recomputed for every page request): `ids:` ascending ranks, `idp:` the ranks in
// the (shuffled) order of the case line, the same list on every page request, `idv:` another permutation of the list on
// EVERY page request (rotation by the call number, reversed on odd calls); a trailing `n` (`idpn:`, `idvn:`) adds the
// name filter.  Ranks >= n are ids of stores that were never created.  No duplicate ids (memory would list the store
// twice, sqlite once).
//
// conc: <writers> goroutines write <per> single-tuple writes each to one store of the real memory backend (that holds
// <pre> tuples already, so that a Write takes a while) at the same time.  Then the harness reads the whole changelog in
// one page, reads the ULID of every entry in log order (storage level: the token of the first page of size k is the
// ULID of entry k), and pages through with small page sizes:  "n=<entries> sorted=<ULIDs strictly increasing in log
// order> single=<ok|…> paged=<ok|ps<k>:got<a>of<b>>".
//
// Output of a page case: for every page size 1..n+1 "ps=<page>/<page>/…" — a page is a list of ranks ("a-b" ascending
// run, "a~b" descending run, "e" empty); ReadChanges ends with the empty page that stops the client.  Ranks, never
// ULIDs: tuples print their index i, changes print their position in the store's full changelog, stores and models
// the rank of their id.
package main

import (
	"context"
	"errors"
	"fmt"
	"os"
	"path/filepath"
	"sort"
	"strconv"
	"strings"
	"sync"

	"github.com/oklog/ulid/v2"
	openfgav1 "github.com/openfga/api/proto/openfga/v1"
	"github.com/pressly/goose/v3"
	"google.golang.org/grpc/status"
	"google.golang.org/protobuf/types/known/wrapperspb"

	"github.com/openfga/openfga/assets"
	"github.com/openfga/openfga/pkg/encoder"
	"github.com/openfga/openfga/pkg/encrypter"
	"github.com/openfga/openfga/pkg/server/commands"
	serverErrors "github.com/openfga/openfga/pkg/server/errors"
	"github.com/openfga/openfga/pkg/storage"
	"github.com/openfga/openfga/pkg/storage/memory"
	"github.com/openfga/openfga/pkg/storage/sqlcommon"
	"github.com/openfga/openfga/pkg/storage/sqlite"
	"github.com/openfga/openfga/verifharness/hx"
)

// ---------------------------------------------------------------- fixtures

var (
	sqlOnce sync.Once
	sqlDS   storage.OpenFGADatastore
	sqlDir  string
	salt    uint64
)

func sqliteDS() storage.OpenFGADatastore {
	sqlOnce.Do(func() {
		goose.SetLogger(goose.NopLogger())
		goose.SetBaseFS(assets.EmbedMigrations)
		dir, err := os.MkdirTemp("", "verif-c14-sqlite-*")
		if err != nil {
			panic(err)
		}
		sqlDir = dir
		uri := fmt.Sprintf("file:%s?_pragma=journal_mode(WAL)&_pragma=busy_timeout(5000)&_pragma=synchronous(OFF)", filepath.Join(dir, "database.db"))
		db, err := goose.OpenDBWithDriver("sqlite", uri)
		if err != nil {
			panic(err)
		}
		if err := goose.Up(db, assets.SqliteMigrationDir); err != nil {
			panic(err)
		}
		_ = db.Close()
		ds, err := sqlite.New(uri, sqlcommon.NewConfig())
		if err != nil {
			panic(err)
		}
		sqlDS = ds
	})
	return sqlDS
}

func cleanup() {
	if sqlDS != nil {
		sqlDS.Close()
	}
	if sqlDir != "" {
		_ = os.RemoveAll(sqlDir)
	}
}

type env struct {
	ds  storage.OpenFGADatastore
	enc encoder.Encoder
	ser encoder.ContinuationTokenSerializer
}

func newEnv(backend, enc string) env {
	var e env
	if backend == "m" {
		e.ds = memory.New()
		e.ser = encoder.NewStringContinuationTokenSerializer()
	} else {
		e.ds = sqliteDS()
		e.ser = sqlcommon.NewSQLContinuationTokenSerializer()
	}
	if enc == "g" {
		g, err := encrypter.NewGCMEncrypter("verif-c14-key")
		if err != nil {
			panic(err)
		}
		e.enc = encoder.NewTokenEncoder(g, encoder.NewBase64Encoder())
	} else {
		e.enc = encoder.NewBase64Encoder()
	}
	return e
}

func errKind(err error) string {
	switch {
	case errors.Is(err, serverErrors.ErrInvalidContinuationToken):
		return "err:invalid_token"
	case errors.Is(err, serverErrors.ErrMismatchObjectType):
		return "err:mismatch_type"
	}
	if s, ok := status.FromError(err); ok {
		return fmt.Sprintf("err:code%d", int(s.Code()))
	}
	return "err:other"
}

// ---------------------------------------------------------------- rank lists

func fmtPage(r []int) string {
	if len(r) == 0 {
		return "e"
	}
	var parts []string
	i := 0
	for i < len(r) {
		j := i
		for j+1 < len(r) && r[j+1] == r[j]+1 {
			j++
		}
		if j > i {
			parts = append(parts, fmt.Sprintf("%d-%d", r[i], r[j]))
			i = j + 1
			continue
		}
		for j+1 < len(r) && r[j+1] == r[j]-1 {
			j++
		}
		if j > i {
			parts = append(parts, fmt.Sprintf("%d~%d", r[i], r[j]))
			i = j + 1
			continue
		}
		parts = append(parts, strconv.Itoa(r[i]))
		i++
	}
	return strings.Join(parts, ",")
}

// ---------------------------------------------------------------- data sets

func classType(c byte) string {
	if c-'a' < 4 {
		return "doc"
	}
	return "folder"
}
func classUser(c byte) string { return fmt.Sprintf("user:u%d", (c-'a')%4) }

func parseInts(s string) []int {
	if s == "-" || s == "" {
		return nil
	}
	var out []int
	for _, x := range strings.Split(s, ",") {
		v, _ := strconv.Atoi(x)
		out = append(out, v)
	}
	return out
}

// writeTuples writes item i of `classes` (in batches whose sizes derive from the item count) and then deletes `del`.
func writeTuples(ctx context.Context, ds storage.OpenFGADatastore, store, classes string, del []int) error {
	if classes == "-" {
		classes = ""
	}
	n := len(classes)
	bs := []int{1, 7, 40, 3, 100, 2, 19}
	i, k := 0, 0
	for i < n {
		sz := bs[k%len(bs)]
		k++
		if i+sz > n {
			sz = n - i
		}
		var w storage.Writes
		for j := i; j < i+sz; j++ {
			w = append(w, &openfgav1.TupleKey{Object: fmt.Sprintf("%s:o%d", classType(classes[j]), j), Relation: "viewer", User: classUser(classes[j])})
		}
		if err := ds.Write(ctx, store, nil, w); err != nil {
			return err
		}
		i += sz
	}
	for len(del) > 0 {
		sz := len(del)
		if sz > 50 {
			sz = 50
		}
		var d storage.Deletes
		for _, j := range del[:sz] {
			d = append(d, &openfgav1.TupleKeyWithoutCondition{Object: fmt.Sprintf("%s:o%d", classType(classes[j]), j), Relation: "viewer", User: classUser(classes[j])})
		}
		if err := ds.Write(ctx, store, d, nil); err != nil {
			return err
		}
		del = del[sz:]
	}
	return nil
}

func objIndex(object string) int {
	i := strings.Index(object, ":o")
	v, err := strconv.Atoi(object[i+2:])
	if err != nil {
		return -1
	}
	return v
}

func readFilterKey(filter, classes string) *openfgav1.ReadRequestTupleKey {
	switch {
	case filter == "all":
		return nil
	case filter[0] == 't':
		ty := "doc"
		if filter[1] == 'f' {
			ty = "folder"
		}
		return &openfgav1.ReadRequestTupleKey{Object: ty + ":", User: "user:u" + filter[3:]}
	default: // o<i>
		i, _ := strconv.Atoi(filter[1:])
		ty := "doc"
		if i < len(classes) {
			ty = classType(classes[i])
		}
		return &openfgav1.ReadRequestTupleKey{Object: fmt.Sprintf("%s:o%d", ty, i)}
	}
}

func ulidAt(rank int) string {
	return ulid.MustNew(1_700_000_000_000+salt*4096+uint64(rank), nil).String()
}

// ---------------------------------------------------------------- page loops

type pager func(ps int32, tok string) (ranks []int, next string, err error)

// follow pages until the token is empty (or, for ReadChanges, until an empty page), at most `limit` pages.
func follow(p pager, ps int, limit int, changes bool) string {
	var pages []string
	tok := ""
	for k := 0; ; k++ {
		if k > limit {
			return strings.Join(pages, "/") + "/LOOP"
		}
		r, next, err := p(int32(ps), tok)
		if err != nil {
			return strings.Join(append(pages, errKind(err)), "/")
		}
		pages = append(pages, fmtPage(r))
		if changes {
			if len(r) == 0 {
				break
			}
		} else if next == "" {
			break
		}
		tok = next
	}
	return strings.Join(pages, "/")
}

func allSizes(p pager, n int, changes bool) string {
	var out []string
	for ps := 1; ps <= n+1; ps++ {
		out = append(out, fmt.Sprintf("%d=%s", ps, follow(p, ps, 2*n+6, changes)))
	}
	return strings.Join(out, " ")
}

func readPager(ctx context.Context, e env, store string, tk *openfgav1.ReadRequestTupleKey) pager {
	q := commands.NewReadQuery(e.ds, commands.WithReadQueryEncoder(e.enc), commands.WithReadQueryTokenSerializer(e.ser))
	return func(ps int32, tok string) ([]int, string, error) {
		resp, err := q.Execute(ctx, &openfgav1.ReadRequest{StoreId: store, TupleKey: tk, PageSize: wrapperspb.Int32(ps), ContinuationToken: tok})
		if err != nil {
			return nil, "", err
		}
		var r []int
		for _, t := range resp.GetTuples() {
			r = append(r, objIndex(t.GetKey().GetObject()))
		}
		return r, resp.GetContinuationToken(), nil
	}
}

func changesPager(ctx context.Context, e env, store, typ string, rankOf map[string]int) pager {
	q := commands.NewReadChangesQuery(e.ds, commands.WithReadChangesQueryEncoder(e.enc), commands.WithContinuationTokenSerializer(e.ser), commands.WithReadChangeQueryHorizonOffset(0))
	return func(ps int32, tok string) ([]int, string, error) {
		resp, err := q.Execute(ctx, &openfgav1.ReadChangesRequest{StoreId: store, Type: typ, PageSize: wrapperspb.Int32(ps), ContinuationToken: tok})
		if err != nil {
			return nil, "", err
		}
		var r []int
		for _, c := range resp.GetChanges() {
			op := "w"
			if c.GetOperation() == openfgav1.TupleOperation_TUPLE_OPERATION_DELETE {
				op = "d"
			}
			k := fmt.Sprintf("%s%d", op, objIndex(c.GetTupleKey().GetObject()))
			v, ok := rankOf[k]
			if !ok {
				v = -1
			}
			r = append(r, v)
		}
		return r, resp.GetContinuationToken(), nil
	}
}

// idsAt(call) is the id list handed in with page request number `call` (counted over the whole case)
func storesPager(ctx context.Context, e env, name string, idsAt func(call int) []string, rankOf map[string]int) pager {
	q := commands.NewListStoresQuery(e.ds, commands.WithListStoresQueryEncoder(e.enc))
	call := 0
	return func(ps int32, tok string) ([]int, string, error) {
		ids := idsAt(call)
		call++
		resp, err := q.Execute(ctx, &openfgav1.ListStoresRequest{Name: name, PageSize: wrapperspb.Int32(ps), ContinuationToken: tok}, ids)
		if err != nil {
			return nil, "", err
		}
		var r []int
		for _, s := range resp.GetStores() {
			v, ok := rankOf[s.GetId()]
			if !ok {
				v = -1
			}
			r = append(r, v)
		}
		return r, resp.GetContinuationToken(), nil
	}
}

func modelsPager(ctx context.Context, e env, store string, rankOf map[string]int) pager {
	q := commands.NewReadAuthorizationModelsQuery(e.ds, commands.WithReadAuthModelsQueryEncoder(e.enc))
	return func(ps int32, tok string) ([]int, string, error) {
		resp, err := q.Execute(ctx, &openfgav1.ReadAuthorizationModelsRequest{StoreId: store, PageSize: wrapperspb.Int32(ps), ContinuationToken: tok})
		if err != nil {
			return nil, "", err
		}
		var r []int
		for _, m := range resp.GetAuthorizationModels() {
			v, ok := rankOf[m.GetId()]
			if !ok {
				v = -1
			}
			r = append(r, v)
		}
		return r, resp.GetContinuationToken(), nil
	}
}

func fixedIDs(ids []string) func(int) []string { return func(int) []string { return ids } }

// varyIDs: another permutation of the same id list for every call: rotated by the call number, reversed on odd calls
func varyIDs(ids []string) func(int) []string {
	return func(call int) []string {
		m := len(ids)
		if m == 0 {
			return nil
		}
		out := make([]string, m)
		for i := range out {
			out[i] = ids[(i+call*7+call/2)%m]
		}
		if call%2 == 1 {
			for i, j := 0, m-1; i < j; i, j = i+1, j-1 {
				out[i], out[j] = out[j], out[i]
			}
		}
		return out
	}
}

// changelog ranks: writes 0..n-1 in order, then the deletes in the order given
func changeRanks(n int, del []int) map[string]int {
	m := map[string]int{}
	for i := 0; i < n; i++ {
		m[fmt.Sprintf("w%d", i)] = i
	}
	for k, j := range del {
		m[fmt.Sprintf("d%d", j)] = n + k
	}
	return m
}

func setupStores(ctx context.Context, e env, n int, perm, del, decoy []int, name string) (map[string]int, error) {
	rankOf := map[string]int{}
	isDecoy := map[int]bool{}
	for _, d := range decoy {
		isDecoy[d] = true
	}
	for _, r := range perm {
		id := ulidAt(r)
		rankOf[id] = r
		nm := name
		if isDecoy[r] {
			nm = name + "-other"
		}
		if _, err := e.ds.CreateStore(ctx, &openfgav1.Store{Id: id, Name: nm}); err != nil {
			return nil, err
		}
	}
	for _, r := range del {
		if err := e.ds.DeleteStore(ctx, ulidAt(r)); err != nil {
			return nil, err
		}
	}
	return rankOf, nil
}

func setupModels(ctx context.Context, e env, store string, perm []int) (map[string]int, error) {
	rankOf := map[string]int{}
	for _, r := range perm {
		id := ulidAt(r)
		rankOf[id] = r
		m := &openfgav1.AuthorizationModel{Id: id, SchemaVersion: "1.1", TypeDefinitions: []*openfgav1.TypeDefinition{{Type: "user"}}}
		if err := e.ds.WriteAuthorizationModel(ctx, store, m); err != nil {
			return nil, err
		}
	}
	return rankOf, nil
}

// ---------------------------------------------------------------- generator

func classesOf(c *hx.Rand, n int) string {
	if n == 0 {
		return "-"
	}
	b := make([]byte, n)
	for i := range b {
		b[i] = byte('a' + c.Intn(8))
	}
	return string(b)
}

func subset(c *hx.Rand, n, num, den int) string {
	var out []string
	for i := 0; i < n; i++ {
		if c.Chance(num, den) {
			out = append(out, strconv.Itoa(i))
		}
	}
	if len(out) == 0 {
		return "-"
	}
	return strings.Join(out, ",")
}

func permOf(c *hx.Rand, n int) string {
	if n == 0 {
		return "-"
	}
	p := make([]string, n)
	for i := range p {
		p[i] = strconv.Itoa(i)
	}
	hx.Shuffle(c, p)
	return strings.Join(p, ",")
}

func sizeOf(c *hx.Rand, tier string) int {
	switch c.Intn(10) {
	case 0:
		return c.Intn(3) // 0,1,2
	case 1, 2, 3, 4:
		return 3 + c.Intn(10)
	case 5, 6, 7:
		return 10 + c.Intn(30)
	default:
		if tier == "thorough" {
			return 40 + c.Intn(260)
		}
		return 30 + c.Intn(40)
	}
}

func gen(r *hx.Rand, n int, tier string, emit func(string), st *hx.Stats) {
	for i := 0; i < n; i++ {
		c := r.Fork()
		b := hx.Pick(c, []string{"m", "s"})
		enc := "b"
		if c.Chance(1, 4) {
			enc = "g"
		}
		if c.Chance(1, 6) {
			genTok(c, b, emit, st)
			continue
		}
		if c.Chance(1, 25) {
			// concurrent writers on the memory backend (sqlite hands `time.Now()` to its transaction from outside: not run)
			st.Inc("conc-changes-m")
			emit(fmt.Sprintf("conc changes m %s %d %d %d", enc, hx.Pick(c, []int{2, 4, 8, 8}), 10+c.Intn(16), 100+c.Intn(300)))
			continue
		}
		sz := sizeOf(c, tier)
		switch c.Intn(4) {
		case 0:
			cl := classesOf(c, sz)
			del := "-"
			if c.Chance(1, 2) {
				del = subset(c, sz, 1, 5)
			}
			filter := "all"
			switch c.Intn(5) {
			case 0, 1:
				filter = fmt.Sprintf("t%su%d", hx.Pick(c, []string{"d", "f"}), c.Intn(4))
			case 2:
				filter = fmt.Sprintf("o%d", c.Intn(sz+1))
			}
			st.Inc("page-read-" + b)
			emit(fmt.Sprintf("page read %s %s %s %s %s", b, enc, cl, del, filter))
		case 1:
			cl := classesOf(c, sz)
			del := "-"
			if c.Chance(1, 2) {
				del = subset(c, sz, 1, 4)
			}
			st.Inc("page-changes-" + b)
			emit(fmt.Sprintf("page changes %s %s %s %s %s", b, enc, cl, del, hx.Pick(c, []string{"-", "-", "doc", "folder"})))
		case 2:
			if sz > 80 {
				sz = 80
			}
			mode := "name"
			switch c.Intn(7) {
			case 0:
				if b == "m" {
					mode = "all"
				}
			case 1:
				mode = "ids:" + subset(c, sz, 1, 2)
				if mode == "ids:-" {
					mode = "name"
				}
			case 2, 3, 4:
				// the id list in a shuffled order (idp) / in another order on every page request (idv); sometimes with
				// ids of stores that do not exist, sometimes with the name filter as well
				var ranks []string
				for i := 0; i < sz; i++ {
					if c.Chance(1, 2) {
						ranks = append(ranks, strconv.Itoa(i))
					}
				}
				if c.Chance(1, 3) {
					for k := 0; k <= c.Intn(2); k++ {
						ranks = append(ranks, strconv.Itoa(sz+k))
					}
				}
				if len(ranks) >= 2 {
					hx.Shuffle(c, ranks)
					kind := hx.Pick(c, []string{"idp", "idv", "idv"})
					if c.Chance(1, 3) {
						kind += "n"
					}
					mode = kind + ":" + strings.Join(ranks, ",")
				}
			}
			st.Inc("page-stores-" + b)
			if strings.HasPrefix(mode, "id") {
				st.Inc("page-stores-" + mode[:strings.IndexByte(mode, ':')])
			}
			emit(fmt.Sprintf("page stores %s %s %d %s %s %s %s", b, enc, sz, permOf(c, sz), subset(c, sz, 1, 6), subset(c, sz, 1, 8), mode))
		default:
			if sz > 120 {
				sz = 120
			}
			st.Inc("page-models-" + b)
			emit(fmt.Sprintf("page models %s %s %d %s", b, enc, sz, permOf(c, sz)))
		}
	}
}

func genTok(c *hx.Rand, b string, emit func(string), st *hx.Stats) {
	n := 3 + c.Intn(12)
	ps := 1 + c.Intn(4)
	api := hx.Pick(c, []string{"read", "changes", "stores", "models"})
	kind := hx.Pick(c, []string{"garbage", "b64junk", "typebound", "typebound", "negoffset", "bigoffset", "foreign", "foreign", "reuse"})
	switch kind {
	case "typebound":
		api = "changes"
		emit(fmt.Sprintf("tok typebound changes %s %d %d %s,%s", b, n, ps, hx.Pick(c, []string{"-", "doc", "folder"}), hx.Pick(c, []string{"-", "doc", "folder", "docx"})))
	case "negoffset":
		emit(fmt.Sprintf("tok negoffset %s m %d %d %d", hx.Pick(c, []string{"read", "read", "stores", "models"}), n, ps, -1-c.Intn(5)))
	case "bigoffset":
		emit(fmt.Sprintf("tok bigoffset %s m %d %d %d", hx.Pick(c, []string{"read", "read", "stores", "models"}), n, ps, n+1+c.Intn(5)))
	case "foreign":
		from := hx.Pick(c, []string{"read", "changes", "stores", "models"})
		emit(fmt.Sprintf("tok foreign %s %s %d %d %s", api, b, n, ps, from))
	case "garbage":
		emit(fmt.Sprintf("tok garbage %s %s %d %d %s", api, b, n, ps, hx.HS(hx.Pick(c, []string{"%%%", "not base64!", "a", "====", "A=B="}))))
	case "b64junk":
		emit(fmt.Sprintf("tok b64junk %s %s %d %d %s", api, b, n, ps, hx.HS(hx.Pick(c, []string{"zzzz", "|", "|doc", "{", "{}", "12x", "+3", " 3", "3|3|3"}))))
	default: // reuse: the token of the first page is presented twice: the same second page both times
		emit(fmt.Sprintf("tok reuse %s %s %d %d", api, b, n, ps))
	}
	st.Inc("tok-" + kind)
}

// ---------------------------------------------------------------- executor

func exec(line string, st *hx.Stats) string {
	f := strings.Fields(line)
	ctx := context.Background()
	salt++
	switch f[0] {
	case "page":
		e := newEnv(f[2], f[3])
		store := ulid.Make().String()
		switch f[1] {
		case "read":
			classes, del := f[4], parseInts(f[5])
			if err := writeTuples(ctx, e.ds, store, classes, del); err != nil {
				return "SETUPERR " + err.Error()
			}
			n := len(strings.TrimPrefix(classes, "-"))
			return allSizes(readPager(ctx, e, store, readFilterKey(f[6], classes)), n, false)
		case "changes":
			classes, del := f[4], parseInts(f[5])
			if err := writeTuples(ctx, e.ds, store, classes, del); err != nil {
				return "SETUPERR " + err.Error()
			}
			n := len(strings.TrimPrefix(classes, "-"))
			return allSizes(changesPager(ctx, e, store, une(f[6]), changeRanks(n, del)), n+len(del), true)
		case "stores":
			n, _ := strconv.Atoi(f[4])
			name := "set-" + store
			rankOf, err := setupStores(ctx, e, n, parseInts(f[5]), parseInts(f[6]), parseInts(f[7]), name)
			if err != nil {
				return "SETUPERR " + err.Error()
			}
			idsAt := fixedIDs(nil)
			reqName := name
			if f[8] == "all" {
				reqName = ""
			} else if k := strings.IndexByte(f[8], ':'); k > 0 {
				kind := f[8][:k] // ids | idp | idv, with a trailing n: the name filter as well
				var ids []string
				for _, r := range parseInts(f[8][k+1:]) {
					ids = append(ids, ulidAt(r))
				}
				if !strings.HasSuffix(kind, "n") {
					reqName = ""
				}
				if strings.HasPrefix(kind, "idv") {
					idsAt = varyIDs(ids)
				} else {
					idsAt = fixedIDs(ids)
				}
			}
			return allSizes(storesPager(ctx, e, reqName, idsAt, rankOf), n, false)
		case "models":
			n, _ := strconv.Atoi(f[4])
			rankOf, err := setupModels(ctx, e, store, parseInts(f[5]))
			if err != nil {
				return "SETUPERR " + err.Error()
			}
			return allSizes(modelsPager(ctx, e, store, rankOf), n, false)
		}
	case "tok":
		return execTok(ctx, f)
	case "conc":
		if len(f) == 7 && f[1] == "changes" && f[2] == "m" {
			return execConc(ctx, f)
		}
	}
	return "BADCASE"
}

// execConc: see the header.  Everything printed is independent of the schedule as long as the changelog is in ULID order.
func execConc(ctx context.Context, f []string) string {
	e := newEnv("m", f[3])
	writers, _ := strconv.Atoi(f[4])
	per, _ := strconv.Atoi(f[5])
	pre, _ := strconv.Atoi(f[6])
	if writers < 1 || writers > 64 || per < 1 || per > 1000 || pre < 0 || pre > 5000 {
		return "BADCASE"
	}
	store := ulid.Make().String()
	want := map[string]bool{}
	for i := 0; i < pre; i += 100 {
		var w storage.Writes
		for j := i; j < pre && j < i+100; j++ {
			o := fmt.Sprintf("doc:p%d", j)
			want[o] = true
			w = append(w, &openfgav1.TupleKey{Object: o, Relation: "viewer", User: "user:u0"})
		}
		if err := e.ds.Write(ctx, store, nil, w); err != nil {
			return "SETUPERR " + err.Error()
		}
	}
	for w := 0; w < writers; w++ {
		for j := 0; j < per; j++ {
			want[fmt.Sprintf("doc:w%dx%d", w, j)] = true
		}
	}
	var wg sync.WaitGroup
	start := make(chan struct{})
	errs := make([]error, writers)
	for w := 0; w < writers; w++ {
		wg.Add(1)
		go func(w int) {
			defer wg.Done()
			<-start
			for j := 0; j < per; j++ {
				tk := &openfgav1.TupleKey{Object: fmt.Sprintf("doc:w%dx%d", w, j), Relation: "viewer", User: "user:u1"}
				if err := e.ds.Write(ctx, store, nil, storage.Writes{tk}); err != nil {
					errs[w] = err
					return
				}
			}
		}(w)
	}
	close(start)
	wg.Wait()
	for _, err := range errs {
		if err != nil {
			return "SETUPERR " + err.Error()
		}
	}
	n := len(want)
	q := commands.NewReadChangesQuery(e.ds, commands.WithReadChangesQueryEncoder(e.enc), commands.WithContinuationTokenSerializer(e.ser), commands.WithReadChangeQueryHorizonOffset(0))
	page := func(ps int, tok string) ([]string, string, error) {
		resp, err := q.Execute(ctx, &openfgav1.ReadChangesRequest{StoreId: store, PageSize: wrapperspb.Int32(int32(ps)), ContinuationToken: tok})
		if err != nil {
			return nil, "", err
		}
		var objs []string
		for _, c := range resp.GetChanges() {
			objs = append(objs, c.GetTupleKey().GetObject())
		}
		return objs, resp.GetContinuationToken(), nil
	}
	// the whole log in one page
	full, _, err := page(n+5, "")
	if err != nil {
		return "n=0 sorted=true single=" + errKind(err) + " paged=ok"
	}
	single := "ok"
	seen := map[string]bool{}
	for _, o := range full {
		if seen[o] || !want[o] {
			single = "dup-or-foreign"
		}
		seen[o] = true
	}
	if single == "ok" && len(full) != n {
		single = fmt.Sprintf("lost%d", n-len(full))
	}
	// the ULID of entry k (log order) is the token of the first page of size k (storage level)
	sorted := true
	prev := ""
	for k := 1; k <= len(full); k++ {
		_, tok, err := e.ds.ReadChanges(ctx, store, storage.ReadChangesFilter{}, storage.ReadChangesOptions{Pagination: storage.NewPaginationOptions(int32(k), "")})
		if err != nil {
			return "n=" + strconv.Itoa(len(full)) + " sorted=true single=" + single + " paged=ulid-read-failed"
		}
		if prev != "" && !(prev < tok) {
			sorted = false
		}
		prev = tok
	}
	// small pages must concatenate to the single page
	paged := "ok"
	for _, ps := range []int{1, 2, 3, 7, n/2 + 1} {
		var got []string
		tok := ""
		for k := 0; k <= 2*n+6; k++ {
			objs, next, err := page(ps, tok)
			if err != nil {
				got = append(got, errKind(err))
				break
			}
			if len(objs) == 0 {
				break
			}
			got = append(got, objs...)
			tok = next
		}
		same := len(got) == len(full)
		for i := 0; same && i < len(got); i++ {
			same = got[i] == full[i]
		}
		if !same {
			paged = fmt.Sprintf("ps%d:got%dof%d", ps, len(got), len(full))
			break
		}
	}
	return fmt.Sprintf("n=%d sorted=%v single=%s paged=%s", len(full), sorted, single, paged)
}

func une(s string) string {
	if s == "-" {
		return ""
	}
	return s
}

// a data set with n items for `api` on backend b: returns the pager (with an optional ReadChanges type)
func dataset(ctx context.Context, e env, api string, n int, typ string) (pager, error) {
	salt++
	store := ulid.Make().String()
	classes := strings.Repeat("ae", n/2+1)[:n]
	switch api {
	case "read":
		if err := writeTuples(ctx, e.ds, store, classes, nil); err != nil {
			return nil, err
		}
		return readPager(ctx, e, store, nil), nil
	case "changes":
		if err := writeTuples(ctx, e.ds, store, classes, nil); err != nil {
			return nil, err
		}
		return changesPager(ctx, e, store, typ, changeRanks(n, nil)), nil
	case "stores":
		perm := make([]int, n)
		for i := range perm {
			perm[i] = i
		}
		name := "set-" + store
		rankOf, err := setupStores(ctx, e, n, perm, nil, nil, name)
		if err != nil {
			return nil, err
		}
		return storesPager(ctx, e, name, fixedIDs(nil), rankOf), nil
	default:
		perm := make([]int, n)
		for i := range perm {
			perm[i] = i
		}
		rankOf, err := setupModels(ctx, e, store, perm)
		if err != nil {
			return nil, err
		}
		return modelsPager(ctx, e, store, rankOf), nil
	}
}

func one(p pager, ps int, tok string) string {
	r, next, err := p(int32(ps), tok)
	if err != nil {
		return errKind(err)
	}
	more := "end"
	if next != "" {
		more = "more"
	}
	return "page:" + fmtPage(r) + ":" + more
}

func execTok(ctx context.Context, f []string) string {
	kind, api, b := f[1], f[2], f[3]
	n, _ := strconv.Atoi(f[4])
	ps, _ := strconv.Atoi(f[5])
	e := newEnv(b, "b")
	b64 := encoder.NewBase64Encoder()
	switch kind {
	case "garbage":
		p, err := dataset(ctx, e, api, n, "")
		if err != nil {
			return "SETUPERR " + err.Error()
		}
		return one(p, ps, string(hx.MustUnH(f[6])))
	case "b64junk":
		p, err := dataset(ctx, e, api, n, "")
		if err != nil {
			return "SETUPERR " + err.Error()
		}
		tok, _ := b64.Encode(hx.MustUnH(f[6]))
		return one(p, ps, tok)
	case "negoffset", "bigoffset":
		p, err := dataset(ctx, e, api, n, "")
		if err != nil {
			return "SETUPERR " + err.Error()
		}
		raw := f[6]
		if api == "read" {
			raw += "|"
		}
		tok, _ := b64.Encode([]byte(raw))
		return one(p, ps, tok)
	case "typebound":
		ts := strings.Split(f[6], ",")
		t1, t2 := une(ts[0]), une(ts[1])
		store := ulid.Make().String()
		classes := strings.Repeat("ae", n/2+1)[:n]
		if err := writeTuples(ctx, e.ds, store, classes, nil); err != nil {
			return "SETUPERR " + err.Error()
		}
		p1 := changesPager(ctx, e, store, t1, changeRanks(n, nil))
		_, tok, err := p1(int32(ps), "")
		if err != nil {
			return "first:" + errKind(err)
		}
		if tok == "" {
			return "first:notoken"
		}
		p2 := changesPager(ctx, e, store, t2, changeRanks(n, nil))
		return one(p2, ps, tok)
	case "foreign":
		// a token issued by API `from` (first page, page size ps) presented to `api`
		from := f[6]
		pf, err := dataset(ctx, e, from, n, "")
		if err != nil {
			return "SETUPERR " + err.Error()
		}
		_, tok, err := pf(int32(ps), "")
		if err != nil {
			return "first:" + errKind(err)
		}
		if tok == "" {
			return "first:notoken"
		}
		p, err := dataset(ctx, e, api, n, "")
		if err != nil {
			return "SETUPERR " + err.Error()
		}
		return one(p, ps, tok)
	case "reuse":
		p, err := dataset(ctx, e, api, n, "")
		if err != nil {
			return "SETUPERR " + err.Error()
		}
		_, tok, err := p(int32(ps), "")
		if err != nil {
			return "first:" + errKind(err)
		}
		if tok == "" {
			return "first:notoken"
		}
		a := one(p, ps, tok)
		bb := one(p, ps, tok)
		if a != bb {
			return "differs " + a + " " + bb
		}
		return a
	}
	return "BADCASE"
}

var _ = sort.Ints

func main() {
	defer cleanup()
	hx.Main(hx.Harness{Gen: gen, Exec: exec})
}
