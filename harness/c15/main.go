// Harness for C15 (the changelog faithfully records tuple history): random write histories over the C12 tuple
// universe against the real memory and sqlite datastores; after every write the tuples and the whole changelog are
// dumped, at the end the changelog is read ascending, descending, per object type, with horizons (everything
// withheld; a horizon that falls into a pause made in the middle of the history) and page by page.
//
// case line:   C <backend> <tok>...       tok = w;<on_missing>;<on_duplicate>;<deletes>;<writes>  |  cut
//
// output: one group "<result>;<tuples>;<changelog>" per write, then one group
//
//	R;<asc>;<desc>;<doc asc>;<folder asc>;<do asc>;<doc desc>;<horizon 1h>;<horizon cut asc>;<horizon cut doc desc>;<paged 2 asc>;<paged 3 desc>;<paged 1 doc asc>;
//	  <datastore paged 2 with horizon cut>;<query paged 1>;<its horizon trace>;<query paged 2 doc>;<its horizon trace>
//
// (the horizon-cut fields are "-" when the case has no cut).  The two "query" reads go through commands.ReadChangesQuery
// configured with a horizon (storew.QueryPaged): the client follows the continuation tokens; with a cut the horizon
// falls into the pause, without one it is zero.  Nothing printed is a ULID or a timestamp.
//
// case line:   W mem <writers> <writes per writer> <prefill> <page size>      concurrent writers, see storew.ConcurrentWrites
package main

import (
	"fmt"
	"strconv"
	"strings"
	"time"

	"github.com/openfga/openfga/verifharness/hx"
	"github.com/openfga/openfga/verifharness/storew"
)

// pause on each side of the cut; the horizon handed to ReadChanges is measured from the middle
const margin = 40 * time.Millisecond

func gen(r *hx.Rand, n int, tier string, emit func(string), st *hx.Stats) {
	maxOps := 9
	if tier == "thorough" {
		maxOps = 20
	}
	for i := 0; i < n; i++ {
		c := r.Fork()
		if i%50 == 37 {
			st.Inc("concurrent-writers")
			emit(fmt.Sprintf("W mem %d %d %d %d", 16+c.Intn(17), 8+c.Intn(7), 1200+100*c.Intn(9), hx.Pick(c, []int{2, 3, 7, 16, 50})))
			continue
		}
		backend := hx.Pick(c, []string{"mem", "mem", "sql", "sql", "cmdmem", "cmdsql"})
		cmd := strings.HasPrefix(backend, "cmd")
		odd := c.Chance(1, 4)
		nops := 2 + c.Intn(maxOps)
		cutAt := -1
		if c.Chance(2, 5) {
			cutAt = 1 + c.Intn(nops)
		}
		g := storew.NewGenState()
		toks := make([]string, 0, nops+1)
		for j := 0; j < nops; j++ {
			if j == cutAt {
				toks = append(toks, "cut")
			}
			toks = append(toks, storew.GenOp(c, cmd, odd, g).String())
		}
		if cutAt == nops {
			toks = append(toks, "cut")
		}
		st.Inc("hist-" + backend)
		if cutAt >= 0 {
			st.Inc("with-horizon-cut")
		}
		emit("C " + backend + " " + strings.Join(toks, " "))
	}
}

func exec1(line string, st *hx.Stats) string {
	f := strings.Fields(line)
	if f[0] == "W" && len(f) == 6 {
		a := make([]int, 4)
		for i := range a {
			a[i], _ = strconv.Atoi(f[2+i])
		}
		return strings.ReplaceAll(storew.NewSession(f[1]).ConcurrentWrites(a[0], a[1], a[2], a[3]), " ", ";")
	}
	if f[0] != "C" {
		return "badcase"
	}
	s := storew.NewSession(f[1])
	var outs []string
	var cut time.Time
	hasCut := false
	for _, tok := range f[2:] {
		if tok == "cut" {
			time.Sleep(margin)
			cut = time.Now()
			hasCut = true
			time.Sleep(margin)
			continue
		}
		res := s.Write(storew.ParseOp(tok))
		outs = append(outs, res+";"+s.State())
	}
	r := []string{"R",
		s.Changes("", 0, false), s.Changes("", 0, true),
		s.Changes("doc", 0, false), s.Changes("folder", 0, false), s.Changes("do", 0, false), s.Changes("doc", 0, true),
		s.Changes("", time.Hour, false)}
	if hasCut {
		r = append(r, s.Changes("", time.Since(cut), false), s.Changes("doc", time.Since(cut), true))
	} else {
		r = append(r, "-", "-")
	}
	r = append(r, s.ChangesPaged("", 2, false), s.ChangesPaged("", 3, true), s.ChangesPaged("doc", 1, false))
	real := func() time.Duration { return 0 }
	if hasCut {
		real = func() time.Duration { return time.Since(cut) }
		r = append(r, s.ChangesPagedH("", 2, real))
	} else {
		r = append(r, "-")
	}
	q1, t1 := s.QueryPaged("", 1, real)
	q2, t2 := s.QueryPaged("doc", 2, real)
	r = append(r, q1, t1, q2, t2)
	outs = append(outs, strings.Join(r, ";"))
	return strings.Join(outs, " ")
}

func main() {
	defer storew.Cleanup()
	hx.Main(hx.Harness{Gen: gen, Exec: exec1})
}
