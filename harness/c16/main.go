// Harness for C16 (stores are isolated from each other).
//
// One case = an interleaved history over 3 stores that reuse the same type, relation, object, user and condition names
// (the same few model variants), run through ONE in-process server with every cache enabled (check query cache, check and
// list-objects iterator caches, shared iterators, model cache, typesystem cache; both engines), and then — on a fresh
// server each — the projection of the history on each store, run alone.  The executor prints every answer of the
// interleaved run tagged with its store, and the answers of the three solo runs; the property is that they are equal.
//
// ops:  wt s o r u [c]   write tuple            dt s o r u   delete tuple          ck s o r u hc   Check (hc=1: HIGHER_CONSISTENCY)
//       lo s t r u       ListObjects            lu s o r     ListUsers (type user) rd s o r u      Read (empty fields = "-")
//       rc s             ReadChanges            wm s v       write model variant   rm s            ReadAuthorizationModels (ranks)
//       wa s o r u e     write assertions       ra s         read assertions       gs s            GetStore
//       ls s             ListStores (which of this case's stores are listed)       ds s            DeleteStore
//       ex s o r         Expand                 ln s             ListStores with the store's own name as filter
//
// `iso` runs on the memory backend, `isq` (same format) on a fresh sqlite database per run.  `st …` = storage-level
// histories on both backends (store.go), `sf …` = overlapping typesystem resolutions over a slow datastore (harness/sfres).
package main

import (
	"context"
	"fmt"
	"sort"
	"strconv"
	"strings"
	"time"

	openfgav1 "github.com/openfga/api/proto/openfga/v1"
	parser "github.com/openfga/language/pkg/go/transformer"
	"google.golang.org/protobuf/types/known/structpb"

	"github.com/openfga/openfga/pkg/server"
	"github.com/openfga/openfga/pkg/storage"
	"github.com/openfga/openfga/verifharness/fga"
	"github.com/openfga/openfga/verifharness/hx"
	"github.com/openfga/openfga/verifharness/sfres"
)

// model variants: same names everywhere, different meanings
var variants = []string{
	`model
  schema 1.1
type user
type group
  relations
    define member: [user, group#member]
type doc
  relations
    define parent: [doc]
    define owner: [user]
    define editor: [user, group#member] or owner
    define viewer: [user, user:*, group#member] or editor or viewer from parent
`,
	`model
  schema 1.1
type user
type group
  relations
    define member: [user]
type doc
  relations
    define parent: [doc]
    define owner: [user, group#member]
    define editor: [user] or owner
    define viewer: [user with c1, group#member] or editor
condition c1(x: int) {
  x < 10
}
`,
	`model
  schema 1.1
type user
type group
  relations
    define member: [user, user:*]
type doc
  relations
    define parent: [doc]
    define owner: [user]
    define editor: [group#member]
    define viewer: [user] or owner or editor from parent
`,
}

var objs = []string{"doc:1", "doc:2", "doc:3", "group:a", "group:b"}
var users = []string{"user:x", "user:y", "user:z", "user:*", "group:a#member", "group:b#member", "doc:1", "doc:2"}
var relsByType = map[string][]string{"doc": {"parent", "owner", "editor", "viewer"}, "group": {"member"}}

func dash(s string) string {
	if s == "" {
		return "-"
	}
	return s
}

func undash(s string) string {
	if s == "-" {
		return ""
	}
	return s
}

func gen(r *hx.Rand, n int, tier string, emit func(string), st *hx.Stats) {
	for i := 0; i < n; i++ {
		c := r.Fork()
		kind := "iso"
		switch p := c.Intn(100); {
		case p < 28:
		case p < 33:
			kind = "isq"
		case p < 63:
			emit(genStore(c, st, "m"))
			continue
		case p < 81:
			emit(genStore(c, st, "s"))
			continue
		default:
			st.Inc("resolver-flights")
			emit(sfres.Gen(c, false))
			continue
		}
		nops := 20 + c.Intn(25)
		if kind == "isq" {
			nops = 10 + c.Intn(12) // four sqlite-backed servers per case: shorter histories
		}
		var ops []string
		// every store starts with a model (possibly different variants)
		for s := 0; s < 3; s++ {
			ops = append(ops, fmt.Sprintf("wm %d %d", s, c.Intn(len(variants))))
		}
		// a pool of tuples reused across stores so that the same keys appear in several stores with different fates
		type tup struct{ o, r, u string }
		curated := []tup{{"group:a", "member", "user:x"}, {"group:a", "member", "user:y"}, {"group:b", "member", "user:z"}, {"group:a", "member", "group:b#member"},
			{"group:a", "member", "user:*"}, {"doc:1", "owner", "user:x"}, {"doc:1", "owner", "group:a#member"}, {"doc:1", "editor", "user:y"},
			{"doc:1", "editor", "group:a#member"}, {"doc:1", "viewer", "user:z"}, {"doc:1", "viewer", "user:*"}, {"doc:1", "viewer", "group:b#member"},
			{"doc:2", "parent", "doc:1"}, {"doc:3", "parent", "doc:2"}, {"doc:2", "owner", "user:y"}, {"doc:2", "viewer", "user:x"}, {"doc:3", "editor", "group:b#member"}}
		var pool []tup
		for k := 0; k < 12; k++ {
			if c.Chance(3, 4) {
				pool = append(pool, hx.Pick(c, curated))
				continue
			}
			o := hx.Pick(c, objs)
			pool = append(pool, tup{o, hx.Pick(c, relsByType[fga.TypeOf(o)]), hx.Pick(c, users)})
		}
		deleted := -1
		written := map[int][]tup{}
		for k := 0; k < nops; k++ {
			s := c.Intn(3)
			t := hx.Pick(c, pool)
			switch p := c.Intn(50); {
			case p >= 46:
				// a question about a tuple this store was given (direct hit if the write was accepted), put to EVERY store
				if len(written[s]) == 0 {
					ops = append(ops, fmt.Sprintf("wt %d %s %s %s -", s, t.o, t.r, t.u))
					written[s] = append(written[s], t)
					break
				}
				w := hx.Pick(c, written[s])
				perm := []int{0, 1, 2}
				hx.Shuffle(c, perm)
				for _, s2 := range perm {
					if fga.TypeOf(w.o) == "doc" && !strings.Contains(w.u, "#") && w.u != "user:*" && c.Bool() {
						ops = append(ops, fmt.Sprintf("lo %d doc %s %s", s2, w.r, w.u))
					} else {
						ops = append(ops, fmt.Sprintf("ck %d %s %s %s %d", s2, w.o, w.r, w.u, c.Intn(2)))
					}
				}
			case p >= 40:
				ops = append(ops, fmt.Sprintf("wt %d %s %s %s -", s, t.o, t.r, t.u))
				written[s] = append(written[s], t)
			case p < 10:
				cond := "-"
				if c.Chance(1, 5) {
					cond = "c1"
				}
				ops = append(ops, fmt.Sprintf("wt %d %s %s %s %s", s, t.o, t.r, t.u, cond))
				written[s] = append(written[s], t)
			case p < 13:
				ops = append(ops, fmt.Sprintf("dt %d %s %s %s", s, t.o, t.r, t.u))
			case p < 16:
				// the SAME cacheable question put to every store in a row: a cache entry of one store must not answer another
				o := hx.Pick(c, []string{"doc:1", "doc:2", "doc:3"})
				rel := hx.Pick(c, relsByType["doc"])
				u := hx.Pick(c, []string{"user:x", "user:y", "user:z"})
				perm := []int{0, 1, 2}
				hx.Shuffle(c, perm)
				for _, s2 := range perm {
					if c.Bool() {
						ops = append(ops, fmt.Sprintf("ck %d %s %s %s 0", s2, o, rel, u))
					} else {
						ops = append(ops, fmt.Sprintf("lo %d doc %s %s", s2, rel, u))
					}
				}
			case p < 21:
				o := hx.Pick(c, objs)
				ops = append(ops, fmt.Sprintf("ck %d %s %s %s %d", s, o, hx.Pick(c, relsByType[fga.TypeOf(o)]), hx.Pick(c, []string{"user:x", "user:y", "user:z", "group:a#member"}), c.Intn(2)))
			case p < 25:
				ops = append(ops, fmt.Sprintf("lo %d doc %s %s", s, hx.Pick(c, relsByType["doc"]), hx.Pick(c, []string{"user:x", "user:y", "user:z"})))
			case p < 27:
				o := hx.Pick(c, objs)
				ops = append(ops, fmt.Sprintf("lu %d %s %s", s, o, hx.Pick(c, relsByType[fga.TypeOf(o)])))
			case p < 30:
				switch c.Intn(3) {
				case 0:
					ops = append(ops, fmt.Sprintf("rd %d - - -", s))
				case 1:
					ops = append(ops, fmt.Sprintf("rd %d %s %s -", s, t.o, t.r))
				default:
					ops = append(ops, fmt.Sprintf("rd %d %s: - %s", s, fga.TypeOf(t.o), hx.Pick(c, []string{"user:x", "user:y"})))
				}
			case p < 32:
				ops = append(ops, fmt.Sprintf("rc %d", s))
			case p < 34:
				ops = append(ops, fmt.Sprintf("wm %d %d", s, c.Intn(len(variants))))
			case p < 35:
				ops = append(ops, fmt.Sprintf("rm %d", s))
			case p < 36:
				ops = append(ops, fmt.Sprintf("wa %d %s %s %s %d", s, t.o, t.r, hx.Pick(c, []string{"user:x", "user:y"}), c.Intn(2)))
			case p < 37:
				ops = append(ops, fmt.Sprintf("ra %d", s))
			case p < 38:
				ops = append(ops, fmt.Sprintf("gs %d", s))
			case p < 39:
				ops = append(ops, fmt.Sprintf("%s %d", hx.Pick(c, []string{"ls", "ln"}), s))
			default:
				if deleted < 0 && k > nops/2 {
					deleted = s
					ops = append(ops, fmt.Sprintf("ds %d", s), fmt.Sprintf("ln %d", s))
				} else {
					o := hx.Pick(c, objs)
					ops = append(ops, fmt.Sprintf("ex %d %s %s", s, o, hx.Pick(c, relsByType[fga.TypeOf(o)])))
				}
			}
		}
		for s := 0; s < 3; s++ {
			ops = append(ops, fmt.Sprintf("gs %d", s), fmt.Sprintf("ls %d", s), fmt.Sprintf("ln %d", s), fmt.Sprintf("rd %d - - -", s))
		}
		engine := c.Intn(2)
		emit(fmt.Sprintf("%s %d %d %s", kind, engine, len(ops), strings.Join(ops, " ")))
		st.Inc(fmt.Sprintf("%s-engine-%d", kind, engine))
		if deleted >= 0 {
			st.Inc("with-delete-store")
		}
	}
}

// ---------------------------------------------------------------- executor

type op struct {
	kind string
	s    int
	a    []string
}

var arity = map[string]int{"wt": 4, "dt": 3, "ck": 4, "lo": 3, "lu": 2, "rd": 3, "rc": 0, "wm": 1, "rm": 0, "wa": 4, "ra": 0, "gs": 0, "ls": 0, "ln": 0, "ds": 0, "ex": 2}

func parseOps(t *fga.Toks) []op {
	n := t.Int()
	out := make([]op, 0, n)
	for i := 0; i < n; i++ {
		k := t.Next()
		o := op{kind: k, s: t.Int()}
		for j := 0; j < arity[k]; j++ {
			o.a = append(o.a, t.Next())
		}
		out = append(out, o)
	}
	return out
}

func newServer(engine int, ds storage.OpenFGADatastore) *server.Server {
	opts := []server.OpenFGAServiceV1Option{
		server.WithDatastore(ds),
		server.WithCheckQueryCacheEnabled(true), server.WithCheckCacheLimit(100000), server.WithCheckQueryCacheTTL(time.Hour),
		server.WithCheckIteratorCacheEnabled(true), server.WithCheckIteratorCacheMaxResults(10000), server.WithCheckIteratorCacheTTL(time.Hour),
		server.WithListObjectsIteratorCacheEnabled(true), server.WithListObjectsIteratorCacheMaxResults(10000), server.WithListObjectsIteratorCacheTTL(time.Hour),
		server.WithSharedIteratorEnabled(true),
		server.WithListObjectsDeadline(20 * time.Second), server.WithListUsersDeadline(20 * time.Second),
	}
	if engine == 1 {
		opts = append(opts, server.WithExperimentals("weighted_graph_check"))
	}
	return server.MustNewServerWithOpts(opts...)
}

var modelProtos []*openfgav1.AuthorizationModel

func variant(i int) *openfgav1.AuthorizationModel {
	if modelProtos == nil {
		for _, v := range variants {
			modelProtos = append(modelProtos, parser.MustTransformDSLToProto(v))
		}
	}
	return modelProtos[i]
}

type storeRun struct {
	id     string
	models []string
}

func short(err error) string {
	s := err.Error()
	switch {
	case strings.Contains(s, "not found") || strings.Contains(s, "Not Found") || strings.Contains(s, "No authorization models"):
		return "E:notfound"
	case strings.Contains(s, "already exists") || strings.Contains(s, "does not exist"):
		return "E:conflict"
	case strings.Contains(s, "Invalid tuple") || strings.Contains(s, "invalid") || strings.Contains(s, "Invalid"):
		return "E:invalid"
	}
	return "E:other"
}

func tkStr(k *openfgav1.TupleKey) string {
	s := k.GetObject() + "#" + k.GetRelation() + "@" + k.GetUser()
	if k.GetCondition() != nil {
		s += "/" + k.GetCondition().GetName()
	}
	return s
}

// runOps executes `ops` (only those whose store index is in `only`, nil = all) on a fresh server and returns one answer per
// executed op, in order.
func runOps(backend string, engine int, ops []op, only map[int]bool) []string {
	ds, done := newDatastore(backend)
	defer done()
	s := newServer(engine, ds)
	defer s.Close()
	ctx := context.Background()
	stores := map[int]*storeRun{}
	caseStores := map[string]int{}
	for i := 0; i < 3; i++ {
		if only != nil && !only[i] {
			continue
		}
		cs, err := s.CreateStore(ctx, &openfgav1.CreateStoreRequest{Name: fmt.Sprintf("c16-%d", i)})
		if err != nil {
			panic(err)
		}
		stores[i] = &storeRun{id: cs.GetId()}
		caseStores[cs.GetId()] = i
	}
	var out []string
	for _, o := range ops {
		if only != nil && !only[o.s] {
			continue
		}
		sr := stores[o.s]
		res := ""
		switch o.kind {
		case "wm":
			v, _ := strconv.Atoi(o.a[0])
			m := variant(v)
			resp, err := s.WriteAuthorizationModel(ctx, &openfgav1.WriteAuthorizationModelRequest{StoreId: sr.id, SchemaVersion: m.SchemaVersion, TypeDefinitions: m.TypeDefinitions, Conditions: m.Conditions})
			if err != nil {
				res = short(err)
			} else {
				sr.models = append(sr.models, resp.GetAuthorizationModelId())
				res = fmt.Sprintf("ok:%d", len(sr.models)-1)
			}
		case "wt":
			tk := &openfgav1.TupleKey{Object: o.a[0], Relation: o.a[1], User: o.a[2]}
			if o.a[3] != "-" {
				cs, _ := structpb.NewStruct(map[string]any{"x": 5})
				tk.Condition = &openfgav1.RelationshipCondition{Name: o.a[3], Context: cs}
			}
			_, err := s.Write(ctx, &openfgav1.WriteRequest{StoreId: sr.id, Writes: &openfgav1.WriteRequestWrites{TupleKeys: []*openfgav1.TupleKey{tk}}})
			if err != nil {
				res = short(err)
			} else {
				res = "ok"
			}
		case "dt":
			_, err := s.Write(ctx, &openfgav1.WriteRequest{StoreId: sr.id, Deletes: &openfgav1.WriteRequestDeletes{TupleKeys: []*openfgav1.TupleKeyWithoutCondition{{Object: o.a[0], Relation: o.a[1], User: o.a[2]}}}})
			if err != nil {
				res = short(err)
			} else {
				res = "ok"
			}
		case "ck":
			req := &openfgav1.CheckRequest{StoreId: sr.id, TupleKey: &openfgav1.CheckRequestTupleKey{Object: o.a[0], Relation: o.a[1], User: o.a[2]}}
			if o.a[3] == "1" {
				req.Consistency = openfgav1.ConsistencyPreference_HIGHER_CONSISTENCY
			}
			resp, err := s.Check(ctx, req)
			switch {
			case err != nil:
				res = short(err)
			case resp.GetAllowed():
				res = "T"
			default:
				res = "F"
			}
		case "lo":
			resp, err := s.ListObjects(ctx, &openfgav1.ListObjectsRequest{StoreId: sr.id, Type: o.a[0], Relation: o.a[1], User: o.a[2]})
			if err != nil {
				res = short(err)
			} else {
				l := append([]string{}, resp.GetObjects()...)
				sort.Strings(l)
				res = "[" + strings.Join(l, ",") + "]"
			}
		case "lu":
			obj := strings.SplitN(o.a[0], ":", 2)
			resp, err := s.ListUsers(ctx, &openfgav1.ListUsersRequest{StoreId: sr.id, Object: &openfgav1.Object{Type: obj[0], Id: obj[1]}, Relation: o.a[1], UserFilters: []*openfgav1.UserTypeFilter{{Type: "user"}}})
			if err != nil {
				res = short(err)
			} else {
				var l []string
				for _, u := range resp.GetUsers() {
					switch {
					case u.GetObject() != nil:
						l = append(l, u.GetObject().GetType()+":"+u.GetObject().GetId())
					case u.GetWildcard() != nil:
						l = append(l, u.GetWildcard().GetType()+":*")
					case u.GetUserset() != nil:
						l = append(l, u.GetUserset().GetType()+":"+u.GetUserset().GetId()+"#"+u.GetUserset().GetRelation())
					}
				}
				sort.Strings(l)
				res = "[" + strings.Join(l, ",") + "]"
			}
		case "rd":
			req := &openfgav1.ReadRequest{StoreId: sr.id}
			if o.a[0] != "-" || o.a[1] != "-" || o.a[2] != "-" {
				req.TupleKey = &openfgav1.ReadRequestTupleKey{Object: undash(o.a[0]), Relation: undash(o.a[1]), User: undash(o.a[2])}
			}
			var l []string
			bad := ""
			for {
				resp, err := s.Read(ctx, req)
				if err != nil {
					bad = short(err)
					break
				}
				for _, t := range resp.GetTuples() {
					l = append(l, tkStr(t.GetKey()))
				}
				if resp.GetContinuationToken() == "" {
					break
				}
				req.ContinuationToken = resp.GetContinuationToken()
			}
			if bad != "" {
				res = bad
			} else {
				sort.Strings(l)
				res = "[" + strings.Join(l, ",") + "]"
			}
		case "rc":
			req := &openfgav1.ReadChangesRequest{StoreId: sr.id}
			var l []string
			bad := ""
			for page := 0; page < 50; page++ {
				resp, err := s.ReadChanges(ctx, req)
				if err != nil {
					bad = short(err)
					break
				}
				for _, c := range resp.GetChanges() {
					opn := "W"
					if c.GetOperation() == openfgav1.TupleOperation_TUPLE_OPERATION_DELETE {
						opn = "D"
					}
					l = append(l, opn+tkStr(c.GetTupleKey()))
				}
				if len(resp.GetChanges()) == 0 || resp.GetContinuationToken() == "" || resp.GetContinuationToken() == req.ContinuationToken {
					break
				}
				req.ContinuationToken = resp.GetContinuationToken()
			}
			if bad != "" {
				res = bad
			} else {
				res = "[" + strings.Join(l, ",") + "]"
			}
		case "rm":
			resp, err := s.ReadAuthorizationModels(ctx, &openfgav1.ReadAuthorizationModelsRequest{StoreId: sr.id})
			if err != nil {
				res = short(err)
			} else {
				var l []string
				for _, m := range resp.GetAuthorizationModels() {
					rk := "?"
					for i, id := range sr.models {
						if id == m.GetId() {
							rk = strconv.Itoa(i)
						}
					}
					l = append(l, rk)
				}
				res = "[" + strings.Join(l, ",") + "]"
			}
		case "wa":
			if len(sr.models) == 0 {
				res = "nomodel"
				break
			}
			_, err := s.WriteAssertions(ctx, &openfgav1.WriteAssertionsRequest{StoreId: sr.id, AuthorizationModelId: sr.models[len(sr.models)-1],
				Assertions: []*openfgav1.Assertion{{TupleKey: &openfgav1.AssertionTupleKey{Object: o.a[0], Relation: o.a[1], User: o.a[2]}, Expectation: o.a[3] == "1"}}})
			if err != nil {
				res = short(err)
			} else {
				res = "ok"
			}
		case "ra":
			if len(sr.models) == 0 {
				res = "nomodel"
				break
			}
			resp, err := s.ReadAssertions(ctx, &openfgav1.ReadAssertionsRequest{StoreId: sr.id, AuthorizationModelId: sr.models[len(sr.models)-1]})
			if err != nil {
				res = short(err)
			} else {
				var l []string
				for _, a := range resp.GetAssertions() {
					l = append(l, fmt.Sprintf("%s#%s@%s=%v", a.GetTupleKey().GetObject(), a.GetTupleKey().GetRelation(), a.GetTupleKey().GetUser(), a.GetExpectation()))
				}
				res = "[" + strings.Join(l, ",") + "]"
			}
		case "gs":
			resp, err := s.GetStore(ctx, &openfgav1.GetStoreRequest{StoreId: sr.id})
			if err != nil {
				res = short(err)
			} else {
				res = "name=" + resp.GetName()
			}
		case "ls", "ln":
			// is MY store listed? (other stores of the case are reported by their own ops)
			listed := false
			tok := ""
			bad := ""
			name := ""
			if o.kind == "ln" {
				name = fmt.Sprintf("c16-%d", o.s)
			}
			for {
				resp, err := s.ListStores(ctx, &openfgav1.ListStoresRequest{ContinuationToken: tok, Name: name})
				if err != nil {
					bad = short(err)
					break
				}
				for _, x := range resp.GetStores() {
					if x.GetId() == sr.id {
						listed = true
					}
				}
				tok = resp.GetContinuationToken()
				if tok == "" {
					break
				}
			}
			if bad != "" {
				res = bad
			} else {
				res = fmt.Sprintf("listed=%v", listed)
			}
		case "ds":
			_, err := s.DeleteStore(ctx, &openfgav1.DeleteStoreRequest{StoreId: sr.id})
			if err != nil {
				res = short(err)
			} else {
				res = "ok"
			}
		case "ex":
			resp, err := s.Expand(ctx, &openfgav1.ExpandRequest{StoreId: sr.id, TupleKey: &openfgav1.ExpandRequestTupleKey{Object: o.a[0], Relation: o.a[1]}})
			if err != nil {
				res = short(err)
			} else {
				// the leaf users of the root, sorted
				var users []string
				var walk func(n *openfgav1.UsersetTree_Node)
				walk = func(n *openfgav1.UsersetTree_Node) {
					if n == nil {
						return
					}
					if l := n.GetLeaf(); l != nil {
						users = append(users, l.GetUsers().GetUsers()...)
						if c := l.GetComputed(); c != nil {
							users = append(users, "cu:"+c.GetUserset())
						}
						if t := l.GetTupleToUserset(); t != nil {
							for _, c := range t.GetComputed() {
								users = append(users, "ttu:"+c.GetUserset())
							}
						}
					}
					for _, c := range n.GetUnion().GetNodes() {
						walk(c)
					}
					for _, c := range n.GetIntersection().GetNodes() {
						walk(c)
					}
					if d := n.GetDifference(); d != nil {
						walk(d.GetBase())
						walk(d.GetSubtract())
					}
				}
				walk(resp.GetTree().GetRoot())
				sort.Strings(users)
				res = "[" + strings.Join(users, ",") + "]"
			}
		default:
			panic("bad op " + o.kind)
		}
		out = append(out, strings.ReplaceAll(res, " ", "_"))
	}
	return out
}

func exec(line string, st *hx.Stats) string {
	backend := "m"
	switch {
	case strings.HasPrefix(line, "st "):
		return execStore(line)
	case strings.HasPrefix(line, "sf "):
		return sfres.Exec(line)
	case strings.HasPrefix(line, "isq "):
		backend = "f"
	}
	t := fga.NewToks(line)
	t.Next()
	engine := t.Int()
	ops := parseOps(t)
	inter := runOps(backend, engine, ops, nil)
	solos := make([][]string, 3)
	for s := 0; s < 3; s++ {
		solos[s] = runOps(backend, engine, ops, map[int]bool{s: true})
	}
	// An engine answer that is not stable by itself (Check / ListObjects / ListUsers findings F2, V2-E, LU-C: the
	// same question on the same store answered differently from call to call) says nothing about isolation.  Before
	// reporting a difference between the interleaved and the solo run, both are repeated: a position whose answers
	// vary WITHIN one configuration is marked "N" on both sides (counted, not compared).
	pos := func(s int) []int { // indexes in ops of store s's operations, in order
		var ix []int
		for i, o := range ops {
			if o.s == s {
				ix = append(ix, i)
			}
		}
		return ix
	}
	differs := false
	for s := 0; s < 3 && !differs; s++ {
		for j, i := range pos(s) {
			if j < len(solos[s]) && solos[s][j] != inter[i] {
				differs = true
				break
			}
		}
	}
	if differs {
		interRuns := [][]string{inter}
		soloRuns := [][][]string{{solos[0]}, {solos[1]}, {solos[2]}}
		for r := 0; r < 3; r++ {
			interRuns = append(interRuns, runOps(backend, engine, ops, nil))
			for s := 0; s < 3; s++ {
				soloRuns[s] = append(soloRuns[s], runOps(backend, engine, ops, map[int]bool{s: true}))
			}
		}
		for s := 0; s < 3; s++ {
			for j, i := range pos(s) {
				unstable := false
				for _, run := range interRuns[1:] {
					if i < len(run) && run[i] != inter[i] {
						unstable = true
					}
				}
				for _, run := range soloRuns[s][1:] {
					if j < len(run) && j < len(solos[s]) && run[j] != solos[s][j] {
						unstable = true
					}
				}
				if unstable && j < len(solos[s]) {
					inter[i], solos[s][j] = "N", "N"
					st.Inc("unstable-engine-answer")
				}
			}
		}
	}
	var sb strings.Builder
	sb.WriteString("I")
	for i, r := range inter {
		fmt.Fprintf(&sb, " %d:%s", ops[i].s, r)
	}
	for s := 0; s < 3; s++ {
		fmt.Fprintf(&sb, " | A%d %s", s, strings.Join(solos[s], " "))
	}
	return sb.String()
}

func main() {
	defer cleanupSqlite()
	hx.Main(hx.Harness{Gen: gen, Exec: exec})
}
