// Storage-level cases of C16: every store-scoped operation of storage.OpenFGADatastore on BOTH backends.
//
//	st <m|s> <names> <nops> op…        names: the name index of each of the 3 case stores, e.g. 0,0,1 (stores 0 and 1 share a name)
//
// ops (first argument: the case store 0..2)
//
//	cs s                          CreateStore (fresh ULID; a second cs after ds gives the case store a NEW id)
//	ds s | gs s | ls s <mode>     DeleteStore | GetStore | ListStores: all | name (the store's own name) | ids | nameids
//	wt s o r u c | dt s o r u     Write one tuple (condition c or -, context = a store-specific payload) | delete
//	rd s o r u C                  Read            (empty field = -; C = condition filter: - | comma list, `e` = "")
//	rp s o r u C ps               ReadPage, page size ps, all pages
//	ru s o r u C                  ReadUserTuple
//	rs s o r R C                  ReadUsersetTuples, R = allowed user type restrictions: - | type#rel,type:*,…
//	rw s t r U O C                ReadStartingWithUser, U = user filter type:id[#rel],…  O = object ids - | a,b
//	rc s t                        ReadChanges (type filter or -), all pages
//	wm s | fl s | rm s            WriteAuthorizationModel (fresh id) | FindLatest (rank) | ReadAuthorizationModels (ranks)
//	gm s o k                      ReadAuthorizationModel(store s, id of the k-th model of case store o)  — foreign ids must be "nf"
//	wa s o k tag | ra s o k       WriteAssertions / ReadAssertions under (store s, id of model k of case store o)
//
// The executor runs the whole history on ONE datastore and then, each on a fresh datastore of the same kind, the
// projection of the history on each case store.  Output: I <s>:<answer> … | A0 … | A1 … | A2 … | L <op index>=<listing> …
// (L: for every ListStores of the interleaved run the case stores returned, in the order returned).
package main

import (
	"context"
	"database/sql"
	"errors"
	"fmt"
	"io"
	"os"
	"path/filepath"
	"sort"
	"strconv"
	"strings"
	"sync"

	"github.com/oklog/ulid/v2"
	openfgav1 "github.com/openfga/api/proto/openfga/v1"
	"github.com/pressly/goose/v3"
	"google.golang.org/protobuf/types/known/structpb"

	"github.com/openfga/openfga/assets"
	"github.com/openfga/openfga/pkg/storage"
	"github.com/openfga/openfga/pkg/storage/memory"
	"github.com/openfga/openfga/pkg/storage/sqlcommon"
	"github.com/openfga/openfga/pkg/storage/sqlite"
	"github.com/openfga/openfga/verifharness/fga"
	"github.com/openfga/openfga/verifharness/hx"
)

// ---------------------------------------------------------------- sqlite fixture: a migrated template, copied per run

var (
	tplOnce sync.Once
	tplDir  string
	tplPath string
	tplErr  error
	dbSeq   int
)

func sqliteTemplate() (string, error) {
	tplOnce.Do(func() {
		goose.SetLogger(goose.NopLogger())
		goose.SetBaseFS(assets.EmbedMigrations)
		dir, err := os.MkdirTemp("", "verif-c16-sqlite-*")
		if err != nil {
			tplErr = err
			return
		}
		tplDir = dir
		tplPath = filepath.Join(dir, "template.db")
		uri := fmt.Sprintf("file:%s?_pragma=journal_mode(DELETE)&_pragma=busy_timeout(5000)&_pragma=synchronous(OFF)", tplPath)
		db, err := goose.OpenDBWithDriver("sqlite", uri)
		if err != nil {
			tplErr = err
			return
		}
		if err := goose.Up(db, assets.SqliteMigrationDir); err != nil {
			tplErr = err
		}
		_ = db.Close()
	})
	return tplPath, tplErr
}

func cleanupSqlite() {
	if tplDir != "" {
		_ = os.RemoveAll(tplDir)
	}
}

// templateImage returns the bytes of the migrated template database.
var (
	imgOnce sync.Once
	img     []byte
)

func templateImage() []byte {
	imgOnce.Do(func() {
		tpl, err := sqliteTemplate()
		if err != nil {
			panic(err)
		}
		img, err = os.ReadFile(tpl)
		if err != nil || len(img) < 4096 {
			panic(fmt.Sprintf("sqlite template: %v (%d bytes)", err, len(img)))
		}
	})
	return img
}

// newDatastore returns a fresh, empty datastore of the given kind and its disposer:
//
//	m  memory backend
//	s  the real sqlite Datastore on a private in-memory copy (sqlite3_deserialize) of the migrated template, ONE connection (storage-level
//	   histories are sequential and drain every iterator before the next call) — no file system traffic
//	f  the real sqlite Datastore on a copy of the migrated template file (WAL, connection pool) for the in-process server
func newDatastore(kind string) (storage.OpenFGADatastore, func()) {
	switch kind {
	case "m":
		ds := memory.New()
		return ds, ds.Close
	case "s":
		db, err := sql.Open("sqlite", "file::memory:?_pragma=busy_timeout(5000)&_txlock=immediate")
		if err != nil {
			panic(err)
		}
		db.SetMaxOpenConns(1)
		db.SetMaxIdleConns(1)
		db.SetConnMaxLifetime(0)
		conn, err := db.Conn(context.Background())
		if err != nil {
			panic(err)
		}
		err = conn.Raw(func(dc any) error {
			d, ok := dc.(interface{ Deserialize([]byte) error })
			if !ok {
				return fmt.Errorf("sqlite driver connection has no Deserialize")
			}
			return d.Deserialize(templateImage())
		})
		if err != nil {
			panic(err)
		}
		_ = conn.Close() // back to the pool: the single connection (and with it the database) lives until ds.Close()
		ds, err := sqlite.NewWithDB(db, sqlcommon.NewConfig())
		if err != nil {
			panic(err)
		}
		return ds, ds.Close
	}
	tpl, err := sqliteTemplate()
	if err != nil {
		panic(err)
	}
	dbSeq++
	p := filepath.Join(tplDir, fmt.Sprintf("run%d.db", dbSeq))
	in, err := os.Open(tpl)
	if err != nil {
		panic(err)
	}
	out, err := os.Create(p)
	if err != nil {
		panic(err)
	}
	if _, err := io.Copy(out, in); err != nil {
		panic(err)
	}
	in.Close()
	out.Close()
	ds, err := sqlite.New(fmt.Sprintf("file:%s?_pragma=journal_mode(WAL)&_pragma=busy_timeout(5000)&_pragma=synchronous(OFF)", p), sqlcommon.NewConfig())
	if err != nil {
		panic(err)
	}
	return ds, func() {
		ds.Close()
		_ = os.Remove(p)
		_ = os.Remove(p + "-wal")
		_ = os.Remove(p + "-shm")
	}
}

// ---------------------------------------------------------------- generator

var stObjs = []string{"doc:1", "doc:2", "group:a"}
var stRels = map[string][]string{"doc": {"viewer", "editor"}, "group": {"member"}}
var stUsers = []string{"user:x", "user:y", "user:*", "group:a#member", "group:b#member", "team:t#member", "team:t#lead"}
var stConds = []string{"-", "-", "c1", "c2"}

func condFilter(c *hx.Rand) string {
	switch c.Intn(8) {
	case 0, 1, 2:
		return "-"
	case 3:
		return "e"
	case 4:
		return "c1"
	case 5:
		return "c1,c2"
	case 6:
		return "e,c1"
	default:
		return "e,c1,c2"
	}
}

func genStore(c *hx.Rand, st *hx.Stats, backend string) string {
	names := hx.Pick(c, []string{"0,0,1", "0,0,0", "0,1,2", "1,0,0"})
	var ops []string
	order := []int{0, 1, 2}
	hx.Shuffle(c, order)
	for _, s := range order {
		ops = append(ops, fmt.Sprintf("cs %d", s), fmt.Sprintf("wm %d", s))
	}
	// a pool of keys written to SEVERAL stores (same key, different payload) plus a few per-store ones
	type tup struct{ o, r, u string }
	var pool []tup
	npool, nbase := 7, 14
	if backend == "s" {
		npool, nbase = 5, 9 // a sqlite write costs ~1.5 ms and every case runs on four databases
	}
	for k := 0; k < npool; k++ {
		o := hx.Pick(c, stObjs)
		pool = append(pool, tup{o, hx.Pick(c, stRels[fga.TypeOf(o)]), hx.Pick(c, stUsers)})
	}
	for _, t := range pool {
		for s := 0; s < 3; s++ {
			if c.Chance(2, 3) {
				ops = append(ops, fmt.Sprintf("wt %d %s %s %s %s", s, t.o, t.r, t.u, hx.Pick(c, stConds)))
			}
		}
	}
	nops := nbase + c.Intn(14)
	deleted := map[int]bool{}
	read := func(s int) string {
		t := hx.Pick(c, pool)
		switch c.Intn(9) {
		case 0:
			return fmt.Sprintf("rd %d - - - %s", s, condFilter(c))
		case 1:
			return fmt.Sprintf("rd %d %s %s - %s", s, t.o, hx.Pick(c, []string{"-", t.r}), condFilter(c))
		case 2:
			return fmt.Sprintf("rp %d %s: - %s %s %d", s, fga.TypeOf(t.o), hx.Pick(c, []string{"-", t.u}), condFilter(c), 1+c.Intn(3))
		case 3:
			return fmt.Sprintf("ru %d %s %s %s %s", s, t.o, t.r, t.u, condFilter(c))
		case 4, 5:
			restr := hx.Pick(c, []string{"-", "group#member", "group#member,team#member", "group#member,user:*", "team#lead,team#member,group#member", "user:*"})
			return fmt.Sprintf("rs %d %s %s %s %s", s, t.o, t.r, restr, condFilter(c))
		case 6, 7:
			uf := hx.Pick(c, []string{"user:x", "user:x,user:*", "group:a#member", "user:y,group:b#member,user:*", "team:t#member,team:t#lead"})
			oids := hx.Pick(c, []string{"-", "-", "1", "1,2", "a,1"})
			return fmt.Sprintf("rw %d %s %s %s %s %s", s, fga.TypeOf(t.o), t.r, uf, oids, condFilter(c))
		default:
			return fmt.Sprintf("rc %d %s", s, hx.Pick(c, []string{"-", "doc", "group"}))
		}
	}
	for k := 0; k < nops; k++ {
		s := c.Intn(3)
		t := hx.Pick(c, pool)
		switch p := c.Intn(40); {
		case p < 4:
			ops = append(ops, fmt.Sprintf("wt %d %s %s %s %s", s, t.o, t.r, t.u, hx.Pick(c, stConds)))
		case p < 6:
			ops = append(ops, fmt.Sprintf("dt %d %s %s %s", s, t.o, t.r, t.u))
		case p < 20:
			// the SAME read put to every store in a row
			r := read(0)
			f := strings.SplitN(r, " ", 3)
			perm := []int{0, 1, 2}
			hx.Shuffle(c, perm)
			for _, s2 := range perm[:2+c.Intn(2)] {
				ops = append(ops, fmt.Sprintf("%s %d %s", f[0], s2, f[2]))
			}
		case p < 22:
			ops = append(ops, fmt.Sprintf("wm %d", s))
		case p < 24:
			ops = append(ops, hx.Pick(c, []string{"fl", "rm"})+fmt.Sprintf(" %d", s))
		case p < 27:
			ops = append(ops, fmt.Sprintf("gm %d %d %d", s, c.Intn(3), c.Intn(2)))
		case p < 29:
			ops = append(ops, fmt.Sprintf("wa %d %d %d t%d", s, c.Intn(3), c.Intn(2), c.Intn(4)))
		case p < 31:
			ops = append(ops, fmt.Sprintf("ra %d %d %d", s, c.Intn(3), c.Intn(2)))
		case p < 33:
			ops = append(ops, fmt.Sprintf("gs %d", s))
		case p < 36:
			ops = append(ops, fmt.Sprintf("ls %d %s", s, hx.Pick(c, []string{"all", "name", "name", "ids", "nameids"})))
		default:
			if len(deleted) < 2 && k > nops/3 {
				deleted[s] = true
				ops = append(ops, fmt.Sprintf("ds %d", s), fmt.Sprintf("ls %d name", s), fmt.Sprintf("gs %d", s))
				if c.Chance(1, 8) {
					ops = append(ops, fmt.Sprintf("cs %d", s))
					delete(deleted, s)
				}
			} else {
				ops = append(ops, read(s))
			}
		}
	}
	for s := 0; s < 3; s++ {
		ops = append(ops, fmt.Sprintf("gs %d", s), fmt.Sprintf("ls %d %s", s, hx.Pick(c, []string{"all", "name", "ids", "nameids"})), fmt.Sprintf("rd %d - - - -", s), read(s))
	}
	st.Inc("store-" + backend)
	if len(deleted) > 0 {
		st.Inc("store-with-delete-store")
	}
	return fmt.Sprintf("st %s %s %d %s", backend, names, len(ops), strings.Join(ops, " "))
}

// ---------------------------------------------------------------- executor

var stArity = map[string]int{"cs": 0, "ds": 0, "gs": 0, "ls": 1, "wt": 4, "dt": 3, "rd": 4, "rp": 5, "ru": 4, "rs": 4, "rw": 5, "rc": 1,
	"wm": 0, "fl": 0, "rm": 0, "gm": 2, "wa": 3, "ra": 2}

func parseStOps(t *fga.Toks) []op {
	n := t.Int()
	out := make([]op, 0, n)
	for i := 0; i < n; i++ {
		k := t.Next()
		a, ok := stArity[k]
		if !ok {
			panic("bad st op " + k)
		}
		o := op{kind: k, s: t.Int()}
		for j := 0; j < a; j++ {
			o.a = append(o.a, t.Next())
		}
		out = append(out, o)
	}
	return out
}

func condList(s string) []string {
	if s == "-" {
		return nil
	}
	var out []string
	for _, c := range strings.Split(s, ",") {
		if c == "e" {
			c = ""
		}
		out = append(out, c)
	}
	return out
}

func stErr(err error) string {
	switch {
	case errors.Is(err, storage.ErrNotFound):
		return "nf"
	case errors.Is(err, storage.ErrCollision):
		return "E:collision"
	case errors.Is(err, storage.ErrInvalidWriteInput):
		return "E:invalidwrite"
	case errors.Is(err, storage.ErrTransactionalWriteFailed):
		return "E:txfailed"
	}
	return "E:" + strings.ReplaceAll(err.Error(), " ", "_")
}

func tupStr(t *openfgav1.Tuple) string {
	k := t.GetKey()
	s := k.GetObject() + "#" + k.GetRelation() + "@" + k.GetUser()
	if c := k.GetCondition(); c != nil && c.GetName() != "" {
		s += "/" + c.GetName() + ":" + c.GetContext().GetFields()["p"].GetStringValue()
	}
	return s
}

func drain(ctx context.Context, it storage.TupleIterator, err error) string {
	if err != nil {
		return stErr(err)
	}
	defer it.Stop()
	var l []string
	for {
		t, err := it.Next(ctx)
		if err != nil {
			if errors.Is(err, storage.ErrIteratorDone) {
				break
			}
			return stErr(err)
		}
		l = append(l, tupStr(t))
	}
	sort.Strings(l)
	return "[" + strings.Join(l, ",") + "]"
}

type stStore struct {
	id     string
	exists bool
	models []string
}

// runStore executes the ops (only those of the case stores in `only`, nil = all) on a fresh datastore.
func runStore(kind string, names []int, ops []op, only map[int]bool) (answers []string, listings []string) {
	ds, done := newDatastore(kind)
	defer done()
	ctx := context.Background()
	var stores [3]stStore
	placeholder := map[string]string{}
	for i := range stores {
		stores[i].id = ulid.Make().String() // reads of a store that was never created address a fresh id
	}
	// a reference (store o, k-th model) is resolved ONCE, at its first use: to the model if it exists by then, else to
	// a fresh id that no store has. Resolving it again later (after store o wrote its k-th model) would make the
	// interleaved run and the solo run of another store use different ids for one reference — a difference of the
	// harness, not of the datastore.
	modelID := func(by, o, k int) string {
		// … per REFERENCING store `by`: what another store referenced earlier must not change what this store's
		// reference means (the solo run of `by` does not contain the other store's operations)
		key := fmt.Sprintf("%d>%d.%d", by, o, k)
		if placeholder[key] == "" {
			if k < len(stores[o].models) {
				placeholder[key] = stores[o].models[k]
			} else {
				placeholder[key] = ulid.Make().String()
			}
		}
		return placeholder[key]
	}
	for idx, o := range ops {
		if only != nil && !only[o.s] {
			continue
		}
		sr := &stores[o.s]
		res := ""
		switch o.kind {
		case "cs":
			id := ulid.Make().String()
			_, err := ds.CreateStore(ctx, &openfgav1.Store{Id: id, Name: fmt.Sprintf("c16-name-%d", names[o.s])})
			if err != nil {
				res = stErr(err)
			} else {
				*sr = stStore{id: id, exists: true}
				res = "ok"
			}
		case "ds":
			if err := ds.DeleteStore(ctx, sr.id); err != nil {
				res = stErr(err)
			} else {
				res = "ok"
			}
		case "gs":
			s, err := ds.GetStore(ctx, sr.id)
			if err != nil {
				res = stErr(err)
			} else {
				res = "name=" + s.GetName()
			}
		case "ls":
			opts := storage.ListStoresOptions{Pagination: storage.NewPaginationOptions(2, "")}
			if o.a[0] == "name" || o.a[0] == "nameids" {
				opts.Name = fmt.Sprintf("c16-name-%d", names[o.s])
			}
			if o.a[0] == "ids" || o.a[0] == "nameids" {
				for i := 2; i >= 0; i-- {
					opts.IDs = append(opts.IDs, stores[i].id)
				}
			}
			var got []string
			listed := false
			bad := ""
			for page := 0; page < 10; page++ {
				l, tok, err := ds.ListStores(ctx, opts)
				if err != nil {
					bad = stErr(err)
					break
				}
				for _, x := range l {
					for i := range stores {
						if stores[i].id == x.GetId() {
							got = append(got, strconv.Itoa(i))
							if i == o.s {
								listed = true
							}
						}
					}
				}
				if tok == "" {
					break
				}
				opts.Pagination.From = tok
			}
			if bad != "" {
				res = bad
			} else {
				res = fmt.Sprintf("listed=%v", listed)
				if only == nil {
					listings = append(listings, fmt.Sprintf("%d=[%s]", idx, strings.Join(got, ",")))
				}
			}
		case "wt":
			tk := &openfgav1.TupleKey{Object: o.a[0], Relation: o.a[1], User: o.a[2]}
			if o.a[3] != "-" {
				cs, _ := structpb.NewStruct(map[string]any{"p": fmt.Sprintf("s%d", o.s)})
				tk.Condition = &openfgav1.RelationshipCondition{Name: o.a[3], Context: cs}
			}
			if err := ds.Write(ctx, sr.id, nil, storage.Writes{tk}); err != nil {
				res = stErr(err)
			} else {
				res = "ok"
			}
		case "dt":
			if err := ds.Write(ctx, sr.id, storage.Deletes{{Object: o.a[0], Relation: o.a[1], User: o.a[2]}}, nil); err != nil {
				res = stErr(err)
			} else {
				res = "ok"
			}
		case "rd":
			it, err := ds.Read(ctx, sr.id, storage.ReadFilter{Object: undash(o.a[0]), Relation: undash(o.a[1]), User: undash(o.a[2]), Conditions: condList(o.a[3])}, storage.ReadOptions{})
			res = drain(ctx, it, err)
		case "rp":
			ps, _ := strconv.Atoi(o.a[4])
			flt := storage.ReadFilter{Object: undash(o.a[0]), Relation: undash(o.a[1]), User: undash(o.a[2]), Conditions: condList(o.a[3])}
			var l []string
			bad := ""
			tok := ""
			for page := 0; page < 40; page++ {
				ts, next, err := ds.ReadPage(ctx, sr.id, flt, storage.ReadPageOptions{Pagination: storage.NewPaginationOptions(int32(ps), tok)})
				if err != nil {
					bad = stErr(err)
					break
				}
				for _, t := range ts {
					l = append(l, tupStr(t))
				}
				if next == "" {
					break
				}
				tok = next
			}
			if bad != "" {
				res = bad
			} else {
				sort.Strings(l)
				res = "[" + strings.Join(l, ",") + "]"
			}
		case "ru":
			t, err := ds.ReadUserTuple(ctx, sr.id, storage.ReadUserTupleFilter{Object: o.a[0], Relation: o.a[1], User: o.a[2], Conditions: condList(o.a[3])}, storage.ReadUserTupleOptions{})
			if err != nil {
				res = stErr(err)
			} else {
				res = tupStr(t)
			}
		case "rs":
			flt := storage.ReadUsersetTuplesFilter{Object: o.a[0], Relation: o.a[1], Conditions: condList(o.a[3])}
			if o.a[2] != "-" {
				for _, r := range strings.Split(o.a[2], ",") {
					if i := strings.Index(r, "#"); i >= 0 {
						flt.AllowedUserTypeRestrictions = append(flt.AllowedUserTypeRestrictions, &openfgav1.RelationReference{Type: r[:i], RelationOrWildcard: &openfgav1.RelationReference_Relation{Relation: r[i+1:]}})
					} else {
						flt.AllowedUserTypeRestrictions = append(flt.AllowedUserTypeRestrictions, &openfgav1.RelationReference{Type: strings.TrimSuffix(r, ":*"), RelationOrWildcard: &openfgav1.RelationReference_Wildcard{Wildcard: &openfgav1.Wildcard{}}})
					}
				}
			}
			it, err := ds.ReadUsersetTuples(ctx, sr.id, flt, storage.ReadUsersetTuplesOptions{})
			res = drain(ctx, it, err)
		case "rw":
			flt := storage.ReadStartingWithUserFilter{ObjectType: o.a[0], Relation: o.a[1], Conditions: condList(o.a[4])}
			for _, u := range strings.Split(o.a[2], ",") {
				or := &openfgav1.ObjectRelation{Object: u}
				if i := strings.Index(u, "#"); i >= 0 {
					or = &openfgav1.ObjectRelation{Object: u[:i], Relation: u[i+1:]}
				}
				flt.UserFilter = append(flt.UserFilter, or)
			}
			if o.a[3] != "-" {
				flt.ObjectIDs = storage.NewSortedSet(strings.Split(o.a[3], ",")...)
			}
			it, err := ds.ReadStartingWithUser(ctx, sr.id, flt, storage.ReadStartingWithUserOptions{})
			res = drain(ctx, it, err)
		case "rc":
			var l []string
			bad := ""
			tok := ""
			for page := 0; page < 20; page++ {
				cs, next, err := ds.ReadChanges(ctx, sr.id, storage.ReadChangesFilter{ObjectType: undash(o.a[0])}, storage.ReadChangesOptions{Pagination: storage.NewPaginationOptions(7, tok)})
				if err != nil {
					if !errors.Is(err, storage.ErrNotFound) {
						bad = stErr(err)
					}
					break
				}
				for _, c := range cs {
					opn := "W"
					if c.GetOperation() == openfgav1.TupleOperation_TUPLE_OPERATION_DELETE {
						opn = "D"
					}
					l = append(l, opn+tupStr(&openfgav1.Tuple{Key: c.GetTupleKey()}))
				}
				if next == "" || next == tok {
					break
				}
				tok = next
			}
			if bad != "" {
				res = bad
			} else {
				res = "[" + strings.Join(l, ",") + "]"
			}
		case "wm":
			id := ulid.Make().String()
			m := &openfgav1.AuthorizationModel{Id: id, SchemaVersion: "1.1", TypeDefinitions: []*openfgav1.TypeDefinition{{Type: "user"}, {Type: fmt.Sprintf("t%d", o.s)}}}
			if err := ds.WriteAuthorizationModel(ctx, sr.id, m); err != nil {
				res = stErr(err)
			} else {
				sr.models = append(sr.models, id)
				res = fmt.Sprintf("ok:%d", len(sr.models)-1)
			}
		case "fl":
			m, err := ds.FindLatestAuthorizationModel(ctx, sr.id)
			if err != nil {
				res = stErr(err)
			} else {
				res = "m" + rankOf(sr.models, m.GetId()) + ":" + typesOf(m)
			}
		case "rm":
			ms, _, err := ds.ReadAuthorizationModels(ctx, sr.id, storage.ReadAuthorizationModelsOptions{Pagination: storage.NewPaginationOptions(50, "")})
			if err != nil {
				res = stErr(err)
			} else {
				var l []string
				for _, m := range ms {
					l = append(l, rankOf(sr.models, m.GetId()))
				}
				res = "[" + strings.Join(l, ",") + "]"
			}
		case "gm":
			oo, _ := strconv.Atoi(o.a[0])
			k, _ := strconv.Atoi(o.a[1])
			id := modelID(o.s, oo, k)
			if only != nil && oo != o.s {
				id = ulid.Make().String() // alone, the other store's model does not exist anywhere
			}
			m, err := ds.ReadAuthorizationModel(ctx, sr.id, id)
			if err != nil {
				res = stErr(err)
			} else {
				res = "model:" + typesOf(m)
			}
		case "wa", "ra":
			oo, _ := strconv.Atoi(o.a[0])
			k, _ := strconv.Atoi(o.a[1])
			id := modelID(o.s, oo, k)
			if o.kind == "wa" {
				as := []*openfgav1.Assertion{{TupleKey: &openfgav1.AssertionTupleKey{Object: "doc:" + o.a[2], Relation: "viewer", User: fmt.Sprintf("user:s%d", o.s)}, Expectation: true}}
				if err := ds.WriteAssertions(ctx, sr.id, id, as); err != nil {
					res = stErr(err)
				} else {
					res = "ok"
				}
			} else {
				as, err := ds.ReadAssertions(ctx, sr.id, id)
				if err != nil {
					res = stErr(err)
				} else {
					var l []string
					for _, a := range as {
						l = append(l, a.GetTupleKey().GetObject()+"@"+a.GetTupleKey().GetUser())
					}
					res = "[" + strings.Join(l, ",") + "]"
				}
			}
		default:
			panic("bad st op " + o.kind)
		}
		answers = append(answers, strings.ReplaceAll(res, " ", "_"))
	}
	return answers, listings
}

func rankOf(models []string, id string) string {
	for i, m := range models {
		if m == id {
			return strconv.Itoa(i)
		}
	}
	return "?"
}

func typesOf(m *openfgav1.AuthorizationModel) string {
	var l []string
	for _, t := range m.GetTypeDefinitions() {
		l = append(l, t.GetType())
	}
	return strings.Join(l, "+")
}

func execStore(line string) string {
	t := fga.NewToks(line)
	t.Expect("st")
	kind := t.Next()
	var names []int
	for _, x := range strings.Split(t.Next(), ",") {
		v, _ := strconv.Atoi(x)
		names = append(names, v)
	}
	ops := parseStOps(t)
	inter, listings := runStore(kind, names, ops, nil)
	var sb strings.Builder
	sb.WriteString("I")
	for i, r := range inter {
		fmt.Fprintf(&sb, " %d:%s", ops[i].s, r)
	}
	for s := 0; s < 3; s++ {
		solo, _ := runStore(kind, names, ops, map[int]bool{s: true})
		fmt.Fprintf(&sb, " | A%d %s", s, strings.Join(solo, " "))
	}
	sb.WriteString(" | L " + strings.Join(listings, " "))
	return sb.String()
}
