// Harness for C17 (models are validated, immutable and resolved to the latest).
//
//	v <model>                 the real typesystem.NewAndValidate on a generated model (valid, or mutated: undefined
//	                          references, computed-userset cycles, missing entrypoints, tupleset with rewrite, reserved names,
//	                          duplicate types, bad type restrictions, one-child unions …) -> "ok" | error class
//	h <nstores> <nops> op…    a history through the in-process server (model cache and typesystem cache enabled):
//	     wm <s> <model>       WriteAuthorizationModel              -> ok:<rank> | rej
//	     rm <s> <rank>        ReadAuthorizationModel(id of rank)   -> same | diff | notfound
//	     rx <s>               ReadAuthorizationModel(unknown id)   -> notfound | found
//	     pr <s>               model-less Check per marker relation -> latest=<rank> | none | several
//	     wt <s> <rank>        model-less Write of doc:x#m<rank>@user:a -> ok | rej
//	     lm <s>               ReadAuthorizationModels              -> ranks, newest first
//	     pi <s> <rank>        Check with the explicit id of rank   -> uses=<rank>
//	every written model carries a marker relation m<k> (k = number of models accepted so far in that store), so that a
//	request tells which model evaluated it.
package main

import (
	"context"
	"errors"
	"fmt"
	"regexp"
	"sort"
	"strconv"
	"strings"
	"sync/atomic"
	"time"

	openfgav1 "github.com/openfga/api/proto/openfga/v1"
	"google.golang.org/protobuf/proto"

	"github.com/openfga/openfga/pkg/server"
	"github.com/openfga/openfga/pkg/storage"
	"github.com/openfga/openfga/pkg/storage/memory"
	"github.com/openfga/openfga/pkg/typesystem"
	"github.com/openfga/openfga/verifharness/fga"
	"github.com/openfga/openfga/verifharness/hx"
)

// ---------------------------------------------------------------- error classes (see Model/ModelValidate.lean VErr.render)

var (
	reTuplesetDirect = regexp.MustCompile(`the '([^']*)' relation is referenced in at least one tupleset`)
	reTTUComputed    = regexp.MustCompile(`undefined relation: (\S+) does not appear as a relation`)
	reAssignable     = regexp.MustCompile(`the assignable relation '([^']*)' in object type '([^']*)' must contain`)
	reNonAssignable  = regexp.MustCompile(`the non-assignable relation '([^']*)' in object type '([^']*)' should not`)
	reRelType        = regexp.MustCompile(`the relation type '([^']*)' on '([^']*)' in object type '([^']*)' is not valid`)
	reUndefTypeDef   = regexp.MustCompile(`undefined type definition for '([^']*)'`)
	reFewChildren    = regexp.MustCompile(`'([^']*)' as (union|intersection) has less than 2 children`)
)

func classify(err error) string {
	if err == nil {
		return "ok"
	}
	s := err.Error()
	var ire *typesystem.InvalidRelationError
	var ite *typesystem.InvalidTypeError
	var rue *typesystem.RelationUndefinedError
	var rce *typesystem.RelationConditionError
	switch {
	case errors.Is(err, typesystem.ErrDuplicateTypes):
		return "duplicate-types"
	case errors.As(err, &ite):
		return "names"
	case strings.Contains(s, "cannot be an empty string") || strings.Contains(s, "an empty string for a name"):
		return "names"
	case reFewChildren.MatchString(s):
		return "few-children " + reFewChildren.FindStringSubmatch(s)[1]
	case errors.As(err, &ire):
		node := ire.ObjectType + "#" + ire.Relation
		switch {
		case errors.Is(ire.Cause, typesystem.ErrReservedKeywords):
			return "names"
		case errors.Is(ire.Cause, typesystem.ErrInvalidUsersetRewrite):
			return "invalid-rewrite " + node
		case errors.Is(ire.Cause, typesystem.ErrNoEntryPointsLoop):
			return "no-entrypoints-loop " + node
		case errors.Is(ire.Cause, typesystem.ErrNoEntrypoints):
			return "no-entrypoints " + node
		case errors.Is(ire.Cause, typesystem.ErrCycle):
			return "cycle " + node
		}
		return "invalid-relation-other " + node
	case errors.As(err, &rce):
		return "condition-undefined " + rce.Relation + " " + rce.Condition
	case reTuplesetDirect.MatchString(s):
		return "tupleset-not-direct " + reTuplesetDirect.FindStringSubmatch(s)[1]
	case reTTUComputed.MatchString(s):
		return "ttu-computed-undefined " + reTTUComputed.FindStringSubmatch(s)[1]
	case errors.As(err, &rue):
		return "relation-undefined " + rue.ObjectType + "#" + rue.Relation
	case reAssignable.MatchString(s):
		m := reAssignable.FindStringSubmatch(s)
		return "assignable-no-types " + m[2] + "#" + m[1]
	case reNonAssignable.MatchString(s):
		m := reNonAssignable.FindStringSubmatch(s)
		return "non-assignable-types " + m[2] + "#" + m[1]
	case reRelType.MatchString(s):
		m := reRelType.FindStringSubmatch(s)
		rt := m[1]
		if !strings.Contains(rt, "#") {
			rt += "#"
		}
		return "invalid-relation-type " + m[3] + "#" + m[2] + " " + rt
	case reUndefTypeDef.MatchString(s):
		return "undefined-typedef " + reUndefTypeDef.FindStringSubmatch(s)[1]
	}
	return "other:" + strings.ReplaceAll(strings.ReplaceAll(s, "\n", " "), "\t", " ")
}

// ---------------------------------------------------------------- model mutations

func clone(m *fga.Model) *fga.Model {
	t := fga.NewToks(m.Encode())
	return fga.DecodeModel(t)
}

func leaves(rw *fga.Rewrite, out *[]*fga.Rewrite) {
	if len(rw.Kids) == 0 {
		*out = append(*out, rw)
	}
	for _, k := range rw.Kids {
		leaves(k, out)
	}
}

type relRef struct {
	t  *fga.TypeDef
	rd *fga.RelDef
}

func rels(m *fga.Model) []relRef {
	var out []relRef
	for _, t := range m.Types {
		for _, rd := range t.Rels {
			out = append(out, relRef{t, rd})
		}
	}
	return out
}

func mutate(r *hx.Rand, m0 *fga.Model, st *hx.Stats) *fga.Model {
	m := clone(m0)
	all := rels(m)
	if len(all) == 0 {
		return m
	}
	x := hx.Pick(r, all)
	this := func() *fga.Rewrite { return &fga.Rewrite{Kind: "this"} }
	cu := func(n string) *fga.Rewrite { return &fga.Rewrite{Kind: "cu", Rel: n} }
	other := func(t *fga.TypeDef, not string) string {
		var c []string
		for _, rd := range t.Rels {
			if rd.Name != not {
				c = append(c, rd.Name)
			}
		}
		if len(c) == 0 {
			return "nosuch"
		}
		return hx.Pick(r, c)
	}
	kind := r.Intn(24)
	st.Inc(fmt.Sprintf("mut-%02d", kind))
	switch kind {
	case 0: // computed userset to an undefined relation
		var ls []*fga.Rewrite
		leaves(x.rd.Rewrite, &ls)
		l := hx.Pick(r, ls)
		*l = *cu("nosuch")
		if len(ls) == 1 {
			x.rd.Restrs = nil
		}
	case 1: // computed userset to itself
		var ls []*fga.Rewrite
		leaves(x.rd.Rewrite, &ls)
		*hx.Pick(r, ls) = *cu(x.rd.Name)
	case 2, 3: // cycle of computed usersets (2 or 3 relations), bare or under union / intersection / difference
		if len(x.t.Rels) >= 2 {
			perm := append([]*fga.RelDef{}, x.t.Rels...)
			hx.Shuffle(r, perm)
			n := 2
			if len(perm) >= 3 && kind == 3 {
				n = 3
			}
			for i := 0; i < n; i++ {
				next := perm[(i+1)%n].Name
				if perm[i].Name == "parent" || next == "parent" {
					continue
				}
				switch r.Intn(4) {
				case 0:
					perm[i].Rewrite, perm[i].Restrs = cu(next), nil
				case 1:
					perm[i].Rewrite = &fga.Rewrite{Kind: "union", Kids: []*fga.Rewrite{this(), cu(next)}}
					if len(perm[i].Restrs) == 0 {
						perm[i].Restrs = []fga.Restr{{Typ: "user"}}
					}
				case 2:
					perm[i].Rewrite = &fga.Rewrite{Kind: "inter", Kids: []*fga.Rewrite{this(), cu(next)}}
					if len(perm[i].Restrs) == 0 {
						perm[i].Restrs = []fga.Restr{{Typ: "user"}}
					}
				default:
					perm[i].Rewrite = &fga.Rewrite{Kind: "diff", Kids: []*fga.Rewrite{this(), cu(next)}}
					if len(perm[i].Restrs) == 0 {
						perm[i].Restrs = []fga.Restr{{Typ: "user"}}
					}
				}
			}
		}
	case 4: // only userset restrictions pointing at each other: no entrypoint
		y := hx.Pick(r, all)
		x.rd.Rewrite, x.rd.Restrs = this(), []fga.Restr{{Typ: y.t.Name, Rel: y.rd.Name}}
		if y.rd.Name != "parent" {
			y.rd.Rewrite, y.rd.Restrs = this(), []fga.Restr{{Typ: x.t.Name, Rel: x.rd.Name}}
		}
	case 5: // a relation that is only a computed userset of one without entrypoint (self-referencing userset only)
		x.rd.Rewrite, x.rd.Restrs = this(), []fga.Restr{{Typ: x.t.Name, Rel: x.rd.Name}}
	case 6: // intersection / difference whose second operand has no entrypoint
		o := other(x.t, x.rd.Name)
		k := hx.Pick(r, []string{"inter", "diff", "union"})
		x.rd.Rewrite = &fga.Rewrite{Kind: k, Kids: []*fga.Rewrite{this(), cu(o)}}
		if len(x.rd.Restrs) == 0 {
			x.rd.Restrs = []fga.Restr{{Typ: "user"}}
		}
		for _, rd := range x.t.Rels {
			if rd.Name == o && o != "parent" {
				rd.Rewrite, rd.Restrs = this(), []fga.Restr{{Typ: x.t.Name, Rel: o}}
			}
		}
	case 7: // tupleset relation with a rewrite
		for _, rd := range x.t.Rels {
			if rd.Name == "parent" {
				rd.Rewrite = hx.Pick(r, []*fga.Rewrite{
					{Kind: "union", Kids: []*fga.Rewrite{this(), cu(other(x.t, "parent"))}},
					cu(other(x.t, "parent")),
					{Kind: "inter", Kids: []*fga.Rewrite{this(), this()}},
				})
				if rd.Rewrite.Kind == "cu" {
					rd.Restrs = nil
				}
			}
		}
	case 8: // tupleset relation with a userset / wildcard restriction
		for _, rd := range x.t.Rels {
			if rd.Name == "parent" {
				y := hx.Pick(r, all)
				rd.Restrs = append(rd.Restrs, hx.Pick(r, []fga.Restr{{Typ: y.t.Name, Rel: y.rd.Name}, {Typ: y.t.Name, Wild: true}, {Typ: "user", Wild: true}}))
			}
		}
	case 9: // tuple-to-userset whose computed relation exists nowhere / tupleset undefined
		var ls []*fga.Rewrite
		leaves(x.rd.Rewrite, &ls)
		l := hx.Pick(r, ls)
		if r.Bool() {
			*l = fga.Rewrite{Kind: "ttu", Tupleset: "parent", Computed: "nosuch"}
		} else {
			*l = fga.Rewrite{Kind: "ttu", Tupleset: hx.Pick(r, []string{"nosuch", other(x.t, "parent")}), Computed: x.rd.Name}
		}
	case 10: // reserved names
		if r.Bool() {
			x.rd.Name = hx.Pick(r, []string{"self", "this"})
		} else {
			x.t.Name = hx.Pick(r, []string{"self", "this"})
		}
	case 11: // duplicate type
		m.Types = append(m.Types, &fga.TypeDef{Name: hx.Pick(r, m.Types).Name})
	case 12: // restriction to an unknown type / relation / condition
		if len(x.rd.Restrs) > 0 {
			i := r.Intn(len(x.rd.Restrs))
			switch r.Intn(4) {
			case 0:
				x.rd.Restrs[i].Typ = "nosuch"
			case 1:
				x.rd.Restrs[i].Rel = "nosuch"
				x.rd.Restrs[i].Wild = false
			case 2:
				x.rd.Restrs[i].Cond = "nocond"
			default:
				x.rd.Restrs = append(x.rd.Restrs, fga.Restr{Typ: "user", Rel: "member"})
			}
		}
	case 13: // assignable without restrictions / non-assignable with restrictions
		if len(x.rd.Restrs) > 0 {
			x.rd.Restrs = nil
		} else {
			x.rd.Restrs = []fga.Restr{{Typ: "user"}}
		}
	case 14: // union / intersection with fewer than two children
		k := hx.Pick(r, []string{"union", "inter"})
		if r.Chance(1, 3) {
			x.rd.Rewrite = &fga.Rewrite{Kind: k}
		} else {
			x.rd.Rewrite = &fga.Rewrite{Kind: k, Kids: []*fga.Rewrite{x.rd.Rewrite}}
		}
	case 15: // drop a type that others reference
		if len(m.Types) > 2 {
			i := 1 + r.Intn(len(m.Types)-1)
			m.Types = append(m.Types[:i], m.Types[i+1:]...)
		}
	case 16: // drop a relation that others reference
		if len(x.t.Rels) > 1 {
			var keep []*fga.RelDef
			for _, rd := range x.t.Rels {
				if rd != x.rd {
					keep = append(keep, rd)
				}
			}
			x.t.Rels = keep
		}
	case 17: // entrypoint only through a tuple-to-userset into a loop
		for _, rd := range x.t.Rels {
			if rd.Name == "parent" && x.rd.Name != "parent" {
				rd.Restrs = []fga.Restr{{Typ: x.t.Name}}
				x.rd.Rewrite, x.rd.Restrs = &fga.Rewrite{Kind: "ttu", Tupleset: "parent", Computed: x.rd.Name}, nil
			}
		}
	case 18: // intersection of a direct relation with a tuple-to-userset that only loops
		for _, rd := range x.t.Rels {
			if rd.Name == "parent" && x.rd.Name != "parent" {
				rd.Restrs = []fga.Restr{{Typ: x.t.Name}}
				x.rd.Rewrite = &fga.Rewrite{Kind: hx.Pick(r, []string{"inter", "diff"}), Kids: []*fga.Rewrite{this(), {Kind: "ttu", Tupleset: "parent", Computed: x.rd.Name}}}
				x.rd.Restrs = []fga.Restr{{Typ: "user"}}
			}
		}
	default: // two mutations at once / none (stays valid)
		if r.Bool() {
			return mutate(r, mutate(r, m, st), st)
		}
	}
	return m
}

// ---------------------------------------------------------------- generator

func genValid(r *hx.Rand) *fga.Model {
	o := fga.DefaultOpts()
	m, _ := fga.GenModel(r, o)
	return m
}

// withMarker adds type doc (if missing) with relation m<k>: [user].
func withMarker(m0 *fga.Model, k int) *fga.Model {
	m := clone(m0)
	var doc *fga.TypeDef
	for _, t := range m.Types {
		if t.Name == "doc" {
			doc = t
		}
	}
	if doc == nil {
		doc = &fga.TypeDef{Name: "doc"}
		m.Types = append(m.Types, doc)
	}
	doc.Rels = append(doc.Rels, &fga.RelDef{Name: fmt.Sprintf("m%d", k), Rewrite: &fga.Rewrite{Kind: "this"}, Restrs: []fga.Restr{{Typ: "user"}}})
	return m
}

func gen(r *hx.Rand, n int, tier string, emit func(string), st *hx.Stats) {
	for _, c := range []string{"sf 1 0", "sf 1 1", "sf 3 0", "sf 2 1"} {
		emit(c)
		st.Inc("singleflight-scenario")
	}
	for i := 0; i < n; i++ {
		c := r.Fork()
		if c.Chance(1, 5) {
			// history
			ns := 1 + c.Intn(2)
			nops := 6 + c.Intn(14)
			accepted := make([]int, ns)
			var ops []string
			for k := 0; k < nops; k++ {
				s := c.Intn(ns)
				switch p := c.Intn(20); {
				case p < 7:
					m := genValid(c)
					mm := withMarker(m, accepted[s])
					if c.Chance(1, 3) {
						mm = mutate(c, mm, st)
					}
					if typesysValid(mm) {
						accepted[s]++
					}
					ops = append(ops, fmt.Sprintf("wm %d %s", s, mm.Encode()))
				case p < 11:
					ops = append(ops, fmt.Sprintf("pr %d", s))
				case p < 13:
					ops = append(ops, fmt.Sprintf("rm %d %d", s, c.Intn(accepted[s]+1)))
				case p < 14:
					ops = append(ops, fmt.Sprintf("rx %d", s))
				case p < 16:
					ops = append(ops, fmt.Sprintf("wt %d %d", s, c.Intn(accepted[s]+1)))
				case p < 18:
					ops = append(ops, fmt.Sprintf("lm %d", s))
				default:
					ops = append(ops, fmt.Sprintf("pi %d %d", s, c.Intn(accepted[s]+1)))
				}
			}
			emit(fmt.Sprintf("h %d %d %s", ns, len(ops), strings.Join(ops, " ")))
			st.Inc("history")
			continue
		}
		m := genValid(c)
		if c.Chance(3, 4) {
			m = mutate(c, m, st)
			st.Inc("mutated")
		} else {
			st.Inc("valid")
		}
		emit("v " + m.Encode())
	}
}

func typesysValid(m *fga.Model) bool {
	_, err := typesystem.NewAndValidate(context.Background(), m.Proto("01HVMMBCMGZNT3SED4Z17ECXCA"))
	return err == nil
}

// ---------------------------------------------------------------- concurrency scenario (singleflight)

// slowDS delays the return of ONE FindLatestAuthorizationModel call (after it has read the backend) until released.
type slowDS struct {
	storage.OpenFGADatastore
	block   atomic.Bool
	entered chan struct{}
	release chan struct{}
}

func (s *slowDS) FindLatestAuthorizationModel(ctx context.Context, store string) (*openfgav1.AuthorizationModel, error) {
	m, err := s.OpenFGADatastore.FindLatestAuthorizationModel(ctx, store)
	if s.block.CompareAndSwap(true, false) {
		s.entered <- struct{}{}
		<-s.release
	}
	return m, err
}

func markerModel(k int) *fga.Model {
	return &fga.Model{Types: []*fga.TypeDef{{Name: "user"}, {Name: "doc", Rels: []*fga.RelDef{{Name: fmt.Sprintf("m%d", k), Rewrite: &fga.Rewrite{Kind: "this"}, Restrs: []fga.Restr{{Typ: "user"}}}}}}}
}

// sfScenario: request A (no model id) is inside a slow FindLatest that already read model `n-1`; model `n` is written and
// acknowledged; request B (no model id) starts afterwards; A's lookup is released. variant 1: B starts only after A finished
// (no overlap: the sequential control).
func sfScenario(n, variant int) string {
	ctx := context.Background()
	ds := &slowDS{OpenFGADatastore: memory.New(), entered: make(chan struct{}, 1), release: make(chan struct{})}
	s := server.MustNewServerWithOpts(server.WithDatastore(ds))
	defer s.Close()
	st, err := s.CreateStore(ctx, &openfgav1.CreateStoreRequest{Name: "c17"})
	if err != nil {
		panic(err)
	}
	write := func(k int) {
		am := markerModel(k).Proto("")
		if _, err := s.WriteAuthorizationModel(ctx, &openfgav1.WriteAuthorizationModelRequest{StoreId: st.GetId(), SchemaVersion: am.GetSchemaVersion(), TypeDefinitions: am.GetTypeDefinitions()}); err != nil {
			panic(err)
		}
	}
	check := func(k int) string {
		_, err := s.Check(ctx, &openfgav1.CheckRequest{StoreId: st.GetId(), TupleKey: &openfgav1.CheckRequestTupleKey{Object: "doc:x", Relation: fmt.Sprintf("m%d", k), User: "user:a"}})
		if err == nil {
			return "fresh"
		}
		if strings.Contains(err.Error(), "not found") {
			return "stale"
		}
		return "err"
	}
	for k := 0; k < n; k++ {
		write(k)
		_ = check(k) // warm the caches with every older model
	}
	ds.block.Store(true)
	aDone := make(chan string, 1)
	go func() { aDone <- check(n - 1) }()
	<-ds.entered
	write(n)
	var a, b string
	if variant == 1 {
		close(ds.release)
		a = <-aDone
		b = check(n)
	} else {
		bDone := make(chan string, 1)
		go func() { bDone <- check(n) }()
		time.Sleep(150 * time.Millisecond)
		close(ds.release)
		a, b = <-aDone, <-bDone
	}
	return fmt.Sprintf("A=%s B=%s C=%s", a, b, check(n))
}

// ---------------------------------------------------------------- executor

var theSrv *server.Server

func srv() *server.Server {
	if theSrv == nil {
		theSrv = server.MustNewServerWithOpts(server.WithDatastore(memory.New()))
	}
	return theSrv
}

type storeState struct {
	id     string
	ids    []string                       // accepted model ids in write order
	models []*openfgav1.AuthorizationModel // what was written (with the id filled in)
}

func canon(m *openfgav1.AuthorizationModel) string {
	b, err := proto.MarshalOptions{Deterministic: true}.Marshal(m)
	if err != nil {
		return "marshal-error"
	}
	return string(b)
}

func exec(line string, st *hx.Stats) string {
	t := fga.NewToks(line)
	kind := t.Next()
	ctx := context.Background()
	if kind == "sf" {
		n := t.Int()
		return sfScenario(n, t.Int())
	}
	if kind == "v" {
		m := fga.DecodeModel(t)
		_, err := typesystem.NewAndValidate(ctx, m.Proto("01HVMMBCMGZNT3SED4Z17ECXCA"))
		return classify(err)
	}
	s := srv()
	ns := t.Int()
	nops := t.Int()
	stores := make([]*storeState, ns)
	for i := range stores {
		cs, err := s.CreateStore(ctx, &openfgav1.CreateStoreRequest{Name: "c17"})
		if err != nil {
			panic(err)
		}
		stores[i] = &storeState{id: cs.GetId()}
	}
	var out []string
	rankOf := func(ss *storeState, id string) string {
		for i, x := range ss.ids {
			if x == id {
				return strconv.Itoa(i)
			}
		}
		return "?"
	}
	for k := 0; k < nops; k++ {
		op := t.Next()
		ss := stores[t.Int()]
		switch op {
		case "wm":
			m := fga.DecodeModel(t)
			am := m.Proto("")
			resp, err := s.WriteAuthorizationModel(ctx, &openfgav1.WriteAuthorizationModelRequest{StoreId: ss.id, SchemaVersion: am.GetSchemaVersion(), TypeDefinitions: am.GetTypeDefinitions(), Conditions: am.GetConditions()})
			if err != nil {
				out = append(out, "rej")
				break
			}
			am.Id = resp.GetAuthorizationModelId()
			if len(ss.ids) > 0 && !(am.Id > ss.ids[len(ss.ids)-1]) {
				out = append(out, "ok-id-not-greater")
			} else {
				out = append(out, fmt.Sprintf("ok:%d", len(ss.ids)))
			}
			ss.ids = append(ss.ids, am.Id)
			ss.models = append(ss.models, am)
		case "rm":
			rk := t.Int()
			if rk >= len(ss.ids) {
				out = append(out, "norank")
				break
			}
			resp, err := s.ReadAuthorizationModel(ctx, &openfgav1.ReadAuthorizationModelRequest{StoreId: ss.id, Id: ss.ids[rk]})
			switch {
			case err != nil:
				out = append(out, "notfound")
			case canon(resp.GetAuthorizationModel()) == canon(ss.models[rk]):
				out = append(out, "same")
			default:
				out = append(out, "diff")
			}
		case "rx":
			_, err := s.ReadAuthorizationModel(ctx, &openfgav1.ReadAuthorizationModelRequest{StoreId: ss.id, Id: "01HVMMBCMGZNT3SED4Z17ECXCA"})
			if err != nil {
				out = append(out, "notfound")
			} else {
				out = append(out, "found")
			}
		case "pr":
			var hits []string
			for j := range ss.ids {
				_, err := s.Check(ctx, &openfgav1.CheckRequest{StoreId: ss.id, TupleKey: &openfgav1.CheckRequestTupleKey{Object: "doc:x", Relation: fmt.Sprintf("m%d", j), User: "user:a"}})
				if err == nil {
					hits = append(hits, strconv.Itoa(j))
				}
			}
			switch {
			case len(ss.ids) == 0:
				_, err := s.Check(ctx, &openfgav1.CheckRequest{StoreId: ss.id, TupleKey: &openfgav1.CheckRequestTupleKey{Object: "doc:x", Relation: "m0", User: "user:a"}})
				if err != nil && strings.Contains(err.Error(), "No authorization models found") {
					out = append(out, "nomodel")
				} else {
					out = append(out, "nomodel-unexpected")
				}
			case len(hits) == 1:
				out = append(out, "latest="+hits[0])
			case len(hits) == 0:
				out = append(out, "none")
			default:
				out = append(out, "several="+strings.Join(hits, ","))
			}
		case "wt":
			rk := t.Int()
			_, err := s.Write(ctx, &openfgav1.WriteRequest{StoreId: ss.id, Writes: &openfgav1.WriteRequestWrites{TupleKeys: []*openfgav1.TupleKey{{Object: fmt.Sprintf("doc:w%d", k), Relation: fmt.Sprintf("m%d", rk), User: "user:a"}}}})
			if err == nil {
				out = append(out, "ok")
			} else {
				out = append(out, "rej")
			}
		case "lm":
			var ranks []string
			tok := ""
			for {
				resp, err := s.ReadAuthorizationModels(ctx, &openfgav1.ReadAuthorizationModelsRequest{StoreId: ss.id, ContinuationToken: tok})
				if err != nil {
					ranks = append(ranks, "err")
					break
				}
				for _, m := range resp.GetAuthorizationModels() {
					ranks = append(ranks, rankOf(ss, m.GetId()))
				}
				tok = resp.GetContinuationToken()
				if tok == "" {
					break
				}
			}
			out = append(out, "["+strings.Join(ranks, ",")+"]")
		case "pi":
			rk := t.Int()
			if rk >= len(ss.ids) {
				out = append(out, "norank")
				break
			}
			var hits []string
			for j := range ss.ids {
				_, err := s.Check(ctx, &openfgav1.CheckRequest{StoreId: ss.id, AuthorizationModelId: ss.ids[rk], TupleKey: &openfgav1.CheckRequestTupleKey{Object: "doc:x", Relation: fmt.Sprintf("m%d", j), User: "user:a"}})
				if err == nil {
					hits = append(hits, strconv.Itoa(j))
				}
			}
			out = append(out, "uses="+strings.Join(hits, ","))
		default:
			panic("bad op " + op)
		}
	}
	// ids of a store strictly increase in write order
	for _, ss := range stores {
		if !sort.StringsAreSorted(ss.ids) {
			out = append(out, "IDS-NOT-SORTED")
		}
		_, _ = s.DeleteStore(ctx, &openfgav1.DeleteStoreRequest{StoreId: ss.id})
	}
	return strings.Join(out, " ")
}

func main() { hx.Main(hx.Harness{Gen: gen, Exec: exec}) }
